(* Proofs/C06_SegFileClsEx.v - the side condition of C06_SegFileCls read on the ARGUMENTS of push / extend: a segment
   whose characters, after the removal of TAB / LF / CR, do not begin with an ASCII letter followed by ':' or '|'
   (arg_nd) is written as a text that does not begin like a drive letter (seg_nd), because percent-encoding and UTF-8
   encoding never produce a letter, ':' or '|' from another character.  Example on file:///tmp/a. *)
From Coq Require Import String.
From RU Require Import Base.Prelude Base.Utf8 Base.Utf8Facts Model.AsciiSet Gen.Tables
  Model.PercentEncoding Model.HostT Model.UrlRecord Model.Parser Model.Setters Model.WF
  Proofs.ListN Proofs.C14_Set Proofs.C14_Enc Proofs.C02_Parts Proofs.C02_Opaque Proofs.C02_Path Proofs.C02_Reach Proofs.C02_AuthParts Proofs.C02_Canon
  Proofs.C02_AuthMain Proofs.C02_File Proofs.C02_FileCanon
  Proofs.C06_Path Proofs.C06_Segments Proofs.C06_SegPush Proofs.C06_SegFile Proofs.C06_SegFileCanon Proofs.C06_SegFileCls.
Open Scope N_scope.
Open Scope list_scope.

Lemma not_alpha_37_high b : b = 37 \/ 192 <= b -> is_alpha b = false.
Proof. intros H. unfold is_alpha, is_upper, is_lower. destruct H as [->|H]; [reflexivity|]. lia. Qed.

(* the text written for one character: the character itself, or a text led by '%' or by a byte >= 0xC0 *)
Lemma etext1 c : etext [c] = [c] \/ exists b t, etext [c] = b :: t /\ (b = 37 \/ 192 <= b).
Proof.
  unfold etext. set (S := seg_set STFile). unfold utf8_encode. cbn [flat_map]. rewrite app_nil_r. unfold utf8_encode1.
  destruct (c <? 128) eqn:E1; [|destruct (c <? 2048); [|destruct (c <? 65536)]];
    rewrite encode_cons; unfold enc1, enc_byte_spec; destruct (should_encode S _); cbn [app];
    try (left; reflexivity); right; eexists; eexists; (split; [reflexivity|]); lia.
Qed.

Lemma etext_cons c r : etext (c :: r) = etext [c] ++ etext r.
Proof. change (c :: r) with ([c] ++ r). apply etext_app. Qed.

Lemma etext_head d r : exists b t, etext (d :: r) = b :: t /\ (b = 37 \/ b = d \/ 192 <= b).
Proof.
  rewrite etext_cons. destruct (etext1 d) as [->|(b & t & -> & Hb)].
  - exists d, (etext r). split; [reflexivity | lia].
  - exists b, (t ++ etext r). split; [reflexivity | lia].
Qed.

Lemma etext_not_like s : wdl_like s = false -> wdl_like (etext s) = false.
Proof.
  destruct s as [|c r]; [reflexivity|]. intros H. rewrite etext_cons.
  destruct (etext1 c) as [->|(b & t & -> & Hb)].
  - destruct r as [|d r']; [reflexivity|]. destruct (etext_head d r') as (b & t & -> & Hb).
    cbn [app wdl_like] in *. destruct (is_alpha c); [|reflexivity]. cbn [andb] in *.
    apply orb_false_iff in H. destruct H as [H1 H2]. apply N.eqb_neq in H1. apply N.eqb_neq in H2.
    apply orb_false_iff. split; apply N.eqb_neq; lia.
  - cbn [app]. destruct (t ++ etext r) as [|b2 x]; [reflexivity|]. cbn [wdl_like].
    rewrite (not_alpha_37_high b Hb). reflexivity.
Qed.

(* the side condition on the arguments *)
Definition arg_nd (seg : list N) : bool := negb (wdl_like (strip_tnl seg)).
Definition op_arg_nd (o : psm_op) : bool :=
  match o with PPush s => arg_nd s | PExtend ss => forallb arg_nd ss | _ => true end.
Definition session_arg_nd (ops : list psm_op) : bool := forallb op_arg_nd ops.

Lemma arg_nd_seg_nd seg : arg_nd seg = true -> seg_nd seg = true.
Proof.
  unfold arg_nd, seg_nd. intros H. apply negb_true_iff in H. apply orb_true_iff. right. apply negb_true_iff.
  exact (etext_not_like (strip_tnl seg) H).
Qed.

Lemma session_arg_nd_nd ops : session_arg_nd ops = true -> session_nd ops = true.
Proof.
  unfold session_arg_nd, session_nd. apply forallb_impl. intros o H.
  destruct o; cbn [op_arg_nd op_nd] in *; try reflexivity.
  - apply arg_nd_seg_nd. exact H.
  - revert H. apply forallb_impl. exact arg_nd_seg_nd.
Qed.

Section FileArg.
Variable dbg : bool.
Variable hp hpo : list N -> result host.
Variable hd : host -> list N.
Hypothesis HRT : HostRT hp hpo hd.

(* a session whose pushed segments do not begin (TAB / LF / CR removed) with a letter followed by ':' or '|', on a
   canonical file record, returns a canonical file record, the path replaced by the explicit session text *)
Theorem psm_FileCanon_arg u ops u' : FileCanon hp hd u -> session_arg_nd ops = true -> Forall psm_op_usv ops ->
  path_segments_session dbg u ops = Some (u', SOk) -> nlen (ser u') <= U32_MAX_P ->
  FileCanon hp hd u' /\ u' = with_path u (session_text STFile (path_bytes u) ops).
Proof.
  intros FC Hn. exact (psm_FileCanon_nd dbg hp hpo hd HRT u ops u' FC (session_arg_nd_nd ops Hn)).
Qed.

(* one push and one pop *)
Corollary push_FileCanon u seg u' : FileCanon hp hd u -> arg_nd seg = true -> usv_list seg ->
  path_segments_session dbg u [PPush seg] = Some (u', SOk) -> nlen (ser u') <= U32_MAX_P -> FileCanon hp hd u'.
Proof.
  intros FC Hn Hu E Hb. refine (proj1 (psm_FileCanon_arg u [PPush seg] u' FC _ _ E Hb)).
  - unfold session_arg_nd. cbn [forallb op_arg_nd]. rewrite Hn. reflexivity.
  - constructor; [exact Hu | constructor].
Qed.

Corollary pop_FileCanon u u' : FileCanon hp hd u ->
  path_segments_session dbg u [PPop] = Some (u', SOk) -> nlen (ser u') <= U32_MAX_P -> FileCanon hp hd u'.
Proof.
  intros FC E Hb. refine (proj1 (psm_FileCanon_arg u [PPop] u' FC eq_refl _ E Hb)).
  constructor; [exact I | constructor].
Qed.
End FileArg.

(* ---------- file:///tmp/a ---------- *)
Definition fx_url : url := file_curl ex_hd None (path_text [B "tmp"] (B "a")) None None.
Definition fx_ops : list psm_op := [PPop; PPush (B "b c"); PPopIfEmpty; PExtend [B ".."; 9 :: B "d"]; PPush (B "1:")].
Definition fx_res : url := file_curl ex_hd None (path_text [B "tmp"; B "b%20c"; B "d"] (B "1:")) None None.

Example fx_file_ok : file_ok ex_hp ex_hd None [B "tmp"] (B "a") None None.
Proof. constructor; try (vm_compute; reflexivity); try (vm_compute; discriminate); exact I. Qed.

Example file_tmp_a_session :
  HostRT ex_hp ex_hp ex_hd /\ FileCanon ex_hp ex_hd fx_url /\ ser fx_url = B "file:///tmp/a"
  /\ session_arg_nd fx_ops = true /\ Forall psm_op_usv fx_ops
  /\ path_segments_session true fx_url fx_ops = Some (fx_res, SOk)
  /\ ser fx_res = B "file:///tmp/b%20c/d/1:" /\ FileCanon ex_hp ex_hd fx_res
  (* one push, one pop *)
  /\ (exists u1, path_segments_session true fx_url [PPush (B "x y")] = Some (u1, SOk) /\ ser u1 = B "file:///tmp/a/x%20y"
                 /\ FileCanon ex_hp ex_hd u1)
  /\ (exists u2, path_segments_session true fx_url [PPop] = Some (u2, SOk) /\ ser u2 = B "file:///tmp"
                 /\ FileCanon ex_hp ex_hd u2)
  (* the side condition is needed: "C|" pushed at the root is rewritten to a drive letter, a class C02 excludes *)
  /\ session_arg_nd [PClear; PPush (B "C|")] = false
  /\ (exists u3, path_segments_session true fx_url [PClear; PPush (B "C|")] = Some (u3, SOk) /\ ser u3 = B "file:///C:"
                 /\ Known_file_drive u3 = true).
Proof.
  pose proof (proj1 ex_host_RT) as HRT.
  assert (FileCanon ex_hp ex_hd fx_url) as FC by (constructor; exact fx_file_ok).
  assert (Forall psm_op_usv fx_ops) as Hu.
  { repeat constructor; unfold is_usv; lia. }
  assert (path_segments_session true fx_url fx_ops = Some (fx_res, SOk)) as E by (vm_compute; reflexivity).
  split; [exact HRT|]. split; [exact FC|]. split; [vm_compute; reflexivity|]. split; [vm_compute; reflexivity|].
  split; [exact Hu|]. split; [exact E|]. split; [vm_compute; reflexivity|]. split.
  { refine (proj1 (psm_FileCanon_arg true ex_hp ex_hp ex_hd HRT fx_url fx_ops fx_res FC eq_refl Hu E _)). vm_compute. discriminate. }
  split.
  { eexists. split; [vm_compute; reflexivity|]. split; [vm_compute; reflexivity|].
    refine (push_FileCanon true ex_hp ex_hp ex_hd HRT fx_url (B "x y") _ FC eq_refl _ _ _).
    - repeat constructor; unfold is_usv; lia.
    - vm_compute. reflexivity.
    - vm_compute. discriminate. }
  split.
  { eexists. split; [vm_compute; reflexivity|]. split; [vm_compute; reflexivity|].
    refine (pop_FileCanon true ex_hp ex_hp ex_hd HRT fx_url _ FC _ _).
    - vm_compute. reflexivity.
    - vm_compute. discriminate. }
  split; [vm_compute; reflexivity|].
  eexists. split; [vm_compute; reflexivity|]. split; vm_compute; reflexivity.
Qed.
