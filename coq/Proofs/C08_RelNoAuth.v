(* Proofs/C08_RelNoAuth.v - the inverse law for the class where C02 proved the canonical form of EVERY parse
   result (C02_L1_noauth): non-special URLs without authority, "scheme:/path".  Both records in C02's form
   noauth_url; inside MR_ok the "/." marker is absent (a path starting with "//" has an empty first segment:
   class 43), so the records are hier_url's with pre = "scheme:" and C08_RelLaw applies. *)
From RU Require Import Base.Prelude Base.Utf8 Base.Utf8Facts Model.AsciiSet Gen.Tables Model.PercentEncoding
  Model.HostT Model.UrlRecord Model.Parser Model.Setters Model.WF Model.MakeRelative Model.KnownC08
  Proofs.ListN Proofs.C14_Enc Proofs.C02_Enc Proofs.C02_Parts Proofs.C02_Opaque Proofs.C02_Path Proofs.C02_PathL1
  Proofs.C08_Input Proofs.C08_Simple Proofs.C08_Contain Proofs.C08_RelEval Proofs.C08_RelPath Proofs.C08_RelJoin
  Proofs.C08_RelMr Proofs.C08_RelLaw Proofs.C08_RelCanon.

Lemma noauth_is_hier sch segs last q f :
  noauth_url sch (path_text segs last) q f
  = hier_url ((sch ++ [58]) ++ marker_of (path_text segs last)) (nlen sch)
             (nlen (sch ++ [58])) (nlen (sch ++ [58])) (nlen (sch ++ [58])) HI_None None segs last q f.
Proof.
  unfold noauth_url, hier_url, noauth_ser, noauth_pre.
  rewrite (app_assoc (sch ++ [58]) (marker_of (path_text segs last)) (path_text segs last)).
  rewrite (nlen_app (sch ++ [58]) (marker_of (path_text segs last))). reflexivity.
Qed.

Lemma good_segs_no_slash segs : forallb good_seg segs = true -> forallb no_slash segs = true.
Proof. apply forallb_impl. intros s H. destruct (good_seg_parts s H) as (_ & Hn & _). exact Hn. Qed.

Lemma seg_ok_nonspecial s : good_seg s = true -> seg_ok STNotSpecial s = true.
Proof.
  intros H. unfold seg_ok. rewrite H. cbn [andb]. apply forallb_forall. intros c _.
  unfold no_spec_bslash. cbn [st_is_special]. rewrite andb_false_r. reflexivity.
Qed.

Lemma segs_ok_nonspecial segs : forallb good_seg segs = true -> forallb (seg_ok STNotSpecial) segs = true.
Proof. apply forallb_impl. exact seg_ok_nonspecial. Qed.

Section NoAuthLaw.
Variables (dbg : bool) (hp hpo : list N -> result host) (hd : host -> list N).

Theorem relative_noauth schb bsegs blast bq bf scht tsegs tlast tq tf r :
  C02_Path.noauth_ok schb bsegs blast bq bf -> C02_Path.noauth_ok scht tsegs tlast tq tf ->
  mr_ok (noauth_url schb (path_text bsegs blast) bq bf) (noauth_url scht (path_text tsegs tlast) tq tf) = true ->
  make_relative dbg (noauth_url schb (path_text bsegs blast) bq bf) (noauth_url scht (path_text tsegs tlast) tq tf)
  = Some (Some r) ->
  parse_url dbg hp hpo hd None (Some (noauth_url schb (path_text bsegs blast) bq bf)) r
  = POk (noauth_url scht (path_text tsegs tlast) tq tf).
Proof.
  intros Kb Kt Hok Hmr.
  destruct (noauth_url_wf schb bsegs blast bq bf Kb) as (_ & Cb & _).
  destruct (noauth_url_wf scht tsegs tlast tq tf Kt) as (_ & Ct & _).
  pose proof (mr_ok_pre _ _ Hok) as Epre.
  destruct Kb as [_ _ Hbs Hbl _ _ _ _ _]. destruct Kt as [_ Hns Hts Htl Hq Hf _ Bq Bf].
  destruct (good_seg_parts blast Hbl) as (_ & Hbln & _). destruct (good_seg_parts tlast Htl) as (_ & Htln & _).
  pose proof (good_segs_no_slash bsegs Hbs) as Hbsn. pose proof (good_segs_no_slash tsegs Hts) as Htsn.
  rewrite noauth_is_hier in *. unfold u_pre in Epre.
  change (path_start (hier_url ((schb ++ [58]) ++ marker_of (path_text bsegs blast)) (nlen schb) (nlen (schb ++ [58]))
            (nlen (schb ++ [58])) (nlen (schb ++ [58])) HI_None None bsegs blast bq bf))
    with (nlen ((schb ++ [58]) ++ marker_of (path_text bsegs blast))) in Epre.
  rewrite hier_pre_of in Epre.
  rewrite (noauth_is_hier scht) in *.
  change (path_start (hier_url ((scht ++ [58]) ++ marker_of (path_text tsegs tlast)) (nlen scht) (nlen (scht ++ [58]))
            (nlen (scht ++ [58])) (nlen (scht ++ [58])) HI_None None tsegs tlast tq tf))
    with (nlen ((scht ++ [58]) ++ marker_of (path_text tsegs tlast))) in Epre.
  rewrite hier_pre_of in Epre.
  (* no empty segment, hence no marker *)
  pose proof Hok as Hok'. rewrite <- Epre in Hok'. pose proof Ct as Ct'. rewrite <- Epre in Ct'.
  destruct (mr_ok_hier _ _ _ _ _ _ _ _ _ _ _ _ _ _ _ _ _ _ _ _ _ Cb Ct' Hbsn Hbln Htsn Htln Hok') as (Nb & Nt & _).
  assert (marker_of (path_text bsegs blast) = []) as Mb by (unfold marker_of, path_text; rewrite path_no_ss by assumption; reflexivity).
  assert (marker_of (path_text tsegs tlast) = []) as Mt by (unfold marker_of, path_text; rewrite path_no_ss by assumption; reflexivity).
  rewrite Mb, Mt in *. rewrite !app_nil_r in *.
  apply app_inj_tail in Epre. destruct Epre as [Esch _]. subst scht.
  apply relative_hier; [|exact Hok | exact Hmr].
  assert (nfirstn (nlen schb) (schb ++ [58]) = schb) as Es by apply nfirstn_app_len.
  constructor; rewrite ?Es, ?Hns; try assumption.
  - right. exists schb. split; reflexivity.
  - reflexivity.
  - apply segs_ok_nonspecial. exact Hts.
  - apply seg_ok_nonspecial. exact Htl.
  - unfold noauth_pre in Bq. rewrite Mt in Bq. exact Bq.
  - unfold noauth_pre in Bf. rewrite Mt in Bf. exact Bf.
Qed.

(* ... for parse results: the premises are C02's description of the class on the input *)
Theorem relative_noauth_parsed bi ti schb remb remb' scht remt remt' b t r :
  usv_list bi -> usv_list ti ->
  parse_scheme CUrlParser (input_new_trim_c0 bi) = Some (schb, remb) -> scheme_type_of schb = STNotSpecial ->
  inp_split_prefix_str s_ss remb = None -> inp_split_prefix_char 47 remb = Some remb' ->
  parse_scheme CUrlParser (input_new_trim_c0 ti) = Some (scht, remt) -> scheme_type_of scht = STNotSpecial ->
  inp_split_prefix_str s_ss remt = None -> inp_split_prefix_char 47 remt = Some remt' ->
  parse_url dbg hp hpo hd None None bi = POk b -> parse_url dbg hp hpo hd None None ti = POk t ->
  mr_ok b t = true -> make_relative dbg b t = Some (Some r) ->
  parse_url dbg hp hpo hd None (Some b) r = POk t.
Proof.
  intros Hub Hut B1 B2 B3 B4 T1 T2 T3 T4 Pb Pt Hok Hmr.
  destruct (parse_noauth_out dbg hp hpo hd None bi schb remb remb' b Hub B1 B2 B3 B4 Pb) as (bsegs & blast & bq & bf & Kb & ->).
  destruct (parse_noauth_out dbg hp hpo hd None ti scht remt remt' t Hut T1 T2 T3 T4 Pt) as (tsegs & tlast & tq & tf & Kt & ->).
  apply relative_noauth; assumption.
Qed.

End NoAuthLaw.
