(* Proofs/C07_EqSix.v - the C07 equivalence for six of the ten setters - protocol, hash, search,
   username, password, port - assembled.  The relation is corrS: corr (Proofs/C07_Corr.v) together
   with the invariants `sane` of the Standard's record (Proofs/C07_SpecProto.v), which the decision
   of the protocol setter needs.  The five setters of Proofs/C07_EqFive.v keep `sane` (a fact about
   Spec/Whatwg.v alone), so one assignment through any of the six preserves corrS (six_step), hence
   every history does (six_histories); the start URLs of the small scope and the whole opaque-path
   class of inputs are related by corrS. *)
From RU Require Import Base.Prelude Base.Utf8 Model.AsciiSet Gen.Tables Model.PercentEncoding
  Model.HostT Model.UrlRecord Model.Parser Model.Setters Model.WF Model.KnownC01 Model.KnownC07 Spec.Whatwg
  Proofs.ListN Proofs.C03_WF Proofs.C06_Suffix Proofs.C06_FragQuery Proofs.C06_Port Proofs.C02_Enc
  Proofs.C01_Tables Proofs.C01_EqRun Proofs.C01_EqApi Proofs.C01_EqOpaque
  Proofs.C07_Defs Proofs.C07_Histories Proofs.C07_Setters Proofs.C07_Corr Proofs.C07_SpecRun Proofs.C07_EqSearchHash
  Proofs.C07_EqCred Proofs.C07_EqPort Proofs.C07_Small Proofs.C07_EqFive Proofs.C07_EqOpaqueClass
  Proofs.C07_SpecProto Proofs.C07_EqProto.

(* ---------- the five setters keep the invariants of the Standard's record ---------- *)
Lemma sane_same_core su su' : sane su ->
  su_scheme su' = su_scheme su -> su_host su' = su_host su -> has_opaque_path su' = has_opaque_path su ->
  (cannot_have_username_password_port su = true ->
     su_port su' = su_port su /\ includes_credentials su' = includes_credentials su) ->
  sane su'.
Proof.
  intros [S1 S2 S3] E1 E2 E3 E4.
  constructor; unfold cannot_have_username_password_port, is_special in *; rewrite ?E1, ?E2, ?E3.
  - intros Hc. destruct (E4 Hc) as [-> ->]. exact (S1 Hc).
  - exact S2.
  - exact S3.
Qed.

Lemma pstrip_sane su : sane su -> sane (potentially_strip_trailing_spaces su).
Proof.
  intros S. rewrite pstrip_eval. destruct (strips su) eqn:Es; [|exact S].
  apply (sane_same_core su _ S); try reflexivity.
  - unfold strips in Es. apply andb_true_iff in Es. destruct Es as [Es _]. apply andb_true_iff in Es.
    destruct Es as [Es _]. unfold has_opaque_path in *. cbn [set_path su_path]. symmetry. exact Es.
  - intros _. split; reflexivity.
Qed.

Section FiveSane.
Variable shp : bool -> list N -> option spec_host.

Theorem spec_five_sane s su v su' : five s = true -> sane su -> spec_step shp s su v = Some su' -> sane su'.
Proof.
  intros Hs S H. unfold spec_step in H. destruct s; try discriminate Hs; cbn [setter_of_q] in H.
  - (* username *)
    cbn [spec_set] in H.
    destruct (cannot_have_username_password_port su) eqn:Ec; injection H as <-; [exact S|].
    apply (sane_same_core su _ S); try reflexivity. rewrite Ec. discriminate.
  - (* password *)
    cbn [spec_set] in H.
    destruct (cannot_have_username_password_port su) eqn:Ec; injection H as <-; [exact S|].
    apply (sane_same_core su _ S); try reflexivity. rewrite Ec. discriminate.
  - (* port *)
    cbn [spec_set] in H.
    destruct (cannot_have_username_password_port su) eqn:Ec; [injection H as <-; exact S|].
    destruct (list_eqb v []).
    + injection H as <-. apply (sane_same_core su _ S); try reflexivity. rewrite Ec. discriminate.
    + rewrite spec_port_some in H. injection H as <-. unfold port_outcome.
      destruct (take_digits (notnl v)) as [|d ds]; [exact S|].
      destruct (65535 <? decimal_value (d :: ds)); cbn [outcome_url]; [exact S|].
      apply (sane_same_core su _ S); try reflexivity. rewrite Ec. discriminate.
  - (* search *)
    rewrite spec_set_search_arg in H. destruct (setter_arg 63 v) as [inp|].
    + rewrite spec_search_some in H. injection H as <-.
      apply (sane_same_core su _ S); try reflexivity. intros _. split; reflexivity.
    + injection H as <-. apply pstrip_sane.
      apply (sane_same_core su _ S); try reflexivity. intros _. split; reflexivity.
  - (* hash *)
    rewrite spec_set_hash_arg in H. destruct (setter_arg 35 v) as [inp|].
    + rewrite spec_hash_some in H. injection H as <-.
      apply (sane_same_core su _ S); try reflexivity. intros _. split; reflexivity.
    + injection H as <-. apply pstrip_sane.
      apply (sane_same_core su _ S); try reflexivity. intros _. split; reflexivity.
Qed.

End FiveSane.

(* ---------- six setters ---------- *)
Definition six (s : qsetter) : bool :=
  match s with QProtocol | QHash | QSearch | QUsername | QPassword | QPort => true | _ => false end.

(* a history that uses the six setters only, with values that are strings of scalar values *)
Fixpoint six_ops (ops : list (qsetter * list N)) : Prop :=
  match ops with
  | [] => True
  | (s, v) :: r => six s = true /\ usv_list v /\ six_ops r
  end.

(* the Standard's six setters keep the invariants *)
Theorem spec_six_sane shp s su v su' : six s = true -> sane su -> spec_step shp s su v = Some su' -> sane su'.
Proof.
  intros Hs S H. destruct (five s) eqn:H5; [exact (spec_five_sane shp s su v su' H5 S H)|].
  destruct s; try discriminate Hs; try discriminate H5.
  unfold spec_step in H. cbn [setter_of_q] in H.
  destruct (spec_set shp SetProtocol su v) as [x|] eqn:E; [|discriminate H]. injection H as <-.
  exact (spec_protocol_sane shp su v x S E).
Qed.

Definition corrS (dbg : bool) (shs : spec_host -> list N) (u : url) (su : spec_url) : Prop :=
  corr dbg shs u su /\ sane su.

Section Six.
Variable dbg : bool.
Variable hp ho : list N -> result host.
Variable hd : host -> list N.
Variable shp : bool -> list N -> option spec_host.
Variable shs : spec_host -> list N.

Notation corrS := (corrS dbg shs).

Theorem six_step u su s v : corrS u su -> six s = true -> usv_list v -> known_c07 u s v = 0 ->
  exists u' su', model_set dbg hp ho hd s u v = Some u' /\ spec_step shp s su v = Some su' /\ corrS u' su'.
Proof.
  intros [C S] Hs Hv Hk.
  destruct (five s) eqn:H5.
  - destruct (five_step dbg hp ho hd shp shs u su s v C H5 Hv Hk) as (u' & su' & A & B & C').
    exists u', su'. split; [exact A|]. split; [exact B|]. split; [exact C'|].
    exact (spec_five_sane shp s su v su' H5 S B).
  - destruct s; try discriminate Hs; try discriminate H5. cbn [model_set].
    destruct (protocol_step dbg shp shs u su v C S Hk) as (u' & su' & A & B & C' & S').
    exists u', su'. split; [exact A|]. split; [exact B|]. split; assumption.
Qed.

Theorem six_step_api u su s v : corrS u su -> six s = true -> usv_list v -> known_c07 u s v = 0 ->
  exists u' su', model_set dbg hp ho hd s u v = Some u' /\ spec_step shp s su v = Some su' /\ corrS u' su'
    /\ model_api dbg u' = Some (spec_api_list shs su').
Proof.
  intros C Hs Hv Hk. destruct (six_step u su s v C Hs Hv Hk) as (u' & su' & A & B & C').
  exists u', su'. split; [exact A|]. split; [exact B|]. split; [exact C'|]. exact (corr_api dbg shs u' su' (proj1 C')).
Qed.

Theorem protocol_equiv u su v : corrS u su -> usv_list v -> known_c07 u QProtocol v = 0 ->
  exists u' su', model_set dbg hp ho hd QProtocol u v = Some u' /\ spec_step shp QProtocol su v = Some su'
    /\ corrS u' su' /\ model_api dbg u' = Some (spec_api_list shs su').
Proof. intros C Hv Hk. exact (six_step_api u su QProtocol v C eq_refl Hv Hk). Qed.

Lemma six_run : forall ops u su, corrS u su -> six_ops ops -> outside_known dbg hp ho hd u ops ->
  exists u' su', model_run dbg hp ho hd u ops = Some u' /\ spec_run shp su ops = Some su' /\ corrS u' su'.
Proof.
  induction ops as [|[s v] r IH]; intros u su C Hf Ho.
  - exists u, su. cbn [model_run spec_run]. auto.
  - cbn [six_ops outside_known] in Hf, Ho. destruct Hf as (Hs & Hv & Hr). destruct Ho as [Hk Hrest].
    destruct (six_step u su s v C Hs Hv Hk) as (u1 & su1 & Em & Es & C1).
    rewrite Em in Hrest. destruct (IH u1 su1 C1 Hr Hrest) as (u2 & su2 & Em2 & Es2 & C2).
    exists u2, su2. cbn [model_run spec_run]. rewrite Em, Es. auto.
Qed.

Lemma six_ops_firstn n : forall ops, six_ops ops -> six_ops (firstn n ops).
Proof.
  induction n as [|n IH]; intros ops H; [exact I|]. destruct ops as [|[s v] r]; [exact I|].
  cbn [firstn six_ops] in *. destruct H as (A & B & Cc). auto.
Qed.

Theorem six_histories ops u su : corrS u su -> six_ops ops -> outside_known dbg hp ho hd u ops ->
  forall n, exists u' su',
    model_run dbg hp ho hd u (firstn n ops) = Some u'
    /\ spec_run shp su (firstn n ops) = Some su'
    /\ corrS u' su'
    /\ model_api dbg u' = Some (spec_api_list shs su').
Proof.
  intros C Hf Ho n.
  destruct (six_run (firstn n ops) u su C (six_ops_firstn n ops Hf) (outside_known_firstn dbg hp ho hd n ops u Ho))
    as (u' & su' & A & B & C').
  exists u', su'. split; [exact A|]. split; [exact B|]. split; [exact C'|]. exact (corr_api dbg shs u' su' (proj1 C')).
Qed.

(* ---------- parsing yields corrS on the opaque-path class of inputs ---------- *)
Theorem opaque_class_corrS input sch rem : usv_list input ->
  parse_scheme CUrlParser (input_new_trim_c0 input) = Some (sch, rem) ->
  scheme_type_of sch = STNotSpecial -> inp_split_prefix_char 47 rem = None ->
  exists su, spec_basic_url_parse shp input None = BDone su
    /\ (parse_url dbg hp ho hd None None input = PErr Overflow
        \/ exists u, parse_url dbg hp ho hd None None input = POk u /\ corrS u su).
Proof.
  intros Hu Hs Hns H47. eexists. split; [exact (spec_opaque shp input sch rem Hs Hns H47)|].
  destruct (model_opaque dbg hp ho hd None shp input sch rem Hu Hs Hns H47) as [E|[E K]]; [left; exact E|].
  right. eexists. split; [exact E|]. split; [apply corr_opaque; exact K|].
  assert (is_special_scheme sch = false) as Ens.
  { rewrite <- special_schemes_are_the_standards, Hns. reflexivity. }
  constructor; unfold cannot_have_username_password_port, is_special, includes_credentials;
    cbn [spec_opaque_url su_scheme su_username su_password su_host su_port su_path].
  - intros _. split; reflexivity.
  - rewrite Ens. discriminate.
  - reflexivity.
Qed.

Theorem six_from_opaque_class input sch rem u ops : usv_list input ->
  parse_scheme CUrlParser (input_new_trim_c0 input) = Some (sch, rem) ->
  scheme_type_of sch = STNotSpecial -> inp_split_prefix_char 47 rem = None ->
  parse_url dbg hp ho hd None None input = POk u ->
  six_ops ops -> outside_known dbg hp ho hd u ops ->
  exists su, spec_basic_url_parse shp input None = BDone su
    /\ model_api dbg u = Some (spec_api_list shs su)
    /\ forall n, exists u' su',
         model_run dbg hp ho hd u (firstn n ops) = Some u'
         /\ spec_run shp su (firstn n ops) = Some su'
         /\ model_api dbg u' = Some (spec_api_list shs su').
Proof.
  intros Hu Hs Hns H47 Ep Hf Ho.
  destruct (opaque_class_corrS input sch rem Hu Hs Hns H47) as (su & Esp & [E|(u0 & E & C)]).
  - rewrite Ep in E. discriminate E.
  - rewrite Ep in E. inversion E; subst u0. exists su. split; [exact Esp|].
    split; [exact (corr_api dbg shs u su (proj1 C))|]. intros n.
    destruct (six_histories ops u su C Hf Ho n) as (u' & su' & A & B & _ & D).
    exists u', su'. auto.
Qed.

End Six.

(* ---------- the start URLs of the small scope are related by corrS to their Standard's parse ---------- *)
Definition start_corrS_b (st : list N) : bool :=
  match toy_parse st, toy_sparse st with
  | Some u, Some su => corr_b true toy_shs u su && sane_b su
  | _, _ => false
  end.

Lemma small_starts_corrS_computed : forallb start_corrS_b small_starts = true.
Proof. vm_compute. reflexivity. Qed.

Lemma proto_starts_corrS_computed : forallb start_corrS_b proto_starts = true.
Proof. vm_compute. reflexivity. Qed.

Lemma starts_corrS l : forallb start_corrS_b l = true -> forall st, In st l ->
  exists u su, toy_parse st = Some u /\ toy_sparse st = Some su /\ corrS true toy_shs u su.
Proof.
  intros Hall st Hin. pose proof (proj1 (forallb_forall _ _) Hall st Hin) as H.
  unfold start_corrS_b in H. destruct (toy_parse st) as [u|]; [|discriminate H].
  destruct (toy_sparse st) as [su|]; [|discriminate H]. apply andb_true_iff in H. destruct H as [H1 H2].
  exists u, su. split; [reflexivity|]. split; [reflexivity|].
  split; [exact (corr_b_sound _ _ _ _ H1) | exact (sane_b_sound _ H2)].
Qed.

(* for the start URLs of the small scope and of the protocol table: every history of protocol / hash /
   search / username / password / port assignments, with any values, every step outside Known_C07 -
   the ten API strings agree after every prefix *)
Theorem six_from_small_starts st ops : In st (small_starts ++ proto_starts) -> six_ops ops ->
  forall u, toy_parse st = Some u -> outside_known true toy_hp toy_ho toy_hd u ops ->
  exists su, toy_sparse st = Some su
    /\ forall n, exists u' su',
         model_run true toy_hp toy_ho toy_hd u (firstn n ops) = Some u'
         /\ spec_run toy_shp su (firstn n ops) = Some su'
         /\ model_api true u' = Some (spec_api_list toy_shs su').
Proof.
  intros Hin Hf u Hp Ho.
  assert (exists u0 su, toy_parse st = Some u0 /\ toy_sparse st = Some su /\ corrS true toy_shs u0 su)
    as (u0 & su & Ep & Es & C).
  { apply in_app_or in Hin. destruct Hin as [Hin|Hin].
    - exact (starts_corrS _ small_starts_corrS_computed st Hin).
    - exact (starts_corrS _ proto_starts_corrS_computed st Hin). }
  rewrite Hp in Ep. inversion Ep; subst u0. exists su. split; [exact Es|]. intros n.
  destruct (six_histories true toy_hp toy_ho toy_hd toy_shp toy_shs ops u su C Hf Ho n) as (u' & su' & A & B & _ & D).
  exists u', su'. auto.
Qed.

(* ---------- the invariants are needed ---------- *)
From Coq Require Import String.
Local Open Scope string_scope.
(* a pair related by corr whose Standard's record is not `sane` - "http:/p" without a host, which no
   parser or setter of the Standard produces: the code refuses http -> https (has_host() is false),
   the Standard carries it out; the assignment is outside Known_C07 *)
Definition nosane_u : url := mkUrl (str "http:/p") 4 5 5 5 HI_None None 5 None None.
Definition nosane_su : spec_url := mkSUrl (str "http") [] [] None None (SPList [str "p"]) None None.

Theorem protocol_needs_sane :
  corr true toy_shs nosane_u nosane_su
  /\ known_c07 nosane_u QProtocol (str "https") = 0
  /\ exists u' su',
       model_set true toy_hp toy_ho toy_hd QProtocol nosane_u (str "https") = Some u'
       /\ spec_step toy_shp QProtocol nosane_su (str "https") = Some su'
       /\ toy_api_agree u' su' = false.
Proof.
  split; [apply corr_b_sound; vm_compute; reflexivity|].
  split; [vm_compute; reflexivity|].
  eexists. eexists. split; [vm_compute; reflexivity|]. split; [vm_compute; reflexivity|]. vm_compute. reflexivity.
Qed.
