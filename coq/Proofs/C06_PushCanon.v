(* Proofs/C06_PushCanon.v - path_segments_mut sessions of clear / push / extend on the canonical records with an
   authority (C02's Canon, both classes) stay canonical: the exact evaluation of Proofs/C06_SegPush.v turns the
   session into an operation on the canonical path (segments, last segment); a pushed segment that is not skipped is a
   good segment of the class (clean for PATH, no '/', no '\' for special schemes, not a dot segment).  Hence such
   sessions can be steps of the histories of C06_all (ReachC6p below). *)
From RU Require Import Base.Prelude Base.Utf8 Base.Utf8Facts Model.AsciiSet Gen.Tables
  Model.PercentEncoding Model.HostT Model.UrlRecord Model.Parser Model.Setters Model.WF
  Proofs.ListN Proofs.C03_WF Proofs.C06_List Proofs.C06_WFI Proofs.C06_Suffix Proofs.C06_PathParser Proofs.C06_Path
  Proofs.C14_Set Proofs.C14_Enc Proofs.C14_Views Proofs.C02_Enc Proofs.C02_Parts
  Proofs.C02_Opaque Proofs.C02_Path Proofs.C02_PathL1 Proofs.C02_Reach Proofs.C16_RT Proofs.C02_AuthParts
  Proofs.C02_Auth Proofs.C02_AuthWf Proofs.C02_PathSp Proofs.C02_AuthSp Proofs.C02_AuthMain Proofs.C02_SetQF
  Proofs.C02_Canon Proofs.C02_SetPort
  Proofs.C06_Agree Proofs.C06_AgreeUrl Proofs.C06_Splice Proofs.C06_SpliceAuth Proofs.C06_SpliceCred Proofs.C06_SplicePath
  Proofs.C06_FragQuery Proofs.C06_Segments Proofs.C06_SegPush.
Open Scope N_scope.
Open Scope list_scope.

(* ---------- a pushed segment is a good segment ---------- *)
Lemma seg_set_kept_sweep :
  all_below 256 (fun b => should_encode T_PATH_SEGMENT b || kept T_PATH b) = true
  /\ all_below 256 (fun b => should_encode T_SPECIAL_PATH_SEGMENT b || kept T_PATH b) = true.
Proof. split; vm_compute; reflexivity. Qed.

Lemma seg_set_kept st b : b < 256 -> should_encode (seg_set st) b = false -> kept T_PATH b = true.
Proof.
  intros Hb H. destruct seg_set_kept_sweep as [S1 S2]. unfold seg_set, path_set in H. cbn [ctx_eqb] in H.
  destruct (st_is_special st).
  - pose proof (all_below_spec 256 _ S2 b Hb) as G. cbv beta in G. rewrite H in G. exact G.
  - pose proof (all_below_spec 256 _ S1 b Hb) as G. cbv beta in G. rewrite H in G. exact G.
Qed.

Lemma path_hex_facts : kept T_PATH 37 = true /\ all_below 16 (fun d => kept T_PATH (hex_upper d)) = true
  /\ all_below 16 (fun d => negb (hex_upper d =? 47) && negb (hex_upper d =? 92)) = true.
Proof. repeat split; vm_compute; reflexivity. Qed.

Lemma seg_set_92 st : st_is_special st = true -> should_encode (seg_set st) 92 = true.
Proof. intros H. unfold seg_set, path_set. cbn [ctx_eqb]. rewrite H. vm_compute. reflexivity. Qed.

Lemma seg_text_good st seg : usv_list seg -> seg_skipped (strip_tnl seg) = false ->
  good_seg (seg_text st seg) = true /\ (st_is_special st = true -> good_seg_sp (seg_text st seg) = true).
Proof.
  intros Hu Hk. destruct (seg_text_not_dots st seg Hu Hk) as [Hdd Hsd].
  destruct (seg_set_facts st) as (F37 & F46 & F47). destruct path_hex_facts as (P37 & Phex & Phex2).
  pose proof (utf8_encode_bytes _ (strip_tnl_usv seg Hu)) as Hb.
  assert (clean T_PATH (seg_text st seg) = true) as C1.
  { unfold clean, seg_text. apply encode_forallb; [exact P37 | intros d Hd; exact (all_below_spec 16 _ Phex d Hd) | | exact Hb].
    apply Forall_forall. intros b Hin E. apply (seg_set_kept st); [|exact E].
    unfold bytes in Hb. rewrite Forall_forall in Hb. exact (Hb b Hin). }
  assert (no_slash (seg_text st seg) = true) as C2.
  { unfold no_slash, seg_text. apply encode_forallb; [reflexivity | | | exact Hb].
    - intros d Hd. pose proof (all_below_spec 16 _ Phex2 d Hd) as G. cbv beta in G. apply andb_true_iff in G. tauto.
    - apply Forall_forall. intros b _ E. destruct (b =? 47) eqn:E47; [|reflexivity]. apply N.eqb_eq in E47. subst b. congruence. }
  assert (good_seg (seg_text st seg) = true) as G by (unfold good_seg; rewrite C1, C2, Hdd, Hsd; reflexivity).
  split; [exact G|]. intros Hsp. unfold good_seg_sp. rewrite G. cbn [andb].
  unfold no_byte, seg_text. apply encode_forallb; [reflexivity | | | exact Hb].
  - intros d Hd. pose proof (all_below_spec 16 _ Phex2 d Hd) as G2. cbv beta in G2. apply andb_true_iff in G2. tauto.
  - apply Forall_forall. intros b _ E. destruct (b =? 92) eqn:E92; [|reflexivity]. apply N.eqb_eq in E92. subst b.
    rewrite (seg_set_92 st Hsp) in E. discriminate.
Qed.

(* ---------- the operations on the canonical path ---------- *)
Definition pth_push (p : pth) (E : list N) : pth :=
  match p with
  | None => Some ([], E)
  | Some ([], []) => Some ([], E)
  | Some (segs, last) => Some (segs ++ [last], E)
  end.
Definition pth_clear (p : pth) : pth := match p with None => None | Some _ => Some ([], []) end.

Lemma segs_text_snoc segs s : segs_text (segs ++ [s]) = segs_text segs ++ s ++ [47].
Proof. unfold segs_text. rewrite map_app, concat_app. cbn [map concat]. rewrite app_nil_r. reflexivity. Qed.

Lemma push_text_pth st p seg : seg_skipped (strip_tnl seg) = false ->
  push_text st (pth_text p) seg = pth_text (pth_push p (seg_text st seg)).
Proof.
  intros Hk. unfold push_text. rewrite Hk. destruct p as [[segs last]|]; cbn [pth_text pth_push].
  - destruct segs as [|s segs'].
    + destruct last as [|c last'].
      * reflexivity.
      * assert (1 <= nlen (c :: last')) as Hl by (rewrite nlen_cons; lia).
        generalize dependent (c :: last'). intros l Hl.
        cbn [pth_text]. unfold C02_Path.path_text. cbn [segs_text map concat app].
        replace ((1 <? nlen (47 :: l)) || (nlen (47 :: l) =? 0)) with true
          by (rewrite nlen_cons; symmetry; apply orb_true_iff; left; apply N.ltb_lt; lia).
        cbn [app]. rewrite ?app_nil_r. rewrite <- ?app_assoc. reflexivity.
    + assert (1 <= nlen (segs_text (s :: segs'))) as Hl
        by (unfold segs_text; cbn [map concat]; rewrite !nlen_app; change (nlen [47]) with 1; lia).
      change (s :: segs' ++ [last]) with ((s :: segs') ++ [last]).
      generalize dependent (s :: segs'). intros sg Hl.
      cbn [pth_text]. unfold C02_Path.path_text. rewrite segs_text_snoc.
      replace ((1 <? nlen (47 :: segs_text sg ++ last)) || (nlen (47 :: segs_text sg ++ last) =? 0)) with true
        by (rewrite nlen_cons, nlen_app; symmetry; apply orb_true_iff; left; apply N.ltb_lt; lia).
      cbn [app]. rewrite <- ?app_assoc. reflexivity.
  - reflexivity.
Qed.

Lemma clear_text_pth p : clear_text (pth_text p) = pth_text (pth_clear p).
Proof. destruct p as [[segs last]|]; reflexivity. Qed.

Definition auth_cls := C06_SpliceAuth.auth_cls.

Lemma forallb_snoc {A} (f : A -> bool) l x : forallb f (l ++ [x]) = forallb f l && f x.
Proof. rewrite forallb_app. cbn [forallb]. rewrite andb_true_r. reflexivity. Qed.

Lemma pth_push_cls st p E : auth_cls st p -> good_seg E = true -> (st_is_special st = true -> good_seg_sp E = true) ->
  auth_cls st (pth_push p E).
Proof.
  intros [[-> Hp]|[-> Hp]] G Gsp.
  - left. split; [reflexivity|]. destruct p as [[segs last]|]; cbn [pth_push].
    + destruct Hp as [H1 H2]. destruct segs as [|s segs']; [destruct last|]; cbn [pth_ok]; try (split; [reflexivity | exact G]).
      * split; [|exact G]. cbn [app forallb]. rewrite H2. reflexivity.
      * split; [|exact G]. rewrite forallb_snoc, H1, H2. reflexivity.
    + cbn [pth_ok]. split; [reflexivity | exact G].
  - right. split; [reflexivity|]. pose proof (Gsp eq_refl) as G2. destruct p as [[segs last]|]; [|destruct Hp]. cbn [pth_push].
    destruct Hp as [H1 H2]. destruct segs as [|s segs']; [destruct last|]; cbn [pth_ok_sp]; try (split; [reflexivity | exact G2]).
    + split; [|exact G2]. cbn [app forallb]. rewrite H2. reflexivity.
    + split; [|exact G2]. rewrite forallb_snoc, H1, H2. reflexivity.
Qed.

Lemma pth_clear_cls st p : auth_cls st p -> auth_cls st (pth_clear p).
Proof.
  intros [[-> Hp]|[-> Hp]].
  - left. split; [reflexivity|]. destruct p; cbn [pth_clear pth_ok]; [split; reflexivity | exact I].
  - right. split; [reflexivity|]. destruct p; [|destruct Hp]. cbn [pth_clear pth_ok_sp]. split; reflexivity.
Qed.

(* operations that only clear or grow the path *)
Definition psm_op_grow (o : psm_op) : Prop := match o with PClear | PPush _ | PExtend _ => True | _ => False end.

Lemma extend_text_cls st segs : forall p, auth_cls st p -> Forall usv_list segs ->
  exists p', auth_cls st p' /\ extend_text st (pth_text p) segs = pth_text p'.
Proof.
  induction segs as [|seg rest IH]; intros p Hc Hu; cbn [extend_text fold_left].
  - exists p. split; [exact Hc | reflexivity].
  - pose proof (Forall_inv Hu) as Hu1. pose proof (Forall_inv_tail Hu) as Hu2.
    destruct (seg_skipped (strip_tnl seg)) eqn:Hk1.
    + unfold push_text at 2. rewrite Hk1. apply IH; assumption.
    + rewrite (push_text_pth st p seg Hk1). destruct (seg_text_good st seg Hu1 Hk1) as [G Gsp].
      apply IH; [apply pth_push_cls; assumption | assumption].
Qed.

Lemma session_text_cls st ops : forall p, auth_cls st p -> Forall psm_op_usv ops ->
  Forall psm_op_grow ops -> exists p', auth_cls st p' /\ session_text st (pth_text p) ops = pth_text p'.
Proof.
  induction ops as [|o rest IH]; intros p Hc Hu Hg; cbn [session_text fold_left].
  - exists p. split; [exact Hc | reflexivity].
  - pose proof (Forall_inv Hu) as Hu1. pose proof (Forall_inv_tail Hu) as Hu2.
    pose proof (Forall_inv Hg) as Hg1. pose proof (Forall_inv_tail Hg) as Hg2.
    assert (exists p1, auth_cls st p1 /\ op_text st (pth_text p) o = pth_text p1) as (p1 & Hc1 & E1).
    { destruct o; cbn [op_text psm_op_grow psm_op_usv] in *; try contradiction.
      - exists (pth_clear p). split; [apply pth_clear_cls; exact Hc | apply clear_text_pth].
      - apply (extend_text_cls st [s] p Hc); constructor; try assumption; constructor.
      - apply (extend_text_cls st ss p Hc); assumption. }
    rewrite E1. apply (IH p1 Hc1 Hu2 Hg2).
Qed.

(* ---------- pop and pop_if_empty on the canonical path ---------- *)
Definition pth_pop (p : pth) : pth :=
  match p with
  | None => None
  | Some ([], _) => Some ([], [])
  | Some (segs, _) => Some (removelast segs, List.last segs [])
  end.
Definition pth_pop_if_empty (p : pth) : pth :=
  match p with
  | Some (s :: sg, []) => Some (removelast (s :: sg), List.last (s :: sg) [])
  | _ => p
  end.

Lemma good_no_slash s : good_seg s = true -> no_byte 47 s = true.
Proof. intros H. apply good_seg_parts in H. tauto. Qed.

Lemma nfirstn_succ_cons c A rest : nfirstn (1 + nlen A) (c :: A ++ rest) = c :: A.
Proof. replace (1 + nlen A) with (nlen (c :: A)) by (rewrite nlen_cons; reflexivity). apply (nfirstn_app_len (c :: A) rest). Qed.

Lemma pop_text_pth p : pth_ok p -> pop_text (pth_text p) = pth_text (pth_pop p).
Proof.
  destruct p as [[segs last]|]; [|reflexivity]. intros [H1 H2]. pose proof (good_no_slash last H2) as Hl.
  destruct segs as [|s0 sg0].
  - cbn [pth_text pth_pop]. unfold C02_Path.path_text, pop_text. cbn [segs_text map concat app].
    destruct last as [|c r]; [reflexivity|].
    replace (nlen (47 :: c :: r) <=? 1) with false by (rewrite !nlen_cons; symmetry; apply N.leb_gt; lia).
    change (nskipn 1 (47 :: c :: r)) with (c :: r). unfold rfind. rewrite rfind_aux_none by exact Hl. reflexivity.
  - cbn [pth_pop]. set (sg := removelast (s0 :: sg0)). set (s := List.last (s0 :: sg0) []).
    assert (s0 :: sg0 = sg ++ [s]) as Es by (apply app_removelast_last; discriminate).
    rewrite Es. cbn [pth_text]. unfold C02_Path.path_text, pop_text. rewrite segs_text_snoc.
    replace (nlen (47 :: (segs_text sg ++ s ++ [47]) ++ last) <=? 1) with false
      by (rewrite nlen_cons, !nlen_app; change (nlen [47]) with 1; symmetry; apply N.leb_gt; lia).
    change (nskipn 1 (47 :: (segs_text sg ++ s ++ [47]) ++ last)) with ((segs_text sg ++ s ++ [47]) ++ last).
    replace ((segs_text sg ++ s ++ [47]) ++ last) with ((segs_text sg ++ s) ++ 47 :: last)
      by (rewrite <- !app_assoc; reflexivity).
    rewrite (rfind_app_last 47 (segs_text sg ++ s) last Hl). rewrite nfirstn_succ_cons. reflexivity.
Qed.

Lemma pop_if_empty_text_pth p : pth_ok p -> pop_if_empty_text (pth_text p) = pth_text (pth_pop_if_empty p).
Proof.
  destruct p as [[segs last]|]; [|reflexivity]. intros [H1 H2]. pose proof (good_no_slash last H2) as Hl.
  unfold pop_if_empty_text. destruct last as [|c r].
  - destruct segs as [|s0 sg0]; [reflexivity|].
    cbn [pth_pop_if_empty]. set (sg := removelast (s0 :: sg0)). set (s := List.last (s0 :: sg0) []).
    assert (s0 :: sg0 = sg ++ [s]) as Es by (apply app_removelast_last; discriminate).
    rewrite Es. cbn [pth_text]. unfold C02_Path.path_text. rewrite segs_text_snoc. rewrite app_nil_r.
    replace (nlen (47 :: segs_text sg ++ s ++ [47]) <=? 1) with false
      by (rewrite nlen_cons, !nlen_app; change (nlen [47]) with 1; symmetry; apply N.leb_gt; lia).
    change (nskipn 1 (47 :: segs_text sg ++ s ++ [47])) with (segs_text sg ++ s ++ [47]).
    rewrite (app_assoc (segs_text sg) s [47]). rewrite ends_with_byte_snoc.
    replace (nlen (47 :: (segs_text sg ++ s) ++ [47]) - 1) with (nlen (47 :: segs_text sg ++ s))
      by (rewrite !nlen_cons, !nlen_app; change (nlen [47]) with 1; lia).
    apply (nfirstn_app_len (47 :: segs_text sg ++ s) [47]).
  - cbn [pth_pop_if_empty]. destruct segs; cbn [pth_text]; unfold C02_Path.path_text.
    + destruct (nlen (47 :: segs_text [] ++ c :: r) <=? 1); [reflexivity|].
      change (nskipn 1 (47 :: segs_text [] ++ c :: r)) with (segs_text [] ++ c :: r).
      rewrite ends_with_not; [reflexivity | discriminate |].
      unfold no_byte in Hl. rewrite forallb_forall in Hl. apply Forall_forall. intros x Hx. specialize (Hl x Hx). lia.
    + destruct (nlen (47 :: segs_text (l :: segs) ++ c :: r) <=? 1); [reflexivity|].
      change (nskipn 1 (47 :: segs_text (l :: segs) ++ c :: r)) with (segs_text (l :: segs) ++ c :: r).
      rewrite ends_with_not; [reflexivity | discriminate |].
      unfold no_byte in Hl. rewrite forallb_forall in Hl. apply Forall_forall. intros x Hx. specialize (Hl x Hx). lia.
Qed.

Lemma forallb_removelast {A} (f : A -> bool) (l : list A) d : l <> [] -> forallb f l = true ->
  forallb f (removelast l) = true /\ f (List.last l d) = true.
Proof.
  intros Hne H. rewrite (app_removelast_last d Hne) in H. rewrite forallb_snoc in H. apply andb_true_iff in H. exact H.
Qed.

Lemma pth_pop_cls st p : auth_cls st p -> auth_cls st (pth_pop p).
Proof.
  intros [[-> Hp]|[-> Hp]].
  - left. split; [reflexivity|]. destruct p as [[segs last]|]; [|exact I]. destruct Hp as [H1 H2].
    destruct segs as [|s0 sg0]; cbn [pth_pop pth_ok]; [split; reflexivity|].
    apply (forallb_removelast good_seg (s0 :: sg0) []); [discriminate | exact H1].
  - right. split; [reflexivity|]. destruct p as [[segs last]|]; [|destruct Hp]. destruct Hp as [H1 H2].
    destruct segs as [|s0 sg0]; cbn [pth_pop pth_ok_sp]; [split; reflexivity|].
    apply (forallb_removelast good_seg_sp (s0 :: sg0) []); [discriminate | exact H1].
Qed.

Lemma pth_pop_if_empty_cls st p : auth_cls st p -> auth_cls st (pth_pop_if_empty p).
Proof.
  intros [[-> Hp]|[-> Hp]].
  - left. split; [reflexivity|]. destruct p as [[segs last]|]; [|exact I]. destruct Hp as [H1 H2].
    destruct segs as [|s0 sg0]; destruct last; cbn [pth_pop_if_empty pth_ok]; try (split; assumption).
    apply (forallb_removelast good_seg (s0 :: sg0) []); [discriminate | exact H1].
  - right. split; [reflexivity|]. destruct p as [[segs last]|]; [|destruct Hp]. destruct Hp as [H1 H2].
    destruct segs as [|s0 sg0]; destruct last; cbn [pth_pop_if_empty pth_ok_sp]; try (split; assumption).
    apply (forallb_removelast good_seg_sp (s0 :: sg0) []); [discriminate | exact H1].
Qed.

(* every editor operation (any &str argument) is an operation on the canonical path *)
Lemma session_text_cls_all st ops : forall p, auth_cls st p -> Forall psm_op_usv ops ->
  exists p', auth_cls st p' /\ session_text st (pth_text p) ops = pth_text p'.
Proof.
  induction ops as [|o rest IH]; intros p Hc Hu; cbn [session_text fold_left].
  - exists p. split; [exact Hc | reflexivity].
  - pose proof (Forall_inv Hu) as Hu1. pose proof (Forall_inv_tail Hu) as Hu2.
    assert (exists p1, auth_cls st p1 /\ op_text st (pth_text p) o = pth_text p1) as (p1 & Hc1 & E1).
    { pose proof (C06_SpliceAuth.pth_cls_ok st p Hc) as Hok.
      destruct o; cbn [op_text psm_op_usv] in *.
      - exists (pth_clear p). split; [apply pth_clear_cls; exact Hc | apply clear_text_pth].
      - exists (pth_pop_if_empty p). split; [apply pth_pop_if_empty_cls; exact Hc | apply pop_if_empty_text_pth; exact Hok].
      - exists (pth_pop p). split; [apply pth_pop_cls; exact Hc | apply pop_text_pth; exact Hok].
      - apply (extend_text_cls st [s] p Hc); constructor; try assumption; constructor.
      - apply (extend_text_cls st ss p Hc); assumption. }
    rewrite E1. apply (IH p1 Hc1 Hu2).
Qed.

Section PushCanon.
Variable dbg : bool.
Variable hp hpo : list N -> result host.
Variable hd : host -> list N.
Hypothesis HRT : HostRT hp hpo hd.

Notation auth_ok := (auth_ok hp hpo hd).
Notation auth_url := (auth_url hd).
Notation auth_front := (auth_front hd).
Notation auth_pre := (auth_pre hd).

Lemma auth_path_bytes sch ui h pt p q f : path_bytes (auth_url sch ui h pt p q f) = pth_text p.
Proof.
  unfold path_bytes. rewrite auth_url_qf. rewrite path_end_qf. unfold qf_url. cbn [path_start ser].
  unfold C02_Auth.auth_pre. rewrite <- app_assoc. rewrite nskipn_app_len. rewrite nlen_app.
  replace (nlen (C02_Auth.auth_front hd sch ui h pt) + nlen (pth_text p) - nlen (C02_Auth.auth_front hd sch ui h pt))
    with (nlen (pth_text p)) by lia.
  apply nfirstn_app_len.
Qed.

(* the session maps auth_url .. p .. to auth_url .. p' .. with p' canonical of the same class *)
Theorem psm_grow_auth st sch ui h pt p q f ops u' : auth_ok st sch ui h pt p q f -> auth_cls st p ->
  Forall psm_op_usv ops -> Forall psm_op_grow ops ->
  path_segments_session dbg (auth_url sch ui h pt p q f) ops = Some (u', SOk) ->
  exists p', auth_cls st p' /\ u' = auth_url sch ui h pt p' q f
             /\ pth_text p' = session_text st (pth_text p) ops.
Proof.
  intros K Hc Hu Hg E. pose proof (C06_SpliceAuth.auth_cls_nf st p Hc) as Hnf.
  pose proof (proj1 (auth_url_wf hp hpo hd HRT _ _ _ _ _ _ _ _ K)) as W.
  assert (st_of (auth_url sch ui h pt p q f) = st) as Est.
  { unfold st_of. rewrite (auth_stype hd). exact (ak_st _ _ _ _ _ _ _ _ _ _ _ K). }
  pose proof (path_segments_session_exact dbg _ ops u' W (auth_byte_slash hd sch ui h pt p q f)) as X.
  rewrite Est in X. specialize (X Hnf Hu E). rewrite auth_path_bytes in X.
  destruct (session_text_cls st ops p Hc Hu Hg) as (p' & Hc' & E').
  exists p'. split; [exact Hc'|]. split; [|symmetry; exact E'].
  rewrite X, E'. rewrite !auth_url_qf. unfold C02_Auth.auth_pre. apply with_path_qf.
Qed.

Theorem psm_grow_Canon u ops u' : Canon hp hpo hd u -> has_authority_b u = true ->
  Forall psm_op_usv ops -> Forall psm_op_grow ops ->
  path_segments_session dbg u ops = Some (u', SOk) -> nlen (ser u') <= U32_MAX_P -> Canon hp hpo hd u'.
Proof.
  intros C Hau Hu Hg E Hb.
  destruct (Canon_auth_cases hp hpo hd u C Hau) as (st & sch & ui & h & pt & p & q & f & -> & K & Hc).
  destruct (psm_grow_auth st sch ui h pt p q f ops u' K Hc Hu Hg E) as (p' & Hc' & -> & _).
  cbn [ser C02_Auth.auth_url] in Hb.
  pose proof (auth_ok_path hp hpo hd st sch ui h pt p q f p' K (C06_SpliceAuth.pth_cls_ok st p' Hc') Hb) as K'.
  destruct Hc' as [[-> Hp']|[-> Hp']]; [apply Canon_auth | apply Canon_special]; assumption.
Qed.

Theorem psm_auth st sch ui h pt p q f ops u' : auth_ok st sch ui h pt p q f -> auth_cls st p ->
  Forall psm_op_usv ops ->
  path_segments_session dbg (auth_url sch ui h pt p q f) ops = Some (u', SOk) ->
  exists p', auth_cls st p' /\ u' = auth_url sch ui h pt p' q f
             /\ pth_text p' = session_text st (pth_text p) ops.
Proof.
  intros K Hc Hu E. pose proof (C06_SpliceAuth.auth_cls_nf st p Hc) as Hnf.
  pose proof (proj1 (auth_url_wf hp hpo hd HRT _ _ _ _ _ _ _ _ K)) as W.
  assert (st_of (auth_url sch ui h pt p q f) = st) as Est.
  { unfold st_of. rewrite (auth_stype hd). exact (ak_st _ _ _ _ _ _ _ _ _ _ _ K). }
  pose proof (path_segments_session_exact dbg _ ops u' W (auth_byte_slash hd sch ui h pt p q f)) as X.
  rewrite Est in X. specialize (X Hnf Hu E). rewrite auth_path_bytes in X.
  destruct (session_text_cls_all st ops p Hc Hu) as (p' & Hc' & E').
  exists p'. split; [exact Hc'|]. split; [|symmetry; exact E'].
  rewrite X, E'. rewrite !auth_url_qf. unfold C02_Auth.auth_pre. apply with_path_qf.
Qed.

(* a whole path_segments_mut session (any of the five operations, any &str arguments: F-C06-7 is fixed) on a canonical record
   with an authority returns a canonical record *)
Theorem psm_Canon u ops u' : Canon hp hpo hd u -> has_authority_b u = true ->
  Forall psm_op_usv ops ->
  path_segments_session dbg u ops = Some (u', SOk) -> nlen (ser u') <= U32_MAX_P -> Canon hp hpo hd u'.
Proof.
  intros C Hau Hu E Hb.
  destruct (Canon_auth_cases hp hpo hd u C Hau) as (st & sch & ui & h & pt & p & q & f & -> & K & Hc).
  destruct (psm_auth st sch ui h pt p q f ops u' K Hc Hu E) as (p' & Hc' & -> & _).
  cbn [ser C02_Auth.auth_url] in Hb.
  pose proof (auth_ok_path hp hpo hd st sch ui h pt p q f p' K (C06_SpliceAuth.pth_cls_ok st p' Hc') Hb) as K'.
  destruct Hc' as [[-> Hp']|[-> Hp']]; [apply Canon_auth | apply Canon_special]; assumption.
Qed.
End PushCanon.
