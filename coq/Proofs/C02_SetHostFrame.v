(* Proofs/C02_SetHostFrame.v - Url::set_host_internal computed on the frame of a record with authority:
      ser = A ++ H ++ [":" port] ++ R ++ ["?" q] ++ ["#" f]     (A = scheme "://" userinfo, H = the host text)
   The new host text replaces H (and, for the quirks host setter, the port text is replaced as well); every offset
   behind the host moves by the difference of the lengths.  Instantiated for the canonical record auth_url. *)
From RU Require Import Base.Prelude Base.Utf8 Base.Utf8Facts Model.AsciiSet Gen.Tables
  Model.PercentEncoding Model.HostT Model.UrlRecord Model.Parser Model.Setters Model.WF
  Proofs.ListN Proofs.C14_Set Proofs.C14_Enc Proofs.C14_Views Proofs.C02_Enc Proofs.C02_Parts
  Proofs.C02_Opaque Proofs.C02_Path Proofs.C02_PathL1 Proofs.C02_Reach Proofs.C16_RT Proofs.C02_AuthParts
  Proofs.C02_Auth Proofs.C02_AuthWf Proofs.C02_PathSp Proofs.C02_AuthSp Proofs.C02_AuthMain Proofs.C02_SetQF
  Proofs.C02_Canon Proofs.C02_SetPort.
Open Scope N_scope.
Open Scope list_scope.

Section Frame.
Variable dbg : bool.
Variable hd : host -> list N.

Variables (sch UI R : list N) (ue : N).
Notation A := ((sch ++ [58; 47; 47]) ++ UI).
Notation U H pt hi q f := (hp_url (A ++ H) pt R (nlen sch) ue (nlen A) hi q f).

Lemma has_authority_front X Y ue' hs' he' hi' pt' ps' qs' fs' :
  has_authority dbg (mkUrl ((sch ++ 58 :: 47 :: 47 :: X) ++ Y) (nlen sch) ue' hs' he' hi' pt' ps' qs' fs') = Some true.
Proof.
  unfold has_authority, byte_is, byte_at, u_slice_from. cbn [ser scheme_end]. rewrite <- app_assoc.
  pose proof (byte_eqb_app sch 58 (47 :: 47 :: X ++ Y)) as Hb. unfold byte_eqb in Hb.
  change (sch ++ (58 :: 47 :: 47 :: X) ++ Y) with (sch ++ 58 :: 47 :: 47 :: X ++ Y).
  destruct (nnth (sch ++ 58 :: 47 :: 47 :: X ++ Y) (nlen sch)) as [x|]; [|discriminate]. cbn [bindo]. rewrite Hb.
  assert ((if dbg then assert_o true else Some tt) = Some tt) as -> by (destruct dbg; reflexivity). cbn [bindo].
  rewrite slice_from_o_some by (rewrite nlen_app; lia). rewrite nskipn_app_len. reflexivity.
Qed.

(* opt_new_port = None: Url::set_host / set_ip_host / quirks hostname; Some np: quirks host *)
Theorem set_host_internal_frame H pt hi q f h' onp :
  set_host_internal dbg hd (U H pt hi q f) h' onp
  = Some (U (hd h') (match onp with Some np => np | None => pt end) (hi_of_host h') q f).
Proof.
  unfold set_host_internal.
  change (host_start (U H pt hi q f)) with (nlen A).
  change (host_end (U H pt hi q f)) with (nlen (A ++ H)).
  change (path_start (U H pt hi q f)) with (nlen ((A ++ H) ++ port_text pt)).
  change (username_end (U H pt hi q f)) with ue.
  change (scheme_end (U H pt hi q f)) with (nlen sch).
  change (port (U H pt hi q f)) with pt.
  change (query_start (U H pt hi q f)) with (qf_qs (nlen (((A ++ H) ++ port_text pt) ++ R)) q).
  change (fragment_start (U H pt hi q f)) with (qf_fs (nlen (((A ++ H) ++ port_text pt) ++ R)) q f).
  assert (ser (U H pt hi q f) = A ++ H ++ port_text pt ++ R ++ qf_text q f) as Es
    by (rewrite hp_ser; rewrite <- !app_assoc; reflexivity).
  assert (truncate (ser (U H pt hi q f)) (nlen A) = A) as Et by (rewrite Es; unfold truncate; apply nfirstn_app_len).
  rewrite Et.
  assert (has_authority dbg (set_ser (U H pt hi q f) A) = Some true) as Ha.
  { unfold set_ser. rewrite <- (app_nil_r A). rewrite <- (app_assoc sch). exact (has_authority_front UI [] _ _ _ _ _ _ _ _). }
  rewrite Ha. cbn [bindo negb].
  destruct onp as [np|].
  - (* the suffix starts at the path *)
    unfold u_slice_from. rewrite Es.
    replace (A ++ H ++ port_text pt ++ R ++ qf_text q f) with (((A ++ H) ++ port_text pt) ++ R ++ qf_text q f)
      by (rewrite <- !app_assoc; reflexivity).
    rewrite slice_from_o_some by (rewrite (nlen_app _ (R ++ qf_text q f)); lia). rewrite nskipn_app_len. cbn [bindo].
    set (s3 := match np with Some p => (A ++ hd h') ++ [58] ++ decimal p | None => A ++ hd h' end).
    assert (s3 = (A ++ hd h') ++ port_text np) as E3 by (destruct np; unfold s3; cbn [port_text]; [reflexivity | rewrite app_nil_r; reflexivity]).
    rewrite adjust_ge by lia. cbn [bindo].
    rewrite adjust_qs, adjust_fs. cbn [bindo]. f_equal. unfold hp_url, qf_url.
    rewrite N.sub_diag, N.add_0_l. rewrite E3. rewrite <- (nlen_app _ R). rewrite <- !app_assoc. reflexivity.
  - (* the suffix starts behind the host *)
    unfold u_slice_from. rewrite Es. rewrite (app_assoc A H).
    rewrite slice_from_o_some by (rewrite (nlen_app (A ++ H)); lia). rewrite nskipn_app_len. cbn [bindo].
    rewrite adjust_ge by (rewrite (nlen_app (A ++ H)); lia). cbn [bindo].
    replace (((A ++ H) ++ port_text pt) ++ R) with ((A ++ H) ++ port_text pt ++ R) by (rewrite <- !app_assoc; reflexivity).
    rewrite adjust_qs, adjust_fs. cbn [bindo]. f_equal. unfold hp_url, qf_url.
    assert (nlen ((A ++ H) ++ port_text pt) - nlen (A ++ H) + nlen (A ++ hd h') = nlen ((A ++ hd h') ++ port_text pt)) as -> 
      by (rewrite !nlen_app; lia).
    assert (nlen (A ++ hd h') + nlen (port_text pt ++ R) = nlen (((A ++ hd h') ++ port_text pt) ++ R)) as ->
      by (rewrite !nlen_app; lia).
    rewrite <- !app_assoc. reflexivity.
Qed.
End Frame.

(* ---------- the canonical record with authority ---------- *)
Section AuthHost.
Variable dbg : bool.
Variable hd : host -> list N.

Theorem set_host_internal_auth sch ui h pt p q f h' onp :
  set_host_internal dbg hd (auth_url hd sch ui h pt p q f) h' onp
  = Some (auth_url hd sch ui h' (match onp with Some np => np | None => pt end) p q f).
Proof.
  rewrite !auth_url_hp. unfold auth_A.
  replace (nlen sch + 3 + nlen (ui_text ui)) with (nlen ((sch ++ [58; 47; 47]) ++ ui_text ui))
    by (rewrite !nlen_app; reflexivity).
  apply set_host_internal_frame.
Qed.
End AuthHost.

(* ---------- a record without authority and without the "/." marker: the setter inserts "//" host ---------- *)
Section NoAuthHost.
Variable dbg : bool.
Variable hd : host -> list N.

Lemma has_authority_none sch ue' hs' he' hi' pt' ps' qs' fs' :
  has_authority dbg (mkUrl (sch ++ [58]) (nlen sch) ue' hs' he' hi' pt' ps' qs' fs') = Some false.
Proof.
  unfold has_authority, byte_is, byte_at, u_slice_from. cbn [ser scheme_end].
  pose proof (byte_eqb_app sch 58 []) as Hb. unfold byte_eqb in Hb.
  destruct (nnth (sch ++ [58]) (nlen sch)) as [x|]; [|discriminate]. cbn [bindo]. rewrite Hb.
  assert ((if dbg then assert_o true else Some tt) = Some tt) as -> by (destruct dbg; reflexivity). cbn [bindo].
  rewrite slice_from_o_some by (rewrite nlen_app; lia). rewrite nskipn_app_len. reflexivity.
Qed.

Theorem set_host_internal_noauth sch segs last q f h' onp : starts_with s_ss (path_text segs last) = false ->
  set_host_internal dbg hd (noauth_url sch (path_text segs last) q f) h' onp
  = Some (auth_url hd sch UNone h' (match onp with Some np => np | None => None end) (Some (segs, last)) q f).
Proof.
  intros Hm. set (T := path_text segs last) in *.
  assert (marker_of T = []) as Em by (unfold marker_of; rewrite Hm; reflexivity).
  assert (noauth_url sch T q f
          = qf_url ((sch ++ [58]) ++ T) (nlen sch) (nlen (sch ++ [58])) (nlen (sch ++ [58])) (nlen (sch ++ [58])) HI_None None
                   (nlen (sch ++ [58])) q f) as EU.
  { rewrite noauth_url_qf. unfold noauth_pre. rewrite Em. cbn [app nlen length]. rewrite N.add_0_r. reflexivity. }
  rewrite EU. clear EU. set (C := sch ++ [58]).
  unfold set_host_internal.
  cbn [qf_url host_start host_end path_start username_end scheme_end port query_start fragment_start ser].
  assert (u_slice_from (qf_url (C ++ T) (nlen sch) (nlen C) (nlen C) (nlen C) HI_None None (nlen C) q f) (nlen C)
          = Some (T ++ qf_text q f)) as Esl.
  { unfold u_slice_from, qf_url. cbn [ser]. rewrite <- app_assoc.
    rewrite slice_from_o_some by (rewrite nlen_app; lia). rewrite nskipn_app_len. reflexivity. }
  assert ((match onp with Some _ => nlen C | None => nlen C end) = nlen C) as Eo by (destruct onp; reflexivity).
  rewrite Eo. rewrite Esl. cbn [bindo].
  assert (truncate ((C ++ T) ++ qf_text q f) (nlen C) = C) as Et by (unfold truncate; rewrite <- app_assoc; apply nfirstn_app_len).
  rewrite Et. unfold set_ser, qf_url. cbn [ser scheme_end username_end host_start host_end hosti port path_start query_start fragment_start].
  unfold C at 1. rewrite has_authority_none. cbn [bindo negb].
  assert ((if dbg then x <- slice_o C (nlen sch) (nlen C);; assert_o (list_eqb x [58]);;; assert_o (nlen C =? nlen C) else Some tt)
          = Some tt) as Ed.
  { destruct dbg; [|reflexivity]. unfold C. rewrite slice_o_some by (rewrite ?nlen_app; lia).
    rewrite nskipn_app_len. rewrite nlen_app. replace (nlen sch + nlen [58] - nlen sch) with 1 by (cbn; lia).
    cbn [nfirstn N.to_nat Pos.to_nat Pos.iter_op firstn bindo list_eqb]. rewrite N.eqb_refl. reflexivity. }
  rewrite Ed. cbn [bindo].
  set (np := match onp with Some np => np | None => None end).
  set (s3 := (C ++ [47; 47]) ++ hd h' ++ port_text np).
  assert ((let '(s3, port') := match onp with
                               | Some np0 => (match np0 with Some p => ((C ++ [47; 47]) ++ hd h') ++ [58] ++ decimal p
                                              | None => (C ++ [47; 47]) ++ hd h' end, np0)
                               | None => ((C ++ [47; 47]) ++ hd h', None)
                               end in (s3, port')) = (s3, np)) as E3.
  { unfold s3, np. destruct onp as [[p|]|]; cbn [port_text]; rewrite <- ?app_assoc, ?app_nil_r; reflexivity. }
  assert (forall (K : list N -> option N -> option url),
            (let '(s, port') := match onp with
                               | Some np0 => (match np0 with Some p => ((C ++ [47; 47]) ++ hd h') ++ [58] ++ decimal p
                                              | None => (C ++ [47; 47]) ++ hd h' end, np0)
                               | None => ((C ++ [47; 47]) ++ hd h', None)
                               end in K s port') = K s3 np) as EK.
  { intros K. unfold s3, np. destruct onp as [[p|]|]; cbn [port_text]; rewrite <- ?app_assoc, ?app_nil_r; reflexivity. }
  rewrite (EK (fun s port' =>
     ps <- adjust dbg (nlen C) (nlen C) (nlen s);;
     qs <- adjust_opt dbg (qf_qs (nlen (C ++ T)) q) (nlen C) (nlen s);;
     fs <- adjust_opt dbg (qf_fs (nlen (C ++ T)) q f) (nlen C) (nlen s);;
     Some (mkUrl (s ++ T ++ qf_text q f) (nlen sch) (nlen C + 2) (nlen C + 2) (nlen ((C ++ [47; 47]) ++ hd h'))
                 (hi_of_host h') port' ps qs fs))).
  cbv beta. clear EK E3.
  rewrite adjust_ge by lia. cbn [bindo]. rewrite adjust_qs, adjust_fs. cbn [bindo]. f_equal.
  unfold auth_url, auth_ser, auth_pre, auth_front. cbn [ui_text ui_ulen pth_text app nlen length].
  fold T. unfold s3, C.
  assert (nlen sch + 3 = nlen (sch ++ [58]) + 2) as E1 by (rewrite nlen_app; cbn; lia).
  assert (((sch ++ [58]) ++ [47; 47]) = sch ++ [58; 47; 47]) as E2 by (rewrite <- app_assoc; reflexivity).
  rewrite E2. rewrite N.sub_diag, N.add_0_l, !N.add_0_r.
  rewrite <- E1. rewrite <- !(nlen_app _ T).
  replace (nlen sch + 3 + nlen (hd h')) with (nlen ((sch ++ [58; 47; 47]) ++ hd h')) by (rewrite !nlen_app; cbn; lia).
  rewrite <- !app_assoc. reflexivity.
Qed.
End NoAuthHost.
