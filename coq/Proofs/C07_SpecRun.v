(* Proofs/C07_SpecRun.v - the specification side of the C07 equivalence: what the basic URL parser of
   Spec/Whatwg.v computes when it is run WITH a state override from the fragment, query and port
   states (the hash, search and port setters), on any text, and from there the closed forms of the
   hash / search / username / password / port attribute setters of the Standard. *)
From RU Require Import Base.Prelude Base.Utf8 Spec.Whatwg Spec.WhatwgFuel Proofs.C01_EqRun.

Section OvRuns.
Variable hp : bool -> list N -> option spec_host.
Variable input : list N.
Variable ov : pstate.

Notation runO := (run hp input None (Some ov)).
Notation stepO := (step hp input None (Some ov)).
Notation LEN := (Z.of_nat (length input)).

Lemma step_at st pre t buf a b pw u : input = pre ++ t ->
  stepO (at_pos st pre buf a b pw u)
  = let m := at_pos st pre buf a b pw u in
    let c := hd_error t in let rem := tl t in
    match st with
    | StSchemeStart => st_scheme_start (Some ov) m c
    | StScheme => st_scheme None (Some ov) m c rem
    | StNoScheme => st_no_scheme None m c
    | StSpecialRelativeOrAuthority => st_special_relative_or_authority m c rem
    | StPathOrAuthority => st_path_or_authority m c
    | StRelative => st_relative None m c
    | StRelativeSlash => st_relative_slash None m c
    | StSpecialAuthoritySlashes => st_special_authority_slashes m c rem
    | StSpecialAuthorityIgnoreSlashes => st_special_authority_ignore_slashes m c
    | StAuthority => st_authority m c
    | StHost | StHostname => st_host hp (Some ov) m c
    | StPort => st_port (Some ov) m c
    | StFile => st_file None m c rem
    | StFileSlash => st_file_slash None m c rem
    | StFileHost => st_file_host hp (Some ov) m c
    | StPathStart => st_path_start (Some ov) m c
    | StPath => st_path (Some ov) m c
    | StOpaquePath => st_opaque_path m c
    | StQuery => st_query (Some ov) m c
    | StFragment => st_fragment m c
    end.
Proof.
  intros Hin. unfold step, at_pos. cbn [m_ptr m_state]. rewrite (substring_at hp input pre t Hin). reflexivity.
Qed.

Lemma inc_at st pre (c : N) buf a b pw u :
  inc_ptr (mkM st (Z.of_nat (length pre)) buf a b pw u) = at_pos st (pre ++ [c]) buf a b pw u.
Proof. unfold inc_ptr, set_ptr, at_pos. cbn [m_ptr m_state m_buf m_at m_br m_pw m_url]. rewrite (len_snoc hp). reflexivity. Qed.

(* ---------- fragment state ---------- *)
Theorem run_fragment_ov : forall t pre fuel buf a b pw u f0,
  input = pre ++ t -> su_fragment u = Some f0 -> (length t < fuel)%nat ->
  runO fuel (at_pos StFragment pre buf a b pw u) = BDone (set_fragment u (Some (f0 ++ upe in_fragment_set t))).
Proof.
  induction t as [|c r IH]; intros pre fuel buf a b pw u f0 Hin Hf Hfuel;
    (destruct fuel as [|fuel]; [cbn [length] in Hfuel; lia|]); cbn [run].
  - rewrite (step_at _ _ _ _ _ _ _ _ Hin). cbn zeta. cbn [hd_error]. unfold st_fragment.
    cbn [m_ptr at_pos]. rewrite (len_split hp input pre [] Hin). cbn [length].
    replace (Z.of_nat (length pre) + Z.of_nat 0 <=? Z.of_nat (length pre))%Z with true by lia.
    cbn [m_url upe utf8_percent_encode flat_map]. rewrite app_nil_r, (set_fragment_same _ _ Hf). reflexivity.
  - rewrite (step_at _ _ _ _ _ _ _ _ Hin). cbn zeta. cbn [hd_error]. unfold st_fragment.
    cbn [m_url at_pos]. rewrite Hf. unfold set_url. cbn [m_state m_ptr m_buf m_at m_br m_pw m_url at_pos].
    rewrite (len_split hp input pre (c :: r) Hin). cbn [length].
    replace (Z.of_nat (length pre) + Z.of_nat (S (length r)) <=? Z.of_nat (length pre))%Z with false by lia.
    rewrite (inc_at StFragment pre c).
    rewrite (IH (pre ++ [c]) fuel buf a b pw (set_fragment u (Some (f0 ++ utf8_percent_encode_cp in_fragment_set c)))
                (f0 ++ utf8_percent_encode_cp in_fragment_set c)
                (snoc_split input pre c r Hin) eq_refl) by (cbn [length] in Hfuel; lia).
    rewrite upe_cons, app_assoc. destruct u; reflexivity.
Qed.

(* ---------- query state: with a state override '#' is an ordinary code point ---------- *)
Lemma set_query_twice u x y : set_query (set_query u x) y = set_query u y.
Proof. destruct u; reflexivity. Qed.

Theorem run_query_ov : forall t pre fuel buf a b pw u q0,
  input = pre ++ t -> su_query u = Some q0 -> (length t < fuel)%nat ->
  runO fuel (at_pos StQuery pre buf a b pw u) = BDone (set_query u (Some (q0 ++ upe (qset_of u) (buf ++ t)))).
Proof.
  induction t as [|c r IH]; intros pre fuel buf a b pw u q0 Hin Hq Hfuel;
    (destruct fuel as [|fuel]; [cbn [length] in Hfuel; lia|]); cbn [run].
  - rewrite (step_at _ _ _ _ _ _ _ _ Hin). cbn zeta. cbn [hd_error]. unfold st_query.
    cbn [has_ov opt_is_some negb andb orb is_eof cis m_url m_buf at_pos]. rewrite Hq.
    unfold set_buf, set_url. cbn [m_state m_ptr m_buf m_at m_br m_pw m_url at_pos].
    rewrite (len_split hp input pre [] Hin). cbn [length].
    replace (Z.of_nat (length pre) + Z.of_nat 0 <=? Z.of_nat (length pre))%Z with true by lia.
    rewrite app_nil_r. reflexivity.
  - rewrite (step_at _ _ _ _ _ _ _ _ Hin). cbn zeta. cbn [hd_error]. unfold st_query.
    cbn [has_ov opt_is_some negb andb orb is_eof cis m_url m_buf at_pos].
    unfold push_buf, set_buf. cbn [m_state m_ptr m_buf m_at m_br m_pw m_url at_pos].
    rewrite (len_split hp input pre (c :: r) Hin). cbn [length].
    replace (Z.of_nat (length pre) + Z.of_nat (S (length r)) <=? Z.of_nat (length pre))%Z with false by lia.
    rewrite (inc_at StQuery pre c).
    rewrite (IH (pre ++ [c]) fuel (buf ++ [c]) a b pw u q0 (snoc_split input pre c r Hin) Hq)
      by (cbn [length] in Hfuel; lia).
    rewrite <- app_assoc. reflexivity.
Qed.

(* ---------- port state with a state override ---------- *)
Fixpoint take_digits (t : list N) : list N :=
  match t with
  | c :: r => if is_digit c then c :: take_digits r else []
  | [] => []
  end.

(* the outcome of the port state on a buffer of digits, when a state override is given *)
Definition port_outcome (u : spec_url) (digits : list N) : parse_outcome :=
  match digits with
  | [] => BFailure u
  | _ => let port := decimal_value digits in
         if 65535 <? port then BFailure u
         else BDone (set_port u (if port_is_default (su_scheme u) port then None else Some port))
  end.

Lemma port_stop c buf a b pw u pre t : input = pre ++ t -> hd_error t = c -> cpred is_digit c = false ->
  st_port (Some ov) (at_pos StPort pre buf a b pw u) c =
  match port_outcome u buf with BDone x => SReturn x | BFailure x => SFailure x | BOutOfFuel => SFailure u end.
Proof.
  intros Hin Hc Hd. unfold st_port. rewrite Hd. cbn [has_ov opt_is_some]. rewrite orb_true_r.
  cbn [m_buf m_url at_pos]. unfold port_outcome.
  destruct buf as [|d ds]; [reflexivity|]. cbn [list_eqb negb].
  destruct (65535 <? decimal_value (d :: ds)); reflexivity.
Qed.

Theorem run_port_ov : forall t pre fuel buf a b pw u,
  input = pre ++ t -> (length t < fuel)%nat ->
  runO fuel (at_pos StPort pre buf a b pw u) = port_outcome u (buf ++ take_digits t).
Proof.
  induction t as [|c r IH]; intros pre fuel buf a b pw u Hin Hfuel;
    (destruct fuel as [|fuel]; [cbn [length] in Hfuel; lia|]); cbn [run].
  - rewrite (step_at _ _ _ _ _ _ _ _ Hin). cbn zeta. cbn [hd_error].
    rewrite (port_stop None buf a b pw u pre [] Hin eq_refl eq_refl). cbn [take_digits]. rewrite app_nil_r.
    unfold port_outcome. destruct buf as [|d ds]; [reflexivity|].
    destruct (65535 <? decimal_value (d :: ds)); reflexivity.
  - rewrite (step_at _ _ _ _ _ _ _ _ Hin). cbn zeta. cbn [hd_error take_digits].
    destruct (is_digit c) eqn:Ed.
    + unfold st_port. cbn [cpred]. rewrite Ed.
      unfold push_buf, set_buf. cbn [m_state m_ptr m_buf m_at m_br m_pw m_url at_pos].
      rewrite (len_split hp input pre (c :: r) Hin). cbn [length].
      replace (Z.of_nat (length pre) + Z.of_nat (S (length r)) <=? Z.of_nat (length pre))%Z with false by lia.
      rewrite (inc_at StPort pre c).
      rewrite (IH (pre ++ [c]) fuel (buf ++ [c]) a b pw u (snoc_split input pre c r Hin))
        by (cbn [length] in Hfuel; lia).
      rewrite <- app_assoc. reflexivity.
    + rewrite (port_stop (Some c) buf a b pw u pre (c :: r) Hin eq_refl Ed). rewrite app_nil_r.
      unfold port_outcome. destruct buf as [|d ds]; [reflexivity|].
      destruct (65535 <? decimal_value (d :: ds)); reflexivity.
Qed.

End OvRuns.

(* ---------- the attribute setters in closed form ---------- *)
Definition notnl (v : list N) : list N := filter (fun c => negb (is_ascii_tab_or_newline c)) v.

Lemma fuel_enough (t : list N) : (length t < spec_fuel t)%nat.
Proof. unfold spec_fuel. lia. Qed.

Section Setters.
Variable shp : bool -> list N -> option spec_host.

Lemma set_fragment_twice u x y : set_fragment (set_fragment u x) y = set_fragment u y.
Proof. destruct u; reflexivity. Qed.

Theorem spec_hash_some su x :
  after_override (spec_basic_url_parse_override shp x (set_fragment su (Some [])) StFragment)
  = SetTo (set_fragment su (Some (upe in_fragment_set (notnl x)))).
Proof.
  unfold spec_basic_url_parse_override. fold (notnl x).
  change (mkM StFragment 0%Z [] false false false (set_fragment su (Some [])))
    with (at_pos StFragment [] [] false false false (set_fragment su (Some []))).
  rewrite (run_fragment_ov shp (notnl x) StFragment (notnl x) [] _ [] false false false (set_fragment su (Some [])) [] eq_refl eq_refl (fuel_enough _)).
  cbn [after_override app]. rewrite set_fragment_twice. reflexivity.
Qed.

Theorem spec_search_some su x :
  after_override (spec_basic_url_parse_override shp x (set_query su (Some [])) StQuery)
  = SetTo (set_query su (Some (upe (qset_of su) (notnl x)))).
Proof.
  unfold spec_basic_url_parse_override. fold (notnl x).
  change (mkM StQuery 0%Z [] false false false (set_query su (Some [])))
    with (at_pos StQuery [] [] false false false (set_query su (Some []))).
  rewrite (run_query_ov shp (notnl x) StQuery (notnl x) [] _ [] false false false (set_query su (Some [])) [] eq_refl eq_refl (fuel_enough _)).
  cbn [after_override app]. rewrite set_query_twice.
  replace (qset_of (set_query su (Some []))) with (qset_of su) by (destruct su; reflexivity). reflexivity.
Qed.

Definition outcome_url (r : parse_outcome) (dflt : spec_url) : spec_url :=
  match r with BDone x => x | BFailure x => x | BOutOfFuel => dflt end.

Theorem spec_port_some su v :
  after_override (spec_basic_url_parse_override shp v su StPort)
  = SetTo (outcome_url (port_outcome su (take_digits (notnl v))) su).
Proof.
  unfold spec_basic_url_parse_override. fold (notnl v).
  change (mkM StPort 0%Z [] false false false su) with (at_pos StPort [] [] false false false su).
  rewrite (run_port_ov shp (notnl v) StPort (notnl v) [] _ [] false false false su eq_refl (fuel_enough _)).
  cbn [app]. unfold port_outcome. destruct (take_digits (notnl v)) as [|d ds]; [reflexivity|].
  destruct (65535 <? decimal_value (d :: ds)); reflexivity.
Qed.

End Setters.
