(* Proofs/C01_EqFileCover3.v - class 1 of Known_C01 narrowed a third time (task c01file5): ONE leading separator
   against a FILE base, the host of the base kept (Proofs/C01_EqFileOne.v arm (a)), is folded into Known_C01
   (Model/KnownC01.v k_one_keep / k_file_narrow; twin harness/src/known01.rs).  known_c01_v3 is the predicate of task
   c01file4 (Proofs/C01_EqFileCover2.v is about it, literally as before).  Here: the recogniser on the model record
   of the base and the raw text is sound for the class on the Standard's side (k_one_keep_ok); known_c01_v3 = 0 ->
   known_c01 = 0; coverage of known_c01 = 0 by in_proved_class6 = in_proved_class5 + the two classes; the assembled
   statement (statement_all6). *)
From Coq Require Import ZifyBool ZifyN.
From RU Require Import Base.Prelude Base.Utf8 Base.Utf8Facts Model.AsciiSet Gen.Tables
  Model.PercentEncoding Model.HostT Model.UrlRecord Model.Parser Model.Setters Model.WF Model.Host Model.KnownC08 Model.KnownC01
  Spec.Whatwg Spec.WhatwgHost Spec.WhatwgHostParse
  Proofs.ListN Proofs.C14_Set Proofs.C14_Enc Proofs.C14_Views Proofs.C02_Enc Proofs.C02_Parts
  Proofs.C02_Opaque Proofs.C02_Path Proofs.C02_PathL1 Proofs.C03_WF Proofs.C04_CheckInv Proofs.C01_Tables Proofs.C08_Input Proofs.C09_Host
  Proofs.C01_EqRun Proofs.C01_EqEnc Proofs.C01_EqApi Proofs.C01_EqOpaque Proofs.C01_EqDots Proofs.C01_EqPathSpec
  Proofs.C06_List Proofs.C06_WFI Proofs.C06_Tail Proofs.C06_Steps Proofs.C06_FragQuery Proofs.C06_PathParser Proofs.C06_Path
  Proofs.C08_Simple Proofs.C08_Contain Proofs.C08_NoAuth
  Proofs.C01_EqRef Proofs.C01_EqPath Proofs.C01_EqOverflow Proofs.C01_EqEmpty Proofs.C01_EqClasses
  Proofs.C01_EqAuthSpec Proofs.C01_EqAuthModel Proofs.C01_EqAuth Proofs.C01_EqClasses2 Proofs.C01_EqRel Proofs.C01_EqRelPath
  Proofs.C01_EqRelArms Proofs.C01_EqRelBase
  Proofs.C01_EqSpSpec Proofs.C01_EqSpPath Proofs.C01_EqSpRel Proofs.C01_EqSpModel Proofs.C01_EqSp Proofs.C01_EqAbs
  Proofs.C01_EqSpBase Proofs.C01_EqAsm Proofs.C01_EqShape Proofs.C01_KnownExact Proofs.C01_EqSpKnown Proofs.C01_Override Proofs.C01_EqCover
  Proofs.C01_EqFileSpec Proofs.C01_EqFilePath Proofs.C01_EqFileRel Proofs.C01_EqFile Proofs.C01_EqFileHost
  Proofs.C01_EqFileAsm Proofs.C01_EqFileCover Proofs.C01_EqFileTwo Proofs.C01_EqFileRel2 Proofs.C01_EqFileBase Proofs.C01_EqFileBase2
  Proofs.C01_EqFileCover2 Proofs.C01_EqFileOne.



Lemma ntnl_fixed l : forallb (fun c => negb (is_tnl c)) l = true -> ntnl l = l.
Proof.
  induction l as [|c r IH]; [reflexivity|]. cbn [forallb]. intros H. apply andb_true_iff in H. destruct H as [H1 H2].
  apply negb_true_iff in H1. rewrite ntnl_cons by exact H1. rewrite (IH H2). reflexivity.
Qed.

Lemma ntnl_clean l : forallb (fun c => negb (is_tnl c)) (ntnl l) = true.
Proof. unfold ntnl. apply forallb_forall. intros x Hx. apply filter_In in Hx. exact (proj2 Hx). Qed.

Section KOne.
Variable dbg : bool.
Variable shs : spec_host -> list N.

Lemma base_path_text b sb : related dbg shs b sb -> path b = Some (serialize_path sb).
Proof.
  intros R. pose proof (rel_wf _ _ _ _ R) as W.
  destruct (accessors_reconcatenate dbg b W)
    as (sch & un & pw & hs & pth & qb & fb & Es1 & Eun & Epw & Ehs & Ept & Eq & Ef & _).
  pose proof (api_by_accessors dbg b W sch un pw hs pth qb fb Es1 Eun Epw Ehs Ept Eq Ef) as Ab.
  rewrite (rel_api _ _ _ _ R) in Ab. unfold api_of_parts, spec_api_list in Ab.
  injection Ab as _ _ _ _ _ _ _ E8 _ _. unfold get_pathname in E8. rewrite E8. exact Ept.
Qed.

(* R tab-free (any cleaned text is) *)
Theorem k_one_keep_ok b sb R : related dbg shs b sb -> spec_base_ok sb = true ->
  list_eqb (b_scheme b) s_file = true -> k_cbb b = false ->
  forallb (fun c => negb (is_tnl c)) R = true ->
  k_one_keep b R = true -> k_file_ok R = true -> file_one_ok sb R = true.
Proof.
  intros Rl Hbok Hbf Hcb Hcl Hk Hf.
  apply andb_true_iff in Hbok. destruct Hbok as [_ HnsP].
  unfold file_one_ok. rewrite <- (related_cbb dbg shs b sb Rl), Hcb, <- (rel_sch _ _ _ _ Rl).
  change str_file with s_file. rewrite Hbf. cbn [negb andb].
  destruct R as [|c1 R1]; [discriminate Hk|]. cbn [k_one_keep] in Hk.
  apply andb_true_iff in Hk. destruct Hk as [Hk Hfirst]. apply andb_true_iff in Hk. destruct Hk as [Hk Hauth].
  apply andb_true_iff in Hk. destruct Hk as [Hk Hw]. apply andb_true_iff in Hk. destruct Hk as [Esl1 Hh].
  change (k_sl c1) with (is_sl c1) in Esl1. apply negb_true_iff in Hw.
  cbn [forallb] in Hcl. apply andb_true_iff in Hcl. destruct Hcl as [_ Hcl1].
  rewrite swdl_segment_spec, (ntnl_fixed R1 Hcl1) in Hw.
  assert (no_sl_head R1 = true) as Hh' by (destruct R1 as [|c2 T]; [reflexivity | exact Hh]).
  pose proof (k_file_ok_class _ Hf) as Hc. cbn [file_class_ok] in Hc. rewrite Esl1 in Hc.
  assert (fp_ok false R1 R1 = true) as Hfp.
  { destruct R1 as [|c2 T]; [exact Hc|]. cbn [no_sl_head] in Hh'. apply negb_true_iff in Hh'. rewrite Hh' in Hc. exact Hc. }
  rewrite Esl1, Hh', Hfp, Hw. cbn [andb].
  fold (has_authority_b b) in Hauth. rewrite (related_host_iff dbg shs b sb Rl) in Hauth.
  destruct (su_host sb) as [sh|]; [|discriminate Hauth]. cbn [opt_is_some andb].
  pose proof (base_path_text b sb Rl) as Ept.
  assert (has_opaque_path sb = false) as Hop by (rewrite <- (related_cbb dbg shs b sb Rl); exact Hcb).
  assert (serialize_path sb = flat (Whatwg.path_segments sb)) as EPth.
  { unfold serialize_path, Whatwg.path_segments, flat. unfold has_opaque_path in Hop. destruct (su_path sb); [discriminate Hop | reflexivity]. }
  unfold first_not_nwdl. destruct (Whatwg.path_segments sb) as [|p0 Pr] eqn:EP.
  - exfalso. unfold base_first_segment in Hfirst. rewrite Ept, EPth in Hfirst. discriminate Hfirst.
  - cbn [forallb] in HnsP. apply andb_true_iff in HnsP. destruct HnsP as [Hns0 _].
    rewrite (base_first_segment_spec dbg shs b sb p0 Pr Rl Hop EP Hns0) in Hfirst. rewrite <- is_nwdl_agree. exact Hfirst.
Qed.

End KOne.

(* ================= the predicate against the former one ================= *)
Lemma narrow_v3_new base input : k_file_narrow_v3 base input = true -> k_file_narrow base input = true.
Proof.
  unfold k_file_narrow_v3, k_file_narrow. cbv zeta.
  destruct (leading_scheme (cleaned input)) as [s|].
  - destruct base as [b|]; [|exact (fun H => H)].
    intros H. apply andb_true_iff in H. destruct H as [H H3]. apply andb_true_iff in H. destruct H as [H1 H2].
    rewrite H1, H2, H3. reflexivity.
  - destruct base as [b|]; [|discriminate].
    intros H. apply andb_true_iff in H. destruct H as [H H4]. apply andb_true_iff in H. destruct H as [H H3].
    rewrite H, H3, H4. reflexivity.
Qed.

(* what is new: one leading separator, the host of the base kept *)
Definition k_arm_one (base : option url) (input : list N) : bool :=
  let t := cleaned input in
  match base with
  | Some b =>
      list_eqb (b_scheme b) s_file && negb (k_cbb b)
      && match leading_scheme t with
         | Some s => list_eqb s s_file && k_one_keep b (after_colon t) && k_file_ok (after_colon t)
         | None => k_one_keep b t && k_file_ok t
         end
  | None => false
  end.

Lemma narrow_split6 base input : k_file_narrow base input = true ->
  k_file_narrow_v3 base input = true \/ k_arm_one base input = true.
Proof.
  unfold k_file_narrow, k_file_narrow_v3, k_arm_one. cbv zeta.
  destruct (leading_scheme (cleaned input)) as [s|].
  - destruct base as [b|]; [|intros H; left; exact H].
    intros H. apply andb_true_iff in H. destruct H as [H H3]. apply andb_true_iff in H. destruct H as [H1 H2].
    rewrite H1, H3. cbn [andb]. rewrite !andb_true_r.
    destruct (negb (list_eqb (b_scheme b) s_file) || k_two_sl (after_colon (cleaned input))) eqn:E; [left; reflexivity|].
    right. cbn [orb] in H2. apply orb_false_iff in E. destruct E as [E _]. apply negb_false_iff in E. rewrite E.
    apply andb_true_iff in H2. destruct H2 as [H2 H4]. rewrite H2, H4. reflexivity.
  - destruct base as [b|]; [|discriminate].
    intros H. apply andb_true_iff in H. destruct H as [H H4]. apply andb_true_iff in H. destruct H as [H H3].
    rewrite H, H4. cbn [andb]. rewrite !andb_true_r.
    destruct (k_two_sl (cleaned input)) eqn:E; [left; reflexivity|]. right. cbn [orb] in H3. exact H3.
Qed.

Lemma known_split6 base input : known_c01 base input = 0 ->
  known_c01_v3 base input = 0 \/ k_arm_one base input = true.
Proof.
  unfold known_c01, known_c01_v3. cbv zeta.
  destruct (known_c01_v1 base input =? 1) eqn:E1; cbn [andb]; [|intros H; left; exact H].
  destruct (k_file_narrow base input) eqn:E; [|intros H; left; destruct (k_file_narrow_v3 base input); [reflexivity | exact H]].
  intros _. destruct (narrow_split6 base input E) as [K|K]; [left; rewrite K; reflexivity | right; exact K].
Qed.

(* whatever was outside still is; the classes 2-4 are untouched; without a base nothing changed *)
Lemma known_v3_zero base input : known_c01_v3 base input = 0 -> known_c01 base input = 0.
Proof.
  unfold known_c01_v3, known_c01. cbv zeta.
  destruct (known_c01_v1 base input =? 1) eqn:E1; cbn [andb]; [|exact (fun H => H)].
  destruct (k_file_narrow_v3 base input) eqn:E2.
  - rewrite (narrow_v3_new base input E2). reflexivity.
  - intros H. apply N.eqb_eq in E1. rewrite E1 in H. discriminate H.
Qed.

Lemma known_class_same6 base input : known_c01 base input <> 0 -> known_c01 base input = known_c01_v1 base input.
Proof.
  unfold known_c01. cbv zeta. destruct ((known_c01_v1 base input =? 1) && k_file_narrow base input).
  - intros H. exfalso. apply H. reflexivity.
  - intros _. reflexivity.
Qed.

Lemma known_nobase_same6 input : known_c01 None input = known_c01_v3 None input.
Proof.
  unfold known_c01, known_c01_v3, k_file_narrow, k_file_narrow_v3. cbv zeta.
  destruct (leading_scheme (cleaned input)); reflexivity.
Qed.

(* ================= the classes ================= *)
Definition one_class (sbase : option spec_url) (input : list N) : bool :=
  match sbase with Some sb => in_class_file_rel_one sb input || in_class_file_same_one sb input | None => false end.

Definition in_proved_class6 (sbase : option spec_url) (input : list N) : bool :=
  in_proved_class5 sbase input || one_class sbase input.

Lemma after_colon_clean l : forallb (fun c => negb (is_tnl c)) l = true ->
  forallb (fun c => negb (is_tnl c)) (after_colon l) = true.
Proof.
  induction l as [|c r IH]; [reflexivity|]. cbn [forallb after_colon]. intros H. apply andb_true_iff in H. destruct H as [_ H].
  destruct (c =? 58); [exact H | exact (IH H)].
Qed.

Section Cover6.
Variable dbg : bool.
Variable shs : spec_host -> list N.

Lemma arm_one_in_class base sbase input : full_rel dbg shs base sbase ->
  k_arm_one base input = true -> one_class sbase input = true.
Proof.
  intros Hb. unfold k_arm_one. cbv zeta.
  destruct base as [b|]; [|discriminate]. destruct sbase as [sb|]; cbn [full_rel] in Hb; [|contradiction].
  destruct Hb as [[Rl Hbok] _]. intros H.
  apply andb_true_iff in H. destruct H as [H H3]. apply andb_true_iff in H. destruct H as [H1 H2].
  apply negb_true_iff in H2.
  assert (forallb (fun c => negb (is_tnl c)) (cleaned input) = true) as Hcl by (unfold cleaned; apply (ntnl_clean (input_new_trim_c0 input))).
  cbn [one_class]. unfold in_class_file_rel_one, in_class_file_same_one.
  rewrite cleaned_spec_clean in *.
  destruct (spec_scheme (spec_clean input)) as [[sch R]|] eqn:Es.
  - destruct (spec_scheme_some_leading _ _ _ Es) as [El Ea]. rewrite El, Ea in H3.
    apply andb_true_iff in H3. destruct H3 as [H3 H5]. apply andb_true_iff in H3. destruct H3 as [H3 H4].
    change s_file with str_file in H3. rewrite H3. cbn [andb].
    assert (forallb (fun c => negb (is_tnl c)) R = true) as HclR by (rewrite <- Ea; apply after_colon_clean; exact Hcl).
    rewrite (k_one_keep_ok dbg shs b sb R Rl Hbok H1 H2 HclR H4 H5). apply orb_true_r.
  - rewrite (spec_scheme_none_leading _ Es) in H3.
    apply andb_true_iff in H3. destruct H3 as [H4 H5].
    rewrite (k_one_keep_ok dbg shs b sb _ Rl Hbok H1 H2 Hcl H4 H5). reflexivity.
Qed.

(* coverage: outside Known_C01 every input is in a proved class *)
Theorem all_covers6 input base sbase : full_rel dbg shs base sbase ->
  known_c01 base input = 0 -> in_proved_class6 sbase input = true.
Proof.
  intros Hb Hk. unfold in_proved_class6. destruct (known_split6 base input Hk) as [H1|Hn].
  - rewrite (all_covers5 dbg shs input base sbase Hb H1). reflexivity.
  - rewrite (arm_one_in_class base sbase input Hb Hn). apply orb_true_r.
Qed.
End Cover6.

(* host_hyp5, and for the new classes: the Standard's serializer gives the empty string for the empty host *)
Definition host_hyp6 (hp hpo : list N -> result host) (hd : host -> list N)
           (shp : bool -> list N -> option spec_host) (shs : spec_host -> list N)
           (sbase : option spec_url) (input : list N) : Prop :=
  host_hyp5 hp hpo hd shp shs sbase input /\ (one_class sbase input = true -> shs SEmpty = []).

Section Statements6.
Variable dbg : bool.
Variable hp hpo : list N -> result host.
Variable hd : host -> list N.
Variable shp : bool -> list N -> option spec_host.
Variable shs : spec_host -> list N.

Theorem partial_equivalence_good6 input base sbase : usv_list input ->
  full_rel dbg shs base sbase -> in_proved_class6 sbase input = true ->
  host_hyp6 hp hpo hd shp shs sbase input ->
  agree_good dbg shs (parse_url dbg hp hpo hd None base input) (spec_basic_url_parse shp input sbase)
  /\ (forall su u, spec_basic_url_parse shp input sbase = BDone su -> parse_url dbg hp hpo hd None base input = POk u ->
        full_base dbg shs u su).
Proof.
  intros Hu Hb Hc (HH5 & HHe). unfold in_proved_class6 in Hc.
  destruct (in_proved_class5 sbase input) eqn:Hc5.
  - exact (partial_equivalence_good5 dbg hp hpo hd shp shs input base sbase Hu Hb Hc5 HH5).
  - cbn [orb] in Hc. pose proof (HHe Hc) as Hse.
    destruct base as [b|]; destruct sbase as [sb|]; cbn [full_rel] in Hb; try contradiction; [|discriminate Hc].
    cbn [one_class] in Hc. destruct Hb as [[Rl Hbok] _]. apply orb_true_iff in Hc. destruct Hc as [Hc|Hc].
    + exact (class_file_rel_one dbg hp hpo hd shp shs Hse input b sb Hu Rl Hbok Hc).
    + exact (class_file_same_one dbg hp hpo hd shp shs Hse input b sb Hu Rl Hbok Hc).
Qed.

(* C01_statement for Known_C01 *)
Theorem statement_all6 input base sbase : usv_list input ->
  full_rel dbg shs base sbase -> known_c01 base input = 0 ->
  host_hyp6 hp hpo hd shp shs sbase input ->
  agree_good dbg shs (parse_url dbg hp hpo hd None base input) (spec_basic_url_parse shp input sbase)
  /\ (forall su u, spec_basic_url_parse shp input sbase = BDone su -> parse_url dbg hp hpo hd None base input = POk u ->
        full_base dbg shs u su).
Proof.
  intros Hu Hb Hk HH.
  exact (partial_equivalence_good6 input base sbase Hu Hb (all_covers6 dbg shs input base sbase Hb Hk) HH).
Qed.

End Statements6.

Theorem host_hyp6_model idna : (forall bs d, idna bs = Some d -> Forall dom_char_ok d) ->
  forall sbase input, usv_list input ->
  host_hyp6 (host_parse idna) host_parse_opaque host_display (spec_host_parser idna) spec_host_serializer sbase input.
Proof. intros Hout sbase input Hu. split; [exact (host_hyp5_model idna Hout sbase input Hu) | intros _; reflexivity]. Qed.

(* relative to the first clause of IdnaOK only (every oracle output is ASCII outside the deny list) *)
Theorem statement_all6_out dbg idna : (forall bs d, idna bs = Some d -> Forall dom_char_ok d) -> forall input base sbase,
  usv_list input -> full_rel dbg spec_host_serializer base sbase -> known_c01 base input = 0 ->
  agree_good dbg spec_host_serializer
    (parse_url dbg (host_parse idna) host_parse_opaque host_display None base input)
    (spec_basic_url_parse (spec_host_parser idna) input sbase)
  /\ (forall su u, spec_basic_url_parse (spec_host_parser idna) input sbase = BDone su ->
        parse_url dbg (host_parse idna) host_parse_opaque host_display None base input = POk u ->
        full_base dbg spec_host_serializer u su).
Proof.
  intros HO input base sbase Hu Hb Hk. apply statement_all6; try assumption.
  apply host_hyp6_model; [exact HO | exact Hu].
Qed.

Theorem statement_all6_model dbg idna : IdnaOK idna -> forall input base sbase,
  usv_list input -> full_rel dbg spec_host_serializer base sbase -> known_c01 base input = 0 ->
  agree_good dbg spec_host_serializer
    (parse_url dbg (host_parse idna) host_parse_opaque host_display None base input)
    (spec_basic_url_parse (spec_host_parser idna) input sbase)
  /\ (forall su u, spec_basic_url_parse (spec_host_parser idna) input sbase = BDone su ->
        parse_url dbg (host_parse idna) host_parse_opaque host_display None base input = POk u ->
        full_base dbg spec_host_serializer u su).
Proof. intros HI. exact (statement_all6_out dbg idna (idna_out idna HI)). Qed.

Theorem statement_instance6 dbg idna : IdnaOK idna -> forall input base sbase,
  usv_list input -> full_rel dbg spec_host_serializer base sbase -> known_c01 base input = 0 ->
  statement_shape dbg spec_host_serializer
    (parse_url dbg (host_parse idna) host_parse_opaque host_display None base input)
    (spec_basic_url_parse (spec_host_parser idna) input sbase).
Proof.
  intros HI input base sbase Hu Hb Hk. apply agree_good_shape.
  exact (proj1 (statement_all6_model dbg idna HI input base sbase Hu Hb Hk)).
Qed.

Theorem statement_all6_model_utf8 dbg idna : IdnaOK idna -> forall input base sbase,
  usv_list input -> full_rel dbg spec_host_serializer base sbase -> known_c01 base input = 0 ->
  agree_good dbg spec_host_serializer
    (parse_url dbg (host_parse idna) host_parse_opaque host_display (Some utf8_encode) base input)
    (spec_basic_url_parse (spec_host_parser idna) input sbase).
Proof.
  intros HI input base sbase Hu Hb Hk. rewrite parse_url_utf8_override.
  exact (proj1 (statement_all6_model dbg idna HI input base sbase Hu Hb Hk)).
Qed.

(* ================= what left class 1 now, what stays ================= *)
(* against the parse result of file://h/tmp/x :
   left class 1 (known_c01_v3 = 1, known_c01 = 0; the sides agree by the theorem):  /y ;  \a/../b?q#f ;  /./C:/z ;
     file:/y ;
   stay in class 1:  x (path-relative: proved beside, C01_EqFileBase.v) ;  /C:/y  and  file:C:/y (F-C01-1) ;
   against the parse result of file:///C:/dir/f  the reference  /y  stays in class 1 (drive letter of the base carried
   over: proved beside) *)
Definition f3_1 : list N := [47;121].
Definition f3_2 : list N := [92;97;47;46;46;47;98;63;113;35;102].
Definition f3_3 : list N := [47;46;47;67;58;47;122].
Definition f3_4 : list N := [102;105;108;101;58;47;121].

Theorem known_file_narrowed3 :
  match parse_url true (host_parse id_idna) host_parse_opaque host_display None None file_base_text,
        parse_url true (host_parse id_idna) host_parse_opaque host_display None None [102;105;108;101;58;47;47;47;67;58;47;100;105;114;47;102] with
  | POk bf, POk bc =>
      let left i := known_c01_v3 (Some bf) i = 1 /\ known_c01 (Some bf) i = 0 in
      left f3_1 /\ left f3_2 /\ left f3_3 /\ left f3_4
      /\ known_c01 (Some bf) [120] = 1 /\ known_c01 (Some bf) [47;67;58;47;121] = 1 /\ known_c01 (Some bf) [102;105;108;101;58;67;58;47;121] = 1
      /\ known_c01 (Some bc) f3_1 = 1
      /\ known_c01 (Some bf) f2_3 = 0 /\ known_c01 (Some bf) [35; 102] = 0 /\ known_c01 (Some bf) [] = 0
  | _, _ => False
  end.
Proof. vm_compute. repeat split. Qed.

(* non-vacuity of statement_all6_model on inputs that only the predicate of this file admits *)
Example statement_all6_nonvacuous :
  let idna := id_idna in
  let P base i := parse_url true (host_parse idna) host_parse_opaque host_display None base i in
  let S sbase i := spec_basic_url_parse (spec_host_parser idna) i sbase in
  match P None file_base_text, S None file_base_text with
  | POk b, BDone sb =>
      let ok i := known_c01 (Some b) i = 0 /\ known_c01_v3 (Some b) i = 1
                  /\ in_proved_class5 (Some sb) i = false /\ in_proved_class6 (Some sb) i = true
                  /\ match P (Some b) i, S (Some sb) i with
                     | POk u, BDone su => api_of_model true u = Some (spec_api_list spec_host_serializer su)
                     | _, _ => False end in
      ok f3_1 /\ ok f3_2 /\ ok f3_3 /\ ok f3_4
  | _, _ => False
  end.
Proof. vm_compute. repeat split. Qed.
