(* Proofs/C04_NoPanic.v - the panic-freedom facts that were not yet stated by another property:
   percent_encoding (index arithmetic of the table slice; contains / add / remove on ASCII bytes) and
   data-url (the slice-panic outcome of the body decoders is unreachable for every sink). *)
From RU Require Import Base.Prelude Model.AsciiSet Gen.Tables Model.PercentEncoding Model.Base64
  Proofs.C14_Set Proofs.C14_Enc Proofs.C18_Machine Proofs.C18_Body.

(* ---------- percent_encode_byte: &ENC_TABLE[index..index + 3] is in range for every u8 ---------- *)
Lemma enc_table_slice_in_range_sweep :
  all_below 256 (fun b => N.to_nat (b * T_ENC_STRIDE) + N.to_nat T_ENC_WIDTH <=? length T_ENC_TABLE)%nat = true.
Proof. vm_compute. reflexivity. Qed.

Theorem enc_table_slice_in_range b : is_byte b ->
  (N.to_nat (b * T_ENC_STRIDE) + N.to_nat T_ENC_WIDTH <= length T_ENC_TABLE)%nat.
Proof.
  intros Hb. pose proof (all_below_spec 256 _ enc_table_slice_in_range_sweep b Hb) as H. cbv beta in H.
  apply Nat.leb_le. exact H.
Qed.

(* ---------- AsciiSet: contains / add / remove index the 4-word mask in range for ASCII bytes ---------- *)
Lemma word_in_range s i : i < 4 -> word s i <> None.
Proof.
  intros H. unfold word.
  destruct i as [|p]; [discriminate|]. destruct p as [p|p|]; try discriminate.
  - destruct p as [p|p|]; try discriminate; lia.
  - destruct p as [p|p|]; try discriminate; lia.
Qed.

Theorem aset_ops_no_panic s b : b < 128 ->
  aset_contains_o s b <> None /\ aset_add_o s b <> None /\ aset_remove_o s b <> None.
Proof.
  intros Hb. assert (b / 32 < 4) as Hi by lia. pose proof (word_in_range s (b / 32) Hi) as Hw.
  unfold aset_contains_o, aset_add_o, aset_remove_o. destruct (word s (b / 32)); [|congruence].
  repeat split; discriminate.
Qed.

(* should_percent_encode short-circuits: contains is never asked about a non-ASCII byte *)
Theorem should_encode_no_panic s b :
  (128 <=? b) = true \/ aset_contains_o s b <> None.
Proof.
  destruct (128 <=? b) eqn:E; [left; reflexivity|]. right. apply aset_ops_no_panic. lia.
Qed.

(* ---------- data-url body decoders: no slice panic, whatever the sink does ---------- *)
Section AnySink.
  Context {W E : Type}.
  Variable write : W -> list N -> W * option E.

  Theorem dwo_no_panic w body : snd (decode_without_base64 write w body) <> BodyPanic.
  Proof.
    rewrite dwo_exec. destruct (pdwo_no_panic body) as [f Hf]. unfold execb. rewrite Hf.
    destruct (attempt write w (fst (pdwo body))) as [w' [e|]]; cbn [snd body_fin]; discriminate.
  Qed.

  Theorem dwb_no_panic w body : snd (decode_with_base64 write w body) <> BodyPanic.
  Proof.
    destruct (dwb_is_run write w body) as (f & _ & H). rewrite H.
    destruct (run write w (concat (fst (pdwo body)))) as [w' [e|]]; cbn [snd b64_body_result]; discriminate.
  Qed.

  Theorem data_url_decode_no_panic base64 w body : snd (data_url_decode write base64 w body) <> BodyPanic.
  Proof.
    unfold data_url_decode. destruct base64; [apply dwb_no_panic|].
    pose proof (dwo_no_panic w body) as H. destruct (decode_without_base64 write w body) as [w' [f|e|]];
      cbn [snd] in *; try discriminate. congruence.
  Qed.
End AnySink.
