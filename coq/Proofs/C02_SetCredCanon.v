(* Proofs/C02_SetCredCanon.v - L2 for set_password and set_username on the canonical forms: the canonical record
   with authority is an instance of the userinfo frame of C02_SetCred.v; the setters replace the userinfo by a
   canonical userinfo; the records without authority refuse both setters and stay unchanged. *)
From RU Require Import Base.Prelude Base.Utf8 Base.Utf8Facts Model.AsciiSet Gen.Tables
  Model.PercentEncoding Model.HostT Model.UrlRecord Model.Parser Model.Setters Model.WF
  Proofs.ListN Proofs.C14_Set Proofs.C14_Enc Proofs.C14_Views Proofs.C02_Enc Proofs.C02_Parts
  Proofs.C02_Opaque Proofs.C02_Path Proofs.C02_PathL1 Proofs.C02_Reach Proofs.C16_RT Proofs.C02_AuthParts
  Proofs.C02_Auth Proofs.C02_AuthWf Proofs.C02_PathSp Proofs.C02_AuthSp Proofs.C02_AuthMain Proofs.C02_SetQF
  Proofs.C02_Canon Proofs.C02_SetPort Proofs.C02_SetCred.
Open Scope N_scope.
Open Scope list_scope.

Definition ui_user (ui : uinfo) : list N := match ui with UNone => [] | UUser u | UPw u _ => u end.
Definition ui_rest (ui : uinfo) : list N := match ui with UNone => [] | UUser _ => [64] | UPw _ p => 58 :: p ++ [64] end.

Lemma ui_text_split ui : ui_text ui = ui_user ui ++ ui_rest ui.
Proof. destruct ui; reflexivity. Qed.

Lemma ui_ulen_user ui : ui_ulen ui = nlen (ui_user ui).
Proof. destruct ui; reflexivity. Qed.

Section CredCanon.
Variable dbg : bool.
Variable hp hpo : list N -> result host.
Variable hd : host -> list N.
Hypothesis HRT : HostRT hp hpo hd.

(* everything from the host on, and the offsets relative to its start *)
Definition au_X (h : host) pt (p : pth) q f : list N := hd h ++ port_text pt ++ pth_text p ++ qf_text q f.
Definition au_n (h : host) pt (p : pth) : N := nlen (hd h ++ port_text pt ++ pth_text p).

Lemma auth_url_sh sch ui h pt p q f :
  auth_url hd sch ui h pt p q f
  = sh_url sch (au_X h pt p q f) (nlen (hd h)) (nlen (hd h ++ port_text pt))
           (qf_qs (au_n h pt p) q) (qf_fs (au_n h pt p) q f) (hi_of_host h) pt (ui_user ui) (ui_rest ui).
Proof.
  unfold auth_url, sh_url, au_X, au_n. cbv zeta.
  assert (nlen (A sch) + nlen (ui_user ui) + nlen (ui_rest ui) = nlen sch + 3 + nlen (ui_text ui)) as Eb
    by (rewrite A_len, ui_text_split, nlen_app; lia).
  rewrite Eb. rewrite A_len. rewrite <- ui_ulen_user.
  assert (nlen (auth_front hd sch ui h pt) = nlen sch + 3 + nlen (ui_text ui) + nlen (hd h ++ port_text pt)) as Ef
    by (rewrite front_len, nlen_app; lia).
  assert (nlen (auth_pre hd sch ui h pt p) = nlen sch + 3 + nlen (ui_text ui) + nlen (hd h ++ port_text pt ++ pth_text p)) as Ep
    by (unfold auth_pre; rewrite nlen_app, front_len, !nlen_app; lia).
  rewrite Ef, Ep. f_equal.
  - unfold auth_ser, auth_pre, auth_front, A. rewrite ui_text_split. rewrite <- !app_assoc. reflexivity.
  - destruct q; reflexivity.
  - destruct f as [y|]; cbn [qf_fs option_map]; [|reflexivity]. f_equal. lia.
Qed.

(* replacing the userinfo inside the canonical form *)
Lemma auth_ok_ui st sch ui h pt p q f ui' : auth_ok hp hpo hd st sch ui h pt p q f ->
  h <> HDomain [] -> ui_ok ui' ->
  nlen (auth_ser hd sch ui' h pt p q f) <= U32_MAX_P -> auth_ok hp hpo hd st sch ui' h pt p q f.
Proof.
  intros K Hne Hui Hb. destruct K as [Ksch Kst Kui Kh Kemp Kpt Kp Kq Kf Kb Kbq Kbf].
  destruct (qf_bounds _ _ _ _ Hb) as [B1 B2]. constructor; try assumption.
  - intros E. contradiction.
  - unfold auth_ser, auth_pre in Hb. rewrite !nlen_app in Hb. lia.
Qed.

(* a displayed non-empty host starts with a byte that is neither ':' nor '@' *)
Lemma host_first st h : host_ok hp hpo hd st h -> h <> HDomain [] ->
  exists c0 R, hd h = c0 :: R /\ c0 <> 64 /\ c0 <> 58.
Proof.
  intros [[E _]|(_ & Ht & _)] Hne; [contradiction|].
  destruct (host_text_facts (hd h) Ht) as [Hf H58]. destruct Ht as (_ & Hn & _).
  destruct (hd h) as [|c0 R]; [contradiction|]. exists c0, R. split; [reflexivity|].
  cbn [forallb] in Hf. apply andb_true_iff in Hf. destruct Hf as [Hc _]. unfold plainc in Hc.
  split; [intros ->; discriminate Hc | intros ->; discriminate H58].
Qed.

Lemma ui_user_clean ui : ui_ok ui -> clean T_USERINFO (ui_user ui) = true.
Proof. destruct ui as [|u|u p]; cbn [ui_ok ui_user]; [reflexivity | tauto | tauto]. Qed.

(* ---------- set_password ---------- *)
Definition ui_clear (u : list N) : uinfo := match u with [] => UNone | _ => UUser u end.

Theorem set_password_auth st sch ui h pt p q f pw u' s : auth_ok hp hpo hd st sch ui h pt p q f -> st_is_file st = false ->
  usv_opt pw -> set_password dbg (auth_url hd sch ui h pt p q f) pw = Some (u', s) -> nlen (ser u') <= U32_MAX_P ->
  exists ui', auth_ok hp hpo hd st sch ui' h pt p q f /\ u' = auth_url hd sch ui' h pt p q f.
Proof.
  intros K Hnf Hpw. pose proof (auth_cannot_port hp hpo hd st sch ui h pt p q f K Hnf) as Hc.
  destruct (match h with HDomain [] => true | _ => false end) eqn:Eh.
  { unfold set_password. rewrite Hc. cbn [bindo]. intros E _. inversion E; subst. exists ui. split; [exact K | reflexivity]. }
  assert (h <> HDomain []) as Hne by (intros ->; discriminate Eh).
  rewrite auth_url_sh in Hc |- *.
  assert (forall ui', auth_url hd sch ui' h pt p q f
            = sh_url sch (au_X h pt p q f) (nlen (hd h)) (nlen (hd h ++ port_text pt))
                     (qf_qs (au_n h pt p) q) (qf_fs (au_n h pt p) q f) (hi_of_host h) pt (ui_user ui') (ui_rest ui')) as Esh
    by (intros ui'; apply auth_url_sh).
  assert (pw_arg_empty pw -> set_password dbg
            (sh_url sch (au_X h pt p q f) (nlen (hd h)) (nlen (hd h ++ port_text pt))
                    (qf_qs (au_n h pt p) q) (qf_fs (au_n h pt p) q f) (hi_of_host h) pt (ui_user ui) (ui_rest ui)) pw
          = Some (auth_url hd sch (match ui with UPw u _ => ui_clear u | _ => ui end) h pt p q f, SOk)) as Hempty.
  { intros He. destruct ui as [|u|u P]; cbn [ui_user ui_rest] in *.
    - destruct (host_first st h (ak_h _ _ _ _ _ _ _ _ _ _ _ K) Hne) as (c0 & R & Eh0 & _ & H58).
      rewrite (set_password_noop_sh dbg sch _ _ _ _ _ _ _ [] [] c0 (R ++ port_text pt ++ pth_text p ++ qf_text q f) pw He)
        by (try exact Hc; try exact H58; cbn [app]; unfold au_X; rewrite Eh0; reflexivity).
      rewrite (Esh UNone). reflexivity.
    - rewrite (set_password_noop_sh dbg sch _ _ _ _ _ _ _ u [64] 64 (au_X h pt p q f) pw He)
        by (try exact Hc; try discriminate; reflexivity).
      rewrite (Esh (UUser u)). reflexivity.
    - rewrite (set_password_clear_sh dbg sch _ _ _ _ _ _ _ u P pw He Hc).
      rewrite (Esh (ui_clear u)). destruct u; reflexivity. }
  assert (pw_arg_empty pw -> set_password dbg
            (sh_url sch (au_X h pt p q f) (nlen (hd h)) (nlen (hd h ++ port_text pt))
                    (qf_qs (au_n h pt p) q) (qf_fs (au_n h pt p) q f) (hi_of_host h) pt (ui_user ui) (ui_rest ui)) pw = Some (u', s) ->
          nlen (ser u') <= U32_MAX_P ->
          exists ui', auth_ok hp hpo hd st sch ui' h pt p q f /\ u' = auth_url hd sch ui' h pt p q f) as Gempty.
  { intros He. rewrite (Hempty He). intros E Hb. inversion E; subst u' s. clear E.
    eexists. split; [|reflexivity].
    apply (auth_ok_ui st sch ui h pt p q f _ K Hne); [|exact Hb].
    pose proof (ak_ui _ _ _ _ _ _ _ _ _ _ _ K) as Kui.
    destruct ui as [|u|u P]; [exact I | exact Kui |].
    destruct Kui as (Cu & _ & _). destruct u as [|u0 ur]; [exact I | split; [exact Cu | discriminate]]. }
  destruct pw as [[|c r]|].
  - exact (Gempty I).
  - rewrite (set_password_some_sh dbg sch _ _ _ _ _ _ _ (ui_user ui) (ui_rest ui) (c :: r) Hpw ltac:(discriminate) Hc).
    match goal with |- Some (?t, SOk) = _ -> _ =>
      replace t with (auth_url hd sch (UPw (ui_user ui) (uenc (c :: r))) h pt p q f) by (rewrite (Esh (UPw (ui_user ui) (uenc (c :: r)))); reflexivity) end.
    intros E Hb. inversion E; subst u' s. clear E.
    eexists. split; [|reflexivity].
    apply (auth_ok_ui st sch ui h pt p q f _ K Hne); [|exact Hb].
    split; [exact (ui_user_clean ui (ak_ui _ _ _ _ _ _ _ _ _ _ _ K))|]. split; [exact (uenc_clean (c :: r) Hpw)|].
    intros E0. apply (proj1 (uenc_nil_iff _)) in E0. discriminate E0.
  - exact (Gempty I).
Qed.

(* ---------- set_username ---------- *)
Theorem set_username_auth st sch ui h pt p q f un u' s : auth_ok hp hpo hd st sch ui h pt p q f -> st_is_file st = false ->
  usv_list un -> set_username dbg (auth_url hd sch ui h pt p q f) un = Some (u', s) -> nlen (ser u') <= U32_MAX_P ->
  exists ui', auth_ok hp hpo hd st sch ui' h pt p q f /\ u' = auth_url hd sch ui' h pt p q f.
Proof.
  intros K Hnf Hun. pose proof (auth_cannot_port hp hpo hd st sch ui h pt p q f K Hnf) as Hc.
  destruct (match h with HDomain [] => true | _ => false end) eqn:Eh.
  { unfold set_username. rewrite Hc. cbn [bindo]. intros E _. inversion E; subst. exists ui. split; [exact K | reflexivity]. }
  assert (h <> HDomain []) as Hne by (intros ->; discriminate Eh).
  rewrite auth_url_sh in Hc |- *.
  assert (forall ui', auth_url hd sch ui' h pt p q f
            = sh_url sch (au_X h pt p q f) (nlen (hd h)) (nlen (hd h ++ port_text pt))
                     (qf_qs (au_n h pt p) q) (qf_fs (au_n h pt p) q f) (hi_of_host h) pt (ui_user ui') (ui_rest ui')) as Esh
    by (intros ui'; apply auth_url_sh).
  pose proof (ak_ui _ _ _ _ _ _ _ _ _ _ _ K) as Kui.
  destruct ui as [|u|u P]; cbn [ui_user ui_rest] in *.
  - destruct (host_first st h (ak_h _ _ _ _ _ _ _ _ _ _ _ K) Hne) as (c0 & R & Eh0 & H64 & H58).
    rewrite (set_username_none_sh dbg sch _ _ _ _ _ _ _ c0 (R ++ port_text pt ++ pth_text p ++ qf_text q f) un Hun)
      by (try exact Hc; try assumption; unfold au_X; rewrite Eh0; reflexivity).
    match goal with |- Some (?t, SOk) = _ -> _ =>
      replace t with (auth_url hd sch (match un with [] => UNone | _ => UUser (uenc un) end) h pt p q f)
        by (rewrite (Esh _); destruct un; reflexivity) end.
    intros E Hb. inversion E; subst u' s. clear E. eexists. split; [|reflexivity].
    apply (auth_ok_ui st sch UNone h pt p q f _ K Hne); [|exact Hb].
    destruct un as [|u0 ur]; [exact I|].
    split; [exact (uenc_clean _ Hun)|]. intros E0. apply (proj1 (uenc_nil_iff _)) in E0. discriminate E0.
  - rewrite (set_username_user_sh dbg sch _ _ _ _ _ _ _ u un Hun Hc).
    match goal with |- Some (?t, SOk) = _ -> _ =>
      replace t with (auth_url hd sch (if list_eqb u (utf8_encode un) then UUser u else ui_clear (uenc un)) h pt p q f)
        by (rewrite (Esh _); destruct (list_eqb u (utf8_encode un)); [reflexivity | destruct (uenc un); reflexivity]) end.
    intros E Hb. inversion E; subst u' s. clear E. eexists. split; [|reflexivity].
    apply (auth_ok_ui st sch (UUser u) h pt p q f _ K Hne); [|exact Hb].
    destruct (list_eqb u (utf8_encode un)); [exact Kui|].
    destruct (uenc un) as [|e0 er] eqn:Ee; [exact I|]. split; [rewrite <- Ee; exact (uenc_clean _ Hun) | discriminate].
  - rewrite (set_username_pw_sh dbg sch _ _ _ _ _ _ _ u P un Hun Hc).
    match goal with |- Some (?t, SOk) = _ -> _ =>
      replace t with (auth_url hd sch (UPw (if list_eqb u (utf8_encode un) then u else uenc un) P) h pt p q f)
        by (rewrite (Esh _); destruct (list_eqb u (utf8_encode un)); reflexivity) end.
    intros E Hb. inversion E; subst u' s. clear E. eexists. split; [|reflexivity].
    apply (auth_ok_ui st sch (UPw u P) h pt p q f _ K Hne); [|exact Hb].
    destruct Kui as (Cu & CP & HP).
    destruct (list_eqb u (utf8_encode un)); (split; [|split; assumption]); [exact Cu | exact (uenc_clean _ Hun)].
Qed.

(* ---------- L2 on Canon ---------- *)
Theorem set_password_Canon u pw u' s : Canon hp hpo hd u -> usv_opt pw ->
  set_password dbg u pw = Some (u', s) -> nlen (ser u') <= U32_MAX_P -> Canon hp hpo hd u'.
Proof.
  intros C Hpw. destruct C as [sch P q f K | sch segs last q f K | sch ui h pt p q f K | sch ui h pt p q f K Kp].
  - unfold set_password, cannot_have_credentials_or_port, has_host. cbn [opaque_url hosti negb bindo].
    intros E _. inversion E; subst. exact (Canon_opaque hp hpo hd sch P q f K).
  - unfold set_password, cannot_have_credentials_or_port, has_host. cbn [noauth_url hosti negb bindo].
    intros E _. inversion E; subst. exact (Canon_noauth hp hpo hd sch segs last q f K).
  - intros E Hb. destruct (set_password_auth STNotSpecial sch ui h pt p q f pw u' s K eq_refl Hpw E Hb) as (ui' & K' & ->).
    exact (Canon_auth hp hpo hd sch ui' h pt p q f K').
  - intros E Hb. destruct (set_password_auth STSpecialNotFile sch ui h pt p q f pw u' s K eq_refl Hpw E Hb) as (ui' & K' & ->).
    exact (Canon_special hp hpo hd sch ui' h pt p q f K' Kp).
Qed.

Theorem set_username_Canon u un u' s : Canon hp hpo hd u -> usv_list un ->
  set_username dbg u un = Some (u', s) -> nlen (ser u') <= U32_MAX_P -> Canon hp hpo hd u'.
Proof.
  intros C Hun. destruct C as [sch P q f K | sch segs last q f K | sch ui h pt p q f K | sch ui h pt p q f K Kp].
  - unfold set_username, cannot_have_credentials_or_port, has_host. cbn [opaque_url hosti negb bindo].
    intros E _. inversion E; subst. exact (Canon_opaque hp hpo hd sch P q f K).
  - unfold set_username, cannot_have_credentials_or_port, has_host. cbn [noauth_url hosti negb bindo].
    intros E _. inversion E; subst. exact (Canon_noauth hp hpo hd sch segs last q f K).
  - intros E Hb. destruct (set_username_auth STNotSpecial sch ui h pt p q f un u' s K eq_refl Hun E Hb) as (ui' & K' & ->).
    exact (Canon_auth hp hpo hd sch ui' h pt p q f K').
  - intros E Hb. destruct (set_username_auth STSpecialNotFile sch ui h pt p q f un u' s K eq_refl Hun E Hb) as (ui' & K' & ->).
    exact (Canon_special hp hpo hd sch ui' h pt p q f K' Kp).
Qed.
End CredCanon.
