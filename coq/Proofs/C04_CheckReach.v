(* Proofs/C04_CheckReach.v - Url::check_invariants on reached records without the premise ip_text_ok.
   ip_text_ok hd u (Proofs/C04_CheckInv.v: the text of an IP host is the Display text of the stored address) is the boolean
   form of C03's host text invariant KT hd u (Proofs/C03_HostKind.v).  KT holds of every record Parser::parse_url returns
   (C03_HostKind.parse_url_kt_inv, hypothesis HostWf only) and of every Reachable3 record (C03_HostKindSteps.reach3_inv03k).
   Hence:
     - check_invariants_fix: a FIXPOINT of re-parsing gives Ok(()) under HostWf alone (the record IS a parse result);
     - check_invariants_reach: every record of C02's ReachC4 gives Ok(()) (C02_Reach5.reach_partial4: fixpoint);
     - reach3_ip_text_ok / check_invariants_reach3: on a Reachable3 record check_invariants panics exactly when the re-parse
       fails, returns Err never because of the structural part, and Ok(()) on a fixpoint. *)
From RU Require Import Base.Prelude Base.Utf8 Model.HostT Model.UrlRecord Model.Parser Model.Setters Model.WF
  Proofs.ListN Proofs.C03_WF Proofs.C06_Suffix Proofs.C06_Main Proofs.C02_Reach Proofs.C02_Reach3 Proofs.C02_SetHostCanon
  Proofs.C02_Hist Proofs.C02_Stmt4 Proofs.C02_Reach5
  Proofs.C03_ReachParts Proofs.C03_ReachHost Proofs.C03_AuthEnd Proofs.C03_ParseFront Proofs.C03_HostKind Proofs.C03_HostKindSteps
  Proofs.C04_CheckInv.
From RU Require Proofs.C05_Parser Proofs.C05_Alphabet.
Open Scope N_scope.
Open Scope list_scope.

(* KT is ip_text_ok *)
Lemma kt_ip_text_ok hd u : KT hd u -> ip_text_ok hd u = true.
Proof.
  unfold KT, ktx, htext, ip_text_ok. intros K.
  destruct (hosti u) as [| |a|p]; try reflexivity; apply list_eqb_spec; exact K.
Qed.

Lemma ip_text_ok_kt hd u : ip_text_ok hd u = true -> KT hd u.
Proof.
  unfold KT, ktx, htext, ip_text_ok. intros K.
  destruct (hosti u) as [| |a|p]; try exact I; apply list_eqb_spec; exact K.
Qed.

Section CR.
Variable hp hpo : list N -> result host.
Variable hd : host -> list N.

(* a fixpoint of re-parsing is a parse result: wfh and KT come with it *)
Theorem fixpoint_wfh_kt dbg u : HostWf hp hpo hd -> Fixpoint_of_reparse dbg hp hpo hd u -> wfh u /\ KT hd u.
Proof.
  intros HW F. unfold Fixpoint_of_reparse, reparse in F. split.
  - exact (proj1 (parse_url_inv03 dbg hp hpo hd None None _ u HW I F)).
  - exact (parse_url_kt_inv dbg hp hpo hd None None _ u HW I F).
Qed.

Theorem check_invariants_fix dbg u : HostWf hp hpo hd -> Fixpoint_of_reparse dbg hp hpo hd u ->
  check_invariants hd u (reparse dbg hp hpo hd u) = COk.
Proof.
  intros HW F. destruct (fixpoint_wfh_kt dbg u HW F) as [[W HT] K].
  pose proof F as F'. unfold Fixpoint_of_reparse in F'. rewrite F'.
  exact (check_invariants_ok hd u W HT (kt_ip_text_ok hd u K)).
Qed.

(* every record of ReachC4 *)
Theorem check_invariants_reach dbg : HostOK2 hp hpo hd -> host_nonempty hp hpo ->
  forall u, ReachC4 dbg hp hpo hd u ->
  ip_text_ok hd u = true /\ check_invariants hd u (reparse dbg hp hpo hd u) = COk.
Proof.
  intros HOK HNE u R. destruct (reach_partial4 dbg hp hpo hd HOK HNE u R) as (F & _ & _).
  pose proof (HostRT_HostWf hp hpo hd (proj1 HOK)) as HW.
  split; [exact (kt_ip_text_ok hd u (proj2 (fixpoint_wfh_kt dbg u HW F))) | exact (check_invariants_fix dbg u HW F)].
Qed.

(* every record of Reachable3 *)
Section R3.
Hypothesis HW : HostWf hp hpo hd.
Hypothesis HNE : host_nonempty hp hpo.
Hypothesis HIPW : IpWf hd.
Hypothesis HOK : C05_Parser.HostOK hp hpo hd.
Hypothesis HIP : C05_Alphabet.IpOKv hd.

Theorem reach3_ip_text_ok dbg u : Reachable3 dbg hp hpo hd u -> ip_text_ok hd u = true.
Proof using HW HNE HIPW HOK HIP.
  intros R. exact (kt_ip_text_ok hd u (proj2 (proj1 (reach3_inv03k dbg hp hpo hd HW HNE HIPW HOK HIP u R)))).
Qed.

Theorem check_invariants_reach3 dbg u : Reachable3 dbg hp hpo hd u -> forall dbg',
  (check_invariants hd u (reparse dbg' hp hpo hd u) = CPanic <-> forall o, reparse dbg' hp hpo hd u <> POk o)
  /\ (Fixpoint_of_reparse dbg' hp hpo hd u -> check_invariants hd u (reparse dbg' hp hpo hd u) = COk).
Proof using HW HNE HIPW HOK HIP.
  intros R dbg'. pose proof (reach3_ip_text_ok dbg u R) as I3.
  destruct (proj1 (reach3_inv03k dbg hp hpo hd HW HNE HIPW HOK HIP u R)) as [((W & HT) & _) _].
  split.
  - assert (forall o, reparse dbg' hp hpo hd u = POk o -> wf_b o = true) as Ho.
    { intros o Ho. exact (proj1 (proj1 (parse_url_inv03 dbg' hp hpo hd None None _ o HW I Ho))). }
    pose proof (check_invariants_panic_iff hd u _ W HT Ho) as P. rewrite I3 in P. cbn [negb] in P.
    rewrite andb_false_r in P. split.
    + intros H. exact (proj2 (proj1 P H)).
    + intros H. apply (proj2 P). split; [reflexivity | exact H].
  - intros F. exact (check_invariants_fix dbg' u HW F).
Qed.
End R3.
End CR.
