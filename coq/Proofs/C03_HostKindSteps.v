(* Proofs/C03_HostKindSteps.v - the host text invariant for IP hosts, part B (mutators, histories):
     KT hd u (C03_HostKind.v) is preserved by every call of the 19 mutators outside excl03:
       - a host setter either leaves the record as it was, ends in set_host_internal with some host value h - which
         writes Display(h) at the new host slice and stores hi_of_host h (set_host_internal_kt, syntactic) - or
         (set_host(None)) stores no host;
       - every other mutator keeps the stored host kind (C03_HostiKeep.v) and host_str (C06's frame theorems).
     No exclusion beyond excl03 is needed: F-C02-9 (set_ip_host V4 on a non-special scheme) does NOT break KT - the
     text written is the display of the address stored; what it breaks is the re-parse fixpoint (the opaque host
     parser reads that text as a domain).
   Hence inv03k hd u = inv03 u /\ KT hd u for every record of reach03j and of C02's Reachable3, and the views
   host() / host_str() / domain() / has_host() agree on each of them (views_agree). *)
From RU Require Import Proofs.C15_Table Proofs.C15_Bser Proofs.C15_Ser Proofs.C15_Url.
From RU Require Import Base.Prelude Base.Utf8 Base.Outcome_c15 Model.AsciiSet Gen.Tables Model.PercentEncoding
  Model.HostT Model.UrlRecord Model.Parser Model.Setters Model.WF Model.FilePath Model.FormUrlencoded Model.QueryPairs
  Proofs.ListN Proofs.C02_Reach Proofs.C02_AuthParts Proofs.C02_Hist Proofs.C02_SetHostCanon Proofs.C02_Reach3
  Proofs.C03_WF Proofs.C06_List Proofs.C06_WFI Proofs.C06_Tail Proofs.C06_Steps Proofs.C06_Suffix Proofs.C06_Front Proofs.C06_Atomic Proofs.C06_FragQuery
  Proofs.C06_Port Proofs.C06_Cred Proofs.C06_Scheme Proofs.C06_HostNone Proofs.C06_Host Proofs.C06_Segments Proofs.C06_Path Proofs.C06_PathNoAuth Proofs.C06_Main
  Proofs.C06_PathMore Proofs.C06_Quirks Proofs.C05_Enc Proofs.C05_Parser Proofs.C05_Setters Proofs.C05_CompSteps Proofs.C05_CompSteps3
  Proofs.C04_ParseTotal Proofs.C03_ReachParts Proofs.C03_Reach Proofs.C03_ReachFile Proofs.C03_ReachAll Proofs.C03_Reachability Proofs.C03_PortInv
  Proofs.C03_AuthEnd Proofs.C05_BaseOk Proofs.C05_AuthOfs Proofs.C05_Alphabet
  Proofs.C03_ReachAscii Proofs.C03_Views Proofs.C03_ParseFront Proofs.C03_ReachKnown Proofs.C03_ReachJoin Proofs.C03_ReachFull
  Proofs.C20_Path Proofs.C20_RT
  Proofs.C03_HostiKeep Proofs.C03_HostKind.
Open Scope N_scope.
Open Scope list_scope.

(* ---------- KT from the views ---------- *)
Lemma htext_host_str u : wf_b u = true -> host_str u = Some (if has_host u then Some (htext u) else None).
Proof. intros W. rewrite (host_str_eval u W). reflexivity. Qed.

Lemma kt_same hd u u' : wf_b u = true -> wf_b u' = true -> hosti u' = hosti u -> host_str u' = host_str u ->
  KT hd u -> KT hd u'.
Proof.
  intros W W' Ei Es K. unfold KT in *. rewrite Ei.
  assert (has_host u = true -> htext u' = htext u) as Et.
  { intros Hh. assert (has_host u' = true) as Hh' by (unfold has_host in *; rewrite Ei; exact Hh).
    rewrite (htext_host_str u W), (htext_host_str u' W'), Hh, Hh' in Es. inversion Es. reflexivity. }
  destruct (hosti u) eqn:E; try exact I; (rewrite Et; [exact K | unfold has_host; rewrite E; reflexivity]).
Qed.

(* ---------- set_host_internal writes the display of the host it stores ---------- *)
Lemma set_host_internal_kt dbg hd u h onp u' : host_start u <= nlen (ser u) ->
  set_host_internal dbg hd u h onp = Some u' -> KT hd u'.
Proof.
  intros L H. unfold set_host_internal in H. cbv zeta in H.
  ob H. ob H.
  match type of H with bindo ?e _ = _ => destruct e as [[[s1 ue] hs]|] eqn:Ex end; cbn [bindo] in H; [|discriminate H].
  assert (hs = nlen s1) as Ehs.
  { assert (nlen (truncate (ser u) (host_start u)) = host_start u) as Lt by (unfold truncate; apply nlen_nfirstn; exact L).
    destruct (negb b).
    - ob Ex. inversion Ex; subst. rewrite nlen_app, Lt. reflexivity.
    - inversion Ex; subst. symmetry. exact Lt. }
  subst hs.
  assert (exists t port', H = H /\
    (let '(s3, p') := match onp with
                      | Some np => (match np with Some p => (s1 ++ hd h) ++ [58] ++ decimal p | None => s1 ++ hd h end, np)
                      | None => (s1 ++ hd h, port u)
                      end in s3 = (s1 ++ hd h) ++ t /\ p' = port')) as (t & port' & _ & Es3).
  { destruct onp as [[p|]|]; [exists ([58] ++ decimal p), (Some p) | exists [], None | exists [], (port u)];
      (split; [reflexivity|]); cbv beta iota; split; try reflexivity; rewrite app_nil_r; reflexivity. }
  match type of H with (let '(s3, port') := ?e in _) = _ => destruct e as [s3 pt'] end.
  destruct Es3 as [-> _].
  ob H. ob H. ob H. inversion H; subst u'. clear H.
  unfold KT, htext, piece. cbn [hosti host_start host_end ser].
  replace (nlen (s1 ++ hd h) - nlen s1) with (nlen (hd h)) by (rewrite nlen_app; lia).
  rewrite <- !app_assoc. rewrite nskipn_app_exact, nfirstn_app_exact. apply ktx_host.
Qed.

(* ---------- the host setters: unchanged, set_host_internal, or no host ---------- *)
Section HostSetters.
Variable dbg : bool.
Variable hp hpo : list N -> result host.
Variable hd : host -> list N.

Lemma set_host_cases u x u' st : set_host dbg hp hpo hd u x = Some (u', st) ->
  u' = u \/ hosti u' = HI_None \/ exists h onp, set_host_internal dbg hd u h onp = Some u'.
Proof.
  unfold set_host. intros H. ob H. ob H; [left; inversion H; reflexivity|]. ob H. destruct x as [hs|].
  - ob H; [left; inversion H; reflexivity|]. cbv zeta in H.
    match type of H with (match ?sub with Some _ => _ | None => _ end) = _ => destruct sub as [hsub|] end;
      [|left; inversion H; reflexivity].
    match type of H with (match ?r with Ok _ => _ | Err _ => _ end) = _ => destruct r as [host|e] end;
      [|left; inversion H; reflexivity].
    match type of H with bindo ?e _ = _ => destruct e as [u1|] eqn:Ex end; cbn [bindo] in H; [|discriminate H].
    inversion H; subst. right. right. exists host, None. exact Ex.
  - ob H; [|left; inversion H; reflexivity]. ob H; [left; inversion H; reflexivity|]. cbv zeta in H.
    obs H. inversion H; subst. right. left. reflexivity.
Qed.

Lemma set_ip_host_cases u h u' st : set_ip_host dbg hd u h = Some (u', st) ->
  u' = u \/ exists h onp, set_host_internal dbg hd u h onp = Some u'.
Proof.
  unfold set_ip_host. intros H. ob H. ob H; [left; inversion H; reflexivity|].
  match type of H with bindo ?e _ = _ => destruct e as [u1|] eqn:Ex end; cbn [bindo] in H; [|discriminate H].
  inversion H; subst. right. exists h, None. exact Ex.
Qed.

Lemma q_set_host_cases u v u' st : q_set_host dbg hp hpo hd u v = Some (u', st) ->
  u' = u \/ exists h onp, set_host_internal dbg hd u h onp = Some u'.
Proof.
  unfold q_set_host. intros H. ob H. ob H; [left; inversion H; reflexivity|]. ob H. cbv zeta in H. ob H.
  - match type of H with bindo ?e _ = _ => destruct e as [u1|] eqn:Ex end; cbn [bindo] in H; [|discriminate H].
    inversion H; subst. right. exists (HDomain []), None. exact Ex.
  - ob H. destruct o as [[h rem]|]; [|left; inversion H; reflexivity].
    ob H. ob H. ob H; [left; inversion H; reflexivity|].
    match type of H with bindo ?e _ = _ => destruct e as [u1|] eqn:Ex end; cbn [bindo] in H; [|discriminate H].
    inversion H; subst. right. eexists _, _. exact Ex.
Qed.

Lemma q_set_hostname_cases u v u' st : q_set_hostname dbg hp hpo hd u v = Some (u', st) ->
  u' = u \/ exists h onp, set_host_internal dbg hd u h onp = Some u'.
Proof.
  unfold q_set_hostname. intros H. ob H. ob H; [left; inversion H; reflexivity|]. ob H. cbv zeta in H. ob H.
  - match type of H with bindo ?e _ = _ => destruct e as [u1|] eqn:Ex end; cbn [bindo] in H; [|discriminate H].
    inversion H; subst. right. exists (HDomain []), None. exact Ex.
  - ob H. destruct o as [[h rem]|]; [|left; inversion H; reflexivity].
    ob H. ob H; [left; inversion H; reflexivity|].
    match type of H with bindo ?e _ = _ => destruct e as [u1|] eqn:Ex end; cbn [bindo] in H; [|discriminate H].
    inversion H; subst. right. eexists _, _. exact Ex.
Qed.
End HostSetters.

(* ---------- the other mutators keep host_str (read off he_step's case analysis) ---------- *)
Definition is_host_op (o : op) : bool :=
  match o with OSetHost _ | OSetIpHost _ | OQHost _ | OQHostname _ => true | _ => false end.

Section Steps.
Variable dbg : bool.
Variable hp hpo : list N -> result host.
Variable hd : host -> list N.

Lemma keep_host_str u o u' : wfh u -> op_args_ok o -> excl03 u o u' = false -> is_host_op o = false ->
  apply_op dbg hp hpo hd u o = Some u' -> host_str u' = host_str u.
Proof.
  intros K Ha G Hno H.
  destruct (frame_all dbg hp hpo hd u K) as (F1 & F2 & F3 & F4 & F5 & F6 & _).
  assert (forall v, same_front dbg u v -> host_str v = host_str u) as SF by (intros v (_ & _ & _ & Eh & _); exact Eh).
  destruct o; cbn [apply_op excl03 op_args_ok is_host_op] in H, G, Ha, Hno; try discriminate Hno;
    try (apply omf_some in H; destruct H as [st H]).
  - destruct (F1 _ _ H) as [[S _] _]. exact (SF _ S).
  - destruct (F2 _ _ Ha H) as [[S _] _]. exact (SF _ S).
  - apply orb_false_iff in G. destruct G as [G G3]. apply orb_false_iff in G. destruct G as [G1 G2].
    apply negb_false_iff in G1. apply auth_end_b_ok in G1.
    assert (is_opaque_b u = true -> forallb no_qh p = true) as Hq.
    { intros Ho. rewrite Ho in G2. cbn [andb] in G2. apply negb_false_iff in G2. exact G2. }
    apply SF. destruct K as [W HT].
    destruct (path_layouts u W) as [Hau|[NA|[Ho|M]]].
    + destruct (set_path_ok dbg u p u' W HT Hau Ha G1 H) as (_ & _ & F & _). exact F.
    + destruct (set_path_noauth_ok dbg u p u' W NA Ha H (path_bad_noauth u u' G3 NA)) as (_ & _ & F & _). exact F.
    + destruct (set_path_opaque_ok dbg u p u' W Ho Ha (Hq Ho) H) as (_ & _ & F & _). exact F.
    + destruct (set_path_marker_ok dbg u p u' W M Ha H) as [R _].
      destruct (R (path_bad_marker u u' W G3 M)) as (_ & _ & F & _). exact F.
  - destruct st; [|rewrite (set_port_atomic dbg u p u' _ H) by discriminate; reflexivity ..].
    destruct (F3 _ _ Ha H) as [(_ & _ & _ & Eh) _]. exact Eh.
  - destruct st; [|rewrite (set_password_atomic dbg u p u' _ H) by discriminate; reflexivity ..].
    destruct (F4 _ _ H) as (_ & _ & Eh & _). exact Eh.
  - destruct st; [|rewrite (set_username_atomic dbg u s u' _ H) by discriminate; reflexivity ..].
    destruct (F5 _ _ H) as (_ & _ & Eh & _). exact Eh.
  - destruct st; [|rewrite (set_scheme_atomic dbg u s u' _ H) by discriminate; reflexivity ..].
    destruct (F6 _ _ H) as (_ & _ & Eh & _). exact Eh.
  - destruct st; [|rewrite (path_segments_session_atomic dbg u ops u' _ H) by discriminate; reflexivity ..].
    apply SF. destruct K as [W HT].
    destruct (path_layouts u W) as [Hau|[NA|[Ho|M]]].
    + destruct (path_segments_session_ok dbg u ops u' W HT Hau Ha H) as (_ & _ & F & _). exact F.
    + destruct (path_segments_session_noauth_ok dbg u ops u' W NA Ha H (path_bad_noauth u u' G NA)) as (_ & _ & F & _). exact F.
    + exfalso. unfold path_segments_session, path_segments_mut in H. rewrite (cannot_be_a_base_eval u W) in H.
      unfold is_opaque_b in Ho. rewrite Ho in H. cbn [bindo] in H. discriminate.
    + destruct (path_segments_session_marker_ok dbg u ops u' W M Ha H) as [R _].
      destruct (R (path_bad_marker u u' W G M)) as (_ & _ & F & _). exact F.
  - unfold q_set_protocol in H. cbv zeta in H.
    destruct st; [|rewrite (set_scheme_atomic dbg u _ u' _ H) by discriminate; reflexivity ..].
    destruct (F6 _ _ H) as (_ & _ & Eh & _). exact Eh.
  - destruct st; [|rewrite (set_username_atomic dbg u s u' _ H) by discriminate; reflexivity ..].
    destruct (F5 _ _ H) as (_ & _ & Eh & _). exact Eh.
  - unfold q_set_password in H.
    destruct st; [|rewrite (set_password_atomic dbg u _ u' _ H) by discriminate; reflexivity ..].
    destruct (F4 _ _ H) as (_ & _ & Eh & _). exact Eh.
  - destruct K as [W HT]. destruct (q_set_port_ok dbg u s W HT) as (u2 & st2 & E & Herr & Hok).
    rewrite H in E. inversion E; subst u2 st2.
    destruct st; [|rewrite Herr by discriminate; reflexivity ..].
    destruct (Hok eq_refl) as (_ & _ & (_ & _ & _ & Eh) & _). exact Eh.
  - apply orb_false_iff in G. destruct G as [G1 G3]. apply negb_false_iff in G1. apply auth_end_b_ok in G1.
    pose proof K as [W HT].
    destruct (q_set_pathname_eval dbg u s W) as (sch & _ & E). rewrite E in H. clear E.
    destruct (byte_eqb (ser u) (scheme_end u + 1) 47) eqn:Hsl; cbn [negb] in H; [|inversion H; subst; reflexivity].
    pose proof (q_pathname_arg_usv (scheme_type_of sch) (has_host u) s Ha) as Hp.
    set (p := q_pathname_arg (scheme_type_of sch) (has_host u) s) in *.
    apply SF.
    destruct (path_layouts u W) as [Hau|[NA|[Ho|M]]].
    + destruct (set_path_ok dbg u p u' W HT Hau Hp G1 H) as (_ & _ & F & _). exact F.
    + destruct (set_path_noauth_ok dbg u p u' W NA Hp H (path_bad_noauth u u' G3 NA)) as (_ & _ & F & _). exact F.
    + unfold is_opaque_b in Ho. rewrite Hsl in Ho. discriminate.
    + destruct (set_path_marker_ok dbg u p u' W M Hp H) as [R _].
      destruct (R (path_bad_marker u u' W G3 M)) as (_ & _ & F & _). exact F.
  - unfold q_set_search in H.
    assert (str_arg_ok (match s with [] => None | 63 :: r => Some r | _ => Some s end)) as Hq.
    { destruct s as [|c r]; [exact I|]. destruct (N.eq_dec c 63) as [->|Hc].
      - exact (usv_tail03 _ _ Ha).
      - unfold str_arg_ok. destruct c as [|q]; [exact Ha|]. do 6 (destruct q as [q|q|]; try exact Ha). contradiction. }
    destruct (F2 _ _ Hq H) as [[S _] _]. exact (SF _ S).
  - unfold q_set_hash in H. destruct (F1 _ _ H) as [[S _] _]. exact (SF _ S).
Qed.

Lemma keep_hosti u o u' : is_host_op o = false -> apply_op dbg hp hpo hd u o = Some u' -> hosti u' = hosti u.
Proof.
  intros Hno H. destruct o; cbn [apply_op is_host_op] in H, Hno; try discriminate Hno;
    try (apply omf_some in H; destruct H as [st H]).
  - exact (set_fragment_hosti dbg u f u' H).
  - exact (set_query_hosti dbg u q u' H).
  - exact (set_path_hosti dbg u p u' H).
  - exact (set_port_hosti dbg u p u' st H).
  - exact (set_password_hosti dbg u p u' st H).
  - exact (set_username_hosti dbg u s u' st H).
  - exact (set_scheme_hosti dbg u s u' st H).
  - exact (path_segments_session_hosti dbg u ops u' st H).
  - unfold q_set_protocol in H. cbv zeta in H. exact (set_scheme_hosti dbg u _ u' st H).
  - exact (set_username_hosti dbg u s u' st H).
  - unfold q_set_password in H. exact (set_password_hosti dbg u _ u' st H).
  - exact (q_set_port_hosti dbg u s u' st H).
  - exact (q_set_pathname_hosti dbg u s u' H).
  - unfold q_set_search in H. exact (set_query_hosti dbg u _ u' H).
  - unfold q_set_hash in H. exact (set_fragment_hosti dbg u _ u' H).
Qed.

(* one call of any of the 19 mutators outside excl03 *)
Theorem kt_step u o u' : wfh u -> wf_b u' = true -> op_args_ok o -> excl03 u o u' = false ->
  apply_op dbg hp hpo hd u o = Some u' -> KT hd u -> KT hd u'.
Proof.
  intros K W' Ha G H K0. pose proof K as [W _].
  assert (host_start u <= nlen (ser u)) as L.
  { pose proof (pidx_in_bounds u W BeforeHost) as B. cbn [pidx] in B. exact B. }
  destruct (is_host_op o) eqn:Eo.
  2:{ exact (kt_same hd u u' W W' (keep_hosti u o u' Eo H) (keep_host_str u o u' K Ha G Eo H) K0). }
  destruct o; cbn [is_host_op] in Eo; try discriminate Eo; cbn [apply_op] in H;
    apply omf_some in H; destruct H as [st H].
  - destruct (set_host_cases dbg hp hpo hd u h u' st H) as [->|[Hn|(h0 & onp & E)]];
      [exact K0 | exact (kt_no_host hd u' Hn) | exact (set_host_internal_kt dbg hd u h0 onp u' L E)].
  - destruct (set_ip_host_cases dbg hd u h u' st H) as [->|(h0 & onp & E)];
      [exact K0 | exact (set_host_internal_kt dbg hd u h0 onp u' L E)].
  - destruct (q_set_host_cases dbg hp hpo hd u s u' st H) as [->|(h0 & onp & E)];
      [exact K0 | exact (set_host_internal_kt dbg hd u h0 onp u' L E)].
  - destruct (q_set_hostname_cases dbg hp hpo hd u s u' st H) as [->|(h0 & onp & E)];
      [exact K0 | exact (set_host_internal_kt dbg hd u h0 onp u' L E)].
Qed.

End Steps.

(* ---------- inv03 with the host text clause ---------- *)
Definition inv03k (hd : host -> list N) (u : url) : Prop := inv03 u /\ KT hd u.

Section Inv.
Variable dbg : bool.
Variable hp hpo : list N -> result host.
Variable hd : host -> list N.
Hypothesis HW : HostWf hp hpo hd.

Theorem parse_url_inv03k ovr base input u :
  match base with Some b => inv03k hd b | None => True end ->
  parse_url dbg hp hpo hd ovr base input = POk u -> inv03k hd u.
Proof using HW.
  intros Hb Hp. split.
  - apply (parse_url_inv03 dbg hp hpo hd ovr base input u HW); [|exact Hp].
    destruct base as [b|]; [exact (proj1 Hb) | exact I].
  - apply (parse_url_kt_inv dbg hp hpo hd ovr base input u HW); [|exact Hp].
    destruct base as [b|]; [exact Hb | exact I].
Qed.

Hypothesis HNE : NoEmpty hp.
Hypothesis HIPW : IpWf hd.

Theorem inv03k_step u o u' : inv03k hd u -> op_args_ok o -> known03k u o u' = false ->
  apply_op dbg hp hpo hd u o = Some u' -> inv03k hd u'.
Proof using HW HNE HIPW.
  intros [Iu Ku] Ha G H. pose proof (inv03_step dbg hp hpo hd HW HNE HIPW u o u' Iu Ha G H) as Iu'.
  split; [exact Iu'|]. destruct Iu as (K & A & P & E).
  unfold known03k in G. apply andb_false_iff in G. destruct G as [G|G].
  - apply negb_false_iff in G. rewrite (url_eqb_true03 _ _ G). exact Ku.
  - pose proof (excl03k_excl03 u o u' (he_auth_end u K E) G) as G'.
    exact (kt_step dbg hp hpo hd u o u' K (proj1 (proj1 Iu')) Ha G' H Ku).
Qed.

Theorem reach03j_inv03k u : reach03j dbg hp hpo hd u -> inv03k hd u.
Proof using HW HNE HIPW.
  intros R. induction R as [ovr input u Hp | ovr b input u Rb IHb Hp | p u Hb H | p u Hb H | u o u' R IH Ha G H].
  - exact (parse_url_inv03k ovr None input u I Hp).
  - exact (parse_url_inv03k ovr (Some b) input u IHb Hp).
  - split; [exact (reach03j_inv dbg hp hpo hd HW HNE HIPW u (RJ_file dbg hp hpo hd p u Hb H))|].
    destruct (path_is_absolute p) eqn:Ea.
    + rewrite (from_file_path_spec p Hb Ea) in H. inversion H; subst u. apply kt_no_host. reflexivity.
    + rewrite (proj1 (from_file_path_rel p Ea)) in H. discriminate.
  - split; [exact (reach03j_inv dbg hp hpo hd HW HNE HIPW u (RJ_dir dbg hp hpo hd p u Hb H))|].
    destruct (path_is_absolute p) eqn:Ea.
    + rewrite (from_directory_path_spec p Hb Ea) in H. inversion H; subst u. apply kt_no_host. reflexivity.
    + rewrite (proj2 (from_file_path_rel p Ea)) in H. discriminate.
  - exact (inv03k_step u o u' IH Ha G H).
Qed.
End Inv.

(* query_pairs_mut sessions: the front of the record is not touched *)
Lemma qpm_kt dbg hd u ops u' : wf_b u = true -> Forall ok_or_space (ser u) -> Forall op_ok ops ->
  query_pairs_session dbg u ops = Some u' -> KT hd u -> KT hd u'.
Proof.
  intros W Hoks Hops H K.
  assert (Forall (fun b => b < 128) (ser u)) as Hasc.
  { eapply Forall_impl; [|exact Hoks]. intros b Hb. unfold ok_or_space in Hb. lia. }
  destruct (session_shape dbg u W Hasc ops Hops) as (str' & H1 & F1 & F2 & F3 & _ & F5).
  rewrite H in H1. inversion H1; subst u'. clear H1.
  assert (Hns : Forall (fun c => negb (c =? 35) = true) (nskipn (C15_Url.path_end u + 1) str')).
  { apply (F5 (fun c => negb (c =? 35) = true) alpha_not_sharp). apply old_query_no_sharp. exact W. }
  assert (W' : wf_b (edited u str') = true) by (eapply wf_edited; eassumption).
  assert (Eh : host_str (edited u str') = host_str u) by (eapply host_str_edited; eassumption).
  exact (kt_same hd u _ W W' eq_refl Eh K).
Qed.

(* ---------- C02's quantifier ---------- *)
Theorem reach3_inv03k dbg hp hpo hd : HostWf hp hpo hd -> host_nonempty hp hpo -> IpWf hd -> HostOK hp hpo hd -> IpOKv hd ->
  forall u, Reachable3 dbg hp hpo hd u -> inv03k hd u /\ Forall ok_or_space (ser u).
Proof.
  intros HW HNE HIPW HOK HIP u R.
  induction R as [ovr input u Hu Hp Hk | ovr b input u Rb IHb Hu Hp Hk | u o u' R IH Ha Hk H Hk' | u ops u' R IH Hops H Hk].
  - split; [exact (parse_url_inv03k dbg hp hpo hd HW ovr None input u I Hp)|].
    exact (parse_url_okl ok_or_space ok_byte_or_space dbg hp hpo hd ovr HOK None input u (fun _ => ok_or_space_32) Hp I).
  - destruct IHb as [Ib Ob]. split; [exact (parse_url_inv03k dbg hp hpo hd HW ovr (Some b) input u Ib Hp)|].
    exact (parse_url_okl ok_or_space ok_byte_or_space dbg hp hpo hd ovr HOK (Some b) input u (fun _ => ok_or_space_32) Hp Ob).
  - destruct IH as [Iu Ou]. split.
    + apply (inv03k_step dbg hp hpo hd HW (proj1 HNE) HIPW u o u' Iu Ha); [|exact H].
      exact (known_k dbg hp hpo hd HW HNE (sess_no_ss dbg) u o u' (proj1 Iu) Ha Hk H).
    + exact (apply_op_oks_args dbg hp hpo hd u o u' HOK HIP Ha H Ou).
  - destruct IH as [[Iu Ku] Ou]. destruct (qpm_inv03 dbg u ops u' Iu Ou Hops H) as [Iu' Ou'].
    split; [split; [exact Iu'|] | exact Ou'].
    exact (qpm_kt dbg hd u ops u' (proj1 (proj1 Iu)) Ou Hops H Ku).
Qed.

(* ---------- the views agree ---------- *)
(* host(), host_str(), domain(), has_host() of a well-formed record with KT: without a host all three are None; a
   domain host is Domain(t) with host_str = domain = t; an address host a has host_str = Display(a) and no domain *)
Theorem views_agree hd u : wf_b u = true -> KT hd u ->
  (has_host u = false /\ host_of u = Some None /\ host_str u = Some None /\ domain u = Some None)
  \/ (has_host u = true /\ exists t, host_of u = Some (Some (HDomain t)) /\ host_str u = Some (Some t) /\ domain u = Some (Some t))
  \/ (has_host u = true /\ exists h, is_ip h /\ host_of u = Some (Some h) /\ host_str u = Some (Some (hd h)) /\ domain u = Some None).
Proof.
  intros W K. pose proof (htext_host_str u W) as Hs. unfold KT in K. unfold has_host, host_of, domain in *.
  assert (forall t, htext u = t -> u_slice u (host_start u) (host_end u) = Some t \/ hosti u = HI_None) as Sl.
  { intros t Et. destruct (hosti u) eqn:E; [right; reflexivity | left ..];
      (unfold host_str, has_host in Hs; rewrite E in Hs;
       destruct (u_slice u (host_start u) (host_end u)) as [x|]; cbn [bindo] in Hs; [|discriminate Hs];
       inversion Hs; subst; reflexivity). }
  destruct (hosti u) eqn:E.
  - left. repeat split; try reflexivity. exact Hs.
  - right. left. split; [reflexivity|]. exists (htext u).
    destruct (Sl _ eq_refl) as [S|S]; [|discriminate S]. rewrite S. cbn [bindo]. repeat split. exact Hs.
  - right. right. split; [reflexivity|]. exists (HIpv4 a). cbn [ktx] in K. rewrite <- K. repeat split. exact Hs.
  - right. right. split; [reflexivity|]. exists (HIpv6 p). cbn [ktx] in K. rewrite <- K. repeat split. exact Hs.
Qed.
