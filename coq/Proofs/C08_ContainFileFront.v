(* Proofs/C08_ContainFileFront.v - containment for FILE bases in the strong form of C08_contain_auth (everything in
   front of the path byte-identical, the seven stored values in front of the path unchanged, the result
   well-formed), outside the drive-letter branches of parse_file:
     - the reference (after trimming) does not start with a Windows-drive-letter segment, neither at its start
       nor behind one leading slash;
     - for a reference with one leading slash, the first path segment of the base is not a normalized drive
       letter ("C:").
   (file_ref_plain, computable.)  In the excluded branches the host may be dropped (F-C01-1 / F-C08-1,
   C08_1_refuted); C08_ContainFile.contain_file covers them in the weak form.
   The base is asked to have the layout of a file URL record (file_shape, computable: "file://" in front, no
   credentials, no port, path_start = host_end) - true of every record parse_file builds. *)
From Coq Require Import ZifyBool ZifyN.
From RU Require Import Base.Prelude Base.Utf8 Base.Utf8Facts Model.AsciiSet Gen.Tables Model.PercentEncoding
  Model.HostT Model.UrlRecord Model.Parser Model.Setters Model.WF Model.KnownC08
  Proofs.ListN Proofs.C14_Enc Proofs.C02_Enc Proofs.C02_Parts Proofs.C02_Opaque Proofs.C03_WF Proofs.C06_List
  Proofs.C06_WFI Proofs.C06_Tail Proofs.C06_Steps Proofs.C06_FragQuery Proofs.C06_Suffix Proofs.C06_Front
  Proofs.C06_PathParser Proofs.C06_Path Proofs.C08_Input Proofs.C08_Simple Proofs.C08_Contain.
Open Scope N_scope.
Open Scope list_scope.

(* the layout of a file URL record *)
Definition file_shape (b : url) : bool :=
  (scheme_end b =? 4) && (username_end b =? 7) && (host_start b =? 7) && (path_start b =? host_end b)
  && match port b with None => true | Some _ => false end
  && list_eqb (nfirstn 7 (ser b)) s_file_css
  && (has_host b || (host_end b =? 7)).

(* the reference stays outside the drive-letter branches of parse_file *)
Definition file_ref_plain (b : url) (input : list N) : bool :=
  let l := input_new_trim_c0 input in
  match inp_next l with
  | Some (c, r) =>
      if is_slash_or_bslash c
      then negb (starts_with_wdl_segment r)
           && match base_first_segment b with Some seg => negb (is_normalized_wdl seg) | None => false end
      else negb (starts_with_wdl_segment l)
  | None => true
  end.

(* the file path fix-up re-establishes the '/' at path_start *)
Lemma fixup_pinv ps pre x : nlen pre = ps -> PInv ps ps pre x ->
  PInv ps (ps + 1) (pre ++ [47]) (file_path_fixup STFile ps x).
Proof.
  intros Lp [I1 I2]. unfold file_path_fixup. cbn [st_is_file]. rewrite I1. split.
  - change (pre ++ [47] ++ drop_while is_slash (nskipn ps x)) with (pre ++ ([47] ++ drop_while is_slash (nskipn ps x))).
    rewrite app_assoc. rewrite nfirstn_app_le by (rewrite nlen_app, Lp; change (nlen [47]) with 1; lia).
    apply nfirstn_all. rewrite nlen_app, Lp. change (nlen [47]) with 1. lia.
  - rewrite nskipn_app_ge by lia. rewrite Lp, N.sub_diag, nskipn_0.
    cbn [app forallb]. apply drop_while_forallb. exact I2.
Qed.

Section ContainFileFront.
Variables (dbg : bool) (hp hpo : list N -> result host) (hd : host -> list N).
Notation join b input := (parse_url dbg hp hpo hd None (Some b) input).

(* the path state on a file base, started on a text that carries the base's front; then query and fragment *)
Lemma file_path_arm b hh s0 r u' : wf_b b = true -> has_authority_b b = true ->
  PInv (path_start b) (path_start b) (nfirstn (path_start b) (ser b)) s0 ->
  usv_list r ->
  (p <~ parse_path dbg CUrlParser STFile hh (path_start b) s0 r ;;
   (let '(s, _, rem) := p in
    with_query_and_fragment None CUrlParser STFile (scheme_end b) (username_end b) (host_start b) (host_end b)
      (hosti b) (port b) (path_start b) s rem)) = POk u' ->
  wf_b u' = true /\ same_front dbg b u' /\ same_main b u' /\ agree_pre (path_start b) (ser b) (ser u').
Proof.
  intros W Ha I Hr H. unfold parse_path in H.
  pose proof (path_start_le_len b W) as B5.
  assert (nlen (nfirstn (path_start b) (ser b)) = path_start b) as Lpre by (apply nlen_nfirstn; exact B5).
  destruct (parse_path_loop dbg CUrlParser STFile (path_start b) r s0 (nlen s0) [] hh) as [[[s hh'] rem]| |] eqn:E;
    cbn [pbind] in H; try discriminate.
  destruct (pinv_loop_url dbg (path_start b) (path_start b) _ ltac:(lia) ltac:(lia) Lpre STFile r
              ltac:(intros _; reflexivity) _ _ _ _ _ _ _ E I
              ltac:(eapply pinv_len; [| |exact Lpre|exact I]; lia) Hr ltac:(constructor))
    as ((x & Ex & Ix) & Hrem & _).
  subst s. eapply (wqf_auth dbg hp hpo); [exact W | exact Ha | | exact Hrem | exact H].
  apply fixup_pinv; assumption.
Qed.

(* with an authority in front, with_query_and_fragment only appends query and fragment *)
Lemma wqf_plain st se ue hs he hi po ps s rest : se + 3 <= ps ->
  starts_with s_css (nskipn se s) = true ->
  with_query_and_fragment None CUrlParser st se ue hs he hi po ps s rest
  = (' (s2, qs, fs) <~ parse_query_and_fragment None CUrlParser st se s rest ;;
     POk (mkUrl s2 se ue hs he hi po ps qs fs)).
Proof.
  intros H Hc. unfold with_query_and_fragment.
  replace (ps =? se + 1) with false by lia.
  assert ((ps =? se + 3) && list_eqb (nfirstn (ps - se) (nskipn se s)) [58; 47; 46] = false) as ->.
  { destruct (ps =? se + 3) eqn:E; [|reflexivity]. cbn [andb]. apply N.eqb_eq in E. rewrite E.
    replace (se + 3 - se) with 3 by lia. apply starts_with_split in Hc. rewrite Hc. reflexivity. }
  cbn [pbind]. reflexivity.
Qed.

Lemma file_shape_inv b : file_shape b = true ->
  scheme_end b = 4 /\ username_end b = 7 /\ host_start b = 7 /\ path_start b = host_end b /\ port b = None
  /\ nfirstn 7 (ser b) = s_file_css /\ (has_host b = false -> host_end b = 7).
Proof.
  unfold file_shape. intros H. repeat (apply andb_true_iff in H; destruct H as [H ?]).
  destruct (port b); [discriminate|]. repeat split; try lia.
  - apply list_eqb_spec. assumption.
  - intros Hh. rewrite Hh in *. cbn [orb] in *. lia.
Qed.

Lemma nfirstn_split a k l : a <= nlen l -> nfirstn a l ++ nfirstn k (nskipn a l) = nfirstn (a + k) l.
Proof.
  intros H. rewrite <- (nfirstn_nskipn a l) at 3.
  rewrite nfirstn_app_ge by (rewrite nlen_nfirstn by exact H; lia).
  rewrite nlen_nfirstn by exact H. replace (a + k - a) with k by lia. reflexivity.
Qed.

(* the same with the tail written as in the one-slash arm of parse_file *)
Lemma file_path_arm_pqf b hh s0 r u' : wf_b b = true -> has_authority_b b = true -> file_shape b = true ->
  PInv (path_start b) (path_start b) (nfirstn (path_start b) (ser b)) s0 ->
  usv_list r ->
  (p <~ parse_path dbg CUrlParser STFile hh (path_start b) s0 r ;;
   (let '(s, _, rem) := p in
    ' (s3, qs, fs) <~ parse_query_and_fragment None CUrlParser STFile 4 s rem ;;
    POk (file_url s3 7 (path_start b) (hosti b) qs fs))) = POk u' ->
  wf_b u' = true /\ same_front dbg b u' /\ same_main b u' /\ agree_pre (path_start b) (ser b) (ser u').
Proof.
  intros W Ha Hsh I Hr H. unfold parse_path in H.
  destruct (file_shape_inv b Hsh) as (Sse & Sue & Shs & Sps & Spo & S7 & Snh).
  pose proof (path_start_le_len b W) as B5.
  pose proof (wf_auth_facts b W Ha) as F.
  pose proof (af_ue F) as B1. pose proof (af_hs F) as B2. pose proof (af_he F) as B3. pose proof (af_ps F) as B4.
  assert (nlen (nfirstn (path_start b) (ser b)) = path_start b) as Lpre by (apply nlen_nfirstn; exact B5).
  destruct (parse_path_loop dbg CUrlParser STFile (path_start b) r s0 (nlen s0) [] hh) as [[[s hh'] rem]| |] eqn:E;
    cbn [pbind] in H; try discriminate.
  destruct (pinv_loop_url dbg (path_start b) (path_start b) _ ltac:(lia) ltac:(lia) Lpre STFile r
              ltac:(intros _; reflexivity) _ _ _ _ _ _ _ E I
              ltac:(eapply pinv_len; [| |exact Lpre|exact I]; lia) Hr ltac:(constructor))
    as ((x & Ex & Ix) & Hrem & _).
  subst s. pose proof (fixup_pinv _ _ _ Lpre Ix) as I2.
  eapply (wqf_auth dbg hp hpo); [exact W | exact Ha | exact I2 | exact Hrem |].
  rewrite wqf_plain.
  - rewrite Sse. unfold file_url in H. rewrite Sue, Shs, Spo, <- Sps. exact H.
  - lia.
  - unfold has_authority_b in Ha. rewrite <- Ha. apply (pre_starts_with (path_start b)); [|change (nlen s_css) with 3; lia].
    unfold agree_pre. destruct I2 as [I21 _].
    rewrite <- (nfirstn_nfirstn (path_start b) (path_start b + 1)) by lia. rewrite I21.
    rewrite nfirstn_app_le by lia. apply nfirstn_all. lia.
Qed.

Theorem contain_file_front b input u' :
  wf_b b = true -> has_authority_b b = true -> st_is_file (b_st b) = true -> file_shape b = true ->
  usv_list input -> contain_pre b input = true -> file_ref_plain b input = true ->
  join b input = POk u' ->
  wf_b u' = true /\ same_front dbg b u' /\ same_main b u' /\ agree_pre (path_start b) (ser b) (ser u').
Proof.
  intros W Ha Hf Hsh Hu Hcp Hpl.
  pose proof (auth_not_cbb b W Ha) as Hc.
  destruct (contain_pre_inv b input Hcp) as [Hns H2s].
  destruct (ref_text input) as [|c t] eqn:Et.
  { rewrite (join_empty dbg hp hpo hd b input Hc Et). intros H. inversion H; subst u'.
    destruct (without_fragment_spec dbg b W) as (W1 & SF1 & SM1 & _ & _ & _ & _ & _ & Es1).
    split; [exact W1|]. split; [exact SF1|]. split; [exact SM1|]. unfold agree_pre. rewrite Es1.
    apply before_fragment_prefix. exact W. }
  destruct (N.eq_dec c 35) as [->|N35].
  { intros H. rewrite (join_frag_out dbg hp hpo hd b input t u' Hu Et H).
    destruct (with_fragment_spec dbg b (encode T_FRAGMENT (utf8_encode t)) W) as (W1 & SF1 & SM1 & _ & _ & _ & Es1).
    split; [exact W1|]. split; [exact SF1|]. split; [exact SM1|]. unfold agree_pre. rewrite Es1.
    destruct (before_fragment_prefix b W) as [A1 A2]. rewrite nfirstn_app_le by exact A2. exact A1. }
  destruct (N.eq_dec c 63) as [->|N63].
  { intros H. destruct (join_query dbg hp hpo hd b input t u' W Hc Hu Et H) as [-> HQ].
    destruct (with_query_spec dbg hp hpo b _ (ref_fragment t) W HQ) as (W1 & SF1 & SM1 & _).
    split; [exact W1|]. split; [exact SF1|]. split; [exact SM1|]. unfold agree_pre, with_query, url_with. cbn [ser].
    rewrite nfirstn_app_le by (apply ps_le_before_query; exact W). apply before_query_prefix. exact W. }
  (* the path arms *)
  unfold parse_url. unfold file_ref_plain in Hpl. set (l := input_new_trim_c0 input) in *. change (ntnl l = c :: t) in Et.
  assert (usv_list l) as Hl by (apply usv_trim; exact Hu).
  rewrite parse_scheme_none by (rewrite Et; exact Hns).
  destruct (inp_next_some l c t Et) as (r & En & Er & Ect).
  pose proof (inp_next_usv l c r Hl En) as Hr.
  unfold inp_starts_with_char. rewrite En in *. replace (c =? 35) with false by lia. rewrite Hc.
  fold (b_st b). rewrite Hf. destruct (b_st b) eqn:Ebst; try discriminate Hf. unfold parse_file, inp_split_first. rewrite En.
  pose proof (path_start_le_len b W) as B5.
  assert (nlen (nfirstn (path_start b) (ser b)) = path_start b) as Lp by (apply nlen_nfirstn; exact B5).
  destruct (file_shape_inv b Hsh) as (Sse & Sue & Shs & Sps & Spo & S7 & Snh).
  pose proof (af_he (wf_auth_facts b W Ha)) as B3.
  destruct (is_slash_or_bslash c) eqn:Esl.
  - (* one leading slash *)
    apply andb_true_iff in Hpl. destruct Hpl as [Hw Hseg]. rewrite Hw.
    assert (match inp_next r with Some (d, _) => is_slash_or_bslash d | None => false end = false) as Hnext.
    { destruct (inp_next r) as [[d r2]|] eqn:En2; [|reflexivity].
      destruct (is_slash_or_bslash d) eqn:Esl2; [|reflexivity]. exfalso.
      destruct (inp_next_ntnl r d r2 En2) as [E2 _]. rewrite <- Er, E2 in H2s.
      unfold two_leading_slashes, base_special in H2s. fold (b_st b) in H2s. rewrite Ebst in H2s.
      unfold is_ref_slash, is_slash_or_bslash in *. cbn [st_is_special] in H2s. lia. }
    assert (PInv (path_start b) (path_start b) (nfirstn (path_start b) (ser b)) (nfirstn (path_start b) (ser b))) as I0.
    { split; [apply nfirstn_all; lia|]. rewrite nskipn_all by lia. reflexivity. }
    destruct (inp_next r) as [[d r2]|] eqn:En2; cbv beta iota zeta in Hnext |- *; [rewrite Hnext|].
    all: destruct (base_first_segment b) as [seg|]; [|discriminate Hseg]; apply negb_true_iff in Hseg; rewrite Hseg.
    all: unfold host_str; destruct (has_host b) eqn:Hh;
      [ unfold u_slice, slice_o; rewrite Shs;
        replace ((7 <=? host_end b) && (host_end b <=? nlen (ser b))) with true by lia; cbn [bindo];
        rewrite <- S7, nfirstn_split by lia; replace (7 + (host_end b - 7)) with (path_start b) by lia;
        rewrite Lp; apply (file_path_arm_pqf b false _ l u' W Ha Hsh I0 Hl)
      | assert (hosti b = HI_None) as Hn by (unfold has_host in Hh; destruct (hosti b); try discriminate Hh; reflexivity);
        pose proof (Snh eq_refl) as S7';
        generalize (file_path_arm_pqf b false _ l u' W Ha Hsh I0 Hl); rewrite Hn;
        replace (path_start b) with 7 by lia; rewrite S7; exact (fun K => K) ].
  - (* a relative path *)
    replace (c =? 63) with false by lia. replace (c =? 35) with false by lia. rewrite Hpl.
    destruct (without_query_spec dbg b W) as (W1 & _ & _ & _ & Eq1 & Ef1 & Es1 & _).
    set (u1 := without_query b) in *.
    pose proof (qf_facts_of u1 W1) as (_ & _ & _ & Q4 & _).
    assert (path_end u1 = nlen (ser u1)) as Epe by (unfold path_end; rewrite Eq1, Ef1; reflexivity).
    rewrite Epe in Q4. replace (path_start u1) with (path_start b) in Q4 by reflexivity.
    pose proof (ps_le_before_query b W) as Lq. rewrite <- Es1 in Lq.
    rewrite nfirstn_all in Q4 by (rewrite nlen_nskipn; lia).
    assert (PInv (path_start b) (path_start b) (nfirstn (path_start b) (ser b)) (b_before_query b)) as I0.
    { split; [apply before_query_prefix; exact W | rewrite <- Es1; exact Q4]. }
    destruct (shorten_path STFile (path_start b) (b_before_query b)) as [s1| |] eqn:Esh; cbn [pbind]; try discriminate.
    pose proof (pinv_shorten_path (path_start b) (path_start b) _ ltac:(lia) ltac:(lia) Lp _ _ _ Esh I0) as I1.
    exact (file_path_arm b true s1 l u' W Ha I1 Hl).
Qed.

End ContainFileFront.

(* ---------- non-vacuity ---------- *)
From Coq Require Import String.
From RU Require Import Proofs.C02_Reach Proofs.C08_Relative.
Open Scope string_scope.

(* the premises hold, the join succeeds, the text in front of the path and the host kind are the base's *)
Definition file_front_case (bs r expect : string) : bool :=
  match toy_parse bs with
  | POk b =>
      wf_b b && has_authority_b b && st_is_file (b_st b) && file_shape b && contain_pre b (B r) && file_ref_plain b (B r)
      && match toy_join b (B r) with
         | POk u => list_eqb (ser u) (B expect) && list_eqb (nfirstn (path_start b) (ser u)) (nfirstn (path_start b) (ser b))
                    && N.eqb (path_start u) (path_start b) && hi_eqb (hosti u) (hosti b)
         | _ => false
         end
  | _ => false
  end.

(* premises except file_ref_plain hold, and the host is dropped: the excluded branches are really different *)
Definition file_front_excluded (bs r : string) : bool :=
  match toy_parse bs with
  | POk b =>
      wf_b b && has_authority_b b && st_is_file (b_st b) && file_shape b && contain_pre b (B r) && negb (file_ref_plain b (B r))
      && match toy_join b (B r) with
         | POk u => negb (hi_eqb (hosti u) (hosti b))
         | _ => false
         end
  | _ => false
  end.

Lemma contain_file_front_inhabited :
  file_front_case "file://host/dir/f?q#f" "x/y?z" "file://host/dir/x/y?z" = true
  /\ file_front_case "file://host/dir/f" "/x/../y" "file://host/y" = true
  /\ file_front_case "file://host/dir/f" "\x" "file://host/x" = true
  /\ file_front_case "file://host/dir/f" "../../.." "file://host/" = true
  /\ file_front_case "file:///dir/f" "/x" "file:///x" = true
  /\ file_front_case "file:///c:/dir/f" "../../x" "file:///c:/x" = true
  /\ file_front_case "file://host/dir/f" "	.//x" "file://host/dir//x" = true
  /\ file_front_excluded "file://host/dir/f" "/c:/x" = true
  /\ file_front_excluded "file://host/dir/f" "C|" = true.
Proof. vm_compute. repeat split. Qed.
