(* Proofs/C01_EqPath.v - C01 equivalence, authority-less hierarchical class: "scheme:/path..." with a
   non-special scheme, no base.  The model resolves dot segments by truncating the serialization,
   the Standard by popping a list of segments; the two are related through the abstraction
   serialization = pre "/" seg "/" ... "/" cur  <->  (list of closed segments, buffer).
   Excluded, exactly: a ".." that would pop a drive-letter-shaped segment (finding F-C01-9: the model
   never pops it, in any scheme) - `spath_ok` below computes that on the Standard's own state. *)
From RU Require Import Base.Prelude Base.Utf8 Base.Utf8Facts Model.AsciiSet Gen.Tables
  Model.PercentEncoding Model.HostT Model.UrlRecord Model.Parser Model.Setters Model.WF Spec.Whatwg
  Proofs.ListN Proofs.C14_Set Proofs.C14_Enc Proofs.C14_Views Proofs.C02_Enc Proofs.C02_Parts
  Proofs.C02_Opaque Proofs.C02_Path Proofs.C02_PathL1 Proofs.C03_WF Proofs.C01_Tables Proofs.C08_Input
  Proofs.C01_EqRun Proofs.C01_EqEnc Proofs.C01_EqApi Proofs.C01_EqOpaque Proofs.C01_EqDots Proofs.C01_EqPathSpec
  Proofs.C06_Steps Proofs.C01_EqRef.

(* ================= finish_segment, exactly ================= *)
Definition last_is_wdl (segs : list (list N)) : bool :=
  match rev segs with t :: _ => starts_with_wdl (t ++ [47]) | [] => false end.

(* the ".." would meet a drive-letter-shaped last segment *)
Definition fin_ok (segs : list (list N)) (cur : list N) : bool := negb (is_double_dot_segment cur && last_is_wdl segs).

Definition fin_step (segs : list (list N)) (cur : list N) (ews : bool) : list (list N) * list N :=
  if is_double_dot_segment cur then (removelast segs, [])
  else if is_single_dot_segment cur then (segs, [])
  else if ews then (segs ++ [cur], []) else (segs, cur).

Lemma fin_of_step segs cur sep :
  fin segs cur sep = if sep then fst (fin_step segs cur sep) else fst (fin_step segs cur sep) ++ [snd (fin_step segs cur sep)].
Proof.
  unfold fin, fin_step. destruct (is_double_dot_segment cur); [destruct sep; reflexivity|].
  destruct (is_single_dot_segment cur); destruct sep; reflexivity.
Qed.

Section FinishExact.
Variable pre : list N.
Variable dbg : bool.
Notation ps := (nlen pre).
Notation BsP := (Bs pre).

Lemma finish_exact segs cur (ews : bool) hh :
  forallb no_slash segs = true -> fin_ok segs cur = true ->
  finish_segment dbg STNotSpecial ps (BsP segs ++ cur ++ (if ews then [47] else [])) (nlen (BsP segs)) ews hh
  = POk (BsP (fst (fin_step segs cur ews)) ++ snd (fin_step segs cur ews), hh).
Proof.
  intros Hsegs Hok. unfold fin_step, fin_ok in *. rewrite <- double_dot_agree in *. rewrite <- single_dot_agree.
  set (s1 := BsP segs ++ cur ++ (if ews then [47] else [])).
  assert (slice_o s1 (nlen (BsP segs)) (if ews then nlen s1 - 1 else nlen s1) = Some cur) as Hslice.
  { unfold s1. destruct ews.
    - rewrite !nlen_app. replace (nlen (BsP segs) + (nlen cur + nlen [47]) - 1) with (nlen (BsP segs) + nlen cur) by (unfold nlen; cbn [length]; lia).
      apply slice_mid.
    - rewrite !nlen_app. replace (nlen (BsP segs) + (nlen cur + nlen [])) with (nlen (BsP segs) + nlen cur) by (unfold nlen; cbn [length]; lia).
      apply slice_mid. }
  assert (truncate s1 (nlen (BsP segs)) = BsP segs) as Htr by (unfold truncate, s1; apply nfirstn_app_len).
  destruct (Bs_ends pre segs) as [X EX].
  assert (ends_with_byte 47 (BsP segs) = true) as Hends by (rewrite EX; apply ends_with_byte_snoc).
  unfold finish_segment. rewrite Hslice. cbn [of_option pbind].
  destruct (is_double_dot cur) eqn:Edd.
  - (* double dot *)
    cbn [andb] in Hok. apply negb_true_iff in Hok.
    assert ((if dbg then match (if 1 <=? nlen (BsP segs) then nnth s1 (nlen (BsP segs) - 1) else None) with
                         | Some b => passert (b =? 47) | None => PPanic end else POk tt) = POk tt) as Hdbg.
    { destruct dbg; [|reflexivity]. pose proof (Bs_len_ge pre segs) as Hl.
      replace (1 <=? nlen (BsP segs)) with true by lia.
      unfold s1. rewrite nnth_app_l by lia. rewrite EX. rewrite nlen_app.
      replace (nlen X + nlen [47] - 1) with (nlen X) by (unfold nlen; cbn [length]; lia).
      rewrite nnth_app_last. reflexivity. }
    rewrite Hdbg. cbn [pbind fst snd]. rewrite Htr, Hends. cbn [andb].
    unfold last_is_wdl in Hok.
    destruct (rev segs) as [|t r] eqn:Er.
    + (* no segment yet: nothing to pop *)
      assert (segs = []) as -> by (rewrite <- (rev_involutive segs), Er; reflexivity).
      assert (BsP [] = pre ++ [47]) as EB by (unfold Bs; cbn; apply app_nil_r).
      assert (last_slash_can_be_removed (BsP []) ps = false) as Hl.
      { unfold last_slash_can_be_removed. rewrite EB. rewrite nlen_app.
        replace (ps + nlen [47] - 1) with ps by (unfold nlen; cbn [length]; lia).
        rewrite nfirstn_app_len. destruct (rfind 47 pre) as [p|] eqn:Ep; [|reflexivity].
        apply rfind_lt in Ep. replace (ps <=? p) with false by lia. reflexivity. }
      rewrite Hl.
      assert (Parser.shorten_path STNotSpecial ps (BsP []) = POk (BsP [])) as Hsh.
      { unfold Parser.shorten_path, pop_path. rewrite EB. rewrite nlen_app.
        replace (ps + nlen [47] =? ps) with false by (unfold nlen; cbn [length]; lia).
        cbn [st_is_file andb]. replace (ps <? ps + nlen [47]) with true by (unfold nlen; cbn [length]; lia).
        rewrite nskipn_app_len. change (rfind 47 [47]) with (rfind 47 ([] ++ 47 :: [])). rewrite (rfind_app_last 47 [] []) by reflexivity. unfold truncate.
        replace (ps + nlen [] + 1) with (nlen (pre ++ [47])) by (rewrite nlen_app; unfold nlen; cbn [length]; lia).
        rewrite nfirstn_all by lia. reflexivity. }
      rewrite Hsh. cbn [pbind]. rewrite Hends. rewrite andb_false_r. cbn [removelast]. rewrite app_nil_r. reflexivity.
    + assert (segs = rev r ++ [t]) as Es by (rewrite <- (rev_involutive segs), Er; reflexivity).
      set (segs0 := rev r) in *. rewrite Es in *. rewrite forallb_snoc in Hsegs.
      apply andb_true_iff in Hsegs. destruct Hsegs as [Hsegs0 Htn].
      rewrite removelast_last.
      destruct (Bs_ends pre segs0) as [X0 EX0].
      pose proof (Bs_len_ge pre segs0) as Hl0.
      assert (rfind 47 (nfirstn (nlen (BsP (segs0 ++ [t])) - 1) (BsP (segs0 ++ [t]))) = Some (nlen X0)) as Hrf.
      { rewrite Bs_snoc. rewrite !nlen_app.
        replace (nlen (BsP segs0) + (nlen t + nlen [47]) - 1) with (nlen (BsP segs0 ++ t)) by (rewrite nlen_app; unfold nlen; cbn [length]; lia).
        rewrite app_assoc. rewrite nfirstn_app_len. rewrite EX0. rewrite <- app_assoc. cbn [app].
        apply rfind_app_last. rewrite <- no_slash_no_byte. exact Htn. }
      assert (nlen (BsP segs0) = nlen X0 + 1) as EL0 by (rewrite EX0, nlen_app; reflexivity).
      unfold last_slash_can_be_removed. rewrite Hrf. replace (ps <=? nlen X0) with true by lia. cbn [andb].
      assert (nskipn (nlen X0) (BsP (segs0 ++ [t])) = 47 :: t ++ [47]) as Hsk.
      { rewrite Bs_snoc, EX0. rewrite <- !app_assoc. rewrite nskipn_app_len. reflexivity. }
      rewrite Hsk.
      assert (path_starts_with_wdl (47 :: t ++ [47]) = false) as Ew.
      { unfold path_starts_with_wdl. cbn [is_path_end]. replace (47 =? 47) with true by reflexivity. cbn [orb andb]. exact Hok. }
      rewrite Ew. cbn [negb].
      assert (nfirstn (nlen (BsP (segs0 ++ [t])) - 1) (BsP (segs0 ++ [t])) = BsP segs0 ++ t) as Hcut.
      { rewrite Bs_snoc. rewrite !nlen_app.
        replace (nlen (BsP segs0) + (nlen t + nlen [47]) - 1) with (nlen (BsP segs0 ++ t)) by (rewrite nlen_app; unfold nlen; cbn [length]; lia).
        rewrite app_assoc. apply nfirstn_app_len. }
      rewrite Hcut.
      assert (Parser.shorten_path STNotSpecial ps (BsP segs0 ++ t) = POk (BsP segs0)) as Hsh.
      { unfold Parser.shorten_path, pop_path. rewrite nlen_app.
        replace (nlen (BsP segs0) + nlen t =? ps) with false by lia. cbn [st_is_file andb].
        replace (ps <? nlen (BsP segs0) + nlen t) with true by lia.
        assert (exists Y, nskipn ps (BsP segs0 ++ t) = Y ++ 47 :: t /\ ps + nlen Y + 1 = nlen (BsP segs0)) as (Y & EY & ELY).
        { unfold Bs. rewrite <- !app_assoc. rewrite nskipn_app_len.
          destruct (rev segs0) as [|t1 r1] eqn:Er0.
          - assert (segs0 = []) as E0 by (rewrite <- (rev_involutive segs0), Er0; reflexivity). rewrite E0.
            exists []. cbn. split; [reflexivity|]. unfold nlen. rewrite !app_length. cbn [length]. lia.
          - assert (segs0 = rev r1 ++ [t1]) as E0 by (rewrite <- (rev_involutive segs0), Er0; reflexivity). rewrite E0.
            rewrite segs_text_snoc. exists ([47] ++ segs_text (rev r1) ++ t1). split.
            + rewrite <- !app_assoc. reflexivity.
            + len_lia. }
        rewrite EY. rewrite (rfind_app_last 47 Y t) by (rewrite <- no_slash_no_byte; exact Htn).
        unfold truncate. rewrite ELY. rewrite nfirstn_app_len. reflexivity. }
      rewrite Hsh. cbn [pbind]. rewrite EX0. rewrite ends_with_byte_snoc. rewrite andb_false_r. rewrite <- EX0.
      rewrite app_nil_r. reflexivity.
  - destruct (is_single_dot cur) eqn:Esd.
    + rewrite Htr, Hends. cbn [fst snd]. rewrite app_nil_r. reflexivity.
    + cbn [st_is_file andb]. unfold s1. destruct ews; cbn [fst snd].
      * rewrite app_nil_r, Bs_snoc. reflexivity.
      * rewrite app_nil_r. reflexivity.
Qed.

End FinishExact.

(* ================= the path loop, exactly ================= *)
(* no ".." of the text meets a drive-letter-shaped last segment (computed on the Standard's state) *)
Fixpoint spath_ok (t : list N) (P : list (list N)) (B : list N) : bool :=
  match t with
  | [] => fin_ok P B
  | c :: r => if c =? 47 then fin_ok P B && spath_ok r (fin P B true) []
              else if is_qh c then fin_ok P B
              else spath_ok r P (B ++ utf8_percent_encode_cp in_path_set c)
  end.

Section LoopExact.
Variable pre : list N.
Variable dbg : bool.
Notation ps := (nlen pre).
Notation loop := (parse_path_loop dbg CUrlParser STNotSpecial ps).
Notation BsP := (Bs pre).
Notation enc pend := (encode T_PATH (utf8_encode (rev pend))).

Lemma enc_no_slash pend : pend_ok pend -> no_slash (enc pend) = true.
Proof.
  intros [Hu Hp]. unfold no_slash.
  apply encode_utf8_forallb; [reflexivity | exact hex_not_slash | apply usv_rev; exact Hu|].
  apply Forall_forall. intros c Hin _. unfold no_byte in Hp. rewrite forallb_forall in Hp.
  apply Hp. apply in_rev. exact Hin.
Qed.

Lemma no_slash_app a b : no_slash (a ++ b) = no_slash a && no_slash b.
Proof. unfold no_slash. apply forallb_app. Qed.

Lemma no_slash_removelast segs : forallb no_slash segs = true -> forallb no_slash (removelast segs) = true.
Proof.
  intros H. rewrite forallb_forall in *. intros x Hx. apply H.
  destruct segs as [|s0 segs]; [destruct Hx|].
  assert (s0 :: segs <> []) as Hne by discriminate.
  rewrite (app_removelast_last [] Hne). apply in_or_app. left. exact Hx.
Qed.

Lemma fin_step_no_slash segs B ews : forallb no_slash segs = true -> no_slash B = true ->
  forallb no_slash (fst (fin_step segs B ews)) = true /\ no_slash (snd (fin_step segs B ews)) = true.
Proof.
  intros Hs HB. unfold fin_step. destruct (is_double_dot_segment B).
  - split; [apply no_slash_removelast; exact Hs | reflexivity].
  - destruct (is_single_dot_segment B); [split; [exact Hs | reflexivity]|].
    destruct ews; cbn [fst snd]; [|split; assumption].
    split; [|reflexivity]. rewrite forallb_app, Hs. cbn [forallb]. rewrite HB. reflexivity.
Qed.

Lemma fin_step_sep_last segs B : snd (fin_step segs B true) = [].
Proof. unfold fin_step. destruct (is_double_dot_segment B); [reflexivity|]. destruct (is_single_dot_segment B); reflexivity. Qed.

Lemma enc_snoc pend c : enc (c :: pend) = enc pend ++ utf8_percent_encode_cp in_path_set c.
Proof.
  cbn [rev]. rewrite enc_utf8_app. f_equal.
  unfold utf8_encode. cbn [flat_map]. rewrite app_nil_r. apply enc_bridge1. exact rel_PATH.
Qed.

Theorem loop_exact l : forall segs cur pend hh, usv_list l -> pend_ok pend ->
  forallb no_slash segs = true -> no_slash cur = true ->
  spath_ok (ntnl l) segs (cur ++ enc pend) = true ->
  exists segs' last',
    loop l (BsP segs ++ cur) (nlen (BsP segs)) pend hh = POk (BsP segs' ++ last', hh, cbb_rest l)
    /\ fst (spath (ntnl l) segs (cur ++ enc pend)) = segs' ++ [last']
    /\ snd (spath (ntnl l) segs (cur ++ enc pend)) = ntnl (cbb_rest l).
Proof.
  assert (forall l0 segs cur pend hh,
            match l0 with [] => True | c :: _ => C02_Parts.is_qh c = true /\ is_tnl c = false end ->
            pend_ok pend -> forallb no_slash segs = true -> no_slash cur = true ->
            fin_ok segs (cur ++ enc pend) = true ->
            loop l0 (BsP segs ++ cur) (nlen (BsP segs)) pend hh
            = POk (BsP (fst (fin_step segs (cur ++ enc pend) false)) ++ snd (fin_step segs (cur ++ enc pend) false), hh, l0)) as Hend.
  { intros l0 segs cur pend hh Hl Hp Hsegs Hn Hok.
    rewrite loop_end by exact Hl. rewrite push_pending_shape by (destruct Hp; assumption).
    pose proof (finish_exact pre dbg segs (cur ++ enc pend) false hh Hsegs Hok) as Hf.
    rewrite app_nil_r in Hf. rewrite Hf. reflexivity. }
  induction l as [|c r IH]; intros segs cur pend hh Hu Hp Hsegs Hn Hok.
  - cbn [ntnl filter spath_ok spath fst snd cbb_rest] in *.
    eexists. eexists. split; [apply (Hend [] segs cur pend hh I Hp Hsegs Hn Hok)|].
    split; [apply fin_of_step | reflexivity].
  - apply usv_cons in Hu. destruct Hu as [Huc Hur]. cbn [cbb_rest].
    destruct (is_tnl c) eqn:Et.
    + rewrite ntnl_cons_tnl in * by exact Et.
      rewrite loop_cons_tnl by exact Et. rewrite push_pending_shape by (destruct Hp; assumption).
      assert (pend_ok []) as Hp0 by (split; [constructor | reflexivity]).
      assert (no_slash (cur ++ enc pend) = true) as Hn'.
      { rewrite no_slash_app, Hn, (enc_no_slash pend Hp). reflexivity. }
      assert ((cur ++ enc pend) ++ enc [] = cur ++ enc pend) as E0 by (cbn; apply app_nil_r).
      destruct (IH segs (cur ++ enc pend) [] hh Hur Hp0 Hsegs Hn') as (segs' & last' & G1 & G2 & G3).
      { rewrite E0. exact Hok. }
      rewrite E0 in G2, G3. exists segs', last'. split; [exact G1 | split; assumption].
    + rewrite ntnl_cons in * by exact Et.
      destruct (C02_Parts.is_qh c) eqn:Eq.
      * assert ((c =? 47) = false) as E47 by (unfold C02_Parts.is_qh in Eq; lia).
        cbn [spath_ok spath] in *. rewrite E47 in *. change (is_qh c) with (C02_Parts.is_qh c) in *. rewrite Eq in *.
        cbn [fst snd].
        eexists. eexists. split; [apply (Hend (c :: r) segs cur pend hh (conj Eq Et) Hp Hsegs Hn Hok)|].
        split; [apply fin_of_step|]. rewrite ntnl_cons by exact Et. reflexivity.
      * destruct (c =? 47) eqn:E47.
        -- apply N.eqb_eq in E47. subst c. cbn [spath_ok spath] in *.
           replace (47 =? 47) with true in * by reflexivity.
           apply andb_true_iff in Hok. destruct Hok as [Hok1 Hok2].
           rewrite loop_cons_slash. rewrite push_pending_shape by (destruct Hp; assumption).
           assert (no_slash (cur ++ enc pend) = true) as Hn'.
           { rewrite no_slash_app, Hn, (enc_no_slash pend Hp). reflexivity. }
           pose proof (finish_exact pre dbg segs (cur ++ enc pend) true hh Hsegs Hok1) as Hf.
           rewrite <- app_assoc. rewrite Hf. cbn [pbind]. rewrite fin_step_sep_last, app_nil_r.
           destruct (fin_step_no_slash segs (cur ++ enc pend) true Hsegs Hn') as [Hs1 _].
           assert (pend_ok []) as Hp0 by (split; [constructor | reflexivity]).
           rewrite fin_of_step in Hok2 |- *.
           set (segs1 := fst (fin_step segs (cur ++ enc pend) true)) in *.
           destruct (IH segs1 [] [] hh Hur Hp0 Hs1 eq_refl) as (segs' & last' & G1 & G2 & G3).
           { exact Hok2. }
           rewrite app_nil_r in G1. exists segs', last'. split; [exact G1 | split; assumption].
        -- cbn [spath_ok spath] in *. rewrite E47 in *. change (is_qh c) with (C02_Parts.is_qh c) in *. rewrite Eq in *.
           rewrite loop_cons_plain by assumption.
           assert (pend_ok (c :: pend)) as Hp'.
           { destruct Hp as [Hp1 Hp2]. split; [apply usv_cons; split; assumption|].
             unfold no_byte in *. cbn [forallb]. rewrite E47, Hp2. reflexivity. }
           rewrite <- app_assoc, <- enc_snoc in *.
           exact (IH segs cur (c :: pend) hh Hur Hp' Hsegs Hn Hok).
Qed.

End LoopExact.

(* ================= no slash inside the Standard's segments ================= *)
Lemma forallb_flat_map {A B} (f : B -> bool) (g : A -> list B) l :
  (forall x, forallb f (g x) = true) -> forallb f (flat_map g l) = true.
Proof. intros H. induction l as [|x l IH]; [reflexivity|]. cbn [flat_map]. rewrite forallb_app, H, IH. reflexivity. Qed.

Lemma hex_upper_ge48 d : 48 <= hex_upper d.
Proof. unfold hex_upper. destruct (d <? 10); lia. Qed.

Lemma upe_cp_no_slash c : (c =? 47) = false -> no_slash (utf8_percent_encode_cp in_path_set c) = true.
Proof.
  intros H. unfold utf8_percent_encode_cp, no_slash. destruct (in_path_set c).
  - apply forallb_flat_map. intros b. unfold percent_encode_byte. cbn [forallb].
    pose proof (hex_upper_ge48 (b / 16)). pose proof (hex_upper_ge48 (b mod 16)).
    replace (37 =? 47) with false by reflexivity. cbn [negb andb].
    replace (hex_upper (b / 16) =? 47) with false by lia. replace (hex_upper (b mod 16) =? 47) with false by lia.
    reflexivity.
  - cbn [forallb]. rewrite H. reflexivity.
Qed.

Lemma fin_no_slash P B sep : forallb no_slash P = true -> no_slash B = true -> forallb no_slash (fin P B sep) = true.
Proof.
  intros HP HB. unfold fin.
  assert (forallb no_slash (removelast P) = true) as HR.
  { rewrite forallb_forall in *. intros x Hx. apply HP. destruct P as [|p0 P]; [destruct Hx|].
    assert (p0 :: P <> []) as Hne by discriminate.
    rewrite (app_removelast_last [] Hne). apply in_or_app. left. exact Hx. }
  destruct (is_double_dot_segment B); [destruct sep; [exact HR | rewrite forallb_app, HR; reflexivity]|].
  destruct (is_single_dot_segment B); [destruct sep; [exact HP | rewrite forallb_app, HP; reflexivity]|].
  rewrite forallb_app, HP. cbn [forallb]. rewrite HB. reflexivity.
Qed.

Lemma spath_no_slash t : forall P B, forallb no_slash P = true -> no_slash B = true ->
  forallb no_slash (fst (spath t P B)) = true.
Proof.
  induction t as [|c r IH]; intros P B HP HB; cbn [spath].
  - cbn [fst]. apply fin_no_slash; assumption.
  - destruct (c =? 47) eqn:E47; [apply IH; [apply fin_no_slash; assumption | reflexivity]|].
    destruct (is_qh c); [cbn [fst]; apply fin_no_slash; assumption|].
    apply IH; [exact HP|]. unfold no_slash in *. rewrite forallb_app, HB. cbn [andb]. apply upe_cp_no_slash. exact E47.
Qed.

Lemma fin_nonempty P B : fin P B false <> [].
Proof.
  unfold fin. destruct (is_double_dot_segment B); [|destruct (is_single_dot_segment B)];
    intros H; apply app_eq_nil in H; destruct H; discriminate.
Qed.

(* ================= serializer of the Standard vs the model's path text ================= *)
Lemma path_text_flat segs last : flat_map (fun s => 47 :: s) (segs ++ [last]) = path_text segs last.
Proof.
  unfold path_text. induction segs as [|s segs IH].
  - cbn. rewrite app_nil_r. reflexivity.
  - cbn [app flat_map]. rewrite IH. unfold segs_text. cbn [map concat]. rewrite <- !app_assoc. reflexivity.
Qed.

Lemma marker_flat P : P <> [] -> forallb no_slash P = true ->
  marker_of (flat_map (fun s => 47 :: s) P)
  = match P with p0 :: _ :: _ => if list_eqb p0 [] then [47; 46] else [] | _ => [] end.
Proof.
  intros Hne Hns. unfold marker_of, s_ss. destruct P as [|p0 [|p1 R]]; [contradiction | |].
  - cbn [flat_map app starts_with]. rewrite app_nil_r. replace (47 =? 47) with true by reflexivity. cbn [andb].
    cbn [forallb] in Hns. rewrite andb_true_r in Hns. destruct p0 as [|x p0]; [reflexivity|].
    cbn [starts_with]. unfold no_slash in Hns. cbn [forallb] in Hns. apply andb_true_iff in Hns. destruct Hns as [Hx _].
    apply negb_true_iff in Hx. rewrite N.eqb_sym, Hx. reflexivity.
  - cbn [flat_map app starts_with]. replace (47 =? 47) with true by reflexivity. cbn [andb].
    destruct p0 as [|x p0]; cbn [app starts_with list_eqb].
    + replace (47 =? 47) with true by reflexivity. reflexivity.
    + cbn [forallb] in Hns. apply andb_true_iff in Hns. destruct Hns as [Hx _].
      unfold no_slash in Hx. cbn [forallb] in Hx. apply andb_true_iff in Hx. destruct Hx as [Hx _].
      apply negb_true_iff in Hx. rewrite N.eqb_sym, Hx. reflexivity.
Qed.

(* ================= the ten strings of the canonical authority-less record ================= *)
Definition spec_noauth_url (sch : list N) (P : list (list N)) (q f : option (list N)) : spec_url :=
  mkSUrl sch [] [] None None (SPList P) q f.

Theorem api_noauth dbg shs sch P q f :
  let T := flat_map (fun s => 47 :: s) P in
  P <> [] -> forallb no_slash P = true -> wf_b (noauth_url sch T q f) = true ->
  api_of_model dbg (noauth_url sch T q f) = Some (spec_api_list shs (spec_noauth_url sch P q f)).
Proof.
  intros T Hne Hns W.
  assert (starts_with [47] T = true) as HT.
  { unfold T. destruct P as [|p0 R]; [contradiction|]. cbn [flat_map app starts_with]. reflexivity. }
  set (M := marker_of T). set (A := sch ++ [58]).
  assert (nlen A = nlen sch + 1) as EA by (unfold A; rewrite nlen_app; reflexivity).
  assert (has_authority_b (noauth_url sch T q f) = false) as Hna.
  { unfold has_authority_b, noauth_url. cbn [ser scheme_end]. unfold noauth_ser, noauth_pre.
    rewrite <- !app_assoc. rewrite nskipn_app_len. unfold s_css. cbn [app starts_with].
    replace (58 =? 58) with true by reflexivity. cbn [andb].
    unfold marker_of. destruct (starts_with s_ss T) eqn:Ess; [reflexivity|].
    cbn [app]. destruct T as [|t0 T']; [discriminate|]. cbn [starts_with] in HT. rewrite andb_true_r in HT.
    apply N.eqb_eq in HT. subst t0. unfold s_ss in Ess. cbn [starts_with app] in *.
    replace (47 =? 47) with true in * by reflexivity. cbn [andb] in *.
    destruct T' as [|y T'']; [cbn [app]; unfold qf_text; destruct q; destruct f; reflexivity | exact Ess]. }
  rewrite (api_of_model_eval dbg _ W). f_equal.
  unfold has_password_b. cbn [pidx]. rewrite Hna. cbn [andb].
  unfold piece, noauth_url.
  cbn [pidx ser scheme_end username_end host_start host_end hosti port path_start query_start
       fragment_start has_host].
  fold A M.
  unfold spec_api_list, get_href, get_protocol, get_username, get_password, get_host, get_hostname,
    get_port, get_pathname, get_search, get_hash, serialize_url, serialize_path, serialize_host_opt,
    spec_noauth_url.
  cbn [su_scheme su_username su_password su_host su_port su_path su_query su_fragment].
  fold T. rewrite <- (marker_flat P Hne Hns). fold T M.
  rewrite <- EA, !N.sub_diag.
  change (nfirstn 0 ?x) with (@nil N).
  unfold noauth_ser, noauth_pre. fold A M.
  set (PRE := A ++ M ++ T).
  assert (match qf_qs (nlen PRE) q with
          | Some x => x
          | None => match qf_fs (nlen PRE) q f with Some y => y | None => nlen (PRE ++ qf_text q f) end
          end = nlen PRE) as EAP.
  { destruct q as [x|]; [reflexivity|]. destruct f as [y|]; cbn [qf_qs qf_fs qf_qtext].
    - unfold nlen at 2. cbn [length]. lia.
    - unfold qf_text. cbn [qf_qtext qf_ftext app]. rewrite app_nil_r. reflexivity. }
  assert (match qf_fs (nlen PRE) q f with Some y => y | None => nlen (PRE ++ qf_text q f) end
          = nlen (PRE ++ qf_qtext q)) as EAQ.
  { destruct f as [y|]; cbn [qf_fs]; [symmetry; apply nlen_app|].
    unfold qf_text. cbn [qf_ftext]. rewrite app_nil_r. reflexivity. }
  rewrite EAP, EAQ.
  apply list10_eq; try reflexivity.
  - (* href *)
    unfold PRE, qf_text, qf_qtext, qf_ftext. unfold A. rewrite <- !app_assoc. cbn [app].
    destruct q; destruct f; reflexivity.
  - (* protocol *)
    unfold PRE. rewrite <- !app_assoc. apply nfirstn_app_len.
  - (* pathname *)
    unfold PRE. rewrite !nlen_app.
    replace (nlen A + (nlen M + nlen T) - (nlen A + nlen M)) with (nlen T) by lia.
    rewrite <- (nlen_app A M).
    replace ((A ++ M ++ T) ++ qf_text q f) with ((A ++ M) ++ T ++ qf_text q f) by (rewrite <- !app_assoc; reflexivity).
    rewrite nskipn_app_len. apply nfirstn_app_len.
  - (* search *)
    rewrite (nlen_app PRE). replace (nlen PRE + nlen (qf_qtext q) - nlen PRE) with (nlen (qf_qtext q)) by lia.
    rewrite nskipn_app_len. unfold qf_text. rewrite nfirstn_app_len. apply q_trim_qtext.
  - (* hash *)
    unfold qf_text. rewrite app_assoc. rewrite nskipn_app_len. apply q_trim_ftext.
Qed.

(* ================= the class ================= *)
Section NoAuthClass.
Variable dbg : bool.
Variable hp hpo : list N -> result host.
Variable hd : host -> list N.
Variable ovr : option (list N -> list N).
Variable shp : bool -> list N -> option spec_host.
Variable shs : spec_host -> list N.

Notation PATH rem' := (fst (spath (ntnl rem') [] [])).

Lemma pqf_total' st se s l :
  match l with [] => True | c :: _ => C02_Parts.is_qh c = true /\ is_tnl c = false end ->
  parse_query_and_fragment ovr CUrlParser st se s l = PErr Overflow
  \/ exists r, parse_query_and_fragment ovr CUrlParser st se s l = POk r.
Proof.
  intros Hh. unfold parse_query_and_fragment. destruct l as [|c r]; [right; eexists; reflexivity|].
  destruct Hh as [Hq Ht]. rewrite inp_next_cons by exact Ht.
  unfold to_u32. destruct (nlen s <=? U32_MAX_P); cbn [pbind].
  2:{ destruct (c =? 35) eqn:E35; [left; reflexivity|]. destruct (c =? 63) eqn:E63; [left; reflexivity|].
      unfold C02_Parts.is_qh in Hq. rewrite E63, E35 in Hq. discriminate. }
  destruct (c =? 35) eqn:E35; [right; eexists; reflexivity|].
  destruct (c =? 63) eqn:E63.
  2:{ unfold C02_Parts.is_qh in Hq. rewrite E63, E35 in Hq. discriminate. }
  destruct (parse_query _ _ _ _ _ _) as [s1 [r2|]]; [|right; eexists; reflexivity].
  destruct (nlen s1 <=? U32_MAX_P); cbn [pbind]; [right; eexists; reflexivity | left; reflexivity].
Qed.

(* model side: Overflow, or the canonical record with the Standard's path *)
Theorem model_noauth input sch rem rem' : usv_list input ->
  parse_scheme CUrlParser (input_new_trim_c0 input) = Some (sch, rem) ->
  scheme_type_of sch = STNotSpecial ->
  inp_split_prefix_str s_ss rem = None -> inp_split_prefix_char 47 rem = Some rem' ->
  spath_ok (ntnl rem') [] [] = true ->
  snd (spath (ntnl rem') [] []) = ntnl (cbb_rest rem')
  /\ (parse_url dbg hp hpo hd ovr None input = PErr Overflow
      \/ (let u := noauth_url sch (flat_map (fun s => 47 :: s) (PATH rem'))
                              (pqf_q STNotSpecial (cbb_rest rem')) (pqf_f (cbb_rest rem')) in
          parse_url dbg hp hpo hd ovr None input = POk u /\ wf_b u = true)).
Proof.
  intros Hu Hs Hns Hss H47 Hok.
  destruct (parse_scheme_suffix _ _ _ _ Hs) as [pre0 Hpre].
  assert (usv_list rem) as Hur.
  { pose proof (usv_trim input Hu) as Ht. rewrite Hpre in Ht. apply usv_app in Ht. tauto. }
  assert (usv_list rem') as Hur'.
  { unfold inp_split_prefix_char in H47. destruct (inp_next rem) as [[d r]|] eqn:En; [|discriminate].
    destruct (d =? 47); [|discriminate]. inversion H47; subst. exact (inp_next_usv rem d rem' Hur En). }
  assert (pend_ok []) as Hp0 by (split; [constructor | reflexivity]).
  destruct (loop_exact (sch ++ [58]) dbg rem' [] [] [] false Hur' Hp0 eq_refl eq_refl Hok)
    as (segs & last & Hloop & Hfst & Hsnd).
  cbn [app rev utf8_encode flat_map encode] in Hfst, Hsnd.
  split; [exact Hsnd|].
  set (T := flat_map (fun s => 47 :: s) (PATH rem')).
  assert (T = path_text segs last) as ET by (unfold T; rewrite Hfst; apply path_text_flat).
  destruct (parse_url dbg hp hpo hd ovr None input) as [u|e|] eqn:E.
  - right. cbv zeta.
    destruct (parse_noauth_out dbg hp hpo hd ovr input sch rem rem' u Hu Hs Hns Hss H47 E)
      as (segs0 & last0 & q0 & f0 & K & Eu).
    destruct (noauth_url_wf _ _ _ _ _ K) as (W & _). rewrite <- Eu in W.
    (* evaluate *)
    unfold parse_url in E. rewrite Hs in E. unfold parse_with_scheme in E. rewrite Hns in E.
    destruct (to_u32 (nlen sch)) as [se| |] eqn:Eu1; cbn [pbind] in E; try discriminate.
    apply to_u32_inv in Eu1. destruct Eu1 as [-> Hb0].
    unfold parse_non_special in E. rewrite Hss, H47 in E.
    destruct (to_u32 (nlen (sch ++ [58]))) as [ps| |] eqn:Eu2; cbn [pbind] in E; try discriminate.
    apply to_u32_inv in Eu2. destruct Eu2 as [-> Hb1].
    unfold parse_path in E.
    assert ((sch ++ [58]) ++ [47] = Bs (sch ++ [58]) [] ++ []) as EB by (unfold Bs; cbn; rewrite !app_nil_r; reflexivity).
    rewrite EB in E. rewrite app_nil_r in E at 2. rewrite Hloop in E. cbn [pbind] in E.
    assert (Bs (sch ++ [58]) segs ++ last = (sch ++ [58]) ++ T) as EBT.
    { rewrite ET. unfold Bs, path_text. rewrite <- !app_assoc. reflexivity. }
    rewrite EBT in E.
    assert (starts_with [47] T = true) as HT by (rewrite ET; reflexivity).
    rewrite (wqf_noauth_eq hp hpo ovr sch T (cbb_rest rem') HT) in E. cbv zeta in E.
    destruct (parse_query_and_fragment ovr CUrlParser STNotSpecial (nlen sch) (noauth_pre sch T) (cbb_rest rem'))
      as [[[s2 qs] fs]| |] eqn:Eq; cbn [pbind] in E; try discriminate.
    apply pqf_out in Eq; [|apply usv_cbb_rest; exact Hur'|].
    2:{ unfold noauth_pre. rewrite <- !app_assoc. rewrite nfirstn_app_len. apply query_enc_nonspecial. exact Hns. }
    destruct Eq as (-> & -> & -> & _).
    assert (u = noauth_url sch T (pqf_q STNotSpecial (cbb_rest rem')) (pqf_f (cbb_rest rem'))) as EU.
    { apply (f_equal (fun r => match r with POk a => a | _ => u end)) in E. symmetry. exact E. }
    rewrite <- EU. split; [reflexivity | exact W].
  - left. f_equal. revert E.
    unfold parse_url. rewrite Hs. unfold parse_with_scheme. rewrite Hns.
    unfold to_u32 at 1. destruct (nlen sch <=? U32_MAX_P); cbn [pbind]; [|intros E; inversion E; reflexivity].
    unfold parse_non_special. rewrite Hss, H47.
    unfold to_u32 at 1. destruct (nlen (sch ++ [58]) <=? U32_MAX_P); cbn [pbind]; [|intros E; inversion E; reflexivity].
    unfold parse_path.
    assert ((sch ++ [58]) ++ [47] = Bs (sch ++ [58]) [] ++ []) as EB by (unfold Bs; cbn; rewrite !app_nil_r; reflexivity).
    rewrite EB. rewrite app_nil_r at 2. rewrite Hloop. cbn [pbind].
    assert (Bs (sch ++ [58]) segs ++ last = (sch ++ [58]) ++ T) as EBT.
    { rewrite ET. unfold Bs, path_text. rewrite <- !app_assoc. reflexivity. }
    rewrite EBT.
    assert (starts_with [47] T = true) as HT by (rewrite ET; reflexivity).
    rewrite (wqf_noauth_eq hp hpo ovr sch T (cbb_rest rem') HT). cbv zeta.
    destruct (pqf_total' STNotSpecial (nlen sch) (noauth_pre sch T) (cbb_rest rem') (cbb_rest_head rem'))
      as [K|[[[s2 qs] fs] K]]; rewrite K; cbn [pbind]; intros E; [inversion E; reflexivity | discriminate].
  - exfalso. revert E.
    unfold parse_url. rewrite Hs. unfold parse_with_scheme. rewrite Hns.
    unfold to_u32 at 1. destruct (nlen sch <=? U32_MAX_P); cbn [pbind]; [|discriminate].
    unfold parse_non_special. rewrite Hss, H47.
    unfold to_u32 at 1. destruct (nlen (sch ++ [58]) <=? U32_MAX_P); cbn [pbind]; [|discriminate].
    unfold parse_path.
    assert ((sch ++ [58]) ++ [47] = Bs (sch ++ [58]) [] ++ []) as EB by (unfold Bs; cbn; rewrite !app_nil_r; reflexivity).
    rewrite EB. rewrite app_nil_r at 2. rewrite Hloop. cbn [pbind].
    assert (Bs (sch ++ [58]) segs ++ last = (sch ++ [58]) ++ T) as EBT.
    { rewrite ET. unfold Bs, path_text. rewrite <- !app_assoc. reflexivity. }
    rewrite EBT.
    assert (starts_with [47] T = true) as HT by (rewrite ET; reflexivity).
    rewrite (wqf_noauth_eq hp hpo ovr sch T (cbb_rest rem') HT). cbv zeta.
    destruct (pqf_total' STNotSpecial (nlen sch) (noauth_pre sch T) (cbb_rest rem') (cbb_rest_head rem'))
      as [K|[[[s2 qs] fs] K]]; rewrite K; cbn [pbind]; discriminate.
Qed.

(* specification side *)
Theorem spec_noauth input sch rem rem' :
  parse_scheme CUrlParser (input_new_trim_c0 input) = Some (sch, rem) ->
  scheme_type_of sch = STNotSpecial ->
  ntnl rem = 47 :: ntnl rem' -> starts_with_cp 47 (ntnl rem') = false ->
  snd (spath (ntnl rem') [] []) = ntnl (cbb_rest rem') ->
  spec_basic_url_parse shp input None
  = BDone (spec_noauth_url sch (PATH rem') (pqf_q STNotSpecial (cbb_rest rem')) (pqf_f (cbb_rest rem'))).
Proof.
  intros Hs Hns Hrem H47 Hsnd. apply spec_parse_of_runs. rewrite spec_clean_is_ntnl_trim.
  set (inp := ntnl (input_new_trim_c0 input)).
  pose proof (scheme_state_some _ _ _ Hs) as Hss. fold inp in Hss. rewrite Hrem in Hss.
  assert (is_special_scheme sch = false) as Hnsp.
  { rewrite <- special_schemes_are_the_standards, Hns. reflexivity. }
  assert (list_eqb sch str_file = false) as Hnf.
  { destruct (list_eqb sch str_file) eqn:E; [|reflexivity]. apply list_eqb_spec in E. subst sch. discriminate. }
  set (RES := BDone (spec_noauth_url sch (PATH rem') (pqf_q STNotSpecial (cbb_rest rem')) (pqf_f (cbb_rest rem')))).
  destruct (runs_scheme shp inp None sch (47 :: ntnl rem') RES Hss) as (pre & Hin & K).
  apply K. clear K.
  apply (runs_scheme_colon_slash shp inp None pre sch (ntnl rem') RES Hin Hnsp).
  assert (inp = (pre ++ [58; 47]) ++ ntnl rem') as Hin2 by (rewrite Hin, <- app_assoc; reflexivity).
  apply (runs_path_or_authority shp inp None (pre ++ [58; 47]) (ntnl rem') false false false _ RES Hin2 H47).
  pose proof (runs_path shp inp None (ntnl rem') (pre ++ [58; 47]) [] false false false
                (set_scheme empty_url sch) [] Hin2 eq_refl) as HR.
  unfold RES.
  replace (spec_noauth_url sch (PATH rem') (pqf_q STNotSpecial (cbb_rest rem')) (pqf_f (cbb_rest rem')))
    with (tail_url (set_path (set_scheme empty_url sch) (SPList (PATH rem'))) (snd (spath (ntnl rem') [] []))).
  - apply HR; [unfold is_special; cbn [su_scheme set_scheme empty_url]; exact Hnsp | exact Hnf].
  - rewrite Hsnd. rewrite tail_url_ns; [reflexivity | | reflexivity | reflexivity | apply cbb_rest_head].
    unfold is_special. cbn [su_scheme set_path set_scheme empty_url]. exact Hnsp.
Qed.

End NoAuthClass.

(* ================= the results are related bases ================= *)
Section NoAuthRelated.
Variable dbg : bool.
Variable shs : spec_host -> list N.

Theorem related_noauth sch P q f :
  let T := flat_map (fun s => 47 :: s) P in
  P <> [] -> forallb no_slash P = true -> wf_b (noauth_url sch T q f) = true ->
  related dbg shs (noauth_url sch T q f) (spec_noauth_url sch P q f).
Proof.
  intros T Hne Hns W.
  set (M := marker_of T). set (A := sch ++ [58]).
  assert (M = match P with p0 :: _ :: _ => if list_eqb p0 [] then [47; 46] else [] | _ => [] end) as EM
    by (apply marker_flat; assumption).
  assert (starts_with [47] T = true) as HT.
  { unfold T. destruct P as [|p0 R]; [contradiction|]. reflexivity. }
  constructor.
  - exact W.
  - apply api_noauth; assumption.
  - unfold b_before_fragment, noauth_url, serialize_url, spec_noauth_url, noauth_ser, noauth_pre.
    cbn [fragment_start ser su_scheme su_username su_password su_host su_port su_path su_query su_fragment serialize_path].
    fold T M A. rewrite <- EM. rewrite app_nil_r. unfold qf_text.
    destruct f as [y|]; cbn [qf_fs qf_ftext].
    + replace (nlen (A ++ M ++ T) + nlen (qf_qtext q)) with (nlen ((A ++ M ++ T) ++ qf_qtext q)) by apply nlen_app.
      replace ((A ++ M ++ T) ++ qf_qtext q ++ 35 :: y) with (((A ++ M ++ T) ++ qf_qtext q) ++ 35 :: y)
        by (rewrite <- !app_assoc; reflexivity).
      rewrite nfirstn_app_len. unfold A. rewrite <- !app_assoc. destruct q; reflexivity.
    + rewrite app_nil_r. unfold A. rewrite <- !app_assoc. destruct q; reflexivity.
  - unfold b_before_query, noauth_url, serialize_url, spec_noauth_url, noauth_ser, noauth_pre.
    cbn [query_start fragment_start ser su_scheme su_username su_password su_host su_port su_path su_query
         su_fragment serialize_path set_query].
    fold T M A. rewrite <- EM. rewrite !app_nil_r. unfold qf_text.
    destruct q as [x|]; destruct f as [y|]; cbn [qf_qs qf_fs qf_qtext qf_ftext].
    + rewrite nfirstn_app_len. unfold A. rewrite <- !app_assoc. reflexivity.
    + rewrite nfirstn_app_len. unfold A. rewrite <- !app_assoc. reflexivity.
    + cbn [app]. replace (nlen (A ++ M ++ T) + nlen (@nil N)) with (nlen (A ++ M ++ T)) by (unfold nlen at 3; cbn [length]; lia).
      rewrite nfirstn_app_len. unfold A. rewrite <- !app_assoc. reflexivity.
    + cbn [app]. rewrite app_nil_r. unfold A. rewrite <- !app_assoc. reflexivity.
  - rewrite (cannot_be_a_base_eval _ W). cbn [has_opaque_path su_path spec_noauth_url]. do 2 f_equal.
    unfold noauth_url, noauth_ser, noauth_pre. cbn [ser scheme_end]. fold T M A.
    replace (nlen sch + 1) with (nlen A) by (unfold A; rewrite nlen_app; reflexivity).
    rewrite <- !app_assoc.
    assert (exists X, M ++ T ++ qf_text q f = 47 :: X) as [X EX].
    { unfold M, marker_of. destruct (starts_with s_ss T); [eexists; reflexivity|].
      destruct T as [|t0 T']; [discriminate|]. cbn [starts_with] in HT. rewrite andb_true_r in HT.
      apply N.eqb_eq in HT. subst t0. eexists. reflexivity. }
    rewrite EX. rewrite byte_eqb_app. reflexivity.
  - unfold b_scheme, noauth_url, noauth_ser, noauth_pre. cbn [scheme_end ser]. rewrite <- !app_assoc.
    apply nfirstn_app_len.
  - split; [intros H; discriminate H | intros _; cbn; repeat split; reflexivity].
Qed.

End NoAuthRelated.
