(* Proofs/C08_StdFileSlash.v - the Standard-side reading of containment for FILE bases, the references that
   C08_StdFile.v leaves out: the empty reference, '?'-led and '#'-led references (the Standard's file state copies host,
   path, query of the base) and references with exactly ONE leading '/' or '\' whose next character is not '/' or '\'
   (the Standard's file slash state, "otherwise" arm: host of the base, and the first segment of the base path when it
   is a normalized Windows drive letter and the text behind the separator does not start with a drive letter).
   On the transcription Spec/Whatwg.v: the Standard succeeds and scheme, username, password, host, port of its result
   are the base's (std_contain_file_simple, std_contain_file_one; all four reference shapes together:
   std_contain_file_all).  The side conditions are computable predicates on the cleaned reference text.  NOTE that the
   one-slash arm has NO drive-letter exclusion on the Standard's side: "/C:/x" against file://h/p keeps the host h in
   the Standard, while parser.rs drops it (F-C01-1 / F-C08-1, C08_1_refuted).
   With C01's class theorems C01_EqFileOne.class_file_rel_one / class_file_rel_one_carry the crate's join answers
   Overflow or a record related to the Standard's result, a full_base pair again, with the base's front API strings
   (std_contain_file_one_agree). *)
From RU Require Import Base.Prelude Base.Utf8 Model.AsciiSet Gen.Tables Model.PercentEncoding Model.HostT Model.UrlRecord
  Model.Parser Model.WF Model.KnownC08 Model.KnownC01 Spec.Whatwg Proofs.ListN
  Proofs.C01_EqRun Proofs.C01_EqRef Proofs.C01_EqApi Proofs.C01_EqRel Proofs.C01_EqRelArms Proofs.C01_EqAsm
  Proofs.C01_EqShape Proofs.C01_EqSpSpec Proofs.C01_EqFileSpec Proofs.C01_EqFileBase Proofs.C01_EqFileOne
  Proofs.C08_Std Proofs.C08_StdFile.
Open Scope N_scope.
Open Scope list_scope.

(* ---------- the premises, decided on the cleaned reference ---------- *)
(* empty, or first character '?' or '#' *)
Definition std_file_simple_pre (l : list N) : bool :=
  match l with [] => true | c :: _ => (c =? 63) || (c =? 35) end.
(* exactly one leading '/' or '\': the next character (if any) is neither *)
Definition std_file_one_pre (l : list N) : bool :=
  match l with c1 :: R1 => is_sl c1 && no_sl_head R1 | [] => false end.
(* every scheme-less reference shape that is proved to keep the front of a file base *)
Definition std_file_all_pre (sb : spec_url) (l : list N) : bool :=
  std_file_simple_pre l || std_file_one_pre l
  || (std_file_rel_pre l && last_not_nwdl (path_segments sb)).

Section StdFS.
Variable shp : bool -> list N -> option spec_host.

(* (1) the empty reference, '?q', '#f': the file state copies host, path (and query) of the base.  No hypothesis on the
   scheme is needed (for a file base this is the Standard's file state, otherwise the relative state); beside the
   front, the path of the result is the base's *)
Theorem std_contain_file_simple input sb : spec_valid sb -> has_opaque_path sb = false ->
  std_file_simple_pre (spec_clean input) = true ->
  exists su, spec_basic_url_parse shp input (Some sb) = BDone su /\ spec_same_front sb su /\ su_path su = su_path sb.
Proof.
  intros V Hop Hpre. unfold std_file_simple_pre in Hpre.
  destruct (std_simple shp input sb V) as (He & Hf & Hq).
  destruct (spec_clean input) as [|c t] eqn:Ecl.
  { eexists. split; [exact (He eq_refl Hop)|]. split; [repeat split | reflexivity]. }
  destruct (c =? 35) eqn:E35.
  { apply N.eqb_eq in E35. subst c. eexists. split; [exact (Hf t eq_refl)|]. split; [repeat split | reflexivity]. }
  rewrite orb_false_r in Hpre. apply N.eqb_eq in Hpre. subst c.
  eexists. split; [exact (Hq t eq_refl Hop)|]. split; [repeat split | reflexivity].
Qed.

(* (2) one leading '/' or '\': the file slash state keeps the host of the base; closed form of the result with the
   segment list one_init sb R1 handed to the path state (the normalized drive letter of the base carried over) *)
Theorem std_contain_file_one input sb : spec_valid sb -> has_opaque_path sb = false ->
  list_eqb (su_scheme sb) str_file = true -> std_file_one_pre (spec_clean input) = true ->
  exists su, spec_basic_url_parse shp input (Some sb) = BDone su /\ spec_same_front sb su
    /\ su = file_tail (fkeep sb (one_init sb (tl (spec_clean input))))
                      (spath_f (tl (spec_clean input)) (one_init sb (tl (spec_clean input))) []).
Proof.
  intros V Hop Hf Hpre. unfold std_file_one_pre in Hpre.
  destruct (spec_clean input) as [|c1 R1] eqn:Ecl; [discriminate Hpre|].
  apply andb_true_iff in Hpre. destruct Hpre as [E1 Hh]. cbn [tl].
  eexists. split; [exact (spec_file_rel_one shp sb input c1 R1 Ecl E1 Hh Hop Hf)|].
  split; [|reflexivity].
  apply file_tail_front; [apply list_eqb_spec; exact Hf | exact V].
Qed.

(* (1) + (2) + C08_StdFile.std_contain_file: every proved reference shape against a file base *)
Theorem std_contain_file_all input sb : spec_valid sb -> has_opaque_path sb = false ->
  list_eqb (su_scheme sb) str_file = true -> std_file_all_pre sb (spec_clean input) = true ->
  exists su, spec_basic_url_parse shp input (Some sb) = BDone su /\ spec_same_front sb su.
Proof.
  intros V Hop Hf Hpre. unfold std_file_all_pre in Hpre.
  apply orb_true_iff in Hpre. destruct Hpre as [Hpre|Hpre]; [apply orb_true_iff in Hpre; destruct Hpre as [Hpre|Hpre]|].
  - destruct (std_contain_file_simple input sb V Hop Hpre) as (su & HS & HF & _). exists su. split; assumption.
  - destruct (std_contain_file_one input sb V Hop Hf Hpre) as (su & HS & HF & _). exists su. split; assumption.
  - apply andb_true_iff in Hpre. destruct Hpre as [Hrel Hlast].
    exact (std_contain_file shp input sb V Hop Hf Hlast Hrel).
Qed.

End StdFS.

(* the one-slash premise excludes a scheme and the other shapes: the three premises are pairwise disjoint *)
Lemma std_file_pre_disjoint l :
  (std_file_simple_pre l && std_file_one_pre l = false)
  /\ (std_file_simple_pre l && std_file_rel_pre l = false)
  /\ (std_file_one_pre l && std_file_rel_pre l = false).
Proof.
  unfold std_file_simple_pre, std_file_one_pre, std_file_rel_pre.
  destruct l as [|c t]; [rewrite andb_false_r; repeat split|].
  destruct (c =? 63) eqn:E63; destruct (c =? 35) eqn:E35; destruct (is_sl c) eqn:Esl; cbn [orb andb negb];
    rewrite ?andb_false_r; repeat split; try reflexivity;
    unfold is_sl in Esl; apply N.eqb_eq in E63 || apply N.eqb_eq in E35; subst c; discriminate Esl.
Qed.

(* ---------- path-relative references against ANY file base (the drive-letter bases included) ---------- *)
(* C01_EqFileBase.runs_file_rel_path with the Standard's "shorten" in general form: shorten_f keeps a path that is a
   single normalized drive letter, otherwise drops the last segment *)
Section SpecFileRelAny.
Variable shp : bool -> list N -> option spec_host.
Variable inp : list N.
Variable sb : spec_url.
Hypothesis Hop : has_opaque_path sb = false.
Hypothesis Hf : list_eqb (su_scheme sb) str_file = true.

Theorem runs_file_rel_path_any c t : inp = c :: t -> spec_scheme inp = None ->
  is_sl c = false -> (c =? 63) = false -> (c =? 35) = false ->
  starts_with_windows_drive_letter inp = false ->
  Runs shp inp (Some sb) m0 (BDone (file_tail (fkeep sb (shorten_f (path_segments sb)))
                                            (spath_f inp (shorten_f (path_segments sb)) []))).
Proof.
  intros Hin Hs Esl E63 E35 Hw.
  assert (inp = [] ++ inp) as Hin0 by reflexivity.
  assert (inp <> []) as Hne by (rewrite Hin; discriminate).
  assert (su_path sb = SPList (path_segments sb)) as HP.
  { unfold path_segments. unfold has_opaque_path in Hop. destruct (su_path sb); [discriminate Hop | reflexivity]. }
  unfold is_sl in Esl. apply orb_false_iff in Esl. destruct Esl as [E47 E92].
  apply runs_no_scheme; [exact Hs|].
  eapply (runs_step_stay shp inp (Some sb) StNoScheme [] inp) with (st' := StFile) (buf' := []);
    [reflexivity | exact Hne | |].
  { rewrite (step_unfold shp inp (Some sb) _ [] inp) by reflexivity. cbn zeta.
    unfold st_no_scheme. rewrite Hop, Hf. cbn [andb negb]. reflexivity. }
  eapply (runs_step_stay shp inp (Some sb) StFile [] inp) with (st' := StPath) (buf' := [])
    (u' := fkeep sb (shorten_f (path_segments sb))); [reflexivity | exact Hne | |].
  - rewrite (step_unfold shp inp (Some sb) _ [] inp) by reflexivity. cbn zeta. rewrite Hin. cbn [hd_error tl].
    unfold st_file, base_is_file. rewrite Hf. cbn [cis]. rewrite E47, E92, E63, E35. cbn [orb].
    rewrite <- Hin, Hw. cbn [negb].
    unfold shorten_path.
    cbn [su_path su_scheme set_query set_path set_port set_host set_password set_username set_scheme empty_url m_url at_pos].
    rewrite HP.
    replace (list_eqb str_file str_file) with true by reflexivity. cbn [andb].
    unfold shorten_f.
    destruct (path_segments sb) as [|p0 [|p1 P']] eqn:EP.
    + reflexivity.
    + destruct (is_normalized_windows_drive_letter p0); reflexivity.
    + reflexivity.
  - exact (runs_path_f shp inp (Some sb) inp [] [] false false false (fkeep sb (shorten_f (path_segments sb)))
             (shorten_f (path_segments sb)) Hin0 eq_refl eq_refl).
Qed.
End SpecFileRelAny.

Section StdFS2.
Variable shp : bool -> list N -> option spec_host.

(* C08_StdFile.std_contain_file without its premise on the last segment of the base path *)
Theorem std_contain_file_rel_any input sb : spec_valid sb -> has_opaque_path sb = false ->
  list_eqb (su_scheme sb) str_file = true -> std_file_rel_pre (spec_clean input) = true ->
  exists su, spec_basic_url_parse shp input (Some sb) = BDone su /\ spec_same_front sb su
    /\ su = file_tail (fkeep sb (shorten_f (path_segments sb)))
                      (spath_f (spec_clean input) (shorten_f (path_segments sb)) []).
Proof.
  intros V Hop Hf Hpre. unfold std_file_rel_pre in Hpre. apply andb_true_iff in Hpre. destruct Hpre as [Hsch Hc].
  assert (spec_scheme (spec_clean input) = None) as Hs by (destruct (spec_scheme (spec_clean input)); [discriminate | reflexivity]).
  destruct (spec_clean input) as [|c t] eqn:Ecl; [discriminate Hc|].
  apply andb_true_iff in Hc. destruct Hc as [Hc Hw]. apply andb_true_iff in Hc. destruct Hc as [Hc E35].
  apply andb_true_iff in Hc. destruct Hc as [Esl E63]. apply negb_true_iff in Esl, E63, E35, Hw.
  eexists. split; [|split; [|reflexivity]].
  - apply spec_parse_of_runs. rewrite Ecl.
    exact (runs_file_rel_path_any shp (c :: t) sb Hop Hf c t eq_refl Hs Esl E63 E35 Hw).
  - apply file_tail_front; [apply list_eqb_spec; exact Hf | exact V].
Qed.

(* the three reference shapes with no premise on the base path *)
Definition std_file_any_pre (l : list N) : bool :=
  std_file_simple_pre l || std_file_one_pre l || std_file_rel_pre l.

Theorem std_contain_file_any input sb : spec_valid sb -> has_opaque_path sb = false ->
  list_eqb (su_scheme sb) str_file = true -> std_file_any_pre (spec_clean input) = true ->
  exists su, spec_basic_url_parse shp input (Some sb) = BDone su /\ spec_same_front sb su.
Proof.
  intros V Hop Hf Hpre. unfold std_file_any_pre in Hpre.
  apply orb_true_iff in Hpre. destruct Hpre as [Hpre|Hpre]; [apply orb_true_iff in Hpre; destruct Hpre as [Hpre|Hpre]|].
  - destruct (std_contain_file_simple shp input sb V Hop Hpre) as (su & HS & HF & _). exists su. split; assumption.
  - destruct (std_contain_file_one shp input sb V Hop Hf Hpre) as (su & HS & HF & _). exists su. split; assumption.
  - destruct (std_contain_file_rel_any input sb V Hop Hf Hpre) as (su & HS & HF & _). exists su. split; assumption.
Qed.
End StdFS2.

(* ---------- the full Standard-side containment law for file bases, and for every base ---------- *)
Section StdFS3.
Variable shp : bool -> list N -> option spec_host.

(* a scheme-less reference that starts with a Windows drive letter ("C|/y"): the file state takes the host of the base
   and the EMPTY path *)
Theorem std_contain_file_drive input sb : spec_valid sb -> has_opaque_path sb = false ->
  list_eqb (su_scheme sb) str_file = true -> spec_scheme (spec_clean input) = None ->
  starts_with_windows_drive_letter (spec_clean input) = true ->
  exists su, spec_basic_url_parse shp input (Some sb) = BDone su /\ spec_same_front sb su
    /\ su = file_tail (fkeep sb []) (spath_f (spec_clean input) [] []).
Proof.
  intros V Hop Hf Hs Hw.
  destruct (spec_clean input) as [|c t] eqn:Ecl; [discriminate Hw|].
  eexists. split; [exact (spec_file_rel_drive shp sb input c t Ecl Hs Hw Hop Hf)|]. split; [|reflexivity].
  apply file_tail_front; [apply list_eqb_spec; exact Hf | exact V].
Qed.

(* file bases: the premise of C08_Std.std_contain (no scheme, no two leading slash characters, '\' counting) is enough *)
Theorem std_contain_file_full input sb : spec_valid sb -> has_opaque_path sb = false ->
  list_eqb (su_scheme sb) str_file = true -> std_contain_pre sb (spec_clean input) = true ->
  exists su, spec_basic_url_parse shp input (Some sb) = BDone su /\ spec_same_front sb su.
Proof.
  intros V Hop Hf Hpre. unfold std_contain_pre in Hpre. apply andb_true_iff in Hpre. destruct Hpre as [H1 H2].
  apply negb_true_iff in H1. apply negb_true_iff in H2.
  pose proof (no_scheme_std input H1) as Hs.
  pose proof Hf as Hsf. apply list_eqb_spec in Hsf. rewrite Hsf in H2. change (is_special_scheme str_file) with true in H2.
  destruct (std_file_simple_pre (spec_clean input)) eqn:Esimple.
  { destruct (std_contain_file_simple shp input sb V Hop Esimple) as (su & HS & HF & _). exists su. split; assumption. }
  destruct (std_file_one_pre (spec_clean input)) eqn:Eone.
  { destruct (std_contain_file_one shp input sb V Hop Hf Eone) as (su & HS & HF & _). exists su. split; assumption. }
  destruct (starts_with_windows_drive_letter (spec_clean input)) eqn:Hw.
  { destruct (std_contain_file_drive input sb V Hop Hf Hs Hw) as (su & HS & HF & _). exists su. split; assumption. }
  assert (std_file_rel_pre (spec_clean input) = true) as Hrel.
  { unfold std_file_rel_pre. rewrite Hs, Hw. cbn [andb negb].
    unfold std_file_simple_pre in Esimple. unfold std_file_one_pre in Eone.
    destruct (spec_clean input) as [|c t]; [discriminate Esimple|].
    apply orb_false_iff in Esimple. destruct Esimple as [E63 E35]. rewrite E63, E35. cbn [negb]. rewrite !andb_true_r.
    destruct (is_sl c) eqn:Esl; [|reflexivity]. exfalso.
    cbn [andb] in Eone. destruct t as [|c2 r]; [discriminate Eone|]. cbn [no_sl_head] in Eone. apply negb_false_iff in Eone.
    cbn [two_leading_slashes] in H2. unfold is_ref_slash in H2. rewrite !andb_true_r in H2.
    unfold is_sl in Esl, Eone. rewrite Esl, Eone in H2. discriminate H2. }
  destruct (std_contain_file_rel_any shp input sb V Hop Hf Hrel) as (su & HS & HF & _). exists su. split; assumption.
Qed.

(* EVERY base record that is not opaque - file or not: C08_Std.std_contain without its premise on the scheme *)
Theorem std_contain_every input sb : spec_valid sb -> has_opaque_path sb = false ->
  std_contain_pre sb (spec_clean input) = true ->
  exists su, spec_basic_url_parse shp input (Some sb) = BDone su /\ spec_same_front sb su.
Proof.
  intros V Hop Hpre. destruct (list_eqb (su_scheme sb) str_file) eqn:Hf.
  - exact (std_contain_file_full input sb V Hop Hf Hpre).
  - exact (std_contain shp input sb V Hop Hf Hpre).
Qed.
End StdFS3.

(* ---------- the crate's join agrees on C01's one-slash classes ---------- *)
(* C01's classes for the scheme-less one-slash reference: in_class_file_rel_one (no drive letter carried: the text
   behind the separator does not start with a drive letter and the first segment of the base path is not a normalized
   drive letter, base with a host field - or the text starts with a drive letter and the base has the EMPTY host) and
   in_class_file_rel_one_carry (base with the empty host whose first path segment is a normalized drive letter: both
   sides carry it over); the path loop inside fpath_ok / strip_stable in both *)
Definition in_class_file_one_any (sb : spec_url) (input : list N) : bool :=
  in_class_file_rel_one sb input || in_class_file_rel_one_carry sb input.

Lemma in_class_file_one_pre sb input : in_class_file_one_any sb input = true ->
  has_opaque_path sb = false /\ list_eqb (su_scheme sb) str_file = true /\ std_file_one_pre (spec_clean input) = true.
Proof.
  unfold in_class_file_one_any, in_class_file_rel_one, in_class_file_rel_one_carry, file_one_ok, file_one_carry_ok,
    std_file_one_pre.
  intros H. apply orb_true_iff in H. destruct H as [H|H].
  - apply andb_true_iff in H. destruct H as [H Hok]. apply andb_true_iff in H. destruct H as [Hop Hf].
    apply negb_true_iff in Hop. split; [exact Hop|]. split; [exact Hf|].
    destruct (spec_clean input) as [|c1 R1]; [discriminate Hok|].
    apply andb_true_iff in Hok. destruct Hok as [Hok _]. apply andb_true_iff in Hok. destruct Hok as [Hok _]. exact Hok.
  - apply andb_true_iff in H. destruct H as [H Hok]. apply andb_true_iff in H. destruct H as [H _].
    apply andb_true_iff in H. destruct H as [H _]. apply andb_true_iff in H. destruct H as [Hop Hf].
    apply negb_true_iff in Hop. split; [exact Hop|]. split; [exact Hf|].
    destruct (spec_clean input) as [|c1 R1]; [discriminate Hok|].
    apply andb_true_iff in Hok. destruct Hok as [Hok _]. apply andb_true_iff in Hok. destruct Hok as [Hok _].
    apply andb_true_iff in Hok. destruct Hok as [Hok _]. exact Hok.
Qed.

Section AgreeFileOne.
Variable dbg : bool.
Variable hp hpo : list N -> result host.
Variable hd : host -> list N.
Variable shp : bool -> list N -> option spec_host.
Variable shs : spec_host -> list N.
Hypothesis Hse : shs SEmpty = [].

Theorem std_contain_file_one_agree b sb input : usv_list input -> related dbg shs b sb -> spec_base_ok sb = true ->
  in_class_file_one_any sb input = true ->
  exists su, spec_basic_url_parse shp input (Some sb) = BDone su /\ spec_same_front sb su
    /\ ((parse_url dbg hp hpo hd None (Some b) input = PErr Overflow /\ U32_MAX_P < nlen (get_href shs su))
        \/ exists u', parse_url dbg hp hpo hd None (Some b) input = POk u' /\ related dbg shs u' su
                      /\ full_base dbg shs u' su
                      /\ option_map api_front (api_of_model dbg u') = option_map api_front (api_of_model dbg b)).
Proof.
  intros Hu R Hbok Hc.
  destruct (in_class_file_one_pre sb input Hc) as (Hop & Hf & Hpre).
  destruct (std_contain_file_one shp input sb (rel_valid _ _ _ _ R) Hop Hf Hpre) as (su & HS & HF & _).
  exists su. split; [exact HS|]. split; [exact HF|].
  assert (agree_good dbg shs (parse_url dbg hp hpo hd None (Some b) input) (spec_basic_url_parse shp input (Some sb))
          /\ (forall su u, spec_basic_url_parse shp input (Some sb) = BDone su ->
                parse_url dbg hp hpo hd None (Some b) input = POk u -> full_base dbg shs u su)) as [A FB].
  { unfold in_class_file_one_any in Hc. apply orb_true_iff in Hc. destruct Hc as [Hc|Hc].
    - exact (class_file_rel_one dbg hp hpo hd shp shs Hse input b sb Hu R Hbok Hc).
    - exact (class_file_rel_one_carry dbg hp hpo hd shp shs Hse input b sb Hu R Hc). }
  rewrite HS in A. cbn [agree_good] in A. destruct A as [_ [[E L]|(u' & E & Ru)]]; [left; split; assumption|].
  right. exists u'. split; [exact E|]. split; [exact Ru|]. split; [exact (FB su u' HS E)|].
  rewrite (rel_api _ _ _ _ Ru), (rel_api _ _ _ _ R). cbn [option_map]. rewrite (spec_front_api shs sb su HF). reflexivity.
Qed.
End AgreeFileOne.

(* ---------- transfer: wherever the crate agrees with the Standard, the crate's join is contained ---------- *)
Section Transfer.
Variable dbg : bool.
Variable hp hpo : list N -> result host.
Variable hd : host -> list N.
Variable shp : bool -> list N -> option spec_host.
Variable shs : spec_host -> list N.

(* for ANY related pair of base records (file or not) and ANY reference meeting the Standard-side premise on which the
   model's answer agrees with the Standard's (agree_good: the conclusion of every class theorem of C01): the Standard
   succeeds keeping the front, and the model answers Overflow or a related record whose six front API strings are the
   base's *)
Theorem std_contain_transfer b sb input : related dbg shs b sb -> has_opaque_path sb = false ->
  std_contain_pre sb (spec_clean input) = true ->
  agree_good dbg shs (parse_url dbg hp hpo hd None (Some b) input) (spec_basic_url_parse shp input (Some sb)) ->
  exists su, spec_basic_url_parse shp input (Some sb) = BDone su /\ spec_same_front sb su /\ spec_base_ok su = true
    /\ ((parse_url dbg hp hpo hd None (Some b) input = PErr Overflow /\ U32_MAX_P < nlen (get_href shs su))
        \/ exists u', parse_url dbg hp hpo hd None (Some b) input = POk u' /\ related dbg shs u' su
                      /\ option_map api_front (api_of_model dbg u') = option_map api_front (api_of_model dbg b)).
Proof.
  intros R Hop Hpre A.
  destruct (std_contain_every shp input sb (rel_valid _ _ _ _ R) Hop Hpre) as (su & HS & HF).
  exists su. split; [exact HS|]. split; [exact HF|].
  rewrite HS in A. cbn [agree_good] in A. destruct A as [Hbo [[E L]|(u' & E & Ru)]].
  - split; [exact Hbo|]. left. split; assumption.
  - split; [exact Hbo|]. right. exists u'. split; [exact E|]. split; [exact Ru|].
    rewrite (rel_api _ _ _ _ Ru), (rel_api _ _ _ _ R). cbn [option_map]. rewrite (spec_front_api shs sb su HF). reflexivity.
Qed.

(* instance: the scheme-less drive-letter reference ("C|/y") against a file base with the EMPTY host (C01's class
   in_class_file_rel_drive) *)
Hypothesis Hse : shs SEmpty = [].

Lemma in_class_file_rel_drive_pre sb input : in_class_file_rel_drive sb input = true ->
  has_opaque_path sb = false /\ list_eqb (su_scheme sb) str_file = true
  /\ spec_scheme (spec_clean input) = None /\ starts_with_windows_drive_letter (spec_clean input) = true.
Proof.
  unfold in_class_file_rel_drive. intros Hc.
  destruct (spec_scheme (spec_clean input)) as [?|] eqn:Es; [discriminate Hc|].
  destruct (file_drive_ok_facts sb _ Hc) as (Hop & Hf & _ & Hw & _). repeat split; assumption.
Qed.

Theorem std_contain_file_drive_agree b sb input : usv_list input -> related dbg shs b sb ->
  in_class_file_rel_drive sb input = true ->
  exists su, spec_basic_url_parse shp input (Some sb) = BDone su /\ spec_same_front sb su
    /\ ((parse_url dbg hp hpo hd None (Some b) input = PErr Overflow /\ U32_MAX_P < nlen (get_href shs su))
        \/ exists u', parse_url dbg hp hpo hd None (Some b) input = POk u' /\ related dbg shs u' su
                      /\ full_base dbg shs u' su
                      /\ option_map api_front (api_of_model dbg u') = option_map api_front (api_of_model dbg b)).
Proof.
  intros Hu R Hc.
  destruct (in_class_file_rel_drive_pre sb input Hc) as (Hop & Hf & Hs & Hw).
  destruct (std_contain_file_drive shp input sb (rel_valid _ _ _ _ R) Hop Hf Hs Hw) as (su & HS & HF & _).
  exists su. split; [exact HS|]. split; [exact HF|].
  destruct (class_file_rel_drive dbg hp hpo hd shp shs Hse input b sb Hu R Hc) as [A FB].
  rewrite HS in A. cbn [agree_good] in A. destruct A as [_ [[E L]|(u' & E & Ru)]]; [left; split; assumption|].
  right. exists u'. split; [exact E|]. split; [exact Ru|]. split; [exact (FB su u' HS E)|].
  rewrite (rel_api _ _ _ _ Ru), (rel_api _ _ _ _ R). cbn [option_map]. rewrite (spec_front_api shs sb su HF). reflexivity.
Qed.
End Transfer.

(* ---------- non-vacuity ---------- *)
From RU Require Import Model.Host Proofs.C09_Host Spec.WhatwgHostParse.
(* the Standard side alone: base = the Standard's parse result of `base`; every reference meets std_file_all_pre
   through the named premise, the Standard succeeds, scheme / hostname / port text of the result are the base's *)
Definition std_fs_case (base : list N) (refs : list (list N)) : bool :=
  let idna := ex_idna_clean in
  match spec_basic_url_parse (spec_host_parser idna) base None with
  | BDone sb =>
      negb (has_opaque_path sb) && list_eqb (su_scheme sb) str_file
      && forallb (fun r =>
           (std_file_simple_pre (spec_clean r) || std_file_one_pre (spec_clean r))
           && std_file_all_pre sb (spec_clean r)
           && match spec_basic_url_parse (spec_host_parser idna) r (Some sb) with
              | BDone su =>
                  list_eqb (su_scheme su) (su_scheme sb)
                  && list_eqb (get_hostname spec_host_serializer su) (get_hostname spec_host_serializer sb)
                  && list_eqb (get_host spec_host_serializer su) (get_host spec_host_serializer sb)
                  && list_eqb (get_port su) (get_port sb)
              | _ => false
              end) refs
  | _ => false
  end.

(* with the crate: base on both sides, references in C01's one-slash classes; both succeed, the Standard's href is the
   model's serialization and equals the expected text *)
Definition std_fs_agree_case (base : list N) (refs : list (list N * list N)) : bool :=
  let idna := ex_idna_clean in
  match parse_url true (host_parse idna) host_parse_opaque host_display None None base,
        spec_basic_url_parse (spec_host_parser idna) base None with
  | POk b, BDone sb =>
      spec_base_ok sb
      && forallb (fun re =>
           in_class_file_one_any sb (fst re)
           && match spec_basic_url_parse (spec_host_parser idna) (fst re) (Some sb),
                    parse_url true (host_parse idna) host_parse_opaque host_display None (Some b) (fst re) with
              | BDone su, POk u' =>
                  list_eqb (get_hostname spec_host_serializer su) (get_hostname spec_host_serializer sb)
                  && list_eqb (get_href spec_host_serializer su) (ser u')
                  && list_eqb (ser u') (snd re)
              | _, _ => false
              end) refs
  | _, _ => false
  end.

From Coq Require Import String.
From RU Require Import Proofs.C02_Reach.
Open Scope string_scope.
Lemma std_contain_file_slash_inhabited :
  std_fs_case (B "file://h.x/tmp/d?q") [B ""; B "?x"; B "#f"; B "/p"; B "\p"; B "/C:/x"; B " /a/../b?k#g"] = true
  /\ std_fs_case (B "file:///C:/tmp/d?q") [B ""; B "?x"; B "#f"; B "/p"; B "\p"] = true
  /\ std_fs_agree_case (B "file://h.x/tmp/d?q")
       [(B "/p", B "file://h.x/p"); (B "\p", B "file://h.x/p"); (B "/a/../b?k#g", B "file://h.x/b?k#g")] = true
  /\ std_fs_agree_case (B "file:///C:/tmp/d?q") [(B "/p", B "file:///C:/p"); (B "/", B "file:///C:/")] = true.
Proof. vm_compute. repeat split. Qed.

(* any file base: every reference meets std_file_any_pre, the Standard succeeds, keeps scheme / host / port and gives the
   expected href *)
Definition std_fs_any_case (base : list N) (refs : list (list N * list N)) : bool :=
  let idna := ex_idna_clean in
  match spec_basic_url_parse (spec_host_parser idna) base None with
  | BDone sb =>
      negb (has_opaque_path sb) && list_eqb (su_scheme sb) str_file
      && forallb (fun re =>
           std_file_any_pre (spec_clean (fst re))
           && match spec_basic_url_parse (spec_host_parser idna) (fst re) (Some sb) with
              | BDone su =>
                  list_eqb (su_scheme su) (su_scheme sb)
                  && list_eqb (get_host spec_host_serializer su) (get_host spec_host_serializer sb)
                  && list_eqb (get_port su) (get_port sb)
                  && list_eqb (get_href spec_host_serializer su) (snd re)
              | _ => false
              end) refs
  | _ => false
  end.

Lemma std_contain_file_any_inhabited :
  std_fs_any_case (B "file:///C:") [(B "x", B "file:///C:/x"); (B "../y?k", B "file:///C:/y?k"); (B "", B "file:///C:");
                                    (B "/p", B "file:///C:/p")] = true
  /\ std_fs_any_case (B "file://h.x/a/C:") [(B "x", B "file://h.x/a/x"); (B "..", B "file://h.x/"); (B "/D:/z", B "file://h.x/D:/z")] = true
  /\ std_fs_any_case (B "file://h.x/tmp/d?q") [(B "", B "file://h.x/tmp/d?q"); (B "?x", B "file://h.x/tmp/d?x");
       (B "#f", B "file://h.x/tmp/d?q#f"); (B "/p", B "file://h.x/p"); (B "\p", B "file://h.x/p"); (B "e/f", B "file://h.x/tmp/e/f")] = true.
Proof. vm_compute. repeat split. Qed.

(* the full law: every reference meets std_contain_pre against the Standard's parse result of the base, the Standard
   succeeds, keeps scheme / username / password / host / port texts and gives the expected href *)
Definition std_every_case (base : list N) (refs : list (list N * list N)) : bool :=
  let idna := ex_idna_clean in
  match spec_basic_url_parse (spec_host_parser idna) base None with
  | BDone sb =>
      negb (has_opaque_path sb)
      && forallb (fun re =>
           std_contain_pre sb (spec_clean (fst re))
           && match spec_basic_url_parse (spec_host_parser idna) (fst re) (Some sb) with
              | BDone su =>
                  list_eqb (su_scheme su) (su_scheme sb) && list_eqb (su_username su) (su_username sb)
                  && list_eqb (su_password su) (su_password sb)
                  && list_eqb (get_host spec_host_serializer su) (get_host spec_host_serializer sb)
                  && list_eqb (get_port su) (get_port sb)
                  && list_eqb (get_href spec_host_serializer su) (snd re)
              | _ => false
              end) refs
  | _ => false
  end.

Lemma std_contain_every_inhabited :
  std_every_case (B "file://h.x/tmp/d?q")
    [(B "", B "file://h.x/tmp/d?q"); (B "?x", B "file://h.x/tmp/d?x"); (B "#f", B "file://h.x/tmp/d?q#f");
     (B "/p", B "file://h.x/p"); (B "\p", B "file://h.x/p"); (B "e/f", B "file://h.x/tmp/e/f");
     (B "C|/y", B "file://h.x/C:/y"); (B "/C:/x", B "file://h.x/C:/x"); (B "/C|", B "file://h.x/C:")] = true
  /\ std_every_case (B "file:///C:/a/b") [(B "/p", B "file:///C:/p"); (B "/D|/p", B "file:///D:/p"); (B "..", B "file:///C:/");
       (B "../../..", B "file:///C:/"); (B "D|", B "file:///D:")] = true
  /\ std_every_case (B "https://u:p@h.x:8/a/b?q") [(B "/C:/x", B "https://u:p@h.x:8/C:/x"); (B "\z", B "https://u:p@h.x:8/z")] = true.
Proof. vm_compute. repeat split. Qed.

(* where the crate leaves the Standard (known finding F-C01-1 / F-C08-1, the drive-letter branches of parse_file): the
   reference meets the Standard-side premise, the Standard keeps the host of the base, the model of Url::join drops it *)
Definition std_file_diverge_case (base r std_href model_ser : list N) : bool :=
  let idna := ex_idna_clean in
  match parse_url true (host_parse idna) host_parse_opaque host_display None None base,
        spec_basic_url_parse (spec_host_parser idna) base None with
  | POk b, BDone sb =>
      std_contain_pre sb (spec_clean r)
      && match spec_basic_url_parse (spec_host_parser idna) r (Some sb),
               parse_url true (host_parse idna) host_parse_opaque host_display None (Some b) r with
         | BDone su, POk u' =>
             list_eqb (get_href spec_host_serializer su) std_href && list_eqb (ser u') model_ser
             && list_eqb (get_host spec_host_serializer su) (get_host spec_host_serializer sb)
             && negb (list_eqb std_href model_ser)
         | _, _ => false
         end
  | _, _ => false
  end.

Lemma std_file_drive_divergence :
  std_file_diverge_case (B "file://h.x/tmp/d") (B "C|/y") (B "file://h.x/C:/y") (B "file:///C:/y") = true
  /\ std_file_diverge_case (B "file://h.x/tmp/d") (B "/C:/x") (B "file://h.x/C:/x") (B "file:///C:/x") = true.
Proof. vm_compute. split; reflexivity. Qed.

(* the drive-letter class with the crate: base with the empty host on both sides, references in in_class_file_rel_drive;
   both succeed, the Standard's href is the model's serialization and equals the expected text, host text kept *)
Definition std_fs_drive_agree_case (base : list N) (refs : list (list N * list N)) : bool :=
  let idna := ex_idna_clean in
  match parse_url true (host_parse idna) host_parse_opaque host_display None None base,
        spec_basic_url_parse (spec_host_parser idna) base None with
  | POk b, BDone sb =>
      spec_base_ok sb
      && forallb (fun re =>
           in_class_file_rel_drive sb (fst re) && std_contain_pre sb (spec_clean (fst re))
           && match spec_basic_url_parse (spec_host_parser idna) (fst re) (Some sb),
                    parse_url true (host_parse idna) host_parse_opaque host_display None (Some b) (fst re) with
              | BDone su, POk u' =>
                  list_eqb (get_host spec_host_serializer su) (get_host spec_host_serializer sb)
                  && list_eqb (get_href spec_host_serializer su) (ser u')
                  && list_eqb (ser u') (snd re)
              | _, _ => false
              end) refs
  | _, _ => false
  end.

Lemma std_contain_file_drive_agree_inhabited :
  std_fs_drive_agree_case (B "file:///tmp/d?q") [(B "C|/y", B "file:///C:/y"); (B "d|", B "file:///d:"); (B " C|\z?k#g", B "file:///C:/z?k#g")] = true.
Proof. vm_compute. reflexivity. Qed.
