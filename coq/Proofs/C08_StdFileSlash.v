(* Proofs/C08_StdFileSlash.v - the Standard-side reading of containment for FILE bases, the references that
   C08_StdFile.v leaves out: the empty reference, '?'-led and '#'-led references (the Standard's file state copies host,
   path, query of the base) and references with exactly ONE leading '/' or '\' whose next character is not '/' or '\'
   (the Standard's file slash state, "otherwise" arm: host of the base, and the first segment of the base path when it
   is a normalized Windows drive letter and the text behind the separator does not start with a drive letter).
   On the transcription Spec/Whatwg.v: the Standard succeeds and scheme, username, password, host, port of its result
   are the base's (std_contain_file_simple, std_contain_file_one; all four reference shapes together:
   std_contain_file_all).  The side conditions are computable predicates on the cleaned reference text.  NOTE that the
   one-slash arm has NO drive-letter exclusion on the Standard's side: "/C:/x" against file://h/p keeps the host h in
   the Standard, while parser.rs drops it (F-C01-1 / F-C08-1, C08_1_refuted).
   With C01's class theorems C01_EqFileOne.class_file_rel_one / class_file_rel_one_carry the crate's join answers
   Overflow or a record related to the Standard's result, a full_base pair again, with the base's front API strings
   (std_contain_file_one_agree). *)
From RU Require Import Base.Prelude Base.Utf8 Model.AsciiSet Gen.Tables Model.PercentEncoding Model.HostT Model.UrlRecord
  Model.Parser Model.WF Model.KnownC08 Model.KnownC01 Spec.Whatwg Proofs.ListN
  Proofs.C01_EqRun Proofs.C01_EqRef Proofs.C01_EqApi Proofs.C01_EqRel Proofs.C01_EqRelArms Proofs.C01_EqAsm
  Proofs.C01_EqShape Proofs.C01_EqSpSpec Proofs.C01_EqFileSpec Proofs.C01_EqFileBase Proofs.C01_EqFileOne
  Proofs.C08_Std Proofs.C08_StdFile.
Open Scope N_scope.
Open Scope list_scope.

(* ---------- the premises, decided on the cleaned reference ---------- *)
(* empty, or first character '?' or '#' *)
Definition std_file_simple_pre (l : list N) : bool :=
  match l with [] => true | c :: _ => (c =? 63) || (c =? 35) end.
(* exactly one leading '/' or '\': the next character (if any) is neither *)
Definition std_file_one_pre (l : list N) : bool :=
  match l with c1 :: R1 => is_sl c1 && no_sl_head R1 | [] => false end.
(* every scheme-less reference shape that is proved to keep the front of a file base *)
Definition std_file_all_pre (sb : spec_url) (l : list N) : bool :=
  std_file_simple_pre l || std_file_one_pre l
  || (std_file_rel_pre l && last_not_nwdl (path_segments sb)).

Section StdFS.
Variable shp : bool -> list N -> option spec_host.

(* (1) the empty reference, '?q', '#f': the file state copies host, path (and query) of the base.  No hypothesis on the
   scheme is needed (for a file base this is the Standard's file state, otherwise the relative state); beside the
   front, the path of the result is the base's *)
Theorem std_contain_file_simple input sb : spec_valid sb -> has_opaque_path sb = false ->
  std_file_simple_pre (spec_clean input) = true ->
  exists su, spec_basic_url_parse shp input (Some sb) = BDone su /\ spec_same_front sb su /\ su_path su = su_path sb.
Proof.
  intros V Hop Hpre. unfold std_file_simple_pre in Hpre.
  destruct (std_simple shp input sb V) as (He & Hf & Hq).
  destruct (spec_clean input) as [|c t] eqn:Ecl.
  { eexists. split; [exact (He eq_refl Hop)|]. split; [repeat split | reflexivity]. }
  destruct (c =? 35) eqn:E35.
  { apply N.eqb_eq in E35. subst c. eexists. split; [exact (Hf t eq_refl)|]. split; [repeat split | reflexivity]. }
  rewrite orb_false_r in Hpre. apply N.eqb_eq in Hpre. subst c.
  eexists. split; [exact (Hq t eq_refl Hop)|]. split; [repeat split | reflexivity].
Qed.

(* (2) one leading '/' or '\': the file slash state keeps the host of the base; closed form of the result with the
   segment list one_init sb R1 handed to the path state (the normalized drive letter of the base carried over) *)
Theorem std_contain_file_one input sb : spec_valid sb -> has_opaque_path sb = false ->
  list_eqb (su_scheme sb) str_file = true -> std_file_one_pre (spec_clean input) = true ->
  exists su, spec_basic_url_parse shp input (Some sb) = BDone su /\ spec_same_front sb su
    /\ su = file_tail (fkeep sb (one_init sb (tl (spec_clean input))))
                      (spath_f (tl (spec_clean input)) (one_init sb (tl (spec_clean input))) []).
Proof.
  intros V Hop Hf Hpre. unfold std_file_one_pre in Hpre.
  destruct (spec_clean input) as [|c1 R1] eqn:Ecl; [discriminate Hpre|].
  apply andb_true_iff in Hpre. destruct Hpre as [E1 Hh]. cbn [tl].
  eexists. split; [exact (spec_file_rel_one shp sb input c1 R1 Ecl E1 Hh Hop Hf)|].
  split; [|reflexivity].
  apply file_tail_front; [apply list_eqb_spec; exact Hf | exact V].
Qed.

(* (1) + (2) + C08_StdFile.std_contain_file: every proved reference shape against a file base *)
Theorem std_contain_file_all input sb : spec_valid sb -> has_opaque_path sb = false ->
  list_eqb (su_scheme sb) str_file = true -> std_file_all_pre sb (spec_clean input) = true ->
  exists su, spec_basic_url_parse shp input (Some sb) = BDone su /\ spec_same_front sb su.
Proof.
  intros V Hop Hf Hpre. unfold std_file_all_pre in Hpre.
  apply orb_true_iff in Hpre. destruct Hpre as [Hpre|Hpre]; [apply orb_true_iff in Hpre; destruct Hpre as [Hpre|Hpre]|].
  - destruct (std_contain_file_simple input sb V Hop Hpre) as (su & HS & HF & _). exists su. split; assumption.
  - destruct (std_contain_file_one input sb V Hop Hf Hpre) as (su & HS & HF & _). exists su. split; assumption.
  - apply andb_true_iff in Hpre. destruct Hpre as [Hrel Hlast].
    exact (std_contain_file shp input sb V Hop Hf Hlast Hrel).
Qed.

End StdFS.

(* the one-slash premise excludes a scheme and the other shapes: the three premises are pairwise disjoint *)
Lemma std_file_pre_disjoint l :
  (std_file_simple_pre l && std_file_one_pre l = false)
  /\ (std_file_simple_pre l && std_file_rel_pre l = false)
  /\ (std_file_one_pre l && std_file_rel_pre l = false).
Proof.
  unfold std_file_simple_pre, std_file_one_pre, std_file_rel_pre.
  destruct l as [|c t]; [rewrite andb_false_r; repeat split|].
  destruct (c =? 63) eqn:E63; destruct (c =? 35) eqn:E35; destruct (is_sl c) eqn:Esl; cbn [orb andb negb];
    rewrite ?andb_false_r; repeat split; try reflexivity;
    unfold is_sl in Esl; apply N.eqb_eq in E63 || apply N.eqb_eq in E35; subst c; discriminate Esl.
Qed.
