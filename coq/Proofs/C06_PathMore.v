(* Proofs/C06_PathMore.v - the path editors on the two remaining authority-less layouts:
   (1) Url::set_path on an opaque-path URL, (2) set_path / path_segments_mut on a URL that carries the
   "/." marker.  In both the result is the record with_path builds; it satisfies the invariant exactly
   when the stored layout still matches the new text: no leading "//" without marker (F-C02-8), a
   leading "//" with marker (F-C03-5).  On an opaque path the new text never starts with '/': since the
   repair of F-C06-6 (0cfc9d8) set_path tests for the leading '/' on the TAB / LF / CR-free input. *)
From RU Require Import Base.Prelude Base.Utf8 Base.Utf8Facts Model.AsciiSet Gen.Tables Model.PercentEncoding
  Model.HostT Model.UrlRecord Model.Parser Model.Setters Model.WF
  Proofs.C14_Set Proofs.C14_Enc Proofs.C14_Views
  Proofs.ListN Proofs.C03_WF Proofs.C05_Enc Proofs.C06_List Proofs.C06_WFI Proofs.C06_Tail Proofs.C06_Steps Proofs.C06_FragQuery
  Proofs.C06_Suffix Proofs.C06_Front Proofs.C06_Port Proofs.C06_HostNone Proofs.C06_PathParser Proofs.C06_Path
  Proofs.C06_Segments Proofs.C06_PathNoAuth.

(* ---------- with_path on an authority-less record, both layouts ---------- *)
Section WithPathG0.
Variables (u : url) (P : list N).
Hypothesis W : wf_b u = true.
Hypothesis Ha : has_authority_b u = false.

Let u' := with_path u P.
Let ps := path_start u.
Let pe := path_end u.
Let b' := path_start u + nlen P.

Lemma wg_bounds : username_end u = scheme_end u + 1 /\ host_start u = scheme_end u + 1 /\ host_end u = scheme_end u + 1
  /\ scheme_end u + 1 <= ps /\ ps <= pe /\ pe <= nlen (ser u).
Proof.
  pose proof (wf_noauth_facts u W Ha) as F. destruct (wf_ps_le_path_end u W) as [B5 B6].
  pose proof (nf_ue F) as E1. pose proof (nf_hs F) as E2. pose proof (nf_he F) as E3.
  pose proof (nf_ps F) as E4. unfold ps, pe.
  repeat split; try assumption; destruct E4 as [E4|(E4 & _)]; lia.
Qed.

Lemma wg_offsets :
  (match query_start u with Some q => q = pe /\ byte_eqb (ser u) q 63 = true /\ q < nlen (ser u) | None => True end)
  /\ (match fragment_start u with
      | Some f => pe <= f /\ byte_eqb (ser u) f 35 = true /\ f < nlen (ser u)
                  /\ (query_start u = None -> f = pe)
      | None => True end)
  /\ (query_start u = None -> fragment_start u = None -> pe = nlen (ser u)).
Proof.
  pose proof (wf_qf_facts u W) as QF. pose proof (qf_q QF) as Q1. pose proof (qf_f QF) as Q2. pose proof (qf_qf QF) as Q3.
  unfold pe, path_end. destruct (query_start u) as [q|], (fragment_start u) as [f|]; repeat split; try tauto; try lia;
    try discriminate; try reflexivity; intros; try discriminate; reflexivity.
Qed.

Lemma wg_ser : ser u' = nfirstn ps (ser u) ++ P ++ nskipn pe (ser u).
Proof. reflexivity. Qed.

Lemma wg_pre : agree_pre ps (ser u) (ser u').
Proof. destruct wg_bounds as (B1 & B2 & B3 & B4 & B5 & B6). rewrite wg_ser. apply agree_pre_nfirstn. lia. Qed.

Lemma wg_suf : agree_suf pe b' (ser u) (ser u').
Proof.
  destruct wg_bounds as (B1 & B2 & B3 & B4 & B5 & B6). unfold agree_suf. rewrite wg_ser, app_assoc.
  rewrite nskipn_app_ge by (rewrite nlen_app, nlen_nfirstn by lia; unfold b', ps; lia).
  rewrite nlen_app, nlen_nfirstn by lia. unfold b', ps. rewrite N.sub_diag. reflexivity.
Qed.

Lemma wg_len : nlen (ser u') = b' + (nlen (ser u) - pe).
Proof.
  destruct wg_bounds as (B1 & B2 & B3 & B4 & B5 & B6).
  rewrite wg_ser, !nlen_app, nlen_nfirstn, nlen_nskipn by lia. unfold b', ps. lia.
Qed.

Lemma wg_byte_hi i c : pe <= i -> byte_eqb (ser u') (shift pe b' i) c = byte_eqb (ser u) i c.
Proof. intros H. apply (suf_byte_eqb pe b'); [apply wg_suf | exact H | reflexivity]. Qed.

Lemma wg_piece_hi i j : pe <= i -> i <= j ->
  nfirstn (shift pe b' j - shift pe b' i) (nskipn (shift pe b' i) (ser u')) = nfirstn (j - i) (nskipn i (ser u)).
Proof.
  intros Hi Hij. replace (shift pe b' j - shift pe b' i) with (j - i) by (unfold shift; lia).
  apply (suf_piece pe b'); [apply wg_suf | exact Hi | reflexivity].
Qed.

Lemma wg_skip_ps : nskipn ps (ser u') = P ++ nskipn pe (ser u).
Proof.
  destruct wg_bounds as (B1 & B2 & B3 & B4 & B5 & B6). rewrite wg_ser.
  rewrite nskipn_app_ge by (rewrite nlen_nfirstn; lia). rewrite nlen_nfirstn by lia. rewrite N.sub_diag. reflexivity.
Qed.

Lemma wg_path_end : path_end u' = b'.
Proof.
  destruct wg_offsets as (O1 & O2 & O3). destruct wg_bounds as (B1 & B2 & B3 & B4 & B5 & B6).
  unfold path_end. change (query_start u') with (option_map (shift pe b') (query_start u)).
  change (fragment_start u') with (option_map (shift pe b') (fragment_start u)).
  destruct (query_start u) as [q|]; cbn [option_map].
  - destruct O1 as (E & _). unfold shift. lia.
  - destruct (fragment_start u) as [f|]; cbn [option_map].
    + destruct O2 as (_ & _ & _ & E). specialize (E eq_refl). unfold shift. lia.
    + rewrite wg_len. specialize (O3 eq_refl eq_refl). lia.
Qed.

End WithPathG0.

Section WithPathG.
Variables (dbg : bool) (u : url) (P : list N).
Hypothesis W : wf_b u = true.
Hypothesis Ha : has_authority_b u = false.
Hypothesis HP1 : forallb no_qh P = true.
Hypothesis Hna' : has_authority_b (with_path u P) = false.
Hypothesis Hmk : path_start u = scheme_end u + 3 -> starts_with s_ss P = true.

Local Notation u' := (with_path u P).
Local Notation ps := (path_start u).
Local Notation pe := (path_end u).
Local Notation b' := (path_start u + nlen P).

Local Notation wg_bounds := (wg_bounds u P W Ha).
Local Notation wg_offsets := (wg_offsets u P W).
Local Notation wg_pre := (wg_pre u P W Ha).
Local Notation wg_suf := (wg_suf u P W Ha).
Local Notation wg_len := (wg_len u P W Ha).
Local Notation wg_byte_hi := (wg_byte_hi u P W Ha).
Local Notation wg_piece_hi := (wg_piece_hi u P W Ha).
Local Notation wg_skip_ps := (wg_skip_ps u P W Ha).
Local Notation wg_path_end := (wg_path_end u P W Ha).

Lemma wg_wf : wf_b u' = true.
Proof.
  destruct wg_offsets as (O1 & O2 & O3). destruct wg_bounds as (B1 & B2 & B3 & B4 & B5 & B6). pose proof wg_len as Hl.
  pose proof W as W0. apply wf_b_iff in W0. rewrite Ha in W0. destruct W0 as (S & NA & Q).
  apply wf_b_iff. rewrite Hna'. split; [|split].
  - apply (scheme_ok_pre ps u u'); [apply wg_pre | lia | reflexivity | exact S].
  - apply (noauth_ok_pre ps u u' wg_pre); [lia | rewrite Hl; lia
      | reflexivity | reflexivity | reflexivity | reflexivity | reflexivity | reflexivity | reflexivity | | exact NA].
    intros E. rewrite wg_skip_ps. apply starts_with_app_l. apply Hmk. exact E.
  - unfold qf_ok. rewrite wg_path_end. change (path_start u') with ps.
    change (query_start u') with (option_map (shift pe b') (query_start u)).
    change (fragment_start u') with (option_map (shift pe b') (fragment_start u)).
    destruct Q as (Q1 & Q2 & Q3 & Q4 & Q5).
    split; [|split; [|split; [|split]]].
    + destruct (query_start u) as [q|]; [|exact I]. cbn [option_map]. destruct O1 as (E1 & E2 & _).
      split; [unfold shift; lia|]. rewrite wg_byte_hi by lia. exact E2.
    + destruct (fragment_start u) as [f|]; [|exact I]. cbn [option_map]. destruct O2 as (E1 & E2 & _).
      split; [unfold shift; lia|]. rewrite wg_byte_hi by lia. exact E2.
    + destruct (query_start u) as [q|]; [|exact I]. destruct (fragment_start u) as [f|]; [|exact I].
      cbn [option_map]. destruct O1 as (E1 & _). unfold shift. lia.
    + replace (b' - ps) with (nlen P) by (lia). rewrite wg_skip_ps, nfirstn_app_exact. exact HP1.
    + destruct (query_start u) as [q|]; [|exact I]. cbn [option_map]. destruct O1 as (E1 & _ & E3).
      replace (shift pe b' q + 1) with (shift pe b' (q + 1)) by (unfold shift; lia).
      destruct (fragment_start u) as [f|]; cbn [option_map].
      * destruct O2 as (F1 & _ & F3 & _). rewrite wg_piece_hi by lia. exact Q5.
      * rewrite (suf_skip pe b' _ _ (q + 1) _ wg_suf) by (try lia; reflexivity). exact Q5.
Qed.

Lemma wg_front : same_front dbg u u'.
Proof.
  destruct wg_bounds as (B1 & B2 & B3 & B4 & B5 & B6). pose proof (wf_noauth_facts u W Ha) as F.
  split; [|split; [|split; [|split]]].
  - apply (scheme_same u u' ps W wg_wf wg_pre); [reflexivity | lia].
  - rewrite (username_eval dbg u' wg_wf), (username_eval dbg u W). f_equal. unfold piece. cbn [pidx].
    rewrite Hna', Ha. change (scheme_end u') with (scheme_end u). change (username_end u') with (username_end u).
    rewrite (nf_ue F), !N.sub_diag. reflexivity.
  - rewrite (password_piece dbg u' wg_wf), (password_piece dbg u W).
    unfold has_password_b. rewrite Hna', Ha. reflexivity.
  - rewrite (host_str_eval u' wg_wf), (host_str_eval u W). change (has_host u') with (has_host u).
    unfold has_host. rewrite (nf_host F). reflexivity.
  - reflexivity.
Qed.

Lemma wg_query : query dbg u' = query dbg u.
Proof.
  destruct wg_offsets as (O1 & O2 & O3). destruct wg_bounds as (B1 & B2 & B3 & B4 & B5 & B6).
  rewrite (query_eval dbg u' wg_wf), (query_eval dbg u W).
  change (query_start u') with (option_map (shift pe b') (query_start u)).
  destruct (query_start u) as [q|] eqn:Eq; [|reflexivity]. cbn [option_map]. do 2 f_equal.
  unfold piece. cbn [pidx].
  change (query_start u') with (option_map (shift pe b') (query_start u)).
  change (fragment_start u') with (option_map (shift pe b') (fragment_start u)). rewrite Eq. cbn [option_map].
  destruct O1 as (E1 & _ & E3).
  replace (shift pe b' q + 1) with (shift pe b' (q + 1)) by (unfold shift; lia).
  pose proof (qf_qf (wf_qf_facts u W)) as Q3. rewrite Eq in Q3.
  destruct (fragment_start u) as [f|]; cbn [option_map].
  - destruct O2 as (F1 & _ & F3 & _). apply wg_piece_hi; lia.
  - rewrite wg_len. replace (b' + (nlen (ser u) - pe)) with (shift pe b' (nlen (ser u))) by (unfold shift; lia).
    apply wg_piece_hi; lia.
Qed.

Lemma wg_fragment : fragment dbg u' = fragment dbg u.
Proof.
  destruct wg_offsets as (O1 & O2 & O3). destruct wg_bounds as (B1 & B2 & B3 & B4 & B5 & B6).
  rewrite (fragment_eval dbg u' wg_wf), (fragment_eval dbg u W).
  change (fragment_start u') with (option_map (shift pe b') (fragment_start u)).
  destruct (fragment_start u) as [f|] eqn:Ef; [|reflexivity]. cbn [option_map]. do 2 f_equal.
  unfold piece. cbn [pidx].
  change (fragment_start u') with (option_map (shift pe b') (fragment_start u)). rewrite Ef. cbn [option_map].
  destruct O2 as (F1 & _ & F3 & _).
  replace (shift pe b' f + 1) with (shift pe b' (f + 1)) by (unfold shift; lia).
  rewrite wg_len. replace (b' + (nlen (ser u) - pe)) with (shift pe b' (nlen (ser u))) by (unfold shift; lia).
  apply wg_piece_hi; lia.
Qed.

Lemma wg_path : path u' = Some P.
Proof.
  rewrite (path_eval u' wg_wf). f_equal. unfold piece.
  change (pidx u' AfterPath) with (path_end u'). rewrite wg_path_end. cbn [pidx]. change (path_start u') with ps.
  replace (b' - ps) with (nlen P) by (lia). rewrite wg_skip_ps. apply nfirstn_app_exact.
Qed.

Lemma wg_host_text_ok : host_text_ok u'.
Proof.
  intros Hh. change (has_host u') with (has_host u) in Hh. unfold has_host in Hh.
  rewrite (nf_host (wf_noauth_facts u W Ha)) in Hh. discriminate.
Qed.

End WithPathG.

Ltac splits := repeat match goal with |- _ /\ _ => split end.

(* ---------- the leading "//" of the new path, and has_authority_b of the result ---------- *)
Section Lead.
Variables (u : url) (P : list N).
Hypothesis W : wf_b u = true.
Hypothesis Ha : has_authority_b u = false.

Local Notation u' := (with_path u P).
Local Notation ps := (path_start u).
Local Notation pe := (path_end u).
Local Notation b' := (path_start u + nlen P).

(* the byte that follows the new path, if any, is '?' or '#' *)
Lemma wg_after_not_slash : nnth (ser u') (ps + nlen P) <> Some 47.
Proof.
  destruct (wg_offsets u P W) as (O1 & O2 & O3). destruct (wg_bounds u P W Ha) as (B1 & B2 & B3 & B4 & B5 & B6).
  intros H.
  assert (byte_eqb (ser u') (shift pe b' pe) 47 = true) as Hb.
  { apply byte_eqb_true_iff. replace (shift pe b' pe) with (ps + nlen P) by (unfold shift; lia). exact H. }
  rewrite (wg_byte_hi u P W Ha) in Hb by lia.
  destruct (query_start u) as [q|] eqn:Eq.
  - destruct O1 as (E1 & E2 & _). rewrite <- E1 in Hb. rewrite (byte_eqb_excl _ _ 63 47) in Hb by (try lia; exact E2). discriminate.
  - destruct (fragment_start u) as [f|] eqn:Ef.
    + destruct O2 as (_ & E2 & _ & E1). rewrite <- (E1 eq_refl) in Hb.
      rewrite (byte_eqb_excl _ _ 35 47) in Hb by (try lia; exact E2). discriminate.
    + rewrite (O3 eq_refl eq_refl) in Hb. apply byte_eqb_lt in Hb. lia.
Qed.

Lemma wg_2slash : path_starts_with_2slash u' = starts_with s_ss P.
Proof.
  unfold path_starts_with_2slash. change (path_start u') with ps. rewrite (wg_skip_ps u P W Ha).
  destruct (starts_with s_ss P) eqn:E; [apply starts_with_app_l; exact E|].
  destruct (starts_with s_ss (P ++ nskipn pe (ser u))) eqn:E2; [|reflexivity]. exfalso.
  assert (forall k, nnth (ser u') (ps + k) = nnth (P ++ nskipn pe (ser u)) k) as Hn
    by (intros k; rewrite <- nnth_nskipn, (wg_skip_ps u P W Ha); reflexivity).
  apply starts_with_split in E2. change (length s_ss) with 2%nat in E2.
  assert (nnth (P ++ nskipn pe (ser u)) 0 = Some 47 /\ nnth (P ++ nskipn pe (ser u)) 1 = Some 47) as [C1 C2]
    by (rewrite E2; split; reflexivity).
  pose proof (ss_prefix_cases P _ E C1 C2) as C3. rewrite <- Hn in C3. exact (wg_after_not_slash C3).
Qed.

Lemma nskipn_se : nskipn (scheme_end u) (ser u') = 58 :: nskipn (scheme_end u + 1) (ser u').
Proof.
  destruct (wg_bounds u P W Ha) as (B1 & B2 & B3 & B4 & B5 & B6). destruct (wf_scheme_facts u W) as (_ & Hc & _).
  apply nskipn_cons_of_nnth. rewrite (pre_nnth ps _ _ _ (wg_pre u P W Ha)) by lia. apply byte_eqb_nnth. exact Hc.
Qed.

(* layout without marker: the result has an authority exactly when the new path starts with "//" *)
Lemma na_plain : ps = scheme_end u + 1 -> has_authority_b u' = starts_with s_ss P.
Proof.
  intros E. unfold has_authority_b. change (scheme_end u') with (scheme_end u). rewrite nskipn_se.
  rewrite <- E. change (starts_with s_css (58 :: nskipn ps (ser u'))) with (starts_with s_ss (nskipn ps (ser u'))).
  exact wg_2slash.
Qed.

(* layout with marker: "/." stays in front of the path, the result never has an authority *)
Lemma na_marker : ps = scheme_end u + 3 -> has_authority_b u' = false.
Proof.
  intros E. destruct (wg_bounds u P W Ha) as (B1 & B2 & B3 & B4 & B5 & B6).
  rewrite (has_authority_b_pre ps u u' (wg_pre u P W Ha)) by (try lia; reflexivity). exact Ha.
Qed.
End Lead.

(* ---------- the three outcomes ---------- *)
Definition path_result (dbg : bool) (u u' : url) (P : list N) : Prop :=
  wf_b u' = true /\ host_text_ok u' /\ same_front dbg u u'
  /\ query dbg u' = query dbg u /\ fragment dbg u' = fragment dbg u /\ path u' = Some P.

Lemma with_path_result dbg u P : wf_b u = true -> has_authority_b u = false -> forallb no_qh P = true ->
  has_authority_b (with_path u P) = false ->
  (path_start u = scheme_end u + 3 -> starts_with s_ss P = true) ->
  path_result dbg u (with_path u P) P.
Proof.
  intros W Ha HP1 Hna Hmk. unfold path_result. splits.
  - apply wg_wf; assumption.
  - apply wg_host_text_ok; assumption.
  - apply wg_front; assumption.
  - apply wg_query; assumption.
  - apply wg_fragment; assumption.
  - apply wg_path; assumption.
Qed.

(* no marker (path_start = scheme_end + 1: '/'-led path or opaque path) *)
Lemma plain_result dbg u P : wf_b u = true -> has_authority_b u = false -> path_start u = scheme_end u + 1 ->
  forallb no_qh P = true ->
  (path_starts_with_2slash (with_path u P) = false -> path_result dbg u (with_path u P) P)
  /\ (path_starts_with_2slash (with_path u P) = true -> wf_b (with_path u P) = false).
Proof.
  intros W Ha E HP1. rewrite (wg_2slash u P W Ha). split; intros Hss.
  - apply with_path_result; try assumption.
    + rewrite (na_plain u P W Ha E). exact Hss.
    + intros E3. lia.
  - destruct (wf_b (with_path u P)) eqn:W'; [|reflexivity]. exfalso.
    assert (has_authority_b (with_path u P) = true) as Ha' by (rewrite (na_plain u P W Ha E); exact Hss).
    pose proof (af_ue (wf_auth_facts _ W' Ha')) as A.
    change (scheme_end (with_path u P)) with (scheme_end u) in A. change (username_end (with_path u P)) with (username_end u) in A.
    rewrite (nf_ue (wf_noauth_facts u W Ha)) in A. lia.
Qed.

(* marker (path_start = scheme_end + 3) *)
Lemma marker_result dbg u P : wf_b u = true -> has_authority_b u = false -> path_start u = scheme_end u + 3 ->
  forallb no_qh P = true ->
  (path_starts_with_2slash (with_path u P) = true -> path_result dbg u (with_path u P) P)
  /\ (path_starts_with_2slash (with_path u P) = false -> wf_b (with_path u P) = false).
Proof.
  intros W Ha E HP1. pose proof (wg_2slash u P W Ha) as E2. split; intros Hss.
  - rewrite E2 in Hss. apply with_path_result; try assumption.
    + apply na_marker; assumption.
    + intros _. exact Hss.
  - destruct (wf_b (with_path u P)) eqn:W'; [|reflexivity]. exfalso.
    pose proof (na_marker u P W Ha E) as Ha'.
    destruct (nf_ps (wf_noauth_facts _ W' Ha')) as [X|(_ & _ & _ & X)].
    + change (path_start (with_path u P)) with (path_start u) in X. change (scheme_end (with_path u P)) with (scheme_end u) in X. lia.
    + unfold path_starts_with_2slash in Hss. congruence.
Qed.

(* ---------- (1) Url::set_path on an opaque path ---------- *)
Lemma no_qh_utf8_1 c : no_qh c = true -> forallb no_qh (utf8_encode1 c) = true.
Proof.
  intros H. unfold utf8_encode1.
  destruct (c <? 128); [cbn [forallb]; rewrite H; reflexivity|].
  destruct (c <? 2048); [|destruct (c <? 65536)]; cbn [forallb]; unfold no_qh; lia.
Qed.

Lemma pe_display_no_qh S xs : forallb no_qh xs = true -> forallb no_qh (pe_display S xs) = true.
Proof.
  intros H. rewrite forallb_forall in *. intros c Hc.
  pose proof (pe_display_out S xs) as F. rewrite Forall_forall in F. destruct (F c Hc) as [[Hi _]|[->|Hx]].
  - apply H. exact Hi.
  - reflexivity.
  - unfold is_hexu, is_digit in Hx. unfold no_qh. lia.
Qed.

(* the first byte of the encoding of one scalar value other than '/' is not '/' *)
Lemma enc_head_not47 S c : is_usv c -> c <> 47 ->
  exists x t, pe_display S (utf8_encode [c]) = x :: t /\ x <> 47.
Proof.
  intros Hu Hc. rewrite pe_display_is_encode by (apply utf8_encode_bytes; constructor; [exact Hu | constructor]).
  unfold utf8_encode. cbn [flat_map]. rewrite app_nil_r.
  assert (exists b bs, utf8_encode1 c = b :: bs /\ b <> 47) as (b & bs & E & Hb).
  { unfold utf8_encode1. destruct (c <? 128) eqn:E1; [exists c, []; split; [reflexivity | exact Hc]|].
    destruct (c <? 2048); [|destruct (c <? 65536)]; eexists; eexists; (split; [reflexivity|]); lia. }
  rewrite E, encode_cons. unfold enc1. destruct (should_encode S b).
  - unfold enc_byte_spec. cbn [app]. eexists. eexists. split; [reflexivity | lia].
  - cbn [app]. eexists. eexists. split; [reflexivity | exact Hb].
Qed.

Lemma split47_tnl c r : is_tnl c = true -> inp_split_prefix_char 47 (c :: r) = inp_split_prefix_char 47 r.
Proof. intros H. unfold inp_split_prefix_char, inp_next. cbn [drop_while]. rewrite H. reflexivity. Qed.

Lemma split47_cons c r : is_tnl c = false -> inp_split_prefix_char 47 (c :: r) = if c =? 47 then Some r else None.
Proof. intros H. unfold inp_split_prefix_char, inp_next. cbn [drop_while]. rewrite H. reflexivity. Qed.

(* what the opaque-path state writes in the setter context: nothing stops it, a text without
   '?' / '#' gives an output without them, and a text whose first character (TAB / LF / CR apart) is not
   '/' gives an output that does not start with '/' *)
Lemma cbb_setter_out p : forall s, exists A, fst (parse_cannot_be_a_base_path CSetter s p) = s ++ A
  /\ (forallb no_qh p = true -> forallb no_qh A = true)
  /\ (usv_list p -> inp_split_prefix_char 47 p = None -> forall t, A = 47 :: t -> False).
Proof.
  induction p as [|c r IH]; intros s; cbn [parse_cannot_be_a_base_path].
  - exists []. split; [symmetry; apply app_nil_r|]. split; [reflexivity | intros _ _ t; discriminate].
  - destruct (is_tnl c) eqn:Et.
    + destruct (IH s) as (A & E & HA & HB). exists A. split; [exact E|]. split.
      * cbn [forallb]. intros H. apply andb_true_iff in H. apply HA, H.
      * intros Hu Hn. rewrite (split47_tnl c r Et) in Hn. apply HB; [inversion Hu; assumption | exact Hn].
    + cbn [ctx_eqb]. rewrite andb_false_r. unfold push_encoded.
      destruct (IH (s ++ pe_display T_CONTROLS (utf8_encode [c]))) as (A & E & HA & _).
      exists (pe_display T_CONTROLS (utf8_encode [c]) ++ A). split; [rewrite E; symmetry; apply app_assoc|]. split.
      * cbn [forallb]. intros H. apply andb_true_iff in H. destruct H as [H1 H2].
        apply forallb_app_iff. split; [|apply HA; exact H2].
        apply pe_display_no_qh. unfold utf8_encode. cbn [flat_map]. rewrite app_nil_r. apply no_qh_utf8_1. exact H1.
      * intros Hu Hn t Ht. rewrite (split47_cons c r Et) in Hn.
        destruct (c =? 47) eqn:E47; [discriminate|]. apply N.eqb_neq in E47.
        destruct (enc_head_not47 T_CONTROLS c (Forall_inv Hu) E47) as (x & t0 & Ex & Hx).
        rewrite Ex in Ht. cbn [app] in Ht. inversion Ht. congruence.
Qed.

Lemma set_path_opaque_eval dbg u p u' : wf_b u = true -> is_opaque_b u = true -> usv_list p ->
  forallb no_qh p = true -> set_path dbg u p = Some u' ->
  exists P, u' = with_path u P /\ forallb no_qh P = true /\ (forall t, P = 47 :: t -> False).
Proof.
  intros W Hop Hu Hp H. unfold is_opaque_b in Hop. apply negb_true_iff in Hop.
  destruct (opaque_path_start u W Hop) as [Ha Eps].
  unfold set_path in H. rewrite (take_after_path_eval u W) in H. cbn [bindo] in H.
  destruct (wf_ps_le_path_end u W) as [B5 B6]. destruct (wf_scheme_facts u W) as (Hse & Hc & Hlt).
  set (pe := path_end u) in *. set (ps := path_start u) in *.
  assert (nlen (nfirstn pe (ser u)) = pe) as Lpe by (apply nlen_nfirstn; exact B6).
  assert (cannot_be_a_base (set_ser u (nfirstn pe (ser u))) = Some true) as Ecbb.
  { unfold cannot_be_a_base, u_slice_from. cbn [ser set_ser scheme_end]. rewrite slice_from_o_some by lia. cbn [bindo].
    do 2 f_equal. apply negb_true_iff.
    destruct (nskipn (scheme_end u + 1) (nfirstn pe (ser u))) as [|c r] eqn:En; [reflexivity|].
    cbn [starts_with]. rewrite andb_true_r.
    assert (nnth (nfirstn pe (ser u)) (scheme_end u + 1) = Some c) as Hn.
    { rewrite <- (N.add_0_r (scheme_end u + 1)), <- nnth_nskipn, En. reflexivity. }
    pose proof (nnth_lt _ _ _ Hn) as Hlt2. rewrite Lpe in Hlt2. rewrite nnth_nfirstn in Hn by lia.
    unfold byte_eqb in Hop. rewrite Hn in Hop. rewrite N.eqb_sym. exact Hop. }
  rewrite Ecbb in H. cbn [bindo] in H.
  assert (u_scheme_type (set_ser u (nfirstn pe (ser u))) = Some (scheme_type_of (nfirstn (scheme_end u) (ser u)))) as Est.
  { unfold u_scheme_type, scheme, u_slice_to. cbn [ser set_ser scheme_end]. rewrite slice_to_o_some by lia. cbn [bindo].
    rewrite nfirstn_nfirstn by lia. reflexivity. }
  rewrite Est in H. cbn [bindo] in H.
  cbn [ser set_ser path_start] in H. unfold truncate in H. fold ps in H.
  rewrite nfirstn_nfirstn in H by lia.
  set (s0 := nfirstn ps (ser u)) in *.
  assert (nlen s0 = ps) as Ls0 by (apply nlen_nfirstn; lia).
  unfold input_new_no_trim in H.
  (* the text written *)
  assert (exists P, (let '(s, p') := match inp_split_prefix_char 47 p with
                                     | Some r => (s0 ++ [37; 50; 70], r) | None => (s0, p) end in
                     Some (fst (parse_cannot_be_a_base_path CSetter s p'))) = Some (s0 ++ P)
                    /\ forallb no_qh P = true /\ (forall t, P = 47 :: t -> False)) as (P & EP & HP & HH).
  { destruct (inp_split_prefix_char 47 p) as [r|] eqn:E47.
    - assert (forallb no_qh r = true) as Hr.
      { clear - Hp E47. induction p as [|c p' IH]; [discriminate|]. cbn [forallb] in Hp. apply andb_true_iff in Hp.
        destruct Hp as [_ Hp]. destruct (is_tnl c) eqn:Et.
        - rewrite (split47_tnl c p' Et) in E47. exact (IH Hp E47).
        - rewrite (split47_cons c p' Et) in E47. destruct (c =? 47); inversion E47; subst. exact Hp. }
      destruct (cbb_setter_out r (s0 ++ [37; 50; 70])) as (A & E & HA & _). exists ([37; 50; 70] ++ A).
      rewrite E, <- app_assoc. split; [reflexivity|]. split; [|intros t Ht; discriminate].
      apply forallb_app_iff. split; [reflexivity | apply HA; exact Hr].
    - destruct (cbb_setter_out p s0) as (A & E & HA & HB). exists A. rewrite E.
      split; [reflexivity|]. split; [apply HA; exact Hp | exact (HB Hu E47)]. }
  rewrite EP in H. cbn [bindo] in H.
  unfold restore_after_path in H. cbn [ser set_ser query_start fragment_start] in H. rewrite Lpe in H.
  assert (match query_start u with Some i => pe <= i | None => True end) as Gq.
  { unfold pe, path_end. destruct (query_start u); [lia | exact I]. }
  assert (match fragment_start u with Some i => pe <= i | None => True end) as Gf.
  { pose proof (qf_qf (wf_qf_facts u W)) as Q3. unfold pe, path_end.
    destruct (query_start u), (fragment_start u); try exact I; lia. }
  rewrite !adjust_opt_ok in H by assumption. cbn [bindo] in H.
  exists P. split; [|split; [exact HP | exact HH]].
  inversion H. unfold with_path. fold pe ps. rewrite nlen_app, Ls0. rewrite <- app_assoc. reflexivity.
Qed.

(* Url::set_path on an opaque path, for an argument (a &str) without '?' and '#' (those are F-C02-3):
   invariant, frame, the path stays opaque.  (Before the repair of F-C06-6 an argument such as TAB "//x"
   produced a result starting with "//".) *)
Theorem set_path_opaque_ok dbg u p u' : wf_b u = true -> is_opaque_b u = true -> usv_list p ->
  forallb no_qh p = true -> set_path dbg u p = Some u' ->
  wf_b u' = true /\ host_text_ok u' /\ same_front dbg u u' /\ query dbg u' = query dbg u
  /\ fragment dbg u' = fragment dbg u /\ is_opaque_b u' = true
  /\ exists P, path u' = Some P /\ forallb no_qh P = true.
Proof.
  intros W Hop Hu Hp H. destruct (set_path_opaque_eval dbg u p u' W Hop Hu Hp H) as (P & -> & HP & HH).
  pose proof Hop as Hop2. unfold is_opaque_b in Hop2. apply negb_true_iff in Hop2.
  destruct (opaque_path_start u W Hop2) as [Ha Eps].
  destruct (plain_result dbg u P W Ha Eps HP) as [R1 _].
  assert (path_starts_with_2slash (with_path u P) = false) as Hss.
  { rewrite (wg_2slash u P W Ha). destruct P as [|c r0]; [reflexivity|].
    unfold s_ss. cbn [starts_with]. destruct (47 =? c) eqn:E; [|reflexivity]. apply N.eqb_eq in E. subst c.
    destruct (HH _ eq_refl). }
  destruct (R1 Hss) as (A & B & C & D & E & F). splits; try assumption; [|exists P; split; assumption].
  unfold is_opaque_b. apply negb_true_iff. change (scheme_end (with_path u P)) with (scheme_end u).
  rewrite <- Eps. unfold byte_eqb. rewrite <- (N.add_0_r (path_start u)).
  rewrite <- nnth_nskipn, (wg_skip_ps u P W Ha).
  destruct P as [|c r0].
  - cbn [app]. rewrite nnth_nskipn, N.add_0_r.
    destruct (nnth (ser u) (path_end u)) as [x|] eqn:En; [|reflexivity]. apply N.eqb_neq. intros ->.
    apply (wg_after_not_slash u [] W Ha). rewrite nlen_nil, N.add_0_r.
    rewrite <- (N.add_0_r (path_start u)), <- nnth_nskipn, (wg_skip_ps u [] W Ha). cbn [app].
    rewrite nnth_nskipn, N.add_0_r. exact En.
  - cbn. apply N.eqb_neq. intros ->. destruct (HH _ eq_refl).
Qed.

(* the former witness of F-C06-6, on the repaired code: TAB "//x" on "a:b" now gives "a:%2F/x" *)
Lemma set_path_opaque_tab_fixed :
  wf_b sp_w2 = true /\ is_opaque_b sp_w2 = true
  /\ exists u', set_path true sp_w2 [9; 47; 47; 120] = Some u' /\ ser u' = [97; 58; 37; 50; 70; 47; 120]
      /\ wf_b u' = true /\ is_opaque_b u' = true.
Proof.
  split; [vm_compute; reflexivity|]. split; [vm_compute; reflexivity|].
  eexists. split; [vm_compute; reflexivity|]. repeat split; vm_compute; reflexivity.
Qed.

(* ---------- (2) the editors on a URL with the "/." marker ---------- *)
Definition marker_path (u : url) : Prop := has_authority_b u = false /\ path_start u = scheme_end u + 3.

Lemma marker_heads u : wf_b u = true -> marker_path u ->
  byte_eqb (ser u) (scheme_end u + 1) 47 = true /\ byte_eqb (ser u) (path_start u) 47 = true /\ auth_end_ok u.
Proof.
  intros W [Ha E]. destruct (nf_ps (wf_noauth_facts u W Ha)) as [X|(_ & B1 & B2 & B3)]; [lia|].
  split; [exact B1|]. split.
  - apply starts_with_split in B3. apply byte_eqb_true_iff.
    rewrite <- (N.add_0_r (path_start u)), <- nnth_nskipn, B3. reflexivity.
  - unfold auth_end_ok. intros _ _. unfold ends_with_byte.
    assert (nlen (ser u) >= scheme_end u + 3) as L by (pose proof (nf_len (wf_noauth_facts u W Ha)); lia).
    apply byte_eqb_nnth in B2.
    pose proof (piece_app (ser u) 0 (scheme_end u + 2) (path_start u) ltac:(lia) ltac:(lia)) as Ep.
    rewrite !N.sub_0_r, nskipn_0 in Ep. replace (path_start u - (scheme_end u + 2)) with 1 in Ep by lia.
    rewrite (piece_one _ _ _ B2) in Ep. rewrite <- Ep. rewrite rev_app_distr. reflexivity.
Qed.

Theorem set_path_marker_ok dbg u p u' : wf_b u = true -> marker_path u -> usv_list p ->
  set_path dbg u p = Some u' ->
  (path_starts_with_2slash u' = true ->
     wf_b u' = true /\ host_text_ok u' /\ same_front dbg u u' /\ query dbg u' = query dbg u
     /\ fragment dbg u' = fragment dbg u /\ exists P, path u' = Some P /\ new_path_ok P)
  /\ (path_starts_with_2slash u' = false -> wf_b u' = false).
Proof.
  intros W M Hp H. destruct (marker_heads u W M) as (Hsl & Hhd & Hx). destruct M as [Ha E].
  destruct (set_path_eval dbg u p u' W Hsl Hp Hx H) as (P & hh & rem & -> & HP & _).
  destruct (marker_result dbg u P W Ha E (proj1 HP)) as [R1 R2]. split; [|exact R2].
  intros Hss. destruct (R1 Hss) as (A & B & C & D & F & G). splits; try assumption. exists P. split; assumption.
Qed.

Theorem path_segments_session_marker_ok dbg u ops u' : wf_b u = true -> marker_path u ->
  Forall psm_op_usv ops -> path_segments_session dbg u ops = Some (u', SOk) ->
  (path_starts_with_2slash u' = true ->
     wf_b u' = true /\ host_text_ok u' /\ same_front dbg u u' /\ query dbg u' = query dbg u
     /\ fragment dbg u' = fragment dbg u /\ exists P, path u' = Some P /\ new_path_ok P)
  /\ (path_starts_with_2slash u' = false -> wf_b u' = false).
Proof.
  intros W M Hops H. destruct (marker_heads u W M) as (Hsl & Hhd & Hx). destruct M as [Ha E].
  destruct (path_segments_session_eval dbg u ops u' W Hsl (or_intror Hhd) Hops H) as (P & -> & HP).
  destruct (marker_result dbg u P W Ha E (proj1 HP)) as [R1 R2]. split; [|exact R2].
  intros Hss. destruct (R1 Hss) as (A & B & C & D & F & G). splits; try assumption. exists P. split; assumption.
Qed.

(* the excluded half is inhabited: "a:/.//p" (marker, path "//p"): set_path("/q") gives "a:/./q" and
   path_segments_mut().clear() gives "a:/./" - the marker stays in front of a path that needs none *)
Definition mk_w : url := mkUrl [97; 58; 47; 46; 47; 47; 112] 1 2 2 2 HI_None None 4 None None.
Lemma marker_refuted :
  wf_b mk_w = true /\ marker_path mk_w
  /\ (exists u', set_path true mk_w [47; 113] = Some u' /\ ser u' = [97; 58; 47; 46; 47; 113] /\ wf_b u' = false)
  /\ (exists u', path_segments_session true mk_w [PClear] = Some (u', SOk) /\ ser u' = [97; 58; 47; 46; 47] /\ wf_b u' = false)
  /\ (exists u', set_path true mk_w [47; 47; 113] = Some u' /\ ser u' = [97; 58; 47; 46; 47; 47; 113] /\ wf_b u' = true).
Proof.
  split; [vm_compute; reflexivity|]. split; [split; vm_compute; reflexivity|].
  split; [|split]; eexists; (split; [vm_compute; reflexivity|]); split; vm_compute; reflexivity.
Qed.

(* ---------- the same exactness for the '/'-led layout without marker (F-C02-8) ---------- *)
Theorem set_path_noauth_exact dbg u p u' : wf_b u = true -> noauth_slash_path u -> usv_list p ->
  set_path dbg u p = Some u' -> path_starts_with_2slash u' = true -> wf_b u' = false.
Proof.
  intros W NA Hp H Hss. pose proof NA as (Ha & Hsl & Hnm).
  assert (auth_end_ok u) as Hx.
  { unfold auth_end_ok. intros _ _. rewrite Hnm. apply noauth_front_end. exact W. }
  destruct (set_path_eval dbg u p u' W Hsl Hp Hx H) as (P & hh & rem & -> & HP & _).
  exact (proj2 (plain_result dbg u P W Ha Hnm (proj1 HP)) Hss).
Qed.

Theorem path_segments_session_noauth_exact dbg u ops u' : wf_b u = true -> noauth_slash_path u ->
  Forall psm_op_usv ops -> path_segments_session dbg u ops = Some (u', SOk) ->
  path_starts_with_2slash u' = true -> wf_b u' = false.
Proof.
  intros W NA Hops H Hss. pose proof NA as (Ha & Hsl & Hnm).
  assert (path_end u = path_start u \/ byte_eqb (ser u) (path_start u) 47 = true) as Hhead
    by (right; rewrite Hnm; exact Hsl).
  destruct (path_segments_session_eval dbg u ops u' W Hsl Hhead Hops H) as (P & -> & HP).
  exact (proj2 (plain_result dbg u P W Ha Hnm (proj1 HP)) Hss).
Qed.

(* the four layouts are exhaustive *)
Lemma path_layouts u : wf_b u = true ->
  has_authority_b u = true \/ noauth_slash_path u \/ is_opaque_b u = true \/ marker_path u.
Proof.
  intros W. destruct (has_authority_b u) eqn:Ha; [left; reflexivity|]. right.
  destruct (nf_ps (wf_noauth_facts u W Ha)) as [E|(E & _)].
  - destruct (byte_eqb (ser u) (scheme_end u + 1) 47) eqn:Hb.
    + left. split; [exact Ha|]. split; [exact Hb | exact E].
    + right. left. unfold is_opaque_b. rewrite Hb. reflexivity.
  - right. right. split; [exact Ha | exact E].
Qed.
