(* Proofs/C03_ReachHist.v - histories: every record reached by parse / join (any scheme) and
   by the mutators whose invariant preservation C06 proves (set_fragment, set_query, set_port,
   set_password, set_username, set_scheme, set_host(None) and set_ip_host outside their known classes,
   set_path and path_segments_mut sessions on records with an authority) satisfies
   wfh = wf_b /\ host_text_ok - the premise of every C03 accessor / Position theorem and of C06. *)
From RU Require Import Base.Prelude Base.Utf8 Model.AsciiSet Gen.Tables Model.PercentEncoding
  Model.HostT Model.UrlRecord Model.Parser Model.Setters Model.WF
  Proofs.ListN Proofs.C03_WF Proofs.C06_List Proofs.C06_WFI Proofs.C06_Suffix Proofs.C06_HostNone Proofs.C06_Host
  Proofs.C06_Segments Proofs.C06_Path Proofs.C06_Main Proofs.C06_PathMore
  Proofs.C04_ParseTotal Proofs.C03_ReachParts Proofs.C03_Reach Proofs.C03_ReachFile.

Section Hist.
Variable dbg : bool.
Variable hp hpo : list N -> result host.
Variable hd : host -> list N.

Inductive reach03 : url -> Prop :=
| R3_parse ovr input u : parse_url dbg hp hpo hd ovr None input = POk u -> reach03 u
| R3_join ovr b input u :
    reach03 b -> base_ok b = true -> parse_url dbg hp hpo hd ovr (Some b) input = POk u -> reach03 u
| R3_fragment u f u' : reach03 u -> set_fragment dbg u f = Some u' -> reach03 u'
| R3_query u q u' : reach03 u -> str_arg_ok q -> set_query dbg u q = Some u' -> reach03 u'
| R3_port u p u' st : reach03 u -> port_arg_ok p -> set_port dbg u p = Some (u', st) -> reach03 u'
| R3_password u pw u' st : reach03 u -> set_password dbg u pw = Some (u', st) -> reach03 u'
| R3_username u un u' st : reach03 u -> set_username dbg u un = Some (u', st) -> reach03 u'
| R3_scheme u s u' st : reach03 u -> set_scheme dbg u s = Some (u', st) -> reach03 u'
| R3_host_none u u' st :
    reach03 u -> path_empty_at_end u = false -> path_starts_with_2slash u = false ->
    set_host dbg hp hpo hd u None = Some (u', st) -> reach03 u'
| R3_ip_host u h u' st :
    reach03 u -> host_disp_ok hd h ->
    (has_authority_b u = true -> hi_of_host h = HI_None -> port u = None) ->
    (has_authority_b u = false -> path_start u = scheme_end u + 1) ->
    set_ip_host dbg hd u h = Some (u', st) -> reach03 u'
| R3_path u p u' :
    reach03 u -> has_authority_b u = true -> usv_list p -> auth_end_ok u ->
    set_path dbg u p = Some u' -> reach03 u'
| R3_segments u ops u' :
    reach03 u -> has_authority_b u = true -> Forall psm_op_usv ops ->
    path_segments_session dbg u ops = Some (u', SOk) -> reach03 u'.

Theorem reach03_wfh : HostWf hp hpo hd -> forall u, reach03 u -> wfh u.
Proof.
  intros HW u R. induction R as
    [ovr input u Hp | ovr b input u Rb IHb Hb Hp | u f u' R IH H | u q u' R IH Hq H | u p u' st R IH Hp H
    | u pw u' st R IH H | u un u' st R IH H | u s u' st R IH H | u u' st R IH H1 H2 H | u h u' st R IH H1 H2 H3 H
    | u p u' R IH Ha Hp He H | u ops u' R IH Ha Ho H].
  - exact (parse_url_wf_all dbg hp hpo hd ovr HW None input u I Hp).
  - destruct IHb as [Wb Tb]. exact (parse_url_wf_all dbg hp hpo hd ovr HW (Some b) input u (conj Hb Tb) Hp).
  - destruct (wf_all dbg hp hpo hd u IH) as (A & _). exact (A _ _ H).
  - destruct (wf_all dbg hp hpo hd u IH) as (_ & A & _). exact (A _ _ Hq H).
  - destruct (wf_all dbg hp hpo hd u IH) as (_ & _ & A & _). exact (A _ _ _ Hp H).
  - destruct (wf_all dbg hp hpo hd u IH) as (_ & _ & _ & A & _). exact (A _ _ _ H).
  - destruct (wf_all dbg hp hpo hd u IH) as (_ & _ & _ & _ & A & _). exact (A _ _ _ H).
  - destruct (wf_all dbg hp hpo hd u IH) as (_ & _ & _ & _ & _ & A & _). exact (A _ _ _ H).
  - destruct (wf_all dbg hp hpo hd u IH) as (_ & _ & _ & _ & _ & _ & A & _). exact (A _ _ H1 H2 H).
  - destruct (wf_all dbg hp hpo hd u IH) as (_ & _ & _ & _ & _ & _ & _ & A). exact (A _ _ _ H1 H2 H3 H).
  - destruct (path_all dbg u IH Ha) as (A & _). exact (proj1 (A _ _ Hp He H)).
  - destruct (path_all dbg u IH Ha) as (_ & A). exact (proj1 (A _ _ Ho H)).
Qed.
End Hist.
