(* Proofs/C06_SpliceNone.v - WHOLE-URL parser agreement, part 6: the removal calls set_fragment(None), set_query(None),
   set_port(None).  The result is canonical (C02: set_*_Canon), hence a fixpoint of re-parsing; its serialization IS
   the old serialization with the component (and its delimiter) cut out - so Parser::parse_url on that text returns
   exactly the setter's record.  Only wrinkle: when the last of query / fragment is removed from an opaque-path URL
   the setter strips trailing spaces of the path; the premise "the cut text does not end in a C0 control or space"
   leaves that case out (Url::parse would trim them from its input as well). *)
From RU Require Import Base.Prelude Base.Utf8 Base.Utf8Facts Model.AsciiSet Gen.Tables
  Model.PercentEncoding Model.HostT Model.UrlRecord Model.Parser Model.Setters Model.WF
  Proofs.ListN Proofs.C14_Set Proofs.C14_Enc Proofs.C14_Views Proofs.C02_Enc Proofs.C02_Parts
  Proofs.C02_Opaque Proofs.C02_Path Proofs.C02_PathL1 Proofs.C02_Reach Proofs.C16_RT Proofs.C02_AuthParts
  Proofs.C02_Auth Proofs.C02_AuthWf Proofs.C02_PathSp Proofs.C02_AuthSp Proofs.C02_AuthMain Proofs.C02_SetQF
  Proofs.C02_Canon Proofs.C02_SetPort Proofs.C06_List Proofs.C06_Agree Proofs.C06_AgreeUrl Proofs.C06_Splice Proofs.C06_SpliceAuth.
Open Scope N_scope.
Open Scope list_scope.

(* the old serialization without the fragment / without the query / without the port *)
Definition cut_fragment (u : url) : list N := nfirstn (frag_cut u) (ser u).
Definition cut_query (u : url) : list N := nfirstn (query_cut u) (ser u) ++ nskipn (frag_cut u) (ser u).
Definition cut_port (u : url) : list N := nfirstn (host_end u) (ser u) ++ nskipn (path_start u) (ser u).

Lemma rstrip32_id l : first_ok (rev l) -> rstrip32 l = l.
Proof.
  intros H. unfold rstrip32. destruct (rev l) as [|c r] eqn:E.
  - cbn. rewrite <- (rev_involutive l), E. reflexivity.
  - cbn [first_ok] in H. cbn [drop_while]. replace (c =? 32) with false by (unfold is_c0_or_space in H; lia).
    rewrite <- E. apply rev_involutive.
Qed.

Section None.
Variable dbg : bool.
Variable hp hpo : list N -> result host.
Variable hd : host -> list N.
Hypothesis HRT : HostRT hp hpo hd.

Notation Canon := (Canon hp hpo hd).

(* a canonical record re-parses to itself *)
Lemma Canon_reparse u : Canon u -> parse_url dbg hp hpo hd None None (ser u) = POk u.
Proof.
  intros C. destruct (Canon_fixpoint dbg hp hpo hd HRT u C) as (Hfix & _ & Hasc).
  unfold Fixpoint_of_reparse, reparse in Hfix. rewrite utf8_lossy_ascii in Hfix by exact Hasc. exact Hfix.
Qed.

(* the shape of C02_SetQF, with the value of cannot_be_a_base for the two records the tail setters look at *)
Lemma Canon_cbb u : Canon u ->
  exists pre se ue hs he hi pt ps q f c,
    u = qf_url pre se ue hs he hi pt ps q f
    /\ cannot_be_a_base (qf_url pre se ue hs he hi pt ps q None) = Some c
    /\ cannot_be_a_base (qf_url pre se ue hs he hi pt ps None None) = Some c.
Proof.
  intros [sch P q f K | sch segs last q f K | sch ui h pt p q f K | sch ui h pt p q f K Kp].
  - do 10 eexists. exists true. split; [apply opaque_url_qf|].
    split; rewrite <- opaque_url_qf; apply opaque_cbb_gen; exact (ok_Ph _ _ _ _ K).
  - do 10 eexists. exists false. split; [apply noauth_url_qf|].
    assert (noauth_ok sch segs last q None) as K0 by (destruct K; constructor; try assumption; exact I).
    assert (noauth_ok sch segs last None None) as K1 by (destruct K; constructor; try assumption; exact I).
    split; rewrite <- noauth_url_qf; [exact (proj1 (proj2 (noauth_url_wf sch segs last q None K0)))
                                     | exact (proj1 (proj2 (noauth_url_wf sch segs last None None K1)))].
  - do 10 eexists. exists false. split; [apply auth_url_qf|].
    assert (auth_ok hp hpo hd STNotSpecial sch ui h pt p q None) as K0 by (destruct K; constructor; try assumption; exact I).
    assert (auth_ok hp hpo hd STNotSpecial sch ui h pt p None None) as K1 by (destruct K; constructor; try assumption; exact I).
    split; rewrite <- auth_url_qf; [exact (proj2 (auth_url_wf hp hpo hd HRT _ _ _ _ _ _ _ _ K0))
                                   | exact (proj2 (auth_url_wf hp hpo hd HRT _ _ _ _ _ _ _ _ K1))].
  - do 10 eexists. exists false. split; [apply auth_url_qf|].
    assert (auth_ok hp hpo hd STSpecialNotFile sch ui h pt p q None) as K0 by (destruct K; constructor; try assumption; exact I).
    assert (auth_ok hp hpo hd STSpecialNotFile sch ui h pt p None None) as K1 by (destruct K; constructor; try assumption; exact I).
    split; rewrite <- auth_url_qf; [exact (proj2 (auth_url_wf hp hpo hd HRT _ _ _ _ _ _ _ _ K0))
                                   | exact (proj2 (auth_url_wf hp hpo hd HRT _ _ _ _ _ _ _ _ K1))].
Qed.

(* set_fragment(None): the serialization of the result is the old text up to the '#' *)
Theorem splice_agreement_remove_fragment u u' : Canon u -> first_ok (rev (cut_fragment u)) ->
  set_fragment dbg u None = Some u' -> nlen (ser u') <= U32_MAX_P ->
  ser u' = cut_fragment u /\ parse_url dbg hp hpo hd None None (cut_fragment u) = POk u'.
Proof.
  intros C Hl E Hb. pose proof (set_fragment_Canon dbg hp hpo hd HRT u None u' C I E Hb) as C'.
  assert (ser u' = cut_fragment u) as Es.
  { destruct (Canon_cbb u C) as (pre & se & ue & hs & he & hi & pt & ps & q & f & c & -> & Hc1 & _).
    unfold cut_fragment in *. rewrite (proj1 (qf_frag_cut pre se ue hs he hi pt ps q f)) in *.
    rewrite (set_fragment_qf_none dbg pre se ue hs he hi pt ps q f c Hc1) in E. inversion E; subst u'. clear E.
    destruct (c && match q with None => true | Some _ => false end) eqn:Ec.
    - destruct q; [rewrite andb_false_r in Ec; discriminate Ec|]. cbn [qf_qtext] in *. rewrite app_nil_r in *.
      unfold qf_url. cbn [ser]. unfold qf_text. cbn [qf_qtext qf_ftext app]. rewrite app_nil_r. apply rstrip32_id. exact Hl.
    - unfold qf_url. cbn [ser]. rewrite qf_text_none. reflexivity. }
  split; [exact Es|]. rewrite <- Es. exact (Canon_reparse u' C').
Qed.

(* set_query(None): the old text without "?query" *)
Theorem splice_agreement_remove_query u u' : Canon u -> first_ok (rev (cut_query u)) ->
  set_query dbg u None = Some u' -> nlen (ser u') <= U32_MAX_P ->
  ser u' = cut_query u /\ parse_url dbg hp hpo hd None None (cut_query u) = POk u'.
Proof.
  intros C Hl E Hb. pose proof (set_query_Canon dbg hp hpo hd HRT u None u' C I E Hb) as C'.
  assert (ser u' = cut_query u) as Es.
  { destruct (Canon_cbb u C) as (pre & se & ue & hs & he & hi & pt & ps & q & f & c & -> & _ & Hc2).
    unfold cut_query in *. rewrite qf_query_cut, (proj2 (qf_frag_cut pre se ue hs he hi pt ps q f)) in *.
    rewrite (set_query_qf_none dbg pre se ue hs he hi pt ps q f c Hc2) in E. inversion E; subst u'. clear E.
    destruct (c && match f with None => true | Some _ => false end) eqn:Ec.
    - destruct f; [rewrite andb_false_r in Ec; discriminate Ec|]. cbn [qf_ftext] in *. rewrite app_nil_r in *.
      unfold qf_url. cbn [ser]. unfold qf_text. cbn [qf_qtext qf_ftext app]. rewrite app_nil_r. apply rstrip32_id. exact Hl.
    - unfold qf_url. cbn [ser]. unfold qf_text. reflexivity. }
  split; [exact Es|]. rewrite <- Es. exact (Canon_reparse u' C').
Qed.

(* set_port(None): the old text without ":port" - no exclusion *)
Theorem splice_agreement_remove_port u u' : Canon u ->
  set_port dbg u None = Some (u', SOk) -> nlen (ser u') <= U32_MAX_P ->
  ser u' = cut_port u /\ parse_url dbg hp hpo hd None None (cut_port u) = POk u'.
Proof.
  intros C E Hb. pose proof (set_port_Canon dbg hp hpo hd u None u' SOk C I E Hb) as C'.
  assert (ser u' = cut_port u) as Es.
  { assert (forall st sch ui h pt p q f, auth_ok hp hpo hd st sch ui h pt p q f -> st_is_file st = false ->
              set_port dbg (auth_url hd sch ui h pt p q f) None = Some (u', SOk) ->
              ser u' = cut_port (auth_url hd sch ui h pt p q f)) as G.
    { intros st sch ui h pt p q f K Hnf E0. unfold set_port in E0.
      rewrite (auth_cannot_port hp hpo hd st sch ui h pt p q f K Hnf) in E0. cbn [bindo] in E0.
      destruct (match h with HDomain [] => true | _ => false end); [discriminate E0|].
      rewrite (auth_scheme hd) in E0. cbn [bindo] in E0. rewrite (auth_url_hp hd) in E0 |- *.
      rewrite set_port_internal_frame in E0. cbn [bindo] in E0. inversion E0; subst u'.
      unfold cut_port. rewrite !hp_ser.
      change (host_end (hp_url (auth_A sch ui ++ hd h) pt (pth_text p) (nlen sch) (nlen sch + 3 + ui_ulen ui)
                 (nlen sch + 3 + nlen (ui_text ui)) (hi_of_host h) q f)) with (nlen (auth_A sch ui ++ hd h)).
      change (path_start (hp_url (auth_A sch ui ++ hd h) pt (pth_text p) (nlen sch) (nlen sch + 3 + ui_ulen ui)
                 (nlen sch + 3 + nlen (ui_text ui)) (hi_of_host h) q f)) with (nlen ((auth_A sch ui ++ hd h) ++ port_text pt)).
      rewrite nfirstn_app_len. rewrite (app_assoc (auth_A sch ui ++ hd h) (port_text pt)). rewrite nskipn_app_len. reflexivity. }
    destruct C as [sch P q f K | sch segs last q f K | sch ui h pt p q f K | sch ui h pt p q f K Kp].
    - unfold set_port, cannot_have_credentials_or_port, has_host in E. cbn [opaque_url hosti negb bindo] in E. discriminate E.
    - unfold set_port, cannot_have_credentials_or_port, has_host in E. cbn [noauth_url hosti negb bindo] in E. discriminate E.
    - exact (G STNotSpecial sch ui h pt p q f K eq_refl E).
    - exact (G STSpecialNotFile sch ui h pt p q f K eq_refl E). }
  split; [exact Es|]. rewrite <- Es. exact (Canon_reparse u' C').
Qed.

End None.
