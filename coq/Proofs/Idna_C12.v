(* Proofs/Idna_C12.v - C12 on the fastest tier, and "accepted by ToASCII => no ToUnicode error". *)
From RU Require Import Base.Prelude Base.Utf8 Base.Utf8Facts Base.U32_c13 Gen.Tables Model.Punycode Model.Uts46
  Proofs.Idna_Sim Proofs.Idna_Api Proofs.Idna_Known Proofs.Idna_Hyp.

Lemma utf8_encode_ascii (l : list N) : Forall (fun b => b < 128) l -> utf8_encode l = l.
Proof.
  induction 1 as [|b r Hb Hr IH]; [reflexivity|].
  unfold utf8_encode in *. cbn [flat_map]. rewrite IH. unfold utf8_encode1.
  replace (b <? 128) with true by lia. reflexivity.
Qed.
Lemma lower_or_dot_ascii d : Forall lower_or_dot d -> Forall (fun b => b < 128) d.
Proof. intros H. eapply Forall_impl; [|exact H]. unfold lower_or_dot, DOT. intros; lia. Qed.

Lemma c12_fast A cfg d deny hy p : bytes d -> fast_tier d d = None ->
  let a := d in let u := ui_text (to_unicode A cfg d deny hy) in
  to_ascii A cfg d deny hy DIgnore = Ok (true, a) /\
  to_unicode A cfg a deny hy = UI true u false /\
  to_ascii A cfg (utf8_encode u) deny hy DIgnore = Ok (true, a) /\
  to_unicode A cfg (utf8_encode u) deny hy = UI true u false /\
  to_ascii A cfg (utf8_encode (ui_text (to_user_interface A cfg d deny hy p))) deny hy DIgnore = Ok (true, a).
Proof.
  intros Hb H. cbv zeta. unfold to_unicode.
  rewrite !(to_ui_fast A cfg d deny hy _ H). cbn [ui_text].
  rewrite (utf8_encode_ascii d (lower_or_dot_ascii d (fast_tier_none d Hb d H))).
  rewrite !(to_ui_fast A cfg d deny hy _ H). rewrite (to_ascii_fast A cfg d deny hy H). repeat split.
Qed.

Lemma c12_accepted_no_error A cfg d deny hy b a bu t e : Redisc A cfg deny ->
  to_ascii A cfg d deny hy DIgnore = Ok (b, a) ->
  to_unicode A cfg d deny hy = UI bu t e -> e = false.
Proof.
  intros HR Ha Hu. destruct e; [|reflexivity].
  unfold to_unicode in Hu. rewrite (mark_err_ff_err A cfg d deny hy _ bu t HR Hu) in Ha. discriminate.
Qed.
