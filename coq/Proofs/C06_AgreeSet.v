(* Proofs/C06_AgreeSet.v - parser agreement per setter: what the component reads after a successful call
   (C06_get / C06_frame_path / C06_set_host_some) is what the parser state of that component (context
   UrlParser) writes for the argument text standing at that position (Proofs/C06_Agree.v). *)
From RU Require Import Base.Prelude Base.Utf8 Base.Utf8Facts Model.AsciiSet Gen.Tables Model.PercentEncoding
  Model.HostT Model.UrlRecord Model.Parser Model.Setters Model.WF
  Proofs.ListN Proofs.C14_Set Proofs.C14_Enc Proofs.C02_Enc Proofs.C02_Parts Proofs.C02_Opaque Proofs.C02_AuthParts
  Proofs.C03_WF Proofs.C06_List Proofs.C06_WFI Proofs.C06_Tail Proofs.C06_Steps Proofs.C06_Suffix Proofs.C06_Front
  Proofs.C06_FragQuery Proofs.C06_Port Proofs.C06_Cred Proofs.C06_Host Proofs.C06_Path Proofs.C06_Main
  Proofs.C06_Quirks Proofs.C06_Agree.

Section AgreeSet.
Variable dbg : bool.
Variable hp hpo : list N -> result host.
Variable hd : host -> list N.

(* the scheme type of a record (as the parser classifies it) *)
Definition stype (u : url) : scheme_type := scheme_type_of (nfirstn (scheme_end u) (ser u)).

Lemma uenc_userinfo_enc x : usv_list x -> userinfo_enc x = uenc x.
Proof. intros H. unfold userinfo_enc, uenc. apply pe_display_utf8. exact H. Qed.

(* ---------- fragment ---------- *)
Theorem agree_fragment u x u' : wfh u -> set_fragment dbg u (Some x) = Some u' ->
  exists F, fragment dbg u' = Some (Some F)
    /\ forall ovr st se ser, nlen ser <= U32_MAX_P ->
         parse_query_and_fragment ovr CUrlParser st se ser (35 :: x) = POk (ser ++ 35 :: F, None, Some (nlen ser)).
Proof.
  intros Hw E. destruct (get_all dbg hd u Hw) as (G & _). exists (tnl_text T_FRAGMENT x).
  split; [exact (G (Some x) u' E)|]. intros ovr st se ser Hb. apply pqf_fragment. exact Hb.
Qed.

(* ---------- query: argument free of '#' ---------- *)
Theorem agree_query u x u' : wfh u -> usv_list x -> forallb no_h x = true -> set_query dbg u (Some x) = Some u' ->
  exists Q, query dbg u' = Some (Some Q)
    /\ forall se ser X, h_tail X -> nlen ser <= U32_MAX_P -> nlen (ser ++ 63 :: Q) <= U32_MAX_P ->
         parse_query_and_fragment None CUrlParser (stype u) se ser (63 :: x ++ X)
         = POk (match after_hash X with
                | None => (ser ++ 63 :: Q, Some (nlen ser), None)
                | Some r => ((ser ++ 63 :: Q) ++ 35 :: tnl_text T_FRAGMENT r, Some (nlen ser), Some (nlen (ser ++ 63 :: Q)))
                end).
Proof.
  intros Hw Hx Hh E. destruct (get_all dbg hd u Hw) as (_ & G & _). exists (query_text u x).
  split; [exact (G (Some x) u' Hx E)|]. intros se ser X HX Hb1 Hb2.
  unfold query_text in *. fold (stype u) in *. rewrite tnl_text_trim in * by exact Hx.
  apply pqf_query; assumption.
Qed.

(* ---------- port ---------- *)
Theorem agree_port u p u' : wfh u -> p <= 65535 -> set_port dbg u (Some p) = Some (u', SOk) ->
  exists sch, scheme u = Some sch
    /\ forall X, pe_ok X -> parse_port CUrlParser (default_port sch) (decimal p ++ X) = POk (port u', X).
Proof.
  intros Hw Hp E. destruct (get_all dbg hd u Hw) as (_ & _ & G & _).
  destruct (G (Some p) u' Hp E) as (sch & Hs & Hpt). exists sch. split; [exact Hs|]. intros X HX.
  rewrite Hpt. unfold norm_port. apply parse_port_decimal; assumption.
Qed.

(* ---------- password: argument non-empty, free of TAB/LF/CR, '@' and the authority delimiters ---------- *)
Theorem agree_password u y u' : wfh u -> usv_list y -> y <> [] ->
  forallb (plainc (st_is_special (stype u))) y = true ->
  set_password dbg u (Some y) = Some (u', SOk) ->
  exists P, password dbg u' = Some (Some P)
    /\ forall A u0 X, clean T_USERINFO u0 = true ->
         (forall count last, scan_last_at (st_is_special (stype u)) X count last = last) ->
         nlen A + nlen u0 <= U32_MAX_P ->
         parse_userinfo (stype u) A (u0 ++ 58 :: y ++ 64 :: X) = POk (A ++ u0 ++ 58 :: P ++ [64], nlen A + nlen u0, X).
Proof.
  intros Hw Hy Hne Hpl E. destruct (get_all dbg hd u Hw) as (_ & _ & _ & G & _). exists (uenc y). split.
  - rewrite (G (Some y) u' E). destruct y as [|c r]; [contradiction|]. rewrite uenc_userinfo_enc by exact Hy. reflexivity.
  - intros A u0 X Hu0 HX Hb. apply parse_userinfo_raw_pw; assumption.
Qed.

(* ---------- username: argument free of TAB/LF/CR, ':', '@' and the authority delimiters; the stored
   username is clean for USERINFO (true of every parsed URL, C05) - needed only for the code's shortcut
   "argument = stored text: nothing to do" ---------- *)
Theorem agree_username u x u' : wfh u -> usv_list x ->
  forallb (fun c => plainc (st_is_special (stype u)) c && negb (c =? 58)) x = true ->
  (forall cur, username dbg u = Some cur -> clean T_USERINFO cur = true) ->
  set_username dbg u x = Some (u', SOk) ->
  exists U, username dbg u' = Some U
    /\ forall A pw X, match pw with Some p => clean T_USERINFO p = true /\ p <> [] | None => x <> [] end ->
         (forall count last, scan_last_at (st_is_special (stype u)) X count last = last) ->
         nlen A + nlen U <= U32_MAX_P ->
         parse_userinfo (stype u) A (x ++ pw_text pw ++ 64 :: X) = POk (A ++ U ++ pw_text pw ++ [64], nlen A + nlen U, X).
Proof.
  intros Hw Hx Hpl Hcl E. destruct (get_all dbg hd u Hw) as (_ & _ & _ & _ & G & _).
  destruct (G x u' E) as (cur & Hc & Hu). exists (uenc x). split.
  - rewrite Hu. f_equal. destruct (list_eqb cur (utf8_encode x)) eqn:El.
    + apply list_eqb_spec in El. unfold uenc. rewrite <- El. symmetry. apply encode_clean. exact (Hcl cur Hc).
    + apply uenc_userinfo_enc. exact Hx.
  - intros A pw X Hpw HX Hb. apply parse_userinfo_raw_user; assumption.
Qed.

(* ---------- path (URL with an authority): argument free of '?' and '#', not starting with TAB/LF/CR ---------- *)
Theorem agree_path u p u' : wfh u -> has_authority_b u = true -> usv_list p -> auth_end_ok u ->
  forallb no_qh p = true -> match p with c :: _ => is_tnl c = false | [] => True end ->
  set_path dbg u p = Some u' ->
  exists P, path u' = Some P
    /\ forall X, qh_tail X ->
         exists hh, parse_path_start dbg CUrlParser (stype u) true (nfirstn (path_start u) (ser u)) (p ++ X)
                    = POk (nfirstn (path_start u) (ser u) ++ P, hh, X).
Proof.
  intros Hw Ha Hp He Hq H1 E. destruct (path_all dbg u Hw Ha) as (G & _).
  destruct (G p u' Hp He E) as (_ & _ & _ & _ & P & HP & _ & hh & rem & Hps).
  exists P. split; [exact HP|]. intros X HX. exists hh.
  unfold stype. rewrite (path_start_ctx dbg _ true _ p X Hq HX H1). rewrite Hps. reflexivity.
Qed.

(* ---------- host: scheme other than file, argument free of TAB/LF/CR, ':' '/' '?' '#' '[' ']' (and '\' for a
   special scheme) ---------- *)
Lemma set_host_some_special_nonempty u u' sch : wf_b u = true -> scheme u = Some sch ->
  set_host dbg hp hpo hd u (Some []) = Some (u', SOk) ->
  st_is_special (scheme_type_of sch) && negb (st_is_file (scheme_type_of sch)) = false.
Proof.
  intros W Hs H. unfold set_host in H. rewrite (cannot_be_a_base_eval u W) in H. cbn [bindo] in H.
  destruct (negb (byte_eqb (ser u) (scheme_end u + 1) 47)); [discriminate|].
  unfold u_scheme_type in H. rewrite Hs in H. cbn [bindo andb] in H.
  destruct (st_is_special (scheme_type_of sch) && negb (st_is_file (scheme_type_of sch))); [discriminate | reflexivity].
Qed.

Theorem agree_host u x u' : host_fns_ok hp hpo hd -> wfh u ->
  (has_authority_b u = false -> path_start u = scheme_end u + 1) ->
  st_is_file (stype u) = false -> forallb (hostc (st_is_special (stype u))) x = true ->
  set_host dbg hp hpo hd u (Some x) = Some (u', SOk) ->
  exists h, ((has_authority_b u = true -> hi_of_host h = HI_None -> port u = None) ->
             host_str u' = Some (if hi_some (hi_of_host h) then Some (hd h) else None) /\ hosti u' = hi_of_host h)
    /\ forall X, host_tail (st_is_special (stype u)) X -> parse_host hp hpo (stype u) (x ++ X) = POk (h, X).
Proof.
  intros HF [W HT] X2 Hnf Hx E.
  destruct (set_host_some_post dbg hp hpo hd HF u x u' W X2 E) as (sch & t & h & Hs & Ht & Hh & Hpost).
  assert (sch = nfirstn (scheme_end u) (ser u)) as Esch.
  { rewrite (scheme_eval u W) in Hs. inversion Hs. unfold piece. cbn [pidx]. rewrite N.sub_0_r, nskipn_0. reflexivity. }
  assert (t = x) as ->.
  { unfold set_host_arg_text in Ht.
    assert (forallb (fun c => negb (c =? 91)) x = true /\ forallb (fun c => negb (c =? 58)) x = true) as [H91 H58].
    { split; apply (forallb_impl (hostc (st_is_special (stype u)))); try exact Hx; intros c Hc; unfold hostc, host_stop in Hc;
        destruct (st_is_special (stype u)); cbn [negb andb] in Hc; lia. }
    assert ((match x with 91 :: _ => true | _ => false end) = false) as E91.
    { destruct x as [|c r]; [reflexivity|]. cbn [forallb] in H91. apply andb_true_iff in H91. destruct H91 as [H _].
      apply negb_true_iff in H. destruct c as [|pc]; [reflexivity|]. repeat (destruct pc as [pc|pc|]; try reflexivity); discriminate H. }
    rewrite E91 in Ht. cbn [andb] in Ht. unfold find_byte in Ht. rewrite (find_byte_aux_none 58 x 0 H58) in Ht.
    inversion Ht. reflexivity. }
  exists h. split.
  - intros X1. destruct (Hpost X1) as (_ & _ & _ & _ & _ & _ & _ & A & B). split; assumption.
  - intros X HX. rewrite (parse_host_raw hp hpo (stype u) x X Hnf Hx HX).
    unfold stype in *. rewrite <- Esch in *.
    assert (scheme_type_eqb (scheme_type_of sch) STSpecialNotFile && match x with [] => true | _ => false end = false) as Ee.
    { destruct x as [|c r]; [|apply andb_false_r]. rewrite andb_true_r.
      pose proof (set_host_some_special_nonempty u u' sch W Hs E) as Hn.
      destruct (scheme_type_of sch); cbn in *; congruence. }
    rewrite Ee. destruct (st_is_special (scheme_type_of sch)); rewrite Hh; reflexivity.
Qed.

End AgreeSet.

(* ---------- non-vacuity, and the composition on concrete inputs ---------- *)
(* record "a://h:80/p?q#f" (qx_u of C06_Quirks.v), host functions qx_hp / qx_hd.  Each argument meets the
   hypotheses of its theorem, the call succeeds, and Parser::parse_url on the old serialization with the raw
   argument text spliced in returns THE SAME RECORD as the setter (all ten fields) *)
From Coq Require Import String.
From RU Require Import Proofs.C02_Reach.
Definition same_as_parse (r : option url) (spliced : string) : bool :=
  match r with
  | Some u' => match parse_url true qx_hp qx_hp qx_hd None None (B spliced) with
               | POk u'' => url_eqb u'' u'
               | _ => false
               end
  | None => false
  end.
Definition ok_of (r : option (url * status)) : option url :=
  match r with Some (u', SOk) => Some u' | _ => None end.

Example agree_inhabited :
  (* arguments: "u s", "p:w", "xy", 81, "/a b/../c", "k v", "f g" *)
  forallb (fun c => plainc false c && negb (c =? 58)) (B "u s") = true
  /\ forallb (plainc false) (B "p:w") = true
  /\ forallb (hostc false) (B "xy") = true /\ st_is_file (stype qx_u) = false /\ st_is_special (stype qx_u) = false
  /\ forallb no_qh (B "/a b/../c") = true /\ forallb no_h (B "k v") = true
  /\ username true qx_u = Some [] /\ has_authority_b qx_u = true
  /\ same_as_parse (ok_of (set_username true qx_u (B "u s"))) "a://u s@h:80/p?q#f" = true
  /\ same_as_parse (ok_of (set_password true qx_u (Some (B "p:w")))) "a://:p:w@h:80/p?q#f" = true
  /\ same_as_parse (ok_of (set_host true qx_hp qx_hp qx_hd qx_u (Some (B "xy")))) "a://xy:80/p?q#f" = true
  /\ same_as_parse (ok_of (set_port true qx_u (Some 81))) "a://h:81/p?q#f" = true
  /\ same_as_parse (set_path true qx_u (B "/a b/../c")) "a://h:80/a b/../c?q#f" = true
  /\ same_as_parse (set_query true qx_u (Some (B "k v"))) "a://h:80/p?k v#f" = true
  /\ same_as_parse (set_fragment true qx_u (Some (B "f g"))) "a://h:80/p?q#f g" = true
  /\ (exists u', set_username true qx_u (B "u s") = Some (u', SOk) /\ ser u' = B "a://u%20s@h:80/p?q#f")
  /\ (exists u', set_path true qx_u (B "/a b/../c") = Some u' /\ ser u' = B "a://h:80/c?q#f").
Proof. vm_compute. repeat split; eexists; split; reflexivity. Qed.
