(* Proofs/C02_FileCanon.v - the fifth canonical form (file records, C02_File.file_ok) as a predicate FileCanon on
   records: every FileCanon record is a fixpoint of re-parsing, well-formed (wf_b, through C03's theorem that every
   parse result is well-formed) and ASCII.  Non-vacuity on the example host functions of C02_AuthMain, and the two
   drive-letter arms of the path loop seen on concrete inputs. *)
From Coq Require Import String.
From RU Require Import Base.Prelude Base.Utf8 Base.Utf8Facts Model.AsciiSet Gen.Tables
  Model.PercentEncoding Model.HostT Model.UrlRecord Model.Parser Model.Setters Model.WF
  Proofs.ListN Proofs.C14_Set Proofs.C14_Enc Proofs.C14_Views Proofs.C02_Enc Proofs.C02_Parts
  Proofs.C02_Opaque Proofs.C02_Path Proofs.C02_PathL1 Proofs.C02_Reach Proofs.C02_AuthParts
  Proofs.C02_Auth Proofs.C02_AuthWf Proofs.C02_PathSp Proofs.C02_AuthSp Proofs.C02_AuthMain Proofs.C02_SetQF Proofs.C02_Canon
  Proofs.C02_File Proofs.C02_FileL1.
From RU Require Proofs.C03_ReachParts Proofs.C03_ReachHost Proofs.C03_ReachFile.
Open Scope N_scope.
Open Scope list_scope.

Section FileCanon.
Variable dbg : bool.
Variable hp hpo : list N -> result host.
Variable hd : host -> list N.
Hypothesis HRT : HostRT hp hpo hd.

Inductive FileCanon : url -> Prop :=
| FileCanon_intro ho segs last q f : file_ok hp hd ho segs last q f ->
    FileCanon (file_curl hd ho (path_text segs last) q f).

Lemma file_ser_ascii ho segs last q f : file_ok hp hd ho segs last q f ->
  ascii (file_ser hd ho (path_text segs last) q f).
Proof.
  intros K. destruct K as [Kh Ksegs Klast Kfirst Kq Kf Kb1 Kbq Kbf].
  unfold file_ser, file_pre, file_front.
  apply ascii_app; split; [apply ascii_app; split; [apply ascii_app; split|]|].
  - apply Forall_forall. intros c Hc. unfold s_file_css, s_file, s_css in Hc. cbn [app In] in Hc. unfold is_ascii.
    repeat (destruct Hc as [<-|Hc]; [lia|]). destruct Hc.
  - destruct ho as [h|]; cbn [fhost_text]; [|constructor]. destruct Kh as (_ & _ & (Ha & _) & _). exact Ha.
  - unfold path_text. constructor; [unfold is_ascii; lia|]. apply ascii_app. split.
    + clear Kfirst Kbq Kbf. induction segs as [|s r IH]; [constructor|].
      cbn [forallb] in Ksegs. apply andb_true_iff in Ksegs. destruct Ksegs as [Hs Hr].
      unfold segs_text. cbn [map concat]. fold (segs_text r). rewrite <- app_assoc. apply ascii_app. split.
      * destruct (good_seg_sp_parts s (fseg_ok_sp s Hs)) as (Hc & _). exact (clean_ascii T_PATH s Hc).
      * constructor; [unfold is_ascii; lia | exact (IH Hr)].
    + destruct (good_seg_sp_parts last (fseg_ok_sp last Klast)) as (Hc & _). exact (clean_ascii T_PATH last Hc).
  - unfold qf_text. apply ascii_app. split.
    + destruct q as [x|]; [|constructor]. cbn [qf_qtext]. constructor; [unfold is_ascii; lia|]. exact (clean_ascii _ x Kq).
    + destruct f as [y|]; [|constructor]. cbn [qf_ftext]. constructor; [unfold is_ascii; lia|]. exact (clean_ascii _ y Kf).
Qed.

Theorem FileCanon_fixpoint u : FileCanon u ->
  Fixpoint_of_reparse dbg hp hpo hd u /\ wf_b u = true /\ ascii (ser u).
Proof.
  intros [ho segs last q f K]. pose proof (file_ser_ascii ho segs last q f K) as A.
  pose proof (reparse_file_form dbg hp hpo hd ho segs last q f K) as R.
  split; [|split].
  - unfold Fixpoint_of_reparse, reparse. unfold file_curl at 1, qf_url at 1. cbn [ser].
    fold (file_ser hd ho (path_text segs last) q f). rewrite utf8_lossy_ascii by exact A. exact R.
  - exact (proj1 (C03_ReachFile.parse_url_wf_all dbg hp hpo hd None (C03_ReachHost.HostRT_HostWf hp hpo hd HRT) None _ _ I R)).
  - exact A.
Qed.

End FileCanon.

(* ---------- non-vacuity: file://h.example/a/b%20c?q#f and file:///x on the example host functions ---------- *)
Example file_ok_example :
  file_ok ex_hp ex_hd (Some (HDomain (B "h.example"))) [B "a"] (B "b%20c") (Some (B "q")) (Some (B "f"))
  /\ file_ok ex_hp ex_hd None [] (B "x") None None
  /\ list_eqb (ser (file_curl ex_hd (Some (HDomain (B "h.example"))) (path_text [B "a"] (B "b%20c")) (Some (B "q")) (Some (B "f"))))
              (B "file://h.example/a/b%20c?q#f") = true
  /\ list_eqb (ser (file_curl ex_hd None (path_text [] (B "x")) None None)) (B "file:///x") = true.
Proof.
  split; [|split; [|split; vm_compute; reflexivity]].
  - constructor; try (vm_compute; reflexivity); try (vm_compute; discriminate).
    cbn [fhost_ok]. split; [discriminate|]. split; [discriminate|]. split.
    + apply ex_text_ok; [discriminate | vm_compute; reflexivity].
    + repeat split; vm_compute; reflexivity.
  - constructor; try (vm_compute; reflexivity); try (vm_compute; discriminate); exact I.
Qed.

(* the two drive-letter arms of the file path loop: "C|" as first segment is rewritten to "C:" (the host flag is
   cleared); a tab after "c:" makes the loop insert '/' before the next character (F-C01-7) - the results begin with
   a normalised drive letter, the second disjunct of loop_inv_f *)
Example file_loop_drive_arms :
  parse_path_loop true CUrlParser STFile 7 (B "C|/x") (B "file:///") 8 [] true = POk (B "file:///C:/x", false, [])
  /\ parse_path_loop true CUrlParser STFile 7 (9 :: B "x") (B "file:///c:") 8 [] false = POk (B "file:///c:/x", false, [])
  /\ parse_path_loop true CUrlParser STFile 7 (B "a/../C:/../b") (B "file:///") 8 [] false = POk (B "file:///C:/b", false, []).
Proof. vm_compute. repeat split; reflexivity. Qed.
