(* Proofs/C14_Views.v - iterator, Display, Cow, size_hint, if_any agree with encode/decode. *)
From RU Require Import Base.Prelude Model.AsciiSet Gen.Tables Model.PercentEncoding
  Proofs.C14_Set Proofs.C14_Enc.

(* table-based per-byte encoding, as the iterator produces it *)
Definition enc1_t (S : aset) (b : N) : list N := if should_encode S b then enc_byte b else [b].
Definition encode_t (S : aset) (bs : list N) : list N := flat_map (enc1_t S) bs.

Lemma encode_t_is_encode S bs : bytes bs -> encode_t S bs = encode S bs.
Proof.
  induction bs as [|b r IH]; intros H; [reflexivity|].
  inversion H as [|? ? Hb Hr]; subst. unfold encode_t, encode. cbn [flat_map].
  unfold enc1_t. rewrite enc_byte_is_spec by exact Hb. f_equal. apply IH. exact Hr.
Qed.

Lemma span_keep_spec S bs u rest : span_keep S bs = (u, rest) ->
  bs = u ++ rest /\ encode_t S u = u /\ Forall (fun b => should_encode S b = false) u
  /\ (length rest <= length bs)%nat
  /\ match rest with [] => True | b :: _ => should_encode S b = true end.
Proof.
  revert u rest. induction bs as [|b r IH]; intros u rest H; cbn [span_keep] in H.
  - inversion H; subst. repeat split; constructor.
  - destruct (should_encode S b) eqn:E.
    + inversion H; subst. repeat split; try constructor. exact E.
    + destruct (span_keep S r) as [u' rest'] eqn:Es. inversion H; subst.
      destruct (IH u' rest eq_refl) as (H1 & H2 & H3 & H4 & H5).
      repeat split.
      * cbn [app]. f_equal. exact H1.
      * unfold encode_t. cbn [flat_map]. unfold enc1_t at 1. rewrite E. cbn [app]. f_equal. exact H2.
      * constructor; assumption.
      * cbn [length]. lia.
      * exact H5.
Qed.

Lemma pe_next_spec S bs c rest : bytes bs -> pe_next S bs = Some (c, rest) ->
  encode_t S bs = c ++ encode_t S rest /\ c <> [] /\ (length rest < length bs)%nat /\ bytes rest.
Proof.
  intros Hby.
  destruct bs as [|b r]; cbn [pe_next]; [discriminate|].
  inversion Hby as [|? ? Hb Hr]; subst.
  destruct (should_encode S b) eqn:E.
  - intros H. inversion H; subst. repeat split.
    + unfold encode_t. cbn [flat_map]. unfold enc1_t at 1. rewrite E. reflexivity.
    + rewrite enc_byte_is_spec by exact Hb. discriminate.
    + cbn [length]. lia.
    + exact Hr.
  - destruct (span_keep S r) as [u rest'] eqn:Es. intros H. inversion H; subst.
    destruct (span_keep_spec _ _ _ _ Es) as (H1 & H2 & H3 & H4 & H5).
    repeat split.
    + unfold encode_t. cbn [flat_map]. unfold enc1_t at 1. rewrite E. cbn [app]. f_equal.
      fold (encode_t S r). rewrite H1. unfold encode_t. rewrite flat_map_app.
      fold (encode_t S u). rewrite H2. reflexivity.
    + discriminate.
    + cbn [length]. lia.
    + rewrite H1 in Hr. apply bytes_app in Hr. tauto.
Qed.

Lemma pe_next_none S bs : pe_next S bs = None <-> bs = [].
Proof.
  destruct bs as [|b r]; cbn [pe_next]; [tauto|].
  destruct (should_encode S b); [split; discriminate|].
  destruct (span_keep S r); split; discriminate.
Qed.

Lemma chunks_f_concat n : forall S bs, bytes bs -> (length bs <= n)%nat ->
  concat (pe_chunks_f n S bs) = encode_t S bs /\ Forall (fun c => c <> []) (pe_chunks_f n S bs).
Proof.
  induction n as [|n IH]; intros S bs Hby Hlen.
  - destruct bs; [split; [reflexivity|constructor] | cbn in Hlen; lia].
  - cbn [pe_chunks_f]. destruct (pe_next S bs) as [[c rest]|] eqn:En.
    + destruct (pe_next_spec _ _ _ _ Hby En) as (H1 & H2 & H3 & H4).
      destruct (IH S rest H4 ltac:(lia)) as [I1 I2].
      split; [cbn [concat]; rewrite I1; symmetry; exact H1 | constructor; assumption].
    + apply pe_next_none in En. subst. split; [reflexivity|constructor].
Qed.

(* fuel irrelevance: any fuel >= length gives the same chunks *)
Lemma chunks_f_fuel n : forall m S bs, bytes bs -> (length bs <= n)%nat -> (length bs <= m)%nat ->
  pe_chunks_f n S bs = pe_chunks_f m S bs.
Proof.
  induction n as [|n IH]; intros m S bs Hby Hn Hm.
  - destruct bs; [|cbn in Hn; lia]. destruct m; reflexivity.
  - destruct m as [|m].
    + destruct bs; [reflexivity | cbn in Hm; lia].
    + cbn [pe_chunks_f]. destruct (pe_next S bs) as [[c rest]|] eqn:En; [|reflexivity].
      destruct (pe_next_spec _ _ _ _ Hby En) as (H1 & H2 & H3 & H4).
      f_equal. apply IH; [exact H4 | lia | lia].
Qed.

(* the iterator protocol: chunks = first next, then chunks of the rest *)
Theorem pe_chunks_unfold S bs : bytes bs ->
  pe_chunks S bs = match pe_next S bs with None => [] | Some (c, rest) => c :: pe_chunks S rest end.
Proof.
  intros Hby. unfold pe_chunks. destruct bs as [|b r]; [reflexivity|].
  cbn [length pe_chunks_f]. destruct (pe_next S (b :: r)) as [[c rest]|] eqn:En; [|reflexivity].
  destruct (pe_next_spec _ _ _ _ Hby En) as (H1 & H2 & H3 & H4).
  f_equal. apply chunks_f_fuel; [exact H4 | cbn [length] in H3; lia | lia].
Qed.

Theorem pe_display_is_encode S bs : bytes bs -> pe_display S bs = encode S bs.
Proof.
  intros Hby. unfold pe_display, pe_chunks.
  destruct (chunks_f_concat (length bs) S bs Hby ltac:(lia)) as [H _].
  rewrite H. apply encode_t_is_encode. exact Hby.
Qed.

Theorem pe_chunks_nonempty S bs : bytes bs -> Forall (fun c => c <> []) (pe_chunks S bs).
Proof.
  intros Hby. unfold pe_chunks.
  destruct (chunks_f_concat (length bs) S bs Hby ltac:(lia)) as [_ H]. exact H.
Qed.

(* number of chunks is bounded by the number of bytes *)
Lemma chunks_f_length n : forall S bs, bytes bs -> (length bs <= n)%nat ->
  (length (pe_chunks_f n S bs) <= length bs)%nat /\ (bs <> [] -> (1 <= length (pe_chunks_f n S bs))%nat).
Proof.
  induction n as [|n IH]; intros S bs Hby Hlen.
  - destruct bs; [cbn; split; [lia|congruence] | cbn in Hlen; lia].
  - cbn [pe_chunks_f]. destruct (pe_next S bs) as [[c rest]|] eqn:En.
    + destruct (pe_next_spec _ _ _ _ Hby En) as (H1 & H2 & H3 & H4).
      destruct (IH S rest H4 ltac:(lia)) as [I1 _]. cbn [length]. split; lia.
    + apply pe_next_none in En. subst. cbn. split; [lia|congruence].
Qed.

Theorem pe_size_hint_ok S bs : bytes bs ->
  let n := N.of_nat (length (pe_chunks S bs)) in
  fst (pe_size_hint bs) <= n /\ match snd (pe_size_hint bs) with Some hi => n <= hi | None => True end.
Proof.
  intros Hby. cbv zeta.
  destruct (chunks_f_length (length bs) S bs Hby ltac:(lia)) as [H1 H2]. fold (pe_chunks S bs) in H1, H2.
  destruct bs as [|b r].
  - cbn. lia.
  - cbn [pe_size_hint fst snd]. specialize (H2 ltac:(discriminate)). lia.
Qed.

(* ---------- Cow conversion of PercentEncode ---------- *)
Theorem pe_cow_value S bs : bytes bs -> snd (pe_cow S bs) = encode S bs.
Proof.
  intros Hby. rewrite <- pe_display_is_encode by exact Hby. unfold pe_cow, pe_display.
  rewrite (pe_chunks_unfold S bs Hby).
  destruct (pe_next S bs) as [[c1 r1]|] eqn:E1; [|reflexivity].
  destruct (pe_next_spec _ _ _ _ Hby E1) as (_ & _ & _ & Hr1).
  rewrite (pe_chunks_unfold S r1 Hr1).
  destruct (pe_next S r1) as [[c2 r2]|] eqn:E2.
  - cbn [snd concat]. reflexivity.
  - cbn [snd concat]. rewrite app_nil_r. reflexivity.
Qed.

Lemma encode_len_ge S bs : (length bs <= length (encode S bs))%nat.
Proof.
  induction bs as [|b r IH]; [cbn; lia|]. rewrite encode_cons, app_length. unfold enc1.
  destruct (should_encode S b); cbn [length enc_byte_spec]; lia.
Qed.

Lemma encode_id_iff S bs : encode S bs = bs <-> Forall (fun b => should_encode S b = false) bs.
Proof.
  induction bs as [|b r IH]; [split; [constructor|reflexivity]|].
  rewrite encode_cons. unfold enc1. destruct (should_encode S b) eqn:E.
  - split; intros H.
    + exfalso. apply (f_equal (@length N)) in H. cbn [app length enc_byte_spec] in H.
      pose proof (encode_len_ge S r). lia.
    + inversion H; congruence.
  - cbn [app]. split; intros H.
    + assert (encode S r = r) as H1 by congruence. constructor; [exact E | apply IH; exact H1].
    + inversion H as [|? ? _ H2]; subst. f_equal. apply IH. exact H2.
Qed.

Theorem pe_cow_kind S bs : bytes bs ->
  match fst (pe_cow S bs) with
  | BorrowedInput => encode S bs = bs /\ snd (pe_cow S bs) = bs
  | BorrowedStatic => bs = [] \/ exists b, bs = [b] /\ should_encode S b = true
  | Owned => encode S bs <> bs
  end.
Proof.
  intros Hby. pose proof (pe_cow_value S bs Hby) as Hv. revert Hv. unfold pe_cow.
  destruct (pe_next S bs) as [[c1 r1]|] eqn:E1.
  2:{ intros _. left. apply pe_next_none in E1. exact E1. }
  destruct (pe_next_spec _ _ _ _ Hby E1) as (Henc1 & _ & _ & Hr1).
  destruct (pe_next S r1) as [[c2 r2]|] eqn:E2.
  - (* two chunks: some byte was encoded *)
    intros _. cbn [fst]. intros Hid. apply encode_id_iff in Hid.
    destruct bs as [|b r]; [discriminate|]. cbn [pe_next] in E1.
    inversion Hid as [|? ? Hb0 Hr0]; subst. rewrite Hb0 in E1.
    destruct (span_keep S r) as [u rest] eqn:Es. inversion E1; subst.
    destruct (span_keep_spec _ _ _ _ Es) as (H1 & _ & _ & _ & H5).
    destruct r1 as [|x r1']; [discriminate|].
    rewrite H1 in Hr0. apply Forall_app in Hr0. destruct Hr0 as [_ Hr0].
    inversion Hr0; subst. congruence.
  - apply pe_next_none in E2. subst r1. cbn [fst snd].
    destruct bs as [|b r]; [discriminate|]. cbn [pe_next] in E1.
    destruct (should_encode S b) eqn:E.
    + inversion E1; subst. intros _. right. exists b. split; [reflexivity|exact E].
    + destruct (span_keep S r) as [u rest] eqn:Es. inversion E1; subst.
      destruct (span_keep_spec _ _ _ _ Es) as (H1 & _ & _ & _ & _). rewrite app_nil_r in H1. subst u.
      intros Hv. split; [symmetry; exact Hv | reflexivity].
Qed.

(* ---------- decode: size_hint, if_any, Cow ---------- *)
Transparent decode.
Lemma decode_length_bounds n : forall bs, (length bs <= n)%nat ->
  (length (decode bs) <= length bs)%nat /\ (length bs <= 3 * length (decode bs))%nat.
Proof.
  induction n as [|n IH]; intros bs Hlen.
  - destruct bs; [cbn; lia | cbn in Hlen; lia].
  - destruct bs as [|b r]; [cbn; lia|]. cbn [length] in Hlen.
    destruct (N.eqb_spec b 37) as [->|Hne].
    + destruct r as [|h r1]; [rewrite decode_pct1; cbn [length]; lia|]. destruct r1 as [|l r2].
      * rewrite decode_pct2. destruct (IH [h] ltac:(cbn [length] in *; lia)). cbn [length] in *. lia.
      * rewrite decode_pct3. destruct (after_percent h l).
        -- destruct (IH r2 ltac:(cbn [length] in *; lia)). cbn [length] in *. lia.
        -- destruct (IH (h :: l :: r2) ltac:(cbn [length] in *; lia)). cbn [length] in *. lia.
    + rewrite decode_other by exact Hne. destruct (IH r ltac:(lia)). cbn [length]. lia.
Qed.
Opaque decode.

Theorem pd_size_hint_ok bs :
  let n := N.of_nat (length (decode bs)) in
  fst (pd_size_hint bs) <= n /\ match snd (pd_size_hint bs) with Some hi => n <= hi | None => True end.
Proof.
  cbv zeta. destruct (decode_length_bounds (length bs) bs ltac:(lia)) as [H1 H2].
  unfold pd_size_hint. cbn [fst snd]. split; lia.
Qed.

Lemma if_any_aux_spec n : forall pre bs, (length bs <= n)%nat ->
  match if_any_aux pre bs with
  | Some v => v = rev pre ++ decode bs /\ (length (decode bs) < length bs)%nat
  | None => decode bs = bs
  end.
Proof.
  induction n as [|n IH]; intros pre bs Hlen.
  - destruct bs; [reflexivity | cbn in Hlen; lia].
  - destruct bs as [|b r]; [reflexivity|]. cbn [length] in Hlen. cbn [if_any_aux].
    destruct (N.eqb_spec b 37) as [->|Hne].
    + destruct r as [|h r1].
      { specialize (IH (37 :: pre) [] ltac:(cbn [length] in *; lia)). cbn [if_any_aux] in *. reflexivity. }
      destruct r1 as [|l r2].
      { specialize (IH (37 :: pre) [h] ltac:(cbn [length] in *; lia)).
        destruct (if_any_aux (37 :: pre) [h]) as [v|].
        - destruct IH as [I1 I2]. exfalso.
          destruct (decode_length_bounds 1 [h] ltac:(cbn; lia)). cbn [length] in *. lia.
        - rewrite decode_pct2, IH. reflexivity. }
      rewrite decode_pct3. destruct (after_percent h l) as [v|] eqn:Eap.
      * split; [reflexivity|].
        destruct (decode_length_bounds (length r2) r2 ltac:(lia)). cbn [length]. lia.
      * specialize (IH (37 :: pre) (h :: l :: r2) ltac:(cbn [length] in *; lia)).
        destruct (if_any_aux (37 :: pre) (h :: l :: r2)) as [v|].
        -- destruct IH as [I1 I2]. split; [|cbn [length] in *; lia].
           rewrite I1. cbn [rev]. rewrite <- app_assoc. reflexivity.
        -- rewrite IH. reflexivity.
    + rewrite decode_other by exact Hne.
      specialize (IH (b :: pre) r ltac:(lia)).
      destruct (if_any_aux (b :: pre) r) as [v|].
      * destruct IH as [I1 I2]. split; [|cbn [length]; lia].
        rewrite I1. cbn [rev]. rewrite <- app_assoc. reflexivity.
      * rewrite IH. reflexivity.
Qed.

Theorem pd_cow_value bs : snd (pd_cow bs) = decode bs.
Proof.
  unfold pd_cow, if_any. pose proof (if_any_aux_spec (length bs) [] bs ltac:(lia)) as H.
  destruct (if_any_aux [] bs) as [v|]; cbn [snd].
  - destruct H as [H _]. exact H.
  - symmetry. exact H.
Qed.

Theorem pd_cow_borrow_iff bs : fst (pd_cow bs) = BorrowedInput <-> decode bs = bs.
Proof.
  unfold pd_cow, if_any. pose proof (if_any_aux_spec (length bs) [] bs ltac:(lia)) as H.
  destruct (if_any_aux [] bs) as [v|]; cbn [fst].
  - destruct H as [_ H]. split; [discriminate|]. intros E. rewrite E in H. lia.
  - tauto.
Qed.
