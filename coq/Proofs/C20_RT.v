(* Proofs/C20_RT.v - from_file_path / from_directory_path build the record `file_rec`, to_file_path
   reads it back; round trip up to std::path normalisation; relative paths; host condition. *)
From RU Require Import Base.Prelude Model.AsciiSet Gen.Tables Model.PercentEncoding
  Model.HostT Model.UrlRecord Model.Parser Model.FilePath
  Proofs.C14_Set Proofs.C14_Enc Proofs.C14_Views Proofs.ListN Proofs.C20_Path.

(* ---------- table facts (re-proved whenever Gen/Tables.v changes) ---------- *)
Lemma sps_contains_pct : aset_contains T_SPECIAL_PATH_SEGMENT 37 = true.
Proof. vm_compute. reflexivity. Qed.

Lemma sps_encodes_slash : should_encode T_SPECIAL_PATH_SEGMENT 47 = true.
Proof. vm_compute. reflexivity. Qed.

(* the encoding of one path component *)
Definition enc (c : list N) : list N := encode T_SPECIAL_PATH_SEGMENT c.

Lemma hex_upper_not_slash d : d < 16 -> hex_upper d <> 47.
Proof. unfold hex_upper. intros H. destruct (d <? 10); lia. Qed.

Lemma enc_no_slash c : bytes c -> ~ In 47 (enc c).
Proof.
  unfold enc. induction c as [|b c IH]; intros Hb; [intros []|].
  inversion Hb as [|? ? Hb1 Hb2]; subst. rewrite encode_cons. intros Hi.
  apply in_app_or in Hi. destruct Hi as [Hi | Hi]; [|exact (IH Hb2 Hi)].
  unfold enc1 in Hi. destruct (should_encode T_SPECIAL_PATH_SEGMENT b) eqn:E.
  - unfold enc_byte_spec in Hi. unfold is_byte in Hb1.
    destruct Hi as [Hi | [Hi | [Hi | []]]].
    + discriminate Hi.
    + apply (hex_upper_not_slash (b / 16)); [lia | exact Hi].
    + apply (hex_upper_not_slash (b mod 16)); [lia | exact Hi].
  - destruct Hi as [Hi | []]. subst b. rewrite sps_encodes_slash in E. discriminate E.
Qed.

Lemma enc_nonempty c : c <> [] -> enc c <> [].
Proof.
  intros Hc He. pose proof (encode_len_ge T_SPECIAL_PATH_SEGMENT c) as Hl.
  unfold enc in He. rewrite He in Hl. destruct c; [congruence | cbn [length] in Hl; lia].
Qed.

Lemma decode_enc c : bytes c -> decode (enc c) = c.
Proof. intros H. unfold enc. apply decode_encode; [exact sps_contains_pct | exact H]. Qed.

Lemma map_decode_enc ks : Forall bytes ks -> map decode (map enc ks) = ks.
Proof.
  induction ks as [|k ks IH]; intros H; [reflexivity|].
  inversion H; subst. cbn [map]. rewrite decode_enc by assumption. f_equal. auto.
Qed.

Lemma Forall_enc_no_slash ks : Forall bytes ks -> Forall (fun k => ~ In 47 k) (map enc ks).
Proof.
  induction ks as [|k ks IH]; intros H; [constructor|].
  inversion H; subst. cbn [map]. constructor; [apply enc_no_slash; assumption | auto].
Qed.

(* ---------- the record from_file_path builds ---------- *)
Definition file_rec (url_path : list N) : url :=
  mkUrl (s_file_css ++ url_path) 4 7 7 7 HI_None None 7 None None.

(* the URL path for the kept pieces ks of the file path: "/" for the root, else "/e1/e2/.../en" *)
Definition url_path_of (ks : list (list N)) : list N :=
  match ks with [] => [47] | _ => join_slash (map enc ks) end.
(* its segments *)
Definition segments_of (ks : list (list N)) : list (list N) :=
  match ks with [] => [[]] | _ => map enc ks end.

Lemma url_path_segments ks : url_path_of ks = join_slash (segments_of ks).
Proof. destruct ks; reflexivity. Qed.

Lemma push_path_components_spec ks : Forall bytes ks -> forall ser,
  push_path_components ser (map component_of_piece ks) = ser ++ join_slash (map enc ks).
Proof.
  induction ks as [|k ks IH]; intros Hb ser.
  - cbn [map push_path_components join_slash flat_map]. rewrite app_nil_r. reflexivity.
  - inversion Hb as [|? ? Hk Hks]; subst. cbn [map push_path_components].
    rewrite component_bytes_of_piece, pe_display_is_encode by exact Hk.
    rewrite IH by exact Hks. rewrite join_slash_cons. fold (enc k).
    rewrite <- !app_assoc. reflexivity.
Qed.

Theorem from_file_path_spec p : bytes p -> path_is_absolute p = true ->
  from_file_path p = FOk (file_rec (url_path_of (kept p))).
Proof.
  intros Hb Ha. unfold from_file_path, path_to_file_url_segments. rewrite Ha. cbn [negb].
  change (to_u32 (nlen s_file_css)) with (@POk N 7).
  rewrite components_abs by exact Ha. cbn [tl].
  pose proof (kept_bytes p Hb) as Hkb.
  destruct (kept p) as [|k ks] eqn:Ek.
  - reflexivity.
  - rewrite push_path_components_spec by exact Hkb. reflexivity.
Qed.

Theorem from_file_path_rel p : path_is_absolute p = false ->
  from_file_path p = FErr /\ from_directory_path p = FErr.
Proof.
  intros Ha. assert (H : from_file_path p = FErr).
  { unfold from_file_path, path_to_file_url_segments. rewrite Ha. reflexivity. }
  split; [exact H|]. unfold from_directory_path. rewrite H. reflexivity.
Qed.

(* ---------- to_file_path on such a record ---------- *)
Lemma push_decoded_spec segs : forall acc,
  push_decoded_segments acc segs = acc ++ join_slash (map decode segs).
Proof.
  induction segs as [|s segs IH]; intros acc.
  - cbn [push_decoded_segments map join_slash flat_map]. rewrite app_nil_r. reflexivity.
  - cbn [push_decoded_segments map]. rewrite IH, join_slash_cons. rewrite <- !app_assoc. reflexivity.
Qed.

Lemma hack_cases b : exists t, (t = [] \/ t = [47]) /\ drive_letter_hack b = b ++ t.
Proof.
  unfold drive_letter_hack.
  match goal with |- context [if ?c then _ else _] => destruct c end.
  - exists [47]. auto.
  - exists []. rewrite app_nil_r. auto.
Qed.

Lemma nlen_file_css : nlen s_file_css = 7.
Proof. reflexivity. Qed.

Lemma path_file_rec P : path (file_rec P) = Some P.
Proof.
  unfold path, file_rec. cbn [query_start fragment_start path_start].
  unfold u_slice_from, slice_from_o. cbn [ser].
  rewrite nlen_app, nlen_file_css.
  replace (7 <=? 7 + nlen P) with true by lia. reflexivity.
Qed.

Lemma scheme_file_rec P : scheme (file_rec P) = Some s_file.
Proof.
  unfold scheme, file_rec, u_slice_to, slice_to_o. cbn [ser scheme_end].
  rewrite nlen_app, nlen_file_css.
  replace (4 <=? 7 + nlen P) with true by lia. reflexivity.
Qed.

Lemma path_segments_file_rec segs : segs <> [] -> Forall (fun k => ~ In 47 k) segs ->
  path_segments (file_rec (join_slash segs)) = Some (Some segs).
Proof.
  intros Hne Hns. unfold path_segments. rewrite path_file_rec. cbn [bindo].
  destruct segs as [|s segs]; [congruence|].
  rewrite join_slash_cons. rewrite split_join_slash_tl by exact Hns. reflexivity.
Qed.

Theorem to_file_path_file_rec dbg segs : segs <> [] -> Forall (fun k => ~ In 47 k) segs ->
  to_file_path dbg (file_rec (join_slash segs)) = FOk (drive_letter_hack (join_slash (map decode segs))).
Proof.
  intros Hne Hns. unfold to_file_path.
  rewrite path_segments_file_rec by assumption.
  change (host_of (file_rec (join_slash segs))) with (Some (@None host)).
  cbn [negb]. rewrite scheme_file_rec.
  unfold file_url_segments_to_pathbuf. rewrite push_decoded_spec. cbn [app].
  destruct (hack_cases (join_slash (map decode segs))) as [t [Ht Hh]]. rewrite Hh.
  destruct segs as [|s segs]; [congruence|]. cbn [map]. rewrite join_slash_cons.
  cbn [app path_is_absolute negb]. rewrite andb_false_r. reflexivity.
Qed.

(* ---------- components_eqb is reflexive ---------- *)
Lemma list_eqb_refl l : list_eqb l l = true.
Proof. apply list_eqb_spec. reflexivity. Qed.

Lemma components_eqb_refl cs : components_eqb cs cs = true.
Proof.
  induction cs as [|c cs IH]; [reflexivity|]. cbn [components_eqb]. rewrite IH, andb_true_r.
  destruct c; try reflexivity. cbn [component_eqb]. apply list_eqb_refl.
Qed.

(* ---------- round trip ---------- *)
Theorem file_path_round_trip dbg p : bytes p -> path_is_absolute p = true ->
  exists u q,
    from_file_path p = FOk u
    /\ u = file_rec (url_path_of (kept p))
    /\ path_segments u = Some (Some (segments_of (kept p)))
    /\ to_file_path dbg u = FOk q
    /\ path_components q = path_components p
    /\ path_eq q p = true.
Proof.
  intros Hb Ha.
  pose proof (kept_bytes p Hb) as Hkb. pose proof (kept_nosep p) as Hkn. pose proof (kept_keep p) as Hkk.
  assert (Hsn : segments_of (kept p) <> []) by (destruct (kept p); discriminate).
  assert (Hss : Forall (fun k => ~ In 47 k) (segments_of (kept p))).
  { destruct (kept p) as [|k ks] eqn:Ek.
    - constructor; [intros [] | constructor].
    - apply Forall_enc_no_slash. exact Hkb. }
  exists (file_rec (url_path_of (kept p))).
  exists (drive_letter_hack (join_slash (map decode (segments_of (kept p))))).
  assert (Hc : path_components (drive_letter_hack (join_slash (map decode (segments_of (kept p)))))
               = path_components p).
  { destruct (hack_cases (join_slash (map decode (segments_of (kept p))))) as [t [Ht Hh]]. rewrite Hh.
    rewrite (components_abs p Ha).
    destruct (kept p) as [|k ks] eqn:Ek.
    - cbn [segments_of map]. change (join_slash [decode []]) with [47]. apply components_root. exact Ht.
    - cbn [segments_of]. rewrite map_decode_enc by exact Hkb.
      apply components_join_slash; [exact Ht | discriminate | exact Hkn | exact Hkk]. }
  split; [apply from_file_path_spec; assumption|].
  split; [reflexivity|].
  rewrite url_path_segments.
  split; [apply path_segments_file_rec; assumption|].
  split; [apply to_file_path_file_rec; assumption|].
  split; [exact Hc|].
  unfold path_eq. rewrite Hc. apply components_eqb_refl.
Qed.

(* ---------- from_directory_path ---------- *)
Lemma ends_with_snoc b l : ends_with_byte b (l ++ [b]) = true.
Proof. unfold ends_with_byte. rewrite rev_app_distr. cbn [rev app]. apply N.eqb_refl. Qed.

Theorem directory_trailing_slash p u : from_directory_path p = FOk u -> ends_with_byte 47 (ser u) = true.
Proof.
  unfold from_directory_path. destruct (from_file_path p) as [v| |]; try discriminate.
  intros H. inversion H as [Hu]. clear H.
  destruct (ends_with_byte 47 (ser v)) eqn:E; [exact E|].
  cbn [set_ser ser]. apply ends_with_snoc.
Qed.

Lemma ends_with_app_no b x l : l <> [] -> ~ In b l -> ends_with_byte b (x ++ l) = false.
Proof.
  intros Hne Hni. unfold ends_with_byte. rewrite rev_app_distr.
  destruct (rev l) as [|y r] eqn:E.
  - exfalso. apply Hne. rewrite <- (rev_involutive l), E. reflexivity.
  - cbn [app]. assert (Hy : In y l) by (apply in_rev; rewrite E; left; reflexivity).
    destruct (y =? b) eqn:Eb; [|reflexivity]. exfalso. apply Hni. replace b with y by lia. exact Hy.
Qed.

Lemma join_slash_last ks : ks <> [] -> exists Y e, join_slash ks = Y ++ 47 :: e /\ In e ks.
Proof.
  intros Hne. destruct (exists_last Hne) as [ks' [e He]]. subst ks.
  exists (join_slash ks'), e. split; [apply join_slash_snoc | apply in_or_app; right; left; reflexivity].
Qed.

(* "file://" ++ "/e1/.../en" ++ "/"   (just "file:///" for the root) *)
Definition dir_path_of (ks : list (list N)) : list N := join_slash (map enc ks) ++ [47].

Theorem from_directory_path_spec p : bytes p -> path_is_absolute p = true ->
  from_directory_path p = FOk (file_rec (dir_path_of (kept p))).
Proof.
  intros Hb Ha. unfold from_directory_path. rewrite from_file_path_spec by assumption.
  pose proof (kept_bytes p Hb) as Hkb. pose proof (kept_keep p) as Hkk.
  destruct (kept p) as [|k ks] eqn:Ek.
  - reflexivity.
  - assert (He : ends_with_byte 47 (ser (file_rec (url_path_of (k :: ks)))) = false).
    { cbn [url_path_of file_rec ser].
      destruct (join_slash_last (map enc (k :: ks))) as [Y [e [HY He]]]; [discriminate|].
      rewrite HY. apply in_map_iff in He. destruct He as [k0 [<- Hk0]].
      rewrite Forall_forall in Hkb, Hkk.
      replace (s_file_css ++ Y ++ 47 :: enc k0) with ((s_file_css ++ Y ++ [47]) ++ enc k0)
        by (rewrite <- !app_assoc; reflexivity).
      apply ends_with_app_no.
      - apply enc_nonempty. apply keep_piece_nonempty. apply Hkk. exact Hk0.
      - apply enc_no_slash. apply Hkb. exact Hk0. }
    rewrite He. unfold set_ser, file_rec, dir_path_of, url_path_of. cbn [ser scheme_end username_end host_start host_end hosti port path_start query_start fragment_start].
    rewrite <- app_assoc. reflexivity.
Qed.

(* ---------- the host condition ---------- *)
Theorem to_file_path_no_segments dbg u : path_segments u = Some None -> to_file_path dbg u = FErr.
Proof. intros H. unfold to_file_path. rewrite H. reflexivity. Qed.

Theorem to_file_path_bad_host dbg u segs h : path_segments u = Some (Some segs) ->
  host_of u = Some (Some h) -> h <> HDomain s_localhost -> to_file_path dbg u = FErr.
Proof.
  intros Hs Hh Hne. unfold to_file_path. rewrite Hs, Hh.
  destruct h as [d|a|pc]; try reflexivity.
  destruct (list_eqb d s_localhost) eqn:E; [|reflexivity].
  apply list_eqb_spec in E. subst d. congruence.
Qed.

(* exactly when it succeeds, and with what *)
Theorem to_file_path_ok_inv dbg u q : to_file_path dbg u = FOk q ->
  exists segs, path_segments u = Some (Some segs)
    /\ (host_of u = Some None \/ host_of u = Some (Some (HDomain s_localhost)))
    /\ q = drive_letter_hack (join_slash (map decode segs)).
Proof.
  unfold to_file_path. destruct (path_segments u) as [[segs|]|]; try discriminate.
  destruct (host_of u) as [h|] eqn:Eh; try discriminate.
  intros H. exists segs. split; [reflexivity|].
  assert (Hh : h = None \/ h = Some (HDomain s_localhost)).
  { destruct h as [[d|a|pc]|]; cbn [negb] in H; try discriminate H; [|left; reflexivity].
    destruct (list_eqb d s_localhost) eqn:E; [|discriminate H].
    apply list_eqb_spec in E. subst d. right. reflexivity. }
  split; [destruct Hh as [-> | ->]; auto|].
  assert (H2 : file_url_segments_to_pathbuf dbg None segs = FOk q).
  { destruct Hh as [-> | ->]; cbn [negb] in H.
    - destruct (scheme u); [exact H | discriminate H].
    - change (list_eqb s_localhost s_localhost) with true in H. cbn [negb] in H.
      destruct (scheme u); [exact H | discriminate H]. }
  unfold file_url_segments_to_pathbuf in H2. rewrite push_decoded_spec in H2. cbn [app] in H2.
  destruct (dbg && negb (path_is_absolute (drive_letter_hack (join_slash (map decode segs))))); [discriminate H2|].
  inversion H2. reflexivity.
Qed.

(* on records whose slices are in range (all parse results) the converse holds too *)
Theorem to_file_path_ok dbg u segs : path_segments u = Some (Some segs) ->
  (host_of u = Some None \/ host_of u = Some (Some (HDomain s_localhost))) -> scheme u <> None ->
  to_file_path dbg u = FOk (drive_letter_hack (join_slash (map decode segs))).
Proof.
  intros Hs Hh Hsc. unfold to_file_path. rewrite Hs.
  assert (Hseg : segs <> []).
  { unfold path_segments in Hs. destruct (path u) as [pp|]; [|discriminate Hs]. cbn [bindo] in Hs.
    destruct pp as [|c r]; [discriminate Hs|].
    assert (Hx : exists r', Some (Some segs) = Some (Some (split_on 47 r'))).
    { destruct c as [|pc]; [discriminate Hs|].
      do 6 (destruct pc as [pc|pc|]; try discriminate Hs). exists r. symmetry. exact Hs. }
    destruct Hx as [r' Hr']. inversion Hr' as [Hseg]. unfold split_on.
    clear. generalize (@nil N). induction r' as [|x r' IH]; intros acc; cbn [split_on_aux]; [discriminate|].
    destruct (x =? 47); [discriminate | apply IH]. }
  assert (Hfin : file_url_segments_to_pathbuf dbg None segs = FOk (drive_letter_hack (join_slash (map decode segs)))).
  { unfold file_url_segments_to_pathbuf. rewrite push_decoded_spec. cbn [app].
    destruct (hack_cases (join_slash (map decode segs))) as [t [Ht Hh2]]. rewrite Hh2.
    destruct segs as [|s segs]; [congruence|]. cbn [map]. rewrite join_slash_cons.
    cbn [app path_is_absolute negb]. rewrite andb_false_r. reflexivity. }
  destruct Hh as [-> | ->]; cbn [negb].
  - destruct (scheme u); [exact Hfin | congruence].
  - change (list_eqb s_localhost s_localhost) with true. cbn [negb].
    destruct (scheme u); [exact Hfin | congruence].
Qed.
