(* Proofs/C17_Main.v - the statement of C17, totality, the refutations inside Known_C17, and the
   clauses that follow from C18 / C19. *)
From RU Require Import Base.Prelude Base.Utf8 Base.Utf8Facts Model.AsciiSet Gen.Tables Model.PercentEncoding
  Model.HostT Model.UrlRecord Model.Parser Model.Mime Model.Base64 Model.DataUrl Model.DataUrlTie Model.KnownC17
  Spec.Infra Spec.MimeSniff Spec.Fetch
  Proofs.C18_BodyRef Proofs.C17_Tables Proofs.C17_Total Proofs.C17_Decode.

(* ---- the full statement (NOT proved as a whole; see Properties/C17.v) ---- *)
Definition C17_statement : Prop :=
  forall (dbg : bool) (hp ho : list N -> result host) (hd : host -> list N) (s : list N) (u : url),
    usv_list s ->
    parse_url dbg hp ho hd None None s = POk u -> url_is_data u = true ->
    ~ Known_C17 s ->
    fetch_view (process_and_decode s) = fetch_of_url u.

(* ---- totality ---- *)
Theorem process_and_decode_total s : usv_list s ->
  (exists r, DataUrl.process s = Ok r)
  /\ (forall site, process_and_decode s <> PdPanic site) /\ process_and_decode s <> PdOutOfFuel.
Proof.
  intros Hs. destruct (process_total s Hs) as [r Hr]. split; [exists r; exact Hr|].
  unfold process_and_decode, process_and_decode_bytes. unfold DataUrl.process in Hr. rewrite Hr.
  destruct r as [u|[|]]; try (split; [intros site|]; discriminate).
  pose proof (decode_to_vec_no_panic u) as Hn.
  destruct (DataUrl.decode_to_vec u); try (split; [intros site|]; discriminate). congruence.
Qed.

(* ---- refutations: one witness per class, toy host functions (never consulted for these inputs) ---- *)
Definition toy_hp (l : list N) : result host := Err EmptyHost.
Definition toy_hd (h : host) : list N := [].

Definition refuted_by (k : N) (s : list N) : Prop :=
  exists u, usv_list s /\ parse_url true toy_hp toy_hp toy_hd None None s = POk u /\ url_is_data u = true
            /\ known_c17 s = k /\ fetch_view (process_and_decode s) <> fetch_of_url u.

Lemma usv_list_b l : forallb is_usvb l = true -> usv_list l.
Proof.
  induction l as [|c l IH]; cbn [forallb]; intros H; [constructor|].
  apply andb_true_iff in H. destruct H as [H1 H2]. constructor; [apply is_usvb_spec; exact H1|exact (IH H2)].
Qed.

(* F-C17-1  data:/,<U+00E9>%2Ca=2/..#  : the URL is data:/# (no comma: Fetch fails), the crate succeeds *)
Definition w1 : list N := [100;97;116;97;58;47;44;233;37;50;67;97;61;50;47;46;46;35].
Lemma k1_refuted : refuted_by 1 w1.
Proof.
  eexists. split; [apply usv_list_b; vm_compute; reflexivity|].
  split; [vm_compute; reflexivity|]. split; [vm_compute; reflexivity|]. split; [vm_compute; reflexivity|].
  vm_compute. intros Hneq. discriminate Hneq.
Qed.

(* F-C17-2  data:charset=x?/; base64,a=2 : Fetch sees "; %20base64" (no marker), body "a=2"; the crate fails *)
Definition w2 : list N := [100;97;116;97;58;99;104;97;114;115;101;116;61;120;63;47;59;32;98;97;115;101;54;52;44;97;61;50].
Lemma k2_refuted : refuted_by 2 w2.
Proof.
  eexists. split; [apply usv_list_b; vm_compute; reflexivity|].
  split; [vm_compute; reflexivity|]. split; [vm_compute; reflexivity|]. split; [vm_compute; reflexivity|].
  vm_compute. intros Hneq. discriminate Hneq.
Qed.

(* F-C17-3  data:a/b;x=y? ,X : the crate trims the space (x = y?), Fetch sees x = y?%20 *)
Definition w3 : list N := [100;97;116;97;58;97;47;98;59;120;61;121;63;32;44;88].
Lemma k3_refuted : refuted_by 2 w3.
Proof.
  eexists. split; [apply usv_list_b; vm_compute; reflexivity|].
  split; [vm_compute; reflexivity|]. split; [vm_compute; reflexivity|]. split; [vm_compute; reflexivity|].
  vm_compute. intros Hneq. discriminate Hneq.
Qed.

(* F-C17-4  data:,%2<TAB>0 : Fetch decodes %20, the crate keeps "%20" *)
Definition w4 : list N := [100;97;116;97;58;44;37;50;9;48].
Lemma k4_refuted : refuted_by 3 w4.
Proof.
  eexists. split; [apply usv_list_b; vm_compute; reflexivity|].
  split; [vm_compute; reflexivity|]. split; [vm_compute; reflexivity|]. split; [vm_compute; reflexivity|].
  vm_compute. intros Hneq. discriminate Hneq.
Qed.

(* ---- base64: the body of a base64 data: URL is the Infra forgiving-base64 decode of what the same
   text yields without the flag; failure exactly when Infra fails ---- *)
Theorem decode_base64_infra u :
  let plain := DataUrl.decode_to_vec (mk_data_url (du_mime_type u) false (du_encoded_body_plus_fragment u)) in
  exists out fragment, plain = DecOk out fragment /\
    (du_base64 u = false -> DataUrl.decode_to_vec u = DecOk out fragment) /\
    (du_base64 u = true ->
       match forgiving_base64_decode out with
       | Some v => DataUrl.decode_to_vec u = DecOk v fragment
       | None => exists e, DataUrl.decode_to_vec u = DecInvalidBase64 e
       end).
Proof.
  cbv zeta. rewrite !decode_to_vec_ref. cbn [du_base64 du_encoded_body_plus_fragment].
  unfold decoded_ref.
  destruct (body_ref (du_encoded_body_plus_fragment u)) as [out f].
  exists out, f. split; [reflexivity|]. split; intros Hb; rewrite Hb; [reflexivity|].
  pose proof (Proofs.C18_Spec.decode_to_vec_is_infra out) as HI.
  destruct (Model.Base64.decode_to_vec out) as [v|e]; rewrite <- HI; [reflexivity|exists e; reflexivity].
Qed.

(* ---- MIME: the fallback rule, and the text handed to the MIME parser is printable ASCII ---- *)
Definition printable (c : N) : Prop := 32 <= c /\ c <= 126.

Lemma percent_encode_printable b : b < 256 -> Forall printable (DataUrl.percent_encode b).
Proof.
  intros Hb. rewrite percent_encode_spec by exact Hb. unfold enc_byte_spec, printable, hex_upper.
  assert (b / 16 < 16) by lia. assert (b mod 16 < 16) by lia.
  constructor; [lia|]. constructor; [destruct (b / 16 <? 10) eqn:E; lia|].
  constructor; [destruct (b mod 16 <? 10) eqn:E; lia|constructor].
Qed.

Lemma hdr_not_enc_sweep :
  all_below 256 (fun b => in_ranges b T_DU_HDR_ENC || ((32 <=? b) && (b <=? 126))) = true.
Proof. vm_compute. reflexivity. Qed.

Lemma header_loop_printable : forall l q, bytes l -> Forall printable (header_loop q l).
Proof.
  induction l as [|b l IH]; intros q Hb; cbn [header_loop]; [constructor|].
  inversion Hb as [|? ? Hb1 Hb2]; subst. unfold is_byte in Hb1.
  destruct (is_skipped b); [apply IH; exact Hb2|].
  destruct (in_ranges b T_DU_HDR_ENC) eqn:E1.
  { apply Forall_app. split; [apply percent_encode_printable; exact Hb1|apply IH; exact Hb2]. }
  destruct (memb b T_DU_HDR_QENC && q).
  { apply Forall_app. split; [apply percent_encode_printable; exact Hb1|apply IH; exact Hb2]. }
  assert (Hp : printable b).
  { pose proof (all_below_spec 256 _ hdr_not_enc_sweep b Hb1) as Hs. cbv beta in Hs. rewrite E1 in Hs.
    unfold printable. lia. }
  destruct (b =? T_DU_HDR_QMARK).
  - constructor; [unfold printable, T_DU_HDR_QMARK; lia|apply IH; exact Hb2].
  - constructor; [exact Hp|apply IH; exact Hb2].
Qed.

Lemma header_string_printable t : bytes t -> Forall printable (header_string t).
Proof.
  intros Hb. unfold header_string. apply Forall_app. split; [|apply header_loop_printable; exact Hb].
  destruct (starts_with_byte T_DU_HDR_PREFIX_IF t); [|constructor].
  unfold T_DU_HDR_PREFIX. repeat constructor; unfold printable; lia.
Qed.

(* parse_header: the MIME type is what Mime::from_str makes of a printable-ASCII string, or
   text/plain;charset=US-ASCII when that fails *)
Theorem parse_header_mime h m b : bytes h -> parse_header h = Ok (m, b) ->
  exists t, bytes t /\ Forall printable (header_string t)
    /\ (Mime.parse (header_string t) = Ok (Some m)
        \/ (Mime.parse (header_string t) = Ok None /\ record_of_mime m = text_plain_us_ascii)).
Proof.
  intros Hb. unfold parse_header.
  set (trimmed := drop_while_end is_header_trim (drop_while is_header_trim h)).
  assert (Ht : bytes trimmed) by (apply bytes_drop_while_end, bytes_drop_while; exact Hb).
  destruct (remove_base64_suffix_total trimmed) as [w Hw]. rewrite Hw. cbn [bind].
  set (t := match w with Some t => t | None => trimmed end).
  assert (Hm : bytes t) by (subst t; destruct w as [t'|]; [exact (remove_base64_suffix_bytes _ _ Ht Hw)|exact Ht]).
  unfold from_str. destruct (Mime.parse (header_string t)) as [[m'|]| |] eqn:Ep; cbn [bind]; try discriminate.
  - intros H. inversion H; subst. exists t. split; [exact Hm|]. split; [apply header_string_printable; exact Hm|].
    left. exact Ep.
  - intros H. inversion H; subst. exists t. split; [exact Hm|]. split; [apply header_string_printable; exact Hm|].
    right. split; [exact Ep|reflexivity].
Qed.

(* what is NOT proved: on printable ASCII the crate's MIME parser is the MIME Sniffing Standard's
   (F-C19-2 needs a code point outside 0x20..0x7E, so it cannot be reached from a data: URL header) *)
Definition C17_mime_statement : Prop :=
  forall t, Forall printable t ->
    Mime.parse t = Ok (option_map (fun r => mk_mime (mt_type r) (mt_subtype r) (mt_parameters r)) (parse_a_mime_type t)).
