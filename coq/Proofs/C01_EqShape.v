(* Proofs/C01_EqShape.v - the shape condition on base records (base_shape_ok: a special non-file record of the
   Standard is not opaque and has a host) holds of every record the Standard returns in the proved classes,
   when the base record (if any) met it.  With agree_good (Proofs/C01_EqAsm.v) this closes the base relation
   full_base = good_base + base_shape_ok under the assembled theorem: everything reachable from parse
   results by resolving references is a base of the theorem again. *)
From RU Require Import Base.Prelude Base.Utf8 Base.Utf8Facts Model.AsciiSet Gen.Tables
  Model.PercentEncoding Model.HostT Model.UrlRecord Model.Parser Model.Setters Model.WF Spec.Whatwg
  Proofs.C02_Parts Proofs.C02_Path Proofs.C03_WF Proofs.C01_Tables Proofs.C08_Input
  Proofs.C01_EqRun Proofs.C01_EqEnc Proofs.C01_EqApi Proofs.C01_EqOpaque Proofs.C01_EqRef
  Proofs.C01_EqPathSpec Proofs.C01_EqPath Proofs.C01_EqEmpty
  Proofs.C01_EqClasses Proofs.C01_EqAuthSpec Proofs.C01_EqAuthModel Proofs.C01_EqAuth Proofs.C01_EqClasses2
  Proofs.C01_EqRel Proofs.C01_EqRelPath Proofs.C01_EqRelArms Proofs.C01_EqRelBase
  Proofs.C01_EqSpSpec Proofs.C01_EqSpPath Proofs.C01_EqSpModel Proofs.C01_EqSp
  Proofs.C01_EqAbs Proofs.C01_EqSpBase Proofs.C01_EqSpBare Proofs.C01_EqAsm.

Definition base_shape_ok (sb : spec_url) : bool :=
  negb (is_special_scheme (su_scheme sb)) || list_eqb (su_scheme sb) str_file || sp_base_ok sb.

(* what the condition looks at *)
Definition shape_of (u : spec_url) : list N * option spec_host * bool := (su_scheme u, su_host u, has_opaque_path u).

Lemma shape_ok_of_shape u v : shape_of v = shape_of u -> base_shape_ok v = base_shape_ok u.
Proof.
  unfold shape_of. intros H. injection H as H1 H2 H3. unfold base_shape_ok, sp_base_ok. rewrite H1, H2, H3. reflexivity.
Qed.

Lemma shape_nonspecial u : is_special_scheme (su_scheme u) = false -> base_shape_ok u = true.
Proof. intros H. unfold base_shape_ok. rewrite H. reflexivity. Qed.

Lemma shape_sp u : sp_base_ok u = true -> base_shape_ok u = true.
Proof. intros H. unfold base_shape_ok. rewrite H. apply orb_true_r. Qed.

Lemma tail_url_shape u r : shape_of (tail_url u r) = shape_of u.
Proof.
  unfold tail_url. destruct r as [|c r]; [reflexivity|]. destruct (c =? 63).
  - unfold query_final, frag_opt. destruct (C01_EqRun.after_hash r); destruct u; reflexivity.
  - destruct u; reflexivity.
Qed.

Lemma shape_set_fragment u f : shape_of (set_fragment u f) = shape_of u.
Proof. destruct u; reflexivity. Qed.
Lemma shape_set_query u q : shape_of (set_query u q) = shape_of u.
Proof. destruct u; reflexivity. Qed.

(* ================= non-special results keep the scheme ================= *)
Lemma sauth_tail_scheme u X : su_scheme (sauth_tail u X) = su_scheme u.
Proof.
  unfold sauth_tail. destruct X as [|c r]; [reflexivity|]. destruct (c =? 47).
  - pose proof (tail_url_shape (set_path u (SPList (fst (spath r [] [])))) (snd (spath r [] []))) as H.
    unfold shape_of in H. injection H as H _ _. rewrite H. destruct u; reflexivity.
  - pose proof (tail_url_shape u (c :: r)) as H. unfold shape_of in H. injection H as H _ _. exact H.
Qed.

Lemma sauth_scheme shp sch T su : sauth shp sch T = Some su -> su_scheme su = sch.
Proof.
  unfold sauth. destruct (after_at T) as [W HR].
  destruct (opt_is_some W && starts_ae HR); [discriminate|].
  assert (su_scheme (cred_of W (set_scheme empty_url sch)) = sch) as Hc.
  { destruct W as [w|]; cbn [cred_of]; [rewrite ac_scheme|]; reflexivity. }
  revert Hc. generalize (cred_of W (set_scheme empty_url sch)). intros u Hc.
  unfold sauth_host.
  assert (forall v PR, su_scheme v = sch -> sauth_port v PR = Some su -> su_scheme su = sch) as HP.
  { intros v PR Hv. unfold sauth_port. destruct (negb (starts_ae (after_digits PR))); [discriminate|].
    destruct (is_nil (digits_of PR)).
    - intros H. inversion H. rewrite sauth_tail_scheme. exact Hv.
    - destruct (65535 <? decimal_value (digits_of PR)); [discriminate|].
      intros H. inversion H. rewrite sauth_tail_scheme. destruct v; exact Hv. }
  destruct (port_split (hs_rest false HR)) as [PR|].
  - destruct (is_nil (hs_host false HR)); [discriminate|].
    destruct (host_parsing shp true (hs_host false HR)) as [sh|]; [|discriminate].
    apply HP. destruct u; exact Hc.
  - destruct (host_parsing shp true (hs_host false HR)) as [sh|]; [|discriminate].
    intros H. inversion H. rewrite sauth_tail_scheme. destruct u; exact Hc.
Qed.

Lemma nonspecial_result_scheme shp sch R su : nonspecial_result shp sch R = Some su -> su_scheme su = sch.
Proof.
  assert (forall u r, su_scheme (tail_url u r) = su_scheme u) as HT.
  { intros u r. pose proof (tail_url_shape u r) as H. unfold shape_of in H. injection H as H _ _. exact H. }
  assert (forall x, Some (tail_url (set_path (set_path (set_scheme empty_url sch) (SPOpaque []))
                                  (SPOpaque ([] ++ upe in_c0_control_set (o_path x)))) (o_rest x)) = Some su -> su_scheme su = sch) as KO.
  { intros x H. injection H as <-. rewrite HT. reflexivity. }
  assert (forall x, Some (tail_url (set_path (set_scheme empty_url sch) (SPList (fst (spath x [] [])))) (snd (spath x [] []))) = Some su ->
                    su_scheme su = sch) as KP.
  { intros x H. injection H as <-. rewrite HT. reflexivity. }
  unfold nonspecial_result. destruct R as [|c1 R1]; [exact (KO [])|].
  destruct (N.eq_dec c1 47) as [->|Hne].
  2:{ intros H. apply (KO (c1 :: R1)).
      destruct c1 as [|p]; [exact H|]. do 6 (destruct p as [p|p|]; try exact H). exfalso. apply Hne. reflexivity. }
  destruct R1 as [|c2 T]; [exact (KP [])|].
  destruct (N.eq_dec c2 47) as [->|Hne2]; [exact (sauth_scheme shp sch T su)|].
  intros H. apply (KP (c2 :: T)).
  destruct c2 as [|p]; [exact H|]. do 6 (destruct p as [p|p|]; try exact H). exfalso. apply Hne2. reflexivity.
Qed.

(* ================= special results have a host and a list path ================= *)
Lemma sp_base_ok_of_shape u sch sh : shape_of u = (sch, Some sh, false) ->
  is_special_scheme sch = true -> list_eqb sch str_file = false -> sp_base_ok u = true.
Proof.
  unfold shape_of. intros H Hsp Hnf. injection H as H1 H2 H3. unfold sp_base_ok. rewrite H1, H2, H3, Hsp, Hnf. reflexivity.
Qed.

Lemma sauth_tail_s_shape u X : shape_of (sauth_tail_s u X) = (su_scheme u, su_host u, false).
Proof. unfold sauth_tail_s. rewrite tail_url_shape. destruct u; reflexivity. Qed.

Lemma sauth_s_shape shp sch T su : is_special_scheme sch = true -> list_eqb sch str_file = false ->
  sauth_s shp sch T = Some su -> sp_base_ok su = true.
Proof.
  intros Hsp Hnf. unfold sauth_s.
  assert (su_scheme (cred_of (fst (after_at_s T)) (set_scheme empty_url sch)) = sch) as Hc.
  { destruct (fst (after_at_s T)) as [w|]; cbn [cred_of]; [rewrite ac_scheme|]; reflexivity. }
  revert Hc. generalize (cred_of (fst (after_at_s T)) (set_scheme empty_url sch)). intros u Hc.
  unfold sauth_host_g. cbv zeta.
  destruct (is_nil ([] ++ hss_host false (snd (after_at_s T)))); [discriminate|].
  destruct (host_parsing shp false ([] ++ hss_host false (snd (after_at_s T)))) as [sh|]; [|discriminate].
  assert (su_scheme (set_host u (Some sh)) = sch /\ su_host (set_host u (Some sh)) = Some sh) as [K1 K2]
    by (destruct u; split; [exact Hc | reflexivity]).
  destruct (port_split (hss_rest false (snd (after_at_s T)))) as [PR|].
  - unfold sauth_port_g. cbv zeta.
    destruct (negb (starts_aes (after_digits PR))); [discriminate|].
    destruct (is_nil ([] ++ digits_of PR)).
    + intros H. inversion H. apply (sp_base_ok_of_shape _ sch sh); [|exact Hsp | exact Hnf].
      rewrite sauth_tail_s_shape, K1, K2. reflexivity.
    + destruct (65535 <? decimal_value ([] ++ digits_of PR)); [discriminate|].
      intros H. inversion H. apply (sp_base_ok_of_shape _ sch sh); [|exact Hsp | exact Hnf].
      rewrite sauth_tail_s_shape. clear K1 K2 H. destruct u as [x1 x2 x3 x4 x5 x6 x7 x8].
      cbn [su_scheme su_host set_port set_host] in *. rewrite Hc. reflexivity.
  - intros H. inversion H. apply (sp_base_ok_of_shape _ sch sh); [|exact Hsp | exact Hnf].
    rewrite sauth_tail_s_shape, K1, K2. reflexivity.
Qed.

Lemma rel_path_result_s_shape sb P t : sp_base_ok sb = true -> sp_base_ok (rel_path_result_s sb P t) = true.
Proof.
  intros Hb. destruct (sp_base_ok_facts sb Hb) as (Hop & Hsp & Hnf & h & Eh).
  apply (sp_base_ok_of_shape _ (su_scheme sb) h); [|exact Hsp | exact Hnf].
  unfold rel_path_result_s. rewrite tail_url_shape. unfold shape_of, rel_keep. cbn [su_scheme su_host has_opaque_path su_path].
  rewrite Eh. reflexivity.
Qed.

Lemma shape_bare_result sb R : su_scheme (bare_result sb R) = su_scheme sb /\ su_host (bare_result sb R) = su_host sb
  /\ has_opaque_path (bare_result sb R) = has_opaque_path sb.
Proof.
  unfold bare_result. destruct R as [|c r]; [destruct sb; repeat split|].
  destruct (c =? 63); [|destruct sb; repeat split].
  unfold ref_result. destruct (option_map (upe in_fragment_set) (C01_EqRun.after_hash r)); destruct sb; repeat split.
Qed.

(* ================= no base ================= *)
Section Shapes.
Variable shp : bool -> list N -> option spec_host.

Theorem nobase_result_shape input su : in_proved_nobase3 input = true ->
  spec_basic_url_parse shp input None = BDone su -> base_shape_ok su = true.
Proof.
  intros Hc HS.
  destruct (spec_scheme (spec_clean input)) as [[sch R]|] eqn:Es.
  - destruct (is_special_scheme sch) eqn:Hsp.
    + assert (in_class_special input = true) as Hcs.
      { unfold in_proved_nobase3 in Hc.
        assert (in_class_opaque input = false) as E1 by (unfold in_class_opaque; rewrite Es, Hsp; reflexivity).
        assert (in_class_pathonly input = false) as E2
          by (unfold in_class_pathonly; rewrite Es, Hsp; destruct R as [|c r]; [reflexivity|];
              destruct c as [|p]; [reflexivity|]; do 6 (destruct p as [p|p|]; try reflexivity)).
        assert (in_class_authority input = false) as E3
          by (unfold in_class_authority; rewrite Es, Hsp; destruct R as [|c1 [|c2 T]]; reflexivity).
        assert (in_class_noscheme_nobase input = false) as E4 by (unfold in_class_noscheme_nobase; rewrite Es; reflexivity).
        rewrite E1, E2, E3, E4 in Hc. cbn [orb] in Hc. rewrite orb_false_r in Hc. exact Hc. }
      unfold in_class_special in Hcs. rewrite Es in Hcs.
      apply andb_true_iff in Hcs. destruct Hcs as [Hcs _]. apply andb_true_iff in Hcs. destruct Hcs as [_ Hnf].
      apply negb_true_iff in Hnf.
      pose proof (spec_special shp input sch R Es Hsp Hnf) as K.
      destruct (sauth_s shp sch (drop_sl R)) as [su'|] eqn:Esa.
      * rewrite K in HS. inversion HS; subst su'. apply shape_sp. exact (sauth_s_shape shp sch _ su Hsp Hnf Esa).
      * destruct K as [uf K]. rewrite K in HS. discriminate HS.
    + pose proof (spec_nonspecial_any shp None input sch R Es Hsp) as K.
      destruct (nonspecial_result shp sch R) as [su'|] eqn:En; cbn [outcome_is] in K.
      * rewrite K in HS. inversion HS; subst su'. apply shape_nonspecial.
        rewrite (nonspecial_result_scheme shp sch R su En). exact Hsp.
      * destruct K as [uf K]. rewrite K in HS. discriminate HS.
  - assert (in_class_noscheme_nobase input = true) as Hn by (unfold in_class_noscheme_nobase; rewrite Es; reflexivity).
    destruct (class_noscheme_nobase true (fun _ => Err EmptyHost) (fun _ => Err EmptyHost) (fun _ => []) None shp input Hn) as [[uf K] _].
    rewrite K in HS. discriminate HS.
Qed.

(* ================= a base ================= *)
Theorem base_result_shape input sb su : usv_list input -> spec_valid sb -> base_shape_ok sb = true ->
  in_proved_class3 (Some sb) input = true ->
  spec_basic_url_parse shp input (Some sb) = BDone su -> base_shape_ok su = true.
Proof.
  intros Hu V Hshape Hc HS. cbn [in_proved_class3] in Hc.
  destruct (in_proved_class (Some sb) input) eqn:E1.
  { (* '#', '?', empty, opaque-base failure: the shape of the base *)
    clear Hc. cbn [in_proved_class] in E1. apply orb_true_iff in E1. destruct E1 as [Hc|Hc];
      [apply orb_true_iff in Hc; destruct Hc as [Hc|Hc]; [apply orb_true_iff in Hc; destruct Hc as [Hc|Hc]|]|].
    - unfold in_class_fragment_only in Hc.
      destruct (spec_clean input) as [|c f] eqn:Ec; [discriminate|]. cbn [starts_with_cp] in Hc.
      apply N.eqb_eq in Hc. subst c.
      rewrite (spec_fragment_only shp input sb f Ec V) in HS. inversion HS.
      rewrite (shape_ok_of_shape sb _ (shape_set_fragment sb _)). exact Hshape.
    - unfold in_class_query_only in Hc. apply andb_true_iff in Hc. destruct Hc as [H1 H2].
      destruct (spec_clean input) as [|c q] eqn:Ec; [discriminate|]. cbn [starts_with_cp] in H2.
      apply N.eqb_eq in H2. subst c. apply negb_true_iff in H1.
      rewrite (spec_query_only shp input sb q Ec V H1) in HS. inversion HS. unfold ref_result.
      rewrite (shape_ok_of_shape sb _ (eq_trans (shape_set_fragment _ _) (shape_set_query sb _))). exact Hshape.
    - exfalso. unfold in_class_opaque_base_fail in Hc.
      apply andb_true_iff in Hc. destruct Hc as [Hc H3]. apply andb_true_iff in Hc. destruct Hc as [H1 H2].
      assert (spec_scheme (spec_clean input) = None) as Hs by (destruct (spec_scheme (spec_clean input)); [discriminate | reflexivity]).
      apply negb_true_iff in H3.
      destruct (spec_opaque_base_fails shp input sb Hs H3 H1) as [uf K]. rewrite K in HS. discriminate HS.
    - unfold in_class_empty_ref in Hc. apply andb_true_iff in Hc. destruct Hc as [H1 H2]. apply negb_true_iff in H1.
      destruct (spec_clean input) eqn:Ec; [|discriminate].
      rewrite (spec_empty_ref true (fun _ => Err EmptyHost) (fun _ => Err EmptyHost) shp input sb Ec V H1) in HS. inversion HS.
      rewrite (shape_ok_of_shape sb _ (shape_set_fragment sb _)). exact Hshape. }
  cbn [in_proved_class] in E1. rewrite E1 in Hc. cbn [orb] in Hc.
  destruct (in_class_relative sb input) eqn:Hrel.
  { (* non-special base: the result keeps its scheme *)
    clear Hc. unfold in_class_relative in Hrel. apply orb_true_iff in Hrel.
    destruct Hrel as [Hrel|Hrel]; [apply orb_true_iff in Hrel; destruct Hrel as [Hrel|Hrel]|].
    - unfold in_class_rel_abs in Hrel. apply andb_true_iff in Hrel. destruct Hrel as [Hrel Hok].
      apply andb_true_iff in Hrel. destruct Hrel as [Hop Hnsp]. apply negb_true_iff in Hop, Hnsp.
      destruct (spec_clean input) as [|c t] eqn:Ecl; [discriminate Hok|].
      apply andb_true_iff in Hok. destruct Hok as [Hok _]. apply andb_true_iff in Hok. destruct Hok as [E47 H47].
      apply N.eqb_eq in E47. subst c. apply negb_true_iff in H47.
      rewrite (spec_rel_abs shp input sb t Hop Hnsp Ecl H47) in HS. inversion HS.
      apply shape_nonspecial. destruct (rel_path_result_front sb [] t) as [-> _]. exact Hnsp.
    - unfold in_class_rel_path in Hrel. apply andb_true_iff in Hrel. destruct Hrel as [Hrel Hok].
      apply andb_true_iff in Hrel. destruct Hrel as [Hrel Hsch]. apply andb_true_iff in Hrel. destruct Hrel as [Hop Hnsp].
      apply negb_true_iff in Hop, Hnsp.
      assert (spec_scheme (spec_clean input) = None) as Hs by (destruct (spec_scheme (spec_clean input)); [discriminate | reflexivity]).
      destruct (spec_clean input) as [|c t] eqn:Ecl; [discriminate Hok|].
      apply andb_true_iff in Hok. destruct Hok as [Hok _]. apply andb_true_iff in Hok. destruct Hok as [Hok E35].
      apply andb_true_iff in Hok. destruct Hok as [E47 E63]. apply negb_true_iff in E47, E63, E35.
      rewrite (spec_rel_path shp input sb c t Hop Hnsp Ecl Hs E47 E63 E35) in HS. inversion HS.
      apply shape_nonspecial. destruct (rel_path_result_front sb (removelast (Whatwg.path_segments sb)) (c :: t)) as [-> _]. exact Hnsp.
    - unfold in_class_rel_authority in Hrel. apply andb_true_iff in Hrel. destruct Hrel as [Hrel Hok].
      apply andb_true_iff in Hrel. destruct Hrel as [Hop Hnsp]. apply negb_true_iff in Hop, Hnsp.
      destruct (spec_clean input) as [|c1 [|c2 T]] eqn:Ecl; try discriminate Hok.
      apply andb_true_iff in Hok. destruct Hok as [Hok _]. apply andb_true_iff in Hok. destruct Hok as [E1' E2'].
      apply N.eqb_eq in E1', E2'. subst c1 c2.
      pose proof (spec_rel_authority shp input sb T Hop Hnsp Ecl) as K.
      destruct (sauth shp (su_scheme sb) T) as [su'|] eqn:Esa.
      + rewrite K in HS. inversion HS; subst su'. apply shape_nonspecial. rewrite (sauth_scheme shp _ T su Esa). exact Hnsp.
      + destruct K as [uf K]. rewrite K in HS. discriminate HS. }
  cbn [orb] in Hc.
  destruct (in_class_abs_base sb input) eqn:Habs.
  { (* base ignored: the no-base result *)
    clear Hc. unfold in_class_abs_base in Habs.
    destruct (spec_scheme (spec_clean input)) as [[sch R0]|] eqn:Es; [|discriminate Habs].
    apply andb_true_iff in Habs. destruct Habs as [Hbi Hnb].
    assert (outcome_eq (spec_basic_url_parse shp input (Some sb)) (spec_basic_url_parse shp input None)) as OE.
    { apply orb_true_iff in Hbi. destruct Hbi as [Hbi|Hbi];
        [exact (spec_base_ignored shp (Some sb) input sch R0 Es Hbi) | exact (spec_same_two_sl shp sb input sch R0 Es Hbi)]. }
    rewrite HS in OE. unfold outcome_eq in OE.
    destruct (spec_basic_url_parse shp input None) as [su0|uf|] eqn:HS0; try contradiction. subst su0.
    exact (nobase_result_shape input su Hnb HS0). }
  cbn [orb] in Hc.
  (* special base *)
  apply shape_sp. unfold in_class_relative_s in Hc. apply orb_true_iff in Hc.
  destruct Hc as [Hc|Hc];
    [apply orb_true_iff in Hc; destruct Hc as [Hc|Hc];
     [apply orb_true_iff in Hc; destruct Hc as [Hc|Hc];
      [apply orb_true_iff in Hc; destruct Hc as [Hc|Hc]; [apply orb_true_iff in Hc; destruct Hc as [Hc|Hc]|]|]|]|].
  - unfold in_class_rel_abs_s in Hc. apply andb_true_iff in Hc. destruct Hc as [Hb Hok].
    destruct (sp_base_ok_facts sb Hb) as (Hop & Hsp & Hnf & h & Eh).
    destruct (spec_clean input) as [|c t] eqn:Ecl; [discriminate Hok|].
    apply andb_true_iff in Hok. destruct Hok as [Hok _]. apply andb_true_iff in Hok. destruct Hok as [Hc1 Ht].
    apply negb_true_iff in Ht.
    assert (match t with c2 :: _ => is_sl c2 = false | [] => True end) as Ht' by (destruct t; [exact I | exact Ht]).
    pose proof (runs_rel_abs_s shp _ sb Hop Hsp Hnf c t eq_refl Hc1 Ht' (is_sl_scheme_none c t Hc1)) as HR.
    rewrite <- Ecl in HR. rewrite (spec_parse_of_runs _ _ _ _ HR) in HS. inversion HS. apply rel_path_result_s_shape. exact Hb.
  - unfold in_class_rel_path_s in Hc. apply andb_true_iff in Hc. destruct Hc as [Hc Hok]. apply andb_true_iff in Hc. destruct Hc as [Hb Hsch].
    destruct (sp_base_ok_facts sb Hb) as (Hop & Hsp & Hnf & h & Eh).
    assert (spec_scheme (spec_clean input) = None) as Hs by (destruct (spec_scheme (spec_clean input)); [discriminate | reflexivity]).
    destruct (spec_clean input) as [|c t] eqn:Ecl; [discriminate Hok|].
    apply andb_true_iff in Hok. destruct Hok as [Hok _]. apply andb_true_iff in Hok. destruct Hok as [Hok E35].
    apply andb_true_iff in Hok. destruct Hok as [Esl E63]. apply negb_true_iff in Esl, E63, E35.
    pose proof (runs_rel_path_s shp (c :: t) sb Hop Hsp Hnf c t eq_refl Hs Esl E63 E35) as HR.
    rewrite <- Ecl in HR at 1 2. rewrite (spec_parse_of_runs _ _ _ _ HR) in HS. inversion HS. apply rel_path_result_s_shape. exact Hb.
  - apply andb_true_iff in Hc. destruct Hc as [_ Hc].
    unfold in_class_rel_authority_s in Hc.
    apply andb_true_iff in Hc. destruct Hc as [Hc Hok]. apply andb_true_iff in Hc. destruct Hc as [Hc Hnf].
    apply andb_true_iff in Hc. destruct Hc as [Hop Hsp]. apply negb_true_iff in Hop, Hnf.
    destruct (spec_clean input) as [|c1 [|c2 T]] eqn:Ecl; try discriminate Hok.
    apply andb_true_iff in Hok. destruct Hok as [Hok _]. apply andb_true_iff in Hok. destruct Hok as [H1 H2].
    pose proof (runs_rel_authority_s shp _ sb Hop Hsp Hnf c1 c2 T eq_refl H1 H2 (is_sl_scheme_none c1 (c2 :: T) H1)) as HR.
    rewrite <- Ecl in HR.
    destruct (sauth_s shp (su_scheme sb) (drop_sl T)) as [su'|] eqn:Esa; cbn [out_is] in HR.
    + rewrite (spec_parse_of_runs _ _ _ _ HR) in HS. inversion HS; subst su'. exact (sauth_s_shape shp _ _ su Hsp Hnf Esa).
    + destruct HR as [uf HR]. rewrite (spec_parse_of_runs _ _ _ _ HR) in HS. discriminate HS.
  - assert (sp_base_ok sb = true) as Hb by (unfold in_class_same_abs_s in Hc; apply andb_true_iff in Hc; tauto).
    destruct (same_abs_s_spec shp input sb Hc) as [t K]. rewrite K in HS. inversion HS. apply rel_path_result_s_shape. exact Hb.
  - assert (sp_base_ok sb = true) as Hb by (unfold in_class_same_path_s in Hc; apply andb_true_iff in Hc; tauto).
    destruct (same_path_s_spec shp input sb Hc) as [t K]. rewrite K in HS. inversion HS. apply rel_path_result_s_shape. exact Hb.
  - assert (sp_base_ok sb = true) as Hb by (unfold in_class_same_bare in Hc; apply andb_true_iff in Hc; tauto).
    destruct (same_bare_spec (fun _ => Err EmptyHost) (fun _ => Err EmptyHost) shp (fun _ => []) input sb Hc) as [R0 K]. rewrite K in HS. inversion HS.
    unfold sp_base_ok in *. destruct (shape_bare_result sb R0) as (-> & -> & ->). exact Hb.
Qed.

End Shapes.

(* ================= the closed base relation ================= *)
Definition full_base (dbg : bool) (shs : spec_host -> list N) (b : url) (sb : spec_url) : Prop :=
  good_base dbg shs b sb /\ base_shape_ok sb = true.

Theorem class3_result_full dbg shs shp input base sbase m su u :
  usv_list input ->
  match base, sbase with
  | None, None => True
  | Some b, Some sb => full_base dbg shs b sb
  | _, _ => False
  end ->
  in_proved_class3 sbase input = true ->
  spec_basic_url_parse shp input sbase = BDone su ->
  agree_good dbg shs m (BDone su) -> m = POk u -> full_base dbg shs u su.
Proof.
  intros Hu Hb Hc HS A Hm. split; [exact (agree_good_chain dbg shs m su u A Hm)|].
  destruct base as [b|]; destruct sbase as [sb|]; try contradiction.
  - destruct Hb as [[R Hok] Hshape]. exact (base_result_shape shp input sb su Hu (rel_valid _ _ _ _ R) Hshape Hc HS).
  - exact (nobase_result_shape shp input su Hc HS).
Qed.
