(* Proofs/C06_SpliceNoAuth.v - WHOLE-URL parser agreement, part 10: set_path on the canonical records WITHOUT authority
   whose path starts with '/' and that carry no "/." marker (C02's Canon_noauth with a path not starting with "//").
   Argument: '/'-led, free of '?' / '#', its second character (TAB/LF/CR skipped) not a '/' (the parser would read an
   authority), not ending in C0 / space when nothing follows; result not starting with "//" (otherwise F-C02-8: the
   parser inserts the "/." marker, the setter does not).  Then the setter's record is canonical and Parser::parse_url on
   the old serialization with the RAW argument in the path position returns exactly it. *)
From RU Require Import Base.Prelude Base.Utf8 Base.Utf8Facts Model.AsciiSet Gen.Tables
  Model.PercentEncoding Model.HostT Model.UrlRecord Model.Parser Model.Setters Model.WF
  Proofs.ListN Proofs.C03_WF Proofs.C06_List Proofs.C06_WFI Proofs.C06_Suffix Proofs.C06_PathParser Proofs.C06_Path
  Proofs.C14_Set Proofs.C14_Enc Proofs.C14_Views Proofs.C02_Enc Proofs.C02_Parts
  Proofs.C02_Opaque Proofs.C02_Path Proofs.C02_PathL1 Proofs.C02_Reach Proofs.C16_RT Proofs.C02_AuthParts
  Proofs.C02_Auth Proofs.C02_AuthWf Proofs.C02_PathSp Proofs.C02_AuthSp Proofs.C02_AuthMain Proofs.C02_SetQF
  Proofs.C02_Canon Proofs.C02_SetPort
  Proofs.C06_Agree Proofs.C06_AgreeUrl Proofs.C06_Splice Proofs.C06_SpliceAuth Proofs.C06_SpliceCred Proofs.C06_SplicePath
  Proofs.C06_SpliceNone Proofs.C06_HostNone.
Open Scope N_scope.
Open Scope list_scope.

Section NoAuthSplice.
Variable dbg : bool.
Variable hp hpo : list N -> result host.
Variable hd : host -> list N.
Hypothesis HRT : HostRT hp hpo hd.

Notation Canon := (Canon hp hpo hd).
Notation loopU := (parse_path_loop dbg CUrlParser STNotSpecial).

(* ---------- for a non-special scheme the has_host flag is only passed through the path state ---------- *)
Definition chh {A} (hh : bool) (r : pres (list N * bool * A)) : pres (list N * bool * A) :=
  match r with POk (s, _, x) => POk (s, hh, x) | PErr e => PErr e | PPanic => PPanic end.

Lemma finish_hh ps ser ss ews hh :
  finish_segment dbg STNotSpecial ps ser ss ews hh
  = match finish_segment dbg STNotSpecial ps ser ss ews true with POk (s, _) => POk (s, hh) | PErr e => PErr e | PPanic => PPanic end.
Proof.
  unfold finish_segment. destruct (of_option (slice_o ser ss (if ews then nlen ser - 1 else nlen ser))) as [seg| |]; cbn [pbind]; try reflexivity.
  destruct (is_double_dot seg).
  - match goal with |- pbind ?c _ = _ => destruct c as [[]| |]; cbn [pbind]; try reflexivity end.
    match goal with |- pbind ?c _ = _ => destruct c as [s3| |]; cbn [pbind]; reflexivity end.
  - destruct (is_single_dot seg); reflexivity.
Qed.

Lemma finish_true ps ser ss ews s h : finish_segment dbg STNotSpecial ps ser ss ews true = POk (s, h) -> h = true.
Proof.
  unfold finish_segment. destruct (of_option (slice_o ser ss (if ews then nlen ser - 1 else nlen ser))) as [seg| |]; cbn [pbind]; try discriminate.
  destruct (is_double_dot seg).
  - match goal with |- pbind ?c _ = _ -> _ => destruct c as [[]| |]; cbn [pbind]; try discriminate end.
    match goal with |- pbind ?c _ = _ -> _ => destruct c as [s3| |]; cbn [pbind]; try discriminate end.
    intros H. inversion H. reflexivity.
  - destruct (is_single_dot seg); cbn [st_is_file andb]; intros H; inversion H; reflexivity.
Qed.

Lemma loop_hh ps l : forall ser ss pend hh, loopU ps l ser ss pend hh = chh hh (loopU ps l ser ss pend true).
Proof.
  induction l as [|c r IH]; intros ser ss pend hh; cbn [parse_path_loop].
  - rewrite (finish_hh ps _ ss false hh). destruct (finish_segment dbg STNotSpecial ps _ ss false true) as [[s2 h2]| |]; reflexivity.
  - destruct (is_tnl c); [apply IH|]. cbn [ctx_eqb negb st_is_special st_is_file andb orb].
    destruct ((c =? 47) || (c =? 92) && false).
    + rewrite (finish_hh ps _ ss true hh).
      destruct (finish_segment dbg STNotSpecial ps _ ss true true) as [[s2 h2]| |] eqn:Ef; cbn [pbind chh]; try reflexivity.
      apply finish_true in Ef. subst h2. apply IH.
    + destruct (((c =? 63) || (c =? 35)) && true).
      * rewrite (finish_hh ps _ ss false hh). destruct (finish_segment dbg STNotSpecial ps _ ss false true) as [[s2 h2]| |]; reflexivity.
      * apply IH.
Qed.

(* the path-start state on a '/'-led text is the path state behind the '/' *)
Lemma start_slash ser R hh :
  parse_path_start dbg CUrlParser STNotSpecial hh ser (47 :: R)
  = parse_path dbg CUrlParser STNotSpecial hh (nlen ser) (ser ++ [47]) R.
Proof.
  unfold parse_path_start. unfold inp_split_first. rewrite inp_next_cons by reflexivity.
  cbn [st_is_special]. change ((47 =? 63) || (47 =? 35)) with false. change (47 =? 47) with true. cbv iota.
  unfold parse_path. cbn [parse_path_loop]. change (is_tnl 47) with false. cbv iota.
  cbn [ctx_eqb negb st_is_special andb orb]. change (47 =? 47) with true. cbn [orb]. cbv iota.
  cbn [push_pending]. unfold finish_segment.
  rewrite slice_o_some by (rewrite nlen_app; change (nlen [47]) with 1; lia).
  cbn [of_option pbind]. rewrite nlen_app. change (nlen [47]) with 1.
  replace (nlen ser + 1 - 1 - nlen ser) with 0 by lia. change (nfirstn 0 (nskipn (nlen ser) (ser ++ [47]))) with (@nil N).
  cbn [is_double_dot is_single_dot st_is_file andb pbind]. rewrite nlen_app. reflexivity.
Qed.

(* the same first step in the setter context *)
Lemma start_slash_setter ser R hh :
  parse_path_start dbg CSetter STNotSpecial hh ser (47 :: R)
  = parse_path dbg CSetter STNotSpecial hh (nlen ser) (ser ++ [47]) R.
Proof.
  unfold parse_path_start. unfold inp_split_first. rewrite inp_next_cons by reflexivity.
  cbn [st_is_special]. change ((47 =? 63) || (47 =? 35)) with false. change (47 =? 47) with true. cbv iota.
  unfold parse_path. cbn [parse_path_loop]. change (is_tnl 47) with false. cbv iota.
  cbn [ctx_eqb negb st_is_special andb orb]. change (47 =? 47) with true. cbn [orb]. cbv iota.
  cbn [push_pending]. unfold finish_segment.
  rewrite slice_o_some by (rewrite nlen_app; change (nlen [47]) with 1; lia).
  cbn [of_option pbind]. rewrite nlen_app. change (nlen [47]) with 1.
  replace (nlen ser + 1 - 1 - nlen ser) with 0 by lia. change (nfirstn 0 (nskipn (nlen ser) (ser ++ [47]))) with (@nil N).
  cbn [is_double_dot is_single_dot st_is_file andb pbind]. rewrite nlen_app. reflexivity.
Qed.

Lemma starts_with_app_mono (p a b : list N) : starts_with p a = true -> starts_with p (a ++ b) = true.
Proof.
  revert a. induction p as [|x p IH]; intros a H; [reflexivity|].
  destruct a as [|y a]; [discriminate H|]. cbn [app starts_with] in *.
  apply andb_true_iff in H. destruct H as [H1 H2]. rewrite H1, (IH a H2). reflexivity.
Qed.

Lemma isc_app rest X : inp_starts_with_char 47 rest = false -> qh_tail X -> inp_starts_with_char 47 (rest ++ X) = false.
Proof.
  unfold inp_starts_with_char, inp_next. induction rest as [|c r IH]; intros H HX; cbn [app drop_while] in *.
  - destruct X as [|d X']; [reflexivity|]. cbn [qh_tail] in HX. cbn [drop_while].
    replace (is_tnl d) with false by (unfold is_tnl; lia). lia.
  - destruct (is_tnl c); [apply IH; assumption | exact H].
Qed.

Lemma set_path_noauth_canon sch segs last q f rest u' :
  noauth_ok sch segs last q f -> marker_of (C02_Path.path_text segs last) = [] ->
  usv_list (47 :: rest) -> forallb no_qh (47 :: rest) = true -> inp_starts_with_char 47 rest = false ->
  set_path dbg (noauth_url sch (C02_Path.path_text segs last) q f) (47 :: rest) = Some u' -> nlen (ser u') <= U32_MAX_P ->
  C06_HostNone.path_starts_with_2slash u' = false ->
  Canon u'.
Proof.
  intros K Hm Hx Hq Hn2 E Hb H2.
  set (T := C02_Path.path_text segs last) in *. set (x := 47 :: rest) in *. set (u := noauth_url sch T q f) in *.
  set (s0 := sch ++ [58]). set (X := qf_text q f).
  destruct (noauth_url_wf sch segs last q f K) as (W & _ & _). fold T u in W.
  assert (u = qf_url (s0 ++ T) (nlen sch) (nlen s0) (nlen s0) (nlen s0) HI_None None (nlen s0) q f) as Eu.
  { unfold u. rewrite noauth_url_qf. unfold noauth_pre. rewrite Hm. cbn [app]. rewrite N.add_0_r. reflexivity. }
  assert (nfirstn (scheme_end u) (ser u) = sch) as Esch.
  { unfold u. cbn [scheme_end ser noauth_url]. unfold noauth_ser, noauth_pre. rewrite <- !app_assoc. apply nfirstn_app_len. }
  assert (nfirstn (path_start u) (ser u) = s0) as Es0.
  { rewrite Eu. unfold qf_url. cbn [path_start ser]. rewrite <- app_assoc. apply nfirstn_app_len. }
  assert (byte_eqb (ser u) (scheme_end u + 1) 47 = true) as Hsl.
  { rewrite Eu. unfold qf_url. cbn [ser scheme_end]. rewrite <- app_assoc.
    rewrite (C02_AuthWf.byte_eqb_head s0 _ _ 47) by (unfold s0; rewrite nlen_app; reflexivity). reflexivity. }
  assert (auth_end_ok u) as Hae.
  { unfold auth_end_ok. rewrite Esch, (nk_ns _ _ _ _ _ K). intros Hsp. discriminate Hsp. }
  destruct (set_path_eval dbg u x u' W Hsl Hx Hae E) as (P & hh & rem & Eu' & [HP1 HP2] & Epp).
  rewrite Esch, (nk_ns _ _ _ _ _ K), Es0 in Epp.
  (* the parser's path-start state on the raw argument *)
  assert (forall Y, qh_tail Y -> parse_path_start dbg CUrlParser STNotSpecial true s0 (x ++ Y) = POk (s0 ++ P, hh, Y)) as G.
  { intros Y HY. rewrite (path_start_ctx dbg STNotSpecial true s0 x Y Hq HY) by reflexivity. rewrite Epp. reflexivity. }
  (* the path is canonical and starts with '/' *)
  destruct (pps_out dbg s0 x true (s0 ++ P) hh [] Hx) as (p' & Hp' & EP & _).
  { unfold x. cbn [pe_ok]. split; reflexivity. }
  { rewrite <- (app_nil_r x). apply G. exact I. }
  apply app_inv_head in EP.
  assert (exists r, P = 47 :: r) as [Pr EPr].
  { unfold x in Epp. rewrite start_slash_setter in Epp. unfold parse_path in Epp.
    assert (nlen (s0 ++ [47]) = nlen s0 + 1) as L1 by (rewrite nlen_app; reflexivity).
    assert (PInv (nlen s0) (nlen s0 + 1) (s0 ++ [47]) (s0 ++ [47])) as PI.
    { split; [rewrite <- L1; apply nfirstn_all; lia|]. rewrite nskipn_app_len. reflexivity. }
    destruct (pinv_loop dbg (nlen s0) (nlen s0 + 1) (s0 ++ [47]) ltac:(lia) ltac:(lia) L1 CSetter STNotSpecial rest eq_refl
                ltac:(intros Z; discriminate Z) _ _ _ _ _ _ _ Epp PI ltac:(lia)) as (y & Ey & [Y1 _]).
    { unfold usv_list in Hx. inversion Hx; assumption. }
    { constructor. }
    unfold file_path_fixup in Ey. cbn [st_is_file] in Ey. subst y.
    destruct HP2 as [->|[r ->]]; [|exists r; reflexivity].
    exfalso. rewrite app_nil_r in Y1. apply (f_equal nlen) in Y1. rewrite L1 in Y1.
    pose proof (nlen_nfirstn_le (nlen s0 + 1) s0). rewrite nfirstn_all in Y1 by lia. lia. }
  destruct p' as [[segs' last']|]; [|cbn [pth_text] in EP; rewrite EP in EPr; discriminate EPr].
  cbn [pth_text] in EP. destruct Hp' as [Hsegs' Hlast'].
  set (T' := C02_Path.path_text segs' last') in *.
  (* no marker in the result *)
  assert (u' = qf_url (s0 ++ P) (nlen sch) (nlen s0) (nlen s0) (nlen s0) HI_None None (nlen s0) q f) as Eu2.
  { rewrite Eu', Eu. apply with_path_qf. }
  assert (marker_of T' = []) as Hm'.
  { unfold marker_of. destruct (starts_with s_ss T') eqn:Ess; [|reflexivity]. exfalso.
    unfold C06_HostNone.path_starts_with_2slash in H2. rewrite Eu2 in H2. unfold qf_url in H2. cbn [path_start ser] in H2.
    rewrite <- app_assoc in H2. rewrite nskipn_app_len in H2. rewrite EP in H2.
    rewrite (starts_with_app_mono s_ss T' (qf_text q f) Ess) in H2. discriminate H2. }
  assert (noauth_ok sch segs' last' q f) as K'.
  { destruct K as [Ksch Kns Ksegs Klast Kq Kf Kb1 Kbq Kbf].
    assert (nlen (noauth_pre sch T' ++ qf_text q f) <= U32_MAX_P) as Hb'.
    { rewrite Eu2 in Hb. unfold qf_url in Hb. cbn [ser] in Hb. unfold noauth_pre. rewrite Hm'. cbn [app]. rewrite <- EP. exact Hb. }
    destruct (qf_bounds _ _ _ _ Hb') as [B1 B2]. constructor; assumption. }
  assert (u' = noauth_url sch T' q f) as Eu3.
  { rewrite Eu2. rewrite noauth_url_qf. unfold noauth_pre. rewrite Hm'. cbn [app]. rewrite N.add_0_r. rewrite EP. reflexivity. }
  pose proof (Canon_noauth hp hpo hd sch segs' last' q f K') as C'. fold T' in C'. rewrite <- Eu3 in C'.
  exact C'.
Qed.

Theorem splice_path_noauth_parse sch segs last q f rest u' :
  noauth_ok sch segs last q f -> marker_of (C02_Path.path_text segs last) = [] ->
  usv_list (47 :: rest) -> forallb no_qh (47 :: rest) = true -> inp_starts_with_char 47 rest = false ->
  (q = None -> f = None -> first_ok (rev (47 :: rest))) ->
  set_path dbg (noauth_url sch (C02_Path.path_text segs last) q f) (47 :: rest) = Some u' -> nlen (ser u') <= U32_MAX_P ->
  C06_HostNone.path_starts_with_2slash u' = false ->
  Canon u'
  /\ parse_url dbg hp hpo hd None None (splice_path (noauth_url sch (C02_Path.path_text segs last) q f) (47 :: rest)) = POk u'.
Proof.
  intros K Hm Hx Hq Hn2 Hl E Hb H2.
  set (T := C02_Path.path_text segs last) in *. set (x := 47 :: rest) in *. set (u := noauth_url sch T q f) in *.
  set (s0 := sch ++ [58]). set (X := qf_text q f).
  destruct (noauth_url_wf sch segs last q f K) as (W & _ & _). fold T u in W.
  assert (u = qf_url (s0 ++ T) (nlen sch) (nlen s0) (nlen s0) (nlen s0) HI_None None (nlen s0) q f) as Eu.
  { unfold u. rewrite noauth_url_qf. unfold noauth_pre. rewrite Hm. cbn [app]. rewrite N.add_0_r. reflexivity. }
  assert (nfirstn (scheme_end u) (ser u) = sch) as Esch.
  { unfold u. cbn [scheme_end ser noauth_url]. unfold noauth_ser, noauth_pre. rewrite <- !app_assoc. apply nfirstn_app_len. }
  assert (nfirstn (path_start u) (ser u) = s0) as Es0.
  { rewrite Eu. unfold qf_url. cbn [path_start ser]. rewrite <- app_assoc. apply nfirstn_app_len. }
  assert (byte_eqb (ser u) (scheme_end u + 1) 47 = true) as Hsl.
  { rewrite Eu. unfold qf_url. cbn [ser scheme_end]. rewrite <- app_assoc.
    rewrite (C02_AuthWf.byte_eqb_head s0 _ _ 47) by (unfold s0; rewrite nlen_app; reflexivity). reflexivity. }
  assert (auth_end_ok u) as Hae.
  { unfold auth_end_ok. rewrite Esch, (nk_ns _ _ _ _ _ K). intros Hsp. discriminate Hsp. }
  destruct (set_path_eval dbg u x u' W Hsl Hx Hae E) as (P & hh & rem & Eu' & [HP1 HP2] & Epp).
  rewrite Esch, (nk_ns _ _ _ _ _ K), Es0 in Epp.
  (* the parser's path-start state on the raw argument *)
  assert (forall Y, qh_tail Y -> parse_path_start dbg CUrlParser STNotSpecial true s0 (x ++ Y) = POk (s0 ++ P, hh, Y)) as G.
  { intros Y HY. rewrite (path_start_ctx dbg STNotSpecial true s0 x Y Hq HY) by reflexivity. rewrite Epp. reflexivity. }
  (* the path is canonical and starts with '/' *)
  destruct (pps_out dbg s0 x true (s0 ++ P) hh [] Hx) as (p' & Hp' & EP & _).
  { unfold x. cbn [pe_ok]. split; reflexivity. }
  { rewrite <- (app_nil_r x). apply G. exact I. }
  apply app_inv_head in EP.
  assert (exists r, P = 47 :: r) as [Pr EPr].
  { unfold x in Epp. rewrite start_slash_setter in Epp. unfold parse_path in Epp.
    assert (nlen (s0 ++ [47]) = nlen s0 + 1) as L1 by (rewrite nlen_app; reflexivity).
    assert (PInv (nlen s0) (nlen s0 + 1) (s0 ++ [47]) (s0 ++ [47])) as PI.
    { split; [rewrite <- L1; apply nfirstn_all; lia|]. rewrite nskipn_app_len. reflexivity. }
    destruct (pinv_loop dbg (nlen s0) (nlen s0 + 1) (s0 ++ [47]) ltac:(lia) ltac:(lia) L1 CSetter STNotSpecial rest eq_refl
                ltac:(intros Z; discriminate Z) _ _ _ _ _ _ _ Epp PI ltac:(lia)) as (y & Ey & [Y1 _]).
    { unfold usv_list in Hx. inversion Hx; assumption. }
    { constructor. }
    unfold file_path_fixup in Ey. cbn [st_is_file] in Ey. subst y.
    destruct HP2 as [->|[r ->]]; [|exists r; reflexivity].
    exfalso. rewrite app_nil_r in Y1. apply (f_equal nlen) in Y1. rewrite L1 in Y1.
    pose proof (nlen_nfirstn_le (nlen s0 + 1) s0). rewrite nfirstn_all in Y1 by lia. lia. }
  destruct p' as [[segs' last']|]; [|cbn [pth_text] in EP; rewrite EP in EPr; discriminate EPr].
  cbn [pth_text] in EP. destruct Hp' as [Hsegs' Hlast'].
  set (T' := C02_Path.path_text segs' last') in *.
  (* no marker in the result *)
  assert (u' = qf_url (s0 ++ P) (nlen sch) (nlen s0) (nlen s0) (nlen s0) HI_None None (nlen s0) q f) as Eu2.
  { rewrite Eu', Eu. apply with_path_qf. }
  assert (marker_of T' = []) as Hm'.
  { unfold marker_of. destruct (starts_with s_ss T') eqn:Ess; [|reflexivity]. exfalso.
    unfold C06_HostNone.path_starts_with_2slash in H2. rewrite Eu2 in H2. unfold qf_url in H2. cbn [path_start ser] in H2.
    rewrite <- app_assoc in H2. rewrite nskipn_app_len in H2. rewrite EP in H2.
    rewrite (starts_with_app_mono s_ss T' (qf_text q f) Ess) in H2. discriminate H2. }
  assert (noauth_ok sch segs' last' q f) as K'.
  { destruct K as [Ksch Kns Ksegs Klast Kq Kf Kb1 Kbq Kbf].
    assert (nlen (noauth_pre sch T' ++ qf_text q f) <= U32_MAX_P) as Hb'.
    { rewrite Eu2 in Hb. unfold qf_url in Hb. cbn [ser] in Hb. unfold noauth_pre. rewrite Hm'. cbn [app]. rewrite <- EP. exact Hb. }
    destruct (qf_bounds _ _ _ _ Hb') as [B1 B2]. constructor; assumption. }
  assert (u' = noauth_url sch T' q f) as Eu3.
  { rewrite Eu2. rewrite noauth_url_qf. unfold noauth_pre. rewrite Hm'. cbn [app]. rewrite N.add_0_r. rewrite EP. reflexivity. }
  pose proof (Canon_noauth hp hpo hd sch segs' last' q f K') as C'. fold T' in C'. rewrite <- Eu3 in C'.
  split; [exact C'|].
  (* the parser on the spliced text *)
  rewrite Eu. rewrite splice_path_qf. fold X.
  destruct K as [Ksch Kns Ksegs Klast Kq Kf Kb1 Kbq Kbf].
  pose proof Ksch as Hsc. unfold scheme_canon in Hsc. apply andb_true_iff in Hsc. destruct Hsc as [Hhd Hall].
  assert (qh_tail X) as HX by (unfold X, qf_text; destruct q; destruct f; cbn; auto).
  assert (edge_ok (s0 ++ x ++ X)) as He.
  { split.
    - unfold s0. destruct sch as [|c0 r0]; [discriminate Hhd|]. cbn [app first_ok].
      unfold is_lower, is_c0_or_space in *. lia.
    - apply first_ok_rev_parts.
      + unfold s0. rewrite forallb_app, (scheme_above hp hpo sch Hall). reflexivity.
      + exact (qf_text_above q f Kq Kf).
      + intros EX. apply Hl; unfold X, qf_text in EX; destruct q; destruct f; cbn in EX; try discriminate; reflexivity.
      + unfold s0. destruct sch; discriminate. }
  unfold parse_url. rewrite trim_c0_id by exact He.
  unfold s0. rewrite <- !app_assoc. cbn [app]. rewrite parse_scheme_canon by exact Ksch.
  unfold parse_with_scheme. rewrite Kns.
  assert (nlen sch <= U32_MAX_P) as Hb0 by (rewrite nlen_app in Kb1; lia).
  rewrite to_u32_ok by exact Hb0. cbn [pbind]. unfold parse_non_special.
  assert (inp_split_prefix_str s_ss (x ++ X) = None) as Ess0.
  { unfold x, s_ss. cbn [app inp_split_prefix_str]. rewrite inp_next_cons by reflexivity. change (47 =? 47) with true. cbv iota.
    pose proof (isc_app rest X Hn2 HX) as Hi. unfold inp_starts_with_char in Hi.
    destruct (inp_next (rest ++ X)) as [[d r]|]; [rewrite Hi|]; reflexivity. }
  fold x. change (x ++ qf_text q f) with (x ++ X). rewrite Ess0.
  rewrite to_u32_ok by exact Kb1. cbn [pbind].
  unfold x at 1. cbn [app]. unfold inp_split_prefix_char. rewrite inp_next_cons by reflexivity. change (47 =? 47) with true. cbv iota.
  fold s0. rewrite <- (start_slash s0 (rest ++ X) false).
  assert (parse_path_start dbg CUrlParser STNotSpecial false s0 (47 :: rest ++ X) = POk (s0 ++ P, false, X)) as Epf.
  { rewrite start_slash. unfold parse_path. rewrite loop_hh. fold (parse_path dbg CUrlParser STNotSpecial true (nlen s0) (s0 ++ [47]) (rest ++ X)).
    rewrite <- start_slash. change (47 :: rest ++ X) with (x ++ X). rewrite (G X HX). reflexivity. }
  rewrite Epf. cbn [pbind].
  assert (parse_query_and_fragment None CUrlParser STNotSpecial (nlen sch) (noauth_pre sch T') X
          = POk (noauth_pre sch T' ++ X, qf_qs (nlen (noauth_pre sch T')) q, qf_fs (nlen (noauth_pre sch T')) q f)) as Hpqf.
  { destruct K' as [_ _ _ _ _ _ _ Kbq' Kbf']. apply pqf_canon; try assumption. reflexivity. }
  assert (starts_with [47] T' = true) as HT1 by reflexivity.
  pose proof (wqf_noauth hp hpo None sch T' X _ _ _ HT1 Hpqf) as Hw. cbv zeta in Hw.
  rewrite EP. fold s0 in Hw. rewrite Hw. rewrite Eu3. unfold noauth_url, noauth_ser. reflexivity.
Qed.

(* the same for a canonical record given by its observable shape: no authority, not cannot-be-a-base, no marker *)
Theorem splice_agreement_set_path_noauth u rest u' : Canon u -> has_authority_b u = false ->
  byte_eqb (ser u) (scheme_end u + 1) 47 = true -> path_start u = scheme_end u + 1 ->
  usv_list (47 :: rest) -> forallb no_qh (47 :: rest) = true -> inp_starts_with_char 47 rest = false ->
  (query_start u = None -> fragment_start u = None -> first_ok (rev (47 :: rest))) ->
  set_path dbg u (47 :: rest) = Some u' -> nlen (ser u') <= U32_MAX_P ->
  C06_HostNone.path_starts_with_2slash u' = false ->
  Canon u' /\ parse_url dbg hp hpo hd None None (splice_path u (47 :: rest)) = POk u'.
Proof.
  intros C Hna Hsl Hps Hx Hq Hn2 Hl E Hb H2.
  destruct C as [sch P q f K | sch segs last q f K | sch ui h pt p q f K | sch ui h pt p q f K Kp].
  - exfalso. pose proof (opaque_url_cbb sch P q f K) as Hc.
    rewrite (C06_Steps.cannot_be_a_base_eval _ (opaque_url_wf sch P q f K)) in Hc. rewrite Hsl in Hc. discriminate Hc.
  - apply (splice_path_noauth_parse sch segs last q f rest u' K); try assumption.
    + cbn [path_start scheme_end noauth_url] in Hps. rewrite nlen_app in Hps. change (nlen [58]) with 1 in Hps.
      unfold marker_of in *. destruct (starts_with s_ss (C02_Path.path_text segs last)); [|reflexivity].
      change (nlen [47; 46]) with 2 in Hps. lia.
    + intros -> ->. apply Hl; reflexivity.
  - exfalso. assert (has_authority_b (auth_url hd sch ui h pt p q f) = true) as Hha.
    { unfold has_authority_b. cbn [ser scheme_end C02_Auth.auth_url]. rewrite (auth_ser_shape hd). rewrite nskipn_app_len. reflexivity. }
    congruence.
  - exfalso. assert (has_authority_b (auth_url hd sch ui h pt p q f) = true) as Hha.
    { unfold has_authority_b. cbn [ser scheme_end C02_Auth.auth_url]. rewrite (auth_ser_shape hd). rewrite nskipn_app_len. reflexivity. }
    congruence.
Qed.

Theorem set_path_noauth_Canon u rest u' : Canon u -> has_authority_b u = false ->
  byte_eqb (ser u) (scheme_end u + 1) 47 = true -> path_start u = scheme_end u + 1 ->
  usv_list (47 :: rest) -> forallb no_qh (47 :: rest) = true -> inp_starts_with_char 47 rest = false ->
  set_path dbg u (47 :: rest) = Some u' -> nlen (ser u') <= U32_MAX_P ->
  C06_HostNone.path_starts_with_2slash u' = false -> Canon u'.
Proof.
  intros C Hna Hsl Hps Hx Hq Hn2 E Hb H2.
  destruct C as [sch P q f K | sch segs last q f K | sch ui h pt p q f K | sch ui h pt p q f K Kp].
  - exfalso. pose proof (opaque_url_cbb sch P q f K) as Hc.
    rewrite (C06_Steps.cannot_be_a_base_eval _ (opaque_url_wf sch P q f K)) in Hc. rewrite Hsl in Hc. discriminate Hc.
  - apply (set_path_noauth_canon sch segs last q f rest u' K); try assumption.
    cbn [path_start scheme_end noauth_url] in Hps. rewrite nlen_app in Hps. change (nlen [58]) with 1 in Hps.
    unfold marker_of in *. destruct (starts_with s_ss (C02_Path.path_text segs last)); [|reflexivity].
    change (nlen [47; 46]) with 2 in Hps. lia.
  - exfalso. assert (has_authority_b (auth_url hd sch ui h pt p q f) = true) as Hha.
    { unfold has_authority_b. cbn [ser scheme_end C02_Auth.auth_url]. rewrite (auth_ser_shape hd). rewrite nskipn_app_len. reflexivity. }
    congruence.
  - exfalso. assert (has_authority_b (auth_url hd sch ui h pt p q f) = true) as Hha.
    { unfold has_authority_b. cbn [ser scheme_end C02_Auth.auth_url]. rewrite (auth_ser_shape hd). rewrite nskipn_app_len. reflexivity. }
    congruence.
Qed.
End NoAuthSplice.

(* ---------- non-vacuity: "a:/p" with set_path("/x y/../z") ---------- *)
Definition na_u : url := noauth_url [97] (C02_Path.path_text [] [112]) None None.

Lemma na_u_ok : noauth_ok [97] [] [112] None None.
Proof.
  constructor; try exact I; try (vm_compute; reflexivity).
  vm_compute. discriminate.
Qed.

Lemma splice_noauth_inhabited hp hpo hd :
  Canon hp hpo hd na_u /\ ser na_u = [97; 58; 47; 112] /\ has_authority_b na_u = false
  /\ byte_eqb (ser na_u) (scheme_end na_u + 1) 47 = true /\ path_start na_u = scheme_end na_u + 1
  /\ usv_list [47; 120; 32; 121; 47; 46; 46; 47; 122] /\ forallb no_qh [47; 120; 32; 121; 47; 46; 46; 47; 122] = true
  /\ inp_starts_with_char 47 [120; 32; 121; 47; 46; 46; 47; 122] = false
  /\ first_ok (rev [47; 120; 32; 121; 47; 46; 46; 47; 122])
  /\ (exists u', set_path true na_u [47; 120; 32; 121; 47; 46; 46; 47; 122] = Some u' /\ ser u' = [97; 58; 47; 122]
                 /\ C06_HostNone.path_starts_with_2slash u' = false)
  /\ splice_path na_u [47; 120; 32; 121; 47; 46; 46; 47; 122] = [97; 58; 47; 120; 32; 121; 47; 46; 46; 47; 122].
Proof.
  split; [exact (Canon_noauth hp hpo hd _ _ _ _ _ na_u_ok)|].
  split; [vm_compute; reflexivity|]. split; [vm_compute; reflexivity|]. split; [vm_compute; reflexivity|].
  split; [vm_compute; reflexivity|]. split; [repeat constructor; unfold is_usv; lia|]. split; [vm_compute; reflexivity|].
  split; [vm_compute; reflexivity|]. split; [vm_compute; reflexivity|].
  split; [eexists; split; [vm_compute; reflexivity | split; vm_compute; reflexivity]|]. vm_compute; reflexivity.
Qed.
