(* Proofs/C06_HostNone.v - Url::set_host(None) on a well-formed record: host, credentials and port
   are removed together; scheme, path, query and fragment read the same.
   Two classes of the pinned code are excluded explicitly (and refuted by witnesses below):
     - the path is empty and nothing follows it: the setter rewrites the path to "/" (F-C06-5);
     - the path starts with "//": the result has no "/." marker and re-reads as an authority (F-C02-2). *)
From RU Require Import Base.Prelude Model.HostT Model.UrlRecord Model.Parser Model.Setters Model.WF
  Proofs.ListN Proofs.C03_WF Proofs.C06_List Proofs.C06_WFI Proofs.C06_Tail Proofs.C06_Steps Proofs.C06_Suffix
  Proofs.C06_Front Proofs.C06_Port.

Ltac splits := repeat match goal with |- _ /\ _ => split end.

Definition path_empty_at_end (u : url) : bool := nlen (ser u) =? path_start u.
Definition path_starts_with_2slash (u : url) : bool := starts_with s_ss (nskipn (path_start u) (ser u)).

(* the record the setter builds *)
Definition without_host (u : url) (new_ps : N) : url :=
  mkUrl (nfirstn new_ps (ser u) ++ nskipn (path_start u) (ser u)) (scheme_end u) new_ps new_ps new_ps HI_None None new_ps
        (option_map (shift (path_start u) new_ps) (query_start u))
        (option_map (shift (path_start u) new_ps) (fragment_start u)).

Section WithoutHost.
Variables (dbg : bool) (u : url) (new_ps : N).
Hypothesis W : wf_b u = true.
Hypothesis Ha : has_authority_b u = true.
Hypothesis Hne : path_empty_at_end u = false.
Hypothesis Hss : path_starts_with_2slash u = false.
Hypothesis Hnp : new_ps = scheme_end u + 1 \/ new_ps = scheme_end u + 3.

Let u' := without_host u new_ps.
Let b := path_start u.

Lemma wh_bounds : scheme_end u + 3 <= path_start u /\ path_start u < nlen (ser u) /\ new_ps <= path_start u.
Proof.
  pose proof (wf_auth_facts u W Ha) as F.
  pose proof (af_ue F); pose proof (af_hs F); pose proof (af_he F); pose proof (af_ps F); pose proof (af_len F).
  unfold path_empty_at_end in Hne. lia.
Qed.

Lemma wh_pre : agree_pre new_ps (ser u) (ser u').
Proof. destruct wh_bounds. change (ser u') with (nfirstn new_ps (ser u) ++ nskipn b (ser u)). apply agree_pre_nfirstn. lia. Qed.

Lemma wh_suf : agree_suf b new_ps (ser u) (ser u').
Proof.
  destruct wh_bounds. unfold agree_suf. change (ser u') with (nfirstn new_ps (ser u) ++ nskipn b (ser u)).
  rewrite nskipn_app_ge by (rewrite nlen_nfirstn; lia). rewrite nlen_nfirstn by lia. rewrite N.sub_diag. reflexivity.
Qed.

Lemma wh_len : nlen (ser u') = new_ps + (nlen (ser u) - b).
Proof.
  destruct wh_bounds. change (ser u') with (nfirstn new_ps (ser u) ++ nskipn b (ser u)).
  rewrite nlen_app, nlen_nfirstn, nlen_nskipn by lia. reflexivity.
Qed.

Lemma wh_tail : shifted_tail b new_ps u u'.
Proof. split; [|split; reflexivity]. change (path_start u') with new_ps. unfold shift, b. lia. Qed.

Lemma wh_path_byte : byte_eqb (ser u) (path_start u) 47 = true \/ byte_eqb (ser u) (path_start u) 63 = true
  \/ byte_eqb (ser u) (path_start u) 35 = true.
Proof.
  pose proof W as W0. apply wf_b_iff in W0. rewrite Ha in W0. destruct W0 as (_ & (_ & PS) & _).
  destruct wh_bounds. destruct PS as [PS|PS]; [lia | exact PS].
Qed.

Lemma wh_byte_at_ps c : byte_eqb (ser u') new_ps c = byte_eqb (ser u) (path_start u) c.
Proof.
  replace new_ps with (shift b new_ps b) at 1 by (unfold shift; lia).
  apply (suf_byte_eqb b new_ps); [apply wh_suf | lia | reflexivity].
Qed.

Lemma wh_has_authority : has_authority_b u' = (new_ps =? scheme_end u + 3).
Proof.
  destruct wh_bounds as (B1 & B2 & B3).
  destruct Hnp as [E|E].
  - replace (new_ps =? scheme_end u + 3) with false by lia.
    destruct (has_authority_b u') eqn:Ha'; [|reflexivity]. exfalso.
    unfold has_authority_b in Ha'. change (scheme_end u') with (scheme_end u) in Ha'. apply css_bytes in Ha'.
    destruct Ha' as (_ & C1 & C2).
    (* bytes se+1, se+2 of the new serialization are the first two path bytes *)
    unfold path_starts_with_2slash in Hss.
    assert (nnth (ser u) (path_start u) = Some 47 /\ nnth (ser u) (path_start u + 1) = Some 47) as [D1 D2].
    { rewrite <- (suf_nnth b new_ps _ _ (path_start u) (scheme_end u + 1) wh_suf) by (unfold b; lia).
      rewrite <- (suf_nnth b new_ps _ _ (path_start u + 1) (scheme_end u + 2) wh_suf) by (unfold b; lia). tauto. }
    assert (starts_with s_ss (nskipn (path_start u) (ser u)) = true) as X.
    { rewrite (nskipn_cons_of_nnth _ _ _ D1), (nskipn_cons_of_nnth _ _ _ D2). reflexivity. }
    congruence.
  - replace (new_ps =? scheme_end u + 3) with true by lia.
    rewrite (has_authority_b_pre new_ps u u' wh_pre) by (try lia; reflexivity). exact Ha.
Qed.

Lemma wh_wf : wf_b u' = true.
Proof.
  destruct wh_bounds as (B1 & B2 & B3). pose proof wh_len as Hl.
  destruct (wf_scheme_facts u W) as (Hse & Hcolon & Hselt).
  pose proof W as W0. apply wf_b_iff in W0. rewrite Ha in W0. destruct W0 as (S & (AU & PS) & Q).
  apply wf_b_iff. split; [|split].
  - apply (scheme_ok_pre new_ps u u'); [apply wh_pre | lia | reflexivity | exact S].
  - rewrite wh_has_authority. destruct Hnp as [E|E].
    + replace (new_ps =? scheme_end u + 3) with false by lia.
      unfold noauth_ok. change (username_end u') with new_ps. change (host_start u') with new_ps.
      change (host_end u') with new_ps. change (path_start u') with new_ps. change (scheme_end u') with (scheme_end u).
      split; [lia|]. split; [lia|]. split; [lia|]. split; [reflexivity|]. split; [reflexivity|].
      split; [lia|]. left. exact E.
    + replace (new_ps =? scheme_end u + 3) with true by lia. split.
      * unfold auth_ok. change (username_end u') with new_ps. change (host_start u') with new_ps.
        change (host_end u') with new_ps. change (path_start u') with new_ps. change (scheme_end u') with (scheme_end u).
        split; [lia|]. split; [lia|]. split; [lia|]. split; [lia|]. split; [lia|]. split; [|split].
        -- left. splits; [reflexivity | exact E |]. change (username_end u') with new_ps.
           rewrite wh_byte_at_ps. destruct wh_path_byte as [X|[X|X]];
             [apply (byte_eqb_excl _ _ 47 58) | apply (byte_eqb_excl _ _ 63 58) | apply (byte_eqb_excl _ _ 35 58)];
             try exact X; lia.
        -- intros _. reflexivity.
        -- reflexivity.
      * apply (sfx_pathstart_ok u u' b new_ps W wh_suf); [unfold b; lia | lia | apply wh_tail | exact PS].
  - apply (sfx_qf_ok u u' b new_ps W wh_suf); [unfold b; lia | lia | apply wh_tail].
Qed.

Lemma wh_scheme : scheme u' = scheme u.
Proof.
  destruct wh_bounds. rewrite (scheme_eval u' wh_wf), (scheme_eval u W). unfold piece. cbn [pidx].
  change (scheme_end u') with (scheme_end u). rewrite !N.sub_0_r, !nskipn_0.
  rewrite (pre_firstn new_ps _ _ _ wh_pre) by lia. reflexivity.
Qed.

Lemma wh_back : same_back dbg u u'.
Proof.
  destruct wh_bounds. pose proof wh_len.
  apply (sfx_back dbg u u' b new_ps W wh_wf wh_suf); [unfold b; lia | lia | apply wh_tail].
Qed.

Lemma wh_username : username dbg u' = Some [].
Proof.
  rewrite (username_eval dbg u' wh_wf). f_equal. unfold piece. cbn [pidx]. rewrite wh_has_authority.
  change (username_end u') with new_ps. change (scheme_end u') with (scheme_end u).
  destruct Hnp as [E|E]; rewrite E.
  - replace (scheme_end u + 1 =? scheme_end u + 3) with false by lia. rewrite N.sub_diag. reflexivity.
  - rewrite N.eqb_refl, N.sub_diag. reflexivity.
Qed.

Lemma wh_password : password dbg u' = Some None.
Proof.
  rewrite (password_piece dbg u' wh_wf).
  assert (has_password_b u' = false) as Hp.
  { unfold has_password_b. rewrite wh_has_authority. destruct Hnp as [E|E].
    - replace (new_ps =? scheme_end u + 3) with false by lia. reflexivity.
    - change (username_end u') with new_ps. rewrite wh_byte_at_ps.
      destruct wh_path_byte as [X|[X|X]];
        [rewrite (byte_eqb_excl _ _ 47 58) | rewrite (byte_eqb_excl _ _ 63 58) | rewrite (byte_eqb_excl _ _ 35 58)];
        try exact X; try lia; apply andb_false_r. }
  rewrite Hp. reflexivity.
Qed.

Lemma wh_host_str : host_str u' = Some None.
Proof. reflexivity. Qed.

End WithoutHost.

Section SetHostNone.
Variable dbg : bool.
Variable host_parse : list N -> result host.
Variable host_parse_opaque : list N -> result host.
Variable host_display : host -> list N.

Theorem set_host_none_ok u u' st : wf_b u = true ->
  set_host dbg host_parse host_parse_opaque host_display u None = Some (u', st) ->
  (st <> SOk -> u' = u)
  /\ (st = SOk -> has_host u = false -> u' = u)
  /\ (st = SOk -> has_host u = true -> path_empty_at_end u = false -> path_starts_with_2slash u = false ->
      wf_b u' = true /\ host_text_ok u' /\ scheme u' = scheme u /\ same_back dbg u u'
      /\ username dbg u' = Some [] /\ password dbg u' = Some None /\ host_str u' = Some None /\ port u' = None).
Proof.
  intros W H. unfold set_host in H. rewrite (cannot_be_a_base_eval u W) in H. cbn [bindo] in H.
  destruct (negb (byte_eqb (ser u) (scheme_end u + 1) 47)).
  { inversion H; subst. split; [reflexivity|]. split; intros; discriminate. }
  unfold u_scheme_type in H. rewrite (scheme_eval u W) in H. cbn [bindo] in H.
  set (st0 := scheme_type_of (piece u (pidx u BeforeScheme) (pidx u AfterScheme))) in H.
  destruct (has_host u) eqn:Hh.
  2:{ inversion H; subst. split; [intros X; contradiction|]. split; [reflexivity | intros; discriminate]. }
  destruct (st_is_special st0 && negb (st_is_file st0)).
  { inversion H; subst. split; [reflexivity|]. split; intros; discriminate. }
  pose proof (has_host_authority u W Hh) as Ha.
  destruct (dbg_byte_is dbg _ (scheme_end u) 58); cbn [bindo] in H; [|discriminate].
  destruct (dbg_byte_is dbg _ (path_start u) 47); cbn [bindo] in H; [|discriminate].
  match type of H with bindo (assert_o ?c) _ = _ => destruct c eqn:Ec; cbn [assert_o bindo] in H; [|discriminate] end.
  split; [|split].
  - intros Hne. exfalso. unfold sub_off_opt in H.
    destruct (adjust_opt dbg (query_start u) _ 0); cbn [bindo] in H; [|discriminate].
    destruct (adjust_opt dbg (fragment_start u) _ 0); cbn [bindo] in H; [|discriminate].
    inversion H; subst. apply Hne. reflexivity.
  - intros _ X. discriminate.
  - intros _ _ Hne Hss. unfold path_empty_at_end in Hne. rewrite Hne in H, Ec.
    set (new_ps := if st_is_file st0 then scheme_end u + 3 else scheme_end u + 1) in *.
    assert (new_ps = scheme_end u + 1 \/ new_ps = scheme_end u + 3) as Hnp by (subst new_ps; destruct (st_is_file st0); lia).
    fold (path_empty_at_end u) in Hne.
    destruct (wh_bounds u new_ps W Ha Hne Hnp) as (B1 & B2 & B3).
    destruct (wf_tail_offsets_ge u (path_start u) W ltac:(lia)) as [Gq Gf].
    unfold sub_off_opt in H. rewrite !adjust_opt_ok in H
      by (destruct (query_start u), (fragment_start u); try exact I; lia).
    cbn [bindo] in H.
    assert (u' = without_host u new_ps /\ st = SOk) as [-> ->].
    { inversion H; subst. split; [|reflexivity]. unfold without_host. f_equal;
        apply option_map_shift_ext; intros i Hi; unfold shift; [rewrite Hi in Gq | rewrite Hi in Gf]; lia. }
    splits.
    + apply wh_wf; assumption.
    + intros X. discriminate X.
    + apply wh_scheme; assumption.
    + apply wh_back; assumption.
    + apply wh_username; assumption.
    + apply wh_password; assumption.
    + reflexivity.
    + reflexivity.
Qed.

End SetHostNone.

(* ---------- the two excluded classes are real: witnesses ---------- *)
Definition hn_hp (s : list N) : result host := Ok (HDomain s).
Definition hn_hd (h : host) : list N := match h with HDomain d => d | _ => [] end.

(* "a://h" : set_host(None) gives "a:/" - the empty path became "/" *)
Definition hn_w1 : url := mkUrl [97; 58; 47; 47; 104] 1 4 4 5 HI_Domain None 5 None None.
Lemma set_host_none_empty_path_refuted :
  wf_b hn_w1 = true /\ path_empty_at_end hn_w1 = true
  /\ exists u', set_host true hn_hp hn_hp hn_hd hn_w1 None = Some (u', SOk)
     /\ path hn_w1 = Some [] /\ path u' = Some [47].
Proof. split; [vm_compute; reflexivity|]. split; [vm_compute; reflexivity|]. eexists. split; [vm_compute; reflexivity|]. split; vm_compute; reflexivity. Qed.

(* "a://h//x" : set_host(None) gives "a://x" whose record is not well-formed (it re-reads as host x) *)
Definition hn_w2 : url := mkUrl [97; 58; 47; 47; 104; 47; 47; 120] 1 4 4 5 HI_Domain None 5 None None.
Lemma set_host_none_double_slash_refuted :
  wf_b hn_w2 = true /\ path_starts_with_2slash hn_w2 = true
  /\ exists u', set_host true hn_hp hn_hp hn_hd hn_w2 None = Some (u', SOk)
     /\ ser u' = [97; 58; 47; 47; 120] /\ wf_b u' = false.
Proof. split; [vm_compute; reflexivity|]. split; [vm_compute; reflexivity|]. eexists. split; [vm_compute; reflexivity|]. split; vm_compute; reflexivity. Qed.
