(* Proofs/C08_RelCanon.v - the inverse law on arbitrary records: a computable recogniser of the explicit
   form of C08_RelLaw (hier_canon: the record IS  pre "/" seg "/" ... "/" last [?q][#f]  with the stored
   offsets; rel_base_ok: "scheme://" or just "scheme:" in front and not a file URL; rel_target_ok: the target's segments,
   query and fragment are canonical for the base's scheme type; main_eqb: the seven stored values in
   front of the path agree). *)
From RU Require Import Base.Prelude Base.Utf8 Base.Utf8Facts Model.AsciiSet Gen.Tables Model.PercentEncoding
  Model.HostT Model.UrlRecord Model.Parser Model.Setters Model.WF Model.MakeRelative Model.KnownC08
  Proofs.ListN Proofs.C14_Enc Proofs.C02_Enc Proofs.C02_Parts Proofs.C02_Opaque Proofs.C02_Path Proofs.C02_PathL1
  Proofs.C08_Input Proofs.C08_Simple Proofs.C08_Contain Proofs.C08_RelEval Proofs.C08_RelPath Proofs.C08_RelJoin
  Proofs.C08_RelMr Proofs.C08_RelLaw.

Lemma hi_eqb_true a b : hi_eqb a b = true -> a = b.
Proof.
  destruct a, b; cbn [hi_eqb]; intros H; try discriminate; try reflexivity.
  - apply N.eqb_eq in H. subst. reflexivity.
  - apply list_eqb_spec in H. subst. reflexivity.
Qed.

Lemma opt_eqb_true a b : opt_eqb a b = true -> a = b.
Proof. destruct a, b; cbn [opt_eqb]; intros H; try discriminate; try reflexivity. apply N.eqb_eq in H. subst. reflexivity. Qed.

Lemma url_eqb_true u v : url_eqb u v = true -> u = v.
Proof.
  destruct u as [s1 a1 b1 c1 d1 e1 f1 g1 h1 i1], v as [s2 a2 b2 c2 d2 e2 f2 g2 h2 i2]. unfold url_eqb.
  cbn [ser scheme_end username_end host_start host_end hosti port path_start query_start fragment_start].
  intros H. repeat (apply andb_true_iff in H; destruct H as [H ?]).
  apply list_eqb_spec in H.
  repeat match goal with X : (_ =? _) = true |- _ => apply N.eqb_eq in X end.
  repeat match goal with X : opt_eqb _ _ = true |- _ => apply opt_eqb_true in X end.
  match goal with X : hi_eqb _ _ = true |- _ => apply hi_eqb_true in X end.
  subst. reflexivity.
Qed.

(* ---------- the recognisers ---------- *)
Definition hier_parts (u : url) : option (list (list N) * list N * option (list N) * option (list N)) :=
  match path u, query true u, fragment true u with
  | Some (47 :: rest), Some q, Some f =>
      let l := split_on 47 rest in Some (removelast l, last l [], q, f)
  | _, _, _ => None
  end.

Definition u_pre (u : url) : list N := nfirstn (path_start u) (ser u).

Definition hier_canon (u : url) : bool :=
  match hier_parts u with
  | Some (segs, lst, q, f) =>
      url_eqb u (hier_url (u_pre u) (scheme_end u) (username_end u) (host_start u) (host_end u) (hosti u) (port u)
                          segs lst q f)
      && forallb no_slash segs && no_slash lst
  | None => false
  end.

Definition rel_base_ok (b : url) : bool :=
  (scheme_end b <=? nlen (u_pre b))
  && (starts_with s_css (nskipn (scheme_end b) (u_pre b)) || list_eqb (nskipn (scheme_end b) (u_pre b)) [58])
  && negb (st_is_file (b_st b)).

Definition opt_cleanb (S : aset) (o : option (list N)) : bool :=
  match o with Some x => clean S x | None => true end.

Definition rel_target_ok (st : scheme_type) (t : url) : bool :=
  match hier_parts t with
  | Some (segs, lst, q, f) =>
      forallb (seg_ok st) segs && seg_ok st lst && opt_cleanb (query_set st) q && opt_cleanb T_FRAGMENT f
      && (nlen (ser t) <=? U32_MAX_P)
  | None => false
  end.

Definition main_eqb (b t : url) : bool :=
  (scheme_end t =? scheme_end b) && (username_end t =? username_end b) && (host_start t =? host_start b)
  && (host_end t =? host_end b) && hi_eqb (hosti t) (hosti b) && opt_eqb (port t) (port b)
  && (path_start t =? path_start b).

(* the computable domain of the theorem: both records in the explicit form, same stored front, base with
   authority and not file, target canonical, and the pair inside MR_ok *)
Definition rel_canon (b t : url) : bool :=
  hier_canon b && hier_canon t && rel_base_ok b && rel_target_ok (b_st b) t && main_eqb b t && mr_ok b t.

Lemma opt_cleanb_spec S o : opt_cleanb S o = true -> opt_clean S o.
Proof. destruct o; cbn [opt_cleanb opt_clean]; intros H; [exact H | exact I]. Qed.

Lemma mr_ok_pre b t : mr_ok b t = true -> u_pre b = u_pre t.
Proof.
  unfold mr_ok, mr_class, u_pre. intros H.
  destruct (cannot_be_a_base b) as [[|]|]; try (exfalso; lia).
  destruct (cannot_be_a_base t) as [[|]|]; try (exfalso; lia).
  destruct (path b); [|exfalso; lia]. destruct (path t); [|exfalso; lia].
  destruct (list_eqb (nfirstn (path_start b) (ser b)) (nfirstn (path_start t) (ser t))) eqn:E; [|exfalso; cbn [negb] in H; lia].
  apply list_eqb_spec. exact E.
Qed.

Lemma front_auth_of se pre : se <= nlen pre -> starts_with s_css (nskipn se pre) = true -> front_auth se pre.
Proof.
  intros Hle Hs. apply starts_with_split in Hs.
  exists (nfirstn se pre), (skipn (length s_css) (nskipn se pre)). split.
  - change ([58; 47; 47] ++ skipn (length s_css) (nskipn se pre)) with (s_css ++ skipn (length s_css) (nskipn se pre)).
    rewrite <- Hs. symmetry. apply nfirstn_nskipn.
  - apply nlen_nfirstn. exact Hle.
Qed.

Lemma front_pre_of se pre : se <= nlen pre ->
  starts_with s_css (nskipn se pre) || list_eqb (nskipn se pre) [58] = true -> front_pre se pre.
Proof.
  intros Hle H. apply orb_true_iff in H. destruct H as [H|H].
  - left. apply front_auth_of; assumption.
  - right. apply list_eqb_spec in H. exists (nfirstn se pre). split.
    + rewrite <- H. symmetry. apply nfirstn_nskipn.
    + apply nlen_nfirstn. exact Hle.
Qed.

Section Canon.
Variables (dbg : bool) (hp hpo : list N -> result host) (hd : host -> list N).

Theorem relative_canon b t r : rel_canon b t = true ->
  make_relative dbg b t = Some (Some r) ->
  parse_url dbg hp hpo hd None (Some b) r = POk t.
Proof.
  unfold rel_canon. intros H Hmr.
  apply andb_true_iff in H. destruct H as [H Hok]. apply andb_true_iff in H. destruct H as [H Hmain].
  apply andb_true_iff in H. destruct H as [H Htgt]. apply andb_true_iff in H. destruct H as [H Hbase].
  apply andb_true_iff in H. destruct H as [Hcb Hct].
  pose proof (mr_ok_pre b t Hok) as Epre.
  unfold hier_canon in Hcb, Hct. unfold rel_target_ok in Htgt.
  destruct (hier_parts b) as [[[[bsegs blast] bq] bf]|]; [|discriminate].
  destruct (hier_parts t) as [[[[tsegs tlast] tq] tf]|]; [|discriminate].
  apply andb_true_iff in Hcb. destruct Hcb as [Hcb Hbln]. apply andb_true_iff in Hcb. destruct Hcb as [Hcb Hbsn].
  apply andb_true_iff in Hct. destruct Hct as [Hct _]. apply andb_true_iff in Hct. destruct Hct as [Hct _].
  apply andb_true_iff in Htgt. destruct Htgt as [Htgt Hlen]. apply andb_true_iff in Htgt. destruct Htgt as [Htgt Hf].
  apply andb_true_iff in Htgt. destruct Htgt as [Htgt Hq]. apply andb_true_iff in Htgt. destruct Htgt as [Hts Htl].
  unfold main_eqb in Hmain.
  apply andb_true_iff in Hmain. destruct Hmain as [Hmain M7]. apply andb_true_iff in Hmain. destruct Hmain as [Hmain M6].
  apply andb_true_iff in Hmain. destruct Hmain as [Hmain M5]. apply andb_true_iff in Hmain. destruct Hmain as [Hmain M4].
  apply andb_true_iff in Hmain. destruct Hmain as [Hmain M3]. apply andb_true_iff in Hmain. destruct Hmain as [M1 M2].
  apply N.eqb_eq in M1, M2, M3, M4, M7. apply hi_eqb_true in M5. apply opt_eqb_true in M6.
  apply url_eqb_true in Hcb, Hct.
  rewrite M1, M2, M3, M4, M5, M6, <- Epre in Hct. clear M1 M2 M3 M4 M5 M6 M7 Epre.
  unfold rel_base_ok in Hbase.
  apply andb_true_iff in Hbase. destruct Hbase as [Hbase Hnf]. apply andb_true_iff in Hbase. destruct Hbase as [Hle Hss].
  apply negb_true_iff in Hnf. apply N.leb_le in Hle. pose proof (front_pre_of (scheme_end b) (u_pre b) Hle Hss) as Hfa. clear Hle Hss.
  set (st := b_st b) in *.
  assert (st = scheme_type_of (nfirstn (scheme_end b) (u_pre b))) as Est.
  { unfold st, b_st. rewrite Hcb at 1. rewrite hier_b_scheme by exact Hfa. reflexivity. }
  assert (nlen (ser t) = nlen (u_pre b ++ path_text tsegs tlast) + nlen (qf_qtext tq) + nlen (qf_ftext tf)) as Elen.
  { rewrite Hct at 1. unfold hier_url. cbn [ser]. unfold qf_text. rewrite !nlen_app. lia. }
  assert (rel_ok (u_pre b) (scheme_end b) bsegs blast tsegs tlast tq tf) as K.
  { constructor; try rewrite <- Est; try assumption.
    - apply opt_cleanb_spec. exact Hq.
    - apply opt_cleanb_spec. exact Hf.
    - destruct tq; cbn [qf_qs opt_le]; [lia | exact I].
    - destruct tf; cbn [qf_fs opt_le]; [lia | exact I]. }
  clearbody st.
  remember (u_pre b) as pre eqn:E1. remember (scheme_end b) as se eqn:E2. remember (username_end b) as ue eqn:E3.
  remember (host_start b) as hs eqn:E4. remember (host_end b) as he eqn:E5. remember (hosti b) as hi eqn:E6.
  remember (port b) as po eqn:E7.
  subst t. subst b.
  exact (relative_hier dbg hp hpo hd pre se ue hs he hi po bsegs blast bq bf tsegs tlast tq tf r K Hok Hmr).
Qed.

End Canon.

(* ---------- non-vacuity: pairs of parse results inside the domain ---------- *)
From Coq Require Import String.
From RU Require Import Proofs.C02_Reach.
Open Scope string_scope.

Definition rel_canon_on (bs ts : string) : bool :=
  match toy_parse bs, toy_parse ts with POk b, POk t => rel_canon b t | _, _ => false end.

(* the reference make_relative answers on the pair *)
Definition mr_answer (bs ts rs : string) : bool :=
  match toy_parse bs, toy_parse ts with
  | POk b, POk t => match make_relative true b t with Some (Some r) => list_eqb r (B rs) | _ => false end
  | _, _ => false
  end.

Lemma rel_canon_inhabited :
  rel_canon_on "http://127.0.0.1:8080/test/" "http://127.0.0.1:8080/test" = true
  /\ mr_answer "http://127.0.0.1:8080/test/" "http://127.0.0.1:8080/test" "../test" = true
  /\ rel_canon_on "http://127.0.0.1:8080/test/bla/" "http://127.0.0.1:8080/test2/video" = true
  /\ mr_answer "http://127.0.0.1:8080/test/bla/" "http://127.0.0.1:8080/test2/video" "../../test2/video" = true
  /\ rel_canon_on "http://h/a/b.html?c=d" "http://h/a/b.html?e=f" = true
  /\ rel_canon_on "http://h/a/b?q#f" "http://h/a/b?q" = true
  /\ rel_canon_on "a://h/x/y" "a://h/x/z#f" = true
  /\ rel_canon_on "http://u:p@h:81/a/f" "http://u:p@h:81/" = true
  /\ mr_answer "http://u:p@h:81/a/f" "http://u:p@h:81/" "../" = true
  /\ rel_canon_on "ws://h/f?bq" "ws://h/" = true
  /\ mr_answer "ws://h/f?bq" "ws://h/" "/" = true
  /\ rel_canon_on "non-spec://h/a/b/c/d" "non-spec://h/a/x%20y/z\w?q=\#f" = true
  /\ mr_answer "non-spec://h/a/b/c/d" "non-spec://h/a/x%20y/z\w?q=\#f" "../../x%20y/z\w?q=\#f" = true
  /\ rel_canon_on "http://h/a/b" "http://h/a/b#f" = true
  /\ rel_canon_on "http://h/a/b#x" "http://h/a/b" = true
  /\ rel_canon_on "a:/x/y" "a:/x/z#f" = true /\ mr_answer "a:/x/y" "a:/x/z#f" "z#f" = true
  /\ rel_canon_on "web+demo:/a/b/c?bq" "web+demo:/a/d/" = true /\ mr_answer "web+demo:/a/b/c?bq" "web+demo:/a/d/" "../d/" = true
  /\ rel_canon_on "a:/x" "a:/" = true /\ mr_answer "a:/x" "a:/" "/" = true.
Proof. vm_compute. repeat split. Qed.

(* the explicit form: base http://h/a/b/f, target http://h/a/c/g?q *)
Lemma rel_ok_inhabited :
  rel_ok (B "http://h") 4 [B "a"; B "b"] (B "f") [B "a"; B "c"] (B "g") (Some (B "q")) None
  /\ toy_parse "http://h/a/b/f" = POk (hier_url (B "http://h") 4 7 7 8 HI_Domain None [B "a"; B "b"] (B "f") None None)
  /\ toy_parse "http://h/a/c/g?q" = POk (hier_url (B "http://h") 4 7 7 8 HI_Domain None [B "a"; B "c"] (B "g") (Some (B "q")) None)
  /\ make_relative true (hier_url (B "http://h") 4 7 7 8 HI_Domain None [B "a"; B "b"] (B "f") None None)
                        (hier_url (B "http://h") 4 7 7 8 HI_Domain None [B "a"; B "c"] (B "g") (Some (B "q")) None)
     = Some (Some (B "../c/g?q")).
Proof.
  split; [|vm_compute; repeat split].
  constructor; try (vm_compute; reflexivity); try exact I.
  - left. exists (B "http"), (B "h"). split; reflexivity.
  - vm_compute. discriminate.
Qed.
