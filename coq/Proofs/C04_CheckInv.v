(* Proofs/C04_CheckInv.v - Url::check_invariants (url/src/lib.rs:686-808), the self-check named by the anchors of C04,
   as a three-valued function on the record model, and its tie to wf_b.

   TRANSCRIPTION (by hand, of the pinned source; not generated).  check_invariants returns Result<(), String>; its
   assert! / assert_eq! are LOCAL macros that return Err(..).  It can nevertheless panic: byte_at is an index
   expression on the byte slice (index out of range), slice(..) is a str range (out of range), port_str.parse::<u16>()
   is followed by .expect(..), and so is Url::parse(self.as_str()).  Outcomes: COk = Ok(()), CErr = Err(String),
   CPanic.  The function is written in continuation style, one definition per group of source lines; `chk` is the
   local assert! macro, `bp` an operation that may panic (byte_at / u_slice* / path / scheme of Model/UrlRecord.v:
   None = panic).  As everywhere in Model/UrlRecord.v a str slice is modelled by its range check (char boundaries are
   not modelled: the serialization of every reached record is ASCII - C03_ReachFull.reach3_inv_all).  The u32
   subtraction `host_start - 1` (line 727) is evaluated only after `host_start >= username_end + 2` passed, so it does
   not underflow.  u16::from_str = parse_u16 below (optional '+', at least one ASCII digit, no overflow).
   The re-parse tail (lines 791-806) takes the result of Url::parse(self.as_str()) as an argument.

   RESULTS.  ci_struct_eval: on a record with wf_b and host_text_ok (wfh) the structural part (lines 713-789) passes
   every check and reaches its continuation, unless the host is an IP address whose stored text differs from the
   Display text of the address - then it returns Err (no panic either).  check_invariants_no_panic: on a wfh record
   whose re-parse does not fail, check_invariants does not panic; check_invariants_ok: it returns Ok(()) when the record
   is a fixpoint of re-parsing (C02) and ip_text_ok.  Without the re-parse premise the .expect of line 791 is a real panic
   site: C02's known classes (e.g. F-C02-8) contain records whose serialization does not re-parse. *)
From RU Require Import Base.Prelude Base.Utf8 Model.HostT Model.UrlRecord Model.Parser Model.Setters Model.WF
  Proofs.ListN Proofs.C03_WF Proofs.C06_Suffix Proofs.C06_Main.

Inductive ci := COk | CErr | CPanic.
Definition chk (c : bool) (k : ci) : ci := if c then k else CErr.
Definition bp {A} (o : option A) (k : A -> ci) : ci := match o with Some a => k a | None => CPanic end.

Definition is_nil (l : list N) : bool := match l with [] => true | _ => false end.

(* <u16 as FromStr>::from_str *)
Definition parse_u16 (s : list N) : option N :=
  let d := match s with 43 :: r => r | _ => s end in
  if is_nil d || negb (forallb is_digit d) then None
  else let v := fold_left (fun a c => 10 * a + (c - 48)) d 0 in
       if v <=? 65535 then Some v else None.

Section CI.
Variable hd : host -> list N.      (* Display for Host (address.to_string(), h.to_string()) *)

(* 713-719 *)
Definition ci_scheme (u : url) (k : ci) : ci :=
  chk (1 <=? scheme_end u) (
  bp (byte_at u 0) (fun b0 => chk (is_alpha b0) (
  bp (u_slice u 1 (scheme_end u)) (fun sc => chk (forallb scheme_char sc) (
  bp (byte_at u (scheme_end u)) (fun c => chk (c =? 58) k)))))).

(* 723-732 *)
Definition ci_userinfo (u : url) (k : ci) : ci :=
  if negb (username_end u =? nlen (ser u)) then
    bp (byte_at u (username_end u)) (fun b =>
      if b =? 58 then chk (username_end u + 2 <=? host_start u) (bp (byte_at u (host_start u - 1)) (fun x => chk (x =? 64) k))
      else if b =? 64 then chk (host_start u =? username_end u + 1) k
      else chk (username_end u =? scheme_end u + 3) k)
  else k.

(* 733-748 *)
Definition ci_host (u : url) (k : ci) : ci :=
  chk (username_end u <=? host_start u) (chk (host_start u <=? host_end u) (
  bp (u_slice u (host_start u) (host_end u)) (fun hs =>
    match hosti u with
    | HI_None => chk (is_nil hs) k
    | HI_Ipv4 a => chk (list_eqb hs (hd (HIpv4 a))) k
    | HI_Ipv6 p => chk (list_eqb hs (hd (HIpv6 p))) k
    | HI_Domain => bp (scheme u) (fun sch => if st_is_special (scheme_type_of sch) then chk (negb (is_nil hs)) k else k)
    end))).

(* 749-758 *)
Definition ci_port (u : url) (k : ci) : ci :=
  if path_start u =? host_end u then chk (opt_eqb (port u) None) k
  else bp (byte_at u (host_end u)) (fun c => chk (c =? 58) (
       bp (u_slice u (host_end u + 1) (path_start u)) (fun ps =>
       bp (parse_u16 ps) (fun p => chk (opt_eqb (port u) (Some p)) k)))).

(* 759-762 *)
Definition ci_path_start (u : url) (k : ci) : ci :=
  if path_start u =? nlen (ser u) then k
  else bp (byte_at u (path_start u)) (fun b => chk ((b =? 47) || (b =? 35) || (b =? 63)) k).

(* 765-777 *)
Definition ci_no_authority (u : url) (k : ci) : ci :=
  chk (username_end u =? scheme_end u + 1) (chk (host_start u =? scheme_end u + 1) (chk (host_end u =? scheme_end u + 1) (
  chk (hi_eqb (hosti u) HI_None) (chk (opt_eqb (port u) None) (
  bp (path u) (fun p =>
    if starts_with s_ss p then
      bp (byte_at u (scheme_end u + 1)) (fun a => chk (a =? 47) (
      bp (byte_at u (scheme_end u + 2)) (fun b => chk (b =? 46) (chk (path_start u =? scheme_end u + 3) k))))
    else chk (path_start u =? scheme_end u + 1) k)))))).

(* 779-789 *)
Definition ci_query_fragment (u : url) (k : ci) : ci :=
  let kf := match fragment_start u with
            | Some f => chk (path_start u <=? f) (bp (byte_at u f) (fun b => chk (b =? 35)
                          (match query_start u, fragment_start u with Some q, Some f' => chk (q <? f') k | _, _ => k end)))
            | None => k
            end in
  match query_start u with
  | Some q => chk (path_start u <=? q) (bp (byte_at u q) (fun b => chk (b =? 63) kf))
  | None => kf
  end.

(* 713-789 *)
Definition ci_struct (u : url) (k : ci) : ci :=
  ci_scheme u (
  bp (u_slice_from u (scheme_end u + 1)) (fun rest =>
    if starts_with s_ss rest
    then ci_userinfo u (ci_host u (ci_port u (ci_path_start u (ci_query_fragment u k))))
    else ci_no_authority u (ci_query_fragment u k))).

(* 791-807; `other` = Url::parse(self.as_str()) *)
Definition ci_reparse (u : url) (other : pres url) : ci :=
  match other with
  | POk o =>
      chk (list_eqb (ser u) (ser o)) (chk (scheme_end u =? scheme_end o) (chk (username_end u =? username_end o) (
      chk (host_start u =? host_start o) (chk (host_end u =? host_end o) (
      (if hi_eqb (hosti u) (hosti o) then fun k => k
       else fun k => bp (host_str u) (fun a => bp (host_str o) (fun b =>
              chk (match a, b with None, Some [] => true | _, _ => false end) k)))
      (chk (opt_eqb (port u) (port o)) (chk (path_start u =? path_start o) (
       chk (opt_eqb (query_start u) (query_start o)) (chk (opt_eqb (fragment_start u) (fragment_start o)) COk)))))))))
  | _ => CPanic
  end.

Definition check_invariants (u : url) (other : pres url) : ci := ci_struct u (ci_reparse u other).

(* the one structural condition that wf_b does not record: the stored text of an IP host is the Display text *)
Definition ip_text_ok (u : url) : bool :=
  match hosti u with
  | HI_Ipv4 a => list_eqb (piece u (host_start u) (host_end u)) (hd (HIpv4 a))
  | HI_Ipv6 p => list_eqb (piece u (host_start u) (host_end u)) (hd (HIpv6 p))
  | _ => true
  end.
End CI.

(* ================================================================ proofs *)
From RU Require Import Proofs.C06_List.

Lemma hi_eqb_refl h : hi_eqb h h = true.
Proof. destruct h; cbn [hi_eqb]; try reflexivity; [apply N.eqb_refl | apply list_eqb_spec; reflexivity]. Qed.
Lemma opt_eqb_refl o : opt_eqb o o = true.
Proof. destruct o; cbn [opt_eqb]; [apply N.eqb_refl | reflexivity]. Qed.

Lemma parse_u16_decimal_sweep : all_below 65536 (fun p => opt_eqb (parse_u16 (decimal p)) (Some p)) = true.
Proof. vm_compute. reflexivity. Qed.
Lemma parse_u16_decimal p : p <= 65535 -> parse_u16 (decimal p) = Some p.
Proof.
  intros H. pose proof (all_below_spec 65536 _ parse_u16_decimal_sweep p ltac:(lia)) as E. cbv beta in E.
  destruct (parse_u16 (decimal p)) as [v|]; cbn [opt_eqb] in E; [|discriminate]. apply N.eqb_eq in E. subst. reflexivity.
Qed.

Lemma nnth_lt l i : i < nlen l -> exists x, nnth l i = Some x.
Proof.
  intros H. unfold nnth. destruct (nth_error l (N.to_nat i)) as [x|] eqn:E; [exists x; reflexivity|].
  apply nth_error_None in E. unfold nlen in H. lia.
Qed.
Lemma byte_eqb_false_nnth l i b x : byte_eqb l i b = false -> nnth l i = Some x -> x =? b = false.
Proof. unfold byte_eqb. intros H E. rewrite E in H. exact H. Qed.
Lemma piece_len u a b : a <= b -> b <= nlen (ser u) -> nlen (piece u a b) = b - a.
Proof. intros H1 H2. unfold piece. rewrite nlen_nfirstn; [reflexivity|]. rewrite nlen_nskipn. lia. Qed.
Lemma is_nil_len l : is_nil l = (nlen l =? 0).
Proof. destruct l; [reflexivity|]. rewrite nlen_cons. cbn [is_nil]. lia. Qed.
Lemma u_slice_piece u a b : a <= b -> b <= nlen (ser u) -> u_slice u a b = Some (piece u a b).
Proof. intros H1 H2. unfold u_slice, piece. apply slice_o_some; assumption. Qed.
Lemma starts_with_ss_2 l : starts_with s_ss l = true -> nnth l 0 = Some 47 /\ nnth l 1 = Some 47.
Proof.
  destruct l as [|a [|b r]]; cbn [starts_with s_ss]; try discriminate; [rewrite andb_false_r; discriminate|].
  intros H. apply andb_true_iff in H. destruct H as [H1 H2]. apply andb_true_iff in H2. destruct H2 as [H2 _].
  apply N.eqb_eq in H1, H2. subst. split; reflexivity.
Qed.
Lemma starts_with_ss_of l : nnth l 0 = Some 47 -> nnth l 1 = Some 47 -> starts_with s_ss l = true.
Proof. destruct l as [|a [|b r]]; cbn; try discriminate. intros H1 H2. inversion H1; inversion H2; subst. reflexivity. Qed.

Lemma nth_error_firstn {A} (l : list A) : forall n i, (i < n)%nat -> nth_error (firstn n l) i = nth_error l i.
Proof.
  induction l as [|x l IH]; intros n i H; [destruct n; destruct i; reflexivity|].
  destruct n as [|n]; [lia|]. destruct i as [|i]; [reflexivity|]. cbn [firstn nth_error]. apply IH. lia.
Qed.
Lemma nnth_nfirstn l n i : i < n -> nnth (nfirstn n l) i = nnth l i.
Proof. intros H. unfold nnth, nfirstn. apply nth_error_firstn. lia. Qed.

Section Eval.
Variable hd : host -> list N.
Variable u : url.
Hypothesis W : wf_b u = true.
Hypothesis HT : host_text_ok u.

Lemma ci_scheme_eval k : ci_scheme u k = k.
Proof.
  destruct (wf_parts u W) as [H _]. unfold wf_scheme in H.
  apply andb_true_iff in H. destruct H as [H Hc]. apply andb_true_iff in H. destruct H as [H Hall].
  apply andb_true_iff in H. destruct H as [H1 Ha].
  unfold ci_scheme. rewrite H1. cbn [chk]. unfold byte_at, u_slice.
  destruct (ser u) as [|c r] eqn:Es; [discriminate|].
  change (nnth (c :: r) 0) with (Some c). cbn [bp]. rewrite Ha. cbn [chk].
  pose proof (byte_eqb_lt _ _ _ Hc) as Hlt. pose proof (byte_eqb_nnth _ _ _ Hc) as Hn.
  rewrite slice_o_some by lia. cbn [bp]. change (nskipn 1 (c :: r)) with r.
  assert (nfirstn (scheme_end u) (c :: r) = c :: nfirstn (scheme_end u - 1) r) as E.
  { unfold nfirstn. replace (N.to_nat (scheme_end u)) with (S (N.to_nat (scheme_end u - 1))) by lia. reflexivity. }
  rewrite E in Hall. cbn [forallb] in Hall. apply andb_true_iff in Hall. rewrite (proj2 Hall). cbn [chk].
  rewrite Hn. cbn [bp]. reflexivity.
Qed.

Lemma rest_eval : u_slice_from u (scheme_end u + 1) = Some (nskipn (scheme_end u + 1) (ser u))
  /\ starts_with s_ss (nskipn (scheme_end u + 1) (ser u)) = has_authority_b u.
Proof.
  destruct (wf_scheme_facts u W) as (_ & Hb & Hlt). split.
  - unfold u_slice_from. apply slice_from_o_some. lia.
  - unfold has_authority_b. rewrite (nskipn_cons_of_nnth _ _ _ (byte_eqb_nnth _ _ _ Hb)). reflexivity.
Qed.

Section Auth.
Hypothesis HA : has_authority_b u = true.

(* the conjuncts of wf_authority, by name *)
Lemma auth_raw :
  (if username_end u =? host_start u then username_end u =? scheme_end u + 3
   else if byte_eqb (ser u) (username_end u) 58
        then (username_end u + 2 <=? host_start u) && byte_eqb (ser u) (host_start u - 1) 64
        else byte_eqb (ser u) (username_end u) 64 && (host_start u =? username_end u + 1)) = true
  /\ (if username_end u =? host_start u then negb (byte_eqb (ser u) (username_end u) 58) else true) = true
  /\ match hosti u with HI_None => host_start u =? host_end u | _ => true end = true
  /\ ((path_start u =? nlen (ser u)) || byte_eqb (ser u) (path_start u) 47 || byte_eqb (ser u) (path_start u) 63
      || byte_eqb (ser u) (path_start u) 35) = true.
Proof.
  destruct (wf_parts u W) as (_ & H & _). rewrite HA in H. unfold wf_authority in H.
  repeat match type of H with (_ && _) = true => apply andb_true_iff in H; let H' := fresh "K" in destruct H as [H H'] end.
  repeat split; assumption.
Qed.

Lemma ci_path_start_eval k : ci_path_start u k = k.
Proof.
  destruct auth_raw as (_ & _ & _ & H). unfold ci_path_start.
  destruct (path_start u =? nlen (ser u)); [reflexivity|]. cbn [orb] in H. unfold byte_at, byte_eqb in *.
  destruct (nnth (ser u) (path_start u)) as [b|]; [|discriminate]. cbn [bp].
  replace ((b =? 47) || (b =? 35) || (b =? 63)) with true; [reflexivity|].
  symmetry. apply orb_true_iff in H. destruct H as [H|H]; [apply orb_true_iff in H; destruct H as [H|H]|]; rewrite H; cbn; rewrite ?orb_true_r; reflexivity.
Qed.

Lemma ci_port_eval k : ci_port u k = k.
Proof.
  pose proof (wf_auth_facts u W HA) as F. pose proof (af_port F) as P. pose proof (af_len F) as L.
  unfold ci_port. destruct (port u) as [p|].
  - destruct P as (P1 & P2 & P3 & P4). replace (path_start u =? host_end u) with false by lia.
    unfold byte_at. rewrite (byte_eqb_nnth _ _ _ P1). cbn [bp]. rewrite N.eqb_refl. cbn [chk].
    unfold u_slice. rewrite slice_o_some by lia. cbn [bp]. rewrite P4, (parse_u16_decimal p P3). cbn [bp opt_eqb].
    rewrite N.eqb_refl. reflexivity.
  - rewrite P, N.eqb_refl. reflexivity.
Qed.

Lemma ci_host_eval k : ci_host hd u k = if ip_text_ok hd u then k else CErr.
Proof.
  pose proof (wf_auth_facts u W HA) as F. destruct auth_raw as (_ & _ & Hn & _).
  pose proof (af_hs F) as F1. pose proof (af_he F) as F2. pose proof (af_ps F) as F3. pose proof (af_len F) as F4.
  unfold ci_host. replace (username_end u <=? host_start u) with true by lia.
  replace (host_start u <=? host_end u) with true by lia. cbn [chk].
  rewrite u_slice_piece by lia. cbn [bp]. unfold ip_text_ok.
  destruct (hosti u) as [| |a|p] eqn:Eh.
  - apply N.eqb_eq in Hn. rewrite Hn, piece_empty. reflexivity.
  - rewrite (scheme_eval u W). cbn [bp].
    assert (is_nil (piece u (host_start u) (host_end u)) = false) as E.
    { rewrite is_nil_len, piece_len by lia. assert (has_host u = true) as Hh by (unfold has_host; rewrite Eh; reflexivity).
      destruct (HT Hh) as (T1 & _). lia. }
    rewrite E. cbn [negb chk]. destruct (st_is_special _); reflexivity.
  - unfold chk. reflexivity.
  - unfold chk. reflexivity.
Qed.

Lemma ci_userinfo_eval k : ci_userinfo u k = k.
Proof.
  pose proof (wf_auth_facts u W HA) as F. destruct auth_raw as (R1 & R2 & Rn & Rp).
  pose proof (af_hs F) as F1. pose proof (af_he F) as F2. pose proof (af_ps F) as F3. pose proof (af_len F) as F4.
  unfold ci_userinfo. destruct (username_end u =? nlen (ser u)) eqn:El; [reflexivity|]. cbn [negb].
  assert (Hlt : username_end u < nlen (ser u)) by lia.
  destruct (nnth_lt _ _ Hlt) as (b & Eb). unfold byte_at. rewrite Eb. cbn [bp].
  destruct (username_end u =? host_start u) eqn:E1.
  - (* no userinfo: the byte at username_end is neither ':' nor '@' *)
    apply negb_true_iff in R2. rewrite (byte_eqb_false_nnth _ _ _ _ R2 Eb).
    assert (b =? 64 = false) as E64.
    { destruct (has_host u) eqn:Hh.
      - destruct (HT Hh) as (_ & _ & T3). apply N.eqb_eq in E1. rewrite <- E1 in T3. exact (byte_eqb_false_nnth _ _ _ _ T3 Eb).
      - assert (hosti u = HI_None) as Hi by (unfold has_host in Hh; destruct (hosti u); try discriminate; reflexivity).
        rewrite Hi in Rn. apply N.eqb_eq in Rn. apply N.eqb_eq in E1.
        pose proof (af_port F) as P. destruct (port u) as [p|].
        + destruct P as (P1 & _). rewrite <- Rn, <- E1 in P1. congruence.
        + assert (path_start u = username_end u) as Ep by lia. rewrite Ep in Rp. rewrite El in Rp. cbn [orb] in Rp.
          unfold byte_eqb in Rp. rewrite Eb in Rp. destruct (b =? 64) eqn:E; [|reflexivity]. apply N.eqb_eq in E. subst b.
          cbn in Rp. discriminate. }
    rewrite E64, R1. reflexivity.
  - destruct (byte_eqb (ser u) (username_end u) 58) eqn:E58.
    + apply andb_true_iff in R1. destruct R1 as [Q1 Q2].
      assert (b =? 58 = true) as -> by (unfold byte_eqb in E58; rewrite Eb in E58; exact E58).
      rewrite Q1. cbn [chk]. rewrite (byte_eqb_nnth _ _ _ Q2). cbn [bp]. reflexivity.
    + apply andb_true_iff in R1. destruct R1 as [Q1 Q2].
      rewrite (byte_eqb_false_nnth _ _ _ _ E58 Eb).
      assert (b =? 64 = true) as -> by (unfold byte_eqb in Q1; rewrite Eb in Q1; exact Q1).
      rewrite Q2. reflexivity.
Qed.
End Auth.

Lemma ci_query_fragment_eval k : ci_query_fragment u k = k.
Proof.
  pose proof (wf_qf_facts u W) as Q. pose proof (qf_q Q) as Q1. pose proof (qf_f Q) as Q2. pose proof (qf_qf Q) as Q3.
  unfold ci_query_fragment. cbv zeta.
  assert (Kf : match fragment_start u with
            | Some f => chk (path_start u <=? f) (bp (byte_at u f) (fun b => chk (b =? 35)
                          (match query_start u, fragment_start u with Some q, Some f' => chk (q <? f') k | _, _ => k end)))
            | None => k
            end = k).
  { destruct (fragment_start u) as [f|]; [|reflexivity]. destruct Q2 as (A & B & C).
    replace (path_start u <=? f) with true by lia. cbn [chk]. unfold byte_at. rewrite (byte_eqb_nnth _ _ _ B). cbn [bp chk].
    destruct (query_start u) as [q|]; [|reflexivity]. replace (q <? f) with true by lia. reflexivity. }
  rewrite Kf. destruct (query_start u) as [q|]; [|reflexivity]. destruct Q1 as (A & B & C).
  replace (path_start u <=? q) with true by lia. cbn [chk]. unfold byte_at. rewrite (byte_eqb_nnth _ _ _ B). reflexivity.
Qed.

Lemma ci_no_authority_eval k : has_authority_b u = false -> ci_no_authority u k = k.
Proof.
  intros HA. pose proof (wf_noauth_facts u W HA) as F. destruct (wf_scheme_facts u W) as (S1 & S2 & S3).
  pose proof (wf_qf_facts u W) as Q. pose proof (qf_q Q) as Q1. pose proof (qf_f Q) as Q2.
  unfold ci_no_authority. rewrite (nf_ue F), (nf_hs F), (nf_he F), (nf_port F), (nf_host F), !N.eqb_refl.
  cbn [chk hi_eqb opt_eqb]. rewrite (path_eval u W). cbn [bp].
  set (pe := pidx u AfterPath). set (ps := pidx u BeforePath).
  assert (Hps : ps = path_start u) by reflexivity.
  assert (Hpe : pe = match query_start u, fragment_start u with Some q, _ => q | None, Some f => f | None, None => nlen (ser u) end).
  { unfold pe, pidx. destruct (query_start u), (fragment_start u); reflexivity. }
  pose proof (nf_len F) as L.
  assert (Hle : ps <= pe /\ pe <= nlen (ser u)).
  { rewrite Hpe, Hps. destruct (query_start u) as [q|]; [lia|]. destruct (fragment_start u) as [f|]; lia. }
  destruct (nf_ps F) as [P|(P1 & P2 & P3 & P4)].
  - (* no marker: the path does not start with "//" (the text after ':' would start with "//") *)
    assert (starts_with s_ss (piece u ps pe) = false) as E.
    { destruct (starts_with s_ss (piece u ps pe)) eqn:E; [|reflexivity]. exfalso.
      apply starts_with_ss_2 in E. destruct E as [E0 E1]. unfold piece in E0, E1.
      assert (2 <= pe - ps).
      { assert (nlen (nfirstn (pe - ps) (nskipn ps (ser u))) <= pe - ps) by apply nlen_nfirstn_le.
        destruct (nfirstn (pe - ps) (nskipn ps (ser u))) as [|a [|b r]]; try discriminate. rewrite !nlen_cons in H. lia. }
      rewrite nnth_nfirstn in E0, E1 by lia. rewrite nnth_nskipn in E0, E1.
      unfold has_authority_b in HA. rewrite (nskipn_cons_of_nnth _ _ _ (byte_eqb_nnth _ _ _ S2)) in HA.
      rewrite Hps, P in E0, E1. rewrite N.add_0_r in E0.
      rewrite (nskipn_cons_of_nnth _ _ _ E0) in HA. replace (scheme_end u + 1 + 1) with (scheme_end u + 1 + 1) in HA by lia.
      rewrite (nskipn_cons_of_nnth _ _ _ E1) in HA. cbn in HA. discriminate. }
    rewrite E. rewrite P, N.eqb_refl. reflexivity.
  - (* marker "/." in front of a path that starts with "//" *)
    apply starts_with_ss_2 in P4. destruct P4 as [E0 E1]. rewrite nnth_nskipn in E0, E1. rewrite N.add_0_r in E0.
    assert (ps + 2 <= pe) as Hge.
    { rewrite Hpe, Hps. destruct (query_start u) as [q|].
      - destruct Q1 as (A & B & C). apply byte_eqb_nnth in B.
        assert (q <> path_start u) by (intros ->; congruence). assert (q <> path_start u + 1) by (intros ->; congruence). lia.
      - destruct (fragment_start u) as [f|].
        + destruct Q2 as (A & B & C). apply byte_eqb_nnth in B.
          assert (f <> path_start u) by (intros ->; congruence). assert (f <> path_start u + 1) by (intros ->; congruence). lia.
        + destruct (nnth (ser u) (path_start u + 1)) eqn:E; [|discriminate]. unfold nnth in E.
          assert (N.to_nat (path_start u + 1) < length (ser u))%nat by (apply nth_error_Some; congruence). unfold nlen. lia. }
    assert (starts_with s_ss (piece u ps pe) = true) as E.
    { apply starts_with_ss_of; unfold piece; rewrite nnth_nfirstn by lia; rewrite nnth_nskipn; rewrite Hps; [rewrite N.add_0_r|]; assumption. }
    rewrite E. unfold byte_at. rewrite (byte_eqb_nnth _ _ _ P2), (byte_eqb_nnth _ _ _ P3). cbn [bp chk].
    rewrite !N.eqb_refl. cbn [chk]. rewrite P1, N.eqb_refl. reflexivity.
Qed.

Theorem ci_struct_eval k : ci_struct hd u k = if has_authority_b u && negb (ip_text_ok hd u) then CErr else k.
Proof.
  unfold ci_struct. rewrite ci_scheme_eval. destruct rest_eval as [E1 E2]. rewrite E1. cbn [bp]. rewrite E2.
  destruct (has_authority_b u) eqn:HA.
  - rewrite (ci_userinfo_eval HA), (ci_host_eval HA). cbn [andb]. destruct (ip_text_ok hd u); [|reflexivity].
    rewrite (ci_port_eval HA), (ci_path_start_eval HA), ci_query_fragment_eval. reflexivity.
  - cbn [andb]. rewrite (ci_no_authority_eval _ HA), ci_query_fragment_eval. reflexivity.
Qed.

Lemma ci_reparse_fix : ci_reparse u (POk u) = COk.
Proof.
  unfold ci_reparse. rewrite (proj2 (list_eqb_spec _ _) eq_refl), !N.eqb_refl, hi_eqb_refl, !opt_eqb_refl. reflexivity.
Qed.
End Eval.

(* ================================================================ the theorems *)
Lemma chk_np c k : k <> CPanic -> chk c k <> CPanic.
Proof. intros H. unfold chk. destruct c; [exact H | discriminate]. Qed.

Lemma ci_reparse_np u o : wf_b u = true -> wf_b o = true -> ci_reparse u (POk o) <> CPanic.
Proof.
  intros Wu Wo. unfold ci_reparse. repeat apply chk_np.
  assert (T : chk (opt_eqb (port u) (port o)) (chk (path_start u =? path_start o)
           (chk (opt_eqb (query_start u) (query_start o)) (chk (opt_eqb (fragment_start u) (fragment_start o)) COk))) <> CPanic)
    by (repeat apply chk_np; discriminate).
  destruct (hi_eqb (hosti u) (hosti o)); [exact T|].
  rewrite (host_str_eval u Wu), (host_str_eval o Wo). cbn [bp]. apply chk_np. exact T.
Qed.

Section Main.
Variable hd : host -> list N.

(* check_invariants on a well-formed record: it panics exactly when the structural part passes and the re-parse fails
   (Url::parse(..).expect("Failed to parse myself?")); `other` is any outcome whose Ok values are well-formed *)
Theorem check_invariants_panic_iff u other : wf_b u = true -> host_text_ok u ->
  (forall o, other = POk o -> wf_b o = true) ->
  (check_invariants hd u other = CPanic
   <-> (has_authority_b u && negb (ip_text_ok hd u) = false /\ forall o, other <> POk o)).
Proof.
  intros W HT Ho. unfold check_invariants. rewrite (ci_struct_eval hd u W HT).
  destruct (has_authority_b u && negb (ip_text_ok hd u)).
  - split; [discriminate | intros [H _]; discriminate].
  - split.
    + intros H. split; [reflexivity|]. intros o E. subst other. exact (ci_reparse_np u o W (Ho o eq_refl) H).
    + intros [_ H]. destruct other as [o| |]; [exfalso; exact (H o eq_refl) | reflexivity | reflexivity].
Qed.

Theorem check_invariants_no_panic u o : wf_b u = true -> host_text_ok u -> wf_b o = true ->
  check_invariants hd u (POk o) <> CPanic.
Proof.
  intros W HT Wo H. apply (check_invariants_panic_iff u (POk o) W HT) in H.
  - destruct H as [_ H]. exact (H o eq_refl).
  - intros o' E. inversion E; subst. exact Wo.
Qed.

(* a fixpoint of re-parsing whose IP host text is the Display text passes: Ok(()) *)
Theorem check_invariants_ok u : wf_b u = true -> host_text_ok u -> ip_text_ok hd u = true ->
  check_invariants hd u (POk u) = COk.
Proof.
  intros W HT HI. unfold check_invariants. rewrite (ci_struct_eval hd u W HT), HI, andb_false_r. apply ci_reparse_fix.
Qed.

(* without well-formedness the structural part itself panics: the empty serialization (byte_at(0)) *)
Lemma check_invariants_panics_outside_wf :
  check_invariants hd (mkUrl [] 1 1 1 1 HI_None None 1 None None) (PErr EmptyHost) = CPanic.
Proof. reflexivity. Qed.
End Main.
