(* Proofs/Idna_C10c_Example.v - the premises of C10_idem3 are satisfiable: the adapter `lowsan` (ASCII lower-casing,
   everything that is not a scalar value becomes U+FFFD) meets all six, and a concrete non-ASCII name is mapped to its
   xn-- form, which the second call returns borrowed. *)
From RU Require Import Base.Prelude Base.Utf8 Base.U32_c13 Gen.Tables Model.Punycode Model.Uts46
  Proofs.Idna_Sim Proofs.Idna_Api Proofs.Idna_Known Proofs.Idna_Hyp Proofs.Idna_C10_Inner Proofs.Idna_C10b_Long
  Proofs.Idna_C10b_Stmt Proofs.Idna_WalkEnc Proofs.Idna_C10c_Puny Proofs.Idna_C10c_Drun.

Definition san_low (c : N) : N := if is_usvb c then to_lower c else FFFD.
Definition san_id (c : N) : N := if is_usvb c then c else FFFD.
Definition lowsan : adapter :=
  {| map_normalize := map san_low; normalize_validate := map san_id;
     joining_type := fun _ => 0; bidi_class := toy_bc;
     is_mark := fun _ => false; is_virama := fun _ => false |}.

Lemma usvb_spec c : is_usvb c = true <-> is_usv c.
Proof. unfold is_usvb, is_usv. split; intros H; lia. Qed.
Lemma san_low_usv c : is_usv (san_low c).
Proof.
  unfold san_low. destruct (is_usvb c) eqn:E; [|unfold is_usv, FFFD, REPLACEMENT; lia].
  apply usvb_spec in E. unfold is_usv, to_lower, is_upper in *. destruct ((65 <=? c) && (c <=? 90)) eqn:E2; lia.
Qed.
Lemma san_id_usv c : is_usv (san_id c).
Proof. unfold san_id. destruct (is_usvb c) eqn:E; [apply usvb_spec; exact E|unfold is_usv, FFFD, REPLACEMENT; lia]. Qed.
Lemma san_id_fix c : is_usv c -> san_id c = c.
Proof. intros H. unfold san_id. apply usvb_spec in H. rewrite H. reflexivity. Qed.
Lemma map_san_id_fix l : usv_list l -> map san_id l = l.
Proof. induction 1 as [|c r Hc _ IH]; [reflexivity|]. cbn [map]. rewrite IH, (san_id_fix c Hc). reflexivity. Qed.
Lemma san_low_lower c : san_low (to_lower c) = san_low c.
Proof.
  unfold san_low. rewrite to_lower_idem.
  replace (is_usvb (to_lower c)) with (is_usvb c); [reflexivity|].
  unfold is_usvb, to_lower, is_upper. destruct ((65 <=? c) && (c <=? 90)) eqn:E; [|reflexivity]. lia.
Qed.
Lemma san_low_ascii c : c < 128 -> san_low c = to_lower c.
Proof. intros H. unfold san_low. replace (is_usvb c) with true; [reflexivity|]. unfold is_usvb. lia. Qed.

Lemma lowsan_usv : AdapterUSV lowsan.
Proof.
  constructor; intros l; cbn [lowsan map_normalize normalize_validate]; unfold usv_list; apply Forall_forall; intros x Hx;
    apply in_map_iff in Hx; destruct Hx as (c & <- & _); [apply san_low_usv|apply san_id_usv].
Qed.

Lemma lowsan_ok : AdapterOK lowsan.
Proof.
  constructor; cbn [lowsan map_normalize normalize_validate].
  - reflexivity.
  - intros l H. unfold is_ascii_l in H. rewrite forallb_forall in H. apply map_ext_in. intros c Hc.
    specialize (H c Hc). unfold is_ascii_cp in H. apply san_low_ascii. lia.
  - intros l l' H. unfold ascii_case_variant in H.
    assert (G : forall x, map san_low x = map san_low (map to_lower x)).
    { intros x. rewrite map_map. apply map_ext. intros c. symmetry. apply san_low_lower. }
    rewrite (G l), (G l'), H. reflexivity.
  - intros l _ piece Hp. apply map_san_id_fix.
    pose proof (usv_map lowsan lowsan_usv l) as Hu. cbn [lowsan map_normalize] in Hu.
    pose proof (Idna_C10_Deny.split_on_Forall is_usv DOT _ Hu) as Hs. rewrite Forall_forall in Hs. exact (Hs piece Hp).
  - intros l H1 H2 E. rewrite E in H2. rewrite H1 in H2. discriminate.
Qed.

Lemma lowsan_premises : AdapterOK lowsan /\ AdapterUSV lowsan /\ NvNoTrunc lowsan /\ NvIdem lowsan /\ AsciiNoMark lowsan /\ MapPrefix lowsan.
Proof.
  split; [exact lowsan_ok|]. split; [exact lowsan_usv|]. split; [|split; [|split]].
  - intros l t H. cbn [lowsan normalize_validate] in H. apply (f_equal (@List.length N)) in H.
    rewrite app_length, map_length in H. destruct t; [reflexivity|]. cbn [List.length] in H. lia.
  - intros l _. cbn [lowsan normalize_validate]. apply map_san_id_fix. exact (usv_norm lowsan lowsan_usv l).
  - intros c _. reflexivity.
  - intros a c r Ha Hc. cbn [lowsan map_normalize]. rewrite map_app. f_equal.
    unfold is_ascii_l in Ha. rewrite forallb_forall in Ha. apply map_ext_in. intros x Hx. specialize (Ha x Hx).
    unfold is_ascii_cp in Ha. apply san_low_ascii. lia.
Qed.

(* "A.Bücher" (UTF-8) -> "a.xn--bcher-kva"; the second call borrows *)
Definition W_idem3 : list N := [65; 46; 66; 195; 188; 99; 104; 101; 114].
Definition W_idem3_A : list N := [97; 46; 120; 110; 45; 45; 98; 99; 104; 101; 114; 45; 107; 118; 97].
Lemma w_idem3 :
  to_ascii lowsan true W_idem3 DENY_URL HCheck DVerify = Ok (false, W_idem3_A) /\
  Known_C10_long W_idem3_A = false /\
  to_ascii lowsan true W_idem3_A DENY_URL HCheck DVerify = Ok (true, W_idem3_A).
Proof. vm_compute. repeat split; reflexivity. Qed.
