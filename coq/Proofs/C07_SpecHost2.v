(* Proofs/C07_SpecHost2.v - the Standard's host attribute setter on values without a port part: when the scan of
   the host state does not stop at a ':' outside brackets, the run with the state override "host state" is the run
   with the state override "hostname state" (Proofs/C07_SpecHost.v), so the two setters give the same record. *)
From RU Require Import Base.Prelude Base.Utf8 Spec.Whatwg Spec.WhatwgFuel Proofs.C01_EqRun Proofs.C01_EqAuthSpec
  Proofs.C07_SpecRun Proofs.C07_SpecProto Proofs.C07_SpecHost.

Section HostOutcome.
Variable hp : bool -> list N -> option spec_host.
Variable input : list N.
Notation runO := (run hp input None (Some StHost)).

Theorem run_host_ov_nocolon : forall t pre fuel buf a br pw u,
  input = pre ++ t -> (length t < fuel)%nat -> list_eqb (su_scheme u) str_file = false ->
  snd (hscan (is_special u) br buf t) = false ->
  after_override (runO fuel (at_pos StHost pre buf a br pw u))
  = SetTo (hostname_decide hp u (hscan (is_special u) br buf t)).
Proof.
  induction t as [|c r IH]; intros pre fuel buf a br pw u Hin Hfuel Hnf Hnc;
    (destruct fuel as [|fuel]; [cbn [length] in Hfuel; lia|]); cbn [run].
  - rewrite (step_at hp input StHost _ _ _ _ _ _ _ _ Hin). cbn zeta. cbn [hd_error hscan].
    unfold st_host. cbn [has_ov opt_is_some andb m_url m_buf m_br at_pos cis]. rewrite Hnf. cbn [andb].
    unfold is_authority_end. cbn [is_eof orb]. unfold hostname_decide. rewrite !list_eqb_nil_is_nil.
    destruct (is_special u && is_nil buf); [reflexivity|]. cbn [andb].
    destruct (is_nil buf && (includes_credentials u || opt_is_some (su_port u))); [reflexivity|].
    destruct (host_parsing hp (negb (is_special u)) buf); reflexivity.
  - rewrite (step_at hp input StHost _ _ _ _ _ _ _ _ Hin). cbn zeta. cbn [hd_error]. cbn [hscan] in Hnc |- *.
    unfold st_host. cbn [has_ov opt_is_some andb m_url m_buf m_br at_pos cis]. rewrite Hnf. cbn [andb].
    destruct ((c =? 58) && negb br) eqn:Ecol; [discriminate Hnc|].
    unfold is_authority_end. cbn [is_eof cis orb].
    replace ((c =? 47) || (c =? 63) || (c =? 35) || (is_special u && (c =? 92))) with (h_end (is_special u) c) by reflexivity.
    destruct (h_end (is_special u) c) eqn:Eend.
    + unfold hostname_decide. rewrite !list_eqb_nil_is_nil.
      destruct (is_special u && is_nil buf); [reflexivity|]. cbn [andb].
      destruct (is_nil buf && (includes_credentials u || opt_is_some (su_port u))); [reflexivity|].
      destruct (host_parsing hp (negb (is_special u)) buf); reflexivity.
    + assert ((let m := at_pos StHost pre buf a br pw u in
               let m1 := if c =? 91 then set_br m true else m in
               let m2 := if c =? 93 then set_br m1 false else m1 in push_buf m2 c)
              = mkM StHost (Z.of_nat (length pre)) (buf ++ [c]) a (br_next br c) pw u) as Em.
      { unfold br_next. destruct (c =? 91) eqn:E91; destruct (c =? 93) eqn:E93; try reflexivity.
        apply N.eqb_eq in E91. subst c. discriminate E93. }
      cbn zeta in Em. rewrite Em. cbn [m_ptr].
      rewrite (len_split hp input pre (c :: r) Hin). cbn [length].
      replace (Z.of_nat (length pre) + Z.of_nat (S (length r)) <=? Z.of_nat (length pre))%Z with false by lia.
      rewrite (inc_at hp StHost pre c).
      apply (IH (pre ++ [c]) fuel (buf ++ [c]) a (br_next br c) pw u (snoc_split input pre c r Hin)); [|exact Hnf|exact Hnc].
      cbn [length] in Hfuel. lia.
Qed.
End HostOutcome.

(* the host setter = the hostname setter on a value without a port part, for a URL whose scheme is not "file" *)
Theorem spec_host_nocolon shp su v : list_eqb (su_scheme su) str_file = false ->
  snd (hscan (is_special su) false [] (notnl v)) = false ->
  spec_set shp SetHost su v = spec_set shp SetHostname su v.
Proof.
  intros Hnf Hnc. rewrite (spec_hostname_closed shp su v Hnf). cbn [spec_set].
  destruct (has_opaque_path su); [reflexivity|].
  unfold spec_basic_url_parse_override. fold (notnl v).
  change (mkM StHost 0%Z [] false false false su) with (at_pos StHost [] [] false false false su).
  apply (run_host_ov_nocolon shp (notnl v) (notnl v) [] _ [] false false false su eq_refl (fuel_enough _) Hnf Hnc).
Qed.
