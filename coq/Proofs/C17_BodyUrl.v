(* Proofs/C17_BodyUrl.v - for opaque-path data: URLs whose header has no '?', the body bytes of
   DataUrl::decode (before base64) are the Fetch processor's percent-decoding of what follows the first
   comma of the URL serialization - unless an ASCII tab / newline sits inside a percent escape of the
   body (F-C17-4). *)
From RU Require Import Base.Prelude Base.Utf8 Base.Utf8Facts Model.AsciiSet Gen.Tables Model.PercentEncoding
  Model.HostT Model.UrlRecord Model.Parser Model.Mime Model.Base64 Model.DataUrl Model.DataUrlTie Model.KnownC17
  Spec.Fetch
  Proofs.ListN Proofs.C14_Set Proofs.C14_Enc Proofs.C14_Views Proofs.C02_Enc Proofs.C02_Parts Proofs.C02_Opaque
  Proofs.C18_BodyRef Proofs.C17_Tables Proofs.C17_Total Proofs.C17_Decode Proofs.C17_Bridge Proofs.C17_Fragment
  Proofs.C17_Body.

(* ---- first occurrences ---- *)
Lemma split_first (c : N) (l : list N) : In c l -> exists a b, l = a ++ c :: b /\ ~ In c a.
Proof.
  induction l as [|x l IH]; [intros []|]. intros H.
  destruct (N.eq_dec x c) as [->|Hne].
  - exists [], l. split; [reflexivity|intros []].
  - destruct H as [H|H]; [congruence|]. destruct (IH H) as (a & b & E & Hn). exists (x :: a), b. split.
    + rewrite E. reflexivity.
    + intros [H1|H1]; [congruence|exact (Hn H1)].
Qed.

Lemma first_unique (c : N) : forall (x1 y1 x2 y2 : list N), x1 ++ c :: y1 = x2 ++ c :: y2 -> ~ In c x1 -> ~ In c x2 -> x1 = x2 /\ y1 = y2.
Proof.
  induction x1 as [|a x1 IH]; intros y1 x2 y2 E H1 H2.
  - destruct x2 as [|b x2]; [inversion E; split; reflexivity|]. inversion E; subst. exfalso. apply H2. left. reflexivity.
  - destruct x2 as [|b x2]; [inversion E; subst; exfalso; apply H1; left; reflexivity|].
    inversion E; subst. destruct (IH y1 x2 y2 H3) as [-> ->].
    + intros Hin. apply H1. right. exact Hin.
    + intros Hin. apply H2. right. exact Hin.
    + split; reflexivity.
Qed.

Lemma in_utf8_ascii c s : c < 128 -> In c s -> In c (utf8_encode s).
Proof.
  intros Hc Hin. unfold utf8_encode. apply in_flat_map. exists c. split; [exact Hin|].
  rewrite encode1_ascii by exact Hc. left. reflexivity.
Qed.

(* the comma split of the bytes is the comma split of the code points *)
Lemma comma_split_chars rem h B : usv_list rem -> utf8_encode rem = h ++ 44 :: B -> ~ In 44 h ->
  exists Hc Rc, rem = Hc ++ 44 :: Rc /\ h = utf8_encode Hc /\ B = utf8_encode Rc /\ ~ In 44 Hc.
Proof.
  intros Hu E Hn.
  assert (Hin : In 44 rem).
  { apply (utf8_encode_low rem 44); [rewrite E; apply in_or_app; right; left; reflexivity|lia]. }
  destruct (split_first 44 rem Hin) as (Hc & Rc & Er & Hnc). exists Hc, Rc.
  rewrite Er, utf8_encode_app, utf8_cons, encode1_ascii in E by lia. cbn [app] in E.
  destruct (first_unique 44 _ _ _ _ E) as [E1 E2].
  - intros Hx. apply Hnc. apply (utf8_encode_low Hc 44 Hx). lia.
  - exact Hn.
  - split; [exact Er|]. split; [symmetry; exact E1|]. split; [symmetry; exact E2|exact Hnc].
Qed.

(* ---- the opaque path of a text whose header has no '?' / '#' ---- *)
Lemma cbb_header Hc Rc : ~ In 63 Hc -> ~ In 35 Hc ->
  cbb_chars (Hc ++ 44 :: Rc) = strip_tnl Hc ++ 44 :: cbb_chars Rc /\ cbb_rest (Hc ++ 44 :: Rc) = cbb_rest Rc.
Proof.
  induction Hc as [|c r IH]; intros H1 H2.
  - cbn [app cbb_chars cbb_rest strip_tnl filter]. change (is_tnl 44) with false. change (is_qh 44) with false. split; reflexivity.
  - assert (Hq : is_qh c = false).
    { unfold is_qh. destruct (c =? 63) eqn:E1; [apply N.eqb_eq in E1; exfalso; apply H1; left; exact E1|].
      destruct (c =? 35) eqn:E2; [apply N.eqb_eq in E2; exfalso; apply H2; left; exact E2|]. reflexivity. }
    destruct IH as [I1 I2]; [intros Hin; apply H1; right; exact Hin|intros Hin; apply H2; right; exact Hin|].
    cbn [app cbb_chars cbb_rest]. unfold strip_tnl. cbn [filter]. unfold C02_Enc.not_tnl at 1.
    destruct (is_tnl c); cbn [negb]; [split; assumption|]. rewrite Hq. fold (strip_tnl r). rewrite I1. split; [reflexivity|exact I2].
Qed.

(* ---- the cleaned body at code point level ---- *)
Lemma nt_same c : C17_Body.not_tnl c = C02_Enc.not_tnl c.
Proof. reflexivity. Qed.

Lemma before_hash_utf8 s : usv_list s -> before_hash (utf8_encode s) = utf8_encode (before_hash s).
Proof.
  induction s as [|c r IH]; intros Hu; [reflexivity|]. inversion Hu as [|? ? Hc Hr]; subst.
  rewrite utf8_cons. cbn [before_hash]. destruct (c =? 35) eqn:E.
  - apply N.eqb_eq in E. subst c. reflexivity.
  - rewrite utf8_cons, <- (IH Hr).
    assert (Hno : ~ In 35 (utf8_encode1 c)).
    { intros Hin. assert (Hx : 35 = c) by (apply (utf8_encode1_low c 35 Hin); lia). subst c. discriminate. }
    clear -Hno. induction (utf8_encode1 c) as [|b l IHl]; [reflexivity|]. cbn [app before_hash].
    destruct (b =? 35) eqn:Eb; [apply N.eqb_eq in Eb; exfalso; apply Hno; left; exact Eb|].
    f_equal. apply IHl. intros Hin. apply Hno. right. exact Hin.
Qed.

Lemma usv_before_hash s : usv_list s -> usv_list (before_hash s).
Proof.
  induction s as [|c r IH]; intros Hu; [constructor|]. inversion Hu; subst. cbn [before_hash].
  destruct (c =? 35); [constructor|constructor; [assumption|apply IH; assumption]].
Qed.

Lemma clean_body_utf8 s : usv_list s -> clean_body (utf8_encode s) = utf8_encode (clean_body s).
Proof.
  intros Hu. unfold clean_body. rewrite before_hash_utf8 by exact Hu.
  change (filter C17_Body.not_tnl) with (filter C02_Enc.not_tnl).
  rewrite filter_not_tnl_utf8 by (apply usv_before_hash; exact Hu). reflexivity.
Qed.

Lemma query_chars_clean l : query_chars true l = clean_body l.
Proof.
  induction l as [|c r IH]; [reflexivity|]. cbn [query_chars]. rewrite clean_body_cons.
  change (k17_tnl c) with (is_tnl c). destruct (is_tnl c) eqn:Et.
  - replace (c =? 35) with false by (unfold is_tnl in Et; lia). exact IH.
  - rewrite andb_true_r. destruct (c =? 35); [reflexivity|]. rewrite IH. reflexivity.
Qed.

Lemma cbb_clean R :
  match cbb_rest R with
  | [] => clean_body R = cbb_chars R
  | c :: r' => (c = 35 /\ clean_body R = cbb_chars R) \/ (c = 63 /\ clean_body R = cbb_chars R ++ 63 :: query_chars true r')
  end.
Proof.
  induction R as [|c r IH]; [reflexivity|]. cbn [cbb_rest cbb_chars]. rewrite clean_body_cons.
  change (k17_tnl c) with (is_tnl c). destruct (is_tnl c) eqn:Et.
  { replace (c =? 35) with false by (unfold is_tnl in Et; lia). exact IH. }
  unfold is_qh. destruct (c =? 35) eqn:E35.
  { rewrite orb_true_r. left. apply N.eqb_eq in E35. split; [exact E35|reflexivity]. }
  destruct (c =? 63) eqn:E63; cbn [orb].
  { right. apply N.eqb_eq in E63. split; [exact E63|]. subst c. rewrite query_chars_clean. reflexivity. }
  destruct (cbb_rest r) as [|x r'].
  - rewrite IH. reflexivity.
  - destruct IH as [[I1 I2]|[I1 I2]]; [left|right]; (split; [exact I1|rewrite I2; reflexivity]).
Qed.

(* ---- the sets the URL parser encodes with never touch '%' or a hex digit ---- *)
Definition marks (S : aset) (bs : list N) : list (N * bool) := map (fun b => (b, should_encode S b)) bs.

Lemma encode_marks S bs : encode S bs = enc_marked (marks S bs).
Proof.
  induction bs as [|b r IH]; [reflexivity|]. rewrite encode_cons. unfold marks. cbn [map enc_marked flat_map fst snd].
  fold (marks S r). fold (enc_marked (marks S r)). rewrite <- IH. reflexivity.
Qed.

Lemma map_fst_marks S bs : map fst (marks S bs) = bs.
Proof. unfold marks. rewrite map_map. cbn [fst]. apply map_id. Qed.

Definition blind_at (S : aset) (b : N) : bool :=
  negb (should_encode S b) || (negb (b =? 37) && match ascii_hex_digit_value b with None => true | Some _ => false end).
Definition set_blind (S : aset) : Prop :=
  forall b, b < 256 -> should_encode S b = true -> b <> 37 /\ ascii_hex_digit_value b = None.

Lemma blind_of_sweep S : all_below 256 (blind_at S) = true -> set_blind S.
Proof.
  intros HS b Hb E. pose proof (all_below_spec 256 _ HS b Hb) as H. unfold blind_at in H.
  rewrite E in H. cbn [negb orb] in H. apply andb_true_iff in H. destruct H as [H1 H2]. split; [lia|].
  destruct (ascii_hex_digit_value b); [discriminate|reflexivity].
Qed.

Lemma blind_CONTROLS : set_blind T_CONTROLS. Proof. apply blind_of_sweep. vm_compute. reflexivity. Qed.
Lemma blind_QUERY : set_blind T_QUERY. Proof. apply blind_of_sweep. vm_compute. reflexivity. Qed.

Lemma marks_ok S bs : set_blind S -> bytes bs -> Forall mark_ok (marks S bs).
Proof.
  intros HS Hb. unfold marks. apply Forall_forall. intros p Hp. apply in_map_iff in Hp. destruct Hp as (b & <- & Hin).
  unfold bytes in Hb. rewrite Forall_forall in Hb. specialize (Hb b Hin). unfold is_byte in Hb.
  unfold mark_ok. cbn [fst snd]. intros E. split; [exact Hb|]. exact (HS b Hb E).
Qed.

Lemma enc_marked_app a b : enc_marked (a ++ b) = enc_marked a ++ enc_marked b.
Proof. unfold enc_marked. apply flat_map_app. Qed.

(* ---- collect_until_comma ---- *)
Lemma collect_until_comma_app E X : ~ In 44 E -> collect_until_comma (E ++ 44 :: X) = (E, Some X).
Proof.
  induction E as [|c r IH]; intros Hn.
  - reflexivity.
  - cbn [app collect_until_comma]. destruct (c =? 44) eqn:Ec; [apply N.eqb_eq in Ec; exfalso; apply Hn; left; exact Ec|].
    rewrite IH; [reflexivity|]. intros Hin. apply Hn. right. exact Hin.
Qed.

Lemma encode_no_comma S s : usv_list s -> ~ In 44 s -> ~ In 44 (encode S (utf8_encode s)).
Proof.
  intros Hu Hn Hin.
  assert (H : forallb (fun b => negb (b =? 44)) (encode S (utf8_encode s)) = true).
  { apply encode_utf8_forallb; [reflexivity| |exact Hu|].
    - intros d Hd. unfold hex_upper. destruct (d <? 10); lia.
    - apply Forall_forall. intros c Hc _. destruct (c =? 44) eqn:E; [apply N.eqb_eq in E; subst c; contradiction|reflexivity]. }
  rewrite forallb_forall in H. specialize (H 44 Hin). discriminate.
Qed.

Lemma usv_strip_k l : usv_list l -> usv_list (strip_tnl l).
Proof. apply usv_strip. Qed.

(* ---- the theorem ---- *)
Theorem body_is_fetch_body dbg hp ho hd s rem u h B : usv_list s ->
  parse_scheme CUrlParser (input_new_trim_c0 s) = Some (s_data, rem) -> inp_split_prefix_char 47 rem = None ->
  parse_url dbg hp ho hd None None s = POk u ->
  find_comma_before_fragment (utf8_encode rem) = Ok (Some (h, B)) ->
  ~ In 63 h -> k17_split_escape B = false ->
  exists mimeType encodedBody,
    collect_until_comma (skipn 5 (url_without_fragment u)) = (mimeType, Some encodedBody)
    /\ string_percent_decode encodedBody = fst (body_ref B).
Proof.
  intros Hs Hp H47 Hu HB Hq Hk.
  destruct (parse_opaque_explicit dbg hp ho hd s s_data rem u Hs Hp scheme_type_of_data H47 Hu) as [Hur ->].
  rewrite opaque_url_without_fragment.
  destruct (find_comma_spec _ _ _ HB) as (Hsplit & Hn44 & Hn35).
  destruct (comma_split_chars rem h B Hur Hsplit Hn44) as (Hc & Rc & Er & Eh & EB & Hnc).
  assert (Huc : usv_list Hc /\ usv_list Rc).
  { rewrite Er in Hur. apply usv_app in Hur. destruct Hur as [U1 U2]. apply usv_cons in U2. tauto. }
  destruct Huc as [Uh Ur].
  assert (Hc63 : ~ In 63 Hc) by (intros Hin; apply Hq; rewrite Eh; apply in_utf8_ascii; [lia|exact Hin]).
  assert (Hc35 : ~ In 35 Hc) by (intros Hin; apply Hn35; rewrite Eh; apply in_utf8_ascii; [lia|exact Hin]).
  destruct (cbb_header Hc Rc Hc63 Hc35) as [C1 C2].
  (* the serialization after "data:" *)
  unfold opaque_pre. rewrite <- !app_assoc. change (s_data ++ [58] ++ ?x) with ([100;97;116;97;58] ++ x).
  cbn [app skipn]. unfold opaque_of. rewrite Er, C1, C2.
  rewrite enc_utf8_app, utf8_cons, encode1_ascii, <- app_assoc by lia. cbn [app]. rewrite encode_cons.
  change (enc1 T_CONTROLS 44) with [44]. cbn [app].
  eexists. eexists. split.
  { apply collect_until_comma_app. apply encode_no_comma; [apply usv_strip_k; exact Uh|].
    intros Hin. apply Hnc. unfold strip_tnl in Hin. apply filter_In in Hin. tauto. }
  (* the body *)
  rewrite (body_ref_is_percent_decode (length B) B (Nat.le_refl _) Hk).
  rewrite EB, clean_body_utf8 by exact Ur.
  pose proof (cbb_clean Rc) as Hcl. pose proof (cbb_rest_head Rc) as Hhd.
  assert (Ubc : usv_list (cbb_chars Rc)) by (apply usv_cbb_chars; exact Ur).
  unfold string_percent_decode.
  assert (Hasc : forall S t q, usv_list t -> opt_clean T_QUERY q ->
            utf8_encode (encode S (utf8_encode t) ++ qf_qtext q) = encode S (utf8_encode t) ++ qf_qtext q).
  { intros S t q Ut Hcq. apply utf8_encode_ascii. apply ascii_app. split.
    - apply encode_ascii. apply utf8_encode_bytes. exact Ut.
    - destruct q as [x|]; [|constructor]. cbn [qf_qtext]. constructor; [unfold is_ascii; lia|].
      apply (clean_ascii T_QUERY). exact Hcq. }
  destruct (cbb_rest Rc) as [|c r'] eqn:Ecr.
  - (* no '?' and no '#' *)
    unfold pqf_q. rewrite inp_next_nil. rewrite Hasc by (try exact Ubc; exact I). cbn [qf_qtext]. rewrite app_nil_r.
    rewrite Hcl, encode_marks. rewrite decode_marked with (n := length (marks T_CONTROLS (utf8_encode (cbb_chars Rc))));
      [rewrite map_fst_marks; reflexivity|lia|apply marks_ok; [exact blind_CONTROLS|apply utf8_encode_bytes; exact Ubc]].
  - destruct Hhd as [_ Htn]. unfold pqf_q. rewrite inp_next_cons by exact Htn.
    destruct Hcl as [[-> Hcl]|[-> Hcl]].
    + (* '#' first *)
      change (35 =? 63) with false. rewrite Hasc by (try exact Ubc; exact I). cbn [qf_qtext]. rewrite app_nil_r.
      rewrite Hcl, encode_marks. rewrite decode_marked with (n := length (marks T_CONTROLS (utf8_encode (cbb_chars Rc))));
        [rewrite map_fst_marks; reflexivity|lia|apply marks_ok; [exact blind_CONTROLS|apply utf8_encode_bytes; exact Ubc]].
    + (* '?' first: the rest of the body is in the URL's query *)
      change (63 =? 63) with true.
      assert (Ur' : usv_list r').
      { pose proof (usv_cbb_rest Rc Ur) as Hx. rewrite Ecr in Hx. apply usv_cons in Hx. tauto. }
      assert (Uq : usv_list (query_chars true r')) by (apply usv_query_chars; exact Ur').
      rewrite Hasc by (try exact Ubc; cbn [opt_clean]; apply (query_of_clean STNotSpecial); exact Ur').
      cbn [qf_qtext]. unfold query_of. change (query_set STNotSpecial) with T_QUERY.
      rewrite Hcl, utf8_encode_app, utf8_cons, encode1_ascii by lia. cbn [app].
      rewrite !encode_marks.
      change (enc_marked (marks T_CONTROLS (utf8_encode (cbb_chars Rc))) ++ 63 :: enc_marked (marks T_QUERY (utf8_encode (query_chars true r'))))
        with (enc_marked (marks T_CONTROLS (utf8_encode (cbb_chars Rc))) ++ enc_marked [(63, false)] ++ enc_marked (marks T_QUERY (utf8_encode (query_chars true r')))).
      rewrite <- !enc_marked_app.
      rewrite decode_marked with (n := length (marks T_CONTROLS (utf8_encode (cbb_chars Rc)) ++ [(63, false)] ++ marks T_QUERY (utf8_encode (query_chars true r')))); [|lia|].
      * rewrite !map_app, !map_fst_marks. reflexivity.
      * apply Forall_app. split; [apply marks_ok; [exact blind_CONTROLS|apply utf8_encode_bytes; exact Ubc]|].
        apply Forall_app. split; [constructor; [intros E; discriminate E|constructor]|].
        apply marks_ok; [exact blind_QUERY|apply utf8_encode_bytes; exact Uq].
Qed.

(* ---- no comma before the fragment: the crate says NoComma, the Fetch processor returns failure ---- *)
Lemma fcbf_loop_none s : forall rest i, fcbf_loop s i rest = Ok None -> ~ In 44 (before_hash rest).
Proof.
  induction rest as [|byte rest IH]; intros i; cbn [fcbf_loop before_hash]; [intros _ []|].
  change T_DU_COMMA with 44. change T_DU_HASH with 35.
  destruct (byte =? 44) eqn:E1.
  - unfold slice_to, slice_from. destruct (is_char_boundary s i); cbn [bind]; [|discriminate].
    destruct (is_char_boundary s (i + 1)); cbn [bind]; discriminate.
  - destruct (byte =? 35); [intros _ []|]. intros H [Hin|Hin]; [lia|exact (IH _ H Hin)].
Qed.

Lemma collect_until_comma_none X : ~ In 44 X -> collect_until_comma X = (X, None).
Proof.
  induction X as [|c r IH]; intros Hn; [reflexivity|]. cbn [collect_until_comma].
  destruct (c =? 44) eqn:Ec; [apply N.eqb_eq in Ec; exfalso; apply Hn; left; exact Ec|].
  rewrite IH; [reflexivity|]. intros Hin. apply Hn. right. exact Hin.
Qed.

Lemma in_clean_body x l : In x (clean_body l) -> In x (before_hash l).
Proof. unfold clean_body. intros H. apply filter_In in H. tauto. Qed.

Theorem no_comma_is_fetch_failure dbg hp ho hd s rem u : usv_list s ->
  parse_scheme CUrlParser (input_new_trim_c0 s) = Some (s_data, rem) -> inp_split_prefix_char 47 rem = None ->
  parse_url dbg hp ho hd None None s = POk u ->
  find_comma_before_fragment (utf8_encode rem) = Ok None ->
  Fetch.process (url_without_fragment u) = None.
Proof.
  intros Hs Hp H47 Hu HB.
  destruct (parse_opaque_explicit dbg hp ho hd s s_data rem u Hs Hp scheme_type_of_data H47 Hu) as [Hur ->].
  rewrite opaque_url_without_fragment.
  pose proof (fcbf_loop_none _ _ _ HB) as Hn. rewrite before_hash_utf8 in Hn by exact Hur.
  assert (Hn' : ~ In 44 (clean_body rem)).
  { intros Hin. apply Hn. apply in_utf8_ascii; [lia|]. apply in_clean_body. exact Hin. }
  pose proof (cbb_clean rem) as Hcl. pose proof (cbb_rest_head rem) as Hhd.
  assert (Ubc : usv_list (cbb_chars rem)) by (apply usv_cbb_chars; exact Hur).
  assert (Hx : ~ In 44 (opaque_of rem ++ qf_qtext (pqf_q STNotSpecial (cbb_rest rem)))).
  { unfold opaque_of. intros Hin. apply in_app_or in Hin.
    destruct (cbb_rest rem) as [|c r'] eqn:Ecr.
    - unfold pqf_q in Hin. rewrite inp_next_nil in Hin. cbn [qf_qtext] in Hin. destruct Hin as [Hin|[]].
      revert Hin. apply encode_no_comma; [exact Ubc|]. rewrite <- Hcl. exact Hn'.
    - destruct Hhd as [_ Htn]. unfold pqf_q in Hin. rewrite inp_next_cons in Hin by exact Htn.
      destruct Hcl as [[-> Hcl]|[-> Hcl]].
      + change (35 =? 63) with false in Hin. cbn [qf_qtext] in Hin. destruct Hin as [Hin|[]].
        revert Hin. apply encode_no_comma; [exact Ubc|]. rewrite <- Hcl. exact Hn'.
      + change (63 =? 63) with true in Hin. cbn [qf_qtext] in Hin.
        assert (Ur' : usv_list r').
        { pose proof (usv_cbb_rest rem Hur) as Hy. rewrite Ecr in Hy. apply usv_cons in Hy. tauto. }
        rewrite Hcl in Hn'. destruct Hin as [Hin|[Hin|Hin]].
        * revert Hin. apply encode_no_comma; [exact Ubc|]. intros H. apply Hn'. apply in_or_app. left. exact H.
        * discriminate Hin.
        * unfold query_of in Hin. revert Hin. apply encode_no_comma; [apply usv_query_chars; exact Ur'|].
          intros H. apply Hn'. apply in_or_app. right. right. exact H. }
  unfold Fetch.process, opaque_pre. rewrite <- !app_assoc. change (s_data ++ [58] ++ ?x) with ([100;97;116;97;58] ++ x).
  cbn [app remove_data_colon]. rewrite (collect_until_comma_none _ Hx). reflexivity.
Qed.
