(* Proofs/C07_PathMarker.v - the pathname setter on a URL without host: Url::set_path writes no "/." marker, so the new
   path must not start with "//" (finding F-C07-2 / F-C02-8 otherwise).  Class 3 of Known_C07 (the raw value starts with
   "//", or contains "//" and a dot) contains every value whose new list of segments starts with an empty segment
   followed by another one:
     - no dot ("." or "%2e") in the value => no dot segment: the list is the value split at '/';
     - no "//" in the value => every segment but the last is non-empty. *)
From Coq Require Import ZifyBool ZifyN.
From RU Require Import Base.Prelude Base.Utf8 Base.Utf8Facts Model.HostT Model.UrlRecord Model.Parser
  Model.KnownC01 Model.KnownC07 Spec.Whatwg
  Proofs.C02_Path Proofs.C08_Input Proofs.C01_EqEnc Proofs.C01_EqRun Proofs.C01_EqDots Proofs.C01_EqPathSpec Proofs.C01_EqPath
  Proofs.C01_KnownExact Proofs.C07_SpecPath Proofs.C07_PathText Proofs.C07_PathKnown.

(* the serializer of the Standard would write "/." in front of this path (when the host is null) *)
Definition head_empty (segs : list (list N)) : bool :=
  match segs with p0 :: _ :: _ => list_eqb p0 [] | _ => false end.

Lemma upe_nonempty B : B <> [] -> upe in_path_set B <> [].
Proof.
  destruct B as [|c r]; [contradiction|]. intros _. rewrite upe_cons.
  destruct (upe_cp_shape' c) as [E|(h & l & tl & E)]; rewrite E; discriminate.
Qed.

Lemma list_eqb_nil_false (s : list N) : s <> [] -> list_eqb s [] = false.
Proof. destruct s; [contradiction | reflexivity]. Qed.

(* ================= no dot in the value ================= *)
Lemma has_dot_suffix a : forall b, has_dot (a ++ b) = false -> has_dot b = false.
Proof.
  induction a as [|x a IH]; intros b H; [exact H|]. cbn [app has_dot] in H.
  apply orb_false_iff in H. destruct H as [_ H]. exact (IH b H).
Qed.

Lemma sd_cases B : is_single_dot' B = true -> In B [[46]; [37; 50; 101]; [37; 50; 69]].
Proof.
  intros H. destruct B as [|a [|b [|c [|d r]]]]; cbn [is_single_dot'] in H; try discriminate H; unfold is_pct2e in H.
  - assert (a = 46) as -> by lia. cbn; tauto.
  - assert (a = 37 /\ b = 50 /\ (c = 101 \/ c = 69)) as K by lia.
    destruct K as (-> & -> & [->| ->]); cbn; tauto.
Qed.

Lemma single_dot_has B y : is_single_dot B = true -> has_dot (B ++ y) = true.
Proof.
  rewrite is_single_dot_eq. intros H. apply sd_cases in H. cbn [In] in H.
  repeat (destruct H as [<-|H]; [reflexivity|]). destruct H.
Qed.

Lemma double_dot_has_dot B y : is_double_dot B = true -> has_dot (B ++ y) = true.
Proof.
  rewrite is_double_dot_eq. intros H. apply dd_cases in H. cbn [In] in H.
  repeat (destruct H as [<-|H]; [reflexivity|]). destruct H.
Qed.

Lemma fin_nodot P Braw y sep : has_dot (Braw ++ y) = false -> fin P (upe in_path_set Braw) sep = P ++ [upe in_path_set Braw].
Proof.
  intros H. unfold fin. rewrite double_dot_enc, single_dot_enc.
  destruct (is_double_dot Braw) eqn:E2; [rewrite (double_dot_has_dot Braw y E2) in H; discriminate H|].
  destruct (is_single_dot Braw) eqn:E1; [rewrite (single_dot_has Braw y E1) in H; discriminate H|].
  reflexivity.
Qed.

Lemma spathO_nodot x : forall Braw P, has_dot (Braw ++ x) = false ->
  exists B' L, spathO false x P (upe in_path_set Braw) = P ++ upe in_path_set (Braw ++ B') :: L.
Proof.
  induction x as [|c r IH]; intros Braw P H; cbn [spathO].
  - exists [], []. rewrite app_nil_r. exact (fin_nodot P Braw [] false H).
  - rewrite sepc_false. destruct (c =? 47).
    + rewrite (fin_nodot P Braw (c :: r) true H).
      change (@nil N) with (upe in_path_set []) at 1.
      destruct (IH [] (P ++ [upe in_path_set Braw])) as (B' & L & E).
      { cbn [app]. apply (has_dot_suffix (Braw ++ [c])). rewrite <- app_assoc. exact H. }
      rewrite E. exists [], (upe in_path_set ([] ++ B') :: L). rewrite app_nil_r, <- app_assoc. reflexivity.
    + rewrite upe_snoc. destruct (IH (Braw ++ [c]) P) as (B' & L & E); [rewrite <- app_assoc; exact H|].
      rewrite E. exists (c :: B'), L. rewrite <- app_assoc. reflexivity.
Qed.

(* ================= no "//" in the value ================= *)
Definition all_ne (P : list (list N)) : bool := forallb (fun s => negb (list_eqb s [])) P.

Lemma all_ne_removelast P : all_ne P = true -> all_ne (removelast P) = true.
Proof.
  unfold all_ne. intros H. rewrite forallb_forall in *. intros x Hx. apply H.
  destruct P as [|p0 P]; [destruct Hx|].
  assert (p0 :: P <> []) as Hne by discriminate.
  rewrite (app_removelast_last [] Hne). apply in_or_app. left. exact Hx.
Qed.

Lemma cds_tail c r : contains_double_slash (c :: r) = false -> contains_double_slash r = false.
Proof. destruct r as [|b r']; [reflexivity|]. cbn [contains_double_slash]. intros H. apply orb_false_iff in H. tauto. Qed.

Lemma cds_slash_next r : contains_double_slash (47 :: r) = false -> starts_with_byte 47 r = false.
Proof.
  destruct r as [|b r']; [reflexivity|]. cbn [contains_double_slash starts_with_byte]. intros H.
  apply orb_false_iff in H. destruct H as [H _]. change (47 =? 47) with true in H. exact H.
Qed.

Lemma spathO_nods x : forall Braw P, all_ne P = true -> (Braw = [] -> starts_with_byte 47 x = false) ->
  contains_double_slash x = false ->
  exists P' last, spathO false x P (upe in_path_set Braw) = P' ++ [last] /\ all_ne P' = true.
Proof.
  induction x as [|c r IH]; intros Braw P HP Hb Hc; cbn [spathO].
  - unfold fin. destruct (is_double_dot_segment (upe in_path_set Braw)).
    + exists (removelast P), []. split; [reflexivity | exact (all_ne_removelast P HP)].
    + destruct (is_single_dot_segment (upe in_path_set Braw)); eexists; eexists; (split; [reflexivity | exact HP]).
  - rewrite sepc_false. destruct (c =? 47) eqn:E47.
    + apply N.eqb_eq in E47. subst c.
      assert (Braw <> []) as Hne by (intros E; specialize (Hb E); cbn in Hb; discriminate Hb).
      change (@nil N) with (upe in_path_set []) at 1.
      apply IH; [| intros _; exact (cds_slash_next r Hc) | exact (cds_tail 47 r Hc)].
      unfold fin. destruct (is_double_dot_segment (upe in_path_set Braw)); [exact (all_ne_removelast P HP)|].
      destruct (is_single_dot_segment (upe in_path_set Braw)); [exact HP|].
      unfold all_ne in *. rewrite forallb_app, HP. cbn [forallb andb].
      rewrite (list_eqb_nil_false _ (upe_nonempty Braw Hne)). reflexivity.
    + rewrite upe_snoc. apply IH; [exact HP | | exact (cds_tail c r Hc)].
      intros E. destruct Braw; discriminate E.
Qed.

Lemma head_empty_all_ne P' last : all_ne P' = true -> head_empty (P' ++ [last]) = false.
Proof.
  destruct P' as [|p0 [|p1 P'']]; intros H; [reflexivity | |]; cbn [app head_empty];
    cbn [all_ne forallb] in H; apply andb_true_iff in H; destruct H as [H _]; apply negb_true_iff in H; exact H.
Qed.

(* ================= class 3 of Known_C07 ================= *)
Theorem no_marker x : starts_with_byte 47 x = false -> contains_double_slash x && has_dot x = false ->
  head_empty (spathO false x [] []) = false.
Proof.
  intros Hs H. apply andb_false_iff in H. destruct H as [H|H].
  - change (@nil N) with (upe in_path_set []) at 1.
    destruct (spathO_nods x [] [] eq_refl (fun _ => Hs) H) as (P' & last & E & HP). rewrite E.
    exact (head_empty_all_ne P' last HP).
  - destruct x as [|c r]; [vm_compute; reflexivity|].
    cbn [spathO]. rewrite sepc_false. cbn [starts_with_byte] in Hs. rewrite Hs.
    change (@nil N) with (upe in_path_set []) at 1. rewrite upe_snoc.
    destruct (spathO_nodot r ([] ++ [c]) [] H) as (B' & L & E). rewrite E. cbn [app head_empty].
    destruct L; [reflexivity|]. apply list_eqb_nil_false. apply upe_nonempty. discriminate.
Qed.

(* the value is led by one '/' *)
Theorem no_marker_tail r : starts_with s_ss (47 :: r) = false -> contains_double_slash (47 :: r) && has_dot (47 :: r) = false ->
  head_empty (spathO false r [] []) = false.
Proof.
  intros Hs H. apply no_marker.
  - destruct r as [|b r']; [reflexivity|]. cbn [starts_with_byte]. unfold s_ss in Hs. cbn [starts_with] in Hs.
    change (47 =? 47) with true in Hs. cbn [andb] in Hs. rewrite andb_true_r in Hs. rewrite N.eqb_sym. exact Hs.
  - apply andb_false_iff in H. apply andb_false_iff. destruct H as [H|H].
    + left. exact (cds_tail 47 r H).
    + right. exact (has_dot_suffix [47] r H).
Qed.
