(* Proofs/C01_EqFileTwo.v - first file-BASE arm of the C01 equivalence: "file:" followed by two (or more) '/' '\'
   against ANY base, a file URL included.  Neither side consults the base there: the Standard goes file state ->
   file slash state -> file host state (the base is read only in the other arms of the file and file slash
   states), parser.rs takes the file-host arm of parse_file before it looks at base_file_url.  So the theorem of
   the file class (Proofs/C01_EqFile.v) holds for these inputs against every base pair with the same scheme on the
   two sides (base_sch_rel; part of `related`).  Known_C01 does NOT yet use this: against a file base these inputs
   are still in class 1 (the twin of harness/src/known01.rs would have to be extended). *)
From Coq Require Import ZifyBool ZifyN.
From RU Require Import Base.Prelude Base.Utf8 Base.Utf8Facts Model.AsciiSet Gen.Tables
  Model.PercentEncoding Model.HostT Model.UrlRecord Model.Parser Model.Setters Model.WF Model.Host Model.KnownC01
  Spec.Whatwg Spec.WhatwgHost Spec.WhatwgHostParse
  Proofs.C02_Parts Proofs.C02_Path Proofs.C03_WF Proofs.C01_Tables Proofs.C08_Input Proofs.C09_Host
  Proofs.C01_EqRun Proofs.C01_EqEnc Proofs.C01_EqApi Proofs.C01_EqOpaque Proofs.C01_EqRef Proofs.C01_EqDots
  Proofs.C01_EqPathSpec Proofs.C01_EqPath Proofs.C01_EqOverflow Proofs.C01_EqEmpty
  Proofs.C01_EqClasses Proofs.C01_EqAuthSpec Proofs.C01_EqAuthModel Proofs.C01_EqAuth Proofs.C01_EqAuthHost
  Proofs.C01_EqClasses2 Proofs.C01_EqRel Proofs.C01_EqRelPath Proofs.C01_EqRelArms Proofs.C01_EqRelBase
  Proofs.C01_EqSpSpec Proofs.C01_EqSpPath Proofs.C01_EqSpModel Proofs.C01_EqSp Proofs.C01_EqSpHost
  Proofs.C01_KnownExact Proofs.C01_EqSpKnown
  Proofs.C01_EqAbs Proofs.C01_EqSpBase Proofs.C01_EqSpBare Proofs.C01_Override Proofs.C01_EqAsm Proofs.C01_EqShape
  Proofs.C01_EqCover
  Proofs.C01_EqFileSpec Proofs.C01_EqFilePath Proofs.C01_EqFileRel Proofs.C01_EqFile Proofs.C01_EqFileHost
  Proofs.C01_EqFileAsm.

(* ================= specification side: two leading slashes, ANY base ================= *)
Section FileRuns2.
Variable hp : bool -> list N -> option spec_host.
Variable input : list N.
Variable base : option spec_url.
Notation RunsN := (Runs hp input base).
Notation stepN := (step hp input base None).
Notation outN := (out_is hp input base).

Theorem runs_file_two c1 c2 T : forall pre a b pw u,
  input = pre ++ c1 :: c2 :: T -> is_sl c1 = true -> is_sl c2 = true -> su_path u = SPList [] ->
  outN (at_pos StFile pre [] a b pw u) (sfile_host_g hp (fu u) [] T).
Proof.
  intros pre a b pw u Hin Esl1 Esl2 HP. pose proof (fu_path u HP) as HP'. pose proof (fu_scheme u) as Hf'.
  assert (stepN (at_pos StFile pre [] a b pw u) = SCont (mkM StFileSlash (Z.of_nat (length pre)) [] a b pw (fu u))) as E1.
  { rewrite (step_unfold _ _ _ _ _ _ _ _ _ _ _ Hin). cbn zeta. cbn [hd_error]. unfold st_file.
    cbn [cis]. fold (is_sl c1). rewrite Esl1. reflexivity. }
  assert (input = (pre ++ [c1]) ++ c2 :: T) as Hin1 by (exact (snoc_split _ _ _ _ Hin)).
  eapply out_next; [exact Hin | exact E1 |].
  eapply out_next with (st' := StFileHost) (buf' := []) (u' := fu u); [exact Hin1 | |].
  - rewrite (step_unfold _ _ _ _ _ _ _ _ _ _ _ Hin1). cbn zeta. cbn [hd_error]. unfold st_file_slash.
    cbn [cis]. fold (is_sl c2). rewrite Esl2. reflexivity.
  - exact (runs_file_host hp input base T ((pre ++ [c1]) ++ [c2]) [] a b pw (fu u) (snoc_split _ _ _ _ Hin1) HP' Hf').
Qed.
End FileRuns2.

(* "file:" + two slashes / backslashes: the Standard's outcome for ANY base (a file base included) *)
Theorem spec_file_two shp base input c1 c2 T :
  spec_scheme (spec_clean input) = Some (str_file, c1 :: c2 :: T) -> is_sl c1 = true -> is_sl c2 = true ->
  match sfile shp u_file0 (c1 :: c2 :: T) with
  | Some su => spec_basic_url_parse shp input base = BDone su
  | None => exists uf, spec_basic_url_parse shp input base = BFailure uf
  end.
Proof.
  intros Hs E1 E2. set (inp := spec_clean input) in *. set (R := c1 :: c2 :: T) in *.
  destruct (runs_scheme shp inp base str_file R BOutOfFuel Hs) as (pre & Hin & _).
  assert (inp = (pre ++ [58]) ++ R) as Hin1 by (rewrite Hin, <- app_assoc; reflexivity).
  pose proof (runs_file_two shp inp base c1 c2 T (pre ++ [58]) false false false u_file0 Hin1 E1 E2 eq_refl) as RF.
  assert (forall res, Runs shp inp base (at_pos StFile (pre ++ [58]) [] false false false u_file0) res ->
                      spec_basic_url_parse shp input base = res) as Hrun.
  { intros res HR. apply spec_parse_of_runs. fold inp.
    destruct (runs_scheme shp inp base str_file R res Hs) as (pre2 & Hin' & K). apply K. clear K.
    assert (pre2 = pre) as -> by (rewrite Hin in Hin'; apply app_inv_tail in Hin'; symmetry; exact Hin').
    exact (runs_scheme_colon_file shp inp base pre R res Hin HR). }
  unfold R. cbn [sfile]. rewrite E1, E2.
  destruct (sfile_host_g shp (fu u_file0) [] T) as [su|]; cbn [out_is] in RF.
  - apply Hrun. exact RF.
  - destruct RF as [uf K]. exists uf. apply Hrun. exact K.
Qed.

(* ================= model side: parse_file does not consult the base behind two slashes ================= *)
Lemma parse_file_two dbg hp hd bf l c1 c2 T : ntnl l = c1 :: c2 :: T -> is_sl c1 = true -> is_sl c2 = true ->
  parse_file dbg hp hd None CUrlParser STFile bf l = parse_file dbg hp hd None CUrlParser STFile None l.
Proof.
  intros ER E1 E2. unfold parse_file, inp_split_first.
  destruct (inp_next_some l c1 (c2 :: T) ER) as (l1 & En1 & Hl1 & _). rewrite En1. cbv iota beta.
  rewrite is_sl_model, E1.
  destruct (inp_next_some l1 c2 T Hl1) as (l2 & En2 & _ & _). rewrite En2. cbv iota beta.
  change (is_slash_or_bslash c2) with (is_sl c2). rewrite E2. reflexivity.
Qed.

(* ================= the class: "file:" + two slashes / backslashes, ANY base ================= *)
Definition two_sl_file (input : list N) : bool :=
  match spec_scheme (spec_clean input) with
  | Some (sch, c1 :: c2 :: _) => list_eqb sch str_file && is_sl c1 && is_sl c2
  | _ => false
  end.

Section Class2.
Variable dbg : bool.
Variable hp hpo : list N -> result host.
Variable hd : host -> list N.
Variable shp : bool -> list N -> option spec_host.
Variable shs : spec_host -> list N.

Theorem class_file_two base sbase input : usv_list input -> in_class_file input = true -> two_sl_file input = true ->
  base_sch_rel base sbase ->
  host_agree_file hp hd shp shs (class_host_text_f input) ->
  agree_rel_strict dbg shs (parse_url dbg hp hpo hd None base input) (spec_basic_url_parse shp input sbase).
Proof.
  intros Hu Hc H2 Hb HA. unfold in_class_file, class_host_text_f, two_sl_file in *.
  destruct (spec_scheme (spec_clean input)) as [[sch R]|] eqn:Es; [|discriminate].
  apply andb_true_iff in Hc. destruct Hc as [Hsch Hok]. apply list_eqb_spec in Hsch. subst sch.
  destruct R as [|c1 [|c2 T]]; try discriminate H2.
  apply andb_true_iff in H2. destruct H2 as [H2 E2]. apply andb_true_iff in H2. destruct H2 as [_ E1].
  pose proof (spec_file_two shp sbase input c1 c2 T Es E1 E2) as HS.
  rewrite spec_clean_is_ntnl_trim in Es.
  destruct (spec_scheme_model _ _ _ Es) as (rem & Hps & Hrem).
  destruct (parse_scheme_suffix _ _ _ _ Hps) as [pre0 Hpre].
  assert (usv_list rem) as Hur.
  { pose proof (usv_trim input Hu) as Ht. rewrite Hpre in Ht. apply usv_app in Ht. tauto. }
  rewrite <- Hrem in Hok, HA, HS.
  pose proof (model_file dbg hp hpo hd shp shs rem Hur Hok HA) as HM.
  assert (parse_url dbg hp hpo hd None base input = parse_file dbg hp hd None CUrlParser STFile None rem) as ->.
  { unfold parse_url. rewrite Hps. unfold parse_with_scheme. change (to_u32 (nlen str_file)) with (@POk N 4). cbn [pbind].
    change (scheme_type_of str_file) with STFile. cbv iota beta.
    exact (parse_file_two dbg hp hd _ rem c1 c2 T Hrem E1 E2). }
  destruct (sfile shp u_file0 (ntnl rem)) as [su|].
  - rewrite HS. cbn [agree_rel_strict]. destruct HM as (u & HO & Rl & Hle).
    pose proof (related_href dbg shs u su Rl) as Eh. rewrite <- Eh.
    destruct HO as [[E B]|E]; [left; split; assumption | right; exists u; split; assumption].
  - destruct HS as [uf ->]. cbn [agree_rel_strict]. exact HM.
Qed.

Theorem file_result_ok_two input sbase su : in_class_file input = true -> two_sl_file input = true ->
  spec_basic_url_parse shp input sbase = BDone su -> spec_base_ok su = true /\ base_shape_ok su = true.
Proof.
  intros Hc H2 HS. unfold in_class_file, two_sl_file in *.
  destruct (spec_scheme (spec_clean input)) as [[sch R]|] eqn:Es; [|discriminate].
  apply andb_true_iff in Hc. destruct Hc as [Hsch _]. apply list_eqb_spec in Hsch. subst sch.
  destruct R as [|c1 [|c2 T]]; try discriminate H2.
  apply andb_true_iff in H2. destruct H2 as [H2 E2]. apply andb_true_iff in H2. destruct H2 as [_ E1].
  pose proof (spec_file_two shp sbase input c1 c2 T Es E1 E2) as K.
  destruct (sfile shp u_file0 (c1 :: c2 :: T)) as [su'|] eqn:E.
  - rewrite K in HS. inversion HS; subst su'. exact (sfile_result_ok shp _ su E).
  - destruct K as [uf K]. rewrite K in HS. discriminate HS.
Qed.

Theorem class_file_two_good base sbase input : usv_list input -> in_class_file input = true -> two_sl_file input = true ->
  base_sch_rel base sbase ->
  host_agree_file hp hd shp shs (class_host_text_f input) ->
  agree_good dbg shs (parse_url dbg hp hpo hd None base input) (spec_basic_url_parse shp input sbase)
  /\ (forall su u, spec_basic_url_parse shp input sbase = BDone su -> parse_url dbg hp hpo hd None base input = POk u ->
        full_base dbg shs u su).
Proof.
  intros Hu Hc H2 Hb HA.
  assert (agree_good dbg shs (parse_url dbg hp hpo hd None base input) (spec_basic_url_parse shp input sbase)) as G.
  { apply agree_good_intro.
    - exact (class_file_two base sbase input Hu Hc H2 Hb HA).
    - intros su HS. exact (proj1 (file_result_ok_two input sbase su Hc H2 HS)). }
  split; [exact G|]. intros su u HS HM. rewrite HS in G.
  split; [exact (agree_good_chain dbg shs _ su u G HM) | exact (proj2 (file_result_ok_two input sbase su Hc H2 HS))].
Qed.

End Class2.

Theorem class_file_two_model dbg idna : IdnaOK idna -> forall input base sbase,
  usv_list input -> full_rel dbg spec_host_serializer base sbase ->
  in_class_file input = true -> two_sl_file input = true ->
  agree_good dbg spec_host_serializer
    (parse_url dbg (host_parse idna) host_parse_opaque host_display None base input)
    (spec_basic_url_parse (spec_host_parser idna) input sbase)
  /\ (forall su u, spec_basic_url_parse (spec_host_parser idna) input sbase = BDone su ->
        parse_url dbg (host_parse idna) host_parse_opaque host_display None base input = POk u ->
        full_base dbg spec_host_serializer u su).
Proof.
  intros HI input base sbase Hu Hb Hc H2.
  apply class_file_two_good; [exact Hu | exact Hc | exact H2 | exact (full_rel_sch _ _ _ _ Hb)|].
  apply host_agree_file_real; [exact (idna_out idna HI) | apply class_host_text_f_usv; exact Hu].
Qed.

(* non-vacuity: against the parse result of file://h/tmp/x, file://h2.x/a/../b?q and fIle:\\/y are in the class;
   both sides give file://h2.x/b?q and file:///y (the base is not consulted) *)
Example class_file_two_nonvacuous :
  let idna := id_idna in
  let P base i := parse_url true (host_parse idna) host_parse_opaque host_display None base i in
  let S sbase i := spec_basic_url_parse (spec_host_parser idna) i sbase in
  let i1 := [102;105;108;101;58;47;47;104;50;46;120;47;97;47;46;46;47;98;63;113] in
  let i2 := [102;73;108;101;58;92;92;47;121] in
  match P None file_base_text, S None file_base_text with
  | POk b, BDone sb =>
      su_scheme sb = str_file
      /\ in_class_file i1 = true /\ two_sl_file i1 = true /\ in_class_file i2 = true /\ two_sl_file i2 = true
      /\ known_c01_v2 (Some b) i1 = 1 /\ known_c01_v2 (Some b) i2 = 1
      /\ match P (Some b) i1, S (Some sb) i1 with
         | POk u, BDone su => q_href u = [102;105;108;101;58;47;47;104;50;46;120;47;98;63;113]
                              /\ api_of_model true u = Some (spec_api_list spec_host_serializer su)
         | _, _ => False end
      /\ match P (Some b) i2, S (Some sb) i2 with
         | POk u, BDone su => q_href u = [102;105;108;101;58;47;47;47;121]
                              /\ api_of_model true u = Some (spec_api_list spec_host_serializer su)
         | _, _ => False end
  | _, _ => False
  end.
Proof. vm_compute. repeat split. Qed.
