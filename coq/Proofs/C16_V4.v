(* Proofs/C16_V4.v - Host::parse's IDNA step (the IDNA model at the URL deny list, ANY adapter) maps a text of digits and
   dots to itself; hence the host model linked with it reads the dotted-decimal text of every IPv4 address back as
   that address (the clause v4_fixed of IdnaOK_of_model, Proofs/C09_InstIdna.v, PROVED; C09_display_rt on IPv4 hosts
   without the hypothesis IdnaOK). *)
From RU Require Import Base.Prelude Base.Utf8 Base.U32_c13 Gen.Tables Model.Punycode Model.Uts46
  Proofs.Idna_Sim Proofs.Idna_Api Proofs.Idna_Known Proofs.Idna_Hyp Proofs.Idna_C10_Deny Proofs.Idna_C10_Prefix
  Proofs.Idna_C10b_AsciiInner Proofs.Idna_C10b_AsciiWalk.
From RU Require Import Model.HostT Model.Host Proofs.C09_Host Proofs.C09_InstIdna.

Definition dd_char (c : N) : Prop := is_digit c = true \/ c = 46.

Lemma dd_ldh c : dd_char c -> ldh c = true.
Proof. unfold dd_char, ldh, is_digit, is_lower. intros [H| ->]; lia. Qed.

Lemma dd_label_an l : Forall dd_char l -> an_label l.
Proof.
  intros H. assert (Ha : Forall (fun b => b < 128) l).
  { eapply Forall_impl; [|exact H]. intros c [Hc| ->]; [unfold is_digit in Hc|]; lia. }
  split; [exact Ha|]. destruct (has_punycode_prefix l) eqn:Hp; [|reflexivity]. exfalso.
  destruct (xn_prefix_spec l Ha Hp) as (a & b & r & -> & Xa & _).
  inversion H as [|? ? Hc _]; subst. destruct Hc as [Hc|Hc]; [unfold is_digit in Hc|]; lia.
Qed.

Lemma dd_label_acc deny l : LdhFree deny -> Forall dd_char l -> lab_acc deny HAllow l = true.
Proof.
  intros HL H. unfold lab_acc. cbn [hy_is_allow orb]. rewrite andb_true_r. apply negb_true_iff.
  unfold cmap. induction H as [|c r Hc _ IH]; [reflexivity|]. cbn [map existsb]. rewrite IH, orb_false_r.
  pose proof (HL c (dd_ldh c Hc)) as Hm. unfold deny_member in Hm. apply negb_false_iff in Hm.
  unfold apply_upper. rewrite Hm. unfold is_fffd, FFFD, REPLACEMENT. destruct Hc as [Hc| ->]; [unfold is_digit in Hc|]; lia.
Qed.

Section V4.
Variable A : adapter.
Variable cfg : bool.

Theorem dd_text_fixed T : Forall dd_char T -> exists b, to_ascii A cfg T DENY_URL HAllow DIgnore = U32_c13.Ok (b, T).
Proof.
  intros H. destruct (valid_deny_facts DENY_URL valid_deny_url) as [HU HL].
  pose proof (split_on_Forall dd_char DOT T H) as Hs.
  assert (Han : AN T) by (unfold AN; eapply Forall_impl; [|exact Hs]; intros l Hl; exact (dd_label_an l Hl)).
  assert (Hacc : forallb (lab_acc DENY_URL HAllow) (split_on DOT T) = true).
  { apply forallb_forall. intros l Hl. rewrite Forall_forall in Hs. exact (dd_label_acc DENY_URL l HL (Hs l Hl)). }
  assert (Hlow : map to_lower T = T).
  { apply lower_noupper. eapply Forall_impl; [|exact H]. intros c [Hc| ->]; unfold is_upper; [unfold is_digit in Hc|]; lia. }
  destruct (to_ascii_an A cfg T DENY_URL HAllow DIgnore Han HU HL) as (b & Hb).
  rewrite Hacc, Hlow in Hb. cbn [dns_is_ignore orb andb] in Hb. exists b. exact Hb.
Qed.

Theorem v4_fixed_model : v4_fixed A cfg.
Proof. intros a Ha. destruct (ipv4_display_digits a Ha) as (Hd & _). exact (dd_text_fixed _ Hd). Qed.

Lemma idna_of_v4 a : a < 4294967296 -> idna_of A cfg (ipv4_display a) = Some (ipv4_display a).
Proof.
  intros Ha. unfold idna_of.
  assert (Ed : forallb is_byteb (ipv4_display a) = true).
  { destruct (ipv4_display_digits a Ha) as (Hd & _). apply forallb_forall. intros c Hc.
    rewrite Forall_forall in Hd. unfold is_byteb. destruct (Hd c Hc) as [D| ->]; [unfold is_digit in D|]; lia. }
  rewrite Ed. unfold domain_to_ascii_cow. destruct (v4_fixed_model a Ha) as [b E]. rewrite E. reflexivity.
Qed.

(* Display / Host::parse round trip on every IPv4 address, host model + IDNA model, no hypothesis *)
Theorem ipv4_display_rt_model a : a < 4294967296 ->
  host_parse (idna_of A cfg) (ipv4_display a) = HostT.Ok (HIpv4 a).
Proof.
  intros H. apply x_ok_host_parse. destruct (ipv4_display_digits a H) as (Hd & Hn & He).
  assert (Ha : ascii (ipv4_display a)).
  { eapply Forall_impl; [|exact Hd]. intros c [Hc| ->]; unfold is_ascii; [unfold is_digit in Hc|]; lia. }
  assert (H37 : ~ In 37 (ipv4_display a)).
  { intros Hin. rewrite Forall_forall in Hd. destruct (Hd 37 Hin) as [Hc|Hc]; [vm_compute in Hc|]; discriminate. }
  assert (Hs : Host.starts_with 91 (ipv4_display a) = false).
  { destruct (ipv4_display a) as [|c r]; [reflexivity|]. cbn [Host.starts_with]. inversion Hd as [|? ? Hc _]; subst.
    destruct Hc as [Hc| ->]; [unfold is_digit in Hc; lia|reflexivity]. }
  unfold host_parse_x. rewrite Hs. rewrite C09_Host.utf8_encode_ascii by exact Ha. rewrite decode_no_pct by exact H37.
  rewrite (idna_of_v4 a H). rewrite He. rewrite parse_ipv4_display by exact H.
  destruct (ipv4_display a); [congruence|reflexivity].
Qed.
End V4.
