(* Proofs/C08_NoAuth.v - containment for a base without authority ("scheme:/path", possibly with the
   "/." marker): with_query_and_fragment may insert or remove the marker, so path_start can move by 2;
   there are no credentials, host or port to protect.  Preserved: "scheme:/" byte for byte, the six
   offsets / host kind / port in front of the path, and the five front accessors. *)
From RU Require Import Base.Prelude Base.Utf8 Base.Utf8Facts Model.AsciiSet Gen.Tables Model.PercentEncoding
  Model.HostT Model.UrlRecord Model.Parser Model.Setters Model.WF Model.KnownC08
  Proofs.ListN Proofs.C14_Enc Proofs.C02_Enc Proofs.C02_Parts Proofs.C02_Opaque Proofs.C03_WF Proofs.C06_List
  Proofs.C06_WFI Proofs.C06_Tail Proofs.C06_Steps Proofs.C06_FragQuery Proofs.C06_Suffix Proofs.C06_Front
  Proofs.C06_PathParser Proofs.C06_Path Proofs.C08_Input Proofs.C08_Simple Proofs.C08_Contain.

Lemma nfirstn_succ l i x : nnth l i = Some x -> nfirstn (i + 1) l = nfirstn i l ++ [x].
Proof.
  intros H. unfold nfirstn at 1. rewrite N2Nat.inj_add. rewrite firstn_add_nat. fold (nfirstn i l).
  f_equal. exact (piece_one l i x H).
Qed.

Lemma nfirstn_app_succ a x r : nfirstn (nlen a + 1) (a ++ x :: r) = a ++ [x].
Proof.
  rewrite (nfirstn_succ _ (nlen a) x).
  - rewrite nfirstn_app_exact. reflexivity.
  - rewrite nnth_app_ge by lia. rewrite N.sub_diag. reflexivity.
Qed.

(* the front accessors of a record "scheme:/..." without authority offsets *)
Lemma noauth_front_eval dbg u :
  nnth (ser u) (scheme_end u) = Some 58 -> nnth (ser u) (scheme_end u + 1) = Some 47 ->
  username_end u = scheme_end u + 1 -> hosti u = HI_None ->
  scheme u = Some (nfirstn (scheme_end u) (ser u)) /\ username dbg u = Some [] /\ password dbg u = Some None
  /\ host_str u = Some None.
Proof.
  intros H58 H47 Eue Ehi.
  pose proof (nnth_lt _ _ _ H58) as L1. pose proof (nnth_lt _ _ _ H47) as L2.
  assert (has_authority dbg u = Some (starts_with s_css (nskipn (scheme_end u) (ser u)))) as Hha.
  { unfold has_authority, byte_is, byte_at. rewrite H58. cbn [bindo N.eqb Pos.eqb assert_o].
    unfold u_slice_from. rewrite slice_from_o_some by lia. destruct dbg; reflexivity. }
  split; [unfold scheme, u_slice_to; apply slice_to_o_some; lia|].
  split.
  - unfold username. rewrite Hha. cbn [bindo]. rewrite Eue.
    replace (scheme_end u + 3 <? scheme_end u + 1) with false by lia. rewrite andb_false_r. reflexivity.
  - split.
    + unfold password. rewrite Hha. cbn [bindo].
      destruct (starts_with s_css (nskipn (scheme_end u) (ser u)) && negb (username_end u =? nlen (ser u))); [|reflexivity].
      unfold byte_is, byte_at. rewrite Eue, H47. reflexivity.
    + unfold host_str, has_host. rewrite Ehi. reflexivity.
Qed.

Section NoAuth.
Variables (dbg : bool) (hp hpo : list N -> result host) (hd : host -> list N).
Notation join b input := (parse_url dbg hp hpo hd None (Some b) input).

Definition contained_na (b u' : url) : Prop :=
  scheme_end u' = scheme_end b /\ username_end u' = username_end b /\ host_start u' = host_start b
  /\ host_end u' = host_end b /\ hosti u' = hosti b /\ port u' = port b
  /\ agree_pre (scheme_end b + 2) (ser b) (ser u').

Lemma wqf_noauth b st s rem u' : wf_b b = true -> has_authority_b b = false ->
  byte_eqb (ser b) (scheme_end b + 1) 47 = true ->
  PInv (path_start b) (path_start b + 1) (nfirstn (path_start b) (ser b) ++ [47]) s ->
  usv_list rem ->
  with_query_and_fragment None CUrlParser st (scheme_end b) (username_end b) (host_start b) (host_end b)
    (hosti b) (port b) (path_start b) s rem = POk u' ->
  contained_na b u'.
Proof.
  intros W Ha B47 I Hrem H.
  pose proof (wf_noauth_facts b W Ha) as F. pose proof (nf_ps F) as Hps.
  destruct (wf_scheme_facts b W) as (_ & B58 & Lse).
  apply byte_eqb_nnth in B58. apply byte_eqb_nnth in B47.
  pose proof (path_start_le_len b W) as B5.
  set (ps := path_start b) in *. set (se := scheme_end b) in *.
  assert (nlen (nfirstn ps (ser b)) = ps) as Lp by (apply nlen_nfirstn; exact B5).
  assert (nlen (nfirstn ps (ser b) ++ [47]) = ps + 1) as Lpre by (rewrite nlen_app, Lp; reflexivity).
  pose proof (pinv_len ps (ps + 1) _ ltac:(lia) ltac:(lia) Lpre s I) as Ls.
  destruct I as [I1 I2].
  assert (nfirstn ps s = nfirstn ps (ser b)) as Hpre.
  { rewrite <- (nfirstn_nfirstn ps (ps + 1) s) by lia. rewrite I1. rewrite nfirstn_app_le by lia.
    apply nfirstn_all. lia. }
  assert (nnth s ps = Some 47) as Hn.
  { rewrite <- (pre_nnth (ps + 1) s (nfirstn (ps + 1) s) ps) by (try apply agree_pre_trunc; lia).
    rewrite I1. rewrite nnth_app_ge by lia. rewrite Lp, N.sub_diag. reflexivity. }
  assert (nfirstn (se + 2) (ser b) = nfirstn se (ser b) ++ [58; 47]) as Eb.
  { replace (se + 2) with (se + 1 + 1) by lia. rewrite (nfirstn_succ _ (se + 1) 47 B47), (nfirstn_succ _ se 58 B58).
    rewrite <- app_assoc. reflexivity. }
  (* the serialization and path_start the first block hands on *)
  unfold with_query_and_fragment in H. fold ps se in H.
  match type of H with pbind ?blk _ = _ => destruct blk as [[s1 ps1]| |] eqn:E1 end; cbn [pbind] in H; try discriminate.
  assert (nfirstn (se + 2) s1 = nfirstn (se + 2) (ser b) /\ se + 2 <= nlen s1) as [A L].
  { destruct Hps as [Eps|(Eps & M1 & M2 & M3)].
    - (* no marker in the base *)
      replace (ps =? se + 1) with true in E1 by lia.
      assert (nfirstn (se + 2) s = nfirstn (se + 2) (ser b)) as As.
      { replace (se + 2) with (ps + 1) by lia. rewrite I1. replace (ps + 1) with (se + 1 + 1) by lia.
        rewrite (nfirstn_succ _ (se + 1) 47 B47). rewrite Eps. reflexivity. }
      destruct (starts_with s_ss (nskipn ps s)).
      + match type of E1 with pbind ?c _ = _ => destruct c as [[]| |] end; cbn [pbind] in E1; try discriminate.
        inversion E1; subst s1 ps1. cbn [app].
        assert (nlen (nfirstn ps s) = ps) as Lps by (apply nlen_nfirstn; lia).
        replace (se + 2) with (nlen (nfirstn ps s) + 1) by lia.
        split.
        * rewrite nfirstn_app_succ. rewrite Lps. rewrite Hpre. replace (ps + 1) with (se + 1 + 1) by lia.
          rewrite (nfirstn_succ _ (se + 1) 47 B47). rewrite Eps. reflexivity.
        * rewrite nlen_app, nlen_cons. lia.
      + match type of E1 with pbind ?c _ = _ => destruct c as [[]| |] end; cbn [pbind] in E1; try discriminate.
        inversion E1; subst s1 ps1. split; [exact As | lia].
    - (* the base carries the marker *)
      replace (ps =? se + 1) with false in E1 by lia.
      assert (nfirstn (se + 2) s = nfirstn (se + 2) (ser b)) as As.
      { rewrite <- (nfirstn_nfirstn (se + 2) ps s), <- (nfirstn_nfirstn (se + 2) ps (ser b)) by lia.
        rewrite Hpre. reflexivity. }
      destruct ((ps =? se + 3) && list_eqb (nfirstn (ps - se) (nskipn se s)) [58; 47; 46]).
      + match type of E1 with pbind ?c _ = _ => destruct c as [[]| |] end; cbn [pbind] in E1; try discriminate.
        assert ((match nnth s (ps + 1) with
                 | Some 47 => (s, ps)
                 | _ => (nfirstn se s ++ [58] ++ nskipn ps s, ps - 2)
                 end) = (s, ps)
                \/ (match nnth s (ps + 1) with
                    | Some 47 => (s, ps)
                    | _ => (nfirstn se s ++ [58] ++ nskipn ps s, ps - 2)
                    end) = (nfirstn se s ++ [58] ++ nskipn ps s, ps - 2)) as [X|X].
        { destruct (nnth s (ps + 1)) as [x|]; [|right; reflexivity].
          rewrite match47. destruct (x =? 47); [left | right]; reflexivity. }
        * rewrite X in E1.
          match type of E1 with pbind ?c _ = _ => destruct c as [[]| |] end; cbn [pbind] in E1; try discriminate.
          inversion E1; subst s1 ps1. split; [exact As | lia].
        * rewrite X in E1.
          match type of E1 with pbind ?c _ = _ => destruct c as [[]| |] end; cbn [pbind] in E1; try discriminate.
          inversion E1; subst s1 ps1.
          pose proof (piece_one s ps 47 Hn) as Hone.
          destruct (nskipn ps s) as [|x P'] eqn:Esk; [discriminate|].
          unfold nfirstn in Hone. change (N.to_nat 1) with 1%nat in Hone. cbn [firstn] in Hone. inversion Hone; subst x.
          assert (nlen (nfirstn se s) = se) as Lses by (apply nlen_nfirstn; lia).
          assert (nfirstn se s = nfirstn se (ser b)) as Ese.
          { rewrite <- (nfirstn_nfirstn se ps s), <- (nfirstn_nfirstn se ps (ser b)) by lia. rewrite Hpre. reflexivity. }
          cbn [app]. split.
          -- rewrite Eb, <- Ese.
             replace (se + 2) with (nlen (nfirstn se s ++ [58; 47]))
               by (rewrite nlen_app, Lses; change (nlen [58; 47]) with 2; reflexivity).
             change (nfirstn se s ++ 58 :: 47 :: P') with (nfirstn se s ++ [58; 47] ++ P'). rewrite app_assoc.
             apply nfirstn_app_exact.
          -- rewrite nlen_app, Lses, !nlen_cons. lia.
      + inversion E1; subst s1 ps1. split; [exact As | lia]. }
  destruct (parse_query_and_fragment None CUrlParser st se s1 rem) as [[[s2 qs] fs]| |] eqn:Epqf; cbn [pbind] in H; try discriminate.
  inversion H; subst u'. clear H.
  destruct (pqf_out None st se s1 rem s2 qs fs Hrem eq_refl Epqf) as (Es & _).
  unfold contained_na. cbn [scheme_end username_end host_start host_end hosti port ser].
  repeat split. unfold agree_pre. rewrite Es. rewrite nfirstn_app_le by exact L. exact A.
Qed.

Lemma noauth_cbb_byte b : wf_b b = true -> cannot_be_a_base b = Some false ->
  byte_eqb (ser b) (scheme_end b + 1) 47 = true.
Proof.
  intros W Hc. rewrite (cannot_be_a_base_eval b W) in Hc. inversion Hc as [E].
  destruct (byte_eqb (ser b) (scheme_end b + 1) 47); [reflexivity | discriminate].
Qed.

(* the first byte of the path of an authority-less base that can be a base is '/', and the path is not empty *)
Lemma noauth_path_byte b : wf_b b = true -> has_authority_b b = false -> cannot_be_a_base b = Some false ->
  byte_eqb (ser b) (path_start b) 47 = true /\ scheme_end b + 1 <= path_start b.
Proof.
  intros W Ha Hc. pose proof (noauth_cbb_byte b W Hc) as B47.
  pose proof (wf_noauth_facts b W Ha) as F. destruct (nf_ps F) as [E|(E & _ & _ & SS)].
  - rewrite E. split; [exact B47 | lia].
  - apply ss_bytes in SS. destruct SS as [S1 _]. split; [apply byte_eqb_true_iff; exact S1 | lia].
Qed.

Lemma path_byte_before_query b : wf_b b = true -> byte_eqb (ser b) (path_start b) 47 = true ->
  byte_eqb (b_before_query b) (path_start b) 47 = true /\ path_start b + 1 <= nlen (b_before_query b).
Proof.
  intros W B. pose proof (wf_qf_facts b W) as QF. pose proof (qf_q QF) as Q1. pose proof (qf_f QF) as Q2.
  pose proof (byte_eqb_lt _ _ _ B) as L. apply byte_eqb_nnth in B.
  unfold b_before_query.
  assert (forall k, path_start b <= k -> k <= nlen (ser b) -> nnth (ser b) k <> Some 47 \/ k = nlen (ser b) ->
            (k = nlen (ser b) \/ path_start b < k) ->
            byte_eqb (nfirstn k (ser b)) (path_start b) 47 = true /\ path_start b + 1 <= nlen (nfirstn k (ser b))) as K.
  { intros k H1 H2 _ H4. assert (path_start b < k) as Hlt by lia.
    split; [|rewrite nlen_nfirstn by lia; lia].
    apply byte_eqb_true_iff. rewrite (pre_nnth k (ser b) (nfirstn k (ser b))) by (try apply agree_pre_trunc; lia). exact B. }
  destruct (query_start b) as [q|].
  - destruct Q1 as (A1 & A2 & A3). apply byte_eqb_nnth in A2.
    apply K; try lia; [left; congruence|]. right. destruct (N.eq_dec q (path_start b)); [subst; congruence | lia].
  - destruct (fragment_start b) as [f|].
    + destruct Q2 as (A1 & A2 & A3). apply byte_eqb_nnth in A2.
      apply K; try lia; [left; congruence|]. right. destruct (N.eq_dec f (path_start b)); [subst; congruence | lia].
    + split; [apply byte_eqb_true_iff; exact B | lia].
Qed.

Lemma before_fragment_is_prefix b : wf_b b = true ->
  nfirstn (nlen (b_before_fragment b)) (ser b) = b_before_fragment b.
Proof.
  intros W. pose proof (qf_f (wf_qf_facts b W)) as Q2. unfold b_before_fragment.
  destruct (fragment_start b) as [f|]; [rewrite nlen_nfirstn by lia; reflexivity | apply nfirstn_all; lia].
Qed.

Lemma before_query_is_prefix b : wf_b b = true ->
  nfirstn (nlen (b_before_query b)) (ser b) = b_before_query b.
Proof.
  intros W. pose proof (qf_f (wf_qf_facts b W)) as Q2. pose proof (qf_q (wf_qf_facts b W)) as Q1. unfold b_before_query.
  destruct (query_start b) as [q|]; [rewrite nlen_nfirstn by lia; reflexivity|].
  destruct (fragment_start b) as [f|]; [rewrite nlen_nfirstn by lia; reflexivity | apply nfirstn_all; lia].
Qed.

Lemma path_arm_noauth b st s0 r u' : wf_b b = true -> has_authority_b b = false -> st_is_file st = false ->
  byte_eqb (ser b) (scheme_end b + 1) 47 = true ->
  PInv (path_start b) (path_start b + 1) (nfirstn (path_start b) (ser b) ++ [47]) s0 ->
  usv_list r ->
  (p <~ parse_path dbg CUrlParser st true (path_start b) s0 r ;;
   (let '(s, _, rem) := p in
    with_query_and_fragment None CUrlParser st (scheme_end b) (username_end b) (host_start b) (host_end b)
      (hosti b) (port b) (path_start b) s rem)) = POk u' ->
  contained_na b u'.
Proof.
  intros W Ha Hnf B47 I Hr H. unfold parse_path in H.
  pose proof (path_start_le_len b W) as B5.
  assert (nlen (nfirstn (path_start b) (ser b) ++ [47]) = path_start b + 1) as Lpre.
  { rewrite nlen_app, nlen_nfirstn by exact B5. reflexivity. }
  destruct (parse_path_loop dbg CUrlParser st (path_start b) r s0 (nlen s0) [] true) as [[[s hh] rem]| |] eqn:E;
    cbn [pbind] in H; try discriminate.
  destruct (pinv_loop_url dbg (path_start b) (path_start b + 1) _ ltac:(lia) ltac:(lia) Lpre st r
              ltac:(intros X; rewrite X in Hnf; discriminate) _ _ _ _ _ _ _ E I
              ltac:(eapply pinv_len; [| |exact Lpre|exact I]; lia) Hr ltac:(constructor))
    as ((x & Ex & Ix) & Hrem & _).
  unfold file_path_fixup in Ex. rewrite Hnf in Ex. subst x.
  eapply wqf_noauth; eassumption.
Qed.

Lemma contained_na_front b u' : wf_b b = true -> has_authority_b b = false ->
  byte_eqb (ser b) (scheme_end b + 1) 47 = true -> contained_na b u' -> same_front dbg b u'.
Proof.
  intros W Ha B47 (E1 & E2 & E3 & E4 & E5 & E6 & A).
  pose proof (wf_noauth_facts b W Ha) as F. destruct (wf_scheme_facts b W) as (_ & B58 & _).
  apply byte_eqb_nnth in B58. apply byte_eqb_nnth in B47.
  destruct (noauth_front_eval dbg b B58 B47 (nf_ue F) (nf_host F)) as (S1 & S2 & S3 & S4).
  assert (nnth (ser u') (scheme_end u') = Some 58) as B58'.
  { rewrite E1. rewrite (pre_nnth _ _ _ (scheme_end b) A) by lia. exact B58. }
  assert (nnth (ser u') (scheme_end u' + 1) = Some 47) as B47'.
  { rewrite E1. rewrite (pre_nnth _ _ _ (scheme_end b + 1) A) by lia. exact B47. }
  destruct (noauth_front_eval dbg u' B58' B47' ltac:(rewrite E2, E1; exact (nf_ue F)) ltac:(rewrite E5; exact (nf_host F)))
    as (T1 & T2 & T3 & T4).
  unfold same_front. rewrite S1, S2, S3, S4, T1, T2, T3, T4, E1, E6.
  repeat split. f_equal.
  rewrite <- (nfirstn_nfirstn (scheme_end b) (scheme_end b + 2) (ser u')), <- (nfirstn_nfirstn (scheme_end b) (scheme_end b + 2) (ser b)) by lia.
  unfold agree_pre in A. rewrite A. reflexivity.
Qed.

Lemma main_contained_na b u' k : wf_b b = true -> same_main b u' -> agree_pre k (ser b) (ser u') -> scheme_end b + 2 <= k ->
  contained_na b u'.
Proof.
  intros W (E1 & E2 & E3 & E4 & E5 & E6 & E7) A Hk. unfold contained_na.
  repeat split; try assumption. apply (agree_pre_le k); assumption.
Qed.

Theorem contain_noauth b input u' :
  wf_b b = true -> has_authority_b b = false -> cannot_be_a_base b = Some false -> st_is_file (b_st b) = false ->
  usv_list input -> contain_pre b input = true ->
  join b input = POk u' ->
  contained_na b u' /\ same_front dbg b u'.
Proof.
  intros W Ha Hc Hnf Hu Hcp H.
  pose proof (noauth_cbb_byte b W Hc) as B47.
  enough (contained_na b u') as C by (split; [exact C | apply contained_na_front; assumption]).
  revert H.
  destruct (noauth_path_byte b W Ha Hc) as [BP Lps].
  destruct (path_byte_before_query b W BP) as [BQ LQ].
  destruct (contain_pre_inv b input Hcp) as [Hns H2s].
  assert (scheme_end b + 2 <= nlen (b_before_fragment b) /\
          nfirstn (nlen (b_before_query b)) (b_before_fragment b) = b_before_query b) as [LF EF].
  { pose proof (wf_qf_facts b W) as QF. pose proof (qf_qf QF) as Q3. pose proof (qf_f QF) as Q2. pose proof (qf_q QF) as Q1.
    unfold b_before_fragment, b_before_query in *.
    destruct (query_start b) as [q|], (fragment_start b) as [f|].
    - rewrite !nlen_nfirstn in * by lia. split; [lia | apply nfirstn_nfirstn; lia].
    - rewrite !nlen_nfirstn in * by lia. split; [lia | reflexivity].
    - split; [lia | apply nfirstn_all; lia].
    - split; [lia | apply nfirstn_all; lia]. }
  destruct (ref_text input) as [|c t] eqn:Et.
  { rewrite (join_empty dbg hp hpo hd b input Hc Et). intros H. inversion H; subst u'.
    destruct (without_fragment_spec dbg b W) as (W1 & SF1 & SM1 & _ & _ & _ & _ & _ & Es1).
    apply (main_contained_na b _ (nlen (b_before_fragment b)) W SM1); [|lia].
    unfold agree_pre. rewrite Es1. rewrite nfirstn_all by lia. symmetry. apply before_fragment_is_prefix. exact W. }
  destruct (N.eq_dec c 35) as [->|N35].
  { intros H. rewrite (join_frag_out dbg hp hpo hd b input t u' Hu Et H).
    destruct (with_fragment_spec dbg b (encode T_FRAGMENT (utf8_encode t)) W) as (W1 & SF1 & SM1 & _ & _ & _ & Es1).
    apply (main_contained_na b _ (nlen (b_before_fragment b)) W SM1); [|lia].
    unfold agree_pre. rewrite Es1. rewrite nfirstn_app_exact. symmetry. apply before_fragment_is_prefix. exact W. }
  destruct (N.eq_dec c 63) as [->|N63].
  { intros H. destruct (join_query dbg hp hpo hd b input t u' W Hc Hu Et H) as [-> HQ].
    destruct (with_query_spec dbg hp hpo b _ (ref_fragment t) W HQ) as (W1 & SF1 & SM1 & _).
    apply (main_contained_na b _ (nlen (b_before_query b)) W SM1); [|lia].
    unfold agree_pre, with_query, url_with. cbn [ser]. rewrite nfirstn_app_exact. symmetry.
    apply before_query_is_prefix. exact W. }
  (* the path arms *)
  unfold parse_url. set (l := input_new_trim_c0 input). change (ntnl l = c :: t) in Et.
  assert (usv_list l) as Hl by (apply usv_trim; exact Hu).
  rewrite parse_scheme_none by (rewrite Et; exact Hns).
  destruct (inp_next_some l c t Et) as (r & En & Er & Ect).
  pose proof (inp_next_usv l c r Hl En) as Hr.
  unfold inp_starts_with_char. rewrite En. replace (c =? 35) with false by lia. rewrite Hc.
  fold (b_st b). rewrite Hnf. unfold parse_relative, inp_split_first. rewrite En.
  replace (c =? 63) with false by lia. replace (c =? 35) with false by lia.
  pose proof (path_start_le_len b W) as B5.
  assert (nlen (nfirstn (path_start b) (ser b)) = path_start b) as Lp by (apply nlen_nfirstn; exact B5).
  destruct ((c =? 47) || (c =? 92) && st_is_special (b_st b)) eqn:Esl.
  - destruct (inp_count_matching (fun d => (d =? 47) || (d =? 92) && st_is_special (b_st b)) l) as [sl rem'] eqn:Ecm.
    assert (sl < 2) as Hsl.
    { pose proof (inp_count_matching_fst (fun d => (d =? 47) || (d =? 92) && st_is_special (b_st b)) l) as Hf.
      rewrite Ecm in Hf. cbn [fst] in Hf. rewrite Hf, Et. apply count_leading_lt2. exact H2s. }
    replace (2 <=? sl) with false by lia.
    apply path_arm_noauth; try assumption.
    split.
    + apply nfirstn_all. rewrite nlen_app, Lp. change (nlen [47]) with 1. lia.
    + rewrite nskipn_app_ge by lia. rewrite Lp, N.sub_diag. reflexivity.
  - destruct (without_query_spec dbg b W) as (W1 & _ & _ & _ & Eq1 & Ef1 & Es1 & _).
    set (u1 := without_query b) in *.
    pose proof (qf_facts_of u1 W1) as (_ & _ & _ & Q4 & _).
    assert (path_end u1 = nlen (ser u1)) as Epe by (unfold path_end; rewrite Eq1, Ef1; reflexivity).
    rewrite Epe in Q4. replace (path_start u1) with (path_start b) in Q4 by reflexivity.
    rewrite <- Es1 in LQ, BQ.
    rewrite nfirstn_all in Q4 by (rewrite nlen_nskipn; lia).
    assert (nfirstn (path_start b) (ser u1) = nfirstn (path_start b) (ser b)) as Hp1
      by (rewrite Es1; apply before_query_prefix; exact W).
    rewrite <- Es1.
    destruct (pop_path (b_st b) (path_start b) (ser u1)) as [s1| |] eqn:Epop; cbn [pbind]; try discriminate.
    rewrite inp_is_empty_ntnl, Et. cbn [negb]. rewrite orb_true_r, andb_true_r.
    assert (nlen (nfirstn (path_start b) (ser b) ++ [47]) = path_start b + 1) as Lpre by (rewrite nlen_app, Lp; reflexivity).
    assert (PInv (path_start b) (path_start b + 1) (nfirstn (path_start b) (ser b) ++ [47]) (ser u1)) as I1.
    { split; [|exact Q4]. apply byte_eqb_nnth in BQ. rewrite (nfirstn_succ _ _ 47 BQ), Hp1. reflexivity. }
    pose proof (pinv_pop_path (path_start b) (path_start b + 1) _ ltac:(lia) ltac:(lia) Lpre _ _ _ Epop I1) as I2.
    pose proof (pinv_len (path_start b) (path_start b + 1) _ ltac:(lia) ltac:(lia) Lpre _ I2).
    replace (nlen s1 =? path_start b) with false by lia.
    rewrite match47. replace (c =? 47) with false by (destruct (c =? 47); [discriminate Esl | reflexivity]).
    apply path_arm_noauth; assumption.
Qed.

End NoAuth.

(* ---------- both cases together: every base that can be a base and is not a file URL ---------- *)
Definition contained (dbg : bool) (b u' : url) : Prop :=
  scheme_end u' = scheme_end b /\ username_end u' = username_end b /\ host_start u' = host_start b
  /\ host_end u' = host_end b /\ hosti u' = hosti b /\ port u' = port b
  /\ same_front dbg b u'
  /\ (if has_authority_b b
      then path_start u' = path_start b /\ agree_pre (path_start b) (ser b) (ser u') /\ wf_b u' = true
      else agree_pre (scheme_end b + 2) (ser b) (ser u')).

Theorem contain_nonfile dbg hp hpo hd b input u' :
  wf_b b = true -> cannot_be_a_base b = Some false -> st_is_file (b_st b) = false ->
  usv_list input -> contain_pre b input = true ->
  parse_url dbg hp hpo hd None (Some b) input = POk u' -> contained dbg b u'.
Proof.
  intros W Hc Hnf Hu Hcp H. unfold contained. destruct (has_authority_b b) eqn:Ha.
  - destruct (contain_auth dbg hp hpo hd b input u' W Ha Hnf Hu Hcp H) as (W' & SF & (E1 & E2 & E3 & E4 & E5 & E6 & E7) & A).
    split; [exact E1|]. split; [exact E2|]. split; [exact E3|]. split; [exact E4|]. split; [exact E5|]. split; [exact E6|].
    split; [exact SF|]. split; [exact E7|]. split; [exact A | exact W'].
  - destruct (contain_noauth dbg hp hpo hd b input u' W Ha Hc Hnf Hu Hcp H) as ((E1 & E2 & E3 & E4 & E5 & E6 & A) & SF).
    split; [exact E1|]. split; [exact E2|]. split; [exact E3|]. split; [exact E4|]. split; [exact E5|]. split; [exact E6|].
    split; [exact SF | exact A].
Qed.
