(* Proofs/C03_ReachKnown.v - histories whose exclusions are ONLY the known findings.
   excl03k = excl03 without the auth_end_b member.  reach03k: Url::parse (no base) of a text with a scheme other
   than "file", or a file-path constructor, followed by any sequence of calls of the 19 mutators that leave the
   record unchanged or are outside excl03k.  Every such record satisfies wfh, HE (hence auth_end_ok: the
   member of excl03 that is not a known finding never applies), PN and base_ok. *)
From RU Require Import Base.Prelude Base.Utf8 Model.AsciiSet Gen.Tables Model.PercentEncoding
  Model.HostT Model.UrlRecord Model.Parser Model.Setters Model.WF Model.FilePath
  Proofs.ListN Proofs.C03_WF Proofs.C06_List Proofs.C02_Parts Proofs.C02_Opaque Proofs.C02_Path Proofs.C02_PathL1 Proofs.C02_Reach
  Proofs.C02_AuthParts Proofs.C02_Auth Proofs.C02_AuthWf Proofs.C02_PathSp Proofs.C02_AuthSp Proofs.C02_AuthMain
  Proofs.C06_WFI Proofs.C06_FragQuery Proofs.C06_Path Proofs.C06_Main Proofs.C06_PathMore
  Proofs.C03_ReachParts Proofs.C03_ReachHost Proofs.C03_ReachAll Proofs.C03_Reachability
  Proofs.C03_PortInv Proofs.C03_PortParse Proofs.C03_AuthEnd Proofs.C20_Path Proofs.C20_RT.
Open Scope N_scope.
Open Scope list_scope.

Definition excl03k (u : url) (o : op) (u' : url) : bool :=
  match o with
  | OSetPath p => (is_opaque_b u && negb (forallb no_qh p)) || path_bad u u'
  | OQPathname _ => path_bad u u'
  | _ => excl03 u o u'
  end.

Lemma excl03k_excl03 u o u' : auth_end_ok u -> excl03k u o u' = false -> excl03 u o u' = false.
Proof.
  intros Hx G. apply auth_end_b_ok in Hx. destruct o; cbn [excl03 excl03k] in *; try exact G; rewrite Hx; exact G.
Qed.

Definition known03k (u : url) (o : op) (u' : url) : bool := negb (url_eqb u' u) && excl03k u o u'.

(* ---------- HE of the start records ---------- *)
Lemma he_nonspecial u sch : wf_b u = true -> nfirstn (scheme_end u) (ser u) = sch ->
  scheme_type_of sch = STNotSpecial -> HE u.
Proof.
  intros W E Hns sch' Hs Hsp. rewrite (scheme_text03 u W), E in Hs. inversion Hs; subst sch'.
  rewrite Hns in Hsp. discriminate.
Qed.

Lemma he_no_host_file u : wf_b u = true -> nfirstn (scheme_end u) (ser u) = s_file -> has_host u = false -> HE u.
Proof.
  intros W E Hh sch' Hs Hsp. rewrite (scheme_text03 u W), E in Hs. inversion Hs; subst sch'.
  unfold host_str. rewrite Hh. split; [intros t Et; discriminate | intros X; discriminate X].
Qed.

Lemma file_rec_he P : wf_b (file_rec P) = true -> HE (file_rec P).
Proof. intros W. apply (he_no_host_file _ W); reflexivity. Qed.

Section Parse.
Variable dbg : bool.
Variable hp hpo : list N -> result host.
Variable hd : host -> list N.
Hypothesis HRT : HostRT hp hpo hd.
Hypothesis HAb : host_above hp hpo hd.

Lemma auth_url_host_str sch ui h pt p q f : wf_b (auth_url hd sch ui h pt p q f) = true -> h <> HDomain [] ->
  host_str (auth_url hd sch ui h pt p q f) = Some (Some (hd h)).
Proof using.
  intros W Hne. rewrite (host_str_eval _ W).
  assert (has_host (auth_url hd sch ui h pt p q f) = true) as ->.
  { unfold has_host, auth_url. cbn [hosti]. destruct h as [[|c d]|a|x]; [contradiction | reflexivity ..]. }
  f_equal. f_equal. unfold piece. cbn [pidx]. unfold auth_url. cbn [ser host_start host_end].
  unfold auth_ser, auth_pre, auth_front.
  replace (nlen sch + 3 + nlen (ui_text ui)) with (nlen ((sch ++ [58; 47; 47]) ++ ui_text ui))
    by (rewrite !nlen_app; change (nlen [58; 47; 47]) with 3; reflexivity).
  replace (nlen ((sch ++ [58; 47; 47]) ++ ui_text ui) + nlen (hd h) - nlen ((sch ++ [58; 47; 47]) ++ ui_text ui)) with (nlen (hd h)) by lia.
  replace ((((sch ++ [58; 47; 47]) ++ ui_text ui ++ hd h ++ port_text pt) ++ pth_text p) ++ qf_text q f)
    with (((sch ++ [58; 47; 47]) ++ ui_text ui) ++ hd h ++ (port_text pt ++ pth_text p ++ qf_text q f))
    by (rewrite <- !app_assoc; reflexivity).
  rewrite nskipn_app_exact. apply nfirstn_app_exact.
Qed.

Theorem parse_nonfile_he input u : usv_list input -> nonfile_input input = true ->
  parse_url dbg hp hpo hd None None input = POk u -> HE u.
Proof using HRT HAb.
  intros Hu Hc Hp.
  pose proof (proj1 (proj2 (reparse_nonfile dbg hp hpo hd input u HRT HAb Hu Hc Hp))) as W.
  unfold nonfile_input in Hc.
  destruct (parse_scheme CUrlParser (input_new_trim_c0 input)) as [[sch rem]|] eqn:Hs; [|discriminate].
  destruct (scheme_type_of sch) eqn:Hst; [discriminate| |].
  - (* special non-file *)
    assert (special_input input = true) as Hsi by (unfold special_input; rewrite Hs, Hst; reflexivity).
    destruct (L1_special dbg hp hpo hd HRT input u HAb Hu Hsi Hp) as ((sch' & ui & h & pt & p & q & f & K & _ & E) & _).
    destruct (ak_h _ _ _ _ _ _ _ _ _ _ _ K) as [(_ & X)|(Hne & Ht & _)]; [discriminate|].
    pose proof (host_text_ok_wf _ Ht) as (_ & _ & _ & T4).
    rewrite E in W |- *. intros sch2 _ _. rewrite (auth_url_host_str _ _ _ _ _ _ _ W Hne).
    split; [intros t Et; inversion Et; subst t; exact T4 | intros _; eexists; reflexivity].
  - destruct (inp_split_prefix_char 47 rem) as [rem'|] eqn:E47.
    + destruct (inp_split_prefix_str s_ss rem) as [rem''|] eqn:Ess.
      * assert (auth_input input = true) as Hai by (unfold auth_input; rewrite Hs, Hst, Ess; reflexivity).
        destruct (L1_auth dbg hp hpo hd HRT None input u HAb Hu Hai Hp) as ((sch' & ui & h & pt & p & q & f & K & E) & _).
        apply (he_nonspecial u sch' W); [|exact (ak_st _ _ _ _ _ _ _ _ _ _ _ K)].
        rewrite E. unfold auth_url. cbn [ser scheme_end]. unfold auth_ser, auth_pre. rewrite <- app_assoc. apply front_sch.
      * destruct (parse_noauth_out dbg hp hpo hd None input sch rem rem' u Hu Hs Hst Ess E47 Hp) as (segs & last & q & f & K & E).
        apply (he_nonspecial u sch W); [|exact Hst].
        rewrite E. unfold noauth_url. cbn [ser scheme_end]. unfold noauth_ser, noauth_pre. rewrite <- !app_assoc. apply nfirstn_app_exact.
    + destruct (parse_opaque_out dbg hp hpo hd None input sch rem u Hu Hs Hst E47 Hp) as (P & q & f & K & E).
      apply (he_nonspecial u sch W); [|exact Hst].
      rewrite E. unfold opaque_url. cbn [ser scheme_end]. unfold opaque_ser, opaque_pre. rewrite <- !app_assoc. apply nfirstn_app_exact.
Qed.
End Parse.

(* ---------- the histories ---------- *)
Section Reach.
Variable dbg : bool.
Variable hp hpo : list N -> result host.
Variable hd : host -> list N.

Inductive reach03k : url -> Prop :=
| RK_parse input u : usv_list input -> nonfile_input input = true ->
    parse_url dbg hp hpo hd None None input = POk u -> reach03k u
| RK_file p u : bytes p -> from_file_path p = FOk u -> reach03k u
| RK_dir p u : bytes p -> from_directory_path p = FOk u -> reach03k u
| RK_step u o u' :
    reach03k u -> op_args_ok o -> known03k u o u' = false -> apply_op dbg hp hpo hd u o = Some u' -> reach03k u'.

Theorem reach03k_inv : HostRT hp hpo hd -> host_above hp hpo hd -> NoEmpty hp -> IpWf hd ->
  forall u, reach03k u -> wfh u /\ HE u /\ PN u /\ reach03n dbg hp hpo hd u.
Proof.
  intros HRT HAb HNE HIPW u R. pose proof (HostRT_HostWf hp hpo hd HRT) as HW. pose proof (IpWf_IpDisp hd HIPW) as HIP.
  induction R as [input u Hu Hc Hp | p u Hb H | p u Hb H | u o u' R IH Ha G H].
  - pose proof (RN_parse dbg hp hpo hd input u Hu Hc Hp) as Rn.
    split; [exact (reach03a_wfh dbg hp hpo hd HW HIP u (reach03n_sub dbg hp hpo hd u Rn))|].
    split; [exact (parse_nonfile_he dbg hp hpo hd HRT HAb input u Hu Hc Hp)|].
    split; [exact (parse_nonfile_pn dbg hp hpo hd input u HRT HAb Hu Hc Hp) | exact Rn].
  - pose proof (from_file_path_wfh p u Hb H) as K. split; [exact K|].
    pose proof (RN_file dbg hp hpo hd p u Hb H) as Rn.
    split; [|split; [exact (reach03n_pn dbg hp hpo hd HRT HAb HIP u Rn) | exact Rn]].
    destruct (path_is_absolute p) eqn:Ea.
    + rewrite (from_file_path_spec p Hb Ea) in H. inversion H; subst u. exact (file_rec_he _ (proj1 K)).
    + rewrite (proj1 (from_file_path_rel p Ea)) in H. discriminate.
  - pose proof (from_directory_path_wfh p u Hb H) as K. split; [exact K|].
    pose proof (RN_dir dbg hp hpo hd p u Hb H) as Rn.
    split; [|split; [exact (reach03n_pn dbg hp hpo hd HRT HAb HIP u Rn) | exact Rn]].
    destruct (path_is_absolute p) eqn:Ea.
    + rewrite (from_directory_path_spec p Hb Ea) in H. inversion H; subst u. exact (file_rec_he _ (proj1 K)).
    + rewrite (proj2 (from_file_path_rel p Ea)) in H. discriminate.
  - destruct IH as (Ku & Hu & Pu & Rn).
    assert (known03 u o u' = false /\ (u' = u \/ excl03 u o u' = false)) as [G1 G2].
    { unfold known03k in G. unfold known03. apply andb_false_iff in G. destruct G as [G|G].
      - split; [rewrite G; reflexivity|]. left. apply negb_false_iff in G. exact (url_eqb_true03 _ _ G).
      - pose proof (excl03k_excl03 u o u' (he_auth_end u Ku Hu) G) as G'. split; [rewrite G'; apply andb_false_r | right; exact G']. }
    pose proof (RN_step dbg hp hpo hd u o u' Rn Ha G1 H) as Rn'.
    destruct G2 as [->|G2]; [split; [exact Ku|]; split; [exact Hu|]; split; [exact Pu | exact Rn']|].
    split; [exact (step03 dbg hp hpo hd HW u o u' HIP Ku Ha G2 H)|].
    split; [exact (he_step dbg hp hpo hd HW HNE HIPW u o u' Ku Ha G2 H Hu)|].
    split; [exact (pn_step dbg hp hpo hd HW u o u' HIP Ku Ha G2 H Pu) | exact Rn'].
Qed.
End Reach.

(* ---------- the hypotheses are met; a history through the special-scheme path setter ---------- *)
From Coq Require Import String.
From RU Require Import Proofs.C03_ReachEx.
Open Scope string_scope.

(* Host::parse fails on the empty text (EmptyHost); Host::parse_opaque returns the empty host *)
Definition ex_hp3 (s : list N) : result host := match s with [] => Err EmptyHost | _ => ex_hp s end.

Lemma ex3_hyps : (HostRT ex_hp3 ex_hp ex_hd2 /\ host_above ex_hp3 ex_hp ex_hd2) /\ NoEmpty ex_hp3 /\ IpWf ex_hd2.
Proof.
  destruct ex2_host_RT as [(A & B0 & C & D) (E & F)].
  assert (forall s h, ex_hp3 s = Ok h -> ex_hp s = Ok h /\ s <> []) as X.
  { intros s h H. destruct s as [|c r]; [discriminate|]. split; [exact H | discriminate]. }
  split; [split; [split; [|split; [exact B0 | split; [exact C | exact D]]] | split; [|exact F]]|split].
  - intros s h H Hne. destruct (X s h H) as [H' _]. destruct (A s h H' Hne) as [T R]. split; [exact T|].
    destruct (ex_hd2 h) as [|c r] eqn:Ed; [destruct T as (_ & T2 & _); contradiction | exact R].
  - intros s h H. exact (E s h (proj1 (X s h H))).
  - intros s H. destruct (X s _ H) as [H' Hs]. destruct s as [|c r]; [contradiction|].
    unfold ex_hp in H'. destruct (forallb ex_hostc (c :: r)); discriminate.
  - intros h Hh. destruct h as [d|a|p]; cbn in Hh; [contradiction | |]; cbn [ex_hd2];
      (split; [discriminate|]); (split; [discriminate|]); (split; [discriminate | reflexivity]).
Qed.

Ltac exk_step o tac :=
  match goal with R : reach03k ?d ?hp ?hpo ?hd ?u |- _ =>
    let E := fresh "E" in let u1 := fresh "u" in let E' := fresh "E" in
    destruct (apply_op d hp hpo hd u o) as [u1|] eqn:E; [|vm_compute in E; discriminate];
    pose proof E as E'; vm_compute in E'; injection E' as <-;
    match type of E with apply_op _ _ _ _ _ _ = Some ?u' =>
      let R' := fresh "R" in
      assert (reach03k d hp hpo hd u') as R'
        by (apply (RK_step d hp hpo hd u o u' R); [cbn [op_args_ok usv_opt]; tac | vm_compute; reflexivity | exact E]);
      clear R E
    end
  end.

(* parse "http://h:81/p?q"; set_path "x/../y" (the special-scheme path setter: auth_end_ok is used);
   quirks set_host "g:443" (stored: not the default of http); set_scheme "https" (443 is its default: dropped) *)
Definition reach03k_example_stmt : Prop :=
  exists u, reach03k true ex_hp3 ex_hp ex_hd2 u /\ ser u = B "https://g/y?q".

Lemma reach03k_example : reach03k_example_stmt.
Proof.
  destruct (parse_url true ex_hp3 ex_hp ex_hd2 None None (B "http://h:81/p?q")) as [u0| |] eqn:E0;
    [|vm_compute in E0; discriminate ..].
  assert (reach03k true ex_hp3 ex_hp ex_hd2 u0) as R0
    by (apply (RK_parse true ex_hp3 ex_hp ex_hd2 (B "http://h:81/p?q") u0); [usv_tac | vm_compute; reflexivity | exact E0]).
  vm_compute in E0. injection E0 as <-.
  exk_step (OSetPath (B "x/../y")) usv_tac.
  exk_step (OQHost (B "g:443")) usv_tac.
  exk_step (OSetScheme (B "https")) usv_tac.
  match goal with R : reach03k _ _ _ _ ?u |- _ => exists u end.
  split; [assumption | vm_compute; reflexivity].
Qed.
