(* Proofs/Idna_C10b_LongRej.v - every member of the class Known_C10_long is rejected: an all-ASCII name with a label
   that starts with xn-- and has more than PUNYCODE_DECODE_MAX_INPUT_LENGTH characters after it is never accepted by
   to_ascii (any adapter, any options).  So a result of to_ascii inside the class is never a fixed point: the
   exclusion of the class from the idempotence statement is necessary, not only sufficient. *)
From RU Require Import Base.Prelude Base.Utf8 Base.U32_c13 Gen.Tables Model.Punycode Model.Uts46
  Proofs.Idna_Sim Proofs.Idna_Api Proofs.Idna_Known Proofs.Idna_Hyp Proofs.Idna_Redisc
  Proofs.Idna_C10_Deny Proofs.Idna_C10_Prefix Proofs.Idna_C10_Inner Proofs.Idna_C10_Walk
  Proofs.Idna_C10b_Long Proofs.Idna_C10b_AsciiInner.

Section LongRej.
Variable A : adapter.
Variable cfg : bool.

Lemma label_step_long hy deny l s s' : Forall (fun b => b < 128) l -> long_puny_label l = true ->
  label_step A cfg true hy deny l s <> SOk s'.
Proof.
  intros Ha Hl. unfold long_puny_label in Hl. apply andb_true_iff in Hl. destruct Hl as [Hp Hlen].
  destruct (xn_prefix_spec l Ha Hp) as (a & b & t & El & _ & _).
  assert (H4 : 4 <= len l) by (unfold PUNYCODE_DECODE_MAX_INPUT_LENGTH in Hlen; lia).
  assert (Hpass : is_passthrough_ascii_label l = false).
  { unfold is_passthrough_ascii_label. replace (4 <=? len l) with true by lia. rewrite El. cbn [nth]. reflexivity. }
  unfold label_step. rewrite Hpass, andb_false_r.
  destruct l as [|x r]; [discriminate El|].
  rewrite label_nonempty_eq. unfold split_ascii_fast_path_prefix. rewrite (ascii_position _ Ha). rewrite Hp.
  replace (len (x :: r) - 4 <=? PUNYCODE_DECODE_MAX_INPUT_LENGTH) with false by lia.
  rewrite andb_false_r. cbn [sbind]. discriminate.
Qed.

Lemma labels_loop_long hy deny l labels : Forall (fun b => b < 128) l -> long_puny_label l = true -> In l labels ->
  forall s s', labels_loop A cfg true hy deny labels s <> SOk s'.
Proof.
  intros Ha Hl. induction labels as [|x r IH]; intros Hin s s' H; [destruct Hin|].
  cbn [labels_loop] in H. apply sbind_ok in H. destruct H as (s1 & H1 & H2).
  destruct Hin as [->|Hin]; [exact (label_step_long hy deny l s s1 Ha Hl H1)|exact (IH Hin s1 s' H2)].
Qed.

Lemma long_not_lower l : long_puny_label l = true -> Forall (fun b => b < 128) l -> ~ Forall lower_or_dot l.
Proof.
  intros Hl Ha H. unfold long_puny_label in Hl. apply andb_true_iff in Hl. destruct Hl as [Hp _].
  destruct (xn_prefix_spec l Ha Hp) as (a & b & t & -> & _ & _).
  inversion H as [|? ? _ H1]; subst. inversion H1 as [|? ? _ H2]; subst. inversion H2 as [|? ? H3 _]; subst.
  unfold lower_or_dot, DOT in H3. lia.
Qed.

Theorem long_rejected r deny hy dns b x : Forall (fun c => c < 128) r -> Known_C10_long r = true ->
  to_ascii A cfg r deny hy dns <> Ok (b, x).
Proof.
  intros Ha Hk H. apply to_ascii_dns_ignore in H.
  assert (Hb : bytes r) by (unfold bytes; eapply Forall_impl; [|exact Ha]; unfold is_byte; cbv beta; intros; lia).
  unfold Known_C10_long in Hk. apply existsb_exists in Hk. destruct Hk as (l & Hin & Hl).
  pose proof (split_on_Forall (fun c => c < 128) DOT r Ha) as Hls. rewrite Forall_forall in Hls.
  pose proof (Hls l Hin) as Hal.
  assert (Hne : r <> []).
  { intros ->. cbn in Hin. destruct Hin as [<-|[]]. discriminate Hl. }
  assert (Hexit : forall ptu bd he db ap, process_inner A cfg true hy deny r = IRes ptu bd he db ap ->
                    IRes ptu bd he db ap = I_EXIT).
  { intros ptu bd he db ap Ei. unfold process_inner in Ei. destruct (fast_tier r r) as [tail|] eqn:Ef.
    - assert (Hint : In l (split_on DOT tail)).
      { destruct (fast_tier_tail r Hb r tail Ef) as [->|(pre & Hd & Hp)]; [exact Hin|].
        rewrite Hd, split_on_app_dot in Hin. apply in_app_or in Hin. destruct Hin as [Hin|Hin]; [|exact Hin].
        pose proof (split_on_Forall lower_or_dot DOT pre Hp) as Hq. rewrite Forall_forall in Hq.
        contradiction (long_not_lower l Hl Hal (Hq l Hin)). }
      unfold process_innermost in Ei.
      match type of Ei with context [labels_loop ?a ?b ?c ?d ?e ?f ?g] =>
        pose proof (labels_loop_long d e l f Hal Hl Hint g) as Hno;
        destruct (labels_loop a b c d e f g) as [s1| |p] end.
      + contradiction (Hno s1 eq_refl).
      + symmetry. exact Ei.
      + discriminate Ei.
    - pose proof (fast_tier_none r Hb r Ef) as Hlow.
      pose proof (split_on_Forall lower_or_dot DOT r Hlow) as Hq. rewrite Forall_forall in Hq.
      contradiction (long_not_lower l Hl Hal (Hq l Hin)). }
  destruct (process_inner A cfg true hy deny r) as [ptu bd he db ap|s] eqn:Ei.
  - pose proof (Hexit _ _ _ _ _ eq_refl) as E. rewrite E in Ei.
    rewrite (ta_of_exit A cfg r deny hy DIgnore Ei Hne) in H. discriminate.
  - unfold to_ascii, process in H. rewrite Ei in H. discriminate.
Qed.
End LongRej.
