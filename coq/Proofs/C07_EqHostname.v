(* Proofs/C07_EqHostname.v - C07 equivalence for the hostname setter on URLs whose scheme is not "file":
   on every pair of records related by corrS, for every value outside classes 2, 3, 4 of Known_C07
   (':' outside brackets in the value, F-C07-1; a URL without host whose path starts with "//",
   F-C07-2; file URLs, F-C07-10), url::quirks::set_hostname does not panic and leaves a record
   related to the result of the Standard's hostname attribute setter (host state with the state
   override "hostname state").  The host parsers of the two sides are arbitrary functions that agree
   (host_fns_ok): same success, same text, the text is empty for the empty host and otherwise starts
   with neither ':' nor '@', and the empty host is the result exactly for the empty string. *)
From RU Require Import Base.Prelude Base.Utf8 Base.Utf8Facts Model.AsciiSet Gen.Tables Model.PercentEncoding
  Model.HostT Model.UrlRecord Model.Parser Model.Setters Model.WF Model.KnownC01 Model.KnownC07 Spec.Whatwg
  Proofs.ListN Proofs.C03_WF Proofs.C06_List Proofs.C06_WFI Proofs.C06_Tail Proofs.C06_Suffix Proofs.C06_Front
  Proofs.C06_Steps Proofs.C06_FragQuery Proofs.C06_Port Proofs.C06_Host Proofs.C08_Input
  Proofs.C02_Enc Proofs.C01_Tables Proofs.C01_EqRun Proofs.C01_EqEnc Proofs.C01_EqApi Proofs.C01_EqAuthSpec
  Proofs.C07_Defs Proofs.C07_Setters Proofs.C07_Corr Proofs.C07_SpecRun Proofs.C07_EqCred Proofs.C07_EqPort
  Proofs.C07_SpecProto Proofs.C07_EqProto Proofs.C07_SpecHost Proofs.C07_EqHostLayout.

(* ---------- the host functions of the two sides ---------- *)
Definition host_fn_ok (hf : list N -> result host) (hd : host -> list N)
           (shp : bool -> list N -> option spec_host) (shs : spec_host -> list N) (o : bool) : Prop :=
  forall s, match hf s, host_parsing shp o s with
            | Ok h, Some sh => hd h = shs sh /\ host_disp_ok hd h
                               /\ (h = HDomain [] <-> sh = SEmpty) /\ (h = HDomain [] <-> s = [])
            | Err _, None => True
            | _, _ => False
            end.
Definition host_fns_ok (hp ho : list N -> result host) (hd : host -> list N)
           (shp : bool -> list N -> option spec_host) (shs : spec_host -> list N) : Prop :=
  host_fn_ok hp hd shp shs false /\ host_fn_ok ho hd shp shs true.

Lemma host_fns_empty_only hp ho hd shp shs : host_fns_ok hp ho hd shp shs -> empty_only shp.
Proof.
  intros [H0 H1] o s E. destruct o.
  - specialize (H1 s). rewrite E in H1. destruct (ho s) as [h|e]; [|contradiction].
    destruct H1 as (_ & _ & A & B). apply B. apply A. reflexivity.
  - specialize (H0 s). rewrite E in H0. destruct (hp s) as [h|e]; [|contradiction].
    destruct H0 as (_ & _ & A & B). apply B. apply A. reflexivity.
Qed.

Lemma hi_none_iff' h : hi_of_host h = HI_None <-> h = HDomain [].
Proof. destruct h as [[|a b]| |]; cbn; split; intros H; try reflexivity; try discriminate H. Qed.

Lemma hi_some_false_iff h : hi_some (hi_of_host h) = false <-> h = HDomain [].
Proof.
  rewrite <- hi_none_iff'. destruct (hi_of_host h); cbn; split; intros H; try reflexivity; try discriminate H.
Qed.

(* ---------- related records are tight, with or without a host ---------- *)
Lemma corr_tight_all dbg shs u su : corr dbg shs u su -> has_authority_b u = true -> tight u.
Proof.
  intros C Ha. destruct (has_host u) eqn:Hh; [exact (corr_tight dbg shs u su C Hh)|].
  intros Heq. pose proof (co_wf _ _ _ _ C) as W.
  destruct (byte_eqb (ser u) (username_end u) 64) eqn:B; [exfalso|reflexivity].
  pose proof W as W0. apply wf_b_iff in W0. rewrite Ha in W0.
  destruct W0 as (_ & ((_ & _ & _ & _ & _ & UI & Hn & P) & PS) & _).
  assert (hosti u = HI_None) as Ehi by (unfold has_host in Hh; destruct (hosti u); [reflexivity | discriminate ..]).
  specialize (Hn Ehi).
  destruct UI as [(U1 & U2 & U3)|[(U1 & U2 & U3)|(U1 & U2)]].
  - (* no userinfo: the byte after the (empty) host is ':' of a port or the start of the path *)
    rewrite U1, Hn in B. unfold port_ok in P. destruct (port u) as [p|].
    + destruct P as (P1 & _). rewrite (byte_eqb_excl _ _ 58 64) in B by (try lia; exact P1). discriminate B.
    + rewrite <- P in B. destruct PS as [PS|[PS|[PS|PS]]].
      * apply byte_eqb_true_iff in B. apply nnth_lt in B. lia.
      * rewrite (byte_eqb_excl _ _ 47 64) in B by (try lia; exact PS). discriminate B.
      * rewrite (byte_eqb_excl _ _ 63 64) in B by (try lia; exact PS). discriminate B.
      * rewrite (byte_eqb_excl _ _ 35 64) in B by (try lia; exact PS). discriminate B.
  - rewrite (byte_eqb_excl _ _ 64 58) in U1 by (try lia; exact B). discriminate U1.
  - (* "//@": the '@' is there but both credentials are empty *)
    pose proof (co_at _ _ _ _ C) as At. rewrite Ha in At.
    replace (username_end u =? host_start u) with false in At by lia. cbn [andb negb] in At.
    pose proof (co_user _ _ _ _ C) as Eun. rewrite (username_eval dbg u W) in Eun. injection Eun as Eun.
    cbn [pidx] in Eun. rewrite Ha, Heq, piece_empty in Eun.
    pose proof (co_pass _ _ _ _ C) as Epw. rewrite (password_piece dbg u W) in Epw. injection Epw as Epw.
    assert (has_password_b u = false) as Hp.
    { unfold has_password_b. rewrite (byte_eqb_excl _ _ 64 58) by (try lia; exact B). apply andb_false_r. }
    rewrite Hp in Epw. unfold includes_credentials in At. rewrite <- Eun in At.
    destruct (su_password su); [discriminate At | discriminate Epw].
Qed.


(* ---------- the accessors behind the ten API strings ---------- *)
Lemma api_parts dbg u l : api_of_model dbg u = Some l ->
  exists pr un pw h hn po pa se ha,
    username dbg u = Some un /\ q_password dbg u = Some pw /\ q_port dbg u = Some po
    /\ l = [q_href u; pr; un; pw; h; hn; po; pa; se; ha].
Proof.
  unfold api_of_model, q_username. intros H.
  repeat match type of H with bindo ?x _ = Some _ => destruct x eqn:?; cbn [bindo] in H; [|discriminate H] end.
  injection H as <-. do 9 eexists. repeat split; reflexivity.
Qed.

Lemma dec_digits_ne fuel : forall n acc, acc <> [] -> dec_digits fuel n acc <> [].
Proof.
  induction fuel as [|f IH]; intros n acc H; cbn [dec_digits]; [exact H|].
  destruct (n <? 10); [discriminate | apply IH; discriminate].
Qed.

Lemma serialize_integer_ne p : serialize_integer p <> [].
Proof. unfold serialize_integer. cbn [dec_digits]. destruct (p <? 10); [discriminate | apply dec_digits_ne; discriminate]. Qed.

Definition nilb (l : list N) : bool := match l with [] => true | _ => false end.

(* the three texts that the code inspects before it accepts an empty host *)
Lemma corr_cred_port_texts dbg shs u su : corr dbg shs u su ->
  exists po un pw, q_port dbg u = Some po /\ username dbg u = Some un /\ q_password dbg u = Some pw
    /\ negb (nilb po) || negb (nilb un) || negb (nilb pw) = includes_credentials su || opt_is_some (su_port su).
Proof.
  intros C. pose proof (corr_api dbg shs u su C) as A. change (model_api dbg u) with (api_of_model dbg u) in A.
  destruct (api_parts dbg u _ A) as (pr & un & pw & h & hn & po & pa & se & ha & E1 & E2 & E3 & El).
  unfold spec_api_list in El. inversion El; subst.
  exists (get_port su), (get_username su), (get_password su). split; [exact E3|]. split; [exact E1|]. split; [exact E2|].
  unfold get_port, get_username, get_password, includes_credentials.
  destruct (su_port su) as [p|]; cbn [opt_is_some nilb negb orb].
  - pose proof (serialize_integer_ne p) as Hne. destruct (serialize_integer p); [contradiction|].
    cbn [nilb negb orb]. rewrite orb_true_r. reflexivity.
  - rewrite orb_false_r. destruct (su_username su); destruct (su_password su); reflexivity.
Qed.

Section Hostname.
Variable dbg : bool.
Variable hp ho : list N -> result host.
Variable hd : host -> list N.
Variable shp : bool -> list N -> option spec_host.
Variable shs : spec_host -> list N.

Notation corr := (corr dbg shs).

(* the host of a related pair is replaced on both sides *)
Lemma corr_set_host u su h sh : corr u su -> has_opaque_path su = false ->
  hd h = shs sh -> host_disp_ok hd h -> (h = HDomain [] <-> sh = SEmpty) ->
  (h = HDomain [] -> su_port su = None) ->
  (has_host u = false -> starts_with s_ss (serialize_path su) = false) ->
  exists u', set_host_internal dbg hd u h None = Some u' /\ corr u' (Whatwg.set_host su (Some sh)).
Proof.
  intros C Hop Etxt Hdo Hem Hpo Hk3. pose proof (co_wf _ _ _ _ C) as W. pose proof (co_ht _ _ _ _ C) as HT.
  (* not an opaque path: the byte after ':' is '/' *)
  assert (byte_eqb (ser u) (scheme_end u + 1) 47 = true) as Hsl.
  { pose proof (co_opaque _ _ _ _ C) as Eo. rewrite Hop in Eo. unfold is_opaque_b in Eo.
    apply negb_false_iff in Eo. exact Eo. }
  (* without authority there is no "/." marker (class 3 is excluded) *)
  assert (has_authority_b u = false -> path_start u = scheme_end u + 1) as Hx2.
  { intros Ha. pose proof (wf_noauth_facts u W Ha) as F. destruct (nf_ps F) as [E|(E & _)]; [exact E|exfalso].
    pose proof (co_marker _ _ _ _ C) as Em. rewrite Ha in Em. cbn [negb andb] in Em.
    replace (path_start u =? scheme_end u + 3) with true in Em by lia.
    assert (has_host u = false) as Hh by (unfold has_host; rewrite (nf_host F); reflexivity).
    specialize (Hk3 Hh). unfold spec_marker in Em. unfold serialize_path in Hk3.
    destruct (su_host su); [discriminate Em|]. destruct (su_path su) as [p|[|p0 [|p1 pr]]]; try discriminate Em.
    destruct p0; [|discriminate Em]. discriminate Hk3. }
  assert (has_authority_b u = true -> hi_of_host h = HI_None -> port u = None) as Hx1.
  { intros _ Hh. rewrite (co_port _ _ _ _ C). apply Hpo. apply hi_none_iff'. exact Hh. }
  destruct (set_host_internal_ok dbg hd u h W Hdo Hx1 (fun Ha => conj (Hx2 Ha) Hsl))
    as (u' & E & W' & HT' & F1 & F2 & F3 & F5 & (B1 & B2 & B3) & F4 & Fhi).
  exists u'. split; [exact E|].
  (* the shape of u': an authority, and no "//@" *)
  assert (has_authority_b u' = true /\ tight u') as [Ha' T'].
  { rewrite (set_host_internal_eval dbg hd u h W Hx2) in E. injection E as E. subst u'.
    destruct (host_disp_ok_cases _ _ Hdo) as [(Ehi & Ed)|(Ehi & Hcr)]; destruct (has_authority_b u) eqn:Ha.
    - assert (port u = None) as Ep.
      { apply Hx1; [reflexivity|]. destruct (hi_of_host h); [reflexivity | discriminate ..]. }
      split; [apply wha_has_authority; assumption|].
      apply wha_tight; [assumption | assumption | left; auto | exact (corr_tight_all dbg shs u su C Ha)].
    - split; [apply whn_has_authority; auto|]. apply whn_tight; auto.
    - split; [apply wha_has_authority; assumption|].
      apply wha_tight; [assumption | assumption | right; auto | exact (corr_tight_all dbg shs u su C Ha)].
    - split; [apply whn_has_authority; auto|]. apply whn_tight; auto. }
  assert (has_host u' = hi_some (hi_of_host h)) as Ehh'.
  { unfold has_host. rewrite Fhi. destruct (hi_of_host h); reflexivity. }
  constructor; cbn [Whatwg.set_host su_scheme su_username su_password su_host su_port su_path su_query su_fragment].
  - exact W'.
  - exact HT'.
  - rewrite F1. exact (co_scheme _ _ _ _ C).
  - rewrite F2. exact (co_user _ _ _ _ C).
  - rewrite F3. exact (co_pass _ _ _ _ C).
  - rewrite F4. cbn [host_text option_map serialize_host_opt]. rewrite <- Etxt.
    destruct (hi_some (hi_of_host h)) eqn:Ehs; [reflexivity|]. cbn [optl].
    unfold host_disp_ok in Hdo. destruct (hi_of_host h); try discriminate Ehs. rewrite Hdo. reflexivity.
  - rewrite Ehh'. cbn [host_is_null orb].
    destruct (hi_some (hi_of_host h)) eqn:Ehs.
    + destruct sh; try reflexivity. exfalso.
      assert (h = HDomain []) as Eh by (apply Hem; reflexivity).
      apply hi_some_false_iff in Eh. congruence.
    + apply hi_some_false_iff in Ehs. apply Hem in Ehs. subst sh. reflexivity.
  - exact Ha'.
  - rewrite Ha'. cbn [andb].
    rewrite (at_flag_by_accessors dbg u' _ _ W' Ha' T'
               (eq_trans F2 (co_user _ _ _ _ C)) (eq_trans F3 (co_pass _ _ _ _ C))).
    rewrite opt_is_some_pw_opt. reflexivity.
  - rewrite F5. exact (co_port _ _ _ _ C).
  - rewrite B1. exact (co_path _ _ _ _ C).
  - rewrite B2. exact (co_query _ _ _ _ C).
  - rewrite B3. exact (co_frag _ _ _ _ C).
  - rewrite Ha'. reflexivity.
  - pose proof (co_path _ _ _ _ C) as Ept.
    assert (path u' = Some (serialize_path su)) as Ept' by (rewrite B1; exact Ept).
    rewrite (is_opaque_by_path u' _ W' Ept'), Ha'. cbn [negb andb].
    unfold has_opaque_path in *. cbn [Whatwg.set_host su_path]. symmetry. exact Hop.
  - exact (co_uclean _ _ _ _ C).
Qed.

Theorem hostname_step u su v : host_fns_ok hp ho hd shp shs -> corr u su ->
  known_c07 u QHostname v = 0 ->
  exists u' su', option_map fst (q_set_hostname dbg hp ho hd u v) = Some u' /\ spec_step shp QHostname su v = Some su'
    /\ corr u' su'.
Proof.
  intros HF C Hk. pose proof (co_wf _ _ _ _ C) as W.
  pose proof (cannot_be_a_base_eval u W) as Ecb.
  change (negb (byte_eqb (ser u) (scheme_end u + 1) 47)) with (is_opaque_b u) in Ecb.
  rewrite (co_opaque _ _ _ _ C) in Ecb.
  unfold spec_step. cbn [setter_of_q].
  destruct (has_opaque_path su) eqn:Hop.
  { unfold q_set_hostname. rewrite Ecb. cbn [bindo option_map fst spec_set]. rewrite Hop.
    exists u, su. split; [reflexivity|]. split; [reflexivity | exact C]. }
  (* outside Known_C07: not a file URL, no "//" path without host, no ':' outside brackets *)
  unfold known_c07, u_cbb, u_scheme_or_empty, u_path_or_empty in Hk.
  rewrite Ecb, (co_scheme _ _ _ _ C), (co_path _ _ _ _ C), orb_false_r in Hk.
  destruct (list_eqb (su_scheme su) s_file) eqn:Ef; [discriminate Hk|].
  destruct (negb (has_host u) && starts_with s_ss (serialize_path su)) eqn:E3; [discriminate Hk|].
  destruct (host_colon (no_tnl v) (st_is_special (scheme_type_of (su_scheme su)))) eqn:E2; [discriminate Hk|]. clear Hk.
  change s_file with str_file in Ef.
  assert (has_host u = false -> starts_with s_ss (serialize_path su) = false) as Hk3.
  { intros Hh. rewrite Hh in E3. exact E3. }
  rewrite (spec_hostname_closed shp su v Ef), Hop.
  pose proof (special_schemes_are_the_standards (su_scheme su)) as Esp. fold (is_special su) in Esp.
  set (sp := is_special su) in *.
  pose proof (host_scan_fst sp v false []) as Hfst. cbn [rev] in Hfst.
  pose proof (hscan_colon sp (ntnl v) false []) as Hcol.
  unfold host_colon in E2. rewrite Esp in E2. change (no_tnl v) with (ntnl v) in E2. rewrite E2 in Hcol.
  change (notnl v) with (ntnl v).
  destruct (hscan sp false [] (ntnl v)) as [buf flag] eqn:Ehs. cbn [fst snd] in Hfst, Hcol. subst flag.
  cbn [hostname_decide]. fold sp.
  (* the model: up to the host parser *)
  assert (st_is_file (scheme_type_of (su_scheme su)) = false) as Enf by (rewrite file_test_same; exact Ef).
  assert (scheme_type_eqb (scheme_type_of (su_scheme su)) STFile = false
          /\ scheme_type_eqb (scheme_type_of (su_scheme su)) STSpecialNotFile = sp) as [Enf' Esnf].
  { rewrite <- Esp. destruct (scheme_type_of (su_scheme su)); [discriminate Enf | split; reflexivity | split; reflexivity]. }
  unfold q_set_hostname. rewrite Ecb. cbn [bindo]. rewrite (co_scheme _ _ _ _ C). cbn [bindo].
  rewrite Enf'. cbn [andb]. unfold parse_host, input_new_no_trim. rewrite Enf, Esp, Esnf.
  destruct (host_scan sp false [] v) as [h rem] eqn:Escan. cbn [fst] in Hfst. subst h.
  replace (if negb sp then host <~ of_result (ho buf);; POk (host, rem) else host <~ of_result (hp buf);; POk (host, rem))
    with (host <~ of_result (if negb sp then ho buf else hp buf);; POk (host, rem)) by (destruct sp; reflexivity).
  assert (match (if negb sp then ho buf else hp buf), host_parsing shp (negb sp) buf with
          | Ok h, Some sh => hd h = shs sh /\ host_disp_ok hd h
                             /\ (h = HDomain [] <-> sh = SEmpty) /\ (h = HDomain [] <-> buf = [])
          | Err _, None => True
          | _, _ => False
          end) as K1.
  { destruct HF as [H0 H1]. destruct sp; [apply H0 | apply H1]. }
  destruct buf as [|b0 br].
  - (* empty host text *)
    change (C01_EqAuthSpec.is_nil (@nil N)) with true. rewrite andb_true_r. cbn [andb].
    destruct sp; cbn [negb] in *.
    { cbn [pres_ok bindo option_map fst]. exists u, su. split; [reflexivity|]. split; [reflexivity | exact C]. }
    destruct (ho []) as [hh|e] eqn:Eho; destruct (host_parsing shp true []) as [sh|] eqn:Ehp; try contradiction.
    + destruct K1 as (Kt & Kd & Ke & Ks).
      assert (hh = HDomain []) as -> by (apply Ks; reflexivity).
      assert (sh = SEmpty) as -> by (apply Ke; reflexivity).
      cbn [of_result pbind pres_ok bindo].
      destruct (corr_cred_port_texts dbg shs u su C) as (po & un & pw & Epo & Eun & Epw & Erej).
      rewrite Epo, Eun, Epw. cbn [bindo orb].
      change (match po with [] => true | _ => false end) with (nilb po).
      change (match un with [] => true | _ => false end) with (nilb un).
      change (match pw with [] => true | _ => false end) with (nilb pw).
      rewrite Erej.
      destruct (includes_credentials su || opt_is_some (su_port su)) eqn:Ecp.
      * cbn [option_map fst]. exists u, su. split; [reflexivity|]. split; [reflexivity | exact C].
      * destruct (corr_set_host u su (HDomain []) SEmpty C Hop Kt Kd Ke) as (u' & E & C'); [|exact Hk3|].
        { intros _. apply orb_false_iff in Ecp. destruct Ecp as [_ B]. destruct (su_port su); [discriminate B | reflexivity]. }
        rewrite E. cbn [bindo option_map fst]. exists u'. eexists. split; [reflexivity|]. split; [reflexivity | exact C'].
    + cbn [of_result pbind pres_ok bindo option_map fst]. exists u, su. split; [reflexivity|]. split; [|exact C].
      destruct (includes_credentials su || opt_is_some (su_port su)); reflexivity.
  - (* a host text *)
    change (C01_EqAuthSpec.is_nil (b0 :: br)) with false. rewrite !andb_false_r. cbn [andb].
    destruct (if negb sp then ho (b0 :: br) else hp (b0 :: br)) as [hh|e] eqn:Eho;
      destruct (host_parsing shp (negb sp) (b0 :: br)) as [sh|] eqn:Ehp; try contradiction.
    + destruct K1 as (Kt & Kd & Ke & Ks).
      assert (hh <> HDomain []) as Hne by (intros X; apply Ks in X; discriminate X).
      cbn [of_result pbind pres_ok bindo].
      assert ((match hh with
               | HDomain [] =>
                   p <- q_port dbg u;; un <- username dbg u;; pw <- q_password dbg u;;
                   Some (sp || negb match p with [] => true | _ :: _ => false end
                            || negb match un with [] => true | _ :: _ => false end
                            || negb match pw with [] => true | _ :: _ => false end)
               | _ => Some false end) = Some false) as Erej.
      { destruct hh as [[|d0 dr]| |]; [exfalso; apply Hne; reflexivity | reflexivity ..]. }
      rewrite Erej. cbn [bindo].
      destruct (corr_set_host u su hh sh C Hop Kt Kd Ke) as (u' & E & C'); [|exact Hk3|].
      { intros X. exfalso. exact (Hne X). }
      rewrite E. cbn [bindo option_map fst]. exists u'. eexists. split; [reflexivity|]. split; [reflexivity | exact C'].
    + cbn [of_result pbind pres_ok bindo option_map fst]. exists u, su. split; [reflexivity|]. split; [reflexivity | exact C].
Qed.

(* with the invariants *)
Theorem hostname_stepS u su v : host_fns_ok hp ho hd shp shs -> corr u su -> sane su ->
  known_c07 u QHostname v = 0 ->
  exists u' su', option_map fst (q_set_hostname dbg hp ho hd u v) = Some u' /\ spec_step shp QHostname su v = Some su'
    /\ corr u' su' /\ sane su'.
Proof.
  intros HF C S Hk. destruct (hostname_step u su v HF C Hk) as (u' & su' & A & B & C').
  exists u', su'. split; [exact A|]. split; [exact B|]. split; [exact C'|].
  unfold spec_step in B. cbn [setter_of_q] in B.
  destruct (spec_set shp SetHostname su v) as [x|] eqn:E; [|discriminate B]. injection B as <-.
  destruct (has_opaque_path su) eqn:Hop.
  { cbn [spec_set] in E. rewrite Hop in E. injection E as <-. exact S. }
  (* not a file URL: class 4 *)
  pose proof (co_wf _ _ _ _ C) as W. pose proof (cannot_be_a_base_eval u W) as Ecb.
  change (negb (byte_eqb (ser u) (scheme_end u + 1) 47)) with (is_opaque_b u) in Ecb.
  rewrite (co_opaque _ _ _ _ C), Hop in Ecb.
  unfold known_c07, u_cbb, u_scheme_or_empty in Hk. rewrite Ecb, (co_scheme _ _ _ _ C) in Hk.
  destruct (list_eqb (su_scheme su) s_file) eqn:Ef; [discriminate Hk|]. change s_file with str_file in Ef.
  exact (spec_hostname_sane shp su v x (host_fns_empty_only hp ho hd shp shs HF) Ef S E).
Qed.

End Hostname.
