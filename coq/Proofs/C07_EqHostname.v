(* Proofs/C07_EqHostname.v - C07 equivalence for the hostname setter on URLs whose scheme is not "file":
   on every pair of records related by corrS, for every value outside classes 2, 3, 4 of Known_C07
   (':' outside brackets in the value, F-C07-1; a URL without host whose path starts with "//",
   F-C07-2; file URLs, F-C07-10), url::quirks::set_hostname does not panic and leaves a record
   related to the result of the Standard's hostname attribute setter (host state with the state
   override "hostname state").  The host parsers of the two sides are arbitrary functions that agree
   (host_fns_ok): same success, same text, the text is empty for the empty host and otherwise starts
   with neither ':' nor '@', and the empty host is the result exactly for the empty string. *)
From RU Require Import Base.Prelude Base.Utf8 Base.Utf8Facts Model.AsciiSet Gen.Tables Model.PercentEncoding
  Model.HostT Model.UrlRecord Model.Parser Model.Setters Model.WF Model.KnownC01 Model.KnownC07 Spec.Whatwg
  Proofs.ListN Proofs.C03_WF Proofs.C06_List Proofs.C06_WFI Proofs.C06_Tail Proofs.C06_Suffix Proofs.C06_Front
  Proofs.C06_Steps Proofs.C06_FragQuery Proofs.C06_Port Proofs.C06_Host Proofs.C08_Input
  Proofs.C02_Enc Proofs.C01_Tables Proofs.C01_EqRun Proofs.C01_EqEnc Proofs.C01_EqApi Proofs.C01_EqAuthSpec
  Proofs.C07_Defs Proofs.C07_Setters Proofs.C07_Corr Proofs.C07_SpecRun Proofs.C07_EqCred Proofs.C07_EqPort
  Proofs.C07_SpecProto Proofs.C07_EqProto Proofs.C07_SpecHost Proofs.C07_EqHostLayout.

(* ---------- the host functions of the two sides ---------- *)
Definition host_fn_ok (hf : list N -> result host) (hd : host -> list N)
           (shp : bool -> list N -> option spec_host) (shs : spec_host -> list N) (o : bool) : Prop :=
  forall s, match hf s, host_parsing shp o s with
            | Ok h, Some sh => hd h = shs sh /\ host_disp_ok hd h
                               /\ (h = HDomain [] <-> sh = SEmpty) /\ (h = HDomain [] <-> s = [])
            | Err _, None => True
            | _, _ => False
            end.
Definition host_fns_ok (hp ho : list N -> result host) (hd : host -> list N)
           (shp : bool -> list N -> option spec_host) (shs : spec_host -> list N) : Prop :=
  host_fn_ok hp hd shp shs false /\ host_fn_ok ho hd shp shs true.

Lemma host_fns_empty_only hp ho hd shp shs : host_fns_ok hp ho hd shp shs -> empty_only shp.
Proof.
  intros [H0 H1] o s E. destruct o.
  - specialize (H1 s). rewrite E in H1. destruct (ho s) as [h|e]; [|contradiction].
    destruct H1 as (_ & _ & A & B). apply B. apply A. reflexivity.
  - specialize (H0 s). rewrite E in H0. destruct (hp s) as [h|e]; [|contradiction].
    destruct H0 as (_ & _ & A & B). apply B. apply A. reflexivity.
Qed.

Lemma hi_none_iff' h : hi_of_host h = HI_None <-> h = HDomain [].
Proof. destruct h as [[|a b]| |]; cbn; split; intros H; try reflexivity; try discriminate H. Qed.

Lemma hi_some_false_iff h : hi_some (hi_of_host h) = false <-> h = HDomain [].
Proof.
  rewrite <- hi_none_iff'. destruct (hi_of_host h); cbn; split; intros H; try reflexivity; try discriminate H.
Qed.

(* ---------- related records are tight, with or without a host ---------- *)
Lemma corr_tight_all dbg shs u su : corr dbg shs u su -> has_authority_b u = true -> tight u.
Proof.
  intros C Ha. destruct (has_host u) eqn:Hh; [exact (corr_tight dbg shs u su C Hh)|].
  intros Heq. pose proof (co_wf _ _ _ _ C) as W.
  destruct (byte_eqb (ser u) (username_end u) 64) eqn:B; [exfalso|reflexivity].
  pose proof W as W0. apply wf_b_iff in W0. rewrite Ha in W0.
  destruct W0 as (_ & ((_ & _ & _ & _ & _ & UI & Hn & P) & PS) & _).
  assert (hosti u = HI_None) as Ehi by (unfold has_host in Hh; destruct (hosti u); [reflexivity | discriminate ..]).
  specialize (Hn Ehi).
  destruct UI as [(U1 & U2 & U3)|[(U1 & U2 & U3)|(U1 & U2)]].
  - (* no userinfo: the byte after the (empty) host is ':' of a port or the start of the path *)
    rewrite U1, Hn in B. unfold port_ok in P. destruct (port u) as [p|].
    + destruct P as (P1 & _). rewrite (byte_eqb_excl _ _ 58 64) in B by (try lia; exact P1). discriminate B.
    + rewrite <- P in B. destruct PS as [PS|[PS|[PS|PS]]].
      * apply byte_eqb_true_iff in B. apply nnth_lt in B. lia.
      * rewrite (byte_eqb_excl _ _ 47 64) in B by (try lia; exact PS). discriminate B.
      * rewrite (byte_eqb_excl _ _ 63 64) in B by (try lia; exact PS). discriminate B.
      * rewrite (byte_eqb_excl _ _ 35 64) in B by (try lia; exact PS). discriminate B.
  - rewrite (byte_eqb_excl _ _ 64 58) in U1 by (try lia; exact B). discriminate U1.
  - (* "//@": the '@' is there but both credentials are empty *)
    pose proof (co_at _ _ _ _ C) as At. rewrite Ha in At.
    replace (username_end u =? host_start u) with false in At by lia. cbn [andb negb] in At.
    pose proof (co_user _ _ _ _ C) as Eun. rewrite (username_eval dbg u W) in Eun. injection Eun as Eun.
    cbn [pidx] in Eun. rewrite Ha, Heq, piece_empty in Eun.
    pose proof (co_pass _ _ _ _ C) as Epw. rewrite (password_piece dbg u W) in Epw. injection Epw as Epw.
    assert (has_password_b u = false) as Hp.
    { unfold has_password_b. rewrite (byte_eqb_excl _ _ 64 58) by (try lia; exact B). apply andb_false_r. }
    rewrite Hp in Epw. unfold includes_credentials in At. rewrite <- Eun in At.
    destruct (su_password su); [discriminate At | discriminate Epw].
Qed.

Section Hostname.
Variable dbg : bool.
Variable hp ho : list N -> result host.
Variable hd : host -> list N.
Variable shp : bool -> list N -> option spec_host.
Variable shs : spec_host -> list N.

Notation corr := (corr dbg shs).

(* the host of a related pair is replaced on both sides *)
Lemma corr_set_host u su h sh : corr u su -> has_opaque_path su = false ->
  hd h = shs sh -> host_disp_ok hd h -> (h = HDomain [] <-> sh = SEmpty) ->
  (h = HDomain [] -> su_port su = None) ->
  (has_host u = false -> starts_with s_ss (serialize_path su) = false) ->
  exists u', set_host_internal dbg hd u h None = Some u' /\ corr u' (Whatwg.set_host su (Some sh)).
Proof.
  intros C Hop Etxt Hdo Hem Hpo Hk3. pose proof (co_wf _ _ _ _ C) as W. pose proof (co_ht _ _ _ _ C) as HT.
  (* not an opaque path: the byte after ':' is '/' *)
  assert (byte_eqb (ser u) (scheme_end u + 1) 47 = true) as Hsl.
  { pose proof (co_opaque _ _ _ _ C) as Eo. rewrite Hop in Eo. unfold is_opaque_b in Eo.
    apply negb_false_iff in Eo. exact Eo. }
  (* without authority there is no "/." marker (class 3 is excluded) *)
  assert (has_authority_b u = false -> path_start u = scheme_end u + 1) as Hx2.
  { intros Ha. pose proof (wf_noauth_facts u W Ha) as F. destruct (nf_ps F) as [E|(E & _)]; [exact E|exfalso].
    pose proof (co_marker _ _ _ _ C) as Em. rewrite Ha in Em. cbn [negb andb] in Em.
    replace (path_start u =? scheme_end u + 3) with true in Em by lia.
    assert (has_host u = false) as Hh by (unfold has_host; rewrite (nf_host F); reflexivity).
    specialize (Hk3 Hh). unfold spec_marker in Em. unfold serialize_path in Hk3.
    destruct (su_host su); [discriminate Em|]. destruct (su_path su) as [p|[|p0 [|p1 pr]]]; try discriminate Em.
    destruct p0; [|discriminate Em]. discriminate Hk3. }
  assert (has_authority_b u = true -> hi_of_host h = HI_None -> port u = None) as Hx1.
  { intros _ Hh. rewrite (co_port _ _ _ _ C). apply Hpo. apply hi_none_iff'. exact Hh. }
  destruct (set_host_internal_ok dbg hd u h W Hdo Hx1 (fun Ha => conj (Hx2 Ha) Hsl))
    as (u' & E & W' & HT' & F1 & F2 & F3 & F5 & (B1 & B2 & B3) & F4 & Fhi).
  exists u'. split; [exact E|].
  (* the shape of u': an authority, and no "//@" *)
  assert (has_authority_b u' = true /\ tight u') as [Ha' T'].
  { rewrite (set_host_internal_eval dbg hd u h W Hx2) in E. injection E as E. subst u'.
    destruct (host_disp_ok_cases _ _ Hdo) as [(Ehi & Ed)|(Ehi & Hcr)]; destruct (has_authority_b u) eqn:Ha.
    - assert (port u = None) as Ep.
      { apply Hx1; [reflexivity|]. destruct (hi_of_host h); [reflexivity | discriminate ..]. }
      split; [apply wha_has_authority; assumption|].
      apply wha_tight; [assumption | assumption | left; auto | exact (corr_tight_all dbg shs u su C Ha)].
    - split; [apply whn_has_authority; auto|]. apply whn_tight; auto.
    - split; [apply wha_has_authority; assumption|].
      apply wha_tight; [assumption | assumption | right; auto | exact (corr_tight_all dbg shs u su C Ha)].
    - split; [apply whn_has_authority; auto|]. apply whn_tight; auto. }
  assert (has_host u' = hi_some (hi_of_host h)) as Ehh'.
  { unfold has_host. rewrite Fhi. destruct (hi_of_host h); reflexivity. }
  constructor; cbn [Whatwg.set_host su_scheme su_username su_password su_host su_port su_path su_query su_fragment].
  - exact W'.
  - exact HT'.
  - rewrite F1. exact (co_scheme _ _ _ _ C).
  - rewrite F2. exact (co_user _ _ _ _ C).
  - rewrite F3. exact (co_pass _ _ _ _ C).
  - rewrite F4. cbn [host_text option_map serialize_host_opt]. rewrite <- Etxt.
    destruct (hi_some (hi_of_host h)) eqn:Ehs; [reflexivity|]. cbn [optl].
    unfold host_disp_ok in Hdo. destruct (hi_of_host h); try discriminate Ehs. rewrite Hdo. reflexivity.
  - rewrite Ehh'. cbn [host_is_null orb].
    destruct (hi_some (hi_of_host h)) eqn:Ehs.
    + destruct sh; try reflexivity. exfalso.
      assert (h = HDomain []) as Eh by (apply Hem; reflexivity).
      apply hi_some_false_iff in Eh. congruence.
    + apply hi_some_false_iff in Ehs. apply Hem in Ehs. subst sh. reflexivity.
  - exact Ha'.
  - rewrite Ha'. cbn [andb].
    rewrite (at_flag_by_accessors dbg u' _ _ W' Ha' T'
               (eq_trans F2 (co_user _ _ _ _ C)) (eq_trans F3 (co_pass _ _ _ _ C))).
    rewrite opt_is_some_pw_opt. reflexivity.
  - rewrite F5. exact (co_port _ _ _ _ C).
  - rewrite B1. exact (co_path _ _ _ _ C).
  - rewrite B2. exact (co_query _ _ _ _ C).
  - rewrite B3. exact (co_frag _ _ _ _ C).
  - rewrite Ha'. reflexivity.
  - pose proof (co_path _ _ _ _ C) as Ept.
    assert (path u' = Some (serialize_path su)) as Ept' by (rewrite B1; exact Ept).
    rewrite (is_opaque_by_path u' _ W' Ept'), Ha'. cbn [negb andb].
    unfold has_opaque_path in *. cbn [Whatwg.set_host su_path]. symmetry. exact Hop.
  - exact (co_uclean _ _ _ _ C).
Qed.

End Hostname.
