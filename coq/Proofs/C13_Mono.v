(* Proofs/C13_Mono.v - the <n, i> monotonicity of the decoder: every later insertion is lexicographically
   later, so of the final string s the part below the current n is already there, and so is the prefix
   of length i of the part up to n.  Stated for every state of the checked decoder b_dec_loop
   (inside a delta as well). *)
From RU Require Import Base.Prelude Base.U32_c13 Spec.Rfc3492 Proofs.C13_Enc Proofs.C13_Dec Proofs.C13_Vli
  Proofs.C13_Rt Proofs.C13_DecB Proofs.C13_RtB.

Definition all_le (n : N) (l : list N) : Prop := Forall (fun c => c <= n) l.

Lemma insert_at_split : forall out i c, i <= len out ->
  exists A B, out = A ++ B /\ len A = i /\ s_insert_at i c out = A ++ c :: B.
Proof.
  induction out as [|x r IH]; intros i c Hi.
  - rewrite len_nil in Hi. assert (i = 0) by lia. subst i. exists [], []. rewrite s_insert_at_0.
    split; [reflexivity|]. split; reflexivity.
  - destruct (N.eq_dec i 0) as [->|Hne].
    + exists [], (x :: r). rewrite s_insert_at_0. split; [reflexivity|]. split; reflexivity.
    + rewrite s_insert_at_pos by exact Hne. rewrite len_cons in Hi.
      destruct (IH (i - 1) c ltac:(lia)) as [A [B [E1 [E2 E3]]]].
      exists (x :: A), B. rewrite E3, len_cons, E2. subst r.
      split; [reflexivity|]. split; [lia|reflexivity].
Qed.

Lemma filter_all_le n l : all_le n l -> filter (le_m n) l = l.
Proof.
  induction 1 as [|c l Hc _ IH]; [reflexivity|]. cbn [filter]. unfold le_m at 1.
  replace (c <=? n) with true by lia. rewrite IH. reflexivity.
Qed.

Lemma all_le_mono n n' l : n <= n' -> all_le n l -> all_le n' l.
Proof. intros H. unfold all_le. apply Forall_impl. intros c Hc. lia. Qed.

Lemma all_le_insert n n' i out : n <= n' -> i <= len out -> all_le n out -> all_le n' (s_insert_at i n' out).
Proof.
  intros Hn Hi Ho. destruct (insert_at_split out i n' Hi) as [A [B [E1 [_ E3]]]]. rewrite E3.
  apply (all_le_mono n n' out Hn) in Ho. rewrite E1 in Ho. unfold all_le in *.
  apply Forall_app in Ho. destruct Ho as [HA HB].
  apply Forall_app. split; [exact HA|]. constructor; [lia|exact HB].
Qed.

Lemma filter_insert_drop c n1 i out : c < n1 -> i <= len out ->
  filter (le_m c) (s_insert_at i n1 out) = filter (le_m c) out.
Proof.
  intros Hc Hi. destruct (insert_at_split out i n1 Hi) as [A [B [E1 [_ E3]]]]. rewrite E3, E1.
  rewrite !filter_app. cbn [filter]. unfold le_m at 2. replace (n1 <=? c) with false by lia. reflexivity.
Qed.

Lemma b_len dig R : forall mid oldi w k i n bias out s,
  b_dec_loop dig R mid oldi w k i n bias out = Some s -> len out <= len s.
Proof.
  induction R as [|c R IH]; intros mid oldi w k i n bias out s H.
  - cbn [b_dec_loop] in H. destruct mid; [discriminate|]. inversion H. lia.
  - rewrite b_dec_loop_cons in H. destruct (dig c) as [digit|]; [|discriminate].
    destruct ((digit * w <=? U32_MAX) && (i + digit * w <=? U32_MAX)); [|discriminate].
    destruct (digit <? s_threshold k bias).
    + unfold b_dec_break in H. cbv zeta in H.
      destruct ((len out + 1 <=? U32_MAX) && (n + (i + digit * w) / (len out + 1) <=? U32_MAX)); [|discriminate].
      destruct (is_usvb (n + (i + digit * w) / (len out + 1))); [|discriminate].
      apply IH in H. rewrite len_insert_at in H. lia.
    + destruct (w * (s_base - s_threshold k bias) <=? U32_MAX); [|discriminate]. exact (IH _ _ _ _ _ _ _ _ _ H).
Qed.

Lemma b_grows dig R : forall mid oldi w k i n bias out s, R <> [] ->
  b_dec_loop dig R mid oldi w k i n bias out = Some s -> len out < len s.
Proof.
  induction R as [|c R IH]; intros mid oldi w k i n bias out s Hne H; [congruence|].
  rewrite b_dec_loop_cons in H. destruct (dig c) as [digit|]; [|discriminate].
  destruct ((digit * w <=? U32_MAX) && (i + digit * w <=? U32_MAX)); [|discriminate].
  destruct (digit <? s_threshold k bias).
  - unfold b_dec_break in H. cbv zeta in H.
    destruct ((len out + 1 <=? U32_MAX) && (n + (i + digit * w) / (len out + 1) <=? U32_MAX)); [|discriminate].
    destruct (is_usvb (n + (i + digit * w) / (len out + 1))); [|discriminate].
    apply b_len in H. rewrite len_insert_at in H. lia.
  - destruct (w * (s_base - s_threshold k bias) <=? U32_MAX); [|discriminate].
    destruct R as [|c' R']; [cbn [b_dec_loop] in H; discriminate|].
    apply (IH _ _ _ _ _ _ _ _ _ ltac:(discriminate) H).
Qed.

Lemma b_mono dig R : forall mid oldi w k i n bias out s,
  all_le n out ->
  b_dec_loop dig R mid oldi w k i n bias out = Some s ->
  (forall c, c < n -> filter (le_m c) s = filter (le_m c) out)
  /\ (forall A B, out = A ++ B -> len A <= i -> exists B', filter (le_m n) s = A ++ B').
Proof.
  induction R as [|c0 R IH]; intros mid oldi w k i n bias out s Hle H.
  - cbn [b_dec_loop] in H. destruct mid; [discriminate|]. inversion H. subst s. split.
    + intros c _. reflexivity.
    + intros A B E _. exists B. rewrite filter_all_le by exact Hle. exact E.
  - rewrite b_dec_loop_cons in H. destruct (dig c0) as [digit|]; [|discriminate].
    destruct ((digit * w <=? U32_MAX) && (i + digit * w <=? U32_MAX)); [|discriminate].
    destruct (digit <? s_threshold k bias).
    + unfold b_dec_break in H. cbv zeta in H.
      destruct ((len out + 1 <=? U32_MAX) && (n + (i + digit * w) / (len out + 1) <=? U32_MAX)); [|discriminate].
      destruct (is_usvb (n + (i + digit * w) / (len out + 1))); [|discriminate].
      remember (i + digit * w) as i'.
      assert (Hpos : i' mod (len out + 1) <= len out).
      { pose proof (N.mod_lt i' (len out + 1) ltac:(lia)). lia. }
      remember (i' mod (len out + 1)) as pos1. remember (i' / (len out + 1)) as dq. remember (n + dq) as n1.
      assert (Hn1 : n <= n1) by lia.
      destruct (IH _ _ _ _ _ _ _ _ _ (all_le_insert n n1 pos1 out Hn1 Hpos Hle) H) as [I1 I2].
      split.
      * intros c Hc. rewrite (I1 c ltac:(lia)). apply filter_insert_drop; [lia|exact Hpos].
      * intros A B E HA.
        destruct (N.eq_dec dq 0) as [Hz|Hnz].
        -- (* same code point: the insertion is at i' >= i *)
           rewrite Hz, N.add_0_r in Heqn1. subst n1.
           assert (Hp : pos1 = i').
           { subst pos1. apply N.mod_small. rewrite Heqdq in Hz. apply N.div_small_iff in Hz; lia. }
           destruct (insert_at_split out pos1 n Hpos) as [A1 [B1 [E1 [E2 E3]]]].
           assert (Hpre : exists l, A1 = A ++ l).
           { rewrite E in E1. destruct (app_eq_app _ _ _ _ E1) as [l [[Ha Hb]|[Ha Hb]]].
             - assert (l = []).
               { apply (f_equal len) in Ha. rewrite len_app in Ha. destruct l; [reflexivity|rewrite len_cons in Ha; lia]. }
               subst l. rewrite app_nil_r in Ha. exists []. rewrite app_nil_r. symmetry. exact Ha.
             - exists l. exact Ha. }
           destruct Hpre as [l Hl].
           apply (I2 A (l ++ n :: B1)).
           ++ rewrite E3, Hl, <- app_assoc. reflexivity.
           ++ lia.
        -- (* a larger code point: nothing up to n changes any more *)
           assert (Hlt : n < n1) by lia.
           exists B. rewrite (I1 n Hlt). rewrite filter_insert_drop by (lia || exact Hpos).
           rewrite filter_all_le by exact Hle. exact E.
    + destruct (w * (s_base - s_threshold k bias) <=? U32_MAX); [|discriminate].
      destruct (IH _ _ _ _ _ _ _ _ _ Hle H) as [I1 I2]. split; [exact I1|].
      intros A B E HA. apply (I2 A B E). lia.
Qed.
