(* Proofs/C06_SpliceEx2.v - non-vacuity of the whole-URL agreement theorems for set_path and set_host(Some) and of the
   ReachC6 histories: with the host functions ex_hp / ex_hd of C02 (HostRT and host_above hold), on "a://h:80/p?q#f"
   (qx_u) and "http://u:p@h/p" (sx_u) each setter succeeds, the argument classes are met, and the spliced texts are the
   expected strings. *)
From Coq Require Import String.
From RU Require Import Base.Prelude Base.Utf8 Model.AsciiSet Gen.Tables Model.PercentEncoding Model.HostT Model.UrlRecord
  Model.Parser Model.Setters Model.WF Proofs.ListN Proofs.C06_WFI Proofs.C06_Path Proofs.C02_Enc Proofs.C02_Parts Proofs.C02_Reach Proofs.C02_AuthParts Proofs.C02_Auth
  Proofs.C02_AuthMain Proofs.C02_Canon Proofs.C06_Quirks Proofs.C06_AgreeSet Proofs.C06_Splice Proofs.C06_SpliceAuth Proofs.C06_SpliceCred
  Proofs.C06_SpliceEx Proofs.C06_SplicePath Proofs.C06_SpliceHost Proofs.C06_All.
Open Scope N_scope.
Open Scope list_scope.

Lemma splice2_inhabited :
  has_authority_b qx_u = true /\ has_authority_b sx_u = true
  /\ splice_case (set_path true qx_u (B "/a b/../c")) (splice_path qx_u (B "/a b/../c")) (B "a://h:80/a b/../c?q#f") "a://h:80/c?q#f"
  /\ forallb no_qh (B "/a b/../c") = true /\ path_arg_ok (sp_of qx_u) (B "/a b/../c")
  /\ splice_case (set_path true sx_u (B "/x y")) (splice_path sx_u (B "/x y")) (B "http://u:p@h/x y") "http://u:p@h/x%20y"
  /\ first_ok (rev (B "/x y"))
  /\ splice_case (set_path true sx_u [92; 120]) (splice_path sx_u [92; 120]) (B "http://u:p@h" ++ [92; 120]) "http://u:p@h/x"
  /\ path_arg_ok (sp_of sx_u) [92; 120]
  /\ splice_case (set_path true qx_u []) (splice_path qx_u []) (B "a://h:80?q#f") "a://h:80?q#f"
  /\ splice_case (ok_of (set_host true ex_hp ex_hp ex_hd qx_u (Some (B "x.y")))) (splice_host qx_u (B "x.y")) (B "a://x.y:80/p?q#f") "a://x.y:80/p?q#f"
  /\ forallb (hostarg (sp_of qx_u)) (B "x.y") = true
  /\ splice_case (ok_of (set_host true ex_hp ex_hp ex_hd sx_u (Some (B "abc")))) (splice_host sx_u (B "abc")) (B "http://u:p@abc/p") "http://u:p@abc/p"
  /\ forallb (hostarg (sp_of sx_u)) (B "abc") = true.
Proof.
  assert (forall r sp ex res u', r = Some u' -> sp = ex -> ser u' = B res -> (nlen (ser u') <=? U32_MAX_P) = true ->
            splice_case r sp ex res) as G.
  { intros r sp ex res u' H1 H2 H3 H4. exists u'. split; [exact H1|]. split; [exact H2|]. split; [exact H3 | apply N.leb_le; exact H4]. }
  split; [vm_compute; reflexivity|]. split; [vm_compute; reflexivity|].
  split; [eapply G; [vm_compute; reflexivity | vm_compute; reflexivity | vm_compute; reflexivity | vm_compute; reflexivity]|].
  split; [vm_compute; reflexivity|]. split; [vm_compute; reflexivity|].
  split; [eapply G; [vm_compute; reflexivity | vm_compute; reflexivity | vm_compute; reflexivity | vm_compute; reflexivity]|].
  split; [vm_compute; reflexivity|].
  split; [eapply G; [vm_compute; reflexivity | vm_compute; reflexivity | vm_compute; reflexivity | vm_compute; reflexivity]|].
  split; [vm_compute; reflexivity|].
  split; [eapply G; [vm_compute; reflexivity | vm_compute; reflexivity | vm_compute; reflexivity | vm_compute; reflexivity]|].
  split; [eapply G; [vm_compute; reflexivity | vm_compute; reflexivity | vm_compute; reflexivity | vm_compute; reflexivity]|].
  split; [vm_compute; reflexivity|].
  split; [eapply G; [vm_compute; reflexivity | vm_compute; reflexivity | vm_compute; reflexivity | vm_compute; reflexivity]|].
  vm_compute; reflexivity.
Qed.

(* a ReachC6 history: parse "a://h:80/p?q#f", set_path("/a b/../c"), set_host(Some "x.y"), set_fragment(Some "g") *)
Lemma reach6_inhabited :
  exists u1 u2 u3, ReachC6 true ex_hp ex_hp ex_hd qx_u
    /\ set_path true qx_u (B "/a b/../c") = Some u1 /\ ReachC6 true ex_hp ex_hp ex_hd u1
    /\ set_host true ex_hp ex_hp ex_hd u1 (Some (B "x.y")) = Some (u2, SOk) /\ ReachC6 true ex_hp ex_hp ex_hd u2
    /\ set_fragment true u2 (Some (B "g")) = Some u3 /\ ReachC6 true ex_hp ex_hp ex_hd u3
    /\ ser u3 = B "a://x.y:80/c?q#g".
Proof.
  assert (ReachC6 true ex_hp ex_hp ex_hd qx_u) as R0.
  { apply (RC6_parse true ex_hp ex_hp ex_hd None (B "a://h:80/p?q#f")).
    - apply usv_B_small. vm_compute. reflexivity.
    - vm_compute. reflexivity.
    - left. reflexivity.
    - vm_compute. reflexivity. }
  destruct (set_path true qx_u (B "/a b/../c")) as [u1|] eqn:E1; [|vm_compute in E1; discriminate E1].
  assert (ReachC6 true ex_hp ex_hp ex_hd u1) as R1.
  { apply (RC6_path true ex_hp ex_hp ex_hd qx_u (B "/a b/../c") u1 R0); try exact E1.
    - vm_compute. reflexivity.
    - apply usv_B_small. vm_compute. reflexivity.
    - vm_compute. reflexivity.
    - vm_compute. reflexivity.
    - vm_compute in E1. inversion E1; subst u1. vm_compute. discriminate. }
  destruct (set_host true ex_hp ex_hp ex_hd u1 (Some (B "x.y"))) as [[u2 s2]|] eqn:E2;
    [|vm_compute in E1; inversion E1; subst u1; vm_compute in E2; discriminate E2].
  assert (s2 = SOk) as -> by (vm_compute in E1; inversion E1; subst u1; vm_compute in E2; inversion E2; reflexivity).
  assert (ReachC6 true ex_hp ex_hp ex_hd u2) as R2.
  { apply (RC6_host true ex_hp ex_hp ex_hd u1 (B "x.y") u2 R1); try exact E2;
      vm_compute in E1; inversion E1; subst u1; vm_compute in E2; inversion E2; subst u2.
    - vm_compute. reflexivity.
    - vm_compute. reflexivity.
    - intros Hi. vm_compute in Hi. discriminate Hi.
    - vm_compute. discriminate. }
  destruct (set_fragment true u2 (Some (B "g"))) as [u3|] eqn:E3;
    [|vm_compute in E1; inversion E1; subst u1; vm_compute in E2; inversion E2; subst u2; vm_compute in E3; discriminate E3].
  exists u1, u2, u3. split; [exact R0|]. split; [reflexivity|]. split; [exact R1|]. split; [exact E2|]. split; [exact R2|].
  split; [exact E3|].
  vm_compute in E1; inversion E1; subst u1; vm_compute in E2; inversion E2; subst u2; vm_compute in E3; inversion E3; subst u3.
  split; [|vm_compute; reflexivity].
  match goal with |- ReachC6 _ _ _ _ ?u3 => apply (RC6_step true ex_hp ex_hp ex_hd _ (OSetFragment (Some (B "g"))) u3 R2) end.
  - reflexivity.
  - apply usv_B_small. vm_compute. reflexivity.
  - vm_compute. reflexivity.
  - vm_compute. discriminate.
Qed.
