(* Proofs/C02_File.v - class (v) of DESIGN B.5, the file scheme: a fifth canonical form and L3 for it.
   Canonical file record (outside Known_file_drive):  "file://" [host] path ["?" q] ["#" f]  with
     - no host (host kind None, empty host text) or a host that is not "localhost", whose display is a host text
       that parses back to it and is not a drive letter,
     - a path "/" seg "/" ... "/" last whose segments are canonical for a special scheme (good_seg_sp: clean for the
       path set, no '/', no '\\', no dot segment) and do not begin like a drive letter (wdl_like: the test of
       Known_file_drive), the first of several segments not empty (the path loop collapses leading slashes),
     - a query clean for the special query set, a fragment clean for the fragment set.
   file_loop_canon: the file path loop pushes such a path unchanged (no drive-letter arm fires);
   reparse_file_form: parsing the serialization of a canonical file record gives the record back (L3). *)
From Coq Require Import String.
From RU Require Import Base.Prelude Base.Utf8 Base.Utf8Facts Model.AsciiSet Gen.Tables
  Model.PercentEncoding Model.HostT Model.UrlRecord Model.Parser Model.Setters Model.WF
  Proofs.ListN Proofs.C14_Set Proofs.C14_Enc Proofs.C14_Views Proofs.C02_Enc Proofs.C02_Parts
  Proofs.C02_Opaque Proofs.C02_Path Proofs.C02_PathL1 Proofs.C02_Reach Proofs.C02_AuthParts
  Proofs.C02_Auth Proofs.C02_AuthWf Proofs.C02_PathSp Proofs.C02_AuthSp Proofs.C02_SetQF Proofs.C02_Canon.
Open Scope N_scope.
Open Scope list_scope.

(* ---------- drive letters ---------- *)
Definition fseg_ok (s : list N) : bool := good_seg_sp s && negb (wdl_like s).

Lemma fseg_ok_sp s : fseg_ok s = true -> good_seg_sp s = true.
Proof. unfold fseg_ok. intros H. apply andb_true_iff in H. tauto. Qed.
Lemma fseg_ok_like s : fseg_ok s = true -> wdl_like s = false.
Proof. unfold fseg_ok. intros H. apply andb_true_iff in H. destruct H as [_ H]. apply negb_true_iff in H. exact H. Qed.
Lemma fsegs_ok_sp segs : forallb fseg_ok segs = true -> forallb good_seg_sp segs = true.
Proof. apply forallb_impl. exact fseg_ok_sp. Qed.

Lemma is_wdl_like s : is_wdl s = true -> wdl_like s = true.
Proof.
  unfold is_wdl, starts_with_wdl, wdl_like. destruct s as [|a [|b r]]; cbn [length Nat.eqb andb]; try discriminate.
  intros H. apply andb_true_iff in H. destruct H as [_ H]. apply andb_true_iff in H. destruct H as [H _]. exact H.
Qed.
Lemma not_like_not_wdl s : wdl_like s = false -> is_wdl s = false.
Proof. intros H. destruct (is_wdl s) eqn:E; [|reflexivity]. rewrite (is_wdl_like s E) in H. discriminate H. Qed.

Lemma nwdl_head_not_alpha_f a X : is_alpha a = false -> is_normalized_wdl (a :: X) = false.
Proof.
  intros H. unfold is_normalized_wdl, is_wdl, starts_with_wdl. destruct X as [|b [|c r]]; cbn [length Nat.eqb andb]; try reflexivity.
  rewrite H. reflexivity.
Qed.
Lemma nwdl_second_f a b X : (b =? 58) = false -> is_normalized_wdl (a :: b :: X) = false.
Proof. intros H. unfold is_normalized_wdl. rewrite H. apply andb_false_r. Qed.
Lemma nwdl_long_f a b c X : is_normalized_wdl (a :: b :: c :: X) = false.
Proof. reflexivity. Qed.
Lemma nwdl_segs_text_f segs : is_normalized_wdl (segs_text segs) = false.
Proof.
  destruct segs as [|s r]; [reflexivity|].
  unfold segs_text. cbn [map concat]. rewrite <- !app_assoc.
  destruct s as [|x [|y s']]; cbn [app].
  - apply nwdl_head_not_alpha_f. reflexivity.
  - apply nwdl_second_f. reflexivity.
  - destruct s' as [|z s'']; cbn [app]; apply nwdl_long_f.
Qed.

(* ================= the file path loop on canonical text ================= *)
Section FileLoop.
Variable dbg : bool.
Variable pre : list N.
Notation ps := (nlen pre).
Notation loop := (parse_path_loop dbg CUrlParser STFile ps).
Notation BsP := (Bs pre).

Lemma Bs_skip segs : nskipn (ps + 1) (BsP segs) = segs_text segs.
Proof.
  unfold Bs. replace (ps + 1) with (nlen (pre ++ [47])) by (rewrite nlen_app; reflexivity).
  apply nskipn_app_len.
Qed.

Lemma floop_plain c r done ss pend hh : is_tnl c = false -> (c =? 47) = false -> (c =? 92) = false -> is_qh c = false ->
  loop (c :: r) (BsP done) ss pend hh = loop r (BsP done) ss (c :: pend) hh.
Proof.
  intros Ht Hs Hb Hq. cbn [parse_path_loop]. rewrite Ht. cbn [ctx_eqb negb st_is_special st_is_file andb].
  rewrite Hs, Hb. cbn [andb orb]. unfold is_qh in Hq. rewrite Hq. cbn [andb].
  rewrite Bs_skip, nwdl_segs_text_f. rewrite andb_false_r. reflexivity.
Qed.

Lemma floop_slash r ser ss pend hh :
  loop (47 :: r) ser ss pend hh
  = (' (s2, hh') <~ finish_segment dbg STFile ps (push_pending CUrlParser STFile ser pend ++ [47]) ss true hh ;;
     loop r s2 (nlen s2) [] hh').
Proof. reflexivity. Qed.

Lemma floop_end l ser ss pend hh :
  match l with [] => True | c :: _ => is_qh c = true /\ is_tnl c = false end ->
  loop l ser ss pend hh
  = (' (s2, hh') <~ finish_segment dbg STFile ps (push_pending CUrlParser STFile ser pend) ss false hh ;;
     POk (file_path_fixup STFile ps s2, hh', l)).
Proof.
  destruct l as [|c r]; [intros _; reflexivity|]. intros [Hq Ht].
  cbn [parse_path_loop]. rewrite Ht. cbn [ctx_eqb negb st_is_special andb].
  assert ((c =? 47) = false) as Hs by (unfold is_qh in Hq; lia).
  assert ((c =? 92) = false) as Hb by (unfold is_qh in Hq; lia).
  rewrite Hs, Hb. cbn [andb orb]. unfold is_qh in Hq. rewrite Hq. reflexivity.
Qed.

Lemma floop_pending seg : forall tail done ss pend hh, forallb seg_char_sp seg = true ->
  loop (seg ++ tail) (BsP done) ss pend hh = loop tail (BsP done) ss (rev seg ++ pend) hh.
Proof.
  induction seg as [|c s IH]; intros tail done ss pend hh H; [reflexivity|].
  cbn [forallb] in H. apply andb_true_iff in H. destruct H as [Hc Hs].
  unfold seg_char_sp, seg_char, not_tnl in Hc. apply andb_true_iff in Hc. destruct Hc as [Hc H4].
  apply andb_true_iff in Hc. destruct Hc as [Hc H3].
  apply andb_true_iff in Hc. destruct Hc as [H1 H2].
  apply negb_true_iff in H1, H2, H3, H4.
  cbn [app]. rewrite floop_plain by assumption. rewrite IH by exact Hs.
  cbn [rev]. rewrite <- app_assoc. reflexivity.
Qed.

Lemma finish_plain_f ser ss (ews : bool) hh seg :
  slice_o ser ss (if ews then nlen ser - 1 else nlen ser) = Some seg ->
  is_double_dot seg = false -> is_single_dot seg = false -> is_wdl seg = false ->
  finish_segment dbg STFile ps ser ss ews hh = POk (ser, hh).
Proof.
  intros Hs Hd Hsd Hw. unfold finish_segment. rewrite Hs. cbn [of_option pbind]. rewrite Hd, Hsd, Hw.
  cbn [st_is_file andb]. rewrite andb_false_r. reflexivity.
Qed.

(* L3 for the file path loop: canonical text is pushed unchanged; what is left is the collapse of leading slashes *)
Theorem file_loop_canon segs : forall done last rest hh,
  forallb fseg_ok segs = true -> fseg_ok last = true ->
  match rest with [] => True | c :: _ => is_qh c = true /\ is_tnl c = false end ->
  loop (segs_text segs ++ last ++ rest) (BsP done) (nlen (BsP done)) [] hh
  = POk (file_path_fixup STFile ps (BsP (done ++ segs) ++ last), hh, rest).
Proof.
  induction segs as [|seg segs IH]; intros done last rest hh Hsegs Hlast Hrest.
  - cbn [segs_text map concat app]. rewrite app_nil_r.
    destruct (good_seg_sp_parts last (fseg_ok_sp last Hlast)) as (Hc & _ & Hsd & Hdd).
    rewrite floop_pending by (apply good_seg_sp_chars; apply fseg_ok_sp; exact Hlast).
    rewrite floop_end by exact Hrest.
    rewrite push_pending_clean_sp by exact Hc.
    rewrite (finish_plain_f (BsP done ++ last) (nlen (BsP done)) false hh last); [reflexivity | | exact Hdd | exact Hsd |].
    + rewrite <- (app_nil_r (BsP done ++ last)) at 1. rewrite <- app_assoc. rewrite nlen_app. apply slice_mid.
    + apply not_like_not_wdl. apply fseg_ok_like. exact Hlast.
  - cbn [forallb] in Hsegs. apply andb_true_iff in Hsegs. destruct Hsegs as [Hseg Hsegs].
    destruct (good_seg_sp_parts seg (fseg_ok_sp seg Hseg)) as (Hc & _ & Hsd & Hdd).
    unfold segs_text. cbn [map concat]. fold (segs_text segs). rewrite <- !app_assoc. cbn [app].
    rewrite floop_pending by (apply good_seg_sp_chars; apply fseg_ok_sp; exact Hseg).
    rewrite floop_slash. rewrite push_pending_clean_sp by exact Hc.
    rewrite (finish_plain_f ((BsP done ++ seg) ++ [47]) (nlen (BsP done)) true hh seg); [| | exact Hdd | exact Hsd |].
    + cbn [pbind]. rewrite <- app_assoc. rewrite <- Bs_snoc. rewrite IH by assumption.
      rewrite <- app_assoc. reflexivity.
    + rewrite <- app_assoc. rewrite !nlen_app.
      replace (nlen (BsP done) + (nlen seg + nlen [47]) - 1) with (nlen (BsP done) + nlen seg) by (unfold nlen; cbn [length]; lia).
      apply slice_mid.
    + apply not_like_not_wdl. apply fseg_ok_like. exact Hseg.
Qed.

(* the collapse of leading slashes leaves  pre "/" body  alone when body does not start with '/' ... *)
Lemma fixup_id body : match body with [] => True | c :: _ => (c =? 47) = false end ->
  file_path_fixup STFile ps (pre ++ 47 :: body) = pre ++ 47 :: body.
Proof.
  intros H. unfold file_path_fixup. cbn [st_is_file]. rewrite nskipn_app_len, nfirstn_app_len.
  cbn [app drop_while]. replace (is_slash 47) with true by reflexivity.
  destruct body as [|c r]; [reflexivity|]. cbn [drop_while]. unfold is_slash. rewrite H. reflexivity.
Qed.
(* ... and removes the one extra slash of  pre "//" body *)
Lemma fixup_one body : match body with [] => True | c :: _ => (c =? 47) = false end ->
  file_path_fixup STFile ps (pre ++ 47 :: 47 :: body) = pre ++ 47 :: body.
Proof.
  intros H. unfold file_path_fixup. cbn [st_is_file]. rewrite nskipn_app_len, nfirstn_app_len.
  cbn [app drop_while]. replace (is_slash 47) with true by reflexivity.
  destruct body as [|c r]; [reflexivity|]. cbn [drop_while]. unfold is_slash. rewrite H. reflexivity.
Qed.
End FileLoop.

(* ================= the file host state on canonical text ================= *)
Definition path_head (X : list N) : Prop :=
  match X with [] => True | c :: _ => is_tnl c = false /\ is_path_end c = true end.

Lemma file_host_scan_plain t : forall acc X, forallb (plainc true) t = true -> path_head X ->
  file_host_scan acc (t ++ X) = (rev acc ++ t, X).
Proof.
  induction t as [|c t IH]; intros acc X Hf HX.
  - cbn [app]. rewrite app_nil_r. destruct X as [|x X']; [reflexivity|]. destruct HX as [Ht He].
    cbn [file_host_scan]. rewrite Ht, He. reflexivity.
  - cbn [forallb] in Hf. apply andb_true_iff in Hf. destruct Hf as [Hc Hf].
    assert (is_tnl c = false /\ is_path_end c = false) as [Ht He].
    { unfold plainc, auth_delim, is_path_end, is_tnl in *. split; lia. }
    cbn [app file_host_scan]. rewrite Ht, He. rewrite (IH (c :: acc) X Hf HX). cbn [rev]. rewrite <- app_assoc. reflexivity.
Qed.

Lemma inp_split_first_cons c r : is_tnl c = false -> inp_split_first (c :: r) = (Some c, r).
Proof. intros H. unfold inp_split_first. rewrite inp_next_cons by exact H. reflexivity. Qed.

Lemma hi_of_host_none h : h <> HDomain [] -> hi_eqb (hi_of_host h) HI_None = false.
Proof. destruct h as [[|c d]| |]; intros H; try reflexivity. exfalso. apply H. reflexivity. Qed.

Section FileForm.
Variable dbg : bool.
Variable hp hpo : list N -> result host.
Variable hd : host -> list N.

Definition fhost_text (ho : option host) : list N := match ho with Some h => hd h | None => [] end.
Definition fhost_hi (ho : option host) : host_internal := match ho with Some h => hi_of_host h | None => HI_None end.
Definition file_front (ho : option host) : list N := s_file_css ++ fhost_text ho.
Definition file_pre (ho : option host) (T : list N) : list N := file_front ho ++ T.
Definition file_ser (ho : option host) (T : list N) (q f : option (list N)) : list N := file_pre ho T ++ qf_text q f.
Definition file_curl (ho : option host) (T : list N) (q f : option (list N)) : url :=
  qf_url (file_pre ho T) 4 7 7 (nlen (file_front ho)) (fhost_hi ho) None (nlen (file_front ho)) q f.

(* canonical file host: none, or a host other than the empty one and "localhost" whose display is a host text, is
   above U+0020, is no drive letter and parses back to the host *)
Definition fhost_ok (ho : option host) : Prop :=
  match ho with
  | None => True
  | Some h => h <> HDomain [] /\ h <> HDomain s_localhost /\ C02_Reach.host_text_ok (hd h) /\ hp (hd h) = Ok h
              /\ forallb above_space (hd h) = true /\ is_wdl (hd h) = false
  end.

Record file_ok (ho : option host) (segs : list (list N)) (last : list N) (q f : option (list N)) : Prop := mk_file_ok {
  fk_host : fhost_ok ho;
  fk_segs : forallb fseg_ok segs = true;
  fk_last : fseg_ok last = true;
  fk_first : match segs with [] => True | s :: _ => s <> [] end;
  fk_q : opt_clean T_SPECIAL_QUERY q;
  fk_f : opt_clean T_FRAGMENT f;
  fk_b1 : nlen (file_front ho) <= U32_MAX_P;
  fk_bq : opt_le (qf_qs (nlen (file_pre ho (path_text segs last))) q) U32_MAX_P;
  fk_bf : opt_le (qf_fs (nlen (file_pre ho (path_text segs last))) q f) U32_MAX_P
}.

(* the three offset bounds follow from a bound on the whole serialization *)
Lemma file_bounds_of_len ho T q f : nlen (file_ser ho T q f) <= U32_MAX_P ->
  nlen (file_front ho) <= U32_MAX_P /\ opt_le (qf_qs (nlen (file_pre ho T)) q) U32_MAX_P
  /\ opt_le (qf_fs (nlen (file_pre ho T)) q f) U32_MAX_P.
Proof.
  intros Kb. destruct (qf_bounds (file_pre ho T) q f _ Kb) as [Bq Bf]. split; [|split; assumption].
  unfold file_ser, file_pre in Kb. rewrite !nlen_app in Kb. lia.
Qed.

Lemma fhost_plain ho : fhost_ok ho -> forallb (plainc true) (fhost_text ho) = true /\ is_wdl (fhost_text ho) = false
  /\ forallb above_space (fhost_text ho) = true.
Proof.
  destruct ho as [h|]; cbn [fhost_ok fhost_text]; [|intros _; repeat split; reflexivity].
  intros (_ & _ & Ht & _ & Ha & Hw). destruct (host_text_facts (hd h) Ht) as [Hf _]. repeat split; assumption.
Qed.

Lemma pfh_none ser X : path_head X -> parse_file_host hp hd ser X = POk (ser, false, HI_None, X).
Proof.
  intros HX. unfold parse_file_host, file_host.
  pose proof (file_host_scan_plain [] [] X eq_refl HX) as E. cbn [app rev] in E. rewrite E. reflexivity.
Qed.

Lemma pfh_some ser h X : fhost_ok (Some h) -> path_head X ->
  parse_file_host hp hd ser (hd h ++ X) = POk (ser ++ hd h, true, hi_of_host h, X).
Proof.
  intros K HX. destruct (fhost_plain (Some h) K) as (Hf & Hw & _). cbn [fhost_text] in *.
  destruct K as (Hne & Hnl & Ht & Hp & _ & _).
  unfold parse_file_host, file_host.
  pose proof (file_host_scan_plain (hd h) [] X Hf HX) as E. cbn [app rev] in E. rewrite E. rewrite Hw.
  destruct Ht as (_ & Hnn & _).
  remember (hd h) as t eqn:Et. destruct t as [|c t']; [exfalso; apply Hnn; reflexivity|].
  rewrite Hp. cbn [of_result pbind]. rewrite <- Et.
  destruct h as [d| |]; try reflexivity.
  destruct (list_eqb d s_localhost) eqn:El; [|reflexivity].
  exfalso. apply Hnl. apply list_eqb_spec in El. rewrite El. reflexivity.
Qed.

Lemma fseg_first_not_slash segs last : forallb fseg_ok segs = true -> fseg_ok last = true ->
  match segs with [] => True | s :: _ => s <> [] end ->
  match segs_text segs ++ last with [] => True | c :: _ => (c =? 47) = false end.
Proof.
  intros Hs Hl Hf. destruct segs as [|s r].
  - cbn [segs_text map concat app]. destruct last as [|c l']; [exact I|].
    destruct (good_seg_sp_parts _ (fseg_ok_sp _ Hl)) as (_ & Hn & _). unfold no_slash in Hn. cbn [forallb] in Hn.
    apply andb_true_iff in Hn. destruct Hn as [Hn _]. apply negb_true_iff in Hn. exact Hn.
  - cbn [forallb] in Hs. apply andb_true_iff in Hs. destruct Hs as [Hs _].
    destruct s as [|c s']; [exfalso; apply Hf; reflexivity|].
    unfold segs_text. cbn [map concat app].
    destruct (good_seg_sp_parts _ (fseg_ok_sp _ Hs)) as (_ & Hn & _). unfold no_slash in Hn. cbn [forallb] in Hn.
    apply andb_true_iff in Hn. destruct Hn as [Hn _]. apply negb_true_iff in Hn. exact Hn.
Qed.

Lemma sqf_text_above q f : opt_clean T_SPECIAL_QUERY q -> opt_clean T_FRAGMENT f -> forallb above_space (qf_text q f) = true.
Proof.
  intros Hq Hf. unfold qf_text. rewrite forallb_app. apply andb_true_iff. split.
  - destruct q as [x|]; [|reflexivity]. cbn [qf_qtext forallb]. rewrite (clean_forallb _ _ x kept_SQUERY_above Hq). reflexivity.
  - destruct f as [y|]; [|reflexivity]. cbn [qf_ftext forallb]. rewrite (clean_forallb _ _ y kept_FRAGMENT_above Hf). reflexivity.
Qed.

Lemma qf_text_head q f : match qf_text q f with [] => True | c :: _ => is_qh c = true /\ is_tnl c = false end.
Proof. unfold qf_text. destruct q; destruct f; cbn; auto. Qed.

Lemma file_front_len ho : nlen (file_front ho) = 7 + nlen (fhost_text ho).
Proof. unfold file_front. rewrite nlen_app. reflexivity. Qed.

(* the path state of a file URL on canonical text: both entries (with and without a host) *)
Lemma file_path_nohost segs last q f hh :
  forallb fseg_ok segs = true -> fseg_ok last = true -> match segs with [] => True | s :: _ => s <> [] end ->
  parse_path dbg CUrlParser STFile hh (nlen s_file_css) (s_file_css ++ [47]) (path_text segs last ++ qf_text q f)
  = POk (s_file_css ++ path_text segs last, hh, qf_text q f).
Proof.
  intros Hs Hl Hf. unfold parse_path.
  pose proof (file_loop_canon dbg s_file_css ([] :: segs) [] last (qf_text q f) hh) as E.
  cbn [forallb] in E. specialize (E Hs Hl (qf_text_head q f)).
  assert (Bs s_file_css [] = s_file_css ++ [47]) as E0 by (unfold Bs; cbn [segs_text map concat]; apply app_nil_r).
  rewrite E0 in E.
  assert (segs_text ([] :: segs) ++ last ++ qf_text q f = path_text segs last ++ qf_text q f) as E1.
  { unfold path_text, segs_text. cbn [map concat app]. rewrite <- app_assoc. reflexivity. }
  rewrite E1 in E. rewrite E. f_equal. f_equal. f_equal.
  assert (Bs s_file_css ([] ++ [] :: segs) ++ last = s_file_css ++ 47 :: 47 :: segs_text segs ++ last) as E2.
  { unfold Bs, segs_text. cbn [map concat app]. rewrite <- !app_assoc. reflexivity. }
  rewrite E2. unfold path_text. apply fixup_one. apply fseg_first_not_slash; assumption.
Qed.

Lemma file_path_host pre segs last q f hh :
  forallb fseg_ok segs = true -> fseg_ok last = true -> match segs with [] => True | s :: _ => s <> [] end ->
  parse_path dbg CUrlParser STFile hh (nlen pre) (pre ++ [47]) ((segs_text segs ++ last) ++ qf_text q f)
  = POk (pre ++ path_text segs last, hh, qf_text q f).
Proof.
  intros Hs Hl Hf. unfold parse_path.
  pose proof (file_loop_canon dbg pre segs [] last (qf_text q f) hh Hs Hl (qf_text_head q f)) as E.
  assert (Bs pre [] = pre ++ [47]) as E0 by (unfold Bs; cbn [segs_text map concat]; apply app_nil_r).
  rewrite E0 in E. rewrite <- app_assoc. rewrite E. f_equal. f_equal. f_equal.
  cbn [app]. unfold Bs. rewrite <- !app_assoc. cbn [app]. unfold path_text. apply fixup_id.
  apply fseg_first_not_slash; assumption.
Qed.

(* L3 for the class *)
Theorem reparse_file_form ho segs last q f : file_ok ho segs last q f ->
  parse_url dbg hp hpo hd None None (file_ser ho (path_text segs last) q f)
  = POk (file_curl ho (path_text segs last) q f).
Proof.
  intros K. destruct K as [Kh Ksegs Klast Kfirst Kq Kf Bfront Bq Bf].
  set (T := path_text segs last) in *. set (body := segs_text segs ++ last).
  assert (T = 47 :: body) as ET by reflexivity.
  destruct (fhost_plain ho Kh) as (Hplain & Hnw & Habove).
  assert (forallb above_space body = true) as Hbody.
  { unfold body. rewrite forallb_app, (segs_text_above segs (good_segs_sp_good segs (fsegs_ok_sp segs Ksegs))).
    rewrite (good_seg_above last (good_seg_sp_good last (fseg_ok_sp last Klast))). reflexivity. }
  assert (file_ser ho T q f = s_file ++ 58 :: 47 :: 47 :: fhost_text ho ++ T ++ qf_text q f) as Eser.
  { unfold file_ser, file_pre, file_front, s_file_css, s_css. rewrite <- !app_assoc. reflexivity. }
  assert (edge_ok (file_ser ho T q f)) as He.
  { apply all_above_edge. rewrite Eser. rewrite forallb_app. apply andb_true_iff. split; [reflexivity|].
    cbn [forallb]. rewrite !forallb_app. rewrite Habove, (sqf_text_above q f Kq Kf). rewrite ET. cbn [forallb].
    rewrite Hbody. reflexivity. }
  assert (path_head (T ++ qf_text q f)) as HXT by (rewrite ET; split; reflexivity).
  unfold parse_url. rewrite trim_c0_id by exact He. rewrite Eser.
  rewrite parse_scheme_canon by reflexivity.
  unfold parse_with_scheme. change (nlen s_file) with 4. change (to_u32 4) with (POk 4). cbn [pbind].
  change (scheme_type_of s_file) with STFile. cbv iota beta.
  unfold parse_file. rewrite (inp_split_first_cons 47) by reflexivity.
  change (is_slash_or_bslash 47) with true. cbv iota beta.
  rewrite (inp_split_first_cons 47) by reflexivity.
  change (is_slash_or_bslash 47) with true. cbv iota beta.
  assert (parse_query_and_fragment None CUrlParser STFile 4 (file_pre ho T) (qf_text q f)
          = POk (file_pre ho T ++ qf_text q f, qf_qs (nlen (file_pre ho T)) q, qf_fs (nlen (file_pre ho T)) q f)) as Hpqf.
  { apply pqf_canon; try assumption. reflexivity. }
  destruct ho as [h|].
  - (* a host *)
    cbn [fhost_text] in *. rewrite (pfh_some s_file_css h (T ++ qf_text q f) Kh HXT). cbn [pbind].
    rewrite to_u32_ok by exact Bfront. cbn [pbind].
    destruct Kh as (Hne & Hnl & Ht & Hp & _ & _).
    rewrite (hi_of_host_none h Hne). cbn [negb].
    unfold parse_path_start. rewrite ET. cbn [app]. rewrite (inp_split_first_cons 47) by reflexivity.
    cbn [st_is_special]. rewrite (host_text_last (hd h) s_file_css Ht). cbn [negb].
    change (is_slash_or_bslash 47) with true. cbv iota beta.
    change (s_file_css ++ hd h) with (file_front (Some h)). unfold body.
    rewrite (file_path_host (file_front (Some h)) segs last q f true Ksegs Klast Kfirst). cbn [pbind negb].
    fold T. fold (file_pre (Some h) T). rewrite Hpqf. cbn [pbind].
    unfold file_curl, file_url, qf_url. cbn [fhost_hi]. reflexivity.
  - (* no host *)
    cbn [fhost_text app] in *. rewrite (pfh_none s_file_css (T ++ qf_text q f) HXT). cbn [pbind].
    change (to_u32 (nlen s_file_css)) with (POk 7). cbn [pbind hi_eqb negb].
    change 7 with (nlen s_file_css) at 1.
    unfold T. rewrite (file_path_nohost segs last q f false Ksegs Klast Kfirst). cbn [pbind negb].
    fold T. rewrite nfirstn_nskipn.
    change (s_file_css ++ T) with (file_pre None T). rewrite Hpqf. cbn [pbind].
    unfold file_curl, file_url, qf_url. cbn [fhost_hi]. reflexivity.
Qed.

End FileForm.
