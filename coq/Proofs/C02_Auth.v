(* Proofs/C02_Auth.v - class (iii) of DESIGN B.5: URLs with an authority and a non-special scheme,
   parsed without base:   scheme "://" [user [":" pw] "@"] host [":" port] path ["?" q] ["#" f].
   L1: the parser's result has the canonical form below; L3: the canonical form re-parses to the
   same record (same offsets, host kind and port); the canonical record satisfies wf_b. *)
From RU Require Import Base.Prelude Base.Utf8 Base.Utf8Facts Model.AsciiSet Gen.Tables
  Model.PercentEncoding Model.HostT Model.UrlRecord Model.Parser Model.WF
  Proofs.ListN Proofs.C14_Set Proofs.C14_Enc Proofs.C14_Views Proofs.C02_Enc Proofs.C02_Parts
  Proofs.C02_Opaque Proofs.C02_Path Proofs.C02_PathL1 Proofs.C02_Reach Proofs.C16_RT Proofs.C02_AuthParts.

(* ---------- the path of a URL with authority: empty, or "/" seg "/" ... "/" last ---------- *)
Definition pth := option (list (list N) * list N).
Definition pth_text (p : pth) : list N := match p with None => [] | Some (segs, last) => path_text segs last end.
Definition pth_ok (p : pth) : Prop :=
  match p with None => True | Some (segs, last) => forallb good_seg segs = true /\ good_seg last = true end.
Definition qh_ok (X : list N) : Prop := match X with [] => True | c :: _ => is_qh c = true /\ is_tnl c = false end.

Lemma qh_tail X : qh_ok X -> tail_ok X.
Proof. destruct X as [|c r]; [tauto|]. cbn [qh_ok tail_ok]. unfold is_qh. intros [H _]. lia. Qed.

Lemma pth_tail p X : qh_ok X -> tail_ok (pth_text p ++ X).
Proof. destruct p as [[segs last]|]; [intros _; reflexivity | exact (qh_tail X)]. Qed.

Section PathStart.
Variable dbg : bool.
Notation loop := (parse_path_loop dbg CUrlParser STNotSpecial).

Lemma slice_empty ser : slice_o ser (nlen ser) (nlen ser) = Some [].
Proof. rewrite slice_o_some by lia. rewrite N.sub_diag. reflexivity. Qed.

Lemma loop_nil_empty ps ser hh : loop ps [] ser (nlen ser) [] hh = POk (ser, hh, []).
Proof.
  cbn [parse_path_loop push_pending].
  rewrite (finish_plain dbg ps ser (nlen ser) false hh []); [reflexivity | apply slice_empty | reflexivity | reflexivity].
Qed.

Lemma loop_first_slash ps l : forall r ser hh, inp_next l = Some (47, r) ->
  loop ps l ser (nlen ser) [] hh = loop ps r (ser ++ [47]) (nlen (ser ++ [47])) [] hh.
Proof.
  induction l as [|c t IH]; intros r ser hh H; [discriminate|].
  destruct (is_tnl c) eqn:Et.
  - rewrite inp_next_tnl in H by exact Et. rewrite loop_cons_tnl by exact Et. cbn [push_pending]. exact (IH _ _ _ H).
  - rewrite inp_next_cons in H by exact Et. inversion H; subst. rewrite loop_cons_slash. cbn [push_pending].
    rewrite (finish_plain dbg ps (ser ++ [47]) (nlen ser) true hh []); [reflexivity | | reflexivity | reflexivity].
    rewrite nlen_app. replace (nlen ser + nlen [47] - 1) with (nlen ser) by (unfold nlen; cbn [length]; lia).
    rewrite <- (app_nil_l [47]). replace (nlen ser) with (nlen ser + nlen []) at 2 by (rewrite nlen_nil; lia).
    apply slice_mid.
Qed.

(* L1: the path start state, non-special scheme, after an authority *)
Theorem pps_out ser l hh s3 hh' rem3 : usv_list l -> pe_ok l ->
  parse_path_start dbg CUrlParser STNotSpecial hh ser l = POk (s3, hh', rem3) ->
  exists p, pth_ok p /\ s3 = ser ++ pth_text p /\ usv_list rem3 /\ qh_ok rem3.
Proof.
  intros Hu Hpe. unfold parse_path_start, inp_split_first. cbn [st_is_special].
  destruct l as [|c r].
  - cbn [inp_next drop_while]. unfold parse_path. rewrite loop_nil_empty. intros H. inversion H; subst.
    exists None. cbn [pth_ok pth_text]. rewrite app_nil_r. repeat split; constructor.
  - destruct Hpe as [Ht He]. rewrite inp_next_cons by exact Ht.
    destruct ((c =? 63) || (c =? 35)) eqn:Eq.
    + intros H. inversion H; subst. exists None. cbn [pth_ok pth_text]. rewrite app_nil_r.
      repeat split; try assumption. 
    + assert (forall l0 s hh1 rm, usv_list l0 ->
                loop (nlen ser) l0 (ser ++ [47]) (nlen (ser ++ [47])) [] hh = POk (s, hh1, rm) ->
                exists p, pth_ok p /\ s = ser ++ pth_text p /\ usv_list rm /\ qh_ok rm) as G.
      { intros l0 s hh1 rm Hu0 Hl.
        assert (ser ++ [47] = Bs ser [] ++ []) as EB by (unfold Bs; cbn; rewrite !app_nil_r; reflexivity).
        rewrite EB in Hl. rewrite app_nil_r in Hl at 2.
        apply (loop_inv ser dbg l0 [] [] [] hh s hh1 rm Hu0) in Hl; try reflexivity.
        2:{ split; [constructor | reflexivity]. }
        destruct Hl as (segs & last & -> & Hs & Hl & _ & ->).
        exists (Some (segs, last)). cbn [pth_ok pth_text]. unfold Bs, path_text. rewrite <- !app_assoc.
        repeat split; try assumption; [apply usv_cbb_rest; exact Hu0 | apply cbb_rest_head]. }
      apply usv_cons in Hu. destruct Hu as [Hc Hr].
      destruct (c =? 47) eqn:E47.
      * apply N.eqb_eq in E47. subst c. unfold parse_path.
        rewrite (loop_first_slash (nlen ser) (47 :: r) r ser hh) by (apply inp_next_cons; reflexivity).
        apply (G r). exact Hr.
      * unfold parse_path. apply (G (c :: r)). apply usv_cons. split; assumption.
Qed.

(* L3 *)
Theorem pps_canon ser p X hh : pth_ok p -> qh_ok X ->
  parse_path_start dbg CUrlParser STNotSpecial hh ser (pth_text p ++ X) = POk (ser ++ pth_text p, hh, X).
Proof.
  intros Hp HX. unfold parse_path_start, inp_split_first. cbn [st_is_special].
  destruct p as [[segs last]|]; cbn [pth_text pth_ok] in *.
  - destruct Hp as [Hs Hl]. unfold path_text. cbn [app]. rewrite inp_next_cons by reflexivity.
    replace ((47 =? 63) || (47 =? 35)) with false by reflexivity. replace (47 =? 47) with true by reflexivity.
    unfold parse_path.
    rewrite (loop_first_slash (nlen ser) _ ((segs_text segs ++ last) ++ X) ser hh) by (apply inp_next_cons; reflexivity).
    rewrite <- app_assoc. rewrite (path_loop_canon dbg (nlen ser) segs last X (ser ++ [47]) hh Hs Hl HX).
    rewrite <- !app_assoc. reflexivity.
  - cbn [app]. rewrite app_nil_r. destruct X as [|c r].
    + cbn [inp_next drop_while]. unfold parse_path. apply loop_nil_empty.
    + destruct HX as [Hq Ht]. rewrite inp_next_cons by exact Ht. unfold is_qh in Hq. rewrite Hq. reflexivity.
Qed.

End PathStart.

(* ---------- with_query_and_fragment after an authority: no marker handling ---------- *)
Lemma wqf_auth ovr st se ue hs he hi port ps ser rem : se + 3 <= ps ->
  nfirstn 3 (nskipn se ser) = [58; 47; 47] ->
  with_query_and_fragment ovr CUrlParser st se ue hs he hi port ps ser rem
  = (' (s2, qs, fs) <~ parse_query_and_fragment ovr CUrlParser st se ser rem ;;
     POk (mkUrl s2 se ue hs he hi port ps qs fs)).
Proof.
  intros Hle H3. unfold with_query_and_fragment.
  replace (ps =? se + 1) with false by lia.
  destruct (ps =? se + 3) eqn:E3.
  - apply N.eqb_eq in E3. replace (ps - se) with 3 by lia. rewrite H3. reflexivity.
  - reflexivity.
Qed.

Lemma scheme_rem_usv input sch rem : usv_list input ->
  parse_scheme CUrlParser (input_new_trim_c0 input) = Some (sch, rem) -> usv_list rem.
Proof.
  intros Hu Hs. destruct (parse_scheme_suffix _ _ _ _ Hs) as [pre0 Hpre].
  assert (usv_list (input_new_trim_c0 input)) as Ht.
  { unfold input_new_trim_c0, trim_matches. apply usv_rev.
    destruct (drop_while_spec is_c0_or_space (rev (drop_while is_c0_or_space input))) as (a & Ha & _).
    destruct (drop_while_spec is_c0_or_space input) as (a0 & Ha0 & _).
    rewrite Ha0 in Hu. apply usv_app in Hu. destruct Hu as [_ Hu].
    apply usv_rev in Hu. rewrite Ha in Hu. apply usv_app in Hu. tauto. }
  rewrite Hpre in Ht. apply usv_app in Ht. tauto.
Qed.

Lemma split_prefix_str_usv pfx : forall l r, usv_list l -> inp_split_prefix_str pfx l = Some r -> usv_list r.
Proof.
  induction pfx as [|c pfx IH]; intros l r Hu H; cbn [inp_split_prefix_str] in H; [inversion H; subst; exact Hu|].
  destruct (inp_next l) as [[d t]|] eqn:En; [|discriminate]. destruct (d =? c); [|discriminate].
  exact (IH t r (inp_next_usv l d t Hu En) H).
Qed.

(* ================= the canonical form ================= *)
Section Auth.
Variable dbg : bool.
Variable hp hpo : list N -> result host.
Variable hd : host -> list N.
Hypothesis HOK : HostRT hp hpo hd.
Hypothesis HAb : host_above hp hpo hd.

Definition auth_front (sch : list N) (ui : uinfo) (h : host) (pt : option N) : list N :=
  (sch ++ [58; 47; 47]) ++ ui_text ui ++ hd h ++ port_text pt.
Definition auth_pre sch ui h pt (p : pth) : list N := auth_front sch ui h pt ++ pth_text p.
Definition auth_ser sch ui h pt p (q f : option (list N)) : list N := auth_pre sch ui h pt p ++ qf_text q f.
Definition auth_url sch ui h pt p q f : url :=
  let a := nlen sch + 3 in
  mkUrl (auth_ser sch ui h pt p q f) (nlen sch) (a + ui_ulen ui) (a + nlen (ui_text ui))
        (a + nlen (ui_text ui) + nlen (hd h)) (hi_of_host h) pt (nlen (auth_front sch ui h pt))
        (qf_qs (nlen (auth_pre sch ui h pt p)) q) (qf_fs (nlen (auth_pre sch ui h pt p)) q f).

Record auth_ok (st : scheme_type) sch ui h pt (p : pth) q f : Prop := mk_auth_ok {
  ak_sch : scheme_canon sch = true;
  ak_st : scheme_type_of sch = st;
  ak_ui : ui_ok ui;
  ak_h : host_ok hp hpo hd st h;
  ak_emp : h = HDomain [] -> ui = UNone /\ pt = None;
  ak_pt : port_ok (default_port sch) pt;
  ak_p : pth_ok p;
  ak_q : opt_clean (query_set st) q;
  ak_f : opt_clean T_FRAGMENT f;
  ak_b : nlen (auth_front sch ui h pt) <= U32_MAX_P;
  ak_bq : opt_le (qf_qs (nlen (auth_pre sch ui h pt p)) q) U32_MAX_P;
  ak_bf : opt_le (qf_fs (nlen (auth_pre sch ui h pt p)) q f) U32_MAX_P
}.

Lemma front_eq sch ui h pt :
  (((sch ++ [58]) ++ [47; 47]) ++ ui_text ui) ++ hd h ++ port_text pt = auth_front sch ui h pt.
Proof. unfold auth_front. rewrite <- !app_assoc. reflexivity. Qed.

Lemma front_sch sch ui h pt X : nfirstn (nlen sch) (auth_front sch ui h pt ++ X) = sch.
Proof. unfold auth_front. rewrite <- !app_assoc. apply nfirstn_app_len. Qed.

Lemma front_css sch ui h pt X : nfirstn 3 (nskipn (nlen sch) (auth_front sch ui h pt ++ X)) = [58; 47; 47].
Proof. unfold auth_front. rewrite <- !app_assoc. rewrite nskipn_app_len. reflexivity. Qed.

Lemma front_len sch ui h pt : nlen (auth_front sch ui h pt) = nlen sch + 3 + nlen (ui_text ui) + nlen (hd h) + nlen (port_text pt).
Proof. unfold auth_front. rewrite !nlen_app. unfold nlen at 2. cbn [length]. lia. Qed.

Lemma ui_text_nil ui : nlen (ui_text ui) = 0 -> ui = UNone.
Proof. destruct ui as [|u|u p]; [reflexivity| |]; cbn [ui_text]; intros H; exfalso; len_lia. Qed.

Lemma ui_ulen_le ui : ui_ulen ui <= nlen (ui_text ui).
Proof. destruct ui as [|u|u p]; cbn [ui_text ui_ulen]; len_lia. Qed.

Lemma hi_none h : hi_eqb (hi_of_host h) HI_None = true -> h = HDomain [].
Proof. destruct h as [[|d0 d]|a|pcs]; cbn; congruence. Qed.

Lemma default_port_ns sch : scheme_type_of sch = STNotSpecial -> default_port sch = None.
Proof.
  unfold scheme_type_of, default_port.
  destruct (list_eqb sch s_http); [discriminate|]. destruct (list_eqb sch s_https); [discriminate|].
  destruct (list_eqb sch s_ws); [discriminate|]. destruct (list_eqb sch s_wss); [discriminate|].
  destruct (list_eqb sch s_ftp); [discriminate|]. reflexivity.
Qed.

Section WithOvr.
Variable ovr : option (list N -> list N).

(* L1: everything after "scheme://" *)
Theorem ads_out sch l u : scheme_canon sch = true -> scheme_type_of sch = STNotSpecial -> usv_list l ->
  after_double_slash dbg hp hpo hd ovr CUrlParser STNotSpecial (nlen sch) (sch ++ [58]) l = POk u ->
  exists ui h pt p q f, auth_ok STNotSpecial sch ui h pt p q f /\ u = auth_url sch ui h pt p q f.
Proof.
  intros Hsc Hst Hu. unfold after_double_slash.
  destruct (parse_userinfo STNotSpecial ((sch ++ [58]) ++ [47; 47]) l) as [[[ser1 ue] rem]| |] eqn:E1; cbn [pbind]; try discriminate.
  destruct (parse_userinfo_out _ _ _ _ _ _ Hu E1) as (ui & Hui & -> & -> & Hur). clear E1.
  destruct (to_u32 (nlen (((sch ++ [58]) ++ [47; 47]) ++ ui_text ui))) as [hs| |] eqn:Eu; cbn [pbind]; try discriminate.
  apply to_u32_inv in Eu. destruct Eu as [-> Hb1].
  destruct (parse_host_and_port hp hpo hd CUrlParser STNotSpecial (nlen sch) (((sch ++ [58]) ++ [47; 47]) ++ ui_text ui) rem)
    as [[[[[ser2 he] hi] port] rem2]| |] eqn:E2; cbn [pbind]; try discriminate.
  destruct (phap_out hp hpo hd HOK HAb STNotSpecial eq_refl _ _ _ _ _ _ _ _ Hur E2)
    as (h & Hh & Hpt & Hemp & -> & -> & -> & Hur2 & Hpe). clear E2.
  rewrite front_eq in *.
  destruct (hi_eqb (hi_of_host h) HI_None && negb (nlen ((sch ++ [58]) ++ [47; 47]) =? nlen (((sch ++ [58]) ++ [47; 47]) ++ ui_text ui))) eqn:Ee;
    [discriminate|].
  destruct (to_u32 (nlen (auth_front sch ui h port))) as [ps| |] eqn:Eu; cbn [pbind]; try discriminate.
  apply to_u32_inv in Eu. destruct Eu as [-> Hb2].
  destruct (parse_path_start dbg CUrlParser STNotSpecial true (auth_front sch ui h port) rem2) as [[[s3 hh] rem3]| |] eqn:E3;
    cbn [pbind]; try discriminate.
  destruct (pps_out dbg _ _ _ _ _ _ Hur2 Hpe E3) as (p & Hp & -> & Hur3 & Hq3). clear E3.
  fold (auth_pre sch ui h port p).
  rewrite wqf_auth; [|rewrite front_len; lia | apply front_css].
  destruct (parse_query_and_fragment ovr CUrlParser STNotSpecial (nlen sch) (auth_pre sch ui h port p) rem3)
    as [[[s4 qs] fs]| |] eqn:E4; cbn [pbind]; try discriminate.
  apply pqf_out in E4; [|exact Hur3|].
  2:{ unfold auth_pre. rewrite <- app_assoc. rewrite front_sch. apply query_enc_nonspecial. exact Hst. }
  destruct E4 as (-> & -> & -> & Bq & Bf & Cq & Cf).
  intros H. inversion H; subst u. clear H.
  exists ui, h, port, p, (pqf_q STNotSpecial rem3), (pqf_f rem3). split.
  - constructor; try assumption.
    + intros E. split; [|exact (Hemp E)]. subst h. cbn [hi_of_host hi_eqb andb] in Ee. apply negb_false_iff in Ee.
      apply N.eqb_eq in Ee. apply ui_text_nil. rewrite !nlen_app in Ee. lia.
    + replace (nfirstn (nlen sch) ((((sch ++ [58]) ++ [47; 47]) ++ ui_text ui) ++ hd h)) with sch in Hpt; [exact Hpt|].
      rewrite <- !app_assoc. symmetry. apply nfirstn_app_len.
  - unfold auth_url. f_equal; rewrite ?nlen_app; unfold nlen; cbn [length]; lia.
Qed.

(* ---------- L3 ---------- *)
Lemma hi_some h : h <> HDomain [] -> hi_eqb (hi_of_host h) HI_None = false.
Proof. destruct h as [[|d0 d]|a|pcs]; cbn; congruence. Qed.

Lemma digit_plain sp c : is_digit c = true -> plainc sp c = true.
Proof. unfold is_digit, plainc, auth_delim, is_tnl. destruct sp; lia. Qed.

Lemma port_text_scan sp pt X : tail_ok X ->
  (match pt with Some p => p <= 65535 | None => True end) ->
  forall count last, scan_last_at sp (port_text pt ++ X) count last = last.
Proof.
  intros HX Hp count last. destruct pt as [p|]; cbn [port_text app].
  - change (58 :: decimal p ++ X) with ((58 :: decimal p) ++ X). rewrite scan_plain.
    + apply scan_stop. apply tail_stop. exact HX.
    + cbn [forallb]. replace (plainc sp 58) with true by (destruct sp; reflexivity). cbn [andb].
      apply (forallb_impl is_digit); [apply digit_plain|]. exact (proj2 (port_rt p Hp)).
  - apply scan_stop. apply tail_stop. exact HX.
Qed.

Lemma auth_scan st h pt X : host_ok hp hpo hd st h -> (h = HDomain [] -> pt = None) ->
  (match pt with Some p => p <= 65535 | None => True end) -> tail_ok X ->
  forall count last, scan_last_at (st_is_special st) (hd h ++ port_text pt ++ X) count last = last.
Proof.
  intros Hh Hemp Hp HX. destruct Hh as [[-> _]|(Hne & Ht & _)].
  - rewrite (hd_empty hp hpo hd HOK). cbn [app]. apply port_text_scan; [exact HX | exact Hp].
  - apply host_text_scan; [exact Ht|]. apply port_text_scan; [exact HX | exact Hp].
Qed.

Lemma port_ok_le dflt pt : port_ok dflt pt -> match pt with Some p => p <= 65535 | None => True end.
Proof. destruct pt; [intros [H _]; exact H | tauto]. Qed.

Lemma ads_canon sch ui h pt p q f : auth_ok STNotSpecial sch ui h pt p q f ->
  after_double_slash dbg hp hpo hd ovr CUrlParser STNotSpecial (nlen sch) (sch ++ [58])
    (ui_text ui ++ hd h ++ port_text pt ++ pth_text p ++ qf_text q f)
  = POk (auth_url sch ui h pt p q f).
Proof.
  intros K. destruct K as [Ksch Kst Kui Kh Kemp Kpt Kp Kq Kf Kb Kbq Kbf].
  assert (qh_ok (qf_text q f)) as Hqf by (unfold qf_text; destruct q; destruct f; cbn; auto).
  pose proof (pth_tail p _ Hqf) as Htail.
  pose proof (front_len sch ui h pt) as FL. pose proof (ui_ulen_le ui) as UL.
  assert (nlen ((sch ++ [58]) ++ [47; 47]) = nlen sch + 3) as L0 by len_lia.
  unfold after_double_slash.
  rewrite parse_userinfo_canon; [| exact Kui | | lia].
  2:{ apply (auth_scan STNotSpecial h pt _ Kh (fun E => proj2 (Kemp E)) (port_ok_le _ _ Kpt) Htail). }
  cbn [pbind]. rewrite to_u32_ok by (rewrite nlen_app; lia). cbn [pbind].
  rewrite phap_unfold.
  rewrite (parse_host_canon hp hpo hd HOK STNotSpecial eq_refl h pt _ Kh (fun E => proj2 (Kemp E)) Htail). cbn [pbind].
  rewrite (hap_tail_canon hp hpo hd STNotSpecial (nlen sch) _ h pt _ Kh (fun E => proj2 (Kemp E))); [| | exact Htail | rewrite nlen_app; lia].
  2:{ replace (nfirstn (nlen sch) ((((sch ++ [58]) ++ [47; 47]) ++ ui_text ui) ++ hd h)) with sch; [exact Kpt|].
      rewrite <- !app_assoc. symmetry. apply nfirstn_app_len. }
  cbn [pbind]. rewrite front_eq.
  assert (hi_eqb (hi_of_host h) HI_None
          && negb (nlen ((sch ++ [58]) ++ [47; 47]) =? nlen (((sch ++ [58]) ++ [47; 47]) ++ ui_text ui)) = false) as Ee.
  { destruct Kh as [[-> _]|(Hne & _)].
    - destruct (Kemp eq_refl) as [-> _]. cbn [ui_text]. rewrite app_nil_r. rewrite N.eqb_refl. apply andb_false_r.
    - rewrite (hi_some h Hne). reflexivity. }
  rewrite Ee. rewrite to_u32_ok by exact Kb. cbn [pbind].
  rewrite pps_canon by assumption. cbn [pbind]. fold (auth_pre sch ui h pt p).
  rewrite wqf_auth; [| lia | apply front_css].
  rewrite (pqf_canon ovr STNotSpecial (nlen sch) (auth_pre sch ui h pt p) q f); try assumption.
  - cbn [pbind]. unfold auth_url, auth_ser. f_equal. f_equal; rewrite ?nlen_app; unfold nlen; cbn [length]; lia.
  - unfold auth_pre. rewrite <- app_assoc. rewrite front_sch. apply query_enc_nonspecial. exact Kst.
Qed.

(* ---------- every byte of the canonical serialization is ASCII above U+0020 ---------- *)
Definition okc (c : N) : bool := above_space c && (c <? 128).

Lemma okc_above l : forallb okc l = true -> forallb above_space l = true.
Proof. apply forallb_impl. intros c H. unfold okc in H. apply andb_true_iff in H. tauto. Qed.

Lemma okc_ascii l : forallb okc l = true -> ascii l.
Proof.
  rewrite forallb_forall. intros H. apply Forall_forall. intros c Hc. specialize (H c Hc).
  unfold okc in H. apply andb_true_iff in H. unfold is_ascii. lia.
Qed.

Lemma okc_of l : forallb above_space l = true -> ascii l -> forallb okc l = true.
Proof.
  rewrite !forallb_forall. intros H1 H2 c Hc. unfold okc. rewrite (H1 c Hc). cbn [andb].
  unfold ascii in H2. rewrite Forall_forall in H2. specialize (H2 c Hc). unfold is_ascii in H2. lia.
Qed.

Lemma clean_okc S l : kept_sat S above_space = true -> clean S l = true -> forallb okc l = true.
Proof. intros HS Hc. apply okc_of; [exact (clean_forallb _ _ l HS Hc) | exact (clean_ascii S l Hc)]. Qed.

Lemma kept_USERINFO_above : kept_sat T_USERINFO above_space = true. Proof. vm_compute. reflexivity. Qed.
Lemma kept_query_set_above st : kept_sat (query_set st) above_space = true.
Proof. unfold query_set. destruct (st_is_special st); [exact kept_SQUERY_above | exact kept_QUERY_above]. Qed.

Lemma ui_text_okc ui : ui_ok ui -> forallb okc (ui_text ui) = true.
Proof.
  destruct ui as [|u|u p]; cbn [ui_ok ui_text]; [reflexivity| |].
  - intros [Hu _]. rewrite forallb_app, (clean_okc _ _ kept_USERINFO_above Hu). reflexivity.
  - intros (Hu & Hp & _). rewrite forallb_app. cbn [forallb]. rewrite forallb_app.
    rewrite (clean_okc _ _ kept_USERINFO_above Hu), (clean_okc _ _ kept_USERINFO_above Hp). reflexivity.
Qed.

Lemma host_okc st h : host_ok hp hpo hd st h -> forallb okc (hd h) = true.
Proof.
  intros [[-> _]|(_ & Ht & _ & Ha)]; [rewrite (hd_empty hp hpo hd HOK); reflexivity|].
  apply okc_of; [exact Ha | exact (proj1 Ht)].
Qed.

Lemma port_text_okc dflt pt : port_ok dflt pt -> forallb okc (port_text pt) = true.
Proof.
  destruct pt as [p|]; [|reflexivity]. intros [Hp _]. cbn [port_text forallb]. replace (okc 58) with true by reflexivity.
  cbn [andb]. apply (forallb_impl is_digit); [|exact (proj2 (port_rt p Hp))].
  intros c Hc. unfold okc, above_space, is_c0_or_space, is_digit in *. lia.
Qed.

Lemma good_seg_okc s : good_seg s = true -> forallb okc s = true.
Proof. intros H. destruct (good_seg_parts s H) as (Hc & _). exact (clean_okc _ _ kept_PATH_above Hc). Qed.

Lemma pth_text_okc p : pth_ok p -> forallb okc (pth_text p) = true.
Proof.
  destruct p as [[segs last]|]; [|reflexivity]. intros [Hs Hl]. cbn [pth_text]. unfold path_text. cbn [forallb].
  replace (okc 47) with true by reflexivity. cbn [andb]. rewrite forallb_app, (good_seg_okc last Hl), andb_true_r.
  induction segs as [|s segs IH]; [reflexivity|].
  cbn [forallb] in Hs. apply andb_true_iff in Hs. destruct Hs as [H1 H2].
  unfold segs_text. cbn [map concat]. fold (segs_text segs). rewrite !forallb_app. rewrite (good_seg_okc s H1), (IH H2). reflexivity.
Qed.

Lemma qf_text_okc st q f : opt_clean (query_set st) q -> opt_clean T_FRAGMENT f -> forallb okc (qf_text q f) = true.
Proof.
  intros Hq Hf. unfold qf_text. rewrite forallb_app. apply andb_true_iff. split.
  - destruct q as [x|]; [|reflexivity]. cbn [qf_qtext forallb]. rewrite (clean_okc _ _ (kept_query_set_above st) Hq). reflexivity.
  - destruct f as [y|]; [|reflexivity]. cbn [qf_ftext forallb]. rewrite (clean_okc _ _ kept_FRAGMENT_above Hf). reflexivity.
Qed.

Lemma scheme_okc sch : forallb scheme_out_char sch = true -> forallb okc sch = true.
Proof.
  apply forallb_impl. intros c H. unfold scheme_out_char, is_lower, is_digit, okc, above_space, is_c0_or_space in *. lia.
Qed.

Lemma auth_ser_okc st sch ui h pt p q f : auth_ok st sch ui h pt p q f -> forallb okc (auth_ser sch ui h pt p q f) = true.
Proof.
  intros K. destruct K as [Ksch Kst Kui Kh Kemp Kpt Kp Kq Kf Kb Kbq Kbf].
  unfold scheme_canon in Ksch. apply andb_true_iff in Ksch. destruct Ksch as [_ Hall].
  unfold auth_ser, auth_pre, auth_front. rewrite !forallb_app.
  rewrite (scheme_okc sch Hall), (ui_text_okc ui Kui), (host_okc st h Kh), (port_text_okc _ pt Kpt), (pth_text_okc p Kp),
    (qf_text_okc st q f Kq Kf). reflexivity.
Qed.

Lemma auth_ser_shape sch ui h pt p q f :
  auth_ser sch ui h pt p q f = sch ++ 58 :: 47 :: 47 :: ui_text ui ++ hd h ++ port_text pt ++ pth_text p ++ qf_text q f.
Proof. unfold auth_ser, auth_pre, auth_front. rewrite <- !app_assoc. reflexivity. Qed.

(* L3 for the class *)
Theorem reparse_auth_form sch ui h pt p q f : auth_ok STNotSpecial sch ui h pt p q f ->
  parse_url dbg hp hpo hd ovr None (auth_ser sch ui h pt p q f) = POk (auth_url sch ui h pt p q f).
Proof.
  intros K. pose proof (auth_ser_okc _ _ _ _ _ _ _ _ K) as Hokc. pose proof (ads_canon _ _ _ _ _ _ _ K) as Hads.
  destruct K as [Ksch Kst Kui Kh Kemp Kpt Kp Kq Kf Kb Kbq Kbf].
  unfold parse_url. rewrite trim_c0_id by (apply all_above_edge; apply okc_above; exact Hokc).
  rewrite auth_ser_shape. rewrite parse_scheme_canon by exact Ksch.
  unfold parse_with_scheme. rewrite Kst.
  rewrite to_u32_ok by (rewrite front_len in Kb; lia). cbn [pbind].
  unfold parse_non_special. unfold s_ss. cbn [inp_split_prefix_str].
  rewrite inp_next_cons by reflexivity. replace (47 =? 47) with true by reflexivity.
  rewrite inp_next_cons by reflexivity. replace (47 =? 47) with true by reflexivity.
  exact Hads.
Qed.

(* L1 for the class, from the input *)
Theorem parse_auth_out input sch rem rem' u : usv_list input ->
  parse_scheme CUrlParser (input_new_trim_c0 input) = Some (sch, rem) ->
  scheme_type_of sch = STNotSpecial -> inp_split_prefix_str s_ss rem = Some rem' ->
  parse_url dbg hp hpo hd ovr None input = POk u ->
  exists ui h pt p q f, auth_ok STNotSpecial sch ui h pt p q f /\ u = auth_url sch ui h pt p q f.
Proof.
  intros Hu Hs Hns Hss. unfold parse_url. rewrite Hs. unfold parse_with_scheme. rewrite Hns.
  destruct (to_u32 (nlen sch)) as [se| |] eqn:Eu; cbn [pbind]; try discriminate.
  apply to_u32_inv in Eu. destruct Eu as [-> Hb0].
  pose proof (scheme_rem_usv input sch rem Hu Hs) as Hur.
  pose proof (split_prefix_str_usv s_ss rem rem' Hur Hss) as Hur'.
  unfold parse_non_special. rewrite Hss.
  apply ads_out; [exact (parse_scheme_out _ _ _ Hs) | exact Hns | exact Hur'].
Qed.

End WithOvr.
End Auth.
