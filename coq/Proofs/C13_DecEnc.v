(* Proofs/C13_DecEnc.v - decode (encode s) = s through the u32 model, outside the class Known_C13.
   The u32 encoder succeeded, so every delta fits in 32 bits; known_c13 s = false, so no delta that fits
   has  di + delta  above u32::MAX; hence the walk w_outer of Proofs/C13_RtB.v succeeds, the checked
   decoder reads the output back (b_outer_rt) and the model's decoder follows it (dec_loop_complete). *)
From RU Require Import Base.Prelude Base.Utf8 Base.U32_c13 Gen.Tables Model.Punycode Spec.Rfc3492
  Proofs.C13_Ascii Proofs.C13_Bounds Proofs.C13_Enc Proofs.C13_Dec Proofs.C13_Known Proofs.C13_Vli Proofs.C13_Rt
  Proofs.C13_DecB Proofs.C13_RtB.

(* ---- the instrumented walk of known_c13 ---- *)
Lemma k_inner_cons c r n delta h di pos hit :
  k_inner (c :: r) n delta h di pos hit =
  if c =? n then
    k_inner r n 0 (h + 1) (pos + 1) (pos + 1)
      (hit || (((if c <? n then delta + 1 else delta) <=? u32_max) && (u32_max <? di + (if c <? n then delta + 1 else delta))))
  else k_inner r n (if c <? n then delta + 1 else delta) h di (if c <? n then pos + 1 else pos) hit.
Proof. reflexivity. Qed.

Lemma k_outer_S f input il n delta h di hit :
  k_outer (S f) input il n delta h di hit =
  if h <? il then
    match k_inner input (match s_min_ge n input with Some m => m | None => n end)
            (delta + ((match s_min_ge n input with Some m => m | None => n end) - n) * (h + 1)) h di 0 hit with
    | (delta, h, di, hit) => k_outer f input il ((match s_min_ge n input with Some m => m | None => n end) + 1) (delta + 1) h di hit
    end
  else hit.
Proof. reflexivity. Qed.

Lemma k_inner_true l : forall n d h di pos, snd (k_inner l n d h di pos true) = true.
Proof.
  induction l as [|c r IH]; intros n d h di pos; [reflexivity|].
  rewrite k_inner_cons. destruct (c =? n); [cbn [orb]|]; apply IH.
Qed.

Lemma k_outer_true fuel : forall input il n d h di, k_outer fuel input il n d h di true = true.
Proof.
  induction fuel as [|f IH]; intros input il n d h di.
  - cbn [k_outer]. destruct (h <? il); reflexivity.
  - rewrite k_outer_S. destruct (h <? il); [|reflexivity].
    pose proof (k_inner_true input (match s_min_ge n input with Some m => m | None => n end)
                  (d + ((match s_min_ge n input with Some m => m | None => n end) - n) * (h + 1)) h di 0) as HT.
    destruct (k_inner input _ _ h di 0 true) as [[[kd kh] kdi] khit]. cbn [snd] in HT. subst khit. apply IH.
Qed.

Lemma k_inner_proj l : forall n b d bias h di pos hit kd kh kdi khit sd sb sh so,
  k_inner l n d h di pos hit = (kd, kh, kdi, khit) -> s_enc_inner l n b d bias h = (sd, sb, sh, so) ->
  kd = sd /\ kh = sh.
Proof.
  induction l as [|c r IH]; intros n b d bias h di pos hit kd kh kdi khit sd sb sh so Hk Hs.
  - cbn [k_inner] in Hk. cbn [s_enc_inner] in Hs. inversion Hk. inversion Hs. subst. split; reflexivity.
  - rewrite k_inner_cons in Hk. rewrite s_enc_inner_cons in Hs. cbv zeta in Hs. destruct (c =? n).
    + destruct (s_enc_inner r n b 0 (s_adapt (if c <? n then d + 1 else d) (h + 1) (h =? b)) (h + 1))
        as [[[a1 b1] c1] o1] eqn:E.
      inversion Hs. subst. eapply IH; [exact Hk|exact E].
    + eapply IH; [exact Hk|exact Hs].
Qed.

(* ---- the u32 encoder succeeded and the class flag stayed down: the walk succeeds ---- *)
Lemma link_inner cfg l : forall m bl d bias h di pos st kd kh kdi,
  enc_inner cfg true l m bl d bias h = Ok st -> d <= U32_MAX ->
  k_inner l m d h di pos false = (kd, kh, kdi, false) ->
  w_inner l m d h di pos = Some (kd, kh, kdi).
Proof.
  induction l as [|c l IH]; intros m bl d bias h di pos st kd kh kdi He Hd Hk.
  - cbn [k_inner] in Hk. inversion Hk. reflexivity.
  - rewrite enc_inner_cons in He. rewrite k_inner_cons in Hk. rewrite w_inner_cons.
    destruct (c =? m) eqn:Ecm.
    + apply N.eqb_eq in Ecm. subst c. replace (m <? m) with false in * by lia.
      cbn [rbind] in He. rewrite enc_vli_fuel_ok in He. cbn [rbind] in He.
      rewrite adapt_ok in He by lia. cbn [rbind] in He.
      destruct (enc_inner cfg true l m bl 0 (s_adapt d (h + 1) (h =? bl)) (h + 1)) as [st'| |site] eqn:Er;
        cbn [rbind] in He; try discriminate.
      cbn [orb] in Hk.
      destruct (di + d <=? U32_MAX) eqn:Efit.
      * replace ((d <=? u32_max) && (u32_max <? di + d)) with false in Hk by (unfold u32_max, U32_MAX in *; lia).
        eapply IH; [exact Er|unfold U32_MAX; lia|exact Hk].
      * replace ((d <=? u32_max) && (u32_max <? di + d)) with true in Hk by (unfold u32_max, U32_MAX in *; lia).
        pose proof (k_inner_true l m 0 (h + 1) (pos + 1) (pos + 1)) as HT. rewrite Hk in HT. discriminate.
    + destruct (c <? m) eqn:Elt.
      * unfold caller_add, checked_add in He.
        destruct (d + 1 <=? U32_MAX) eqn:E1; cbn [of_checked rbind] in He; [|discriminate].
        eapply IH; [exact He|lia|exact Hk].
      * cbn [rbind] in He. eapply IH; [exact He|exact Hd|exact Hk].
Qed.

Lemma link_outer cfg input (HL : len input <= U32_MAX) fuel : forall cp delta bias h bl di o,
  enc_outer fuel cfg true input (len input) bl cp delta bias h = Ok o -> delta <= U32_MAX ->
  k_outer fuel input (len input) cp delta h di false = false ->
  w_outer fuel input (len input) cp delta h di = true.
Proof.
  induction fuel as [|f IH]; intros cp delta bias h bl di o He Hd Hk.
  - cbn [w_outer]. destruct (h <? len input); reflexivity.
  - rewrite enc_outer_S in He. rewrite k_outer_S in Hk. rewrite w_outer_S.
    destruct (h <? len input); [|reflexivity].
    rewrite min_ge_eq in He. destruct (s_min_ge cp input) as [m|] eqn:Em; [|discriminate].
    apply s_min_ge_some in Em. destruct Em as [Hin [Hle Hmin]].
    unfold caller_mul, checked_mul in He.
    destruct ((m - cp) * (h + 1) <=? U32_MAX) eqn:E1; cbn [of_checked rbind] in He; [|discriminate].
    unfold caller_add at 1, checked_add in He.
    destruct (delta + (m - cp) * (h + 1) <=? U32_MAX) eqn:E2; cbn [of_checked rbind] in He; [|discriminate].
    destruct (enc_inner cfg true input m bl (delta + (m - cp) * (h + 1)) bias h) as [st| |site] eqn:Ei;
      cbn [rbind] in He; try discriminate.
    destruct (enc_inner_ext cfg input m bl (delta + (m - cp) * (h + 1)) bias h) as [Hx|Hx];
      rewrite Ei in Hx; [discriminate|]. inversion Hx as [Hst]. clear Hx.
    destruct st as [[[d1 b1] h1] o1].
    destruct (k_inner input m (delta + (m - cp) * (h + 1)) h di 0 false) as [[[kd kh] kdi] khit] eqn:Ek.
    destruct khit; [rewrite k_outer_true in Hk; discriminate|].
    rewrite (link_inner cfg input m bl _ bias h di 0 _ kd kh kdi Ei ltac:(lia) Ek).
    destruct (k_inner_proj input m bl _ bias h di 0 false kd kh kdi false d1 b1 h1 o1 Ek (eq_sym Hst)) as [-> ->].
    symmetry in Hst. apply s_inner_facts in Hst. destruct Hst as [_ [_ Hd1]]. specialize (Hd1 Hin).
    unfold unchecked_add in He. replace (d1 + 1 <=? U32_MAX) with true in He by lia. cbn [rbind] in He.
    destruct (enc_outer f cfg true input (len input) bl (m + 1) (d1 + 1) b1 h1) as [o2| |site] eqn:Eo;
      cbn [rbind] in He; try discriminate.
    eapply IH; [exact Eo|lia|exact Hk].
Qed.

(* ---- the public decoder follows a successful checked run ---- *)
Lemma digit_u8_char d : d < 36 -> digit_u8 (s_digit_char d) = Some d.
Proof. intros H. rewrite digit_u8_rfc. apply s_digit_value_char. exact H. Qed.

Lemma decode_complete cfg p base rest out' :
  s_split p = (base, rest) -> forallb (fun c => c <? 128) base = true -> len base <= U32_MAX ->
  b_dec_loop digit_u8 rest false 0 1 s_base 0 s_initial_n s_initial_bias base = Some out' ->
  decode cfg p = Ok out'.
Proof.
  intros Hs Ha Hl Hb. unfold decode, decode_with, decoder_decode. rewrite split_eq, Hs.
  cbn [inst_external andb]. rewrite Ha. cbn [negb].
  assert (Hw : u32_wrap (N.of_nat (length base)) = len base).
  { unfold u32_wrap. apply N.mod_small. unfold len, U32_MOD, U32_MAX in *. lia. }
  rewrite Hw.
  pose proof (Rep_base_only U8External base 0) as HR0. rewrite map_base_ext in HR0.
  destruct (dec_loop_complete cfg U8External base rest false 0 1 BASE 0 (len base) INITIAL_N INITIAL_BIAS []
              base out' eq_refl HR0 Hb) as [ins' [Hd HR]].
  rewrite Hd. exact (collect_Rep _ _ _ _ _ HR).
Qed.

(* ---- decode (encode s) = s whenever the walk succeeds ---- *)
Lemma dec_enc_of_walk cfg s p : usv_list s -> encode cfg s = Ok p ->
  w_outer (S (length s)) s (len s) s_initial_n 0 (cnt (fun c => c <? 128) s) 0 = true ->
  decode cfg p = Ok s.
Proof.
  intros Hu He Hw.
  assert (Hub : Forall (fun c => is_usvb c = true) s).
  { unfold usv_list in Hu. eapply Forall_impl; [|exact Hu]. intros c Hc. apply is_usvb_spec. exact Hc. }
  assert (HL : len s <= U32_MAX).
  { unfold encode in He. unfold len. destruct (U32_MAX <? N.of_nat (length s)) eqn:EL; [discriminate|lia]. }
  destruct (encode_safe cfg s) as [E|E]; rewrite E in He; [discriminate|]. inversion He. subst p. clear He E.
  rewrite s_encode_unfold.
  remember (cnt (fun c => c <? 128) s) as b.
  remember (s_enc_outer (S (length s)) s (len s) b 128 0 72 b) as D.
  assert (HD : nodelim D) by (subst D; apply outer_nodelim).
  pose proof (cnt_le (fun c => c <? 128) s) as Hcb. rewrite <- Heqb in Hcb.
  assert (Hmain : b_dec_loop digit_u8 D false 0 1 s_base 0 s_initial_n s_initial_bias (filter (fun c => c <? 128) s) = Some s).
  { subst D. apply (b_outer_rt digit_u8 digit_u8_char); try assumption; try reflexivity; try lia.
    - rewrite Heqb. apply cnt_filter.
    - unfold s_initial_n. lia.
    - unfold len in *. rewrite Nat2N.inj_succ. lia.
    - unfold s_initial_bias. lia. }
  assert (Hbl : len (filter (fun c => c <? 128) s) <= U32_MAX) by (rewrite <- cnt_filter, <- Heqb; lia).
  destruct (0 <? b) eqn:Eb.
  - eapply decode_complete; [|apply forallb_filter|exact Hbl|exact Hmain].
    apply (split_encoded _ D); [|exact HD].
    intros Hnil. rewrite Heqb, cnt_filter, Hnil in Eb. cbn in Eb. lia.
  - assert (Hnil : filter (fun c => c <? 128) s = []).
    { destruct (filter (fun c => c <? 128) s) eqn:Ef; [reflexivity|]. rewrite Heqb, cnt_filter, Ef, len_cons in Eb. lia. }
    rewrite Hnil in *. cbn [app].
    apply (decode_complete cfg D [] D s); [|reflexivity|rewrite len_nil; unfold U32_MAX; lia|exact Hmain].
    unfold s_split. rewrite (rpos_none D HD). reflexivity.
Qed.

(* ---- outside the class Known_C13 ---- *)
Theorem dec_enc_main : forall cfg s p, usv_list s -> encode cfg s = Ok p -> ~ Known_C13 s -> decode cfg p = Ok s.
Proof.
  intros cfg s p Hu He Hk. apply (dec_enc_of_walk cfg s p Hu He).
  assert (HL : len s <= U32_MAX).
  { unfold encode in He. unfold len. destruct (U32_MAX <? N.of_nat (length s)) eqn:EL; [discriminate|lia]. }
  assert (Hk' : known_c13 s = false) by (unfold Known_C13 in Hk; destruct (known_c13 s); [exfalso; apply Hk; reflexivity|reflexivity]).
  unfold known_c13 in Hk'. change (N.of_nat (length (filter (fun c => c <? 128) s))) with (len (filter (fun c => c <? 128) s)) in Hk'.
  rewrite <- cnt_filter in Hk'. change (N.of_nat (length s)) with (len s) in Hk'.
  unfold encode in He. replace (U32_MAX <? N.of_nat (length s)) with false in He by (unfold len in HL; lia).
  unfold encode_into in He. rewrite enc_basic_ok in He by (rewrite N.add_0_l; exact HL). rewrite !N.add_0_l in He.
  cbn [rbind] in He.
  destruct (enc_outer (S (length s)) cfg true s (len s) (cnt (fun c => c <? 128) s) INITIAL_N 0 INITIAL_BIAS
              (cnt (fun c => c <? 128) s)) as [o| |site] eqn:Eo; cbn [rbind] in He; try discriminate.
  eapply (link_outer cfg s HL); [exact Eo|unfold U32_MAX; lia|exact Hk'].
Qed.
