(* Proofs/Idna_C10_Walk.v - the first output walk of process in fail-fast / never-unicode mode (to_ascii)
   writes only clean characters, and returns Passthrough only for a clean input; with the invariant of
   Proofs/Idna_C10_Inner.v this gives the C10 output theorem:
     every Ok result of to_ascii is ASCII, has no upper-case letter and no member of the deny list. *)
From RU Require Import Base.Prelude Base.Utf8 Base.U32_c13 Gen.Tables Model.Punycode Model.Uts46
  Proofs.C13_Ascii Proofs.Idna_Sim Proofs.Idna_Api Proofs.Idna_Known Proofs.Idna_Hyp Proofs.Idna_Redisc
  Proofs.Idna_C10_Deny Proofs.Idna_C10_Puny Proofs.Idna_C10_Prefix Proofs.Idna_C10_Inner.

Lemma position_some (f : N -> bool) l : forall i, position f l = Some i -> Forall (fun b => f b = false) (firstn i l).
Proof.
  induction l as [|x r IH]; intros i H; [discriminate|]. cbn [position] in H.
  destruct (f x) eqn:E; [inversion H; constructor|].
  destruct (position f r) as [j|]; [|discriminate]. inversion H. subst i. cbn [firstn].
  constructor; [exact E|exact (IH j eq_refl)].
Qed.

Lemma Forall_firstn_gen {X : Type} (Q : X -> Prop) n : forall l, Forall Q l -> Forall Q (firstn n l).
Proof.
  induction n as [|n IH]; intros l H; [constructor|]. destruct l as [|x r]; [constructor|].
  inversion H; subst. cbn [firstn]. constructor; [assumption|apply IH; assumption].
Qed.

Lemma len_zero (l : list N) : len l = 0 -> l = [].
Proof. destruct l; [reflexivity|]. unfold len. cbn [List.length]. lia. Qed.

Lemma len_cons1 c (l : list N) : len (c :: l) = len l + 1.
Proof. unfold len. cbn [List.length]. lia. Qed.

Section Walk.
Variable cfg : bool.
Variable deny : N.
Hypothesis HU : DenyUpper deny.
Hypothesis HL : LdhFree deny.
Variable d : list N.
Variable tld : list N.
Variable bidi he : bool.

Definition Good (w : wres) : Prop :=
  Forall (Forall (clean deny)) (fst w) /\ (snd w = WPass -> Forall (clean deny) d).

Lemma Good_wcons x w : Forall (clean deny) x -> Good w -> Good (wcons x w).
Proof. intros Hx [H1 H2]. split; cbn [wcons fst snd]; [constructor; assumption|exact H2]. Qed.
Lemma Good_wapp xs w : Forall (Forall (clean deny)) xs -> Good w -> Good (wapp xs w).
Proof. intros Hx [H1 H2]. split; cbn [wapp fst snd]; [apply Forall_app; split; assumption|exact H2]. Qed.
Lemma chars_clean l : Forall (clean deny) l -> Forall (Forall (clean deny)) (chars l).
Proof.
  unfold chars. intros H. apply Forall_forall. intros x Hx. apply in_map_iff in Hx. destruct Hx as (c & <- & Hc).
  rewrite Forall_forall in H. constructor; [exact (H c Hc)|constructor].
Qed.
Lemma Good_nopass ws e : e <> WPass -> Forall (Forall (clean deny)) ws -> Good (ws, e).
Proof. intros He Hw. split; cbn [fst snd]; [exact Hw|intros H; contradiction]. Qed.
Lemma Good_pass : Forall (clean deny) d -> Good ([], WPass).
Proof. intros H. split; cbn [fst snd]; [constructor|intros _; exact H]. Qed.

Lemma Good_wpl label k : Forall (okc deny) label -> Good k -> Good (write_punycode_label cfg label k).
Proof.
  intros Hl Hk. unfold write_punycode_label. destruct (encode_internal cfg label) as [o| |s] eqn:E.
  - apply Good_wcons; [exact (xn_clean deny HL)|]. apply Good_wapp; [|exact Hk].
    apply chars_clean. exact (encode_internal_clean cfg deny label o HL Hl E).
  - apply Good_nopass; [discriminate|]. constructor; [exact (xn_clean deny HL)|constructor].
  - apply Good_nopass; [discriminate|]. constructor; [exact (xn_clean deny HL)|constructor].
Qed.

Lemma Good_flush pte flushed k : (flushed = false -> Forall (clean deny) (firstn (N.to_nat pte) d)) ->
  Good k -> Good (flush_prefix d pte flushed k).
Proof. intros Hf Hk. unfold flush_prefix. destruct flushed; [exact Hk|]. apply Good_wcons; [exact (Hf eq_refl)|exact Hk]. Qed.

Lemma lowclean_noupper m : lowclean deny m -> Forall (fun b => is_upper b = false) m -> Forall (clean deny) m.
Proof.
  unfold lowclean. intros H1 H2. apply Forall_forall. intros c Hc. rewrite Forall_forall in H1, H2.
  specialize (H1 c Hc). specialize (H2 c Hc). unfold to_lower in H1. rewrite H2 in H1. exact H1.
Qed.
Lemma lowclean_lower m : lowclean deny m -> Forall (clean deny) (map to_lower m).
Proof.
  unfold lowclean. intros H. apply Forall_forall. intros x Hx. apply in_map_iff in Hx. destruct Hx as (c & <- & Hc).
  rewrite Forall_forall in H. exact (H c Hc).
Qed.

(* the MixedCase output block *)
Lemma Good_mixed m pc sn sp pte flushed k :
  lowclean deny m ->
  (flushed = false -> exists P R, d = P ++ m ++ R /\ len P = pte /\ Forall (clean deny) P) ->
  (forall pte' fl', (fl' = false -> flushed = false /\ pte' = pte + len m /\ Forall (clean deny) m) -> Good (k pte' fl')) ->
  Good (mixed_write cfg d m he pc sn sp pte flushed k).
Proof.
  intros Hm Hpos Hk. unfold mixed_write.
  destruct (position is_upper m) as [fu|] eqn:Ep.
  - pose proof (position_some _ _ _ Ep) as Hnu.
    assert (Hm2 : lowclean deny (firstn fu m ++ skipn fu m)) by (rewrite firstn_skipn; exact Hm).
    unfold lowclean in Hm2. apply Forall_app in Hm2. destruct Hm2 as [Hm3 Hm4].
    assert (Hh : Forall (clean deny) (firstn fu m)) by (apply lowclean_noupper; assumption).
    assert (Ht : Forall (Forall (clean deny)) (chars (map to_lower (skipn fu m)))) by (apply chars_clean, lowclean_lower; exact Hm4).
    destruct flushed.
    + apply Good_wcons; [exact Hh|]. apply Good_wapp; [exact Ht|]. apply Hk. intros; discriminate.
    + destruct (Hpos eq_refl) as (P & R & Hdd & HP & Hc).
      destruct (cfg && (pte + len (firstn fu m) =? len d)); [apply Good_nopass; [discriminate|constructor]|].
      apply Good_wcons; [|apply Good_wapp; [exact Ht|apply Hk; intros; discriminate]].
      assert (Hd2 : d = (P ++ firstn fu m) ++ (skipn fu m ++ R)).
      { rewrite Hdd, <- app_assoc. f_equal. rewrite app_assoc, firstn_skipn. reflexivity. }
      replace (pte + len (firstn fu m)) with (len (P ++ firstn fu m)) by (rewrite len_app, HP; reflexivity).
      rewrite Hd2 at 1. rewrite firstn_len_app. apply Forall_app. split; assumption.
  - pose proof (position_none _ _ Ep) as Hnu.
    assert (Hcm : Forall (clean deny) m) by (apply lowclean_noupper; assumption).
    destruct flushed.
    + apply Good_wcons; [exact Hcm|]. apply Hk. intros; discriminate.
    + destruct (Hpos eq_refl) as (P & R & Hdd & HP & Hc).
      destruct (pc && (pte + len m =? len d)) eqn:E.
      * assert (Hcd : Forall (clean deny) d).
        { apply andb_true_iff in E. destruct E as [_ E]. apply N.eqb_eq in E.
          assert (HR : R = []).
          { apply len_zero. rewrite Hdd in E. rewrite !len_app in E. lia. }
          rewrite Hdd, HR, app_nil_r. apply Forall_app. split; assumption. }
        destruct (cfg && he); [apply Good_nopass; [discriminate|constructor]|exact (Good_pass Hcd)].
      * apply Hk. intros _. repeat split; assumption.
Qed.

(* the body of one iteration of the first walk, for to_ascii (fail-fast, never unicode) *)
Definition w1body (label : list N) (ip : aal) (huo flushed : bool) (kk : bool -> N -> bool -> wres) (pte : N) : wres :=
  match ip with
  | MixedCaseAscii mixed_case => mixed_write cfg d mixed_case he true 830 844 pte flushed (kk huo)
  | _ =>
    if true && cfg && (match classify_for_punycode label with PcError => true | _ => false end) then ([], WPanic 852)
    else
      let potentially_punycode := negb (is_ascii_l label) in
      let unicode := if potentially_punycode then never_unicode label tld bidi else true in
      let huo' := if potentially_punycode then huo || unicode else huo in
      if unicode then flush_prefix d pte flushed (wapp (chars label) (kk huo' pte true))
      else match ip with
           | MixedCasePunycode mixed_case => mixed_write cfg d mixed_case he true 885 899 pte flushed (kk huo')
           | _ => flush_prefix d pte flushed (write_punycode_label cfg label (kk huo' pte true))
           end
  end.

Lemma walk1_cons label labels ip aps seen pte flushed huo :
  walk1 cfg true never_unicode d tld bidi he (label :: labels) (ip :: aps) seen pte flushed huo =
  let kk := fun huo pte flushed => walk1 cfg true never_unicode d tld bidi he labels aps true pte flushed huo in
  if seen then
    if flushed then wcons [DOT] (w1body label ip huo flushed kk pte)
    else if cfg && negb (nth (N.to_nat pte) d 256 =? DOT) then ([], WPanic 810)
    else if pte + 1 =? len d then (if cfg && he then ([], WPanic 813) else ([], WPass))
    else w1body label ip huo flushed kk (pte + 1)
  else w1body label ip huo flushed kk pte.
Proof. reflexivity. Qed.

(* what the body needs when the prefix has not been flushed yet *)
Definition BodyPos (ip : aal) (aps : list aal) (pte : N) : Prop :=
  Forall (clean deny) (firstn (N.to_nat pte) d) /\
  forall m, ip = MixedCaseAscii m \/ ip = MixedCasePunycode m ->
    exists P rl, d = P ++ m ++ tailtext true rl /\ len P = pte /\ Forall (clean deny) P /\ mp_ok aps rl.

Definition WalkPos (seen : bool) (pte : N) (aps : list aal) : Prop :=
  exists P rl, d = P ++ tailtext seen rl /\ len P = pte /\ Forall (clean deny) P /\ mp_ok aps rl.

Lemma w1body_good label ip aps huo flushed kk pte :
  Forall (okc deny) label -> entry_ok deny ip ->
  (flushed = false -> BodyPos ip aps pte) ->
  (forall huo' pte' fl', (fl' = false -> WalkPos true pte' aps) -> Good (kk huo' pte' fl')) ->
  Good (w1body label ip huo flushed kk pte).
Proof.
  intros Hlab Hip Hpos Hkk.
  assert (HM : forall m huo' sn sp, (ip = MixedCaseAscii m \/ ip = MixedCasePunycode m) -> lowclean deny m ->
            Good (mixed_write cfg d m he true sn sp pte flushed (kk huo'))).
  { intros m huo' sn sp Hm Hlc. apply Good_mixed; [exact Hlc| |].
    - intros Hf. destruct (Hpos Hf) as [_ Hb]. destruct (Hb m Hm) as (P & rl & Hdd & HP & Hc & _).
      exists P, (tailtext true rl). repeat split; assumption.
    - intros pte' fl' Hfl. apply Hkk. intros Hf. destruct (Hfl Hf) as (Hf0 & -> & Hcm).
      destruct (Hpos Hf0) as [_ Hb]. destruct (Hb m Hm) as (P & rl & Hdd & HP & Hc & Hmp).
      exists (P ++ m), rl. repeat split.
      + rewrite <- app_assoc. exact Hdd.
      + rewrite len_app, HP. reflexivity.
      + apply Forall_app. split; assumption.
      + exact Hmp. }
  assert (HF : flushed = false -> Forall (clean deny) (firstn (N.to_nat pte) d)).
  { intros Hf. exact (proj1 (Hpos Hf)). }
  assert (HK : forall huo', Good (kk huo' pte true)).
  { intros huo'. apply Hkk. intros; discriminate. }
  unfold w1body. destruct ip as [m|m|].
  - apply HM; [left; reflexivity|exact Hip].
  - destruct (true && cfg && match classify_for_punycode label with PcError => true | _ => false end);
      [apply Good_nopass; [discriminate|constructor]|].
    cbv zeta. unfold never_unicode. destruct (is_ascii_l label) eqn:Ea; cbn [negb].
    + apply Good_flush; [exact HF|]. apply Good_wapp; [|apply HK]. apply chars_clean.
      unfold is_ascii_l in Ea. rewrite forallb_forall in Ea. apply Forall_forall. intros c Hc.
      rewrite Forall_forall in Hlab. apply okc_clean; [|exact (Hlab c Hc)].
      specialize (Ea c Hc). unfold is_ascii_cp in Ea. lia.
    + apply HM; [right; reflexivity|exact Hip].
  - destruct (true && cfg && match classify_for_punycode label with PcError => true | _ => false end);
      [apply Good_nopass; [discriminate|constructor]|].
    cbv zeta. unfold never_unicode. destruct (is_ascii_l label) eqn:Ea; cbn [negb].
    + apply Good_flush; [exact HF|]. apply Good_wapp; [|apply HK]. apply chars_clean.
      unfold is_ascii_l in Ea. rewrite forallb_forall in Ea. apply Forall_forall. intros c Hc.
      rewrite Forall_forall in Hlab. apply okc_clean; [|exact (Hlab c Hc)].
      specialize (Ea c Hc). unfold is_ascii_cp in Ea. lia.
    + apply Good_flush; [exact HF|]. apply Good_wpl; [exact Hlab|apply HK].
Qed.

Lemma mp_ok_head ip aps rl m : (ip = MixedCaseAscii m \/ ip = MixedCasePunycode m) -> mp_ok (ip :: aps) rl ->
  exists rl', rl = m :: rl' /\ mp_ok aps rl'.
Proof.
  intros [-> | ->] H; cbn [mp_ok] in H; (destruct rl as [|x rl']; [contradiction|]); destruct H as [-> H];
    exists rl'; split; [reflexivity|exact H|reflexivity|exact H].
Qed.

Theorem walk1_good labels : forall aps seen pte flushed huo,
  Forall (Forall (okc deny)) labels -> AllMixedClean deny aps ->
  (flushed = false -> WalkPos seen pte aps) ->
  Good (walk1 cfg true never_unicode d tld bidi he labels aps seen pte flushed huo).
Proof.
  induction labels as [|label labels IH]; intros aps seen pte flushed huo Hlabs Haps Hpos.
  - cbn [walk1]. apply Good_nopass; [discriminate|constructor].
  - destruct aps as [|ip aps]; [cbn [walk1]; apply Good_nopass; [discriminate|constructor]|].
    inversion Hlabs as [|? ? Hlab Hlabs']; subst. inversion Haps as [|? ? Hip Haps']; subst.
    rewrite walk1_cons. cbv zeta.
    assert (HB : forall pte0, (flushed = false -> BodyPos ip aps pte0) ->
              Good (w1body label ip huo flushed
                      (fun huo0 pte1 flushed0 => walk1 cfg true never_unicode d tld bidi he labels aps true pte1 flushed0 huo0) pte0)).
    { intros pte0 Hb. apply (w1body_good label ip aps); [exact Hlab|exact Hip|exact Hb|].
      intros huo' pte' fl' Hw. apply IH; assumption. }
    destruct seen.
    + destruct flushed.
      * apply Good_wcons; [constructor; [exact (dot_clean deny HL)|constructor]|]. apply HB. intros; discriminate.
      * destruct (Hpos eq_refl) as (P & rl & Hdd & HP & Hc & Hmp).
        destruct (cfg && negb (nth (N.to_nat pte) d 256 =? DOT)); [apply Good_nopass; [discriminate|constructor]|].
        destruct (pte + 1 =? len d) eqn:E.
        -- destruct (cfg && he); [apply Good_nopass; [discriminate|constructor]|]. apply Good_pass.
           apply N.eqb_eq in E. destruct rl as [|x rl'].
           ++ cbn [tailtext] in Hdd. rewrite app_nil_r in Hdd. rewrite Hdd. exact Hc.
           ++ cbn [tailtext] in Hdd.
              assert (Hj : join_dots (x :: rl') = []).
              { apply len_zero. rewrite Hdd in E. rewrite len_app, len_cons1 in E. lia. }
              rewrite Hdd, Hj. apply Forall_app. split; [exact Hc|]. constructor; [exact (dot_clean deny HL)|constructor].
        -- apply HB. intros _. split.
           ++ destruct rl as [|x rl'].
              ** cbn [tailtext] in Hdd. rewrite app_nil_r in Hdd. apply Forall_firstn_gen. rewrite Hdd. exact Hc.
              ** cbn [tailtext] in Hdd.
                 assert (Hd2 : d = (P ++ [DOT]) ++ join_dots (x :: rl')) by (rewrite <- app_assoc; exact Hdd).
                 replace (pte + 1) with (len (P ++ [DOT])) by (rewrite len_app, HP; reflexivity).
                 rewrite Hd2 at 1. rewrite firstn_len_app. apply Forall_app. split; [exact Hc|].
                 constructor; [exact (dot_clean deny HL)|constructor].
           ++ intros m Hm. destruct (mp_ok_head _ _ _ _ Hm Hmp) as (rl' & -> & Hmp').
              exists (P ++ [DOT]), rl'. repeat split.
              ** cbn [tailtext] in Hdd. rewrite join_dots_cons in Hdd. rewrite <- app_assoc. exact Hdd.
              ** rewrite len_app, HP. reflexivity.
              ** apply Forall_app. split; [exact Hc|]. constructor; [exact (dot_clean deny HL)|constructor].
              ** exact Hmp'.
    + apply HB. intros Hf. destruct (Hpos Hf) as (P & rl & Hdd & HP & Hc & Hmp). cbn [tailtext] in Hdd. split.
      * rewrite <- HP. rewrite Hdd at 1. rewrite firstn_len_app. exact Hc.
      * intros m Hm. destruct (mp_ok_head _ _ _ _ Hm Hmp) as (rl' & -> & Hmp').
        exists P, rl'. repeat split; try assumption. rewrite join_dots_cons in Hdd. exact Hdd.
Qed.
End Walk.

(* ---- process / to_ascii ---- *)
Section Main.
Variable A : adapter.
Variable cfg : bool.

Theorem to_ascii_clean d deny hy dns b r : NvNoTrunc A -> bytes d -> DenyUpper deny -> LdhFree deny ->
  to_ascii A cfg d deny hy dns = Ok (b, r) -> Forall (clean deny) r.
Proof.
  intros HN Hd HU HL H. apply to_ascii_dns_ignore in H.
  unfold to_ascii, process in H.
  destruct (process_inner A cfg true hy deny d) as [ptu bd he db ap|s] eqn:Ei; [|discriminate].
  pose proof (process_inner_ff A cfg deny HU HL d Hd hy ptu bd he db ap HN Ei) as HI.
  destruct (ptu =? len d) eqn:Ep.
  { (* Passthrough at once *)
    assert (Hr : r = d).
    { destruct (cfg && he); cbn [dns_is_ignore negb] in H; [discriminate|]. inversion H. reflexivity. }
    subst r. apply N.eqb_eq in Ep. destruct HI as [HI|HI].
    - inversion HI as [[E0 E1 E2 E3 E4]]. rewrite E0 in Ep. symmetry in Ep. apply len_zero in Ep. rewrite Ep. constructor.
    - destruct HI as (_ & _ & P & rl & Hdd & HP & Hc & _).
      assert (Hj : join_dots rl = []).
      { apply len_zero. rewrite Hdd in Ep. rewrite len_app in Ep. lia. }
      rewrite Hdd, Hj, app_nil_r. exact Hc. }
  cbn [andb] in H. destruct he; [discriminate|].
  destruct HI as [HI|HI]; [inversion HI|].
  destruct HI as (Hdb & Hap & P & rl & Hdd & HP & Hc & Hmp).
  destruct (cfg && negb (Bool.eqb false (existsb is_fffd db))); [discriminate|].
  match type of H with context [walk1 ?a ?b ?c ?d0 ?e ?f ?g ?h ?i ?j ?k ?l ?m] =>
    pose proof (walk1_good a deny HL d0 e f g h i j k l m (split_on_Forall _ _ _ Hdb) Hap) as HW;
    destruct (walk1 a b c d0 e f g h i j k l m) as [ws we] end.
  assert (HG : Good deny d (ws, we)).
  { apply HW. intros _. exists P, rl. repeat split; assumption. }
  clear HW. destruct HG as [HG1 HG2]. cbn [fst snd] in *.
  cbn [run_sink negb] in H.
  destruct we as [|huo|s]; try discriminate.
  - cbn [dns_is_ignore negb] in H. inversion H. subst. exact (HG2 eq_refl).
  - rewrite andb_false_r in H. cbn [dns_is_ignore negb] in H. inversion H. subst.
    clear -HG1. induction HG1 as [|x ws Hx _ IH]; cbn [concat]; [constructor|]. apply Forall_app. split; assumption.
Qed.

(* C10_ascii_statement, with the adapter premise NvNoTrunc *)
Theorem to_ascii_output d deny hy dns b r : NvNoTrunc A -> bytes d -> valid_deny deny ->
  to_ascii A cfg d deny hy dns = Ok (b, r) ->
  Forall (fun c => c < 128 /\ is_upper c = false /\ deny_member deny c = false) r.
Proof.
  intros HN Hd Hv H. destruct (valid_deny_facts deny Hv) as [HU HL].
  eapply Forall_impl; [|exact (to_ascii_clean d deny hy dns b r HN Hd HU HL H)].
  intros c. apply clean_final. exact HU.
Qed.
End Main.

Lemma c10_ascii_under_notrunc : forall A cfg, NvNoTrunc A -> C10_ascii_statement A cfg.
Proof. intros A cfg HN d deny hy dns b r Hb Hv H. exact (to_ascii_output A cfg d deny hy dns b r HN Hb Hv H). Qed.

(* ---- the premise NvNoTrunc cannot be dropped: a normalize_validate that returns a proper prefix ---- *)
(* uts46.rs compares the normalised text with the decoded Punycode text by zip (no length check), so an
   adapter whose normalize_validate truncates makes to_ascii accept (and return, borrowed) a label whose
   decoded text has a denied ASCII character beyond the compared prefix. *)
Definition trunc1 : adapter :=
  {| map_normalize := fun l => l; normalize_validate := fun l => firstn 1 l;
     joining_type := fun _ => 0; bidi_class := toy_bc;
     is_mark := fun _ => false; is_virama := fun _ => false |}.
Definition W_C10_trunc : list N := [120; 110; 45; 45; 95; 45; 57; 102; 97].   (* xn--_-9fa, decodes to U+00E9 '_' *)

Lemma w_c10_trunc :
  to_ascii trunc1 true W_C10_trunc DENY_STD3 HAllow DVerify = Ok (true, W_C10_trunc) /\
  deny_member DENY_STD3 95 = true /\
  to_ascii toy true W_C10_trunc DENY_STD3 HAllow DVerify = Err.
Proof. vm_compute. repeat split; reflexivity. Qed.

Lemma c10_ascii_unconditional_refuted : exists A cfg, ~ C10_ascii_statement A cfg.
Proof.
  exists trunc1, true. intros H.
  assert (Hb : bytes W_C10_trunc) by (unfold W_C10_trunc; repeat constructor; unfold is_byte; lia).
  assert (Hv : valid_deny DENY_STD3) by (left; reflexivity).
  specialize (H W_C10_trunc DENY_STD3 HAllow DVerify true W_C10_trunc Hb Hv (proj1 w_c10_trunc)).
  rewrite Forall_forall in H.
  assert (Hin : In 95 W_C10_trunc) by (unfold W_C10_trunc; cbn [In]; tauto).
  destruct (H 95 Hin) as (_ & _ & Hm). rewrite (proj1 (proj2 w_c10_trunc)) in Hm. discriminate.
Qed.

Lemma toy_notrunc : NvNoTrunc toy.
Proof.
  intros l t H. cbn [toy normalize_validate] in H. apply (f_equal (@List.length N)) in H.
  rewrite app_length in H. destruct t; [reflexivity|]. cbn [List.length] in H. lia.
Qed.

(* a borrowed result is a fixed point *)
Lemma to_ascii_idem_borrowed A cfg d deny hy dns r :
  to_ascii A cfg d deny hy dns = Ok (true, r) -> to_ascii A cfg r deny hy dns = Ok (true, r).
Proof. intros H. pose proof (to_ascii_borrow A cfg d deny hy dns r H) as E. subst r. exact H. Qed.
