(* Proofs/C02_JoinAbs.v - joins whose reference carries its own scheme (G1, second part).
   A reference with a non-special scheme, or with a special non-file scheme that is not the scheme of the base or is
   followed by two or more slashes / back-slashes, never consults the base: parser.rs goes to parse_non_special /
   after_double_slash exactly as without base.  So the join is the parse without base, and parse_Canon applies:
   the result is canonical whatever the base record is (no premise on the base at all). *)
From RU Require Import Base.Prelude Base.Utf8 Base.Utf8Facts Model.AsciiSet Gen.Tables
  Model.PercentEncoding Model.HostT Model.UrlRecord Model.Parser Model.Setters Model.WF
  Proofs.ListN Proofs.C02_Enc Proofs.C02_Parts
  Proofs.C02_Opaque Proofs.C02_Path Proofs.C02_PathL1 Proofs.C02_Reach Proofs.C02_AuthParts
  Proofs.C02_Auth Proofs.C02_AuthWf Proofs.C02_PathSp Proofs.C02_AuthSp Proofs.C02_AuthMain Proofs.C02_SetQF
  Proofs.C02_Canon.
Open Scope N_scope.
Open Scope list_scope.

(* the references covered: own scheme, not file; special scheme: other than the base's, or >= 2 slashes follow *)
Definition abs_ref (b : url) (input : list N) : bool :=
  match parse_scheme CUrlParser (input_new_trim_c0 input) with
  | Some (sch, rem) =>
      match scheme_type_of sch with
      | STFile => false
      | STNotSpecial => true
      | STSpecialNotFile =>
          negb ((fst (inp_count_matching is_slash_or_bslash rem) <? 2) && list_eqb (b_scheme b) sch)
      end
  | None => false
  end.

Lemma abs_ref_nonfile b input : abs_ref b input = true -> nonfile_input input = true.
Proof.
  unfold abs_ref, nonfile_input. destruct (parse_scheme CUrlParser (input_new_trim_c0 input)) as [[sch rem]|]; [|discriminate].
  destruct (scheme_type_of sch); [discriminate | reflexivity | reflexivity].
Qed.

(* the base is not consulted *)
Theorem join_abs_eq dbg hp hpo hd ovr b input : abs_ref b input = true ->
  parse_url dbg hp hpo hd ovr (Some b) input = parse_url dbg hp hpo hd ovr None input.
Proof.
  unfold abs_ref, parse_url. destruct (parse_scheme CUrlParser (input_new_trim_c0 input)) as [[sch rem]|]; [|discriminate].
  unfold parse_with_scheme. destruct (to_u32 (nlen sch)) as [se| |]; cbn [pbind]; try reflexivity.
  destruct (scheme_type_of sch); [discriminate | | reflexivity].
  destruct (inp_count_matching is_slash_or_bslash rem) as [sl rm]. cbn [fst]. intros H. apply negb_true_iff in H.
  rewrite H. reflexivity.
Qed.

Section JoinAbs.
Variable dbg : bool.
Variable hp hpo : list N -> result host.
Variable hd : host -> list N.
Hypothesis HRT : HostRT hp hpo hd.

(* the result of such a join is canonical, for EVERY base record *)
Theorem join_abs_Canon ovr b input u : host_above hp hpo hd -> usv_list input -> abs_ref b input = true ->
  (ovr = None \/ special_input input = false) ->
  parse_url dbg hp hpo hd ovr (Some b) input = POk u -> Canon hp hpo hd u.
Proof.
  intros HAb Hu Ha Hov Hp. rewrite (join_abs_eq dbg hp hpo hd ovr b input Ha) in Hp.
  exact (parse_Canon dbg hp hpo hd HRT ovr input u HAb Hu (abs_ref_nonfile b input Ha) Hov Hp).
Qed.
End JoinAbs.
