(* Proofs/C07_EqAuthClass.v - towards the second clause of C07_statement for the authority class of
   the C01 equivalence (no base, non-special scheme, "scheme://[userinfo@]host[:port][/path][?q][#f]"):
   the canonical records of Proofs/C01_EqAuth.v - auth_url on the model side, spec_auth_url on the
   Standard's - are related by corr and the Standard's one is `sane`, under auth_ok and four facts
   about the host and the username that the parsers establish (the host is the empty host on both
   sides or on neither; its text is empty only then and does not start with '@'; credentials come with
   a non-empty host; the username is userinfo-percent-encoded). *)
From RU Require Import Base.Prelude Base.Utf8 Base.Utf8Facts Model.AsciiSet Gen.Tables Model.PercentEncoding
  Model.HostT Model.UrlRecord Model.Parser Model.Setters Model.WF Model.KnownC01 Model.KnownC07 Spec.Whatwg
  Proofs.ListN Proofs.C02_Enc Proofs.C02_Parts Proofs.C02_Opaque Proofs.C02_Path Proofs.C03_WF Proofs.C06_Steps
  Proofs.C06_FragQuery Proofs.C06_Suffix Proofs.C08_Input
  Proofs.C01_Tables Proofs.C01_EqRun Proofs.C01_EqEnc Proofs.C01_EqApi Proofs.C01_EqOpaque Proofs.C01_EqRef
  Proofs.C01_EqAuthSpec Proofs.C01_EqAuthModel Proofs.C01_EqAuth
  Proofs.C07_Defs Proofs.C07_Corr Proofs.C07_EqFive Proofs.C07_EqOpaqueClass Proofs.C07_SpecProto Proofs.C07_EqSix.

Lemma list10_inv5 {A} (a1 a2 a3 a4 a5 a6 a7 a8 a9 a10 b1 b2 b3 b4 b5 b6 b7 b8 b9 b10 : A) :
  Some [a1; a2; a3; a4; a5; a6; a7; a8; a9; a10] = Some [b1; b2; b3; b4; b5; b6; b7; b8; b9; b10] ->
  a2 = b2 /\ a3 = b3 /\ a4 = b4 /\ a6 = b6 /\ a8 = b8.
Proof. intros H. inversion H. auto. Qed.

Section AuthCorr.
Variable dbg : bool.
Variable shs : spec_host -> list N.
Variables (sch un pw ht : list N) (hi : host_internal) (sh : spec_host) (po : option N)
          (segs : list (list N)) (q f : option (list N)).
Hypothesis K : auth_ok shs sch un pw ht hi sh po segs q f.
Hypothesis X1 : hi = HI_None <-> sh = SEmpty.
Hypothesis X2 : ht = [] -> hi = HI_None.
Hypothesis X3 : starts_with_cp 64 ht = false.
Hypothesis X4 : clean T_USERINFO un = true.
Hypothesis X5 : hi = HI_None -> un = [] /\ pw = [].

Let pt := flat_map (fun s => 47 :: s) segs.
Let u := auth_url sch un pw ht hi po pt q f.
Let su := spec_auth_url sch un pw sh po segs q f.

Theorem corr_auth : corr dbg shs u su.
Proof.
  pose proof (au_wf shs sch un pw ht hi sh po segs q f K) as W. fold pt u in W.
  pose proof (au_api dbg shs sch un pw ht hi sh po segs q f K) as Api. fold pt u su in Api.
  pose proof (related_auth dbg shs sch un pw ht hi sh po segs q f K) as Rel. fold pt u su in Rel.
  pose proof (au_has_authority sch un pw ht hi po segs q f) as Ha. fold pt u in Ha.
  pose proof (au_has_password shs sch un pw ht hi sh po segs q f K) as Hpw. fold pt u in Hpw.
  destruct (accessors_reconcatenate dbg u W)
    as (sch' & un' & pw' & hs' & pth' & q' & f' & Es & Eun & Epw & Ehs & Ept & Eq & Ef & _).
  rewrite (api_by_accessors dbg u W _ _ _ _ _ _ _ Es Eun Epw Ehs Ept Eq Ef) in Api.
  unfold api_of_parts, spec_api_list in Api. apply list10_inv5 in Api. destruct Api as (A2 & A3 & A4 & A6 & A8).
  unfold get_protocol, su, spec_auth_url in A2. cbn [su_scheme] in A2. apply app_inv_tail in A2. subst sch'.
  unfold get_username, su, spec_auth_url in A3. cbn [su_username] in A3. subst un'.
  unfold get_password, su, spec_auth_url in A4. cbn [su_password] in A4.
  unfold get_hostname, su, spec_auth_url in A6. cbn [su_host serialize_host_opt] in A6.
  unfold get_pathname in A8. subst pth'.
  set (s0 := auth_s0 sch). set (s1 := s0 ++ cred_text un pw). set (s2 := s1 ++ ht).
  set (s3 := s2 ++ port_suffix po). set (s4 := s3 ++ pt).
  assert (ser u = s4 ++ qf_qtext q ++ qf_ftext f) as Eser by reflexivity.
  assert (query_start u = qf_qs (nlen s4) q) as Eqs by reflexivity.
  assert (fragment_start u = qf_fs (nlen s4) q f) as Efs by reflexivity.
  assert (has_host u = match hi with HI_None => false | _ => true end) as Ehh by reflexivity.
  destruct K as [Hsch Hnsp Hht Hcol Hhi Hhp Hpo Hpt Hq].
  constructor; unfold su; cbn [spec_auth_url su_scheme su_username su_password su_host su_port su_path su_query su_fragment].
  - exact W.
  - (* the host text *)
    intros Hh. rewrite Ehh in Hh.
    assert (ht <> []) as Hne by (intros E; rewrite (X2 E) in Hh; discriminate Hh).
    change (host_start u) with (nlen s1). change (host_end u) with (nlen s2).
    assert (ser u = s1 ++ (ht ++ port_suffix po ++ pt ++ qf_qtext q ++ qf_ftext f)) as E1.
    { rewrite Eser. unfold s4, s3, s2. rewrite <- !app_assoc. reflexivity. }
    rewrite E1, !byte_eqb_head, !starts_with_cp_app.
    assert (0 < nlen ht) as Hpos.
    { destruct ht as [|a r] eqn:E; [contradiction | rewrite nlen_cons; lia]. }
    split; [unfold s2; rewrite nlen_app; lia|].
    destruct ht as [|a r] eqn:E; [contradiction|]. split; [exact Hcol | exact X3].
  - exact Es.
  - exact Eun.
  - (* password *)
    rewrite Epw. f_equal. rewrite (password_piece dbg u W), Hpw in Epw. injection Epw as Epw.
    destruct pw as [|b r]; cbn [is_nil negb] in Epw; subst pw'; [reflexivity|].
    cbn [optl] in A4. rewrite A4. reflexivity.
  - rewrite Ehs. cbn [host_text option_map]. rewrite A6. reflexivity.
  - rewrite Ehh. cbn [host_is_null host_is_empty orb].
    destruct hi; destruct sh; try reflexivity;
      try (exfalso; assert (HI_None = HI_None) as E by reflexivity; apply X1 in E; discriminate E);
      try (exfalso; assert (@SEmpty = SEmpty) as E by reflexivity; apply X1 in E; discriminate E).
  - exact Ha.
  - (* the '@' *)
    rewrite Ha. cbn [andb]. change (username_end u) with (nlen s0 + nlen un). change (host_start u) with (nlen s1).
    unfold s1, includes_credentials. cbn [su_username su_password]. rewrite nlen_app. unfold cred_text.
    destruct un as [|a r]; destruct pw as [|b r']; cbn [is_nil andb list_eqb negb orb];
      [rewrite N.eqb_refl; reflexivity | | |];
      (apply negb_true_iff, N.eqb_neq; rewrite ?nlen_app, ?nlen_cons, ?nlen_nil; lia).
  - reflexivity.
  - exact Ept.
  - (* query *)
    rewrite (query_eval dbg u W), Eqs. destruct q as [x|]; cbn [qf_qs]; [|reflexivity].
    do 2 f_equal. unfold piece. cbn [pidx]. rewrite Eqs, Efs, Eser. cbn [qf_qs qf_qtext].
    cbn [app]. rewrite nskipn_app_succ.
    destruct f as [y|]; cbn [qf_fs qf_ftext].
    + cbn [qf_qtext]. rewrite nlen_cons. replace (nlen s4 + (1 + nlen x) - (nlen s4 + 1)) with (nlen x) by lia.
      apply nfirstn_app_len.
    + rewrite app_nil_r. apply nfirstn_all. rewrite !nlen_app, nlen_cons. lia.
  - (* fragment *)
    rewrite (fragment_eval dbg u W), Efs. destruct f as [y|]; cbn [qf_fs]; [|reflexivity].
    do 2 f_equal. unfold piece. cbn [pidx]. rewrite Efs, Eser. cbn [qf_fs qf_ftext].
    rewrite app_assoc. rewrite <- (nlen_app s4 (qf_qtext q)). rewrite nskipn_app_succ.
    apply nfirstn_all. rewrite nlen_app, nlen_cons. lia.
  - rewrite Ha. reflexivity.
  - pose proof (rel_cbb _ _ _ _ Rel) as Cb. rewrite (cannot_be_a_base_eval u W) in Cb.
    injection Cb as Cb. exact Cb.
  - exact X4.
Qed.

Theorem sane_auth : sane su.
Proof.
  destruct K as [Hsch Hnsp Hht Hcol Hhi Hhp Hpo Hpt Hq].
  assert (is_special_scheme sch = false) as Ens.
  { rewrite <- special_schemes_are_the_standards, Hnsp. reflexivity. }
  assert (list_eqb sch str_file = false) as Enf.
  { destruct (list_eqb sch str_file) eqn:E; [|reflexivity]. rewrite (file_is_special sch E) in Ens. discriminate Ens. }
  constructor; unfold su, cannot_have_username_password_port, is_special, includes_credentials, has_opaque_path;
    cbn [spec_auth_url su_scheme su_username su_password su_host su_port su_path host_is_null orb].
  - rewrite Enf, orb_false_r. intros He.
    assert (sh = SEmpty) as Esh by (destruct sh; try discriminate He; reflexivity).
    apply X1 in Esh. destruct (X5 Esh) as [-> ->]. rewrite (Hhp (Hhi Esh)). split; reflexivity.
  - rewrite Ens. discriminate.
  - discriminate.
Qed.

End AuthCorr.

Theorem corrS_auth dbg shs sch un pw ht hi sh po segs q f :
  auth_ok shs sch un pw ht hi sh po segs q f ->
  (hi = HI_None <-> sh = SEmpty) -> (ht = [] -> hi = HI_None) -> starts_with_cp 64 ht = false ->
  clean T_USERINFO un = true -> (hi = HI_None -> un = [] /\ pw = []) ->
  corrS dbg shs (auth_url sch un pw ht hi po (flat_map (fun s => 47 :: s) segs) q f)
                (spec_auth_url sch un pw sh po segs q f).
Proof.
  intros K X1 X2 X3 X4 X5. split.
  - exact (corr_auth dbg shs sch un pw ht hi sh po segs q f K X1 X2 X3 X4 X5).
  - exact (sane_auth shs sch un pw ht hi sh po segs q f K X1 X4 X5).
Qed.
