(* Proofs/C06_Atomic.v - a mutator that reports failure returns the record it was given.
   No well-formedness premise: every Err branch of the model returns `u` itself, and the proofs
   below walk through every bind / if / match on the way to a result. *)
From RU Require Import Base.Prelude Base.Utf8 Model.AsciiSet Gen.Tables Model.PercentEncoding
  Model.HostT Model.UrlRecord Model.Parser Model.Setters.

(* one step of case analysis on the head scrutinee of H : <expr> = Some (u', st) *)
Ltac at_step H :=
  lazymatch type of H with
  | bindo ?x _ = Some _ =>
      let E := fresh "E" in destruct x eqn:E; cbn [bindo] in H; [|discriminate H]
  | (if ?c then _ else _) = Some _ => let E := fresh "E" in destruct c eqn:E
  | (let '(_, _) := ?x in _) = Some _ => let E := fresh "E" in destruct x eqn:E
  | (match ?x with _ => _ end) = Some _ => let E := fresh "E" in destruct x eqn:E
  | None = Some _ => discriminate H
  | Some (_, _) = Some (_, _) => inversion H; subst; clear H
  end.

Ltac at_done Hne := try reflexivity; try (exfalso; apply Hne; reflexivity); try discriminate.

Ltac at_solve H Hne :=
  repeat (at_step H; at_done Hne).

Section Atomic.
Variable dbg : bool.
Variable host_parse : list N -> result host.
Variable host_parse_opaque : list N -> result host.
Variable host_display : host -> list N.

Lemma set_port_atomic u p u' st :
  set_port dbg u p = Some (u', st) -> st <> SOk -> u' = u.
Proof.
  intros H Hne. unfold set_port in H. at_solve H Hne.
Qed.

Lemma set_host_atomic u h u' st :
  set_host dbg host_parse host_parse_opaque host_display u h = Some (u', st) -> st <> SOk -> u' = u.
Proof.
  intros H Hne. unfold set_host in H. at_solve H Hne.
Qed.

Lemma set_ip_host_atomic u h u' st :
  set_ip_host dbg host_display u h = Some (u', st) -> st <> SOk -> u' = u.
Proof.
  intros H Hne. unfold set_ip_host in H. at_solve H Hne.
Qed.

Lemma set_password_atomic u pw u' st :
  set_password dbg u pw = Some (u', st) -> st <> SOk -> u' = u.
Proof.
  intros H Hne. unfold set_password in H. at_solve H Hne.
Qed.

Lemma set_username_atomic u un u' st :
  set_username dbg u un = Some (u', st) -> st <> SOk -> u' = u.
Proof.
  intros H Hne. unfold set_username in H. at_solve H Hne.
Qed.

Lemma set_scheme_atomic u s u' st :
  set_scheme dbg u s = Some (u', st) -> st <> SOk -> u' = u.
Proof.
  intros H Hne. unfold set_scheme in H. at_solve H Hne.
Qed.

Lemma path_segments_session_atomic u ops u' st :
  path_segments_session dbg u ops = Some (u', st) -> st <> SOk -> u' = u.
Proof.
  intros H Hne. unfold path_segments_session in H. at_solve H Hne.
Qed.

Lemma q_set_protocol_atomic u v u' st :
  q_set_protocol dbg u v = Some (u', st) -> st <> SOk -> u' = u.
Proof. unfold q_set_protocol. apply set_scheme_atomic. Qed.

Lemma q_set_username_atomic u v u' st :
  q_set_username dbg u v = Some (u', st) -> st <> SOk -> u' = u.
Proof. unfold q_set_username. apply set_username_atomic. Qed.

Lemma q_set_password_atomic u v u' st :
  q_set_password dbg u v = Some (u', st) -> st <> SOk -> u' = u.
Proof. unfold q_set_password. apply set_password_atomic. Qed.

Lemma q_set_host_atomic u v u' st :
  q_set_host dbg host_parse host_parse_opaque host_display u v = Some (u', st) -> st <> SOk -> u' = u.
Proof.
  intros H Hne. unfold q_set_host in H. at_solve H Hne.
Qed.

Lemma q_set_hostname_atomic u v u' st :
  q_set_hostname dbg host_parse host_parse_opaque host_display u v = Some (u', st) -> st <> SOk -> u' = u.
Proof.
  intros H Hne. unfold q_set_hostname in H. at_solve H Hne.
Qed.

Lemma q_set_port_atomic u v u' st :
  q_set_port dbg u v = Some (u', st) -> st <> SOk -> u' = u.
Proof.
  intros H Hne. unfold q_set_port in H. at_solve H Hne.
Qed.

End Atomic.
