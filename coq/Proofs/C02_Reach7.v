(* Proofs/C02_Reach7.v - the histories of C02_Reach6.ReachC5 with
     - NO premise on the encoding override any more (C02_Ovr: parse, every join arm), and
     - joins with EVERY reference that carries a non-file scheme, incl. the special scheme of the base followed by
       fewer than two slashes ("http:x" against an http base: C02_Ovr.join_same_Canon_g).
   ReachC6: parse (no base, non-file scheme, any override) ;; joins with every reference that has no scheme or a
   non-file scheme (any override) ;; joins of ANY Reachable4 record - file records included - with a base-ignoring
   absolute reference ;; every operation of the setter model outside known_step3 ;; query_pairs_mut
   sessions.  Every record of such a history is Canon, hence a fixpoint of re-parsing; ReachC6 is inside Reachable4.
   What Reachable4 has beyond ReachC6 is the file scheme only. *)
From RU Require Import Proofs.C15_Ser.
From Coq Require Import String.
From RU Require Import Base.Prelude Base.Utf8 Base.Utf8Facts Base.Outcome_c15 Model.AsciiSet Gen.Tables
  Model.PercentEncoding Model.HostT Model.Host Model.UrlRecord Model.Parser Model.Setters Model.WF Model.FormUrlencoded
  Model.QueryPairs
  Proofs.ListN Proofs.C02_Enc Proofs.C02_Parts Proofs.C02_Opaque Proofs.C02_Path Proofs.C02_PathL1 Proofs.C02_Reach
  Proofs.C02_AuthParts Proofs.C02_Auth Proofs.C02_AuthWf Proofs.C02_PathSp Proofs.C02_AuthSp Proofs.C02_AuthMain
  Proofs.C02_Hist Proofs.C02_SetQF Proofs.C02_Canon Proofs.C02_SetPort Proofs.C02_JoinTail Proofs.C02_ReachPartial
  Proofs.C02_Form Proofs.C02_SetCred Proofs.C02_SetCredCanon Proofs.C02_QPort Proofs.C08_AbsNonfile Proofs.C02_Reach3
  Proofs.C02_SetHostFrame Proofs.C02_SetHostCanon Proofs.C02_SetScheme Proofs.C02_PathSetter Proofs.C02_SetPath
  Proofs.C09_Host Proofs.C16_RT6Model Proofs.C02_HistInst Proofs.C02_Reach4 Proofs.C02_Stmt4 Proofs.C02_QHost
  Proofs.C02_SetHostNone Proofs.C02_SetPathNoAuth Proofs.C02_SetPathOpaque Proofs.C02_Reach5
  Proofs.C02_JoinAbs Proofs.C02_JoinPath Proofs.C02_Segments Proofs.C02_SegmentsCanon Proofs.C02_Reach6 Proofs.C02_Ovr.
Open Scope N_scope.
Open Scope list_scope.

(* references with the file scheme: the only ones the joins of ReachC6 leave out *)
Definition file_input (input : list N) : bool :=
  match parse_scheme CUrlParser (input_new_trim_c0 input) with
  | Some (sch, _) => match scheme_type_of sch with STFile => true | _ => false end
  | None => false
  end.

Section ReachC6.
Variable dbg : bool.
Variable hp hpo : list N -> result host.
Variable hd : host -> list N.
Hypothesis HOK : HostOK2 hp hpo hd.
Hypothesis HNE : host_nonempty hp hpo.

Let HRT : HostRT hp hpo hd := proj1 HOK.
Let HAb : host_above hp hpo hd := proj1 (proj2 HOK).

Inductive ReachC6 : url -> Prop :=
| RC6_parse ovr input u :
    usv_list input -> nonfile_input input = true ->
    parse_url dbg hp hpo hd ovr None input = POk u -> ReachC6 u
| RC6_join_rel ovr b input u :
    ReachC6 b -> usv_list input -> rel_ref input = true ->
    parse_url dbg hp hpo hd ovr (Some b) input = POk u -> ReachC6 u
| RC6_join_scheme ovr b input u :
    ReachC6 b -> usv_list input -> nonfile_input input = true ->
    parse_url dbg hp hpo hd ovr (Some b) input = POk u -> ReachC6 u
| RC6_join_abs_any ovr b input u :        (* base-ignoring absolute reference against ANY record of the full quantifier, file bases included *)
    Reachable4 dbg hp hpo hd b -> usv_list input -> abs_ref b input = true ->
    parse_url dbg hp hpo hd ovr (Some b) input = POk u -> ReachC6 u
| RC6_step u o u' :
    ReachC6 u -> op_args_ok o -> known_step3 dbg hp hpo hd u o = false ->
    apply_op dbg hp hpo hd u o = Some u' -> nlen (ser u') <= U32_MAX_P -> ReachC6 u'
| RC6_qpm u ops u' :
    ReachC6 u -> Forall op_ok ops -> query_pairs_session dbg u ops = Some u' ->
    nlen (ser u') <= U32_MAX_P -> ReachC6 u'.

Lemma ReachC5_C6 u : ReachC5 dbg hp hpo hd u -> ReachC6 u.
Proof.
  induction 1 as [ovr input u Hu Hn Hov Hp | ovr b input u Hr IH Hu Ht Hov Hp | ovr b input u Hr IH Hu Ht Hov Hp
                 | u o u' Hr IH Ha Hk Ho Hb | u ops u' Hr IH Hops Hs Hb].
  - exact (RC6_parse ovr input u Hu Hn Hp).
  - exact (RC6_join_rel ovr b input u IH Hu Ht Hp).
  - exact (RC6_join_scheme ovr b input u IH Hu (abs_ref_nonfile b input Ht) Hp).
  - exact (RC6_step u o u' IH Ha Hk Ho Hb).
  - exact (RC6_qpm u ops u' IH Hops Hs Hb).
Qed.

Theorem ReachC6_Canon u : ReachC6 u -> Canon hp hpo hd u.
Proof using HOK HNE HRT HAb.
  induction 1 as [ovr input u Hu Hn Hp | ovr b input u Hr IH Hu Ht Hp | ovr b input u Hr IH Hu Ht Hp
                 | ovr b input u Hr Hu Ht Hp | u o u' Hr IH Ha Hk Ho Hb | u ops u' Hr IH Hops Hs Hb].
  - exact (parse_Canon_g dbg hp hpo hd HRT HAb ovr input u Hu Hn Hp).
  - exact (join_rel_Canon_g dbg hp hpo hd HRT HAb ovr b input u IH Hu Ht Hp).
  - exact (join_nonfile_Canon_g dbg hp hpo hd HRT HAb ovr b input u IH Hu Ht Hp).
  - exact (join_abs_Canon_g dbg hp hpo hd HRT HAb ovr b input u Hu Ht Hp).
  - exact (canon_step_all dbg hp hpo hd HOK HNE u o u' IH Ha Hk Ho Hb).
  - exact (qpm_Canon dbg hp hpo hd HRT u ops u' IH Hops Hs Hb).
Qed.

Theorem reach_partial6 u : ReachC6 u ->
  Fixpoint_of_reparse dbg hp hpo hd u /\ wf_b u = true /\ ascii (ser u).
Proof using HOK HNE HRT HAb. intros H. exact (Canon_fixpoint dbg hp hpo hd HRT u (ReachC6_Canon u H)). Qed.

Theorem reach6_absolute u b : ReachC6 u ->
  parse_url dbg hp hpo hd None (Some b) (utf8_lossy (ser u)) = POk u.
Proof using HOK HNE HRT HAb.
  intros H. exact (absolute_form dbg hp hpo hd HRT b u (Canon_nonfile_form hp hpo hd u (ReachC6_Canon u H))).
Qed.

Theorem ReachC6_Reachable4 u : ReachC6 u -> Reachable4 dbg hp hpo hd u.
Proof using HOK HNE HRT HAb.
  intros H. induction H as [ovr input u Hu Hn Hp | ovr b input u Hr IH Hu Ht Hp | ovr b input u Hr IH Hu Ht Hp
                           | ovr b input u Hr Hu Ht Hp | u o u' Hr IH Ha Hk Ho Hb | u ops u' Hr IH Hops Hs Hb].
  - apply (R4_parse dbg hp hpo hd ovr input u Hu Hp).
    apply (Canon_not_file_drive hp hpo hd). apply ReachC6_Canon. exact (RC6_parse ovr input u Hu Hn Hp).
  - apply (R4_join dbg hp hpo hd ovr b input u IH Hu Hp).
    apply (Canon_not_file_drive hp hpo hd). apply ReachC6_Canon. exact (RC6_join_rel ovr b input u Hr Hu Ht Hp).
  - apply (R4_join dbg hp hpo hd ovr b input u IH Hu Hp).
    apply (Canon_not_file_drive hp hpo hd). apply ReachC6_Canon. exact (RC6_join_scheme ovr b input u Hr Hu Ht Hp).
  - apply (R4_join dbg hp hpo hd ovr b input u Hr Hu Hp).
    apply (Canon_not_file_drive hp hpo hd). apply ReachC6_Canon. exact (RC6_join_abs_any ovr b input u Hr Hu Ht Hp).
  - apply (R4_step dbg hp hpo hd u o u' IH Ha Hk Ho).
    apply (Canon_not_file_drive hp hpo hd). apply ReachC6_Canon. exact (RC6_step u o u' Hr Ha Hk Ho Hb).
  - apply (R4_qpm dbg hp hpo hd u ops u' IH Hops Hs).
    apply (Canon_not_file_drive hp hpo hd). apply ReachC6_Canon. exact (RC6_qpm u ops u' Hr Hops Hs Hb).
Qed.

(* the three input classes: a reference has no scheme, a non-file scheme, or the file scheme *)
Lemma ref_trichotomy input : rel_ref input = true \/ nonfile_input input = true \/ file_input input = true.
Proof.
  unfold rel_ref, nonfile_input, file_input.
  destruct (parse_scheme CUrlParser (input_new_trim_c0 input)) as [[sch rem]|]; [|left; reflexivity].
  destruct (scheme_type_of sch); [right; right | right; left | right; left]; reflexivity.
Qed.
End ReachC6.

Theorem reach_partial6_model dbg idna : IdnaOK idna -> forall u,
  ReachC6 dbg (host_parse idna) host_parse_opaque host_display u ->
  Fixpoint_of_reparse dbg (host_parse idna) host_parse_opaque host_display u /\ wf_b u = true /\ ascii (ser u).
Proof. intros OK u. exact (reach_partial6 dbg _ _ _ (HostOK2_model idna OK) (host_nonempty_model idna) u). Qed.

(* ================= non-vacuity, on the host model (idna_clean) ================= *)
(* an override that is as hostile as possible: it puts '#', tab, a non-ASCII byte, an apostrophe and a number that is
   not a byte in front of the text *)
Definition ovr_ex (s : list N) : list N := 35 :: 9 :: 233 :: 39 :: 300 :: s.

Definition m_parse_o (s : string) : option url :=
  match parse_url true mhp host_parse_opaque host_display (Some ovr_ex) None (B s) with POk u => Some u | _ => None end.
Definition m_join_o (b r : string) : option url :=
  match parse_url true mhp host_parse_opaque host_display None None (B b) with
  | POk bu => match parse_url true mhp host_parse_opaque host_display (Some ovr_ex) (Some bu) (B r) with POk u => Some u | _ => None end
  | _ => None
  end.

(* parse with the override: http://h/p?a b<TAB>c#f -> the two query parts "a b" and "c" go through the override one by
   one; joins: "http:x y/../z?k" against http://h/a/b?q#f (same scheme, no slash: the relative state) with and
   without override, "http:/x", "http:" (only the fragment goes), "http:#g", "?k'" with the override; the classes *)
Example reach6_example :
  match m_parse_o "http://h/p?a b	c#f" with
  | Some u => list_eqb (ser u) (B "http://h/p?%23%09%E9%27a%20b%23%09%E9%27c#f") && m_fix u | None => false end = true
  /\ match m_join_o "http://h/a/b?q#f" "http:x y/../z?k" with
     | Some u => list_eqb (ser u) (B "http://h/a/z?%23%09%E9%27k") && m_fix u | None => false end = true
  /\ match m_join "http://h/a/b?q#f" "http:x y/../z?k" with
     | Some u => list_eqb (ser u) (B "http://h/a/z?k") && m_fix u | None => false end = true
  /\ match m_join "http://h/a/b?q#f" "http:/x" with
     | Some u => list_eqb (ser u) (B "http://h/x") && m_fix u | None => false end = true
  /\ match m_join "http://h/a/b?q#f" "http:" with
     | Some u => list_eqb (ser u) (B "http://h/a/b?q") && m_fix u | None => false end = true
  /\ match m_join "http://h/a/b?q#f" "http:#g" with
     | Some u => list_eqb (ser u) (B "http://h/a/b?q#g") && m_fix u | None => false end = true
  /\ match m_join_o "http://h/a/b?q#f" "?k'" with
     | Some u => list_eqb (ser u) (B "http://h/a/b?%23%09%E9%27k%27") && m_fix u | None => false end = true
  /\ match parse_url true mhp host_parse_opaque host_display None None (B "http://h/a/b?q#f") with
     | POk bu => same_ref bu (B "http:x") && same_ref bu (B "http:/x") && negb (same_ref bu (B "http://x"))
                 && negb (same_ref bu (B "https:x")) && nonfile_input (B "http:x") && negb (rel_ref (B "http:x"))
                 && file_input (B "file:x") && negb (nonfile_input (B "file:x"))
     | _ => false end = true.
Proof. vm_compute. repeat split. Qed.

(* a file base and a base-ignoring absolute reference (RC6_join_abs_any): file:///a/b + "https:\\x/y z" = https://x/y%20z *)
Example reach6_example_filebase :
  match m_join "file:///a/b" "https:\\x/y z" with
  | Some u => list_eqb (ser u) (B "https://x/y%20z") && m_fix u | None => false end = true
  /\ match parse_url true mhp host_parse_opaque host_display None None (B "file:///a/b") with
     | POk bu => is_file bu && abs_ref bu (B "https:\\x/y z") && negb (Known_file_drive bu) | _ => false end = true.
Proof. vm_compute. repeat split. Qed.
