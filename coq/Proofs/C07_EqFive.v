(* Proofs/C07_EqFive.v - the C07 equivalence for the five setters that do not involve the host and
   path parsers - hash, search, username, password, port - assembled: one assignment preserves the
   relation corr (five_step), hence every history of such assignments does and the ten API strings
   agree after every prefix (five_histories); a boolean recogniser of corr (corr_b) and, by
   computation, the 20 start URLs of the small scope are related to their Standard's parse
   (small_starts_corr), so that for them the agreement holds for ALL values and ALL histories. *)
From RU Require Import Base.Prelude Base.Utf8 Model.AsciiSet Gen.Tables Model.PercentEncoding
  Model.HostT Model.UrlRecord Model.Parser Model.Setters Model.WF Model.KnownC01 Model.KnownC07 Spec.Whatwg
  Proofs.ListN Proofs.C03_WF Proofs.C06_Suffix Proofs.C06_FragQuery Proofs.C06_Port Proofs.C02_Enc Proofs.C01_EqApi
  Proofs.C07_Defs Proofs.C07_Histories Proofs.C07_Corr Proofs.C07_SpecRun Proofs.C07_EqSearchHash Proofs.C07_EqCred
  Proofs.C07_EqPort Proofs.C07_Small.

Definition five (s : qsetter) : bool :=
  match s with QHash | QSearch | QUsername | QPassword | QPort => true | _ => false end.

(* a history that uses the five setters only, with values that are strings of scalar values *)
Fixpoint five_ops (ops : list (qsetter * list N)) : Prop :=
  match ops with
  | [] => True
  | (s, v) :: r => five s = true /\ usv_list v /\ five_ops r
  end.

Section Five.
Variable dbg : bool.
Variable hp ho : list N -> result host.
Variable hd : host -> list N.
Variable shp : bool -> list N -> option spec_host.
Variable shs : spec_host -> list N.

Notation corr := (corr dbg shs).

Theorem five_step u su s v : corr u su -> five s = true -> usv_list v -> known_c07 u s v = 0 ->
  exists u' su', model_set dbg hp ho hd s u v = Some u' /\ spec_step shp s su v = Some su' /\ corr u' su'.
Proof.
  intros C Hs Hv Hk. destruct s; try discriminate Hs; cbn [model_set].
  - exact (username_step dbg shp shs u su v C Hv).
  - exact (password_step dbg shp shs u su v C Hv).
  - exact (port_step dbg shp shs u su v C Hk).
  - exact (search_step dbg shp shs u su v C Hv).
  - exact (hash_step dbg shp shs u su v C Hv).
Qed.

(* ... and the ten API strings of the results agree *)
Theorem five_step_api u su s v : corr u su -> five s = true -> usv_list v -> known_c07 u s v = 0 ->
  exists u' su', model_set dbg hp ho hd s u v = Some u' /\ spec_step shp s su v = Some su' /\ corr u' su'
    /\ model_api dbg u' = Some (spec_api_list shs su').
Proof.
  intros C Hs Hv Hk. destruct (five_step u su s v C Hs Hv Hk) as (u' & su' & A & B & C').
  exists u', su'. split; [exact A|]. split; [exact B|]. split; [exact C'|]. exact (corr_api dbg shs u' su' C').
Qed.

(* the five setters one by one (Known_C07 is empty for four of them) *)
Theorem hash_equiv u su v : corr u su -> usv_list v ->
  exists u' su', model_set dbg hp ho hd QHash u v = Some u' /\ spec_step shp QHash su v = Some su' /\ corr u' su'
    /\ model_api dbg u' = Some (spec_api_list shs su').
Proof. intros C Hv. exact (five_step_api u su QHash v C eq_refl Hv eq_refl). Qed.

Theorem search_equiv u su v : corr u su -> usv_list v ->
  exists u' su', model_set dbg hp ho hd QSearch u v = Some u' /\ spec_step shp QSearch su v = Some su' /\ corr u' su'
    /\ model_api dbg u' = Some (spec_api_list shs su').
Proof. intros C Hv. exact (five_step_api u su QSearch v C eq_refl Hv eq_refl). Qed.

Theorem username_equiv u su v : corr u su -> usv_list v ->
  exists u' su', model_set dbg hp ho hd QUsername u v = Some u' /\ spec_step shp QUsername su v = Some su' /\ corr u' su'
    /\ model_api dbg u' = Some (spec_api_list shs su').
Proof. intros C Hv. exact (five_step_api u su QUsername v C eq_refl Hv eq_refl). Qed.

Theorem password_equiv u su v : corr u su -> usv_list v ->
  exists u' su', model_set dbg hp ho hd QPassword u v = Some u' /\ spec_step shp QPassword su v = Some su' /\ corr u' su'
    /\ model_api dbg u' = Some (spec_api_list shs su').
Proof. intros C Hv. exact (five_step_api u su QPassword v C eq_refl Hv eq_refl). Qed.

Theorem port_equiv u su v : corr u su -> usv_list v -> known_c07 u QPort v = 0 ->
  exists u' su', model_set dbg hp ho hd QPort u v = Some u' /\ spec_step shp QPort su v = Some su' /\ corr u' su'
    /\ model_api dbg u' = Some (spec_api_list shs su').
Proof. intros C Hv Hk. exact (five_step_api u su QPort v C eq_refl Hv Hk). Qed.

Lemma five_run : forall ops u su, corr u su -> five_ops ops -> outside_known dbg hp ho hd u ops ->
  exists u' su', model_run dbg hp ho hd u ops = Some u' /\ spec_run shp su ops = Some su' /\ corr u' su'.
Proof.
  induction ops as [|[s v] r IH]; intros u su C Hf Ho.
  - exists u, su. cbn [model_run spec_run]. auto.
  - cbn [five_ops outside_known] in Hf, Ho. destruct Hf as (Hs & Hv & Hr). destruct Ho as [Hk Hrest].
    destruct (five_step u su s v C Hs Hv Hk) as (u1 & su1 & Em & Es & C1).
    rewrite Em in Hrest. destruct (IH u1 su1 C1 Hr Hrest) as (u2 & su2 & Em2 & Es2 & C2).
    exists u2, su2. cbn [model_run spec_run]. rewrite Em, Es. auto.
Qed.

Lemma five_ops_firstn n : forall ops, five_ops ops -> five_ops (firstn n ops).
Proof.
  induction n as [|n IH]; intros ops H; [exact I|]. destruct ops as [|[s v] r]; [exact I|].
  cbn [firstn five_ops] in *. destruct H as (A & B & Cc). auto.
Qed.

Lemma outside_known_firstn n : forall ops u, outside_known dbg hp ho hd u ops -> outside_known dbg hp ho hd u (firstn n ops).
Proof.
  induction n as [|n IH]; intros ops u H; [exact I|]. destruct ops as [|[s v] r]; [exact I|].
  cbn [firstn outside_known] in *. destruct H as [Hk Hr]. split; [exact Hk|].
  destruct (model_set dbg hp ho hd s u v); [apply IH; exact Hr | exact I].
Qed.

Theorem five_histories ops u su : corr u su -> five_ops ops -> outside_known dbg hp ho hd u ops ->
  forall n, exists u' su',
    model_run dbg hp ho hd u (firstn n ops) = Some u'
    /\ spec_run shp su (firstn n ops) = Some su'
    /\ corr u' su'
    /\ model_api dbg u' = Some (spec_api_list shs su').
Proof.
  intros C Hf Ho n.
  destruct (five_run (firstn n ops) u su C (five_ops_firstn n ops Hf) (outside_known_firstn n ops u Ho))
    as (u' & su' & A & B & C').
  exists u', su'. split; [exact A|]. split; [exact B|]. split; [exact C'|]. exact (corr_api dbg shs u' su' C').
Qed.

End Five.

(* ---------- a boolean recogniser of corr ---------- *)
Definition oeqb {A} (eqb : A -> A -> bool) (a b : option A) : bool :=
  match a, b with
  | Some x, Some y => eqb x y
  | None, None => true
  | _, _ => false
  end.

Lemma oeqb_sound {A} (eqb : A -> A -> bool) : (forall x y, eqb x y = true -> x = y) ->
  forall a b, oeqb eqb a b = true -> a = b.
Proof. intros H [x|] [y|] E; cbn in E; try discriminate; [f_equal; apply H; exact E | reflexivity]. Qed.

Lemma list_eqb_sound (x y : list N) : list_eqb x y = true -> x = y.
Proof. apply list_eqb_spec. Qed.

Definition host_text_ok_b (u : url) : bool :=
  negb (has_host u)
  || ((host_start u <? host_end u) && negb (byte_eqb (ser u) (host_start u) 58)
      && negb (byte_eqb (ser u) (host_start u) 64)).

Lemma host_text_ok_b_sound u : host_text_ok_b u = true -> host_text_ok u.
Proof.
  unfold host_text_ok_b, host_text_ok. intros H Hh. rewrite Hh in H. cbn [negb orb] in H.
  apply andb_true_iff in H. destruct H as [H H3]. apply andb_true_iff in H. destruct H as [H1 H2].
  apply negb_true_iff in H2. apply negb_true_iff in H3. repeat split; [lia | exact H2 | exact H3].
Qed.

Definition corr_b (dbg : bool) (shs : spec_host -> list N) (u : url) (su : spec_url) : bool :=
  wf_b u && host_text_ok_b u
  && oeqb list_eqb (scheme u) (Some (su_scheme su))
  && oeqb list_eqb (username dbg u) (Some (su_username su))
  && oeqb (oeqb list_eqb) (password dbg u) (Some (pw_opt (su_password su)))
  && oeqb list_eqb (host_text (host_str u)) (Some (serialize_host_opt shs (su_host su)))
  && Bool.eqb (has_host u) (negb (host_is_null (su_host su) || host_is_empty (su_host su)))
  && Bool.eqb (has_authority_b u) (opt_is_some (su_host su))
  && Bool.eqb (has_authority_b u && negb (username_end u =? host_start u)) (includes_credentials su)
  && opt_eqb (port u) (su_port su)
  && oeqb list_eqb (path u) (Some (serialize_path su))
  && oeqb (oeqb list_eqb) (query dbg u) (Some (su_query su))
  && oeqb (oeqb list_eqb) (fragment dbg u) (Some (su_fragment su))
  && Bool.eqb (negb (has_authority_b u) && (path_start u =? scheme_end u + 3)) (spec_marker su)
  && Bool.eqb (is_opaque_b u) (has_opaque_path su)
  && clean T_USERINFO (su_username su).

Theorem corr_b_sound dbg shs u su : corr_b dbg shs u su = true -> corr dbg shs u su.
Proof.
  unfold corr_b. intros H.
  repeat match type of H with (_ && _) = true => apply andb_true_iff in H; let K := fresh "K" in destruct H as [H K] end.
  constructor.
  - exact H.
  - apply host_text_ok_b_sound. assumption.
  - apply (oeqb_sound _ list_eqb_sound). assumption.
  - apply (oeqb_sound _ list_eqb_sound). assumption.
  - apply (oeqb_sound _ (oeqb_sound _ list_eqb_sound)). assumption.
  - apply (oeqb_sound _ list_eqb_sound). assumption.
  - apply Bool.eqb_prop. assumption.
  - apply Bool.eqb_prop. assumption.
  - apply Bool.eqb_prop. assumption.
  - apply opt_eqb_eq. assumption.
  - apply (oeqb_sound _ list_eqb_sound). assumption.
  - apply (oeqb_sound _ (oeqb_sound _ list_eqb_sound)). assumption.
  - apply (oeqb_sound _ (oeqb_sound _ list_eqb_sound)). assumption.
  - apply Bool.eqb_prop. assumption.
  - apply Bool.eqb_prop. assumption.
  - assumption.
Qed.

(* ---------- the start URLs of the small scope are related to their Standard's parse ---------- *)
Definition start_corr_b (st : list N) : bool :=
  match toy_parse st, toy_sparse st with
  | Some u, Some su => corr_b true toy_shs u su
  | _, _ => false
  end.

Lemma small_starts_corr_computed : forallb start_corr_b small_starts = true.
Proof. vm_compute. reflexivity. Qed.

Theorem small_starts_corr st : In st small_starts ->
  exists u su, toy_parse st = Some u /\ toy_sparse st = Some su /\ corr true toy_shs u su.
Proof.
  intros Hin. pose proof (proj1 (forallb_forall _ _) small_starts_corr_computed st Hin) as H.
  unfold start_corr_b in H. destruct (toy_parse st) as [u|]; [|discriminate H].
  destruct (toy_sparse st) as [su|]; [|discriminate H].
  exists u, su. split; [reflexivity|]. split; [reflexivity|]. exact (corr_b_sound _ _ _ _ H).
Qed.

(* for the 20 start URLs: every history of hash / search / username / password / port assignments, with
   any values, every step outside Known_C07 - the ten API strings agree after every prefix *)
Theorem five_from_small_starts st ops : In st small_starts -> five_ops ops ->
  forall u, toy_parse st = Some u -> outside_known true toy_hp toy_ho toy_hd u ops ->
  exists su, toy_sparse st = Some su
    /\ forall n, exists u' su',
         model_run true toy_hp toy_ho toy_hd u (firstn n ops) = Some u'
         /\ spec_run toy_shp su (firstn n ops) = Some su'
         /\ model_api true u' = Some (spec_api_list toy_shs su').
Proof.
  intros Hin Hf u Hp Ho. destruct (small_starts_corr st Hin) as (u0 & su & Ep & Es & C).
  rewrite Hp in Ep. inversion Ep; subst u0. exists su. split; [exact Es|]. intros n.
  destruct (five_histories true toy_hp toy_ho toy_hd toy_shp toy_shs ops u su C Hf Ho n) as (u' & su' & A & B & _ & D).
  exists u', su'. auto.
Qed.
