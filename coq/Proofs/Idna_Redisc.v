(* Proofs/Idna_Redisc.v - the premise Redisc of the simulation, reduced to three elementary facts:
   map_normalize A [] = [], upper-case letters are in the deny list, and the characterisation
   XnPrefixSpec of has_punycode_prefix on ASCII text. *)
From RU Require Import Base.Prelude Base.Utf8 Base.U32_c13 Gen.Tables Model.Punycode Model.Uts46
  Proofs.Idna_Sim Proofs.Idna_Api Proofs.Idna_Known Proofs.Idna_Hyp.

Definition XnPrefixSpec : Prop := forall ascii, Forall (fun b => b < 128) ascii ->
  has_punycode_prefix ascii = true ->
  exists a b r, ascii = a :: b :: 45 :: 45 :: r /\ (a = 120 \/ a = 88) /\ (b = 110 \/ b = 78).

Lemma scan_mark_fffd_id l : forall he, scan_mark false is_fffd l he = SOk (l, he || existsb is_fffd l).
Proof.
  induction l as [|c r IH]; intros he; cbn [scan_mark existsb].
  - rewrite orb_false_r. reflexivity.
  - destruct (is_fffd c) eqn:E.
    + rewrite IH. cbn [lcons orb]. unfold is_fffd in E. apply N.eqb_eq in E. subst c. rewrite orb_true_r. reflexivity.
    + rewrite IH. cbn [lcons orb]. reflexivity.
Qed.
Lemma scan_mark_none ff bad l : forall he, existsb bad l = false -> scan_mark ff bad l he = SOk (l, he).
Proof.
  induction l as [|c r IH]; intros he H; cbn [scan_mark existsb] in *; [reflexivity|].
  apply orb_false_iff in H. destruct H as [H1 H2]. rewrite H1. rewrite (IH he H2). reflexivity.
Qed.
Lemma last_opt_map (f : N -> N) l : last_opt (map f l) = option_map f (last_opt l).
Proof.
  induction l as [|x r IH]; [reflexivity|]. destruct r as [|y r']; [reflexivity|].
  change (last_opt (map f (x :: y :: r'))) with (last_opt (map f (y :: r'))).
  change (last_opt (x :: y :: r')) with (last_opt (y :: r')). exact IH.
Qed.
Lemma last_opt_in l x : last_opt l = Some x -> In x l.
Proof.
  induction l as [|y r IH]; [discriminate|]. destruct r as [|z r'].
  - cbn [last_opt]. intros H; inversion H; left; reflexivity.
  - change (last_opt (y :: z :: r')) with (last_opt (z :: r')). intros H. right. apply IH. exact H.
Qed.
Lemma existsb_false_in (f : N -> bool) l x : existsb f l = false -> In x l -> f x = false.
Proof.
  intros H Hin. destruct (f x) eqn:E; [|reflexivity].
  assert (existsb f l = true) by (apply existsb_exists; exists x; auto). congruence.
Qed.

Lemma apply_upper_cases deny b : b < 128 ->
  apply_upper deny b = b \/ (is_upper b = true /\ apply_upper deny b = b + 32) \/ apply_upper deny b = FFFD.
Proof.
  intros Hb. unfold apply_upper. destruct (N.land deny (N.shiftl 1 b) =? 0); [left; reflexivity|].
  unfold in_inclusive_range8. destruct ((b + 256 - 65) mod 256 <=? 90 - 65) eqn:E.
  - right; left. split; [unfold is_upper; lia|reflexivity].
  - right; right; reflexivity.
Qed.
Lemma apply_upper_upper deny b : DenyUpper deny -> is_upper b = true -> apply_upper deny b = b + 32.
Proof.
  intros HD Hb. unfold apply_upper. pose proof (HD b Hb) as H. unfold deny_member in H.
  destruct (N.land deny (N.shiftl 1 b) =? 0); [discriminate|].
  unfold in_inclusive_range8. unfold is_upper in Hb.
  replace ((b + 256 - 65) mod 256 <=? 90 - 65) with true by lia. reflexivity.
Qed.
Lemma apply_upper_ascii deny b : b < 128 -> apply_upper deny b <> FFFD -> apply_upper deny b < 128.
Proof.
  intros Hb Hn. destruct (apply_upper_cases deny b Hb) as [H|[[Hu H]|H]]; [lia| |contradiction].
  unfold is_upper in Hu. lia.
Qed.

Section Redisc.
Variable A : adapter.
Variable cfg : bool.

Lemma redisc_from_facts deny :
  map_normalize A [] = [] -> DenyUpper deny -> XnPrefixSpec ->
  forall hy db ap ascii, Forall (fun b => b < 128) ascii ->
  has_punycode_prefix ascii = true ->
  negb match last_opt ascii with Some l => l =? HYPHEN | None => false end
    && (len ascii - 4 <=? PUNYCODE_DECODE_MAX_INPUT_LENGTH) = false ->
  M heT (complexF A cfg false hy deny db false ap ascii []).
Proof.
  intros H0 HD HX hy db ap ascii Hasc Hpp Hc.
  unfold complexF. rewrite scan_mark_fffd_id. cbn [sbind orb].
  change (utf8_lossy []) with (@nil N). rewrite H0. cbn [map split1].
  set (cur := map (apply_upper deny) ascii).
  destruct (existsb is_fffd cur) eqn:Ef; [apply sublabels_M|].
  cbn [sublabels scan_mark sbind]. rewrite app_nil_r.
  apply M_bind with (hx := he2); [|intros [l h] E; cbn [he2 snd] in E; subst h; reflexivity].
  (* cur is ASCII and starts with xn-- *)
  assert (Hcur : Forall (fun c => c < 128) cur).
  { unfold cur. apply Forall_forall. intros x Hx. apply in_map_iff in Hx. destruct Hx as (b & <- & Hb).
    rewrite Forall_forall in Hasc. apply apply_upper_ascii; [apply Hasc; exact Hb|].
    intros Hq. assert (Hin : In (apply_upper deny b) cur) by (unfold cur; apply in_map; exact Hb).
    pose proof (existsb_false_in is_fffd cur _ Ef Hin) as Hf. unfold is_fffd in Hf. rewrite Hq in Hf.
    rewrite N.eqb_refl in Hf. discriminate. }
  destruct (HX ascii Hasc Hpp) as (a & b & r & -> & Ha & Hb).
  assert (Hnf : forall x, In x cur -> x <> FFFD).
  { intros x Hx Hq. pose proof (existsb_false_in is_fffd cur x Ef Hx) as Hf. unfold is_fffd in Hf. subst x.
    rewrite N.eqb_refl in Hf. discriminate. }
  assert (Hsw : starts_with cur XN_PREFIX = true).
  { unfold cur. cbn [map].
    assert (H1 : apply_upper deny a = 120).
    { destruct Ha as [-> | ->].
      - destruct (apply_upper_cases deny 120 ltac:(lia)) as [H|[[Hu H]|H]]; [exact H|discriminate Hu|].
        exfalso. apply (Hnf (apply_upper deny 120)); [unfold cur; cbn [map]; left; reflexivity|exact H].
      - rewrite (apply_upper_upper deny 88 HD eq_refl). reflexivity. }
    assert (H2 : apply_upper deny b = 110).
    { destruct Hb as [-> | ->].
      - destruct (apply_upper_cases deny 110 ltac:(lia)) as [H|[[Hu H]|H]]; [exact H|discriminate Hu|].
        exfalso. apply (Hnf (apply_upper deny 110)); [unfold cur; cbn [map]; right; left; reflexivity|exact H].
      - rewrite (apply_upper_upper deny 78 HD eq_refl). reflexivity. }
    assert (H3 : apply_upper deny 45 = 45).
    { destruct (apply_upper_cases deny 45 ltac:(lia)) as [H|[[Hu H]|H]]; [exact H|discriminate Hu|].
      exfalso. apply (Hnf (apply_upper deny 45)); [unfold cur; cbn [map]; right; right; left; reflexivity|exact H]. }
    rewrite H1, H2, H3. unfold XN_PREFIX. cbn [starts_with]. rewrite !N.eqb_refl. cbn [andb]. destruct (map (apply_upper deny) r); reflexivity. }
  unfold end_sublabel. rewrite Hsw.
  assert (Hna : existsb (fun c => negb (is_ascii_cp c)) (skipn 4 cur) = false).
  { destruct (existsb (fun c => negb (is_ascii_cp c)) (skipn 4 cur)) eqn:E; [|reflexivity].
    apply existsb_exists in E. destruct E as (x & Hx & Hq).
    assert (Hin : In x cur) by (rewrite <- (firstn_skipn 4 cur); apply in_or_app; right; exact Hx).
    rewrite Forall_forall in Hcur. specialize (Hcur x Hin). unfold is_ascii_cp in Hq. lia. }
  rewrite (scan_mark_none false _ _ false Hna). cbn [sbind]. rewrite firstn_skipn. rewrite Hna.
  destruct (last_opt cur) as [lst|] eqn:El; [|exact I].
  destruct (lst =? HYPHEN) eqn:Eh.
  - cbn [sbind].
    destruct (PUNYCODE_DECODE_MAX_INPUT_LENGTH <? len (set_last FFFD cur) - 4); cbn [sbind negb]; apply check_label_M.
  - cbn [sbind].
    destruct (PUNYCODE_DECODE_MAX_INPUT_LENGTH <? len cur - 4) eqn:El2; cbn [sbind negb]; [apply check_label_M|].
    exfalso.
    (* then the input label ended in '-', hence so does cur *)
    assert (Hlen : len cur = len (a :: b :: 45 :: 45 :: r)) by (unfold cur, len; rewrite map_length; reflexivity).
    rewrite Hlen in El2.
    replace (len (a :: b :: 45 :: 45 :: r) - 4 <=? PUNYCODE_DECODE_MAX_INPUT_LENGTH) with true in Hc by lia.
    rewrite andb_true_r in Hc. apply negb_false_iff in Hc.
    pose proof El as El0. unfold cur in El. rewrite last_opt_map in El.
    destruct (last_opt (a :: b :: 45 :: 45 :: r)) as [l0|]; [|discriminate].
    cbn [option_map] in El. inversion El as [El']. unfold HYPHEN in *. apply N.eqb_eq in Hc. subst l0.
    destruct (apply_upper_cases deny 45 ltac:(lia)) as [H|[[Hu H]|H]].
    + rewrite H in El'. subst lst. discriminate.
    + discriminate Hu.
    + apply (Hnf lst (last_opt_in cur lst El0)). congruence.
Qed.

Theorem redisc_holds deny : map_normalize A [] = [] -> DenyUpper deny -> XnPrefixSpec -> Redisc A cfg deny.
Proof. intros H0 HD HX hy db ap ascii Ha Hp Hc. exact (redisc_from_facts deny H0 HD HX hy db ap ascii Ha Hp Hc). Qed.
End Redisc.
