(* Proofs/C07_PathText.v - the pathname setter on texts: Url::set_path runs the path start state of parser.rs in the
   SETTER context; by Proofs/C02_PathSetter.v that is the URL-parser context on the text with '?' -> "%3F" and
   '#' -> "%23" (qh_sub), and by the path equivalence of C01 (loop_exact / loop_exact_s) the text written behind the
   serialization is the serialization of the Standard's segment list - here: of spathO, the Standard's path state WITH
   a state override (Proofs/C07_SpecPath.v), which is the override-free path state on the same substituted text.
   Excluded, exactly as in C01: a ".." that meets a drive-letter-shaped last segment (spath_okO; finding F-C07-12);
   class 1 of Known_C07 (a drive-letter-shaped piece AND two adjacent dots in the raw value) contains every such value
   (known1_okO). *)
From Coq Require Import ZifyBool ZifyN.
From RU Require Import Base.Prelude Base.Utf8 Base.Utf8Facts Model.AsciiSet Gen.Tables
  Model.PercentEncoding Model.HostT Model.UrlRecord Model.Parser Model.Setters Model.WF Model.KnownC01 Model.KnownC07 Spec.Whatwg
  Proofs.ListN Proofs.C14_Set Proofs.C14_Enc Proofs.C14_Views Proofs.C02_Enc Proofs.C02_Parts
  Proofs.C02_Opaque Proofs.C02_Path Proofs.C02_PathL1 Proofs.C02_PathSp Proofs.C02_Auth Proofs.C02_PathSetter
  Proofs.C08_Input Proofs.C01_EqRun Proofs.C01_EqEnc Proofs.C01_EqDots Proofs.C01_EqPathSpec Proofs.C01_EqPath
  Proofs.C01_EqSpSpec Proofs.C01_EqSpPath Proofs.C01_KnownExact Proofs.C01_EqSpKnown
  Proofs.C07_SpecRun Proofs.C07_SpecPath.

(* ================= the override path state is the plain one on the substituted text ================= *)
Lemma upe_cp_sub :
  utf8_percent_encode_cp in_path_set 63 = [37; 51; 70] /\ utf8_percent_encode_cp in_path_set 35 = [37; 50; 51]
  /\ utf8_percent_encode_cp in_path_set 37 = [37] /\ utf8_percent_encode_cp in_path_set 51 = [51]
  /\ utf8_percent_encode_cp in_path_set 70 = [70] /\ utf8_percent_encode_cp in_path_set 50 = [50].
Proof. vm_compute. repeat split. Qed.

(* no ".." of the text meets a drive-letter-shaped last segment: the path state with a state override *)
Fixpoint spath_okO (sp : bool) (t : list N) (P : list (list N)) (B : list N) : bool :=
  match t with
  | [] => fin_ok P B
  | c :: r => if sepc sp c then fin_ok P B && spath_okO sp r (fin P B true) []
              else spath_okO sp r P (B ++ utf8_percent_encode_cp in_path_set c)
  end.

Lemma sepc_false c : sepc false c = (c =? 47).
Proof. unfold sepc. cbn [andb]. apply orb_false_r. Qed.
Lemma sepc_true c : sepc true c = is_sl c.
Proof. reflexivity. Qed.

Lemma app3 (B : list N) a b c : ((B ++ [a]) ++ [b]) ++ [c] = B ++ [a; b; c].
Proof. rewrite <- !app_assoc. reflexivity. Qed.

Lemma spathO_ns t : forall P B, spathO false t P B = fst (spath (qh_sub t) P B).
Proof.
  destruct upe_cp_sub as (E63 & E35 & E37 & E51 & E70 & E50).
  induction t as [|c r IH]; intros P B; [reflexivity|]. cbn [spathO qh_sub]. rewrite sepc_false.
  destruct (c =? 63) eqn:C63.
  - apply N.eqb_eq in C63. subst c. change (63 =? 47) with false. cbn iota.
    cbn [spath]. change (37 =? 47) with false. change (51 =? 47) with false. change (70 =? 47) with false.
    change (is_qh 37) with false. change (is_qh 51) with false. change (is_qh 70) with false. cbn iota.
    rewrite E63, E37, E51, E70, app3. apply IH.
  - destruct (c =? 35) eqn:C35.
    + apply N.eqb_eq in C35. subst c. change (35 =? 47) with false. cbn iota.
      cbn [spath]. change (37 =? 47) with false. change (50 =? 47) with false. change (51 =? 47) with false.
      change (is_qh 37) with false. change (is_qh 50) with false. change (is_qh 51) with false. cbn iota.
      rewrite E35, E37, E50, E51, app3. apply IH.
    + cbn [spath]. destruct (c =? 47); [apply IH|].
      unfold is_qh. rewrite C63, C35. cbn [orb]. apply IH.
Qed.

Lemma spathO_sp t : forall P B, spathO true t P B = fst (spath_s (qh_sub t) P B).
Proof.
  destruct upe_cp_sub as (E63 & E35 & E37 & E51 & E70 & E50).
  induction t as [|c r IH]; intros P B; [reflexivity|]. cbn [spathO qh_sub]. rewrite sepc_true.
  destruct (c =? 63) eqn:C63.
  - apply N.eqb_eq in C63. subst c. change (is_sl 63) with false. cbn iota.
    cbn [spath_s]. change (is_sl 37) with false. change (is_sl 51) with false. change (is_sl 70) with false.
    change (is_qh 37) with false. change (is_qh 51) with false. change (is_qh 70) with false. cbn iota.
    rewrite E63, E37, E51, E70, app3. apply IH.
  - destruct (c =? 35) eqn:C35.
    + apply N.eqb_eq in C35. subst c. change (is_sl 35) with false. cbn iota.
      cbn [spath_s]. change (is_sl 37) with false. change (is_sl 50) with false. change (is_sl 51) with false.
      change (is_qh 37) with false. change (is_qh 50) with false. change (is_qh 51) with false. cbn iota.
      rewrite E35, E37, E50, E51, app3. apply IH.
    + cbn [spath_s]. destruct (is_sl c); [apply IH|].
      unfold is_qh. rewrite C63, C35. cbn [orb]. apply IH.
Qed.

Lemma spath_okO_ns t : forall P B, spath_okO false t P B = spath_ok (qh_sub t) P B.
Proof.
  destruct upe_cp_sub as (E63 & E35 & E37 & E51 & E70 & E50).
  induction t as [|c r IH]; intros P B; [reflexivity|]. cbn [spath_okO qh_sub]. rewrite sepc_false.
  destruct (c =? 63) eqn:C63.
  - apply N.eqb_eq in C63. subst c. change (63 =? 47) with false. cbn iota.
    cbn [spath_ok]. change (37 =? 47) with false. change (51 =? 47) with false. change (70 =? 47) with false.
    change (is_qh 37) with false. change (is_qh 51) with false. change (is_qh 70) with false. cbn iota.
    rewrite E63, E37, E51, E70, app3. apply IH.
  - destruct (c =? 35) eqn:C35.
    + apply N.eqb_eq in C35. subst c. change (35 =? 47) with false. cbn iota.
      cbn [spath_ok]. change (37 =? 47) with false. change (50 =? 47) with false. change (51 =? 47) with false.
      change (is_qh 37) with false. change (is_qh 50) with false. change (is_qh 51) with false. cbn iota.
      rewrite E35, E37, E50, E51, app3. apply IH.
    + cbn [spath_ok]. destruct (c =? 47); [rewrite IH; reflexivity|].
      unfold is_qh. rewrite C63, C35. cbn [orb]. apply IH.
Qed.

Lemma spath_okO_sp t : forall P B, spath_okO true t P B = spath_ok_s (qh_sub t) P B.
Proof.
  destruct upe_cp_sub as (E63 & E35 & E37 & E51 & E70 & E50).
  induction t as [|c r IH]; intros P B; [reflexivity|]. cbn [spath_okO qh_sub]. rewrite sepc_true.
  destruct (c =? 63) eqn:C63.
  - apply N.eqb_eq in C63. subst c. change (is_sl 63) with false. cbn iota.
    cbn [spath_ok_s]. change (is_sl 37) with false. change (is_sl 51) with false. change (is_sl 70) with false.
    change (is_qh 37) with false. change (is_qh 51) with false. change (is_qh 70) with false. cbn iota.
    rewrite E63, E37, E51, E70, app3. apply IH.
  - destruct (c =? 35) eqn:C35.
    + apply N.eqb_eq in C35. subst c. change (is_sl 35) with false. cbn iota.
      cbn [spath_ok_s]. change (is_sl 37) with false. change (is_sl 50) with false. change (is_sl 51) with false.
      change (is_qh 37) with false. change (is_qh 50) with false. change (is_qh 51) with false. cbn iota.
      rewrite E35, E37, E50, E51, app3. apply IH.
    + cbn [spath_ok_s]. destruct (is_sl c); [rewrite IH; reflexivity|].
      unfold is_qh. rewrite C63, C35. cbn [orb]. apply IH.
Qed.

Lemma ntnl_qh_sub l : ntnl (qh_sub l) = qh_sub (ntnl l).
Proof.
  induction l as [|c r IH]; [reflexivity|]. cbn [qh_sub].
  destruct (c =? 63) eqn:C63.
  - apply N.eqb_eq in C63. subst c. rewrite (ntnl_cons 63 r eq_refl). cbn [qh_sub]. change (63 =? 63) with true. cbn iota.
    rewrite !ntnl_cons by reflexivity. rewrite IH. reflexivity.
  - destruct (c =? 35) eqn:C35.
    + apply N.eqb_eq in C35. subst c. rewrite (ntnl_cons 35 r eq_refl). cbn [qh_sub]. change (35 =? 63) with false. change (35 =? 35) with true. cbn iota.
      rewrite !ntnl_cons by reflexivity. rewrite IH. reflexivity.
    + destruct (is_tnl c) eqn:Et.
      * rewrite !ntnl_cons_tnl by exact Et. exact IH.
      * rewrite !ntnl_cons by exact Et. cbn [qh_sub]. rewrite C63, C35, IH. reflexivity.
Qed.

(* ================= parse_path_start in the setter context, exactly ================= *)
Section PathStartSetter.
Variable dbg : bool.

(* non-special scheme, the text starts with '/' *)
Theorem pps_setter_exact_ns s0 p r hh : usv_list p -> inp_next p = Some (47, r) ->
  spath_okO false (ntnl r) [] [] = true ->
  exists rem, parse_path_start dbg CSetter STNotSpecial hh s0 p
              = POk (s0 ++ flat_map (fun s => 47 :: s) (spathO false (ntnl r) [] []), hh, rem).
Proof.
  intros Hu En Hok. unfold parse_path_start, inp_split_first. cbn [st_is_special]. rewrite En.
  change ((47 =? 63) || (47 =? 35)) with false. change (47 =? 47) with true. cbn iota.
  unfold parse_path.
  rewrite (loop_setter_sub dbg STNotSpecial eq_refl (nlen s0) p s0 (nlen s0) [] [] hh Hu pend_eq_nil).
  rewrite (C02_Auth.loop_first_slash dbg (nlen s0) (qh_sub p) (qh_sub r) s0 hh)
    by (apply inp_next_sub; [exact En | reflexivity]).
  pose proof (inp_next_usv p 47 r Hu En) as Hur. pose proof (usv_qh_sub r Hur) as Hur'.
  assert (pend_ok []) as Hp0 by (split; [constructor | reflexivity]).
  assert (Bs s0 [] = s0 ++ [47]) as EB by (unfold Bs; cbn; rewrite !app_nil_r; reflexivity).
  rewrite spath_okO_ns, <- ntnl_qh_sub in Hok.
  destruct (loop_exact s0 dbg (qh_sub r) [] [] [] hh Hur' Hp0 eq_refl eq_refl Hok) as (segs & last & Hloop & Hfst & _).
  cbn [app rev utf8_encode flat_map encode] in Hfst.
  rewrite app_nil_r, EB in Hloop. rewrite Hloop.
  exists (cbb_rest (qh_sub r)). f_equal. f_equal. f_equal.
  rewrite spathO_ns, <- ntnl_qh_sub, Hfst, path_text_flat. unfold Bs, path_text. rewrite <- !app_assoc. reflexivity.
Qed.

(* non-special scheme, nothing but tab / newline: the path becomes empty *)
Theorem pps_setter_empty_ns s0 p hh : usv_list p -> inp_next p = None ->
  parse_path_start dbg CSetter STNotSpecial hh s0 p = POk (s0, hh, []).
Proof.
  intros Hu En. unfold parse_path_start, inp_split_first. cbn [st_is_special]. rewrite En. unfold parse_path.
  rewrite (loop_setter_sub dbg STNotSpecial eq_refl (nlen s0) p s0 (nlen s0) [] [] hh Hu pend_eq_nil).
  apply C02_PathSetter.loop_all_tnl. apply inp_next_none_sub. exact En.
Qed.

(* special scheme: a leading '/' or '\' opens the first segment, whatever the text in front ends with *)
Lemma loop_first_sl_sp ps c r ser hh : is_sl c = true ->
  parse_path_loop dbg CUrlParser STSpecialNotFile ps (c :: r) ser (nlen ser) [] hh
  = parse_path_loop dbg CUrlParser STSpecialNotFile ps r (ser ++ [47]) (nlen (ser ++ [47])) [] hh.
Proof.
  intros Hsl.
  assert (finish_segment dbg STSpecialNotFile ps (ser ++ [47]) (nlen ser) true hh = POk (ser ++ [47], hh)) as Hf.
  { apply (finish_plain_sp dbg ps (ser ++ [47]) (nlen ser) true hh []); [| reflexivity | reflexivity].
    rewrite nlen_app. replace (nlen ser + nlen [47] - 1) with (nlen ser) by (unfold nlen; cbn [length]; lia).
    rewrite <- (app_nil_l [47]). replace (nlen ser) with (nlen ser + nlen []) at 2 by (rewrite nlen_nil; lia).
    apply slice_mid. }
  assert (c = 47 \/ c = 92) as [-> | ->] by (unfold is_sl in Hsl; lia).
  - rewrite loop_cons_slash_sp. cbn [push_pending]. rewrite Hf. reflexivity.
  - rewrite loop_cons_bslash_sp. cbn [push_pending]. rewrite Hf. reflexivity.
Qed.

(* special scheme, the text starts with '/' or '\' *)
Theorem pps_setter_exact_sp s0 c r hh : usv_list (c :: r) -> is_sl c = true ->
  spath_okO true (ntnl r) [] [] = true ->
  exists rem, parse_path_start dbg CSetter STSpecialNotFile hh s0 (c :: r)
              = POk (s0 ++ flat_map (fun s => 47 :: s) (spathO true (ntnl r) [] []), hh, rem).
Proof.
  intros Hu Hsl Hok.
  assert (is_tnl c = false) as Et by (unfold is_sl in Hsl; unfold is_tnl; lia).
  pose proof (inp_next_cons c r Et) as En.
  pose proof (inp_next_usv (c :: r) c r Hu En) as Hur. pose proof (usv_qh_sub r Hur) as Hur'.
  assert (pend_ok []) as Hp0 by (split; [constructor | reflexivity]).
  assert (Bs s0 [] = s0 ++ [47]) as EB by (unfold Bs; cbn; rewrite !app_nil_r; reflexivity).
  rewrite spath_okO_sp, <- ntnl_qh_sub in Hok.
  destruct (loop_exact_s s0 dbg (qh_sub r) [] [] [] hh Hur' Hp0 eq_refl eq_refl Hok) as (segs & last & Hloop & Hfst & _).
  cbn [app rev utf8_encode flat_map encode] in Hfst.
  rewrite app_nil_r, EB in Hloop.
  assert (Bs s0 segs ++ last = s0 ++ flat_map (fun s => 47 :: s) (spathO true (ntnl r) [] [])) as Eout.
  { rewrite spathO_sp, <- ntnl_qh_sub, Hfst, path_text_flat. unfold Bs, path_text. rewrite <- !app_assoc. reflexivity. }
  rewrite Eout in Hloop. exists (cbb_rest (qh_sub r)).
  unfold parse_path_start, inp_split_first. cbn [st_is_special]. rewrite En. rewrite is_sl_model, Hsl.
  destruct (ends_with_byte 47 s0); cbn [negb]; unfold parse_path.
  - rewrite (loop_setter_sub dbg STSpecialNotFile eq_refl (nlen s0) (c :: r) s0 (nlen s0) [] [] hh Hu pend_eq_nil).
    cbn [qh_sub].
    assert ((c =? 63) = false /\ (c =? 35) = false) as [-> ->] by (unfold is_sl in Hsl; lia).
    rewrite (loop_first_sl_sp (nlen s0) c (qh_sub r) s0 hh Hsl). exact Hloop.
  - rewrite (loop_setter_sub dbg STSpecialNotFile eq_refl (nlen s0) r (s0 ++ [47]) (nlen (s0 ++ [47])) [] [] hh Hur pend_eq_nil).
    exact Hloop.
Qed.

End PathStartSetter.

(* ================= the new path has no '?' and no '#' ================= *)
Lemma upe_cp_no_qh_all c : no_qh (utf8_percent_encode_cp in_path_set c) = true.
Proof.
  destruct (is_qh c) eqn:E; [|exact (upe_cp_no_qh c E)].
  assert (c = 63 \/ c = 35) as [-> | ->] by (unfold is_qh in E; lia); vm_compute; reflexivity.
Qed.

Lemma spathO_no_qh sp t : forall P B, forallb no_qh P = true -> no_qh B = true ->
  forallb no_qh (spathO sp t P B) = true.
Proof.
  induction t as [|c r IH]; intros P B HP HB; cbn [spathO].
  - apply fin_no_qh; assumption.
  - destruct (sepc sp c); [apply IH; [apply fin_no_qh; assumption | reflexivity]|].
    apply IH; [exact HP|]. unfold no_qh in *. rewrite forallb_app, HB. cbn [andb]. apply upe_cp_no_qh_all.
Qed.

Lemma spathO_flat_no_qh sp t :
  forallb (fun c => negb ((c =? 63) || (c =? 35))) (flat_map (fun s => 47 :: s) (spathO sp t [] [])) = true.
Proof. apply flat_no_qh. apply spathO_no_qh; reflexivity. Qed.

Lemma spathO_nonempty sp t : forall P B, spathO sp t P B <> [].
Proof.
  induction t as [|c r IH]; intros P B; cbn [spathO]; [apply fin_nonempty|].
  destruct (sepc sp c); apply IH.
Qed.
