(* Proofs/C08_Contain.v - the containment law: a reference without scheme and without two leading
   slashes never changes what is in front of the path.
   Route: the path states never touch the serialization below path_start (the invariant PInv of
   C06_PathParser, here for the URL-parser context where the loop stops at '?' / '#'); the record
   with the new path is C06_Path.with_path (well-formed, same front); query and fragment are appended by
   the elementary edits of C06_Steps. *)
From RU Require Import Base.Prelude Base.Utf8 Base.Utf8Facts Model.AsciiSet Gen.Tables Model.PercentEncoding
  Model.HostT Model.UrlRecord Model.Parser Model.Setters Model.WF Model.KnownC08
  Proofs.ListN Proofs.C14_Enc Proofs.C02_Enc Proofs.C02_Parts Proofs.C02_Opaque Proofs.C03_WF Proofs.C06_List
  Proofs.C06_WFI Proofs.C06_Tail Proofs.C06_Steps Proofs.C06_FragQuery Proofs.C06_Suffix Proofs.C06_Front
  Proofs.C06_PathParser Proofs.C06_Path Proofs.C08_Input Proofs.C08_Simple.

(* ---------- the loop in the URL-parser context ---------- *)
Definition rem_ok (rem : list N) : Prop :=
  rem = [] \/ exists c r, rem = c :: r /\ is_tnl c = false /\ ((c =? 63) || (c =? 35)) = true.

Section PathInvUrl.
Variables (dbg : bool) (ps m : N) (pre : list N).
Hypothesis Hm1 : ps <= m.
Hypothesis Hm2 : m <= ps + 1.
Hypothesis Hpre : nlen pre = m.

Lemma pinv_loop_url st l : (st_is_file st = true -> m = ps) ->
  forall ser seg_start pending hh s' hh' rem,
  parse_path_loop dbg CUrlParser st ps l ser seg_start pending hh = POk (s', hh', rem) ->
  PInv ps m pre ser -> m <= seg_start -> usv_list l -> usv_list pending ->
  (exists x, s' = file_path_fixup st ps x /\ PInv ps m pre x) /\ usv_list rem /\ rem_ok rem.
Proof.
  intros Hf. induction l as [|c r IH]; intros ser seg_start pending hh s' hh' rem H I Hs Hl Hp;
    cbn [parse_path_loop] in H.
  - destruct (finish_segment dbg st ps (push_pending CUrlParser st ser pending) seg_start false hh) as [[s2 h2]| |] eqn:E;
      cbn [pbind] in H; try discriminate.
    injection H as E1 E2 E3. subst s' hh' rem. split; [|split; [constructor | left; reflexivity]]. exists s2. split; [reflexivity|].
    eapply pinv_finish_segment; try eassumption. apply pinv_push_pending; assumption.
  - pose proof Hl as Hl0. apply usv_cons in Hl. destruct Hl as [Hc Hr].
    destruct (is_tnl c) eqn:Et.
    { eapply IH; [exact H | apply pinv_push_pending; assumption | exact Hs | exact Hr | constructor]. }
    cbn [ctx_eqb negb andb] in H.
    destruct ((c =? 47) || (c =? 92) && st_is_special st).
    { destruct (finish_segment dbg st ps (push_pending CUrlParser st ser pending ++ [47]) seg_start true hh) as [[s2 h2]| |] eqn:E;
        cbn [pbind] in H; try discriminate.
      assert (PInv ps m pre s2) as I2.
      { eapply pinv_finish_segment; try eassumption. apply pinv_app; try assumption; [apply pinv_push_pending; assumption | reflexivity]. }
      eapply IH; [exact H | exact I2 | eapply pinv_len; eassumption | exact Hr | constructor]. }
    rewrite andb_true_r in H.
    destruct ((c =? 63) || (c =? 35)) eqn:Eqh.
    { destruct (finish_segment dbg st ps (push_pending CUrlParser st ser pending) seg_start false hh) as [[s2 h2]| |] eqn:E;
        cbn [pbind] in H; try discriminate.
      injection H as E1 E2 E3. subst s' hh' rem. split; [|split; [exact Hl0 | right; exists c, r; repeat split; assumption]].
      exists s2. split; [reflexivity|].
      eapply pinv_finish_segment; try eassumption. apply pinv_push_pending; assumption. }
    destruct (st_is_file st && (ps <? nlen ser) && is_normalized_wdl (nskipn (ps + 1) ser)).
    { eapply IH; [exact H | | | exact Hr | constructor; [exact Hc | constructor]].
      - apply pinv_app; try assumption; [apply pinv_push_pending; assumption | reflexivity].
      - lia. }
    eapply IH; [exact H | exact I | exact Hs | exact Hr | constructor; assumption].
Qed.

End PathInvUrl.

(* ---------- small record facts ---------- *)
Lemma url_with_main v b s qs fs : same_main b v -> url_with v s qs fs = url_with b s qs fs.
Proof. intros (E1 & E2 & E3 & E4 & E5 & E6 & E7). unfold url_with. rewrite E1, E2, E3, E4, E5, E6, E7. reflexivity. Qed.

Lemma url_with_noqf v : query_start v = None -> fragment_start v = None -> url_with v (ser v) None None = v.
Proof. destruct v. simpl. intros -> ->. reflexivity. Qed.

Lemma same_main_sym u v : same_main u v -> same_main v u.
Proof. intros (E1 & E2 & E3 & E4 & E5 & E6 & E7). repeat split; symmetry; assumption. Qed.

Lemma same_main_url_with b s qs fs : same_main b (url_with b s qs fs).
Proof. repeat split. Qed.

Lemma before_query_prefix b : wf_b b = true ->
  nfirstn (path_start b) (b_before_query b) = nfirstn (path_start b) (ser b).
Proof.
  intros W. pose proof (wf_qf_facts b W) as QF. pose proof (qf_q QF) as Q1. pose proof (qf_f QF) as Q2.
  unfold b_before_query. destruct (query_start b) as [q|]; [apply nfirstn_nfirstn; lia|].
  destruct (fragment_start b) as [f|]; [apply nfirstn_nfirstn; lia | reflexivity].
Qed.

(* ---------- query and fragment appended to a record that has neither ---------- *)
Section Tail.
Variable dbg : bool.

Lemma pqf_on_clean v st l s qs fs : wf_b v = true -> query_start v = None -> fragment_start v = None ->
  usv_list l ->
  parse_query_and_fragment None CUrlParser st (scheme_end v) (ser v) l = POk (s, qs, fs) ->
  let u' := url_with v s qs fs in
  wf_b u' = true /\ same_front dbg v u' /\ same_main v u' /\ path u' = path v
  /\ agree_pre (nlen (ser v)) (ser v) (ser u').
Proof.
  intros W Eq Ef Hl H u'.
  destruct (pqf_out None st (scheme_end v) _ l s qs fs Hl eq_refl H) as (Es & Eqs & Efs & _ & _ & Cq & _).
  assert (agree_pre (nlen (ser v)) (ser v) (ser u')) as Hpre.
  { subst u'. unfold url_with. cbn [ser]. rewrite Es. apply agree_pre_app_r. }
  destruct (pqf_q st l) as [Q|] eqn:EQ.
  - cbn [opt_clean] in Cq. pose proof (clean_query_no_h _ _ Cq) as HQ.
    destruct (add_query_step dbg v Q W Ef Eq HQ) as (W3 & SF3 & SM3 & P3 & Q3 & Ef3).
    set (u3 := add_query v Q) in *.
    destruct (pqf_f l) as [x|] eqn:EF.
    + destruct (add_fragment_step dbg u3 x W3 Ef3) as (W4 & SF4 & SM4 & P4 & Q4 & Qs4 & F4).
      assert (u' = add_fragment u3 x) as E.
      { subst u' u3 s qs fs. unfold add_fragment, add_query, url_with, qf_text, qf_qtext, qf_ftext, qf_qs, qf_fs,
          set_fragment_start, set_query_start, set_ser.
        cbn [ser scheme_end username_end host_start host_end hosti port path_start query_start fragment_start].
        f_equal.
        - rewrite <- app_assoc. reflexivity.
        - rewrite nlen_app. reflexivity. }
      rewrite E. split; [exact W4|]. split; [eapply same_front_trans; eassumption|].
      split; [eapply same_main_trans; eassumption|]. split; [congruence|]. rewrite E in Hpre; exact Hpre.
    + assert (u' = u3) as E.
      { subst u' u3 s qs fs. unfold add_query, url_with, qf_text, qf_qtext, qf_ftext, qf_qs, qf_fs, set_query_start, set_ser.
        cbn [ser scheme_end username_end host_start host_end hosti port path_start query_start fragment_start].
        rewrite app_nil_r. f_equal. symmetry. exact Ef. }
      rewrite E. split; [exact W3|]. split; [exact SF3|]. split; [exact SM3|]. split; [exact P3|]. rewrite E in Hpre; exact Hpre.
  - destruct (pqf_f l) as [x|] eqn:EF.
    + destruct (add_fragment_step dbg v x W Ef) as (W4 & SF4 & SM4 & P4 & Q4 & Qs4 & F4).
      assert (u' = add_fragment v x) as E.
      { subst u' s qs fs. unfold add_fragment, url_with, qf_text, qf_qtext, qf_ftext, qf_qs, qf_fs, set_fragment_start, set_ser.
        cbn [ser scheme_end username_end host_start host_end hosti port path_start query_start fragment_start app nlen length].
        f_equal; [symmetry; exact Eq | f_equal; unfold nlen; cbn; lia]. }
      rewrite E. split; [exact W4|]. split; [exact SF4|]. split; [exact SM4|]. split; [exact P4|]. rewrite E in Hpre; exact Hpre.
    + assert (u' = v) as E.
      { subst u' s qs fs. unfold qf_text, qf_qtext, qf_ftext, qf_qs, qf_fs. cbn [app]. rewrite app_nil_r.
        apply url_with_noqf; assumption. }
      rewrite E. split; [exact W|]. split; [apply same_front_refl|]. split; [apply same_main_refl|]. split; [reflexivity|].
      rewrite E in Hpre; exact Hpre.
Qed.

End Tail.

(* ---------- the match on the literal '/' ---------- *)
Lemma match47 {A} (c : N) (a b : A) :
  (match c with 47 => a | _ => b end) = if c =? 47 then a else b.
Proof.
  destruct c as [|p]; [reflexivity|].
  do 6 (destruct p as [p|p|]; try reflexivity).
Qed.

(* ================= the base has an authority (and is not a file URL) ================= *)
Section Contain.
Variables (dbg : bool) (hp hpo : list N -> result host) (hd : host -> list N).
Notation join b input := (parse_url dbg hp hpo hd None (Some b) input).

(* with_query_and_fragment after the path state, base with authority *)
Lemma wqf_auth b st s rem u' : wf_b b = true -> has_authority_b b = true ->
  PInv (path_start b) (path_start b + 1) (nfirstn (path_start b) (ser b) ++ [47]) s ->
  usv_list rem ->
  with_query_and_fragment None CUrlParser st (scheme_end b) (username_end b) (host_start b) (host_end b)
    (hosti b) (port b) (path_start b) s rem = POk u' ->
  wf_b u' = true /\ same_front dbg b u' /\ same_main b u' /\ agree_pre (path_start b) (ser b) (ser u').
Proof.
  intros W Ha I Hrem H.
  pose proof (wf_auth_facts b W Ha) as F.
  pose proof (af_ue F) as B1. pose proof (af_hs F) as B2. pose proof (af_he F) as B3. pose proof (af_ps F) as B4.
  pose proof (path_start_le_len b W) as B5.
  set (ps := path_start b) in *. set (se := scheme_end b) in *.
  assert (nlen (nfirstn ps (ser b)) = ps) as Lp by (apply nlen_nfirstn; exact B5).
  assert (nlen (nfirstn ps (ser b) ++ [47]) = ps + 1) as Lpre by (rewrite nlen_app, Lp; reflexivity).
  pose proof (pinv_len ps (ps + 1) _ ltac:(lia) ltac:(lia) Lpre s I) as Ls.
  destruct I as [I1 I2].
  assert (nfirstn ps s = nfirstn ps (ser b)) as Hpre.
  { rewrite <- (nfirstn_nfirstn ps (ps + 1) s) by lia. rewrite I1. rewrite nfirstn_app_le by lia.
    apply nfirstn_all. lia. }
  assert (exists P', nskipn ps s = 47 :: P') as (P' & HP).
  { assert (nnth s ps = Some 47) as Hn.
    { rewrite <- (pre_nnth (ps + 1) s (nfirstn (ps + 1) s) ps) by (try apply agree_pre_trunc; lia).
      rewrite I1. rewrite nnth_app_ge by lia. rewrite Lp, N.sub_diag. reflexivity. }
    pose proof (piece_one s ps 47 Hn) as Hone.
    destruct (nskipn ps s) as [|x P']; [discriminate|]. exists P'. unfold nfirstn in Hone. change (N.to_nat 1) with 1%nat in Hone. cbn [firstn] in Hone. congruence. }
  (* the record with the new path *)
  destruct (without_query_spec dbg b W) as (W1 & SF1 & SM1 & P1 & Eq1 & Ef1 & Es1 & _).
  set (u1 := without_query b) in *.
  assert (has_authority_b u1 = true) as Ha1.
  { rewrite <- Ha. apply (has_authority_b_pre ps); [|fold se; lia | reflexivity].
    unfold agree_pre. rewrite Es1. apply before_query_prefix. exact W. }
  assert (path_end u1 = nlen (ser u1)) as Epe by (unfold path_end; rewrite Eq1, Ef1; reflexivity).
  assert (nfirstn ps (ser u1) = nfirstn ps (ser b)) as Hpre1 by (rewrite Es1; apply before_query_prefix; exact W).
  set (P := 47 :: P').
  assert (forallb no_qh P = true) as HP1 by (subst P; rewrite <- HP; exact I2).
  assert (P = [] \/ exists r, P = 47 :: r) as HP2 by (right; exists P'; reflexivity).
  set (u2 := with_path u1 P).
  pose proof (wp_wf u1 P W1 Ha1 HP1 HP2) as W2. pose proof (wp_front dbg u1 P W1 Ha1 HP1 HP2) as SF2.
  assert (ser u2 = s) as Es2.
  { subst u2. unfold with_path. cbn [ser]. rewrite Epe. rewrite nskipn_all by lia. rewrite app_nil_r.
    replace (path_start u1) with ps by reflexivity. rewrite Hpre1, <- Hpre. subst P. rewrite <- HP. apply nfirstn_nskipn. }
  assert (query_start u2 = None /\ fragment_start u2 = None) as [Eq2 Ef2].
  { subst u2. unfold with_path. cbn [query_start fragment_start]. rewrite Eq1, Ef1. split; reflexivity. }
  assert (same_main u1 u2) as SM2 by (repeat split).
  (* now evaluate with_query_and_fragment *)
  unfold with_query_and_fragment in H. fold ps se in H.
  replace (ps =? se + 1) with false in H by lia.
  assert ((ps =? se + 3) && list_eqb (nfirstn (ps - se) (nskipn se s)) [58; 47; 46] = false) as Em.
  { destruct (ps =? se + 3) eqn:E3; [|reflexivity]. cbn [andb]. apply N.eqb_eq in E3.
    replace (ps - se) with 3 by lia.
    assert (starts_with s_css (nskipn se s) = true) as Hc.
    { unfold has_authority_b in Ha. fold se in Ha. rewrite <- Ha.
      apply (pre_starts_with ps); [exact Hpre | change (nlen s_css) with 3; lia]. }
    apply starts_with_split in Hc. rewrite Hc. reflexivity. }
  rewrite Em in H. cbn [pbind] in H.
  destruct (parse_query_and_fragment None CUrlParser st se s rem) as [[[s2 qs] fs]| |] eqn:Epqf; cbn [pbind] in H; try discriminate.
  inversion H; subst u'. clear H.
  rewrite <- Es2 in Epqf. replace se with (scheme_end u2) in Epqf by reflexivity.
  destruct (pqf_on_clean dbg u2 st rem s2 qs fs W2 Eq2 Ef2 Hrem Epqf) as (W3 & SF3 & SM3 & P3 & A3).
  assert (url_with u2 s2 qs fs = mkUrl s2 se (username_end b) (host_start b) (host_end b) (hosti b) (port b) ps qs fs) as E
    by reflexivity.
  rewrite E in *.
  split; [exact W3|]. split; [eapply same_front_trans; [exact SF1|]; eapply same_front_trans; eassumption|].
  split; [repeat split|].
  unfold agree_pre. cbn [ser]. rewrite Es2 in A3. cbn [ser] in A3.
  rewrite <- (nfirstn_nfirstn ps (nlen s) s2) by lia. unfold agree_pre in A3. rewrite A3.
  rewrite nfirstn_nfirstn by lia. exact Hpre.
Qed.

(* prefixes of the simple results *)
Lemma ps_le_before_query b : wf_b b = true -> path_start b <= nlen (b_before_query b).
Proof.
  intros W. pose proof (wf_qf_facts b W) as QF. pose proof (qf_q QF) as Q1. pose proof (qf_f QF) as Q2.
  pose proof (path_start_le_len b W). unfold b_before_query.
  destruct (query_start b) as [q|]; [rewrite nlen_nfirstn; lia|].
  destruct (fragment_start b) as [f|]; [rewrite nlen_nfirstn; lia | lia].
Qed.

Lemma before_fragment_prefix b : wf_b b = true ->
  nfirstn (path_start b) (b_before_fragment b) = nfirstn (path_start b) (ser b)
  /\ path_start b <= nlen (b_before_fragment b).
Proof.
  intros W. pose proof (wf_qf_facts b W) as QF. pose proof (qf_f QF) as Q2. pose proof (path_start_le_len b W).
  unfold b_before_fragment. destruct (fragment_start b) as [f|]; [|split; [reflexivity | lia]].
  split; [apply nfirstn_nfirstn; lia | rewrite nlen_nfirstn; lia].
Qed.

Lemma contain_pre_inv b input : contain_pre b input = true ->
  has_scheme_b (ref_text input) = false /\ two_leading_slashes (base_special b) (ref_text input) = false.
Proof.
  unfold contain_pre. intros H. apply andb_true_iff in H. destruct H as [H1 H2].
  split; [destruct (has_scheme_b (ref_text input)) | destruct (two_leading_slashes (base_special b) (ref_text input))];
    try reflexivity; discriminate.
Qed.

Lemma auth_not_cbb b : wf_b b = true -> has_authority_b b = true -> cannot_be_a_base b = Some false.
Proof.
  intros W Ha. rewrite (cannot_be_a_base_eval b W). unfold has_authority_b in Ha.
  destruct (css_bytes _ _ Ha) as (_ & C2 & _). apply byte_eqb_true_iff in C2. rewrite C2. reflexivity.
Qed.

(* the two path arms of parse_relative end in the same way *)
Lemma path_arm_auth b st s0 r u' : wf_b b = true -> has_authority_b b = true -> st_is_file st = false ->
  PInv (path_start b) (path_start b + 1) (nfirstn (path_start b) (ser b) ++ [47]) s0 ->
  usv_list r ->
  (p <~ parse_path dbg CUrlParser st true (path_start b) s0 r ;;
   (let '(s, _, rem) := p in
    with_query_and_fragment None CUrlParser st (scheme_end b) (username_end b) (host_start b) (host_end b)
      (hosti b) (port b) (path_start b) s rem)) = POk u' ->
  wf_b u' = true /\ same_front dbg b u' /\ same_main b u' /\ agree_pre (path_start b) (ser b) (ser u').
Proof.
  intros W Ha Hnf I Hr H. unfold parse_path in H.
  pose proof (path_start_le_len b W) as B5.
  assert (nlen (nfirstn (path_start b) (ser b) ++ [47]) = path_start b + 1) as Lpre.
  { rewrite nlen_app, nlen_nfirstn by exact B5. reflexivity. }
  destruct (parse_path_loop dbg CUrlParser st (path_start b) r s0 (nlen s0) [] true) as [[[s hh] rem]| |] eqn:E;
    cbn [pbind] in H; try discriminate.
  destruct (pinv_loop_url dbg (path_start b) (path_start b + 1) _ ltac:(lia) ltac:(lia) Lpre st r
              ltac:(intros X; rewrite X in Hnf; discriminate) _ _ _ _ _ _ _ E I
              ltac:(eapply pinv_len; [| |exact Lpre|exact I]; lia) Hr ltac:(constructor))
    as ((x & Ex & Ix) & Hrem & _).
  unfold file_path_fixup in Ex. rewrite Hnf in Ex. subst x.
  eapply wqf_auth; eassumption.
Qed.

Theorem contain_auth b input u' :
  wf_b b = true -> has_authority_b b = true -> st_is_file (b_st b) = false ->
  usv_list input -> contain_pre b input = true ->
  join b input = POk u' ->
  wf_b u' = true /\ same_front dbg b u' /\ same_main b u' /\ agree_pre (path_start b) (ser b) (ser u').
Proof.
  intros W Ha Hnf Hu Hcp.
  pose proof (auth_not_cbb b W Ha) as Hc.
  destruct (contain_pre_inv b input Hcp) as [Hns H2s].
  destruct (ref_text input) as [|c t] eqn:Et.
  { rewrite (join_empty dbg hp hpo hd b input Hc Et). intros H. inversion H; subst u'.
    destruct (without_fragment_spec dbg b W) as (W1 & SF1 & SM1 & _ & _ & _ & _ & _ & Es1).
    split; [exact W1|]. split; [exact SF1|]. split; [exact SM1|]. unfold agree_pre. rewrite Es1.
    apply before_fragment_prefix. exact W. }
  destruct (N.eq_dec c 35) as [->|N35].
  { intros H. rewrite (join_frag_out dbg hp hpo hd b input t u' Hu Et H).
    destruct (with_fragment_spec dbg b (encode T_FRAGMENT (utf8_encode t)) W) as (W1 & SF1 & SM1 & _ & _ & _ & Es1).
    split; [exact W1|]. split; [exact SF1|]. split; [exact SM1|]. unfold agree_pre. rewrite Es1.
    destruct (before_fragment_prefix b W) as [A1 A2]. rewrite nfirstn_app_le by exact A2. exact A1. }
  destruct (N.eq_dec c 63) as [->|N63].
  { intros H. destruct (join_query dbg hp hpo hd b input t u' W Hc Hu Et H) as [-> HQ].
    destruct (with_query_spec dbg hp hpo b _ (ref_fragment t) W HQ) as (W1 & SF1 & SM1 & _).
    split; [exact W1|]. split; [exact SF1|]. split; [exact SM1|]. unfold agree_pre, with_query, url_with. cbn [ser].
    rewrite nfirstn_app_le by (apply ps_le_before_query; exact W). apply before_query_prefix. exact W. }
  (* the path arms *)
  unfold parse_url. set (l := input_new_trim_c0 input). change (ntnl l = c :: t) in Et.
  assert (usv_list l) as Hl by (apply usv_trim; exact Hu).
  rewrite parse_scheme_none by (rewrite Et; exact Hns).
  destruct (inp_next_some l c t Et) as (r & En & Er & Ect).
  pose proof (inp_next_usv l c r Hl En) as Hr.
  unfold inp_starts_with_char. rewrite En. replace (c =? 35) with false by lia. rewrite Hc.
  fold (b_st b). rewrite Hnf. unfold parse_relative, inp_split_first. rewrite En.
  replace (c =? 63) with false by lia. replace (c =? 35) with false by lia.
  pose proof (path_start_le_len b W) as B5.
  assert (nlen (nfirstn (path_start b) (ser b)) = path_start b) as Lp by (apply nlen_nfirstn; exact B5).
  destruct ((c =? 47) || (c =? 92) && st_is_special (b_st b)) eqn:Esl.
  - (* one leading slash *)
    destruct (inp_count_matching (fun d => (d =? 47) || (d =? 92) && st_is_special (b_st b)) l) as [sl rem'] eqn:Ecm.
    assert (sl < 2) as Hsl.
    { pose proof (inp_count_matching_fst (fun d => (d =? 47) || (d =? 92) && st_is_special (b_st b)) l) as Hf.
      rewrite Ecm in Hf. cbn [fst] in Hf. rewrite Hf, Et. apply count_leading_lt2. exact H2s. }
    replace (2 <=? sl) with false by lia.
    apply path_arm_auth; try assumption.
    split.
    + apply nfirstn_all. rewrite nlen_app, Lp. change (nlen [47]) with 1. lia.
    + rewrite nskipn_app_ge by lia. rewrite Lp, N.sub_diag. reflexivity.
  - (* a relative path: pop the last segment of the base path *)
    destruct (without_query_spec dbg b W) as (W1 & _ & _ & _ & Eq1 & Ef1 & Es1 & _).
    set (u1 := without_query b) in *.
    pose proof (qf_facts_of u1 W1) as (_ & _ & _ & Q4 & _).
    assert (path_end u1 = nlen (ser u1)) as Epe by (unfold path_end; rewrite Eq1, Ef1; reflexivity).
    rewrite Epe in Q4. replace (path_start u1) with (path_start b) in Q4 by reflexivity.
    pose proof (ps_le_before_query b W) as Lq. rewrite <- Es1 in Lq.
    rewrite nfirstn_all in Q4 by (rewrite nlen_nskipn; lia).
    assert (nfirstn (path_start b) (ser u1) = nfirstn (path_start b) (ser b)) as Hp1
      by (rewrite Es1; apply before_query_prefix; exact W).
    rewrite <- Es1.
    destruct (pop_path (b_st b) (path_start b) (ser u1)) as [s1| |] eqn:Epop; cbn [pbind]; try discriminate.
    rewrite inp_is_empty_ntnl, Et. cbn [negb]. rewrite orb_true_r, andb_true_r.
    assert (PInv (path_start b) (path_start b + 1) (nfirstn (path_start b) (ser b) ++ [47])
                 (if nlen s1 =? path_start b then s1 ++ [47] else s1)) as I.
    { destruct (N.eq_dec (nlen (ser u1)) (path_start b)) as [Elen|Nlen].
      - (* empty base path *)
        unfold pop_path in Epop. replace (path_start b <? nlen (ser u1)) with false in Epop by lia.
        injection Epop as <-. rewrite <- Es1. replace (nlen (ser u1) =? path_start b) with true by lia.
        assert (ser u1 = nfirstn (path_start b) (ser b)) as E1.
        { rewrite <- Hp1. symmetry. apply nfirstn_all. lia. }
        rewrite E1. split.
        + apply nfirstn_all. rewrite nlen_app, Lp. change (nlen [47]) with 1. lia.
        + rewrite nskipn_app_ge by lia. rewrite Lp, N.sub_diag. reflexivity.
      - (* non-empty base path: it starts with '/' *)
        assert (byte_eqb (ser u1) (path_start b) 47 = true) as B47.
        { pose proof W1 as W1'. apply wf_b_iff in W1'. destruct W1' as (_ & HA & _).
          assert (has_authority_b u1 = true) as Ha1.
          { rewrite <- Ha. apply (has_authority_b_pre (path_start b)); [exact Hp1 | | reflexivity].
            pose proof (wf_auth_facts b W Ha) as F. pose proof (af_ue F); pose proof (af_hs F); pose proof (af_he F); pose proof (af_ps F). lia. }
          rewrite Ha1 in HA. destruct HA as [_ HPS]. unfold pathstart_ok in HPS.
          replace (path_start u1) with (path_start b) in HPS by reflexivity.
          destruct HPS as [HPS|[HPS|[HPS|HPS]]]; [lia | exact HPS | |];
            exfalso; apply byte_eqb_nnth in HPS;
            pose proof (piece_one _ _ _ HPS) as Hone; destruct (nskipn (path_start b) (ser u1)) as [|x y]; try discriminate;
            unfold nfirstn in Hone; change (N.to_nat 1) with 1%nat in Hone; cbn [firstn] in Hone; inversion Hone; subst x;
            cbn [forallb] in Q4; discriminate. }
        assert (PInv (path_start b) (path_start b + 1) (nfirstn (path_start b) (ser b) ++ [47]) (ser u1)) as I1.
        { split; [|exact Q4]. apply byte_eqb_nnth in B47.
          replace (path_start b + 1) with (path_start b + (path_start b + 1 - path_start b)) by lia.
          unfold nfirstn at 1. rewrite N2Nat.inj_add. rewrite firstn_add_nat. fold (nfirstn (path_start b) (ser u1)).
          rewrite Hp1. f_equal. replace (path_start b + 1 - path_start b) with 1 by lia.
          exact (piece_one _ _ _ B47). }
        assert (nlen (nfirstn (path_start b) (ser b) ++ [47]) = path_start b + 1) as Lpre by (rewrite nlen_app, Lp; reflexivity).
        pose proof (pinv_pop_path (path_start b) (path_start b + 1) _ ltac:(lia) ltac:(lia) Lpre _ _ _ Epop I1) as I2.
        pose proof (pinv_len (path_start b) (path_start b + 1) _ ltac:(lia) ltac:(lia) Lpre _ I2).
        replace (nlen s1 =? path_start b) with false by lia. exact I2. }
    rewrite match47. replace (c =? 47) with false by (destruct (c =? 47); [discriminate Esl | reflexivity]).
    apply path_arm_auth; assumption.
Qed.

End Contain.
