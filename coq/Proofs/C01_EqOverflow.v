(* Proofs/C01_EqOverflow.v - the Overflow disjunct of the C01 class theorems, made precise: in each
   proved class the model answers ParseError::Overflow only if the serialization the STANDARD
   prescribes (href) is itself longer than u32::MAX bytes. *)
From RU Require Import Base.Prelude Base.Utf8 Base.Utf8Facts Model.AsciiSet Gen.Tables
  Model.PercentEncoding Model.HostT Model.UrlRecord Model.Parser Model.Setters Model.WF Model.KnownC08 Spec.Whatwg
  Proofs.ListN Proofs.C14_Enc Proofs.C02_Enc Proofs.C02_Parts Proofs.C02_Opaque Proofs.C02_Path Proofs.C02_PathL1
  Proofs.C03_WF Proofs.C01_Tables Proofs.C08_Input Proofs.C08_Simple
  Proofs.C01_EqRun Proofs.C01_EqEnc Proofs.C01_EqApi Proofs.C01_EqOpaque Proofs.C01_EqRef
  Proofs.C01_EqPathSpec Proofs.C01_EqPath.

Lemma nlen_app_le a b : nlen a <= nlen (a ++ b).
Proof. rewrite nlen_app. lia. Qed.

Lemma to_u32_overflow n : to_u32 n = PErr Overflow -> U32_MAX_P < n.
Proof. unfold to_u32. destruct (n <=? U32_MAX_P) eqn:E; [discriminate | lia]. Qed.

Lemma to_u32_cases n : (exists m, to_u32 n = POk m /\ m = n) \/ (to_u32 n = PErr Overflow /\ U32_MAX_P < n).
Proof. unfold to_u32. destruct (n <=? U32_MAX_P) eqn:E; [left; eexists; split; reflexivity | right; split; [reflexivity | lia]]. Qed.

(* the query / fragment states overflow only if their whole output is too long *)
Lemma pqf_overflow ovr st se s l : usv_list l ->
  query_enc ovr (nfirstn se (s ++ [63])) = utf8_encode ->
  parse_query_and_fragment ovr CUrlParser st se s l = PErr Overflow ->
  U32_MAX_P < nlen (s ++ qf_text (pqf_q st l) (pqf_f l)).
Proof.
  intros Hl Henc. unfold parse_query_and_fragment, pqf_q, pqf_f.
  destruct (inp_next l) as [[c r]|] eqn:En; [|discriminate].
  pose proof (inp_next_usv l c r Hl En) as Hr.
  pose proof (nlen_app_le s (qf_text (if c =? 63 then Some (query_of st r) else None)
      (if c =? 35 then Some (frag_of r) else if c =? 63 then option_map frag_of (query_rest true r) else None))) as L0.
  destruct (c =? 35) eqn:E35.
  - destruct (to_u32_cases (nlen s)) as [(m & -> & _)|[-> B]]; cbn [pbind]; [discriminate | intros _; lia].
  - destruct (c =? 63) eqn:E63; [|discriminate].
    destruct (to_u32_cases (nlen s)) as [(m1 & -> & _)|[-> B]]; cbn [pbind]; [|intros _; lia].
    unfold parse_query. rewrite Henc. cbn [ctx_eqb].
    rewrite parse_query_loop_spec by (try constructor; exact Hr). cbn [rev app]. fold (query_of st r).
    destruct (query_rest true r) as [r2|]; [|discriminate].
    destruct (to_u32_cases (nlen ((s ++ [63]) ++ query_of st r))) as [(m2 & -> & _)|[-> B]]; cbn [pbind]; [discriminate|].
    intros _. unfold qf_text. cbn [option_map qf_qtext qf_ftext].
    clear L0. cbn [app] in *. unfold nlen in *; rewrite ?app_length in *; cbn [length] in *; rewrite ?app_length; lia.
Qed.

Section Bounds.
Variable dbg : bool.
Variable hp hpo : list N -> result host.
Variable hd : host -> list N.
Variable shp : bool -> list N -> option spec_host.
Variable shs : spec_host -> list N.

Lemma href_opaque sch P q f : get_href shs (spec_opaque_url sch P q f) = opaque_pre sch P ++ qf_text q f.
Proof.
  unfold get_href, serialize_url, spec_opaque_url, opaque_pre, qf_text.
  cbn [su_scheme su_username su_password su_host su_port su_path su_query su_fragment serialize_path].
  rewrite <- !app_assoc. destruct q; destruct f; reflexivity.
Qed.

(* ---------- opaque class ---------- *)
Theorem opaque_overflow_bound ovr input sch rem su : usv_list input ->
  parse_scheme CUrlParser (input_new_trim_c0 input) = Some (sch, rem) ->
  scheme_type_of sch = STNotSpecial -> inp_split_prefix_char 47 rem = None ->
  parse_url dbg hp hpo hd ovr None input = PErr Overflow ->
  spec_basic_url_parse shp input None = BDone su ->
  U32_MAX_P < nlen (get_href shs su).
Proof.
  intros Hu Hs Hns H47 E Hsu.
  rewrite (spec_opaque shp input sch rem Hs Hns H47) in Hsu. injection Hsu as <-.
  rewrite href_opaque.
  destruct (parse_scheme_suffix _ _ _ _ Hs) as [pre0 Hpre].
  assert (usv_list rem) as Hur.
  { pose proof (usv_trim input Hu) as Ht. rewrite Hpre in Ht. apply usv_app in Ht. tauto. }
  pose proof (nlen_app_le (opaque_pre sch (opaque_of rem))
                (qf_text (pqf_q STNotSpecial (cbb_rest rem)) (pqf_f (cbb_rest rem)))) as L1.
  assert (nlen sch <= nlen (opaque_pre sch (opaque_of rem)) /\ nlen (sch ++ [58]) <= nlen (opaque_pre sch (opaque_of rem))) as [L2 L3].
  { unfold opaque_pre. rewrite !nlen_app. lia. }
  revert E. unfold parse_url. rewrite Hs. unfold parse_with_scheme. rewrite Hns.
  destruct (to_u32_cases (nlen sch)) as [(m & -> & ->)|[-> B]]; cbn [pbind]; [|intros _; lia].
  rewrite pns_opaque_eval by assumption.
  destruct (to_u32_cases (nlen (sch ++ [58]))) as [(m2 & -> & ->)|[-> B]]; cbn [pbind]; [|intros _; lia].
  destruct (parse_query_and_fragment ovr CUrlParser STNotSpecial (nlen sch) (opaque_pre sch (opaque_of rem)) (cbb_rest rem))
    as [[[s2 qs] fs]|e|] eqn:Eq; cbn [pbind]; try discriminate.
  intros E. injection E as ->.
  apply (pqf_overflow ovr STNotSpecial (nlen sch)); [apply usv_cbb_rest; exact Hur | | exact Eq].
  unfold opaque_pre. rewrite <- !app_assoc. rewrite nfirstn_app_len. apply query_enc_nonspecial. exact Hns.
Qed.

(* ---------- fragment only ---------- *)
Theorem fragment_only_overflow_bound input b sb f su : usv_list input -> related dbg shs b sb ->
  spec_clean input = 35 :: f ->
  parse_url dbg hp hpo hd None (Some b) input = PErr Overflow ->
  spec_basic_url_parse shp input (Some sb) = BDone su ->
  U32_MAX_P < nlen (get_href shs su).
Proof.
  intros Hu R Hc E Hsu.
  rewrite (spec_fragment_only shp input sb f Hc (rel_valid _ _ _ _ R)) in Hsu. injection Hsu as <-.
  assert (ref_text input = 35 :: f) as Hr.
  { rewrite ref_text_eq, <- spec_clean_is_ntnl_trim. exact Hc. }
  rewrite (join_frag_eq dbg hp hpo hd b input f Hu Hr) in E.
  destruct (to_u32_cases (nlen (b_before_fragment b))) as [(m & Em & _)|[_ B]]; [rewrite Em in E; discriminate|].
  rewrite (rel_bf _ _ _ _ R) in B.
  assert (get_href shs (set_fragment sb (Some (upe in_fragment_set f)))
          = serialize_url shs sb true ++ 35 :: upe in_fragment_set f) as ->.
  { unfold get_href, serialize_url.
    cbn [su_scheme su_username su_password su_host su_port su_path su_query su_fragment set_fragment
         includes_credentials serialize_path].
    rewrite !app_nil_r. rewrite <- !app_assoc. reflexivity. }
  pose proof (nlen_app_le (serialize_url shs sb true) (35 :: upe in_fragment_set f)). lia.
Qed.

(* ---------- path only ---------- *)
Lemma href_noauth sch P q f : P <> [] -> forallb no_slash P = true ->
  get_href shs (spec_noauth_url sch P q f) = noauth_pre sch (flat_map (fun s => 47 :: s) P) ++ qf_text q f.
Proof.
  intros Hne Hns. unfold get_href, serialize_url, spec_noauth_url, noauth_pre, qf_text.
  cbn [su_scheme su_username su_password su_host su_port su_path su_query su_fragment serialize_path].
  rewrite (marker_flat P Hne Hns). rewrite <- !app_assoc. destruct q; destruct f; reflexivity.
Qed.

Theorem pathonly_overflow_bound ovr input sch rem rem' su : usv_list input ->
  parse_scheme CUrlParser (input_new_trim_c0 input) = Some (sch, rem) ->
  scheme_type_of sch = STNotSpecial ->
  inp_split_prefix_str s_ss rem = None -> inp_split_prefix_char 47 rem = Some rem' ->
  ntnl rem = 47 :: ntnl rem' -> starts_with_cp 47 (ntnl rem') = false ->
  spath_ok (ntnl rem') [] [] = true ->
  parse_url dbg hp hpo hd ovr None input = PErr Overflow ->
  spec_basic_url_parse shp input None = BDone su ->
  U32_MAX_P < nlen (get_href shs su).
Proof.
  intros Hu Hs Hns Hss H47 Hrem Hn47 Hok E Hsu.
  destruct (parse_scheme_suffix _ _ _ _ Hs) as [pre0 Hpre].
  assert (usv_list rem) as Hur.
  { pose proof (usv_trim input Hu) as Ht. rewrite Hpre in Ht. apply usv_app in Ht. tauto. }
  assert (usv_list rem') as Hur'.
  { unfold inp_split_prefix_char in H47. destruct (inp_next rem) as [[d r]|] eqn:En; [|discriminate].
    destruct (d =? 47); [|discriminate]. inversion H47; subst. exact (inp_next_usv rem d rem' Hur En). }
  assert (pend_ok []) as Hp0 by (split; [constructor | reflexivity]).
  destruct (loop_exact (sch ++ [58]) dbg rem' [] [] [] false Hur' Hp0 eq_refl eq_refl Hok)
    as (segs & last & Hloop & Hfst & Hsnd).
  cbn [app rev utf8_encode flat_map encode] in Hfst, Hsnd.
  rewrite (spec_noauth shp input sch rem rem' Hs Hns Hrem Hn47 Hsnd) in Hsu. injection Hsu as <-.
  set (P := fst (spath (ntnl rem') [] [])) in *.
  assert (P <> []) as Hne by (rewrite Hfst; intros H; apply app_eq_nil in H; destruct H; discriminate).
  assert (forallb no_slash P = true) as Hnsl by (apply spath_no_slash; reflexivity).
  rewrite (href_noauth sch P _ _ Hne Hnsl).
  set (T := flat_map (fun s => 47 :: s) P).
  assert (T = path_text segs last) as ET by (unfold T; rewrite Hfst; apply path_text_flat).
  pose proof (nlen_app_le (noauth_pre sch T) (qf_text (pqf_q STNotSpecial (cbb_rest rem')) (pqf_f (cbb_rest rem')))) as L1.
  assert (nlen sch <= nlen (noauth_pre sch T) /\ nlen (sch ++ [58]) <= nlen (noauth_pre sch T)) as [L2 L3].
  { unfold noauth_pre. rewrite !nlen_app. lia. }
  revert E. unfold parse_url. rewrite Hs. unfold parse_with_scheme. rewrite Hns.
  destruct (to_u32_cases (nlen sch)) as [(m & -> & ->)|[-> B]]; cbn [pbind]; [|intros _; lia].
  unfold parse_non_special. rewrite Hss, H47.
  destruct (to_u32_cases (nlen (sch ++ [58]))) as [(m2 & -> & ->)|[-> B]]; cbn [pbind]; [|intros _; lia].
  unfold parse_path.
  assert ((sch ++ [58]) ++ [47] = Bs (sch ++ [58]) [] ++ []) as EB by (unfold Bs; cbn; rewrite !app_nil_r; reflexivity).
  rewrite EB. rewrite app_nil_r at 2. rewrite Hloop. cbn [pbind].
  assert (Bs (sch ++ [58]) segs ++ last = (sch ++ [58]) ++ T) as EBT.
  { rewrite ET. unfold Bs, path_text. rewrite <- !app_assoc. reflexivity. }
  rewrite EBT.
  assert (starts_with [47] T = true) as HT by (rewrite ET; reflexivity).
  rewrite (wqf_noauth_eq hp hpo ovr sch T (cbb_rest rem') HT). cbv zeta.
  destruct (parse_query_and_fragment ovr CUrlParser STNotSpecial (nlen sch) (noauth_pre sch T) (cbb_rest rem'))
    as [[[s2 qs] fs]|e|] eqn:Eq; cbn [pbind]; try discriminate.
  intros E. injection E as ->.
  apply (pqf_overflow ovr STNotSpecial (nlen sch)); [apply usv_cbb_rest; exact Hur' | | exact Eq].
  unfold noauth_pre. rewrite <- !app_assoc. rewrite nfirstn_app_len. apply query_enc_nonspecial. exact Hns.
Qed.

(* ---------- query only ---------- *)
Theorem query_only_overflow_bound input b sb q su : usv_list input -> related dbg shs b sb ->
  has_opaque_path sb = false -> spec_clean input = 63 :: q ->
  parse_url dbg hp hpo hd None (Some b) input = PErr Overflow ->
  spec_basic_url_parse shp input (Some sb) = BDone su ->
  U32_MAX_P < nlen (get_href shs su).
Proof.
  intros Hu R Hop Hc E Hsu.
  rewrite (spec_query_only shp input sb q Hc (rel_valid _ _ _ _ R) Hop) in Hsu. injection Hsu as <-.
  assert (cannot_be_a_base b = Some false) as Hcb by (rewrite (rel_cbb _ _ _ _ R), Hop; reflexivity).
  revert E. unfold parse_url. set (l := input_new_trim_c0 input).
  assert (ntnl l = 63 :: q) as He by (unfold l; rewrite <- spec_clean_is_ntnl_trim; exact Hc).
  assert (usv_list l) as Hl by (apply usv_trim; exact Hu).
  rewrite parse_scheme_first_not_alpha by (rewrite He; reflexivity).
  destruct (inp_next_some l 63 q He) as (r & En & Er & Et).
  unfold inp_starts_with_char. rewrite En. cbn [N.eqb Pos.eqb]. rewrite Hcb.
  assert (pqf_q (b_st b) l = Some (upe (qset_of sb) (before_hash q))) as Pq.
  { unfold pqf_q. rewrite En. replace (63 =? 63) with true by reflexivity. f_equal.
    unfold query_of, b_st, qset_of, is_special, query_set. rewrite (rel_sch _ _ _ _ R).
    rewrite special_schemes_are_the_standards, before_hash_ntnl, Er.
    destruct (is_special_scheme (su_scheme sb)); apply enc_bridge; [exact rel_SPECIAL_QUERY | exact rel_QUERY]. }
  assert (pqf_f l = option_map (upe in_fragment_set) (after_hash q)) as Pf.
  { unfold pqf_f. rewrite En. replace (63 =? 63) with true by reflexivity. replace (63 =? 35) with false by reflexivity.
    rewrite <- Er, <- after_hash_ntnl.
    destruct (query_rest true r) as [r2|]; cbn [option_map]; [|reflexivity]. rewrite frag_of_upe. reflexivity. }
  assert (get_href shs (ref_result sb q)
          = b_before_query b ++ qf_text (pqf_q (b_st b) l) (pqf_f l)) as EH.
  { rewrite Pq, Pf. unfold ref_result, get_href. rewrite (rel_bq _ _ _ _ R). unfold serialize_url, qf_text.
    cbn [su_scheme su_username su_password su_host su_port su_path su_query su_fragment set_fragment set_query
         includes_credentials serialize_path qf_qtext].
    rewrite !app_nil_r. rewrite <- !app_assoc. cbn [app].
    destruct (after_hash q); reflexivity. }
  rewrite EH.
  assert ((s3 <~ parse_query_and_fragment None CUrlParser (b_st b) (scheme_end b) (b_before_query b) l ;;
                     (let '(s, qs, fs) := s3 in POk (url_with b s qs fs))) = PErr Overflow ->
          U32_MAX_P < nlen (b_before_query b ++ qf_text (pqf_q (b_st b) l) (pqf_f l))) as K.
  { intros H.
    destruct (parse_query_and_fragment None CUrlParser (b_st b) (scheme_end b) (b_before_query b) l)
      as [[[s qs] fs]|e|] eqn:Eq; cbn [pbind] in H; try discriminate.
    injection H as ->. apply (pqf_overflow None (b_st b) (scheme_end b)); [exact Hl | reflexivity | exact Eq]. }
  fold (b_st b).
  destruct (st_is_file (b_st b)).
  - unfold parse_file, inp_split_first. rewrite En. cbn [is_slash_or_bslash N.eqb Pos.eqb orb].
    intros H. exact (K H).
  - unfold parse_relative, inp_split_first. rewrite En. cbn [N.eqb Pos.eqb].
    intros H. exact (K H).
Qed.

End Bounds.
