(* Proofs/C17_Known.v - from the computable class Known_C17 (Model/KnownC17.v, on the code points of
   the input) to the hypotheses of C17_Full.opaque_is_fetch (on what parse_scheme leaves after "data:"
   and on the UTF-8 bytes DataUrl::process works on). *)
From RU Require Import Base.Prelude Base.Utf8 Base.Utf8Facts Model.AsciiSet Gen.Tables Model.PercentEncoding
  Model.HostT Model.UrlRecord Model.Parser Model.Mime Model.Base64 Model.DataUrl Model.DataUrlTie Model.KnownC17
  Spec.Infra Spec.MimeSniff Spec.Fetch
  Proofs.C02_Enc Proofs.C02_Parts Proofs.C19_Pure
  Proofs.C17_Tables Proofs.C17_Total Proofs.C17_Main Proofs.C17_Bridge Proofs.C17_Fragment
  Proofs.C17_Body Proofs.C17_BodyUrl Proofs.C17_Header Proofs.C17_Full.

Local Notation nt := C02_Enc.not_tnl.

(* ---- bytes of a code point ---- *)
Definition hi (l : list N) : Prop := Forall (fun b => 128 <= b) l.

Lemma enc1_cases c : is_usv c ->
  (c < 128 /\ utf8_encode1 c = [c])
  \/ (128 <= c /\ exists b l, utf8_encode1 c = b :: l /\ 128 <= b /\ hi l).
Proof.
  intros Hu. destruct (N.ltb_spec c 128) as [Hlt|Hge].
  - left. split; [exact Hlt|apply encode1_ascii; exact Hlt].
  - right. split; [exact Hge|]. pose proof (encode1_all_above c 128 Hu Hge ltac:(lia)) as Hall.
    destruct (utf8_encode1_head c Hu Hge) as (b & l & E & Hb & _). exists b, l. rewrite E in Hall.
    inversion Hall; subst. split; [exact E|]. split; assumption.
Qed.

(* ---- K3 on the bytes = K3 on the code points ---- *)
Definition esc_check (r : list N) : bool :=
  match k17_next false r with
  | Some (h, s1, r1) =>
      match k17_next false r1 with
      | Some (l, s2, _) => k17_is_hex h && k17_is_hex l && (s1 || s2)
      | None => false
      end
  | None => false
  end.

Lemma split_escape_unfold c r :
  k17_split_escape (c :: r) =
  if c =? 35 then false else if c =? 37 then esc_check r || k17_split_escape r else k17_split_escape r.
Proof. reflexivity. Qed.

Lemma is_hex_hi b : 128 <= b -> k17_is_hex b = false.
Proof.
  intros H. unfold k17_is_hex, hex_val, is_digit.
  replace ((48 <=? b) && (b <=? 57)) with false by lia. replace ((65 <=? b) && (b <=? 70)) with false by lia.
  replace ((97 <=? b) && (b <=? 102)) with false by lia. reflexivity.
Qed.

Lemma next_utf8 r : usv_list r -> forall sk,
  match k17_next sk r with
  | None => k17_next sk (utf8_encode r) = None
  | Some (c, s, r') =>
      (c < 128 /\ k17_next sk (utf8_encode r) = Some (c, s, utf8_encode r') /\ usv_list r')
      \/ (128 <= c /\ exists b rr, k17_next sk (utf8_encode r) = Some (b, s, rr) /\ 128 <= b)
  end.
Proof.
  induction r as [|c r IH]; intros Hu sk; [reflexivity|]. inversion Hu as [|? ? Hc Hr]; subst.
  cbn [k17_next]. rewrite utf8_cons. destruct (k17_tnl c) eqn:Et.
  - rewrite encode1_ascii by (unfold k17_tnl in Et; lia). cbn [app k17_next]. rewrite Et. exact (IH Hr true).
  - destruct (enc1_cases c Hc) as [[Hlt E]|[Hge (b & l & E & Hb & Hl)]]; rewrite E.
    + left. cbn [app k17_next]. rewrite Et. split; [exact Hlt|]. split; [reflexivity|exact Hr].
    + right. split; [exact Hge|]. exists b, (l ++ utf8_encode r). cbn [app k17_next].
      replace (k17_tnl b) with false by (unfold k17_tnl; lia). split; [reflexivity|exact Hb].
Qed.

Lemma esc_check_utf8 r : usv_list r -> esc_check (utf8_encode r) = esc_check r.
Proof.
  intros Hu. unfold esc_check. pose proof (next_utf8 r Hu false) as H1.
  destruct (k17_next false r) as [[[h s1] r1]|]; [|rewrite H1; reflexivity].
  destruct H1 as [(Hlt & E & Hr1)|(Hge & b & rr & E & Hb)]; rewrite E.
  - pose proof (next_utf8 r1 Hr1 false) as H2.
    destruct (k17_next false r1) as [[[l s2] r2]|]; [|rewrite H2; reflexivity].
    destruct H2 as [(Hlt2 & E2 & _)|(Hge2 & b2 & rr2 & E2 & Hb2)]; rewrite E2; [reflexivity|].
    rewrite (is_hex_hi b2 Hb2), (is_hex_hi l Hge2). rewrite !andb_false_r. reflexivity.
  - rewrite (is_hex_hi b Hb), (is_hex_hi h Hge).
    destruct (k17_next false rr) as [[[l s2] r2]|]; destruct (k17_next false r1) as [[[l' s2'] r2']|]; reflexivity.
Qed.

Lemma split_escape_hi l r : hi l -> k17_split_escape (l ++ r) = k17_split_escape r.
Proof.
  induction l as [|b l IH]; intros H; [reflexivity|]. inversion H as [|? ? Hb Hl]; subst.
  cbn [app]. rewrite split_escape_unfold. replace (b =? 35) with false by lia. replace (b =? 37) with false by lia.
  exact (IH Hl).
Qed.

Lemma split_escape_utf8 r : usv_list r -> k17_split_escape (utf8_encode r) = k17_split_escape r.
Proof.
  induction r as [|c r IH]; intros Hu; [reflexivity|]. inversion Hu as [|? ? Hc Hr]; subst.
  rewrite utf8_cons. destruct (enc1_cases c Hc) as [[Hlt E]|[Hge (b & l & E & Hb & Hl)]]; rewrite E.
  - cbn [app]. rewrite !split_escape_unfold. rewrite (IH Hr), (esc_check_utf8 r Hr). reflexivity.
  - rewrite (split_escape_hi (b :: l) (utf8_encode r)) by (constructor; assumption).
    rewrite split_escape_unfold. replace (c =? 35) with false by lia. replace (c =? 37) with false by lia.
    exact (IH Hr).
Qed.

(* ---- K2 on the bytes = K2 on the code points ---- *)
Lemma after_qmark_first' l : k17_after_qmark l = after_first 63 l.
Proof. induction l as [|c r IH]; [reflexivity|]. cbn [k17_after_qmark after_first]. rewrite IH. reflexivity. Qed.

Definition ru (c : N) : list N := rev (utf8_encode1 c).
Definition RU (y : list N) : list N := flat_map ru y.

Lemma rev_utf8 q : rev (utf8_encode q) = RU (rev q).
Proof. unfold utf8_encode, RU. rewrite rev_flat_map. reflexivity. Qed.

Lemma ru_cases c : is_usv c ->
  (c < 128 /\ ru c = [c]) \/ (128 <= c /\ exists b l, ru c = b :: l /\ 128 <= b).
Proof.
  intros Hu. unfold ru. destruct (enc1_cases c Hu) as [[Hlt E]|[Hge (b & l & E & Hb & Hl)]]; rewrite E.
  - left. split; [exact Hlt|reflexivity].
  - right. split; [exact Hge|].
    assert (Hall : hi (rev (b :: l))) by (apply Forall_rev; constructor; assumption).
    destruct (rev (b :: l)) as [|x y] eqn:Er.
    + apply (f_equal (@length N)) in Er. rewrite rev_length in Er. discriminate Er.
    + inversion Hall; subst. exists x, y. split; [reflexivity|assumption].
Qed.

Lemma to_lower_hi' b : 128 <= b -> to_lower b = b.
Proof. intros H. unfold to_lower, is_upper. replace ((65 <=? b) && (b <=? 90)) with false by lia. reflexivity. Qed.

Lemma strip_ci_RU lit : Forall (fun l => l < 128) lit -> forall y, usv_list y ->
  k17_strip_ci lit (RU y) = option_map RU (k17_strip_ci lit y).
Proof.
  induction lit as [|l lit IH]; intros Hl y Hu; [reflexivity|]. inversion Hl as [|? ? Hl1 Hl2]; subst.
  destruct y as [|c y]; [reflexivity|]. inversion Hu as [|? ? Hc Hy]; subst.
  change (RU (c :: y)) with (ru c ++ RU y).
  destruct (ru_cases c Hc) as [[Hlt E]|[Hge (b & r & E & Hb)]]; rewrite E.
  - cbn [app k17_strip_ci]. destruct (to_lower c =? l); [exact (IH Hl2 y Hy)|reflexivity].
  - cbn [app k17_strip_ci]. rewrite (to_lower_hi' b Hb), (to_lower_hi' c Hge).
    replace (b =? l) with false by lia. replace (c =? l) with false by lia. reflexivity.
Qed.

Definition semi_next (r : list N) : bool :=
  match k17_drop (fun x => x =? 32) r with d :: _ => d =? 59 | [] => false end.

Lemma semi_next_RU r : usv_list r -> semi_next (RU r) = semi_next r.
Proof.
  unfold semi_next. induction r as [|c r IH]; intros Hu; [reflexivity|]. inversion Hu as [|? ? Hc Hr]; subst.
  change (RU (c :: r)) with (ru c ++ RU r).
  destruct (ru_cases c Hc) as [[Hlt E]|[Hge (b & l & E & Hb)]]; rewrite E.
  - cbn [app k17_drop]. destruct (c =? 32); [exact (IH Hr)|reflexivity].
  - cbn [app k17_drop]. replace (b =? 32) with false by lia. replace (c =? 32) with false by lia.
    replace (b =? 59) with false by lia. replace (c =? 59) with false by lia. reflexivity.
Qed.

Lemma spaced_unfold rq : k17_spaced_base64 rq =
  match k17_strip_ci [52; 54; 101; 115; 97; 98] rq with
  | Some (c :: r) => (c =? 32) && semi_next r
  | _ => false
  end.
Proof. reflexivity. Qed.

Lemma k17_strip_usv lit : forall y r, usv_list y -> k17_strip_ci lit y = Some r -> usv_list r.
Proof.
  induction lit as [|l lit IH]; intros y r Hu H.
  - destruct y; inversion H; subst; exact Hu.
  - destruct y as [|c y]; [discriminate|]. cbn [k17_strip_ci] in H. destruct (to_lower c =? l); [|discriminate].
    inversion Hu; subst. eapply IH; eassumption.
Qed.

Lemma spaced_RU y : usv_list y -> k17_spaced_base64 (RU y) = k17_spaced_base64 y.
Proof.
  intros Hu. rewrite !spaced_unfold. rewrite strip_ci_RU by (try exact Hu; repeat constructor; lia).
  destruct (k17_strip_ci [52; 54; 101; 115; 97; 98] y) as [r|] eqn:E; [|reflexivity]. cbn [option_map].
  pose proof (k17_strip_usv _ _ _ Hu E) as Hr.
  destruct r as [|c r1]; [reflexivity|]. inversion Hr as [|? ? Hc Hr1]; subst.
  change (RU (c :: r1)) with (ru c ++ RU r1).
  destruct (ru_cases c Hc) as [[Hlt Ec]|[Hge (b & l & Ec & Hb)]]; rewrite Ec.
  - cbn [app]. rewrite (semi_next_RU r1 Hr1). reflexivity.
  - cbn [app]. replace (b =? 32) with false by lia. replace (c =? 32) with false by lia. reflexivity.
Qed.

Lemma query_space_utf8 X : usv_list X -> k17_query_space (utf8_encode X) = k17_query_space X.
Proof.
  intros Hu. unfold k17_query_space. rewrite !after_qmark_first'.
  rewrite after_first_utf8 by (try exact Hu; lia).
  destruct (after_first 63 X) as [q|] eqn:Eq; [|reflexivity]. cbn [option_map].
  assert (Hq : usv_list q).
  { clear -Hu Eq. revert Eq. induction X as [|c r IH]; cbn [after_first]; [discriminate|].
    inversion Hu; subst. destruct (c =? 63); [intros H; inversion H; subst; assumption|auto]. }
  rewrite rev_utf8. assert (Hy : usv_list (rev q)) by (apply usv_rev; exact Hq).
  rewrite <- (spaced_RU (rev q) Hy).
  destruct (rev q) as [|c y]; [reflexivity|]. inversion Hy as [|? ? Hc _]; subst.
  change (RU (c :: y)) with (ru c ++ RU y).
  destruct (ru_cases c Hc) as [[Hlt Ec]|[Hge (b & l & Ec & Hb)]]; rewrite Ec.
  - reflexivity.
  - cbn [app]. replace (b =? 32) with false by lia. replace (c =? 32) with false by lia. reflexivity.
Qed.

(* ---- the text the classes look at, in terms of what parse_scheme leaves ---- *)
Lemma k17_drop_same' l : k17_drop k17_c0sp l = Parser.drop_while Parser.is_c0_or_space l.
Proof. induction l as [|c r IH]; [reflexivity|]. cbn [k17_drop Parser.drop_while]. rewrite IH. reflexivity. Qed.

Lemma k17_trimmed_same s : k17_trimmed s = input_new_trim_c0 s.
Proof. unfold k17_trimmed, input_new_trim_c0, Parser.trim_matches. rewrite !k17_drop_same'. reflexivity. Qed.

Lemma k17_cleaned_same s : k17_cleaned s = filter nt (input_new_trim_c0 s).
Proof. unfold k17_cleaned. fold (k17_trimmed s). rewrite k17_trimmed_same. reflexivity. Qed.

Lemma scan_cp : forall l acc letters rem,
  parse_scheme_loop CUrlParser acc l = Some (rev acc ++ letters, rem) ->
  exists raw, filter nt l = raw ++ 58 :: strip_tnl rem /\ length raw = length letters
              /\ k17_skip (S (length letters)) l = rem.
Proof.
  induction l as [|c r IH]; intros acc letters rem H; cbn [parse_scheme_loop] in H.
  - cbn [ctx_eqb] in H. discriminate.
  - cbn [filter]. unfold C02_Enc.not_tnl at 1. cbn [k17_skip]. change (k17_tnl c) with (is_tnl c).
    destruct (is_tnl c) eqn:Et; cbn [negb]; [exact (IH _ _ _ H)|].
    destruct (is_lower c || is_digit c || (c =? 43) || (c =? 45) || (c =? 46)) eqn:E1.
    { destruct (parse_scheme_loop_out _ _ _ _ H) as (s' & Hs & _). cbn [rev] in Hs.
      rewrite <- app_assoc in Hs. apply app_inv_head in Hs. cbn [app] in Hs. subst letters.
      destruct (IH (c :: acc) s' rem) as (raw & F1 & F2 & F3); [cbn [rev]; rewrite <- app_assoc; exact H|].
      exists (c :: raw). cbn [app length]. rewrite F1, F2. split; [reflexivity|]. split; [reflexivity|exact F3]. }
    destruct (is_upper c) eqn:E2.
    { destruct (parse_scheme_loop_out _ _ _ _ H) as (s' & Hs & _). cbn [rev] in Hs.
      rewrite <- app_assoc in Hs. apply app_inv_head in Hs. cbn [app] in Hs. subst letters.
      destruct (IH ((c + 32) :: acc) s' rem) as (raw & F1 & F2 & F3); [cbn [rev]; rewrite <- app_assoc; exact H|].
      exists (c :: raw). cbn [app length]. rewrite F1, F2. split; [reflexivity|]. split; [reflexivity|exact F3]. }
    destruct (c =? 58) eqn:E3; [|discriminate]. apply N.eqb_eq in E3. subst c.
    injection H as Hl Hr. subst rem.
    assert (letters = []) as ->.
    { apply (f_equal (@length N)) in Hl. rewrite app_length in Hl. destruct letters; [reflexivity|cbn [length] in Hl; lia]. }
    exists []. cbn [app length k17_skip]. split; [reflexivity|]. split; [reflexivity|]. destruct r; reflexivity.
Qed.

Lemma scheme_text s rem : parse_scheme CUrlParser (input_new_trim_c0 s) = Some (s_data, rem) ->
  skipn 5 (k17_cleaned s) = strip_tnl rem /\ k17_skip 5 (k17_trimmed s) = rem.
Proof.
  intros Hp. unfold parse_scheme in Hp.
  destruct (inp_starts_with_pred is_alpha (input_new_trim_c0 s)); [|discriminate].
  destruct (scan_cp _ [] s_data rem Hp) as (raw & F1 & F2 & F3).
  rewrite k17_cleaned_same. change (k17_trimmed s) with (input_new_trim_c0 s). rewrite F1. split; [|exact F3].
  do 5 (destruct raw as [|? raw]; try discriminate F2). reflexivity.
Qed.

(* the first code point the parser sees *)
Lemma strip_tnl_next rem : inp_next rem = match strip_tnl rem with [] => None | c :: _ => match inp_next rem with Some (_, r) => Some (c, r) | None => None end end.
Proof.
  unfold inp_next, strip_tnl. induction rem as [|c r IH]; [reflexivity|]. cbn [Parser.drop_while filter].
  unfold C02_Enc.not_tnl at 1 3. destruct (is_tnl c); cbn [negb]; [exact IH|reflexivity].
Qed.

Lemma k17_header_split Hc Rc : ~ In 44 Hc -> ~ In 35 Hc -> k17_header (strip_tnl (Hc ++ 44 :: Rc)) = strip_tnl Hc.
Proof.
  induction Hc as [|c r IH]; intros H1 H2.
  - cbn [app]. unfold strip_tnl. cbn [filter]. change (nt 44) with true. cbv iota. reflexivity.
  - cbn [app]. unfold strip_tnl. cbn [filter]. destruct (nt c); [|apply IH; intros Hin; [apply H1|apply H2]; right; exact Hin].
    cbn [k17_header].
    destruct (c =? 44) eqn:E1; [apply N.eqb_eq in E1; exfalso; apply H1; left; exact E1|].
    destruct (c =? 35) eqn:E2; [apply N.eqb_eq in E2; exfalso; apply H2; left; exact E2|].
    cbn [orb]. f_equal. apply IH; intros Hin; [apply H1|apply H2]; right; exact Hin.
Qed.

Lemma k17_body_split Hc Rc : ~ In 44 Hc -> ~ In 35 Hc -> k17_body (Hc ++ 44 :: Rc) = Some Rc.
Proof.
  induction Hc as [|c r IH]; intros H1 H2; [reflexivity|]. cbn [app k17_body].
  destruct (c =? 44) eqn:E1; [apply N.eqb_eq in E1; exfalso; apply H1; left; exact E1|].
  destruct (c =? 35) eqn:E2; [apply N.eqb_eq in E2; exfalso; apply H2; left; exact E2|].
  apply IH; intros Hin; [apply H1|apply H2]; right; exact Hin.
Qed.

(* ---- C17 outside Known_C17, for every string the parser reads the scheme "data" from ---- *)
Theorem outside_known_is_fetch dbg hp ho hd s rem u : usv_list s ->
  parse_scheme CUrlParser (input_new_trim_c0 s) = Some (s_data, rem) ->
  parse_url dbg hp ho hd None None s = POk u ->
  ~ Known_C17 s ->
  fetch_view (process_and_decode s) = fetch_of_url u.
Proof.
  intros Hs Hp Hu Hk.
  assert (Hk0 : known_c17 s = 0).
  { unfold Known_C17 in Hk. destruct (N.eq_dec (known_c17 s) 0) as [E|E]; [exact E|contradiction]. }
  destruct (scheme_text s rem Hp) as [T1 T2]. unfold known_c17 in Hk0. rewrite T1, T2 in Hk0.
  (* rem is made of scalar values *)
  assert (Hur : usv_list rem).
  { destruct (parse_scheme_suffix _ _ _ _ Hp) as [pre Hpre].
    assert (usv_list (input_new_trim_c0 s)) as Ht.
    { unfold input_new_trim_c0, Parser.trim_matches. apply usv_rev.
      destruct (drop_while_spec Parser.is_c0_or_space (rev (Parser.drop_while Parser.is_c0_or_space s))) as (a & Ha & _).
      destruct (drop_while_spec Parser.is_c0_or_space s) as (a0 & Ha0 & _).
      rewrite Ha0 in Hs. apply usv_app in Hs. destruct Hs as [_ Hs].
      apply usv_rev in Hs. rewrite Ha in Hs. apply usv_app in Hs. tauto. }
    rewrite Hpre in Ht. apply usv_app in Ht. tauto. }
  (* K1: not '/' *)
  assert (H47 : inp_split_prefix_char 47 rem = None).
  { unfold inp_split_prefix_char. rewrite strip_tnl_next. destruct (strip_tnl rem) as [|c r]; [reflexivity|].
    destruct (c =? 47) eqn:E; [discriminate Hk0|]. destruct (inp_next rem) as [[d r']|]; [rewrite E|]; reflexivity. }
  apply (opaque_is_fetch dbg hp ho hd s rem u Hs Hp H47 Hu).
  intros h B HB.
  destruct (find_comma_spec _ _ _ HB) as (Hsplit & Hn44 & Hn35).
  destruct (comma_split_chars rem h B Hur Hsplit Hn44) as (Hc & Rc & Er & Eh & EB & Hnc).
  assert (Huc : usv_list Hc /\ usv_list Rc).
  { rewrite Er in Hur. apply usv_app in Hur. destruct Hur as [U1 U2]. apply usv_cons in U2. tauto. }
  destruct Huc as [Uh Ur].
  assert (Hc35 : ~ In 35 Hc) by (intros Hin; apply Hn35; rewrite Eh; apply in_utf8_ascii; [lia|exact Hin]).
  rewrite Eh, EB, filter_not_tnl_utf8, query_space_utf8, split_escape_utf8 by (try apply usv_strip; assumption).
  rewrite Er in Hk0. rewrite (k17_header_split Hc Rc Hnc Hc35), (k17_body_split Hc Rc Hnc Hc35) in Hk0.
  destruct (strip_tnl (Hc ++ 44 :: Rc)) as [|c r] eqn:Est.
  - exfalso. assert (Hin : In 44 (strip_tnl (Hc ++ 44 :: Rc))).
    { unfold strip_tnl. apply filter_In. split; [apply in_or_app; right; left; reflexivity|reflexivity]. }
    rewrite Est in Hin. exact Hin.
  - destruct (c =? 47); [discriminate Hk0|].
    destruct (k17_query_space (strip_tnl Hc)); [discriminate Hk0|].
    destruct (k17_split_escape Rc); [discriminate Hk0|]. split; reflexivity.
Qed.

(* ---- what separates outside_known_is_fetch from C17_statement: that the scheme of the URL the parser
   returns is the scheme text parse_scheme read (needed only to turn "url_is_data u" into "parse_scheme
   read data"; for opaque paths it is part of parse_opaque_explicit, for hierarchical URLs it is a fact
   about the authority / path parsers that is not proved here) ---- *)
Definition scheme_of_parse : Prop :=
  forall (dbg : bool) (hp ho : list N -> result host) (hd : host -> list N) (s sch rem : list N) (u : url),
    usv_list s ->
    parse_scheme CUrlParser (input_new_trim_c0 s) = Some (sch, rem) ->
    parse_url dbg hp ho hd None None s = POk u -> url_is_data u = true -> sch = s_data.

Theorem statement_modulo_scheme : scheme_of_parse -> C17_statement.
Proof.
  intros G dbg hp ho hd s u Hs Hu Hd Hk.
  destruct (parse_scheme CUrlParser (input_new_trim_c0 s)) as [[sch rem]|] eqn:Hp.
  - pose proof (G dbg hp ho hd s sch rem u Hs Hp Hu Hd) as ->.
    exact (outside_known_is_fetch dbg hp ho hd s rem u Hs Hp Hu Hk).
  - unfold parse_url in Hu. rewrite Hp in Hu. discriminate Hu.
Qed.
