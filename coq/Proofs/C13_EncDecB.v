(* Proofs/C13_EncDecB.v - encode after decode, over the checked decoder: if b_dec_loop reads R from a
   state that matches the encoder's position in the FINAL string s and returns s, then the encoder's
   remaining output on s is R in lower case, and the walk w_inner / w_outer succeeds.  The decoder's next
   insertion is identified with the encoder's next occurrence by the <n, i> monotonicity (b_mono). *)
From RU Require Import Base.Prelude Base.U32_c13 Spec.Rfc3492 Proofs.C13_Enc Proofs.C13_Dec Proofs.C13_Vli
  Proofs.C13_Rt Proofs.C13_DecB Proofs.C13_RtB Proofs.C13_Mono Proofs.C13_Parse.

(* the decoder's state is well formed: nothing above nd in the output, no nd at index id or later *)
Definition good (nd id : N) (out : list N) : Prop :=
  all_le nd out /\ forall A B, out = A ++ B -> id <= len A -> Forall (fun c => c < nd) B.

Lemma filter_le_le c m l : c <= m -> filter (le_m c) (filter (le_m m) l) = filter (le_m c) l.
Proof.
  intros H. induction l as [|a l IH]; [reflexivity|]. cbn [filter].
  destruct (le_m m a) eqn:E1; destruct (le_m c a) eqn:E2; cbn [filter]; rewrite ?E2, ?IH; try reflexivity;
    unfold le_m in *; lia.
Qed.

Lemma filter_le_lt c m l : c < m -> filter (le_m c) (filter (lt_m m) l) = filter (le_m c) l.
Proof.
  intros H. induction l as [|a l IH]; [reflexivity|]. cbn [filter].
  destruct (lt_m m a) eqn:E1; destruct (le_m c a) eqn:E2; cbn [filter]; rewrite ?E2, ?IH; try reflexivity;
    unfold le_m, lt_m in *; lia.
Qed.

Lemma len_filter_lt_le m l : len (filter (lt_m m) l) <= len (filter (le_m m) l).
Proof.
  induction l as [|a l IH]; [cbn; lia|]. cbn [filter].
  destruct (lt_m m a) eqn:E1; destruct (le_m m a) eqn:E2; rewrite ?len_cons; unfold le_m, lt_m in *; lia.
Qed.

(* below m the final string and the partial output agree *)
Lemma enc_below c m pre suf : c < m ->
  filter (le_m c) (pre ++ m :: suf) = filter (le_m c) (filter (le_m m) pre ++ filter (lt_m m) suf).
Proof.
  intros H. rewrite !filter_app. cbn [filter]. unfold le_m at 2. replace (m <=? c) with false by lia.
  rewrite filter_le_le by lia. rewrite filter_le_lt by exact H. reflexivity.
Qed.

(* up to m the final string has one element more than the partial output *)
Lemma count_contra m pre suf :
  filter (le_m m) (pre ++ m :: suf) = filter (le_m m) (filter (le_m m) pre ++ filter (lt_m m) suf) -> False.
Proof.
  intros H. apply (f_equal len) in H. rewrite !filter_app, !len_app in H. cbn [filter] in H.
  unfold le_m at 2 in H. replace (m <=? m) with true in H by lia. rewrite len_cons in H.
  rewrite filter_le_le in H by lia.
  pose proof (len_filter_le (le_m m) (filter (lt_m m) suf)) as H1.
  pose proof (len_filter_lt_le m suf) as H2. lia.
Qed.

(* one delta read at the start of a delta (weight 1, k = base) *)
Lemma vli_parse_use dig (Hd : forall c d, dig c = Some d -> d < 36 /\ to_lower c = s_digit_char d)
    R id nd bias out s : R <> [] ->
  b_dec_loop dig R false id 1 s_base id nd bias out = Some s ->
  exists q D R', R = D ++ R'
    /\ (forall f, q < 2 ^ N.of_nat f -> map to_lower D = s_enc_vli (S f) q s_base bias)
    /\ id + q <= U32_MAX
    /\ b_dec_break (b_dec_loop dig) R' id (id + q) nd bias out = Some s.
Proof.
  intros HR H. destruct (vli_parse dig Hd R _ _ _ _ _ _ _ _ _ HR H) as [q [D [R' [E [F [B Hb]]]]]].
  rewrite N.mul_1_r in B, Hb. exists q, D, R'. split; [exact E|]. split; [exact F|]. split; [exact B|exact Hb].
Qed.

Section ED.
  Variable dig : N -> option N.

  (* the element the decoder inserts next is the encoder's next occurrence of m *)
  Lemma next_insertion pre suf m nd id out R' s n1 pos1 bias1 :
    s = pre ++ m :: suf -> out = filter (le_m m) pre ++ filter (lt_m m) suf ->
    nd <= m -> nd <= n1 -> pos1 <= len out -> (n1 = nd -> id <= pos1) -> good nd id out ->
    b_dec_loop dig R' false (pos1 + 1) 1 s_base (pos1 + 1) n1 bias1 (s_insert_at pos1 n1 out) = Some s ->
    n1 = m /\ pos1 = len (filter (le_m m) pre).
  Proof.
    intros Hs Hout Hnd Hn1 Hpos Hid [Gle Gsuf] Hrec.
    destruct (insert_at_split out pos1 n1 Hpos) as [A1 [B1 [E1 [E2 E3]]]].
    destruct (b_mono dig R' _ _ _ _ _ _ _ _ _ (all_le_insert nd n1 pos1 out Hn1 Hpos Gle) Hrec) as [I1 I2].
    destruct (I2 (A1 ++ [n1]) B1) as [B' HB'].
    { rewrite E3, <- app_assoc. reflexivity. }
    { rewrite len_app, E2. change (len [n1]) with 1. lia. }
    rewrite <- app_assoc in HB'. cbn [app] in HB'.
    destruct (N.lt_trichotomy n1 m) as [Hlt|[Heq|Hgt]].
    - exfalso. rewrite Hs, (enc_below n1 m pre suf Hlt), <- Hout in HB'.
      assert (Hin : In n1 (filter (le_m n1) out)) by (rewrite HB'; apply in_or_app; right; left; reflexivity).
      apply filter_In in Hin. destruct Hin as [Hin _].
      unfold all_le in Gle. rewrite Forall_forall in Gle. pose proof (Gle n1 Hin) as Hle1.
      assert (Hnn : n1 = nd) by lia. subst n1.
      rewrite filter_all_le in HB' by (unfold all_le; rewrite Forall_forall; exact Gle).
      pose proof (Gsuf A1 B1 E1 ltac:(specialize (Hid eq_refl); lia)) as HF.
      rewrite E1 in HB'. apply app_inv_head in HB'. rewrite HB' in HF. inversion HF. lia.
    - subst n1. split; [reflexivity|].
      rewrite Hs in HB'. rewrite filter_app in HB'. cbn [filter] in HB'. unfold le_m at 2 in HB'.
      replace (m <=? m) with true in HB' by lia.
      symmetry in HB'. destruct (app_eq_app _ _ _ _ HB') as [l [[Ha Hb]|[Ha Hb]]].
      + destruct l as [|x l'].
        * rewrite app_nil_r in Ha. rewrite <- E2, Ha. reflexivity.
        * exfalso. cbn [app] in Hb. inversion Hb. subst x.
          rewrite Hout, Ha in E1. rewrite <- app_assoc in E1. apply app_inv_head in E1.
          assert (Hin : In m (filter (lt_m m) suf)) by (rewrite E1; left; reflexivity).
          apply filter_In in Hin. destruct Hin as [_ Hin]. unfold lt_m in Hin. lia.
      + destruct l as [|x l'].
        * rewrite app_nil_r in Ha. rewrite <- E2, <- Ha. reflexivity.
        * exfalso. cbn [app] in Hb. inversion Hb. subst x.
          pose proof E1 as E1'. rewrite Hout, Ha, <- app_assoc in E1'. apply app_inv_head in E1'. cbn [app] in E1'.
          destruct (N.eq_dec nd m) as [Hnm|Hnm].
          -- pose proof (Gsuf A1 B1 E1 ltac:(specialize (Hid (eq_sym Hnm)); lia)) as HF.
             rewrite <- E1' in HF. inversion HF. lia.
          -- unfold all_le in Gle. rewrite Forall_forall in Gle.
             assert (Hin : In m out) by (rewrite E1, <- E1'; apply in_or_app; right; left; reflexivity).
             pose proof (Gle m Hin). lia.
    - exfalso. pose proof (I1 m Hgt) as HI. rewrite filter_insert_drop in HI by assumption.
      rewrite Hs, Hout in HI. exact (count_contra m pre suf HI).
  Qed.

  Hypothesis Hd : forall c d, dig c = Some d -> d < 36 /\ to_lower c = s_digit_char d.

  Lemma c_inner : forall suf pre m b d bias h nd id out R s,
    s = pre ++ suf ->
    out = filter (le_m m) pre ++ filter (lt_m m) suf ->
    h = len out -> nd <= m -> b <= h -> (id =? 0) = (h =? b) ->
    nd * (h + 1) + id + d = m * (h + 1) + len (filter (le_m m) pre) ->
    good nd id out ->
    b_dec_loop dig R false id 1 s_base id nd bias out = Some s ->
    match s_enc_inner suf m b d bias h with
    | (d', bias', h', o) =>
        exists R' nd' id' out',
          map to_lower R = o ++ map to_lower R'
          /\ b_dec_loop dig R' false id' 1 s_base id' nd' bias' out' = Some s
          /\ out' = filter (le_m m) (pre ++ suf) /\ h' = len out' /\ nd' <= m /\ b <= h'
          /\ (id' =? 0) = (h' =? b) /\ nd' * (h' + 1) + id' + d' = m * (h' + 1) + len out'
          /\ good nd' id' out'
          /\ w_inner suf m d h id (len (filter (le_m m) pre)) = Some (d', h', id')
    end.
  Proof.
    induction suf as [|c suf IH]; intros pre m b d bias h nd id out R s Hs Hout Hh Hnd Hb Hfl Heq Hg Hdec.
    - cbn [s_enc_inner w_inner]. exists R, nd, id, out.
      assert (Hout' : out = filter (le_m m) pre) by (rewrite Hout; cbn [filter]; apply app_nil_r).
      rewrite app_nil_r. cbn [app].
      split; [reflexivity|]. split; [exact Hdec|]. split; [exact Hout'|]. split; [exact Hh|]. split; [exact Hnd|].
      split; [exact Hb|]. split; [exact Hfl|]. split; [rewrite Hout' at 1; exact Heq|]. split; [exact Hg|reflexivity].
    - rewrite s_enc_inner_cons. cbv zeta. rewrite w_inner_cons.
      replace (pre ++ c :: suf) with ((pre ++ [c]) ++ suf) in * by (rewrite <- app_assoc; reflexivity).
      destruct (c =? m) eqn:Ecm.
      + (* the encoder's next occurrence of m: the decoder must insert exactly it *)
        apply N.eqb_eq in Ecm. subst c. replace (m <? m) with false by lia.
        remember (len (filter (le_m m) pre)) as pos.
        assert (Hout2 : out = filter (le_m m) pre ++ filter (lt_m m) suf).
        { rewrite Hout. cbn [filter]. unfold lt_m at 1. replace (m <? m) with false by lia. reflexivity. }
        assert (Hs2 : s = pre ++ m :: suf) by (rewrite Hs, <- app_assoc; reflexivity).
        assert (Hpos : pos <= h) by (rewrite Hh, Hout2, len_app, <- Heqpos; lia).
        assert (Hsum : id + d = (h + 1) * (m - nd) + pos).
        { rewrite (N.mul_comm (h + 1) (m - nd)), N.mul_sub_distr_r.
          pose proof (N.mul_le_mono_r nd m (h + 1) Hnd). lia. }
        (* R is not empty *)
        assert (HR : R <> []).
        { intros ->. cbn [b_dec_loop] in Hdec. inversion Hdec as [Ho].
          apply (count_contra m pre suf). rewrite <- Hs2, <- Hout2, Ho. reflexivity. }
        destruct (vli_parse_use dig Hd R id nd bias out s HR Hdec) as [q [D [R' [ER [FD [Bq Hbr]]]]]].
        unfold b_dec_break in Hbr. cbv zeta in Hbr. rewrite <- Hh in Hbr.
        destruct ((h + 1 <=? U32_MAX) && (nd + (id + q) / (h + 1) <=? U32_MAX)) eqn:Echk; [|discriminate].
        destruct (is_usvb (nd + (id + q) / (h + 1))) eqn:Eusv; [|discriminate].
        pose proof (N.div_mod (id + q) (h + 1) ltac:(lia)) as Hdm.
        pose proof (N.mod_lt (id + q) (h + 1) ltac:(lia)) as Hml.
        remember ((id + q) / (h + 1)) as dq in *. remember ((id + q) mod (h + 1)) as pos1 in *.
        assert (Hni : nd + dq = m /\ pos1 = pos).
        { rewrite Heqpos.
          eapply (next_insertion pre suf m nd id out R' s (nd + dq) pos1); [exact Hs2|exact Hout2|exact Hnd|lia|lia| |exact Hg|exact Hbr].
          intros Hz. assert (Hz0 : dq = 0) by lia. rewrite Hz0 in Hdm. lia. }
        destruct Hni as [En Ep].
        (* the decoder's delta is the encoder's *)
        assert (Hdq : dq = m - nd) by lia.
        assert (Hq : q = d).
        { rewrite Hdq, Ep in Hdm. lia. }
        clear Heqdq Heqpos1 Hml. subst q. rewrite En, Ep in Hbr.
        replace (id + d - id) with d in Hbr by lia. rewrite Hfl in Hbr.
        replace (id + d <=? U32_MAX) with true by lia.
        assert (Hfm : filter (le_m m) (pre ++ [m]) = filter (le_m m) pre ++ [m]).
        { rewrite filter_app. cbn [filter]. unfold le_m at 2. replace (m <=? m) with true by lia. reflexivity. }
        assert (Hpos1 : len (filter (le_m m) (pre ++ [m])) = pos + 1).
        { rewrite Hfm, len_app, <- Heqpos. reflexivity. }
        assert (Hins : s_insert_at pos m out = filter (le_m m) (pre ++ [m]) ++ filter (lt_m m) suf).
        { rewrite Hout2, Heqpos. rewrite insert_at_app. rewrite Hfm, <- app_assoc. reflexivity. }
        specialize (IH (pre ++ [m]) m b 0 (s_adapt d (h + 1) (h =? b)) (h + 1) m (pos + 1)
                       (s_insert_at pos m out) R' s Hs Hins).
        destruct (s_enc_inner suf m b 0 (s_adapt d (h + 1) (h =? b)) (h + 1)) as [[[d' bias'] h'] o'].
        destruct IH as [R'' [nd' [id' [out' [C1 C2]]]]].
        * rewrite len_insert_at. lia.
        * lia.
        * lia.
        * replace (pos + 1 =? 0) with false by lia. replace (h + 1 =? b) with false by lia. reflexivity.
        * rewrite Hpos1. lia.
        * (* the new state is well formed *)
          destruct Hg as [Gle Gsuf]. split.
          -- apply (all_le_insert nd m pos out Hnd); [lia|exact Gle].
          -- intros A B EAB HA. rewrite Hins, Hfm in EAB.
             assert (HlenP : len (filter (le_m m) pre ++ [m]) = pos + 1) by (rewrite len_app, <- Heqpos; reflexivity).
             destruct (app_eq_app _ _ _ _ EAB) as [l [[Ha Hb']|[Ha Hb']]].
             ++ assert (l = []).
                { apply (f_equal len) in Ha. rewrite HlenP, len_app in Ha. destruct l; [reflexivity|rewrite len_cons in Ha; lia]. }
                subst l. cbn [app] in Hb'. rewrite Hb'.
                apply Forall_forall. intros x Hx. apply filter_In in Hx. destruct Hx as [_ Hx]. unfold lt_m in Hx. lia.
             ++ assert (HF : Forall (fun c => c < m) (filter (lt_m m) suf)).
                { apply Forall_forall. intros x Hx. apply filter_In in Hx. destruct Hx as [_ Hx]. unfold lt_m in Hx. lia. }
                rewrite Hb' in HF. apply Forall_app in HF. exact (proj2 HF).
        * exact Hbr.
        * exists R'', nd', id', out'. split; [|rewrite Hpos1 in C2; exact C2].
          rewrite ER, map_app, C1, <- app_assoc. f_equal.
          unfold s_vli_fuel. apply FD. rewrite N2Nat.id. apply N.size_gt.
      + apply N.eqb_neq in Ecm.
        destruct (c <? m) eqn:Elt.
        * assert (Hfc : filter (le_m m) (pre ++ [c]) = filter (le_m m) pre ++ [c]).
          { rewrite filter_app. cbn [filter]. unfold le_m at 2. replace (c <=? m) with true by lia. reflexivity. }
          specialize (IH (pre ++ [c]) m b (d + 1) bias h nd id out R s Hs).
          destruct (s_enc_inner suf m b (d + 1) bias h) as [[[d' bias'] h'] o'].
          rewrite Hfc, len_app in IH. change (len [c]) with 1 in IH.
          apply IH; try assumption.
          -- rewrite Hout. cbn [filter]. unfold lt_m at 1. rewrite Elt. rewrite <- app_assoc. reflexivity.
          -- lia.
        * assert (Hfc : filter (le_m m) (pre ++ [c]) = filter (le_m m) pre).
          { rewrite filter_app. cbn [filter]. unfold le_m at 2. replace (c <=? m) with false by lia. apply app_nil_r. }
          specialize (IH (pre ++ [c]) m b d bias h nd id out R s Hs).
          destruct (s_enc_inner suf m b d bias h) as [[[d' bias'] h'] o'].
          rewrite Hfc in IH.
          apply IH; try assumption.
          rewrite Hout. cbn [filter]. unfold lt_m at 1. rewrite Elt. reflexivity.
  Qed.

  Lemma c_outer : forall fuel input b n d bias h nd id out R,
    out = filter (lt_m n) input -> h = len out -> nd <= n -> b <= h -> (id =? 0) = (h =? b) ->
    nd * (h + 1) + id + d = n * (h + 1) -> len input - h < N.of_nat fuel ->
    good nd id out ->
    b_dec_loop dig R false id 1 s_base id nd bias out = Some input ->
    map to_lower R = s_enc_outer fuel input (len input) b n d bias h
    /\ w_outer fuel input (len input) n d h id = true.
  Proof.
    induction fuel as [|f IH]; intros input b n d bias h nd id out R Hout Hh Hnd Hb Hfl Heq Hf Hg Hdec; [cbn in Hf; lia|].
    rewrite s_enc_outer_S, w_outer_S.
    assert (Hcnt : h = cnt (fun c => c <? n) input) by (rewrite cnt_filter, Hh, Hout; reflexivity).
    destruct (h <? len input) eqn:E.
    - destruct (min_exists input n h Hcnt ltac:(lia)) as [m Em]. rewrite Em. cbv zeta.
      apply s_min_ge_some in Em. destruct Em as [Hin [Hle Hmin]].
      pose proof (c_inner input [] m b (d + (m - n) * (h + 1)) bias h nd id out R input eq_refl) as HI.
      destruct (s_enc_inner input m b (d + (m - n) * (h + 1)) bias h) as [[[d' bias'] h'] o'] eqn:Es.
      destruct HI as [R' [nd' [id' [out' [C1 [C2 [C3 [C4 [C5 [C6 [C7 [C8 [C9 C10]]]]]]]]]]]]].
      + cbn [filter app]. rewrite Hout. apply filter_ext_in. intros c Hc. unfold lt_m. specialize (Hmin c Hc).
        destruct (c <? n) eqn:E1; destruct (c <? m) eqn:E2; try reflexivity; lia.
      + exact Hh.
      + lia.
      + exact Hb.
      + exact Hfl.
      + cbn [filter]. rewrite len_nil. rewrite N.mul_sub_distr_r.
        pose proof (N.mul_le_mono_r n m (h + 1) Hle). lia.
      + exact Hg.
      + exact Hdec.
      + cbn [filter] in C10. rewrite len_nil in C10. rewrite C10. cbn [app] in C3.
        apply s_inner_facts in Es. destruct Es as [Hh' _]. pose proof (cnt_eq_in input m Hin) as Hc.
        destruct (IH input b (m + 1) (d' + 1) bias' h' nd' id' out' R') as [J1 J2]; try assumption.
        * rewrite C3. apply filter_ext. intros c. unfold le_m, lt_m. lia.
        * lia.
        * rewrite <- C4 in C8. rewrite N.mul_add_distr_r. lia.
        * rewrite Nat2N.inj_succ in Hf. lia.
        * split; [rewrite C1, J1; reflexivity|exact J2].
    - assert (Ho : out = input).
      { rewrite Hout. apply filter_len_all. rewrite <- Hout, <- Hh.
        pose proof (cnt_le (fun c => c <? n) input). lia. }
      split; [|reflexivity].
      destruct R as [|c R]; [reflexivity|].
      apply b_grows in Hdec; [|discriminate]. rewrite Ho in Hdec. lia.
  Qed.
End ED.
