(* Proofs/C03_HostKindModel.v - the "views agree" clause for host() / host_str() / domain() / has_host() over histories:
     views3 hd u   : the three-way statement of C03_HostKindSteps.views_agree (abstract Display hd);
     views_model u : with the host MODEL's Display (a domain prints as itself) the uniform statement
                     host_str() = host().map(Display), has_host() = host().is_some(), domain() = the Domain payload.
   For every record of reach03j (parse of ANY text, joins against any reached record, the file-path constructors, all 19
   mutators outside the known classes excl03k - F-C02-9 is NOT excluded there) and of C02's Reachable3; with the host
   model under the only premise IdnaOK idna; and an executed history through the class F-C02-9. *)
From RU Require Import Proofs.C15_Ser.
From Coq Require Import String.
From RU Require Import Base.Prelude Base.Utf8 Model.HostT Model.Host Model.UrlRecord Model.Parser Model.Setters Model.WF
  Proofs.ListN Proofs.C02_Reach Proofs.C02_Hist Proofs.C02_HistInst Proofs.C02_SetHostCanon Proofs.C02_Reach3 Proofs.C02_Reach4
  Proofs.C09_Host Proofs.C09_Inst Proofs.C09_InstWf Proofs.C16_RT6Model
  Proofs.C05_Enc Proofs.C05_Parser Proofs.C05_Setters Proofs.C05_CompSteps3 Proofs.C05_Alphabet
  Proofs.C03_ReachParts Proofs.C03_ReachAll Proofs.C03_ReachEx Proofs.C03_AuthEnd Proofs.C03_ParseFront Proofs.C03_ReachJoin Proofs.C03_ReachFull
  Proofs.C03_ReachModel Proofs.C03_HostKind Proofs.C03_HostKindSteps.
Open Scope N_scope.
Open Scope list_scope.

Definition views3 (hd : host -> list N) (u : url) : Prop :=
  (has_host u = false /\ host_of u = Some None /\ host_str u = Some None /\ domain u = Some None)
  \/ (has_host u = true /\ exists t, host_of u = Some (Some (HDomain t)) /\ host_str u = Some (Some t) /\ domain u = Some (Some t))
  \/ (has_host u = true /\ exists h, is_ip h /\ host_of u = Some (Some h) /\ host_str u = Some (Some (hd h)) /\ domain u = Some None).

Definition views_model (u : url) : Prop :=
  exists ho, host_of u = Some ho
    /\ host_str u = Some (option_map host_display ho)
    /\ has_host u = (match ho with Some _ => true | None => false end)
    /\ domain u = Some (match ho with Some (HDomain t) => Some t | _ => None end).

Lemma views3_model u : views3 host_display u -> views_model u.
Proof.
  intros [(A & B0 & C & D)|[(A & t & B0 & C & D)|(A & h & Hi & B0 & C & D)]].
  - exists None. repeat split; assumption.
  - exists (Some (HDomain t)). repeat split; assumption.
  - exists (Some h). repeat split; try assumption. destruct h as [d|a|p]; [destruct Hi | exact D | exact D].
Qed.

Theorem views_reach_joins dbg hp hpo hd : HostWf hp hpo hd -> NoEmpty hp -> IpWf hd ->
  forall u, reach03j dbg hp hpo hd u -> KT hd u /\ views3 hd u.
Proof.
  intros HW HNE HIPW u R. destruct (reach03j_inv03k dbg hp hpo hd HW HNE HIPW u R) as [(K & _) Ku].
  split; [exact Ku | exact (views_agree hd u (proj1 K) Ku)].
Qed.

Theorem views_reachable dbg hp hpo hd : HostWf hp hpo hd -> host_nonempty hp hpo -> IpWf hd -> HostOK hp hpo hd -> IpOKv hd ->
  forall u, Reachable3 dbg hp hpo hd u -> KT hd u /\ views3 hd u.
Proof.
  intros HW HNE HIPW HOK HIP u R. destruct (reach3_inv03k dbg hp hpo hd HW HNE HIPW HOK HIP u R) as [[(K & _) Ku] _].
  split; [exact Ku | exact (views_agree hd u (proj1 K) Ku)].
Qed.

Theorem views_reachable_model dbg idna : IdnaOK idna ->
  forall u, Reachable3 dbg (host_parse idna) host_parse_opaque host_display u -> views_model u.
Proof.
  intros OK u R. destruct (model_full_hyps idna OK) as (HW & HNE & HIPW & HOK & HIP).
  exact (views3_model u (proj2 (views_reachable dbg _ _ _ HW HNE HIPW HOK HIP u R))).
Qed.

Theorem views_reach_joins_model dbg idna : IdnaOK idna ->
  forall u, reach03j dbg (host_parse idna) host_parse_opaque host_display u -> views_model u.
Proof.
  intros OK u R. destruct (model_full_hyps idna OK) as (HW & HNE & HIPW & _ & _).
  exact (views3_model u (proj2 (views_reach_joins dbg _ _ _ HW (proj1 HNE) HIPW u R))).
Qed.

(* ---------- non-vacuity: a history through F-C02-9 on the host model ---------- *)
(* parse "a://h/p"; set_ip_host(127.0.0.1) - a call of the class F-C02-9 (V4 on a non-special scheme), NOT excluded in
   reach03j - gives "a://127.0.0.1/p" with the stored kind Ipv4(127.0.0.1): host_str() = "127.0.0.1" = Display(host()),
   although re-parsing that text yields a domain (the record is not a fixpoint of re-parsing: C02's finding) *)
Definition mhp1 := host_parse idna_clean.

Lemma model_joins_hyps : HostWf mhp1 host_parse_opaque host_display /\ NoEmpty mhp1 /\ IpWf host_display.
Proof.
  destruct (model_full_hyps idna_clean idna_clean_ok) as (HW & HNE & HIPW & _ & _).
  split; [exact HW|]. split; [exact (proj1 HNE) | exact HIPW].
Qed.

Definition kt_example_stmt : Prop :=
  exists u, reach03j true mhp1 host_parse_opaque host_display u
    /\ ser u = B "a://127.0.0.1/p" /\ hosti u = HI_Ipv4 2130706433
    /\ host_str u = Some (Some (B "127.0.0.1")) /\ host_of u = Some (Some (HIpv4 2130706433))
    /\ known_step2 true mhp1 host_parse_opaque host_display
         (mkUrl (B "a://h/p") 1 4 4 5 HI_Domain None 5 None None) (OSetIpHost (HIpv4 2130706433)) = true.

Lemma kt_example : kt_example_stmt.
Proof.
  destruct (parse_url true mhp1 host_parse_opaque host_display None None (B "a://h/p")) as [u0| |] eqn:E0;
    [|vm_compute in E0; discriminate ..].
  assert (reach03j true mhp1 host_parse_opaque host_display u0) as R0
    by exact (RJ_parse true mhp1 host_parse_opaque host_display None (B "a://h/p") u0 E0).
  vm_compute in E0. injection E0 as <-.
  match type of R0 with reach03j ?d ?hp ?hpo ?hd ?u =>
    destruct (apply_op d hp hpo hd u (OSetIpHost (HIpv4 2130706433))) as [u1|] eqn:E1; [|vm_compute in E1; discriminate];
    pose proof E1 as E1'; vm_compute in E1'; injection E1' as <-;
    match type of E1 with apply_op _ _ _ _ _ _ = Some ?u' =>
      assert (reach03j d hp hpo hd u') as R1
        by (apply (RJ_step d hp hpo hd u (OSetIpHost (HIpv4 2130706433)) u' R0);
            [cbn [op_args_ok]; lia | vm_compute; reflexivity | exact E1])
    end
  end.
  eexists. split; [exact R1|]. vm_compute. repeat split.
Qed.
