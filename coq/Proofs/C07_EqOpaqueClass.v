(* Proofs/C07_EqOpaqueClass.v - the second clause of C07_statement ("parsing yields related records")
   for one whole class of inputs: the opaque-path class of the C01 equivalence (a non-special scheme
   followed by something that does not start with '/': "mailto:x", "data:...", "a:b c ?q#f").
   Both parsers yield the canonical opaque records of Proofs/C01_EqOpaque.v, and these are related by
   corr; with Proofs/C07_EqFive.v: from every such input, every history of hash / search / username /
   password / port assignments keeps the ten API strings equal. *)
From RU Require Import Base.Prelude Base.Utf8 Base.Utf8Facts Model.AsciiSet Gen.Tables Model.PercentEncoding
  Model.HostT Model.UrlRecord Model.Parser Model.Setters Model.WF Model.KnownC01 Model.KnownC07 Spec.Whatwg
  Proofs.ListN Proofs.C02_Enc Proofs.C02_Parts Proofs.C02_Opaque Proofs.C03_WF Proofs.C06_Steps Proofs.C06_FragQuery
  Proofs.C01_EqRun Proofs.C01_EqApi Proofs.C01_EqOpaque
  Proofs.C07_Defs Proofs.C07_Corr Proofs.C07_EqFive.

Lemma nskipn_app_succ (a : list N) c b : nskipn (nlen a + 1) (a ++ c :: b) = b.
Proof. rewrite nskipn_app_add. reflexivity. Qed.

Lemma list10_inv {A} (a1 a2 a3 a4 a5 a6 a7 a8 a9 a10 b1 b2 b3 b4 b5 b6 b7 b8 b9 b10 : A) :
  Some [a1; a2; a3; a4; a5; a6; a7; a8; a9; a10] = Some [b1; b2; b3; b4; b5; b6; b7; b8; b9; b10] ->
  a2 = b2 /\ a3 = b3 /\ a8 = b8.
Proof. intros H. inversion H. auto. Qed.

Section OpaqueCorr.
Variable dbg : bool.
Variable shs : spec_host -> list N.

Theorem corr_opaque sch P q f : opaque_ok sch P q f ->
  corr dbg shs (opaque_url sch P q f) (spec_opaque_url sch P q f).
Proof.
  intros K. pose proof (opaque_url_wf _ _ _ _ K) as W. pose proof (opaque_no_authority _ _ _ _ K) as Hna.
  set (u := opaque_url sch P q f) in *.
  pose proof (api_opaque dbg shs sch P q f K) as Api. fold u in Api.
  destruct (accessors_reconcatenate dbg u W)
    as (sch' & un' & pw' & hs' & pth' & q' & f' & Es & Eun & Epw & Ehs & Ept & Eq & Ef & _).
  rewrite (api_by_accessors dbg u W _ _ _ _ _ _ _ Es Eun Epw Ehs Ept Eq Ef) in Api.
  unfold api_of_parts, spec_api_list in Api. apply list10_inv in Api. destruct Api as (A2 & A3 & A8).
  unfold get_protocol, spec_opaque_url in A2. cbn [su_scheme] in A2. apply app_inv_tail in A2. subst sch'.
  unfold get_username, spec_opaque_url in A3. cbn [su_username] in A3. subst un'.
  unfold get_pathname, serialize_path, spec_opaque_url in A8. cbn [su_path] in A8. subst pth'.
  assert (has_host u = false) as Hh by reflexivity.
  set (A := sch ++ [58]).
  assert (ser u = (A ++ P) ++ qf_qtext q ++ qf_ftext f) as Eser by reflexivity.
  assert (query_start u = qf_qs (nlen (A ++ P)) q) as Eqs by reflexivity.
  assert (fragment_start u = qf_fs (nlen (A ++ P)) q f) as Efs by reflexivity.
  constructor; cbn [spec_opaque_url su_scheme su_username su_password su_host su_port su_path su_query su_fragment].
  - exact W.
  - intros X. rewrite Hh in X. discriminate X.
  - exact Es.
  - exact Eun.
  - rewrite (password_piece dbg u W). unfold has_password_b. rewrite Hna. reflexivity.
  - rewrite (host_str_eval u W), Hh. reflexivity.
  - reflexivity.
  - exact Hna.
  - rewrite Hna. reflexivity.
  - reflexivity.
  - exact Ept.
  - (* query *)
    rewrite (query_eval dbg u W), Eqs. destruct q as [x|]; cbn [qf_qs]; [|reflexivity].
    do 2 f_equal. unfold piece. cbn [pidx]. rewrite Eqs, Efs, Eser. cbn [qf_qs qf_qtext].
    cbn [app]. rewrite nskipn_app_succ.
    destruct f as [y|]; cbn [qf_fs qf_ftext].
    + cbn [qf_qtext]. rewrite nlen_cons. replace (nlen (A ++ P) + (1 + nlen x) - (nlen (A ++ P) + 1)) with (nlen x) by lia.
      apply nfirstn_app_len.
    + rewrite app_nil_r. apply nfirstn_all. rewrite !nlen_app, nlen_cons. lia.
  - (* fragment *)
    rewrite (fragment_eval dbg u W), Efs. destruct f as [y|]; cbn [qf_fs]; [|reflexivity].
    do 2 f_equal. unfold piece. cbn [pidx]. rewrite Efs, Eser. cbn [qf_fs qf_ftext].
    rewrite app_assoc. rewrite <- (nlen_app (A ++ P) (qf_qtext q)). rewrite nskipn_app_succ.
    apply nfirstn_all. rewrite nlen_app, nlen_cons. lia.
  - rewrite Hna. cbn [negb andb]. unfold spec_marker. cbn [su_host su_path].
    change (path_start u) with (nlen (sch ++ [58])). change (scheme_end u) with (nlen sch).
    rewrite nlen_app. change (nlen [58]) with 1. unfold spec_opaque_url. cbn [su_host su_path]. lia.
  - pose proof (opaque_url_cbb _ _ _ _ K) as Cb. fold u in Cb. rewrite (cannot_be_a_base_eval u W) in Cb.
    injection Cb as Cb. exact Cb.
  - reflexivity.
Qed.

End OpaqueCorr.

Section OpaqueClass.
Variable dbg : bool.
Variable hp hpo : list N -> result host.
Variable hd : host -> list N.
Variable shp : bool -> list N -> option spec_host.
Variable shs : spec_host -> list N.

(* parsing an input of the class yields related records (or the model reports Overflow: a
   serialization longer than u32::MAX) *)
Theorem opaque_class_corr input sch rem : usv_list input ->
  parse_scheme CUrlParser (input_new_trim_c0 input) = Some (sch, rem) ->
  scheme_type_of sch = STNotSpecial -> inp_split_prefix_char 47 rem = None ->
  exists su, spec_basic_url_parse shp input None = BDone su
    /\ (parse_url dbg hp hpo hd None None input = PErr Overflow
        \/ exists u, parse_url dbg hp hpo hd None None input = POk u /\ corr dbg shs u su).
Proof.
  intros Hu Hs Hns H47. eexists. split; [exact (spec_opaque shp input sch rem Hs Hns H47)|].
  destruct (model_opaque dbg hp hpo hd None shp input sch rem Hu Hs Hns H47) as [E|[E K]]; [left; exact E|].
  right. eexists. split; [exact E|]. apply corr_opaque. exact K.
Qed.

(* C07_statement restricted to this class of start URLs and to the five setters, histories included *)
Theorem five_from_opaque_class input sch rem u ops : usv_list input ->
  parse_scheme CUrlParser (input_new_trim_c0 input) = Some (sch, rem) ->
  scheme_type_of sch = STNotSpecial -> inp_split_prefix_char 47 rem = None ->
  parse_url dbg hp hpo hd None None input = POk u ->
  five_ops ops -> outside_known dbg hp hpo hd u ops ->
  exists su, spec_basic_url_parse shp input None = BDone su
    /\ model_api dbg u = Some (spec_api_list shs su)
    /\ forall n, exists u' su',
         model_run dbg hp hpo hd u (firstn n ops) = Some u'
         /\ spec_run shp su (firstn n ops) = Some su'
         /\ model_api dbg u' = Some (spec_api_list shs su').
Proof.
  intros Hu Hs Hns H47 Ep Hf Ho.
  destruct (opaque_class_corr input sch rem Hu Hs Hns H47) as (su & Esp & [E|(u0 & E & C)]).
  - rewrite Ep in E. discriminate E.
  - rewrite Ep in E. inversion E; subst u0. exists su. split; [exact Esp|].
    split; [exact (corr_api dbg shs u su C)|]. intros n.
    destruct (five_histories dbg hp hpo hd shp shs ops u su C Hf Ho n) as (u' & su' & A & B & _ & D).
    exists u', su'. auto.
Qed.

End OpaqueClass.
