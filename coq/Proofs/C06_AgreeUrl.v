(* Proofs/C06_AgreeUrl.v - how the state-level agreement lemmas (C06_Agree.v) compose into agreement with
   Parser::parse_url: if, on the text T behind "scheme://", the four states of a URL with authority -
   userinfo, host-and-port, path start, query-and-fragment - each write the canonical text of their component
   (ui, h, pt, p, q, f) and hand the rest on, then parse_url on scheme "://" T returns the canonical record
   auth_url sch ui h pt p q f of C02 - whatever the raw text of each component was.  The premises are
   discharged, component by component, either by C02's state identities (canonical text) or by the raw-text
   lemmas of C06_Agree.v (the argument of a setter). *)
From RU Require Import Base.Prelude Base.Utf8 Model.AsciiSet Gen.Tables Model.PercentEncoding
  Model.HostT Model.UrlRecord Model.Parser Model.WF
  Proofs.ListN Proofs.C06_List Proofs.C02_Enc Proofs.C02_Parts Proofs.C02_Opaque Proofs.C02_Path Proofs.C02_PathL1 Proofs.C02_Reach
  Proofs.C02_AuthParts Proofs.C02_Auth Proofs.C02_AuthSp.

Section Compose.
Variable dbg : bool.
Variable hp hpo : list N -> result host.
Variable hd : host -> list N.
Variable ovr : option (list N -> list N).

Notation auth_front := (auth_front hd).
Notation auth_pre := (auth_pre hd).
Notation auth_ser := (auth_ser hd).
Notation auth_url := (auth_url hd).

Theorem ads_compose st sch ui h pt p q f T R1 R2 R3 hh :
  let A := (sch ++ [58]) ++ [47; 47] in
  nlen (auth_front sch ui h pt) <= U32_MAX_P ->
  (hi_of_host h = HI_None -> ui = UNone) ->
  parse_userinfo st A T = POk (A ++ ui_text ui, nlen A + ui_ulen ui, R1) ->
  parse_host_and_port hp hpo hd CUrlParser st (nlen sch) (A ++ ui_text ui) R1
    = POk (auth_front sch ui h pt, nlen (A ++ ui_text ui) + nlen (hd h), hi_of_host h, pt, R2) ->
  parse_path_start dbg CUrlParser st true (auth_front sch ui h pt) R2 = POk (auth_pre sch ui h pt p, hh, R3) ->
  parse_query_and_fragment ovr CUrlParser st (nlen sch) (auth_pre sch ui h pt p) R3
    = POk (auth_ser sch ui h pt p q f, qf_qs (nlen (auth_pre sch ui h pt p)) q, qf_fs (nlen (auth_pre sch ui h pt p)) q f) ->
  after_double_slash dbg hp hpo hd ovr CUrlParser st (nlen sch) (sch ++ [58]) T = POk (auth_url sch ui h pt p q f).
Proof.
  intros A Hb Hemp H1 H2 H3 H4.
  pose proof (front_len hd sch ui h pt) as FL. pose proof (ui_ulen_le ui) as UL.
  assert (nlen A = nlen sch + 3) as L0 by (unfold A; len_lia).
  unfold after_double_slash. fold A. rewrite H1. cbn [pbind].
  rewrite to_u32_ok by (rewrite nlen_app; lia). cbn [pbind]. rewrite H2. cbn [pbind].
  assert (hi_eqb (hi_of_host h) HI_None && negb (nlen A =? nlen (A ++ ui_text ui)) = false) as Ee.
  { destruct (hi_eqb (hi_of_host h) HI_None) eqn:E; [|reflexivity].
    assert (hi_of_host h = HI_None) as En by (destruct (hi_of_host h); try discriminate; reflexivity).
    rewrite (Hemp En). cbn [ui_text]. rewrite app_nil_r, N.eqb_refl. reflexivity. }
  rewrite Ee. rewrite to_u32_ok by exact Hb. cbn [pbind]. rewrite H3. cbn [pbind].
  rewrite wqf_auth; [| lia |].
  2:{ unfold C02_Auth.auth_pre. apply (front_css hd). }
  rewrite H4. cbn [pbind]. unfold C02_Auth.auth_url. f_equal. f_equal; rewrite ?nlen_app; unfold A in *; rewrite ?nlen_app in *; unfold nlen; cbn [length]; lia.
Qed.

(* non-special scheme: parse_url is after_double_slash once the input does not start or end with C0 / space *)
Theorem parse_url_ads_nonspecial sch T : scheme_canon sch = true -> scheme_type_of sch = STNotSpecial ->
  nlen sch <= U32_MAX_P -> edge_ok (sch ++ 58 :: 47 :: 47 :: T) ->
  parse_url dbg hp hpo hd ovr None (sch ++ 58 :: 47 :: 47 :: T)
  = after_double_slash dbg hp hpo hd ovr CUrlParser STNotSpecial (nlen sch) (sch ++ [58]) T.
Proof.
  intros Ksch Kst Hb He. unfold parse_url. rewrite trim_c0_id by exact He.
  rewrite parse_scheme_canon by exact Ksch. unfold parse_with_scheme. rewrite Kst.
  rewrite to_u32_ok by exact Hb. cbn [pbind].
  unfold parse_non_special. unfold s_ss. cbn [inp_split_prefix_str].
  rewrite inp_next_cons by reflexivity. replace (47 =? 47) with true by reflexivity.
  rewrite inp_next_cons by reflexivity. replace (47 =? 47) with true by reflexivity.
  reflexivity.
Qed.

(* special non-file scheme: the same when T does not start with TAB/LF/CR, '/' or '\' *)
Theorem parse_url_ads_special sch T : scheme_canon sch = true -> scheme_type_of sch = STSpecialNotFile ->
  nlen sch <= U32_MAX_P -> edge_ok (sch ++ 58 :: 47 :: 47 :: T) ->
  match T with c :: _ => is_tnl c = false /\ is_slash_or_bslash c = false | [] => False end ->
  parse_url dbg hp hpo hd ovr None (sch ++ 58 :: 47 :: 47 :: T)
  = after_double_slash dbg hp hpo hd ovr CUrlParser STSpecialNotFile (nlen sch) (sch ++ [58]) T.
Proof.
  intros Ksch Kst Hb He HT. unfold parse_url. rewrite trim_c0_id by exact He.
  rewrite parse_scheme_canon by exact Ksch. unfold parse_with_scheme. rewrite Kst.
  rewrite to_u32_ok by exact Hb. cbn [pbind]. rewrite count_matching_2 by exact HT. reflexivity.
Qed.

End Compose.

(* non-vacuity: "a://" ++ "u s@h:80/p?q#f" with the alphanumeric host instance ex_hp / ex_hd of C02: the
   raw username "u s" is not canonical text, the four premises hold (the first by what C06_Agree.v proves
   in general, here by evaluation), and so does the conclusion of the composition *)
From Coq Require Import String.
From RU Require Import Proofs.C02_AuthMain.
Example compose_inhabited :
  let sch := B "a" in let ui := UUser (B "u%20s") in let h := HDomain (B "h") in let pt := Some 80 in
  let p : pth := Some ([], B "p") in let q := Some (B "q") in let f := Some (B "f") in
  let A := (sch ++ [58]) ++ [47; 47] in
  parse_userinfo STNotSpecial A (B "u s@h:80/p?q#f") = POk (A ++ ui_text ui, nlen A + ui_ulen ui, B "h:80/p?q#f")
  /\ parse_host_and_port ex_hp ex_hp ex_hd CUrlParser STNotSpecial (nlen sch) (A ++ ui_text ui) (B "h:80/p?q#f")
     = POk (auth_front ex_hd sch ui h pt, nlen (A ++ ui_text ui) + nlen (ex_hd h), hi_of_host h, pt, B "/p?q#f")
  /\ parse_path_start true CUrlParser STNotSpecial true (auth_front ex_hd sch ui h pt) (B "/p?q#f")
     = POk (auth_pre ex_hd sch ui h pt p, true, B "?q#f")
  /\ parse_query_and_fragment None CUrlParser STNotSpecial (nlen sch) (auth_pre ex_hd sch ui h pt p) (B "?q#f")
     = POk (auth_ser ex_hd sch ui h pt p q f, qf_qs (nlen (auth_pre ex_hd sch ui h pt p)) q,
            qf_fs (nlen (auth_pre ex_hd sch ui h pt p)) q f)
  /\ edge_ok (sch ++ 58 :: 47 :: 47 :: B "u s@h:80/p?q#f")
  /\ parse_url true ex_hp ex_hp ex_hd None None (B "a://u s@h:80/p?q#f") = POk (auth_url ex_hd sch ui h pt p q f)
  /\ ser (auth_url ex_hd sch ui h pt p q f) = B "a://u%20s@h:80/p?q#f".
Proof. vm_compute. repeat split; reflexivity. Qed.
