(* Proofs/C01_EqSp.v - C01 equivalence, class "special non-file scheme, no base": http / https / ws / wss /
   ftp, any number of '/' and '\' after "scheme:", [userinfo@]host[:port], path with '/' and '\' as
   separators and dot segments, ?query (special-query set), #fragment.  The Standard's special authority
   slashes / ignore slashes, authority, host, port, path start and path states (Proofs/C01_EqSpSpec.v)
   against inp_count_matching / parse_userinfo / parse_host_and_port / parse_path_start
   (Proofs/C01_EqSpModel.v, C01_EqSpPath.v); the host parser is one abstract function per side, related on
   the one string it is applied to (`host_agree_sp`). *)
From RU Require Import Base.Prelude Base.Utf8 Base.Utf8Facts Model.AsciiSet Gen.Tables
  Model.PercentEncoding Model.HostT Model.UrlRecord Model.Parser Model.Setters Model.WF Spec.Whatwg
  Proofs.ListN Proofs.C14_Set Proofs.C14_Enc Proofs.C14_Views Proofs.C02_Enc Proofs.C02_Parts
  Proofs.C02_Opaque Proofs.C02_Path Proofs.C02_PathL1 Proofs.C03_WF Proofs.C01_Tables Proofs.C08_Input
  Proofs.C01_EqRun Proofs.C01_EqEnc Proofs.C01_EqApi Proofs.C01_EqOpaque Proofs.C01_EqDots Proofs.C01_EqPathSpec
  Proofs.C06_List Proofs.C06_Steps Proofs.C01_EqRef Proofs.C01_EqPath Proofs.C01_EqOverflow
  Proofs.C01_EqAuthSpec Proofs.C01_EqAuthModel Proofs.C01_EqAuth Proofs.C01_EqClasses Proofs.C01_EqClasses2
  Proofs.C01_EqSpSpec Proofs.C01_EqSpPath Proofs.C01_EqSpRel Proofs.C01_EqSpModel Proofs.C01_Override.

(* ================= small facts ================= *)
Lemma special_type sch : is_special_scheme sch = true -> list_eqb sch str_file = false ->
  scheme_type_of sch = STSpecialNotFile.
Proof.
  intros H Hf. rewrite <- special_schemes_are_the_standards in H. unfold scheme_type_of in *.
  destruct (list_eqb sch s_http || list_eqb sch s_https || list_eqb sch s_ws || list_eqb sch s_wss || list_eqb sch s_ftp);
    [reflexivity|].
  change s_file with str_file in *. rewrite Hf in *. discriminate H.
Qed.

Lemma starts_aes_host_s HR : starts_aes HR = true -> hss_host false HR = [].
Proof.
  destruct HR as [|c r]; [reflexivity|]. cbn [starts_aes hss_host]. intros H. unfold hss_stop. rewrite H, orb_true_r. reflexivity.
Qed.

Lemma pqf_q_clean_s l : usv_list l -> opt_clean (query_set STSpecialNotFile) (pqf_q STSpecialNotFile l).
Proof.
  intros Hu. unfold pqf_q. destruct (inp_next l) as [[c r]|] eqn:En; [|exact I].
  destruct (c =? 63); [|exact I]. cbn [opt_clean]. apply (query_of_clean STSpecialNotFile). exact (inp_next_usv l c r Hu En).
Qed.

Lemma wqf_auth_s sch ue hs he hi po ps tl rest : nlen sch + 3 <= ps ->
  with_query_and_fragment None CUrlParser STSpecialNotFile (nlen sch) ue hs he hi po ps (auth_s0 sch ++ tl) rest
  = (' (s2, qs, fs) <~ parse_query_and_fragment None CUrlParser STSpecialNotFile (nlen sch) (auth_s0 sch ++ tl) rest ;;
     POk (mkUrl s2 (nlen sch) ue hs he hi po ps qs fs)).
Proof.
  intros H. unfold with_query_and_fragment.
  replace (ps =? nlen sch + 1) with false by lia.
  assert ((ps =? nlen sch + 3) && list_eqb (nfirstn (ps - nlen sch) (nskipn (nlen sch) (auth_s0 sch ++ tl))) [58; 47; 46] = false) as ->.
  { destruct (ps =? nlen sch + 3) eqn:E; [|reflexivity]. cbn [andb]. apply N.eqb_eq in E. rewrite E.
    replace (nlen sch + 3 - nlen sch) with 3 by lia. unfold auth_s0. rewrite <- !app_assoc. rewrite nskipn_app_len. reflexivity. }
  cbn [pbind]. reflexivity.
Qed.

(* ================= the model on "scheme:" slashes "authority..." ================= *)
Section SpClass.
Variable dbg : bool.
Variable hp hpo : list N -> result host.
Variable hd : host -> list N.
Variable shp : bool -> list N -> option spec_host.
Variable shs : spec_host -> list N.

Notation ADS l sch := (after_double_slash dbg hp hpo hd None CUrlParser STSpecialNotFile (nlen sch) (sch ++ [58]) l).

(* everything after parse_userinfo *)
Theorem model_sp_cont sch l un pw rem HR :
  usv_list l -> scheme_canon sch = true -> scheme_type_of sch = STSpecialNotFile ->
  let ser0 := auth_s0 sch in
  let u1 := mkSUrl sch un pw None None (SPList []) None None in
  (forall P : Prop, (U32_MAX_P < nlen (ser0 ++ cred_text un pw) -> P) ->
     oob P (parse_userinfo STSpecialNotFile ser0 l) (ser0 ++ cred_text un pw, nlen ser0 + nlen un, rem)) ->
  ntnl rem = HR -> usv_list rem ->
  host_agree_sp hp hd shp shs (hss_host false HR) ->
  (starts_aes (sp_path_text_of HR) = true -> spath_ok_s (path_text_s (sp_path_text_of HR)) [] [] = true) ->
  match sauth_host_g shp u1 [] false HR with
  | None => mfail (ADS l sch)
  | Some su =>
      exists u, oob (U32_MAX_P < nlen (ser u)) (ADS l sch) u
                /\ related dbg shs u su /\ nlen sch <= nlen (ser u)
  end.
Proof.
  intros Hu Hcan Hsp ser0 u1 HPU Hrem Hurem HA Hok.
  assert (exists tl, ser0 ++ cred_text un pw = sch ++ tl) as Htl.
  { exists ([58] ++ [47; 47] ++ cred_text un pw). unfold ser0, auth_s0. rewrite <- !app_assoc. reflexivity. }
  pose proof (hp_spec_s hp hpo hd shp shs sch (ser0 ++ cred_text un pw) rem u1 Hurem Hsp Htl eq_refl eq_refl) as HP.
  rewrite Hrem in HP. specialize (HP HA).
  unfold after_double_slash. change ((sch ++ [58]) ++ [47; 47]) with ser0.
  destruct (sauth_host_g shp u1 [] false HR) as [su|] eqn:Esu.
  2:{ eapply mfail_bind2; [apply (HPU True); intros _; exact I|]. cbv beta iota.
      eapply mfail_bind2 with (P := True); [apply oob_u32; intros _; exact I|]. apply mfail_bind. exact HP. }
  destruct HP as (host & sh & port & rem' & Ehp & Eshp & HhNe & Hpo & Hrem' & Hurem' & HXae & Esu' & Hends & HO).
  specialize (Hok HXae).
  unfold host_agree_sp in HA. destruct (hss_host false HR) as [|h0 hr] eqn:EHh; [contradiction HhNe; reflexivity|].
  rewrite Ehp, Eshp in HA. destruct HA as (Htxt & Hcol & Hne & Hne2 & Hsl).
  rewrite <- Hrem' in Hok.
  destruct (path_start_spec_s dbg rem' (((ser0 ++ cred_text un pw) ++ hd host) ++ port_suffix port) true Hurem' Hends Hok)
    as (segs & rest & Eps & Hurest & Hpt & Hnsl & Hsne & Htail & Hresth).
  set (q := pqf_q STSpecialNotFile rest). set (f := pqf_f rest).
  exists (auth_url sch un pw (hd host) (hi_of_host host) port (flat_map (fun s => 47 :: s) segs) q f).
  (* the host check of after_double_slash passes *)
  assert (forall b, hi_eqb (hi_of_host host) HI_None && b = false) as Echk.
  { intros b. destruct (hi_of_host host) eqn:Ehi; try reflexivity. exfalso. apply Hne. apply hi_none_iff. exact Ehi. }
  split.
  - (* the model: the canonical record, or Overflow with a serialization beyond u32 *)
    set (U := auth_url sch un pw (hd host) (hi_of_host host) port (flat_map (fun s => 47 :: s) segs) q f).
    assert (forall pre, (exists tl, ser U = pre ++ tl) -> U32_MAX_P < nlen pre -> U32_MAX_P < nlen (ser U)) as Hpre.
    { intros pre [tl ->] Hlt. rewrite nlen_app. lia. }
    eapply oob_bind.
    { apply HPU. apply Hpre. unfold U, auth_url. cbn [ser]. fold ser0.
      eexists. repeat rewrite <- app_assoc. reflexivity. }
    cbv beta iota.
    eapply oob_bind.
    { apply oob_u32. apply Hpre. unfold U, auth_url. cbn [ser]. fold ser0.
      eexists. repeat rewrite <- app_assoc. reflexivity. }
    eapply oob_bind.
    { apply HO. apply Hpre. unfold U, auth_url. cbn [ser]. fold ser0.
      eexists. repeat rewrite <- app_assoc. reflexivity. }
    cbv beta iota. rewrite Echk.
    eapply oob_bind.
    { apply oob_u32. apply Hpre. unfold U, auth_url. cbn [ser]. fold ser0.
      eexists. repeat rewrite <- app_assoc. reflexivity. }
    rewrite Eps. cbn [pbind].
    replace ((((ser0 ++ cred_text un pw) ++ hd host) ++ port_suffix port) ++ flat_map (fun s => 47 :: s) segs)
      with (auth_s0 sch ++ (cred_text un pw ++ hd host ++ port_suffix port ++ flat_map (fun s => 47 :: s) segs))
      by (fold ser0; repeat rewrite <- app_assoc; reflexivity).
    rewrite wqf_auth_s by (unfold ser0, auth_s0, nlen; repeat rewrite app_length; cbn [length]; lia).
    eapply oob_bind.
    { apply (pqf_oob None (U32_MAX_P < nlen (ser U))); [exact Hurest | reflexivity | exact Hresth |].
      fold q f. intros Hlt. unfold U, auth_url. cbn [ser]. fold ser0.
      replace (((((ser0 ++ cred_text un pw) ++ hd host) ++ port_suffix port) ++ flat_map (fun s => 47 :: s) segs) ++ qf_text q f)
        with ((auth_s0 sch ++ cred_text un pw ++ hd host ++ port_suffix port ++ flat_map (fun s => 47 :: s) segs) ++ qf_text q f)
        by (fold ser0; repeat rewrite <- app_assoc; reflexivity).
      exact Hlt. }
    fold q f. right. unfold U, auth_url. fold ser0.
    assert (ser0 ++ cred_text un pw ++ hd host ++ port_suffix port ++ flat_map (fun s => 47 :: s) segs
            = (((ser0 ++ cred_text un pw) ++ hd host) ++ port_suffix port) ++ flat_map (fun s => 47 :: s) segs) as ->
      by (repeat rewrite <- app_assoc; reflexivity).
    reflexivity.
  - split; [|unfold auth_url; cbn [ser]; unfold auth_s0, nlen; repeat rewrite app_length; lia].
    (* related to the Standard's record *)
    assert (su = spec_auth_url sch un pw sh port segs q f) as ->.
    { rewrite Esu'. rewrite <- Hrem'. rewrite Htail; [reflexivity | reflexivity | | reflexivity | reflexivity].
      unfold is_special. cbn [su_scheme set_port set_host u1]. rewrite <- special_schemes_are_the_standards, Hsp. reflexivity. }
    apply related_auth_s. constructor.
    + exact Hcan.
    + exact Hsp.
    + exact Htxt.
    + exact Hcol.
    + intros Hh. exfalso. apply Hne. apply hi_none_iff. exact Hh.
    + intros Hh. contradiction.
    + exact Hpo.
    + exact Hpt.
    + apply pqf_q_clean_s. exact Hurest.
Qed.

(* the text l after "scheme:" and the slashes *)
Theorem model_sp sch l : usv_list l -> scheme_canon sch = true -> scheme_type_of sch = STSpecialNotFile ->
  let T := ntnl l in
  (starts_aes (sp_path_text T) = true -> spath_ok_s (path_text_s (sp_path_text T)) [] [] = true) ->
  host_agree_sp hp hd shp shs (sp_host_text T) ->
  match sauth_s shp sch T with
  | None => mfail (ADS l sch)
  | Some su =>
      exists u, oob (U32_MAX_P < nlen (ser u)) (ADS l sch) u
                /\ related dbg shs u su /\ nlen sch <= nlen (ser u)
  end.
Proof.
  intros Hu Hcan Hsp T Hc HA. unfold sp_path_text, sp_host_text in *.
  unfold sauth_s. pose proof (parse_userinfo_spec_s (auth_s0 sch) l Hu) as PU. fold T in PU.
  unfold after_at_s in *. destruct (last_at (as_part T)) as [[w h]|] eqn:Ela; cbn [fst snd] in *.
  - set (HR := h ++ as_rest T) in *.
    destruct (is_nil w && starts_aes HR) eqn:E1.
    + apply andb_true_iff in E1. destruct E1 as [_ E2].
      unfold sauth_host_g. cbv zeta. cbn [app]. rewrite (starts_aes_host_s HR E2). cbn [is_nil].
      unfold after_double_slash. change ((sch ++ [58]) ++ [47; 47]) with (auth_s0 sch). rewrite PU. exists EmptyHost. reflexivity.
    + destruct PU as (rem & Hrem & Hurem & HPU).
      set (un := encU (cr_user w)) in *. set (pw := encU (cr_pass w)) in *.
      pose proof (model_sp_cont sch l un pw rem HR Hu Hcan Hsp HPU Hrem Hurem HA Hc) as C. cbv zeta in C.
      assert (cred_of (Some w) (set_scheme empty_url sch) = mkSUrl sch un pw None None (SPList []) None None) as ->.
      { cbn [cred_of]. rewrite ac_false. unfold un, pw. rewrite !encU_upe. reflexivity. }
      exact C.
  - cbn [cred_of].
    assert (forall P : Prop, (U32_MAX_P < nlen (auth_s0 sch ++ cred_text [] []) -> P) ->
              oob P (parse_userinfo STSpecialNotFile (auth_s0 sch) l) (auth_s0 sch ++ cred_text [] [], nlen (auth_s0 sch) + nlen [], l)) as HPU.
    { intros P HP. cbn [cred_text is_nil andb] in *. rewrite app_nil_r in *. rewrite nlen_nil, N.add_0_r. apply PU. exact HP. }
    exact (model_sp_cont sch l [] [] l T Hu Hcan Hsp HPU eq_refl Hu HA Hc).
Qed.

End SpClass.

(* ================= the class ================= *)
(* excluded, and only that: a ".." that would pop a drive-letter-shaped segment (finding F-C01-9: the
   model never pops it, in any scheme) - computed on the Standard's own (segment list, buffer); the test
   is applied only when the text behind host[:port] is empty or starts with '/', '\', '?', '#' (otherwise
   both sides fail in the port state whatever follows) *)
Definition sp_class_ok (T : list N) : bool :=
  negb (starts_aes (sp_path_text T)) || spath_ok_s (path_text_s (sp_path_text T)) [] [].

Definition in_class_special (input : list N) : bool :=
  match spec_scheme (spec_clean input) with
  | Some (sch, R) => is_special_scheme sch && negb (list_eqb sch str_file) && sp_class_ok (drop_sl R)
  | None => false
  end.

(* the one string the host parsers of the two sides are applied to *)
Definition class_host_text_s (input : list N) : list N :=
  match spec_scheme (spec_clean input) with
  | Some (_, R) => sp_host_text (drop_sl R)
  | None => []
  end.

Section Class.
Variable dbg : bool.
Variable hp hpo : list N -> result host.
Variable hd : host -> list N.
Variable shp : bool -> list N -> option spec_host.
Variable shs : spec_host -> list N.

(* ---------- specification side ---------- *)
(* no base, or a base whose scheme is not the scheme of the input: the base is never consulted *)
Theorem spec_special_any base input sch R :
  spec_scheme (spec_clean input) = Some (sch, R) -> is_special_scheme sch = true -> list_eqb sch str_file = false ->
  match base with Some b => list_eqb (su_scheme b) sch | None => false end = false ->
  match sauth_s shp sch (drop_sl R) with
  | Some su => spec_basic_url_parse shp input base = BDone su
  | None => exists uf, spec_basic_url_parse shp input base = BFailure uf
  end.
Proof.
  intros Hs Hspe Hnf Hb. set (inp := spec_clean input) in *.
  destruct (runs_scheme shp inp base sch R BOutOfFuel Hs) as (pre & Hin & _).
  assert (inp = ((pre ++ [58]) ++ take_sl R) ++ drop_sl R) as Hin2.
  { rewrite <- app_assoc, take_drop_sl, Hin, <- app_assoc. reflexivity. }
  assert (inp = (pre ++ [58]) ++ R) as Hin1 by (rewrite Hin, <- app_assoc; reflexivity).
  pose proof (runs_authority_s shp inp base _ (drop_sl R) sch Hin2 Hspe Hnf) as RA.
  assert (forall res, Runs shp inp base (at_pos StAuthority ((pre ++ [58]) ++ take_sl R) [] false false false
                                                 (set_scheme empty_url sch)) res ->
                      spec_basic_url_parse shp input base = res) as Hrun.
  { intros res HR. apply spec_parse_of_runs. fold inp.
    destruct (runs_scheme shp inp base sch R res Hs) as (pre2 & Hin' & K). apply K. clear K.
    assert (pre2 = pre) as -> by (rewrite Hin in Hin'; apply app_inv_tail in Hin'; symmetry; exact Hin').
    apply (runs_scheme_colon_special shp inp base pre sch R res Hin Hspe Hnf Hb).
    apply (runs_special_slashes shp inp base R (pre ++ [58]) false false false _ res Hin1). exact HR. }
  destruct (sauth_s shp sch (drop_sl R)) as [su|]; cbn [out_is] in RA.
  - apply Hrun. exact RA.
  - destruct RA as [uf K]. exists uf. apply Hrun. exact K.
Qed.

Theorem spec_special input sch R :
  spec_scheme (spec_clean input) = Some (sch, R) -> is_special_scheme sch = true -> list_eqb sch str_file = false ->
  match sauth_s shp sch (drop_sl R) with
  | Some su => spec_basic_url_parse shp input None = BDone su
  | None => exists uf, spec_basic_url_parse shp input None = BFailure uf
  end.
Proof. intros Hs Hspe Hnf. exact (spec_special_any None input sch R Hs Hspe Hnf eq_refl). Qed.

(* ---------- the class theorem ---------- *)
Theorem class_special input : usv_list input -> in_class_special input = true ->
  host_agree_sp hp hd shp shs (class_host_text_s input) ->
  agree_rel_strict dbg shs (parse_url dbg hp hpo hd None None input) (spec_basic_url_parse shp input None).
Proof.
  intros Hu Hc HA. unfold in_class_special, class_host_text_s in *.
  destruct (spec_scheme (spec_clean input)) as [[sch R]|] eqn:Es; [|discriminate].
  apply andb_true_iff in Hc. destruct Hc as [Hc Hok]. apply andb_true_iff in Hc. destruct Hc as [Hspe Hnf].
  apply negb_true_iff in Hnf. unfold sp_class_ok in Hok.
  pose proof (special_type sch Hspe Hnf) as Hsp.
  pose proof (spec_special input sch R Es Hspe Hnf) as HS.
  rewrite spec_clean_is_ntnl_trim in Es.
  destruct (spec_scheme_model _ _ _ Es) as (rem & Hps & Hrem).
  destruct (parse_scheme_suffix _ _ _ _ Hps) as [pre0 Hpre].
  assert (usv_list rem) as Hur.
  { pose proof (usv_trim input Hu) as Ht. rewrite Hpre in Ht. apply usv_app in Ht. tauto. }
  pose proof (parse_scheme_out _ _ _ Hps) as Hcan.
  set (l := snd (inp_count_matching is_sl rem)).
  assert (ntnl l = drop_sl R) as Hl by (unfold l, drop_sl; rewrite <- Hrem; apply (count_matching_ntnl is_sl rem)).
  assert (usv_list l) as Hul by (apply count_matching_usv'; exact Hur).
  rewrite <- Hl in Hok, HA.
  assert (starts_aes (sp_path_text (ntnl l)) = true -> spath_ok_s (path_text_s (sp_path_text (ntnl l))) [] [] = true) as Hok'.
  { intros K. rewrite K in Hok. exact Hok. }
  pose proof (model_sp dbg hp hpo hd shp shs sch l Hul Hcan Hsp Hok' HA) as HM. cbv zeta in HM.
  rewrite Hl in HM.
  assert (parse_url dbg hp hpo hd None None input
          = (' se <~ to_u32 (nlen sch) ;; after_double_slash dbg hp hpo hd None CUrlParser STSpecialNotFile se (sch ++ [58]) l)) as Epu.
  { unfold parse_url. rewrite Hps. unfold parse_with_scheme. rewrite Hsp. unfold l.
    change is_slash_or_bslash with is_sl. destruct (inp_count_matching is_sl rem) as [n rm]. reflexivity. }
  rewrite Epu.
  destruct (sauth_s shp sch (drop_sl R)) as [su|].
  - rewrite HS. cbn [agree_rel_strict]. destruct HM as (u & HO & Rl & Hle).
    pose proof (related_href dbg shs u su Rl) as Eh. rewrite <- Eh.
    assert (oob (U32_MAX_P < nlen (ser u))
                (' se <~ to_u32 (nlen sch) ;; after_double_slash dbg hp hpo hd None CUrlParser STSpecialNotFile se (sch ++ [58]) l) u) as HO'.
    { eapply oob_bind; [apply oob_u32; intros K; lia | exact HO]. }
    destruct HO' as [[E B]|E]; [left; split; assumption | right; exists u; split; assumption].
  - destruct HS as [uf ->]. cbn [agree_rel_strict].
    destruct (to_u32 (nlen sch)) as [se| |] eqn:Eu; cbn [pbind].
    + apply to_u32_inv in Eu. destruct Eu as [-> _]. exact HM.
    + exists e. reflexivity.
    + unfold to_u32 in Eu. destruct (nlen sch <=? U32_MAX_P); discriminate Eu.
Qed.

(* a UTF-8 encoding override changes nothing (Proofs/C01_Override.v) *)
Theorem class_special_utf8 input : usv_list input -> in_class_special input = true ->
  host_agree_sp hp hd shp shs (class_host_text_s input) ->
  agree_rel_strict dbg shs (parse_url dbg hp hpo hd (Some utf8_encode) None input) (spec_basic_url_parse shp input None).
Proof. intros Hu Hc HA. rewrite parse_url_utf8_override. apply class_special; assumption. Qed.

End Class.
