(* Proofs/C16_RT6.v - the parser half of the origin round trip for hosts whose text is bracketed
   ("[" ... "]", the IPv6 form): inside the brackets the host state of the parser does not stop at ':'.
   The symbolic execution of parse_url on  scheme "://" host-text [":" port]  is redone for any host text
   on which the host scan is known to stop exactly at its end; plain texts (Proofs/C16_RT.v) and
   bracketed texts are the two instances. *)
From RU Require Import Base.Prelude Base.Utf8 Model.AsciiSet Gen.Tables Model.PercentEncoding Model.HostT Model.UrlRecord Model.Parser Model.Origin
  Proofs.C16_Conc Proofs.C16_Origin Proofs.ListN Proofs.C16_RT.

(* what may stand between the brackets: printable ASCII without / \ ? # @ [ ]   (':' and '.' allowed) *)
Definition v6c (c : N) : bool :=
  (32 <? c) && (c <? 128) && negb (memb c [47; 92; 63; 35; 64; 91; 93]).

Lemma v6c_facts c : v6c c = true ->
  is_tnl c = false /\ 32 < c /\ c < 128 /\ c <> 47 /\ c <> 92 /\ c <> 63 /\ c <> 35 /\ c <> 64 /\ c <> 91 /\ c <> 93.
Proof. unfold v6c, is_tnl. cbn [memb]. intros H. lia. Qed.

Lemma plainc_v6c c : plainc c = true -> v6c c = true.
Proof. unfold plainc, v6c. cbn [memb]. lia. Qed.

(* ---------- the host scan on a bracketed text ---------- *)
Lemma host_scan_inside body : forall acc rest, forallb v6c body = true ->
  host_scan true true acc (body ++ 93 :: rest) = host_scan true false (93 :: rev body ++ acc) rest.
Proof.
  induction body as [|c body IH]; intros acc rest Hb.
  - cbn [app rev host_scan]. reflexivity.
  - cbn [forallb] in Hb. apply andb_true_iff in Hb. destruct Hb as [Hc Hb].
    apply v6c_facts in Hc. destruct Hc as (Ht0 & _ & _ & H47 & H92 & H63 & H35 & _ & H91 & H93).
    cbn [app host_scan]. rewrite Ht0.
    replace (c =? 92) with false by lia. replace (c =? 47) with false by lia.
    replace (c =? 63) with false by lia. replace (c =? 35) with false by lia.
    replace (c =? 91) with false by lia. replace (c =? 93) with false by lia.
    cbn [negb andb orb]. rewrite andb_false_r. cbn [orb].
    rewrite (IH (c :: acc) rest Hb). cbn [rev]. now rewrite <- app_assoc.
Qed.

Lemma host_scan_stop acc sfx : (sfx = [] \/ exists r, sfx = 58 :: r) ->
  host_scan true false acc sfx = (rev acc, sfx).
Proof. intros [->|[r ->]]; reflexivity. Qed.

Lemma host_scan_bracket body sfx : forallb v6c body = true -> (sfx = [] \/ exists r, sfx = 58 :: r) ->
  host_scan true false [] ((91 :: body ++ [93]) ++ sfx) = (91 :: body ++ [93], sfx).
Proof.
  intros Hb Hs. cbn [app]. rewrite <- app_assoc. cbn [app].
  change (host_scan true false [] (91 :: body ++ 93 :: sfx)) with (host_scan true true [91] (body ++ 93 :: sfx)).
  rewrite (host_scan_inside body [91] sfx Hb). rewrite (host_scan_stop _ sfx Hs).
  cbn [rev]. rewrite rev_app_distr, rev_involutive. cbn [rev app]. reflexivity.
Qed.

(* ---------- host texts on which the scan stops at the end ---------- *)
Definition scannable (T : list N) : Prop :=
  Forall (fun x => 32 < x /\ x < 128 /\ x <> 64) T
  /\ (forall sfx, (sfx = [] \/ exists r, sfx = 58 :: r) -> host_scan true false [] (T ++ sfx) = (T, sfx)).

Lemma scannable_plain T : forallb plainc T = true -> scannable T.
Proof.
  intros H. split.
  - apply Forall_forall. intros x Hx. rewrite forallb_forall in H. apply H in Hx. apply plainc_facts in Hx. lia.
  - intros sfx Hs. exact (host_scan_plain T [] sfx H Hs).
Qed.

Lemma scannable_bracket body : forallb v6c body = true -> scannable (91 :: body ++ [93]).
Proof.
  intros H. split.
  - constructor; [lia|]. apply Forall_app. split; [|repeat constructor; lia].
    apply Forall_forall. intros x Hx. rewrite forallb_forall in H. apply H in Hx. apply v6c_facts in Hx. lia.
  - intros sfx Hs. exact (host_scan_bracket body sfx H Hs).
Qed.

Section RT6.
Variable dbg : bool.
Variable hp ho : list N -> result host.
Variable hd : host -> list N.

(* parse_tuple_text of Proofs/C16_RT.v with the plainness of the host text replaced by `scannable` *)
Lemma parse_tuple_text_gen s c t tout h p :
  In s five_schemes -> scannable (c :: t) -> c <> 47 -> c <> 92 ->
  hp (c :: t) = Ok h -> hd h = tout -> host_fmt hd h = tout -> tout <> [] -> ends_with_byte 47 tout = false ->
  p <= 65535 ->
  nlen s + 3 + nlen tout + nlen (port_suffix s p) + 1 <= U32_MAX_P ->
  exists w,
    parse_url dbg hp ho hd None None (s ++ 58 :: 47 :: 47 :: (c :: t) ++ port_suffix s p) = POk w
    /\ scheme w = Some s /\ host_of w = Some (Some h) /\ port_or_known_default w = Some (Some p).
Proof.
  intros H5 [Hchars Hscan] Hc47 Hc92 Hhp Hhd Hfmt Hone Hlast Hp HB.
  pose proof (five_chars s H5) as Hs.
  assert (Hsfx : port_suffix s p = [] \/ port_suffix s p = 58 :: decimal p)
    by (unfold port_suffix; destruct (opt_eqb _ _); auto).
  destruct (port_rt p Hp) as [Hport Hdig].
  assert (Hdigf : Forall (fun x => is_digit x = true) (decimal p)) by (apply Forall_forall; apply forallb_forall; exact Hdig).
  assert (Hall : Forall (fun x => 32 < x /\ x < 128 /\ x <> 64) (s ++ 58 :: 47 :: 47 :: (c :: t) ++ port_suffix s p)).
  { apply Forall_app. split; [exact Hs|]. repeat (constructor; [lia|]).
    apply Forall_app. split; [exact Hchars|].
    destruct Hsfx as [->| ->]; [constructor|]. constructor; [lia|].
    eapply Forall_impl; [|exact Hdigf]. intros x Hx. unfold is_digit in Hx. lia. }
  unfold parse_url, input_new_trim_c0. cbv zeta.
  rewrite trim_id by (eapply Forall_impl; [|exact Hall]; intros x Hx; cbv beta in *; unfold is_c0_or_space; lia).
  rewrite (parse_scheme_five s _ H5).
  unfold parse_with_scheme. rewrite to_u32_ok by lia. cbn [pbind]. cbv zeta. rewrite (five_special s H5).
  assert (Hc : 32 < c) by (inversion Hchars as [|? ? Hx _]; lia).
  destruct (inp_count_matching is_slash_or_bslash (47 :: 47 :: (c :: t) ++ port_suffix s p)) as [sl rem] eqn:Ecm.
  pose proof (count_matching_ss c (t ++ port_suffix s p) ltac:(unfold is_tnl; lia) ltac:(unfold is_slash_or_bslash; lia)) as Hrem.
  cbn [app] in Ecm. rewrite Ecm in Hrem. cbn [snd] in Hrem. subst rem.
  set (sfx := port_suffix s p) in *.
  unfold after_double_slash. cbv zeta.
  unfold parse_userinfo.
  rewrite scan_last_at_none.
  2:{ change (c :: t ++ sfx) with ((c :: t) ++ sfx).
      apply Forall_app in Hall. destruct Hall as [_ Hall]. inversion Hall as [|x1 l1 _ Hall1]; subst.
      inversion Hall1 as [|x2 l2 _ Hall2]; subst. inversion Hall2 as [|x3 l3 _ Hall3]; subst.
      eapply Forall_impl; [|exact Hall3]. cbv beta. intros; lia. }
  rewrite !nlen_app in *. change (nlen [58]) with 1 in *. change (nlen [47; 47]) with 2 in *.
  rewrite !to_u32_ok by lia. cbn [pbind].
  set (ser0 := (s ++ [58]) ++ [47; 47]) in *.
  assert (Hser0 : nlen ser0 = nlen s + 3)
    by (unfold ser0; rewrite !nlen_app; change (nlen [58]) with 1; change (nlen [47; 47]) with 2; lia).
  rewrite Hser0. rewrite to_u32_ok by lia. cbn [pbind].
  replace (nlen s + 1 + 2 =? nlen s + 3) with true by (symmetry; apply N.eqb_eq; lia). cbn [negb].
  unfold parse_host_and_port, parse_host. cbn [st_is_file st_is_special scheme_type_eqb negb andb].
  change (c :: t ++ sfx) with ((c :: t) ++ sfx).
  rewrite (Hscan sfx) by (destruct Hsfx as [->| ->]; eauto).
  cbn [app].
  rewrite Hhp. cbn [of_result pbind]. rewrite Hhd.
  assert (Hne : h <> HDomain []) by (intros ->; cbn [host_fmt] in Hfmt; congruence).
  assert (Hlt1 : 1 <= nlen tout) by (destruct tout; [congruence|rewrite nlen_cons; lia]).
  assert (Hser1 : nlen (ser0 ++ tout) = nlen s + 3 + nlen tout) by (rewrite nlen_app; lia).
  rewrite Hser1. rewrite to_u32_ok by lia. cbn [pbind].
  rewrite (empty_host_check h _ _ Hne). cbn [pbind].
  replace (nfirstn (nlen s) (ser0 ++ tout)) with s
    by (unfold ser0; rewrite <- !app_assoc; now rewrite nfirstn_app_exact).
  unfold sfx, port_suffix in *. clear sfx.
  destruct (opt_eqb (default_port s) (Some p)) eqn:Edp.
  - change (inp_split_prefix_char 58 []) with (@None (list N)). cbn [pbind]. rewrite andb_false_r.
    rewrite (path_tail dbg hp ho).
    + eexists. split; [reflexivity|].
      unfold ser0. rewrite <- (app_assoc _ tout [47]).
      apply (accessors_of_result hp ho hd); [exact Hfmt|exact Hne|].
      right. split; [reflexivity|]. now apply opt_eqb_spec.
    + unfold ends_with_byte in *. rewrite rev_app_distr. destruct (rev tout) as [|x r] eqn:Er; [|exact Hlast].
      exfalso. apply Hone. apply (f_equal (@rev N)) in Er. now rewrite rev_involutive in Er.
    + rewrite Hser1. change (nlen []) with 0 in HB. lia.
    + rewrite Hser1. lia.
  - change (inp_split_prefix_char 58 (58 :: decimal p)) with (Some (decimal p)).
    unfold parse_port. rewrite Hport. cbn [pbind negb andb orb].
    rewrite opt_eqb_sym, Edp. cbn [pbind]. rewrite andb_false_r.
    assert (Hlen : nlen (58 :: decimal p) = 1 + nlen (decimal p)) by apply nlen_cons.
    rewrite (path_tail dbg hp ho).
    + eexists. split; [reflexivity|].
      replace (((ser0 ++ tout) ++ 58 :: decimal p) ++ [47])
        with (((s ++ [58]) ++ [47; 47]) ++ tout ++ ((58 :: decimal p) ++ [47]))
        by (unfold ser0; rewrite <- !app_assoc; reflexivity).
      apply (accessors_of_result hp ho hd); [exact Hfmt|exact Hne|]. left. reflexivity.
    + apply ends_with_not; [discriminate|]. constructor; [lia|].
      eapply Forall_impl; [|exact Hdigf]. intros x Hx. unfold is_digit in Hx. lia.
    + rewrite nlen_app, Hser1. lia.
    + rewrite nlen_app, Hser1. lia.
Qed.

(* parsing the serialization  scheme://text[:port]  gives a URL with origin (scheme, h, port), whenever the
   host scan stops at the end of the text, Host::parse reads it as h, and Display writes h as a non-empty
   text that does not end in '/' *)
Lemma rt_text_gen s c t h p :
  In s five_schemes -> p <= 65535 ->
  scannable (c :: t) -> c <> 47 -> c <> 92 -> hp (c :: t) = Ok h ->
  hd h = host_fmt hd h -> host_fmt hd h <> [] -> ends_with_byte 47 (host_fmt hd h) = false ->
  nlen (tuple_serialization s (host_fmt hd h) p) < U32_MAX_P ->
  exists w, url_parse dbg hp ho hd (tuple_serialization s (c :: t) p) = POk w
            /\ forall f k, url_origin_fuel dbg hp ho hd f k w = OOk (Tuple s h p) k.
Proof.
  intros H5 Hp Hsc Hc47 Hc92 Hhp Hhd Hne Hlast HB.
  rewrite tuple_serialization_eq in HB. rewrite !nlen_app, !nlen_cons, nlen_app in HB.
  destruct (parse_tuple_text_gen s c t (host_fmt hd h) h p H5 Hsc Hc47 Hc92 Hhp Hhd eq_refl Hne Hlast Hp ltac:(lia))
    as (w & Hw & Hsch & Hhost & Hport).
  exists w. split.
  - unfold url_parse, str_chars. rewrite tuple_serialization_eq. rewrite utf8_lossy_ascii; [exact Hw|].
    apply Forall_app. split.
    + eapply Forall_impl; [|exact (five_chars s H5)]. cbv beta. intros; lia.
    + repeat (constructor; [lia|]). apply Forall_app. split.
      * destruct Hsc as [Hchars _]. eapply Forall_impl; [|exact Hchars]. cbv beta. intros; lia.
      * unfold port_suffix. destruct (opt_eqb _ _); [constructor|]. constructor; [lia|]. now apply decimal_ascii.
  - intros f k. destruct (tuple_arm dbg hp ho hd f k w s h Hsch H5 Hhost) as (p' & Hp' & Ho).
    rewrite Hport in Hp'. inversion Hp'; subst. exact Ho.
Qed.

End RT6.

(* ---------- C16_rt for bracketed host texts ---------- *)
Definition bracket_text (t : list N) : Prop := exists body, t = 91 :: body ++ [93] /\ forallb v6c body = true.

Lemma ends_with_93 body : ends_with_byte 47 (91 :: body ++ [93]) = false.
Proof.
  unfold ends_with_byte. change (91 :: body ++ [93]) with ((91 :: body) ++ [93]). rewrite rev_app_distr. reflexivity.
Qed.

(* for a host that is not a domain the Unicode serialization is the ASCII one *)
Lemma unicode_is_ascii hd tu s h p : (forall d, h <> HDomain d) ->
  unicode_serialization hd tu (Tuple s h p) = ascii_serialization hd (Tuple s h p).
Proof. intros H. destruct h as [d|a|pc]; [exfalso; exact (H d eq_refl)|reflexivity|reflexivity]. Qed.

Definition rt_bracket_stmt : Prop :=
  forall dbg hp ho hd tu s h p,
    In s five_schemes -> p <= 65535 ->
    (* the text of the host is bracketed (IPv6 hosts), Display and Host::parse are inverse on it (C09) *)
    bracket_text (host_fmt hd h) -> hd h = host_fmt hd h -> hp (host_fmt hd h) = Ok h ->
    nlen (ascii_serialization hd (Tuple s h p)) < U32_MAX_P ->
    (exists w, url_parse dbg hp ho hd (ascii_serialization hd (Tuple s h p)) = POk w
               /\ forall f k, url_origin_fuel dbg hp ho hd f k w = OOk (Tuple s h p) k)
    /\ ((forall d, h <> HDomain d) ->
        exists w, url_parse dbg hp ho hd (unicode_serialization hd tu (Tuple s h p)) = POk w
                  /\ forall f k, url_origin_fuel dbg hp ho hd f k w = OOk (Tuple s h p) k).

Lemma rt_bracket : rt_bracket_stmt.
Proof.
  intros dbg hp ho hd tu s h p H5 Hp (body & Et & Hb) Hhd Hhp HB.
  assert (Hasc : exists w, url_parse dbg hp ho hd (ascii_serialization hd (Tuple s h p)) = POk w
               /\ forall f k, url_origin_fuel dbg hp ho hd f k w = OOk (Tuple s h p) k).
  { cbn [ascii_serialization] in *.
    pose proof (rt_text_gen dbg hp ho hd s 91 (body ++ [93]) h p H5 Hp (scannable_bracket body Hb) ltac:(lia) ltac:(lia)) as R.
    rewrite <- Et in R. apply R; try assumption.
    - rewrite Et. discriminate.
    - rewrite Et. apply ends_with_93. }
  split; [exact Hasc|]. intros Hnd. rewrite (unicode_is_ascii hd tu s h p Hnd). exact Hasc.
Qed.

(* ---------- the round trip for ARBITRARY host functions is false ----------
   The full statement quantifies over all Host::parse / Display functions and only asks that they are inverse
   on the host of the origin.  That is not enough: if Host::parse may return a domain whose text contains '/',
   the serialization is cut at that '/' when it is parsed again.  Witness: Host::parse maps "x" and "a/b" to
   Domain("a/b") and "a" to Domain("z"); https://x/ has origin (https, a/b, 443), serialized https://a/b, which
   parses to a URL with origin (https, z, 443).  (The real Host::parse never returns such a domain - C09_domain -
   so this is a fact about the statement, not about the crate; plain_text / bracket_text are the premises that
   exclude it.) *)
Definition rt_full_stmt : Prop :=
  forall dbg hp ho hd tu input u c o c',
    url_parse dbg hp ho hd input = POk u ->
    url_origin dbg hp ho hd c u = OOk o c' -> is_tuple o = true ->
    (forall s h p, o = Tuple s h p ->
       hp (str_chars (host_fmt hd h)) = Ok h
       /\ (forall d, h = HDomain d -> hp (str_chars (tu d)) = Ok h)) ->
    (exists w, url_parse dbg hp ho hd (ascii_serialization hd o) = POk w
               /\ url_origin dbg hp ho hd c' w = OOk o c')
    /\ (exists w, url_parse dbg hp ho hd (unicode_serialization hd tu o) = POk w
                  /\ url_origin dbg hp ho hd c' w = OOk o c').

Definition x_a_b : list N := [97; 47; 98].
Definition x_hp (t : list N) : result host :=
  if list_eqb t [120] then Ok (HDomain x_a_b)
  else if list_eqb t x_a_b then Ok (HDomain x_a_b)
  else if list_eqb t [97] then Ok (HDomain [122]) else Err EmptyHost.
Definition x_hd (h : host) : list N := match h with HDomain d => d | _ => [] end.
Definition x_input : list N := [104; 116; 116; 112; 115; 58; 47; 47; 120; 47].
Definition x_url : url := mkUrl [104; 116; 116; 112; 115; 58; 47; 47; 97; 47; 98; 47] 5 8 8 11 HI_Domain None 11 None None.

Lemma rt_full_refuted : ~ rt_full_stmt.
Proof.
  intros H.
  specialize (H true x_hp x_hp x_hd (fun d => d) x_input x_url 0 (Tuple s_https (HDomain x_a_b) 443) 0).
  destruct H as [[w [Hw Ho]] _].
  - vm_compute. reflexivity.
  - vm_compute. reflexivity.
  - reflexivity.
  - intros s h p E. inversion E; subst. split; [vm_compute; reflexivity|].
    intros d Ed. inversion Ed; subst. vm_compute. reflexivity.
  - vm_compute in Hw. inversion Hw; subst w. vm_compute in Ho. discriminate Ho.
Qed.
