(* Proofs/C02_JoinPath.v - G1, third part: the path arms of the relative state on a canonical hierarchical base.
   A scheme-less reference whose first character (after trimming and tab/newline removal) is neither '?' nor '#':
     - two or more slashes (back-slashes too for a special base): scheme-relative, the authority state runs behind
       scheme ':' exactly as in a parse without base (ads_out / ads_out_sp);
     - one slash: path-absolute, the path state runs behind everything in front of the base's path;
     - anything else: path-relative, the base's last segment is popped and the path state runs behind the rest.
   In the last two arms the serialization the path state starts from has the shape  FRONT '/' seg '/' ... seg '/'
   (Bs FRONT segs) with canonical segments, so the loop invariants of C02_PathL1 / C02_PathSp give a canonical path
   text; what remains is with_query_and_fragment (marker handling for bases without authority) - left to the callers
   as an equation. *)
From RU Require Import Base.Prelude Base.Utf8 Base.Utf8Facts Model.AsciiSet Gen.Tables
  Model.PercentEncoding Model.HostT Model.UrlRecord Model.Parser Model.Setters Model.WF
  Proofs.ListN Proofs.C06_List Proofs.C14_Set Proofs.C14_Enc Proofs.C02_Enc Proofs.C02_Parts
  Proofs.C02_Opaque Proofs.C02_Path Proofs.C02_PathL1 Proofs.C02_Reach Proofs.C02_AuthParts
  Proofs.C02_Auth Proofs.C02_AuthWf Proofs.C02_PathSp Proofs.C02_AuthSp Proofs.C02_AuthMain Proofs.C02_SetQF
  Proofs.C02_Canon Proofs.C02_JoinTail.
Open Scope N_scope.
Open Scope list_scope.

Lemma split_first_not47 {A} c (r : list N) (X : list N -> A) (Y : A) : (c =? 47) = false ->
  match (Some c, r) with (Some 47, remaining) => X remaining | _ => Y end = Y.
Proof.
  intros H. destruct c as [|p]; [reflexivity|]. do 6 (destruct p as [p|p|]; try reflexivity). discriminate H.
Qed.

Lemma Bs_nil pre : pre ++ [47] = Bs pre [] ++ [].
Proof. unfold Bs. cbn [segs_text map concat]. rewrite !app_nil_r. reflexivity. Qed.

Lemma Bs_path pre segs last : pre ++ path_text segs last = Bs pre segs ++ last.
Proof. unfold Bs, path_text. rewrite <- !app_assoc. reflexivity. Qed.

Lemma segs_text_ends segs : segs = [] \/ exists X, segs_text segs = X ++ [47].
Proof.
  destruct (rev segs) as [|t r] eqn:E.
  - left. rewrite <- (rev_involutive segs), E. reflexivity.
  - right. assert (segs = rev r ++ [t]) as -> by (rewrite <- (rev_involutive segs), E; reflexivity).
    rewrite segs_text_snoc. exists (segs_text (rev r) ++ t). rewrite <- app_assoc. reflexivity.
Qed.

(* pop_path on  FRONT ++ path : the last segment goes, the '/' in front of it stays *)
Lemma pop_path_pth st FRONT segs last : st_is_file st = false -> no_slash last = true ->
  pop_path st (nlen FRONT) (FRONT ++ path_text segs last) = POk (Bs FRONT segs).
Proof.
  intros Hf Hl. unfold pop_path. rewrite nlen_app.
  replace (nlen FRONT <? nlen FRONT + nlen (path_text segs last)) with true
    by (unfold path_text, nlen; cbn [length]; lia).
  rewrite nskipn_app_len.
  set (T := [47] ++ segs_text segs).
  assert (path_text segs last = T ++ last) as ET by (unfold T, path_text; reflexivity). rewrite ET.
  assert (exists Y, T = Y ++ [47] /\ nlen Y + 1 = nlen T) as (Y & EY & LY).
  { unfold T. destruct (segs_text_ends segs) as [-> | [X EX]].
    - exists []. split; reflexivity.
    - exists ([47] ++ X). rewrite EX. split; [rewrite <- app_assoc; reflexivity | len_lia]. }
  assert (rfind 47 (T ++ last) = Some (nlen Y)) as ->.
  { rewrite EY, <- app_assoc. cbn [app]. apply rfind_app_last. exact Hl. }
  rewrite Hf. cbn [andb]. f_equal. unfold truncate.
  replace (nlen FRONT + nlen Y + 1) with (nlen (FRONT ++ T)) by (rewrite nlen_app; lia).
  rewrite app_assoc. rewrite nfirstn_app_len. unfold Bs, T. rewrite <- !app_assoc. reflexivity.
Qed.

Lemma pop_path_empty st FRONT : pop_path st (nlen FRONT) FRONT = POk FRONT.
Proof. unfold pop_path. replace (nlen FRONT <? nlen FRONT) with false by lia. reflexivity. Qed.

Lemma good_seg_no_slash s : good_seg s = true -> no_slash s = true.
Proof. intros H. exact (proj1 (proj2 (good_seg_parts s H))). Qed.

Section Frame.
Variables (sch Z : list N) (ue hs he : N) (hi : host_internal) (pt : option N).
Notation FRONT := ((sch ++ [58]) ++ Z).
Notation Bu X q f := (qf_url (FRONT ++ X) (nlen sch) ue hs he hi pt (nlen FRONT) q f).

Lemma frame_colon X q f : nfirstn (nlen sch + 1) (ser (Bu X q f)) = sch ++ [58].
Proof.
  unfold qf_url. cbn [ser]. rewrite <- !app_assoc. rewrite (app_assoc sch [58]).
  replace (nlen sch + 1) with (nlen (sch ++ [58])) by (rewrite nlen_app; reflexivity). apply nfirstn_app_len.
Qed.

Lemma frame_front X q f : nfirstn (nlen FRONT) (ser (Bu X q f)) = FRONT.
Proof. unfold qf_url. cbn [ser]. rewrite <- (app_assoc ((sch ++ [58]) ++ Z) X (qf_text q f)). apply nfirstn_app_len. Qed.

Lemma frame_scheme X q f : b_scheme (Bu X q f) = sch.
Proof.
  apply b_scheme_qf; [rewrite <- !app_assoc; apply nfirstn_app_len | rewrite !nlen_app; lia].
Qed.
End Frame.

(* ================= non-special base ================= *)
Section RelNS.
Variable dbg : bool.
Variable hp hpo : list N -> result host.
Variable hd : host -> list N.
Hypothesis HRT : HostRT hp hpo hd.
Hypothesis HAb : host_above hp hpo hd.
Variable ovr : option (list N -> list N).
Variables (sch Z : list N) (ue hs he : N) (hi : host_internal) (pt : option N).
Notation FRONT := ((sch ++ [58]) ++ Z).
Notation Bu X q f := (qf_url (FRONT ++ X) (nlen sch) ue hs he hi pt (nlen FRONT) q f).
Hypothesis Hsc : scheme_canon sch = true.
Hypothesis Hst : scheme_type_of sch = STNotSpecial.

Theorem rel_ns_out l c r p q f u : usv_list l -> inp_next l = Some (c, r) -> (c =? 63) = false -> (c =? 35) = false ->
  pth_ok p ->
  parse_relative dbg hp hpo hd ovr CUrlParser STNotSpecial (Bu (pth_text p) q f) l = POk u ->
  (exists ui h pt' p' q' f', auth_ok hp hpo hd STNotSpecial sch ui h pt' p' q' f' /\ u = auth_url hd sch ui h pt' p' q' f')
  \/ (exists segs' last' l', usv_list l' /\ forallb good_seg segs' = true /\ good_seg last' = true /\
        with_query_and_fragment ovr CUrlParser STNotSpecial (nlen sch) ue hs he hi pt (nlen FRONT)
          (FRONT ++ path_text segs' last') (cbb_rest l') = POk u).
Proof.
  intros Hl En E63 E35 Hp H. pose proof (inp_next_usv l c r Hl En) as Hr.
  unfold parse_relative, inp_split_first in H. rewrite En in H. rewrite E63, E35 in H. cbn [st_is_special] in H.
  rewrite andb_false_r, orb_false_r in H.
  change (scheme_end (Bu (pth_text p) q f)) with (nlen sch) in H.
  change (path_start (Bu (pth_text p) q f)) with (nlen FRONT) in H.
  cbn [username_end host_start host_end hosti port qf_url] in H.
  destruct (c =? 47) eqn:E47.
  - destruct (inp_count_matching (fun d : N => (d =? 47) || (d =? 92) && false) l) as [sl rm] eqn:Ec.
    destruct (2 <=? sl).
    + (* scheme-relative *)
      left. match type of H with context [dassert ?d ?cc] => destruct (dassert d cc) end; cbn [pbind] in H; try discriminate H.
      cbn [negb] in H. rewrite (frame_colon sch Z ue hs he hi pt) in H.
      destruct (inp_split_prefix_str s_ss l) as [ap|] eqn:Es.
      * exact (ads_out dbg hp hpo hd HRT HAb ovr sch ap u Hsc Hst (split_prefix_str_usv _ _ _ Hl Es) H).
      * exact (ads_out dbg hp hpo hd HRT HAb ovr sch rm u Hsc Hst (count_matching_usv _ _ _ _ Hl Ec) H).
    + (* path-absolute *)
      right. rewrite (frame_front sch Z ue hs he hi pt) in H. unfold parse_path in H.
      destruct (parse_path_loop dbg CUrlParser STNotSpecial (nlen FRONT) r (FRONT ++ [47]) (nlen (FRONT ++ [47])) [] true)
        as [[[s hh] rest]| |] eqn:El; cbn [pbind] in H; try discriminate H.
      rewrite (Bs_nil FRONT) in El. rewrite app_nil_r in El at 2.
      apply (loop_inv FRONT dbg r [] [] [] true s hh rest Hr) in El; try reflexivity.
      2:{ split; [constructor | reflexivity]. }
      destruct El as (segs' & last' & -> & Hs' & Hl' & _ & ->).
      exists segs', last', r. rewrite Bs_path. repeat split; assumption.
  - (* path-relative *)
    right. rewrite before_query_qf in H.
    assert (exists segs0, forallb good_seg segs0 = true /\
              (' (s1) <~ pop_path STNotSpecial (nlen FRONT) (FRONT ++ pth_text p) ;;
               POk (if (nlen s1 =? nlen FRONT) && (st_is_special (scheme_type_of (b_scheme (Bu (pth_text p) q f))) || negb (inp_is_empty l))
                    then s1 ++ [47] else s1)) = POk (Bs FRONT segs0)) as (segs0 & Hs0 & Epop).
    { destruct p as [[segs last]|]; cbn [pth_text pth_ok] in *.
      - destruct Hp as [Hsg Hla]. exists segs. split; [exact Hsg|].
        rewrite (pop_path_pth STNotSpecial FRONT segs last eq_refl (good_seg_no_slash last Hla)). cbn [pbind].
        pose proof (Bs_len_ge FRONT segs) as L. replace (nlen (Bs FRONT segs) =? nlen FRONT) with false by lia. reflexivity.
      - exists []. split; [reflexivity|]. rewrite app_nil_r, pop_path_empty. cbn [pbind]. rewrite N.eqb_refl.
        unfold inp_is_empty. rewrite En. cbn [negb]. rewrite orb_true_r. cbn [andb]. rewrite Bs_nil, app_nil_r. reflexivity. }
    destruct (pop_path STNotSpecial (nlen FRONT) (FRONT ++ pth_text p)) as [s1| |]; cbn [pbind] in *; try discriminate Epop.
    injection Epop as Epop. rewrite Epop in H. rewrite (split_first_not47 c r _ _ E47) in H.
    unfold parse_path in H.
    destruct (parse_path_loop dbg CUrlParser STNotSpecial (nlen FRONT) l (Bs FRONT segs0) (nlen (Bs FRONT segs0)) [] true)
      as [[[s hh] rest]| |] eqn:El; cbn [pbind] in H; try discriminate H.
    rewrite <- (app_nil_r (Bs FRONT segs0)) in El at 1.
    apply (loop_inv FRONT dbg l segs0 [] [] true s hh rest Hl) in El; try reflexivity; try assumption.
    2:{ split; [constructor | reflexivity]. }
    destruct El as (segs' & last' & -> & Hs' & Hl' & _ & ->).
    exists segs', last', l. rewrite Bs_path. repeat split; assumption.
Qed.
End RelNS.

(* ================= special (non-file) base ================= *)
Section RelSP.
Variable dbg : bool.
Variable hp hpo : list N -> result host.
Variable hd : host -> list N.
Hypothesis HRT : HostRT hp hpo hd.
Hypothesis HAb : host_above hp hpo hd.
Variables (sch Z : list N) (ue hs he : N) (hi : host_internal) (pt : option N).
Notation FRONT := ((sch ++ [58]) ++ Z).
Notation Bu X q f := (qf_url (FRONT ++ X) (nlen sch) ue hs he hi pt (nlen FRONT) q f).
Hypothesis Hsc : scheme_canon sch = true.
Hypothesis Hst : scheme_type_of sch = STSpecialNotFile.

Theorem rel_sp_out l c r segs last q f u : usv_list l -> inp_next l = Some (c, r) -> (c =? 63) = false -> (c =? 35) = false ->
  forallb good_seg_sp segs = true -> good_seg_sp last = true ->
  parse_relative dbg hp hpo hd None CUrlParser STSpecialNotFile (Bu (path_text segs last) q f) l = POk u ->
  (exists ui h pt' p' q' f', auth_ok hp hpo hd STSpecialNotFile sch ui h pt' p' q' f' /\ pth_ok_sp p'
                             /\ u = auth_url hd sch ui h pt' p' q' f')
  \/ (exists segs' last' l', usv_list l' /\ forallb good_seg_sp segs' = true /\ good_seg_sp last' = true /\
        with_query_and_fragment None CUrlParser STSpecialNotFile (nlen sch) ue hs he hi pt (nlen FRONT)
          (FRONT ++ path_text segs' last') (cbb_rest l') = POk u).
Proof.
  intros Hl En E63 E35 Hsg Hla H. pose proof (inp_next_usv l c r Hl En) as Hr.
  unfold parse_relative, inp_split_first in H. rewrite En in H. rewrite E63, E35 in H. cbn [st_is_special] in H.
  rewrite andb_true_r in H.
  change (scheme_end (Bu (path_text segs last) q f)) with (nlen sch) in H.
  change (path_start (Bu (path_text segs last) q f)) with (nlen FRONT) in H.
  cbn [username_end host_start host_end hosti port qf_url] in H.
  destruct ((c =? 47) || (c =? 92)) eqn:Esl.
  - destruct (inp_count_matching (fun d : N => (d =? 47) || (d =? 92) && true) l) as [sl rm] eqn:Ec.
    destruct (2 <=? sl).
    + (* scheme-relative *)
      left. match type of H with context [dassert ?d ?cc] => destruct (dassert d cc) end; cbn [pbind] in H; try discriminate H.
      cbn [negb] in H. rewrite (frame_colon sch Z ue hs he hi pt) in H.
      exact (ads_out_sp dbg hp hpo hd HRT HAb sch rm u Hsc Hst (count_matching_usv _ _ _ _ Hl Ec) H).
    + (* path-absolute *)
      right. rewrite (frame_front sch Z ue hs he hi pt) in H. unfold parse_path in H.
      destruct (parse_path_loop dbg CUrlParser STSpecialNotFile (nlen FRONT) r (FRONT ++ [47]) (nlen (FRONT ++ [47])) [] true)
        as [[[s hh] rest]| |] eqn:El; cbn [pbind] in H; try discriminate H.
      rewrite (Bs_nil FRONT) in El. rewrite app_nil_r in El at 2.
      apply (loop_inv_sp FRONT dbg r [] [] [] true s hh rest Hr (pend_nil_ok)) in El; try reflexivity.
      destruct El as (segs' & last' & -> & Hs' & Hl' & _ & ->).
      exists segs', last', r. rewrite Bs_path. repeat split; assumption.
  - (* path-relative *)
    right. apply orb_false_iff in Esl. destruct Esl as [E47 _]. rewrite before_query_qf in H.
    rewrite (pop_path_pth STSpecialNotFile FRONT segs last eq_refl (good_seg_no_slash last (good_seg_sp_good last Hla))) in H.
    cbn [pbind] in H. pose proof (Bs_len_ge FRONT segs) as L.
    replace (nlen (Bs FRONT segs) =? nlen FRONT) with false in H by lia. cbn [andb] in H.
    rewrite (split_first_not47 c r _ _ E47) in H.
    unfold parse_path in H.
    destruct (parse_path_loop dbg CUrlParser STSpecialNotFile (nlen FRONT) l (Bs FRONT segs) (nlen (Bs FRONT segs)) [] true)
      as [[[s hh] rest]| |] eqn:El; cbn [pbind] in H; try discriminate H.
    rewrite <- (app_nil_r (Bs FRONT segs)) in El at 1.
    apply (loop_inv_sp FRONT dbg l segs [] [] true s hh rest Hl (pend_nil_ok)) in El; try reflexivity; try assumption.
    destruct El as (segs' & last' & -> & Hs' & Hl' & _ & ->).
    exists segs', last', l. rewrite Bs_path. repeat split; assumption.
Qed.
End RelSP.

(* ================= with_query_and_fragment behind the new path ================= *)
Lemma opt47 {A} c (X Y : A) : (c =? 47) = false -> match Some c with Some 47 => X | _ => Y end = Y.
Proof.
  intros H. destruct c as [|p]; [reflexivity|]. do 6 (destruct p as [p|p|]; try reflexivity). discriminate H.
Qed.

(* base without authority whose serialization carries the "/." marker: the marker is kept when the new path starts
   with "//" and removed otherwise - the same result as for a base without marker *)
Lemma wqf_noauth_marker_eq ovr sch T rest : starts_with [47] T = true ->
  let a := nlen (sch ++ [58]) in
  with_query_and_fragment ovr CUrlParser STNotSpecial (nlen sch) a a a HI_None None (nlen ((sch ++ [58]) ++ [47; 46]))
    (((sch ++ [58]) ++ [47; 46]) ++ T) rest
  = (' (s2, qs, fs) <~ parse_query_and_fragment ovr CUrlParser STNotSpecial (nlen sch) (noauth_pre sch T) rest ;;
     POk (mkUrl s2 (nlen sch) a a a HI_None None (a + nlen (marker_of T)) qs fs)).
Proof.
  intros HT a. destruct T as [|t0 T']; [discriminate|]. cbn [starts_with] in HT. rewrite andb_true_r in HT.
  apply N.eqb_eq in HT. subst t0.
  assert (nlen ((sch ++ [58]) ++ [47; 46]) = nlen sch + 3) as Eps by (rewrite !nlen_app; unfold nlen; cbn [length]; lia).
  assert (a = nlen sch + 1) as Ea by (unfold a; rewrite nlen_app; unfold nlen; cbn [length]; lia).
  unfold with_query_and_fragment. rewrite Eps.
  replace (nlen sch + 3 =? nlen sch + 1) with false by lia. rewrite N.eqb_refl.
  replace (nlen sch + 3 - nlen sch) with 3 by lia. cbn [andb].
  set (S0 := ((sch ++ [58]) ++ [47; 46]) ++ 47 :: T').
  assert (S0 = sch ++ 58 :: 47 :: 46 :: 47 :: T') as ES0 by (unfold S0; rewrite <- !app_assoc; reflexivity).
  assert (nskipn (nlen sch) S0 = 58 :: 47 :: 46 :: 47 :: T') as Esk by (rewrite ES0; apply nskipn_app_len).
  rewrite Esk. change (list_eqb (nfirstn 3 (58 :: 47 :: 46 :: 47 :: T')) [58; 47; 46]) with true. cbv iota.
  assert (nskipn (nlen sch + 3) S0 = 47 :: T') as Esk3.
  { unfold S0. rewrite <- Eps. apply nskipn_app_len. }
  assert (nnth S0 (nlen sch + 3) = Some 47) as ->.
  { rewrite <- (N.add_0_r (nlen sch + 3)). rewrite <- nnth_nskipn. rewrite Esk3. reflexivity. }
  cbn [passert pbind N.eqb Pos.eqb].
  assert (nnth S0 (nlen sch + 3 + 1) = nnth T' 0) as ->.
  { rewrite <- nnth_nskipn. rewrite Esk3. reflexivity. }
  assert (nfirstn (nlen sch) S0 = sch) as Efs by (rewrite ES0; apply nfirstn_app_len).
  unfold noauth_pre, marker_of.
  destruct T' as [|c T'']; [|destruct (c =? 47) eqn:E47].
  - change (nnth [] 0) with (@None N). cbv iota. rewrite Efs, Esk3.
    assert (nskipn (nlen sch) (sch ++ [58] ++ [47]) = [58; 47]) as -> by apply nskipn_app_len.
    cbn [starts_with s_css s_ss]. rewrite !N.eqb_refl. cbn [andb negb passert pbind app].
    rewrite <- !app_assoc. cbn [app nlen length]. rewrite N.add_0_r. replace (nlen sch + 3 - 2) with a by lia. reflexivity.
  - apply N.eqb_eq in E47. subst c. change (nnth (47 :: T'') 0) with (Some 47). cbv iota.
    rewrite Esk. cbn [starts_with s_css s_ss]. rewrite !N.eqb_refl.
    replace (47 =? 46) with false by reflexivity. cbn [andb negb passert pbind app].
    replace (a + nlen [47; 46]) with (nlen sch + 3) by (rewrite Ea; unfold nlen; cbn [length]; lia).
    unfold S0. rewrite <- !app_assoc. reflexivity.
  - change (nnth (c :: T'') 0) with (Some c). cbv iota.
    assert (forall (A : Type) (X Y : A), match c with 47 => X | _ => Y end = Y) as M47.
    { intros A X Y. destruct c as [|p]; [reflexivity|]. do 6 (destruct p as [p|p|]; try reflexivity). discriminate E47. }
    rewrite M47. rewrite Efs, Esk3.
    assert (nskipn (nlen sch) (sch ++ [58] ++ 47 :: c :: T'') = 58 :: 47 :: c :: T'') as -> by apply nskipn_app_len.
    cbn [starts_with s_css s_ss]. rewrite !N.eqb_refl. rewrite (N.eqb_sym 47 c), E47.
    cbn [andb negb passert pbind app].
    rewrite <- !app_assoc. cbn [app nlen length]. rewrite N.add_0_r. replace (nlen sch + 3 - 2) with a by lia. reflexivity.
Qed.
