(* Proofs/C02_JoinPath.v - G1, third part: the path arms of the relative state on a canonical hierarchical base.
   A scheme-less reference whose first character (after trimming and tab/newline removal) is neither '?' nor '#':
     - two or more slashes (back-slashes too for a special base): scheme-relative, the authority state runs behind
       scheme ':' exactly as in a parse without base (ads_out / ads_out_sp);
     - one slash: path-absolute, the path state runs behind everything in front of the base's path;
     - anything else: path-relative, the base's last segment is popped and the path state runs behind the rest.
   In the last two arms the serialization the path state starts from has the shape  FRONT '/' seg '/' ... seg '/'
   (Bs FRONT segs) with canonical segments, so the loop invariants of C02_PathL1 / C02_PathSp give a canonical path
   text; what remains is with_query_and_fragment (marker handling for bases without authority) - left to the callers
   as an equation. *)
From RU Require Import Base.Prelude Base.Utf8 Base.Utf8Facts Model.AsciiSet Gen.Tables
  Model.PercentEncoding Model.HostT Model.UrlRecord Model.Parser Model.Setters Model.WF
  Proofs.ListN Proofs.C06_List Proofs.C14_Set Proofs.C14_Enc Proofs.C02_Enc Proofs.C02_Parts
  Proofs.C02_Opaque Proofs.C02_Path Proofs.C02_PathL1 Proofs.C02_Reach Proofs.C02_AuthParts
  Proofs.C02_Auth Proofs.C02_AuthWf Proofs.C02_PathSp Proofs.C02_AuthSp Proofs.C02_AuthMain Proofs.C02_SetQF
  Proofs.C02_Canon Proofs.C02_JoinTail.
Open Scope N_scope.
Open Scope list_scope.

Lemma split_first_not47 {A} c (r : list N) (X : list N -> A) (Y : A) : (c =? 47) = false ->
  match (Some c, r) with (Some 47, remaining) => X remaining | _ => Y end = Y.
Proof.
  intros H. destruct c as [|p]; [reflexivity|]. do 6 (destruct p as [p|p|]; try reflexivity). discriminate H.
Qed.

Lemma Bs_nil pre : pre ++ [47] = Bs pre [] ++ [].
Proof. unfold Bs. cbn [segs_text map concat]. rewrite !app_nil_r. reflexivity. Qed.

Lemma Bs_path pre segs last : pre ++ path_text segs last = Bs pre segs ++ last.
Proof. unfold Bs, path_text. rewrite <- !app_assoc. reflexivity. Qed.

Lemma segs_text_ends segs : segs = [] \/ exists X, segs_text segs = X ++ [47].
Proof.
  destruct (rev segs) as [|t r] eqn:E.
  - left. rewrite <- (rev_involutive segs), E. reflexivity.
  - right. assert (segs = rev r ++ [t]) as -> by (rewrite <- (rev_involutive segs), E; reflexivity).
    rewrite segs_text_snoc. exists (segs_text (rev r) ++ t). rewrite <- app_assoc. reflexivity.
Qed.

(* pop_path on  FRONT ++ path : the last segment goes, the '/' in front of it stays *)
Lemma pop_path_pth st FRONT segs last : st_is_file st = false -> no_slash last = true ->
  pop_path st (nlen FRONT) (FRONT ++ path_text segs last) = POk (Bs FRONT segs).
Proof.
  intros Hf Hl. unfold pop_path. rewrite nlen_app.
  replace (nlen FRONT <? nlen FRONT + nlen (path_text segs last)) with true
    by (unfold path_text, nlen; cbn [length]; lia).
  rewrite nskipn_app_len.
  set (T := [47] ++ segs_text segs).
  assert (path_text segs last = T ++ last) as ET by (unfold T, path_text; reflexivity). rewrite ET.
  assert (exists Y, T = Y ++ [47] /\ nlen Y + 1 = nlen T) as (Y & EY & LY).
  { unfold T. destruct (segs_text_ends segs) as [-> | [X EX]].
    - exists []. split; reflexivity.
    - exists ([47] ++ X). rewrite EX. split; [rewrite <- app_assoc; reflexivity | len_lia]. }
  assert (rfind 47 (T ++ last) = Some (nlen Y)) as ->.
  { rewrite EY, <- app_assoc. cbn [app]. apply rfind_app_last. exact Hl. }
  rewrite Hf. cbn [andb]. f_equal. unfold truncate.
  replace (nlen FRONT + nlen Y + 1) with (nlen (FRONT ++ T)) by (rewrite nlen_app; lia).
  rewrite app_assoc. rewrite nfirstn_app_len. unfold Bs, T. rewrite <- !app_assoc. reflexivity.
Qed.

Lemma pop_path_empty st FRONT : pop_path st (nlen FRONT) FRONT = POk FRONT.
Proof. unfold pop_path. replace (nlen FRONT <? nlen FRONT) with false by lia. reflexivity. Qed.

Lemma good_seg_no_slash s : good_seg s = true -> no_slash s = true.
Proof. intros H. exact (proj1 (proj2 (good_seg_parts s H))). Qed.

Section Frame.
Variables (sch Z : list N) (ue hs he : N) (hi : host_internal) (pt : option N).
Notation FRONT := ((sch ++ [58]) ++ Z).
Notation Bu X q f := (qf_url (FRONT ++ X) (nlen sch) ue hs he hi pt (nlen FRONT) q f).

Lemma frame_colon X q f : nfirstn (nlen sch + 1) (ser (Bu X q f)) = sch ++ [58].
Proof.
  unfold qf_url. cbn [ser]. rewrite <- !app_assoc. rewrite (app_assoc sch [58]).
  replace (nlen sch + 1) with (nlen (sch ++ [58])) by (rewrite nlen_app; reflexivity). apply nfirstn_app_len.
Qed.

Lemma frame_front X q f : nfirstn (nlen FRONT) (ser (Bu X q f)) = FRONT.
Proof. unfold qf_url. cbn [ser]. rewrite <- (app_assoc ((sch ++ [58]) ++ Z) X (qf_text q f)). apply nfirstn_app_len. Qed.

Lemma frame_scheme X q f : b_scheme (Bu X q f) = sch.
Proof.
  apply b_scheme_qf; [rewrite <- !app_assoc; apply nfirstn_app_len | rewrite !nlen_app; lia].
Qed.
End Frame.

(* ================= non-special base ================= *)
Section RelNS.
Variable dbg : bool.
Variable hp hpo : list N -> result host.
Variable hd : host -> list N.
Hypothesis HRT : HostRT hp hpo hd.
Hypothesis HAb : host_above hp hpo hd.
Variable ovr : option (list N -> list N).
Variables (sch Z : list N) (ue hs he : N) (hi : host_internal) (pt : option N).
Notation FRONT := ((sch ++ [58]) ++ Z).
Notation Bu X q f := (qf_url (FRONT ++ X) (nlen sch) ue hs he hi pt (nlen FRONT) q f).
Hypothesis Hsc : scheme_canon sch = true.
Hypothesis Hst : scheme_type_of sch = STNotSpecial.

Theorem rel_ns_out l c r p q f u : usv_list l -> inp_next l = Some (c, r) -> (c =? 63) = false -> (c =? 35) = false ->
  pth_ok p ->
  parse_relative dbg hp hpo hd ovr CUrlParser STNotSpecial (Bu (pth_text p) q f) l = POk u ->
  (exists ui h pt' p' q' f', auth_ok hp hpo hd STNotSpecial sch ui h pt' p' q' f' /\ u = auth_url hd sch ui h pt' p' q' f')
  \/ (exists segs' last' l', usv_list l' /\ forallb good_seg segs' = true /\ good_seg last' = true /\
        with_query_and_fragment ovr CUrlParser STNotSpecial (nlen sch) ue hs he hi pt (nlen FRONT)
          (FRONT ++ path_text segs' last') (cbb_rest l') = POk u).
Proof.
  intros Hl En E63 E35 Hp H. pose proof (inp_next_usv l c r Hl En) as Hr.
  unfold parse_relative, inp_split_first in H. rewrite En in H. rewrite E63, E35 in H. cbn [st_is_special] in H.
  rewrite andb_false_r, orb_false_r in H.
  change (scheme_end (Bu (pth_text p) q f)) with (nlen sch) in H.
  change (path_start (Bu (pth_text p) q f)) with (nlen FRONT) in H.
  cbn [username_end host_start host_end hosti port qf_url] in H.
  destruct (c =? 47) eqn:E47.
  - destruct (inp_count_matching (fun d : N => (d =? 47) || (d =? 92) && false) l) as [sl rm] eqn:Ec.
    destruct (2 <=? sl).
    + (* scheme-relative *)
      left. match type of H with context [dassert ?d ?cc] => destruct (dassert d cc) end; cbn [pbind] in H; try discriminate H.
      cbn [negb] in H. rewrite (frame_colon sch Z ue hs he hi pt) in H.
      destruct (inp_split_prefix_str s_ss l) as [ap|] eqn:Es.
      * exact (ads_out dbg hp hpo hd HRT HAb ovr sch ap u Hsc Hst (split_prefix_str_usv _ _ _ Hl Es) H).
      * exact (ads_out dbg hp hpo hd HRT HAb ovr sch rm u Hsc Hst (count_matching_usv _ _ _ _ Hl Ec) H).
    + (* path-absolute *)
      right. rewrite (frame_front sch Z ue hs he hi pt) in H. unfold parse_path in H.
      destruct (parse_path_loop dbg CUrlParser STNotSpecial (nlen FRONT) r (FRONT ++ [47]) (nlen (FRONT ++ [47])) [] true)
        as [[[s hh] rest]| |] eqn:El; cbn [pbind] in H; try discriminate H.
      rewrite (Bs_nil FRONT) in El. rewrite app_nil_r in El at 2.
      apply (loop_inv FRONT dbg r [] [] [] true s hh rest Hr) in El; try reflexivity.
      2:{ split; [constructor | reflexivity]. }
      destruct El as (segs' & last' & -> & Hs' & Hl' & _ & ->).
      exists segs', last', r. rewrite Bs_path. repeat split; assumption.
  - (* path-relative *)
    right. rewrite before_query_qf in H.
    assert (exists segs0, forallb good_seg segs0 = true /\
              (' (s1) <~ pop_path STNotSpecial (nlen FRONT) (FRONT ++ pth_text p) ;;
               POk (if (nlen s1 =? nlen FRONT) && (st_is_special (scheme_type_of (b_scheme (Bu (pth_text p) q f))) || negb (inp_is_empty l))
                    then s1 ++ [47] else s1)) = POk (Bs FRONT segs0)) as (segs0 & Hs0 & Epop).
    { destruct p as [[segs last]|]; cbn [pth_text pth_ok] in *.
      - destruct Hp as [Hsg Hla]. exists segs. split; [exact Hsg|].
        rewrite (pop_path_pth STNotSpecial FRONT segs last eq_refl (good_seg_no_slash last Hla)). cbn [pbind].
        pose proof (Bs_len_ge FRONT segs) as L. replace (nlen (Bs FRONT segs) =? nlen FRONT) with false by lia. reflexivity.
      - exists []. split; [reflexivity|]. rewrite app_nil_r, pop_path_empty. cbn [pbind]. rewrite N.eqb_refl.
        unfold inp_is_empty. rewrite En. cbn [negb]. rewrite orb_true_r. cbn [andb]. rewrite Bs_nil, app_nil_r. reflexivity. }
    destruct (pop_path STNotSpecial (nlen FRONT) (FRONT ++ pth_text p)) as [s1| |]; cbn [pbind] in *; try discriminate Epop.
    injection Epop as Epop. rewrite Epop in H. rewrite (split_first_not47 c r _ _ E47) in H.
    unfold parse_path in H.
    destruct (parse_path_loop dbg CUrlParser STNotSpecial (nlen FRONT) l (Bs FRONT segs0) (nlen (Bs FRONT segs0)) [] true)
      as [[[s hh] rest]| |] eqn:El; cbn [pbind] in H; try discriminate H.
    rewrite <- (app_nil_r (Bs FRONT segs0)) in El at 1.
    apply (loop_inv FRONT dbg l segs0 [] [] true s hh rest Hl) in El; try reflexivity; try assumption.
    2:{ split; [constructor | reflexivity]. }
    destruct El as (segs' & last' & -> & Hs' & Hl' & _ & ->).
    exists segs', last', l. rewrite Bs_path. repeat split; assumption.
Qed.
End RelNS.

(* ================= special (non-file) base ================= *)
Section RelSP.
Variable dbg : bool.
Variable hp hpo : list N -> result host.
Variable hd : host -> list N.
Hypothesis HRT : HostRT hp hpo hd.
Hypothesis HAb : host_above hp hpo hd.
Variables (sch Z : list N) (ue hs he : N) (hi : host_internal) (pt : option N).
Notation FRONT := ((sch ++ [58]) ++ Z).
Notation Bu X q f := (qf_url (FRONT ++ X) (nlen sch) ue hs he hi pt (nlen FRONT) q f).
Hypothesis Hsc : scheme_canon sch = true.
Hypothesis Hst : scheme_type_of sch = STSpecialNotFile.

Theorem rel_sp_out l c r segs last q f u : usv_list l -> inp_next l = Some (c, r) -> (c =? 63) = false -> (c =? 35) = false ->
  forallb good_seg_sp segs = true -> good_seg_sp last = true ->
  parse_relative dbg hp hpo hd None CUrlParser STSpecialNotFile (Bu (path_text segs last) q f) l = POk u ->
  (exists ui h pt' p' q' f', auth_ok hp hpo hd STSpecialNotFile sch ui h pt' p' q' f' /\ pth_ok_sp p'
                             /\ u = auth_url hd sch ui h pt' p' q' f')
  \/ (exists segs' last' l', usv_list l' /\ forallb good_seg_sp segs' = true /\ good_seg_sp last' = true /\
        with_query_and_fragment None CUrlParser STSpecialNotFile (nlen sch) ue hs he hi pt (nlen FRONT)
          (FRONT ++ path_text segs' last') (cbb_rest l') = POk u).
Proof.
  intros Hl En E63 E35 Hsg Hla H. pose proof (inp_next_usv l c r Hl En) as Hr.
  unfold parse_relative, inp_split_first in H. rewrite En in H. rewrite E63, E35 in H. cbn [st_is_special] in H.
  rewrite andb_true_r in H.
  change (scheme_end (Bu (path_text segs last) q f)) with (nlen sch) in H.
  change (path_start (Bu (path_text segs last) q f)) with (nlen FRONT) in H.
  cbn [username_end host_start host_end hosti port qf_url] in H.
  destruct ((c =? 47) || (c =? 92)) eqn:Esl.
  - destruct (inp_count_matching (fun d : N => (d =? 47) || (d =? 92) && true) l) as [sl rm] eqn:Ec.
    destruct (2 <=? sl).
    + (* scheme-relative *)
      left. match type of H with context [dassert ?d ?cc] => destruct (dassert d cc) end; cbn [pbind] in H; try discriminate H.
      cbn [negb] in H. rewrite (frame_colon sch Z ue hs he hi pt) in H.
      exact (ads_out_sp dbg hp hpo hd HRT HAb sch rm u Hsc Hst (count_matching_usv _ _ _ _ Hl Ec) H).
    + (* path-absolute *)
      right. rewrite (frame_front sch Z ue hs he hi pt) in H. unfold parse_path in H.
      destruct (parse_path_loop dbg CUrlParser STSpecialNotFile (nlen FRONT) r (FRONT ++ [47]) (nlen (FRONT ++ [47])) [] true)
        as [[[s hh] rest]| |] eqn:El; cbn [pbind] in H; try discriminate H.
      rewrite (Bs_nil FRONT) in El. rewrite app_nil_r in El at 2.
      apply (loop_inv_sp FRONT dbg r [] [] [] true s hh rest Hr (pend_nil_ok)) in El; try reflexivity.
      destruct El as (segs' & last' & -> & Hs' & Hl' & _ & ->).
      exists segs', last', r. rewrite Bs_path. repeat split; assumption.
  - (* path-relative *)
    right. apply orb_false_iff in Esl. destruct Esl as [E47 _]. rewrite before_query_qf in H.
    rewrite (pop_path_pth STSpecialNotFile FRONT segs last eq_refl (good_seg_no_slash last (good_seg_sp_good last Hla))) in H.
    cbn [pbind] in H. pose proof (Bs_len_ge FRONT segs) as L.
    replace (nlen (Bs FRONT segs) =? nlen FRONT) with false in H by lia. cbn [andb] in H.
    rewrite (split_first_not47 c r _ _ E47) in H.
    unfold parse_path in H.
    destruct (parse_path_loop dbg CUrlParser STSpecialNotFile (nlen FRONT) l (Bs FRONT segs) (nlen (Bs FRONT segs)) [] true)
      as [[[s hh] rest]| |] eqn:El; cbn [pbind] in H; try discriminate H.
    rewrite <- (app_nil_r (Bs FRONT segs)) in El at 1.
    apply (loop_inv_sp FRONT dbg l segs [] [] true s hh rest Hl (pend_nil_ok)) in El; try reflexivity; try assumption.
    destruct El as (segs' & last' & -> & Hs' & Hl' & _ & ->).
    exists segs', last', l. rewrite Bs_path. repeat split; assumption.
Qed.
End RelSP.

(* ================= with_query_and_fragment behind the new path ================= *)
(* base without authority whose serialization carries the "/." marker: the marker is kept when the new path starts
   with "//" and removed otherwise - the same result as for a base without marker *)
Lemma wqf_noauth_marker_eq ovr sch T rest : starts_with [47] T = true ->
  let a := nlen (sch ++ [58]) in
  with_query_and_fragment ovr CUrlParser STNotSpecial (nlen sch) a a a HI_None None (nlen ((sch ++ [58]) ++ [47; 46]))
    (((sch ++ [58]) ++ [47; 46]) ++ T) rest
  = (' (s2, qs, fs) <~ parse_query_and_fragment ovr CUrlParser STNotSpecial (nlen sch) (noauth_pre sch T) rest ;;
     POk (mkUrl s2 (nlen sch) a a a HI_None None (a + nlen (marker_of T)) qs fs)).
Proof.
  intros HT a. destruct T as [|t0 T']; [discriminate|]. cbn [starts_with] in HT. rewrite andb_true_r in HT.
  apply N.eqb_eq in HT. subst t0.
  assert (nlen ((sch ++ [58]) ++ [47; 46]) = nlen sch + 3) as Eps by (rewrite !nlen_app; unfold nlen; cbn [length]; lia).
  assert (a = nlen sch + 1) as Ea by (unfold a; rewrite nlen_app; unfold nlen; cbn [length]; lia).
  unfold with_query_and_fragment. rewrite Eps.
  replace (nlen sch + 3 =? nlen sch + 1) with false by lia. rewrite N.eqb_refl.
  replace (nlen sch + 3 - nlen sch) with 3 by lia. cbn [andb].
  set (S0 := ((sch ++ [58]) ++ [47; 46]) ++ 47 :: T').
  assert (S0 = sch ++ 58 :: 47 :: 46 :: 47 :: T') as ES0 by (unfold S0; rewrite <- !app_assoc; reflexivity).
  assert (nskipn (nlen sch) S0 = 58 :: 47 :: 46 :: 47 :: T') as Esk by (rewrite ES0; apply nskipn_app_len).
  rewrite Esk. change (list_eqb (nfirstn 3 (58 :: 47 :: 46 :: 47 :: T')) [58; 47; 46]) with true. cbv iota.
  assert (nskipn (nlen sch + 3) S0 = 47 :: T') as Esk3.
  { unfold S0. rewrite <- Eps. apply nskipn_app_len. }
  assert (nnth S0 (nlen sch + 3) = Some 47) as ->.
  { rewrite <- (N.add_0_r (nlen sch + 3)). rewrite <- nnth_nskipn. rewrite Esk3. reflexivity. }
  cbn [passert pbind N.eqb Pos.eqb].
  assert (nnth S0 (nlen sch + 3 + 1) = nnth T' 0) as ->.
  { rewrite <- nnth_nskipn. rewrite Esk3. reflexivity. }
  assert (nfirstn (nlen sch) S0 = sch) as Efs by (rewrite ES0; apply nfirstn_app_len).
  unfold noauth_pre, marker_of.
  destruct T' as [|c T'']; [|destruct (c =? 47) eqn:E47].
  - change (nnth [] 0) with (@None N). cbv iota. rewrite Efs, Esk3.
    assert (nskipn (nlen sch) (sch ++ [58] ++ [47]) = [58; 47]) as -> by apply nskipn_app_len.
    cbn [starts_with s_css s_ss]. rewrite !N.eqb_refl. cbn [andb negb passert pbind app].
    rewrite <- !app_assoc. cbn [app nlen length]. rewrite N.add_0_r. replace (nlen sch + 3 - 2) with a by lia. reflexivity.
  - apply N.eqb_eq in E47. subst c. change (nnth (47 :: T'') 0) with (Some 47). cbv iota.
    rewrite Esk. cbn [starts_with s_css s_ss]. rewrite !N.eqb_refl.
    replace (47 =? 46) with false by reflexivity. cbn [andb negb passert pbind app].
    replace (a + nlen [47; 46]) with (nlen sch + 3) by (rewrite Ea; unfold nlen; cbn [length]; lia).
    unfold S0. rewrite <- !app_assoc. reflexivity.
  - change (nnth (c :: T'') 0) with (Some c). cbv iota.
    assert (forall (A : Type) (X Y : A), match c with 47 => X | _ => Y end = Y) as M47.
    { intros A X Y. destruct c as [|p]; [reflexivity|]. do 6 (destruct p as [p|p|]; try reflexivity). discriminate E47. }
    rewrite M47. rewrite Efs, Esk3.
    assert (nskipn (nlen sch) (sch ++ [58] ++ 47 :: c :: T'') = 58 :: 47 :: c :: T'') as -> by apply nskipn_app_len.
    cbn [starts_with s_css s_ss]. rewrite !N.eqb_refl. rewrite (N.eqb_sym 47 c), E47.
    cbn [andb negb passert pbind app].
    rewrite <- !app_assoc. cbn [app nlen length]. rewrite N.add_0_r. replace (nlen sch + 3 - 2) with a by lia. reflexivity.
Qed.

(* ================= the join theorem ================= *)
(* every reference without a scheme *)
Definition rel_ref (input : list N) : bool :=
  match parse_scheme CUrlParser (input_new_trim_c0 input) with Some _ => false | None => true end.

Section JoinPath.
Variable dbg : bool.
Variable hp hpo : list N -> result host.
Variable hd : host -> list N.
Hypothesis HRT : HostRT hp hpo hd.
Hypothesis HAb : host_above hp hpo hd.

Notation auth_ok := (auth_ok hp hpo hd).
Notation auth_url := (auth_url hd).
Notation auth_front := (auth_front hd).
Notation Canon := (Canon hp hpo hd).

Lemma auth_front_Z sch ui h pt : auth_front sch ui h pt = (sch ++ [58]) ++ (47 :: 47 :: ui_text ui ++ hd h ++ port_text pt).
Proof. unfold C02_Auth.auth_front. rewrite <- !app_assoc. reflexivity. Qed.

(* with_query_and_fragment behind a new canonical path of a record with authority *)
Lemma auth_wqf st ovr sch ui h pt p q f p' rest u : auth_ok st sch ui h pt p q f ->
  pth_ok p' -> usv_list rest -> (ovr = None \/ st = STNotSpecial) ->
  with_query_and_fragment ovr CUrlParser st (nlen sch) (nlen sch + 3 + ui_ulen ui) (nlen sch + 3 + nlen (ui_text ui))
     (nlen sch + 3 + nlen (ui_text ui) + nlen (hd h)) (hi_of_host h) pt (nlen (auth_front sch ui h pt))
     (auth_front sch ui h pt ++ pth_text p') rest = POk u ->
  exists q' f', auth_ok st sch ui h pt p' q' f' /\ u = auth_url sch ui h pt p' q' f'.
Proof.
  intros K Hp' Hr Hov. rewrite wqf_auth; [|rewrite front_len; lia | apply front_css].
  destruct (parse_query_and_fragment ovr CUrlParser st (nlen sch) (auth_front sch ui h pt ++ pth_text p') rest)
    as [[[s4 qs] fs]| |] eqn:E4; cbn [pbind]; try discriminate.
  apply pqf_out in E4; [|exact Hr|].
  2:{ rewrite <- app_assoc. rewrite front_sch. destruct Hov as [-> | ->]; [reflexivity|].
      apply query_enc_nonspecial. exact (ak_st _ _ _ _ _ _ _ _ _ _ _ K). }
  destruct E4 as (-> & -> & -> & Bq & Bf & Cq & Cf). intros H. inversion H; subst u. clear H.
  exists (pqf_q st rest), (pqf_f rest). split; [|reflexivity].
  destruct K as [Ksch Kst Kui Kh Kemp Kpt Kp Kq Kf Kb Kbq Kbf]. constructor; assumption.
Qed.

Theorem join_rel_Canon ovr b input u : Canon b -> usv_list input -> rel_ref input = true ->
  (ovr = None \/ st_is_special (scheme_type_of (b_scheme b)) = false) ->
  parse_url dbg hp hpo hd ovr (Some b) input = POk u -> Canon u.
Proof.
  intros Cb Hu Hr Hov Hp.
  destruct (tail_ref input) eqn:Et; [exact (join_tail_Canon dbg hp hpo hd HRT ovr b input u Cb Hu Et Hov Hp)|].
  pose proof (trim_usv input Hu) as Hl. unfold rel_ref in Hr. unfold tail_ref in Et. unfold parse_url in Hp.
  set (l := input_new_trim_c0 input) in *.
  destruct (parse_scheme CUrlParser l) as [[s0 r0]|]; [discriminate|].
  destruct (inp_next l) as [[c r]|] eqn:En; [|discriminate].
  apply orb_false_iff in Et. destruct Et as [E35 E63].
  unfold inp_starts_with_char in Hp. rewrite En, E35 in Hp.
  destruct Cb as [sch P q f K | sch segs last q f K | sch ui h pt p q f K | sch ui h pt p q f K Kp].
  - rewrite (opaque_url_cbb sch P q f K) in Hp. discriminate.
  - (* base without authority *)
    rewrite (proj1 (proj2 (noauth_url_wf sch segs last q f K))) in Hp.
    destruct K as [Ksch Kns Ksegs Klast Kq Kf Kb1 Kbq Kbf].
    set (T := path_text segs last) in *. set (a := nlen (sch ++ [58])) in *.
    assert (noauth_url sch T q f
            = qf_url (((sch ++ [58]) ++ marker_of T) ++ T) (nlen sch) a a a HI_None None (nlen ((sch ++ [58]) ++ marker_of T)) q f) as EB.
    { rewrite noauth_url_qf. unfold noauth_pre. rewrite (nlen_app (sch ++ [58])). rewrite (app_assoc (sch ++ [58])). reflexivity. }
    rewrite EB in Hp. rewrite frame_scheme in Hp. rewrite Kns in Hp. cbn [st_is_file] in Hp.
    apply (rel_ns_out dbg hp hpo hd HRT HAb ovr sch (marker_of T) a a a HI_None None Ksch Kns l c r (Some (segs, last)) q f u
             Hl En E63 E35 (conj Ksegs Klast)) in Hp.
    destruct Hp as [(ui & h & pt' & p' & q' & f' & K' & ->) | (segs' & last' & l' & Hl' & Hs' & Hla' & Hw)];
      [exact (Canon_auth hp hpo hd sch ui h pt' p' q' f' K')|].
    assert ((' (s2, qs, fs) <~ parse_query_and_fragment ovr CUrlParser STNotSpecial (nlen sch)
                                 (noauth_pre sch (path_text segs' last')) (cbb_rest l') ;;
             POk (mkUrl s2 (nlen sch) a a a HI_None None (a + nlen (marker_of (path_text segs' last'))) qs fs)) = POk u) as Hw2.
    { rewrite <- Hw. symmetry. unfold marker_of at 1 2. destruct (starts_with s_ss T).
      - exact (wqf_noauth_marker_eq ovr sch (path_text segs' last') (cbb_rest l') eq_refl).
      - rewrite !app_nil_r. exact (wqf_noauth_eq hp hpo ovr sch (path_text segs' last') (cbb_rest l') eq_refl). }
    clear Hw. set (T' := path_text segs' last') in *.
    destruct (parse_query_and_fragment ovr CUrlParser STNotSpecial (nlen sch) (noauth_pre sch T') (cbb_rest l'))
      as [[[s2 qs] fs]| |] eqn:Eq; cbn [pbind] in Hw2; try discriminate Hw2.
    inversion Hw2; subst u. clear Hw2.
    apply pqf_out in Eq; [|apply usv_cbb_rest; exact Hl'|].
    2:{ unfold noauth_pre. rewrite <- !app_assoc. rewrite nfirstn_app_len. apply query_enc_nonspecial. exact Kns. }
    destruct Eq as (-> & -> & -> & Bq & Bf & Cq & Cf).
    apply (Canon_noauth hp hpo hd sch segs' last' (pqf_q STNotSpecial (cbb_rest l')) (pqf_f (cbb_rest l'))).
    constructor; assumption.
  - (* base with authority, non-special scheme *)
    rewrite (proj2 (auth_url_wf hp hpo hd HRT _ _ _ _ _ _ _ _ K)) in Hp.
    rewrite auth_url_qf in Hp. unfold auth_pre in Hp. rewrite auth_front_Z in Hp.
    rewrite frame_scheme in Hp. rewrite (ak_st _ _ _ _ _ _ _ _ _ _ _ K) in Hp. cbn [st_is_file] in Hp.
    apply (rel_ns_out dbg hp hpo hd HRT HAb ovr sch _ _ _ _ _ _ (ak_sch _ _ _ _ _ _ _ _ _ _ _ K) (ak_st _ _ _ _ _ _ _ _ _ _ _ K)
             l c r p q f u Hl En E63 E35 (ak_p _ _ _ _ _ _ _ _ _ _ _ K)) in Hp.
    destruct Hp as [(ui' & h' & pt' & p' & q' & f' & K' & ->) | (segs' & last' & l' & Hl' & Hs' & Hla' & Hw)];
      [exact (Canon_auth hp hpo hd sch ui' h' pt' p' q' f' K')|].
    rewrite <- auth_front_Z in Hw.
    destruct (auth_wqf STNotSpecial ovr sch ui h pt p q f (Some (segs', last')) (cbb_rest l') u K (conj Hs' Hla')
                (usv_cbb_rest l' Hl') (or_intror eq_refl) Hw) as (q' & f' & K' & ->).
    exact (Canon_auth hp hpo hd sch ui h pt _ q' f' K').
  - (* special base *)
    rewrite (proj2 (auth_url_wf hp hpo hd HRT _ _ _ _ _ _ _ _ K)) in Hp.
    rewrite auth_url_qf in Hp, Hov. unfold auth_pre in Hp, Hov. rewrite auth_front_Z in Hp, Hov.
    rewrite frame_scheme in Hp, Hov. rewrite (ak_st _ _ _ _ _ _ _ _ _ _ _ K) in Hp, Hov. cbn [st_is_file st_is_special] in Hp, Hov.
    destruct Hov as [-> | Hov]; [|discriminate Hov].
    destruct p as [[segs last]|]; [|contradiction]. destruct Kp as [Ksegs Klast].
    apply (rel_sp_out dbg hp hpo hd HRT HAb sch _ _ _ _ _ _ (ak_sch _ _ _ _ _ _ _ _ _ _ _ K) (ak_st _ _ _ _ _ _ _ _ _ _ _ K)
             l c r segs last q f u Hl En E63 E35 Ksegs Klast) in Hp.
    destruct Hp as [(ui' & h' & pt' & p' & q' & f' & K' & Kp' & ->) | (segs' & last' & l' & Hl' & Hs' & Hla' & Hw)];
      [exact (Canon_special hp hpo hd sch ui' h' pt' p' q' f' K' Kp')|].
    rewrite <- auth_front_Z in Hw.
    destruct (auth_wqf STSpecialNotFile None sch ui h pt _ q f (Some (segs', last')) (cbb_rest l') u K
                (conj (good_segs_sp_good segs' Hs') (good_seg_sp_good last' Hla'))
                (usv_cbb_rest l' Hl') (or_introl eq_refl) Hw) as (q' & f' & K' & ->).
    exact (Canon_special hp hpo hd sch ui h pt _ q' f' K' (conj Hs' Hla')).
Qed.

Theorem join_rel_fixpoint ovr b input u : Canon b -> usv_list input -> rel_ref input = true ->
  (ovr = None \/ st_is_special (scheme_type_of (b_scheme b)) = false) ->
  parse_url dbg hp hpo hd ovr (Some b) input = POk u ->
  Fixpoint_of_reparse dbg hp hpo hd u /\ wf_b u = true /\ ascii (ser u).
Proof.
  intros Cb Hu Ht Hov Hp. apply (Canon_fixpoint dbg hp hpo hd HRT).
  exact (join_rel_Canon ovr b input u Cb Hu Ht Hov Hp).
Qed.
End JoinPath.

(* non-vacuity: the three path arms on a special base, on a base with authority (empty path), on a base without
   authority with and without the "/." marker (the marker goes when the new path does not start with "//") *)
From Coq Require Import String.
Definition ex_join (b r : String.string) (expect : String.string) : bool :=
  match parse_url true ex_hp ex_hp ex_hd None None (B b) with
  | POk bu => match parse_url true ex_hp ex_hp ex_hd None (Some bu) (B r) with
              | POk u => list_eqb (ser u) (B expect) && rel_ref (B r) && negb (tail_ref (B r))
              | _ => false end
  | _ => false
  end.

Open Scope string_scope.
Example join_path_examples :
  ex_join "http://h/p/q?q#f" "../x y" "http://h/x%20y" = true
  /\ ex_join "http://h/p/q?q#f" "\y/./z?k" "http://h/y/z?k" = true
  /\ ex_join "http://h/p/q?q#f" "/\h2/z" "http://h2/z" = true
  /\ ex_join "http://h/p/q?q#f" "a/../b/%2e#g" "http://h/p/b/#g" = true
  /\ ex_join "a://h" "x/y" "a://h/x/y" = true
  /\ ex_join "a://h/p" "//h2" "a://h2" = true
  /\ ex_join "a:/p/q" "../../..//x" "a:/.//x" = true
  /\ ex_join "a:/.//p/q" "r" "a:/.//p/r" = true
  /\ ex_join "a:/.//p/q" "/r" "a:/r" = true
  /\ ex_join "a:/.//p/q" "../../r" "a:/r" = true.
Proof. vm_compute. repeat split. Qed.
