(* Proofs/C04_CostFile.v - cost of the file-path conversions (url/src/lib.rs, cfg(unix): Url::from_file_path /
   from_directory_path / path_to_file_url_segments, Url::to_file_path / file_url_segments_to_pathbuf; model:
   Model/FilePath.v), task c04cost.
   Cost semantics of Model/Cost.v: Path::components() and split('/') examine every byte of their text once (size of the
   piece list), the percent-encoder and the percent-decoder are the twins pe_chunks_c / decode_c of Model/Cost.v (their
   counts include the bytes written), push = 1.  Step counts follow the data flow of the model.
     from_file_path_k p      <= 6 |p| + 10      (from_directory_path: two more steps)
     to_file_path_k u        <= 5 |u| + 14      in the length of the serialization
   Linear: every component / segment is encoded or decoded once. *)
From RU Require Import Base.Prelude Base.Utf8 Model.AsciiSet Gen.Tables Model.PercentEncoding Model.HostT Model.UrlRecord
  Model.Parser Model.Cost Model.FilePath Proofs.ListN.
From RU Require Import Proofs.C04_Cost Proofs.C04_CostMime Proofs.C04_CostRel.
From RU Require Proofs.C14_Views Proofs.C20_Path.

(* ---------------------------------------------------------------- Url::from_file_path *)
Fixpoint push_components_k (cs : list component) : N :=
  match cs with
  | [] => 1
  | c :: r => 2 + snd (pe_chunks_c T_SPECIAL_PATH_SEGMENT (component_bytes c)) + push_components_k r
  end.

Definition csize (cs : list component) : N := fold_right (fun c acc => nlen (component_bytes c) + 1 + acc) 0 cs.

Lemma push_components_k_le cs : push_components_k cs <= 5 * csize cs + 1.
Proof.
  induction cs as [|c r IH]; [cbn; lia|]. cbn [push_components_k csize fold_right]. fold (csize r).
  pose proof (pe_chunks_c_linear T_SPECIAL_PATH_SEGMENT (component_bytes c)). lia.
Qed.

Lemma component_of_piece_bytes c : component_bytes (component_of_piece c) = c.
Proof.
  unfold component_of_piece. destruct (piece_is_dotdot c) eqn:E; [|reflexivity].
  apply C20_Path.piece_is_dotdot_spec in E. subst c. reflexivity.
Qed.

Lemma csize_pieces ps : csize (map component_of_piece (filter keep_piece ps)) <= size ps.
Proof.
  induction ps as [|p r IH]; [cbn; lia|]. cbn [filter]. rewrite size_cons. destruct (keep_piece p); [|lia].
  cbn [map csize fold_right]. fold (csize (map component_of_piece (filter keep_piece r))).
  rewrite component_of_piece_bytes. lia.
Qed.

Definition from_file_path_k (p : list N) : N :=
  1 + (if path_is_absolute p then size (split_on 47 p) + push_components_k (tl (path_components p)) + 2 else 0).

Theorem from_file_path_k_le p : from_file_path_k p <= 6 * nlen p + 10.
Proof.
  unfold from_file_path_k. destruct (path_is_absolute p) eqn:E; [|lia].
  unfold path_components. rewrite E. cbn [tl]. rewrite size_split_on.
  pose proof (push_components_k_le (map component_of_piece (filter keep_piece (split_on 47 p)))) as H1.
  pose proof (csize_pieces (split_on 47 p)) as H2. rewrite size_split_on in H2. lia.
Qed.

(* ---------------------------------------------------------------- Url::to_file_path *)
Fixpoint push_decoded_k (segs : list (list N)) : N :=
  match segs with
  | [] => 1
  | s :: r => 2 + snd (decode_c s) + nlen (decode s) + push_decoded_k r
  end.
Lemma decode_len_le s : nlen (decode s) <= nlen s.
Proof.
  pose proof (proj1 (C14_Views.decode_length_bounds (length s) s (le_n _))). unfold nlen. lia.
Qed.
Lemma push_decoded_k_le segs : push_decoded_k segs <= 4 * size segs + 1.
Proof.
  induction segs as [|s r IH]; [cbn; lia|]. cbn [push_decoded_k]. rewrite size_cons.
  pose proof (decode_c_linear s). pose proof (decode_len_le s). lia.
Qed.

(* path_segments (the split iterator), the host test, the decoding loop, the drive-letter test and the assertion *)
Definition to_file_path_k (u : url) : N :=
  match path_segments u with
  | Some (Some segs) => size segs + 10 + push_decoded_k segs + 3
  | _ => 2
  end.

Lemma not47_match {A} (c : N) (r : list N) (f : list N -> A) (y : A) : c <> 47 ->
  match c :: r with 47 :: r' => f r' | _ => y end = y.
Proof.
  intros Hn. destruct c as [|c]; [reflexivity|].
  repeat (destruct c as [c|c|]; try reflexivity). exfalso. apply Hn. reflexivity.
Qed.

Lemma path_segments_size u segs : path_segments u = Some (Some segs) -> size segs <= nlen (ser u).
Proof.
  unfold path_segments. destruct (path u) as [p|] eqn:E; [|discriminate]. cbn [bindo].
  pose proof (path_len u p E) as H. destruct p as [|c r]; [discriminate|].
  destruct (N.eqb_spec c 47) as [->|Hn].
  - intros H1. inversion H1; subst. rewrite size_split_on. rewrite nlen_cons in H. lia.
  - rewrite (not47_match c r (fun r' => Some (Some (split_on 47 r'))) (Some None) Hn). discriminate.
Qed.

Theorem to_file_path_k_le u : to_file_path_k u <= 5 * nlen (ser u) + 14.
Proof.
  unfold to_file_path_k. destruct (path_segments u) as [[segs|]|] eqn:E; try lia.
  pose proof (path_segments_size u segs E). pose proof (push_decoded_k_le segs). lia.
Qed.
