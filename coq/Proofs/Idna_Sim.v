(* Proofs/Idna_Sim.v - the fail-fast run of the UTS #46 model is simulated by the mark-errors run
   (DESIGN Appendix B.4).  For every step function F:
     F_R : R (F true … false) (F false … false)     the two runs from a state without errors
     F_M : M (F false … true)                        the marking run never exits and keeps had_errors
   valid for every adapter. *)
From RU Require Import Base.Prelude Base.Utf8 Base.U32_c13 Gen.Tables Model.Punycode Model.Uts46.

Section Rel.
Context {X : Type} (he_of : X -> bool).
Definition R (rt rf : step X) : Prop :=
  match rf with
  | SOk x => if he_of x then rt = SExit else rt = SOk x
  | SExit => False
  | SPanic s => rt = SExit \/ rt = SPanic s
  end.
Definition M (rf : step X) : Prop :=
  match rf with SOk x => he_of x = true | SExit => False | SPanic _ => True end.
End Rel.

Definition he2 (x : list N * bool) : bool := snd x.
Definition he3 {B C : Type} (x : B * bool * C) : bool := snd (fst x).

Lemma R_bind {X Y} (hx : X -> bool) (hy : Y -> bool) rt rf (kt kf : X -> step Y) :
  R hx rt rf ->
  (forall x, hx x = false -> R hy (kt x) (kf x)) ->
  (forall x, hx x = true -> M hy (kf x)) ->
  R hy (sbind rt kt) (sbind rf kf).
Proof.
  intros HR Hk Hm. destruct rf as [x| |s]; cbn [R sbind] in *.
  - destruct (hx x) eqn:E.
    + subst rt. cbn [sbind]. specialize (Hm x E). destruct (kf x) as [y| |s]; cbn [M R] in *.
      * rewrite Hm. reflexivity.
      * exact Hm.
      * left; reflexivity.
    + subst rt. cbn [sbind]. apply Hk. exact E.
  - contradiction.
  - destruct HR as [-> | ->]; cbn [sbind]; [left|right]; reflexivity.
Qed.

Lemma M_bind {X Y} (hx : X -> bool) (hy : Y -> bool) rf (kf : X -> step Y) :
  M hx rf -> (forall x, hx x = true -> M hy (kf x)) -> M hy (sbind rf kf).
Proof.
  intros HM Hk. destruct rf as [x| |s]; cbn [M sbind] in *; auto.
Qed.

Lemma R_ok {X} (hx : X -> bool) x : hx x = false -> R hx (SOk x) (SOk x).
Proof. intros E. cbn [R]. rewrite E. reflexivity. Qed.
Lemma R_exit {X} (hx : X -> bool) x : hx x = true -> R hx SExit (SOk x).
Proof. intros E. cbn [R]. rewrite E. reflexivity. Qed.
Lemma R_panic {X} (hx : X -> bool) s : R hx (SPanic s) (SPanic s).
Proof. cbn [R]. right; reflexivity. Qed.
Lemma R_exit_of_M {X} (hx : X -> bool) rf : M hx rf -> R hx SExit rf.
Proof. destruct rf as [x| |s]; cbn [M R]; intros H; [rewrite H; reflexivity | exact H | left; reflexivity]. Qed.

(* ---- lcons / cons3 ---- *)
Lemma R_lcons c rt rf : R he2 rt rf -> R he2 (lcons c rt) (lcons c rf).
Proof.
  destruct rf as [[l h]| |s]; cbn [R lcons he2 snd]; intros H.
  - destruct h; subst rt; reflexivity.
  - exact H.
  - destruct H as [-> | ->]; [left|right]; reflexivity.
Qed.
Lemma M_lcons c rf : M he2 rf -> M he2 (lcons c rf).
Proof. destruct rf as [[l h]| |s]; cbn [M lcons he2 snd]; auto. Qed.

(* ---- scan_mark ---- *)
Lemma scan_mark_M bad l : M he2 (scan_mark false bad l true).
Proof.
  induction l as [|c r IH]; cbn [scan_mark].
  - reflexivity.
  - destruct (bad c); apply M_lcons; exact IH.
Qed.
Lemma scan_mark_R bad l : R he2 (scan_mark true bad l false) (scan_mark false bad l false).
Proof.
  induction l as [|c r IH]; cbn [scan_mark].
  - apply R_ok. reflexivity.
  - destruct (bad c).
    + apply R_exit_of_M. apply M_lcons. apply scan_mark_M.
    + apply R_lcons. exact IH.
Qed.

(* a generic error site *)
Ltac site := first [ apply R_ok; reflexivity | apply R_exit; reflexivity | apply R_panic | (cbn [R]; left; reflexivity) ].

(* ---- check_hyphens ---- *)
Lemma check_hyphens_M a lab : M he2 (check_hyphens false a lab true).
Proof.
  unfold check_hyphens.
  apply M_bind with (hx := he2).
  - destruct lab as [|f r]; [reflexivity|]. destruct (f =? HYPHEN); reflexivity.
  - intros [l h] E. cbn [he2 snd] in E. subst h.
    apply M_bind with (hx := he2).
    + destruct (last_opt l) as [x|]; [|reflexivity]. destruct (x =? HYPHEN); reflexivity.
    + intros [l2 h2] E2. cbn [he2 snd] in E2. subst h2.
      destruct a; [reflexivity|].
      destruct ((4 <=? len l2) && (nth 2 l2 0 =? HYPHEN) && (nth 3 l2 0 =? HYPHEN)); reflexivity.
Qed.
Lemma check_hyphens_R a lab : R he2 (check_hyphens true a lab false) (check_hyphens false a lab false).
Proof.
  unfold check_hyphens.
  apply R_bind with (hx := he2).
  - destruct lab as [|f r]; [site|]. destruct (f =? HYPHEN); site.
  - intros [l h] E. cbn [he2 snd] in E. subst h.
    apply R_bind with (hx := he2).
    + destruct (last_opt l) as [x|]; [|site]. destruct (x =? HYPHEN); site.
    + intros [l2 h2] E2. cbn [he2 snd] in E2. subst h2.
      destruct a; [site|].
      destruct ((4 <=? len l2) && (nth 2 l2 0 =? HYPHEN) && (nth 3 l2 0 =? HYPHEN)); site.
    + intros [l2 h2] E2. cbn [he2 snd] in E2. subst h2.
      destruct a; [reflexivity|].
      destruct ((4 <=? len l2) && (nth 2 l2 0 =? HYPHEN) && (nth 3 l2 0 =? HYPHEN)); reflexivity.
  - intros [l h] E. cbn [he2 snd] in E. subst h.
    apply M_bind with (hx := he2).
    + destruct (last_opt l) as [x|]; [|reflexivity]. destruct (x =? HYPHEN); reflexivity.
    + intros [l2 h2] E2. cbn [he2 snd] in E2. subst h2.
      destruct a; [reflexivity|].
      destruct ((4 <=? len l2) && (nth 2 l2 0 =? HYPHEN) && (nth 3 l2 0 =? HYPHEN)); reflexivity.
Qed.

Ltac he_intro := let l := fresh "l" in let h := fresh "h" in let E := fresh "E" in
  intros [l h] E; cbn [he2 snd] in E; subst h.
Ltac msite := first [ reflexivity | exact I ].

Section WithAdapter.
Variable A : adapter.
Variable cfg : bool.

(* ---- contextj ---- *)
Lemma contextj_M rest : forall rhead, M he2 (contextj A cfg false rhead rest true).
Proof.
  induction rest as [|c tail IH]; intros rhead; cbn [contextj].
  - reflexivity.
  - destruct (negb (in_inclusive_range32 c T_IDNA_JOINER_LO T_IDNA_JOINER_HI)); [apply IH|].
    destruct rhead as [|p rh]; [apply IH|].
    destruct (is_virama A p); [apply IH|].
    destruct (c =? 8205); [apply IH|].
    destruct (cfg && negb (c =? 8204)); [exact I|].
    destruct (negb (has_appropriately_joining_char A false (p :: rh)) || negb (has_appropriately_joining_char A true tail)); apply IH.
Qed.
Lemma contextj_R rest : forall rhead,
  R he2 (contextj A cfg true rhead rest false) (contextj A cfg false rhead rest false).
Proof.
  induction rest as [|c tail IH]; intros rhead; cbn [contextj].
  - site.
  - destruct (negb (in_inclusive_range32 c T_IDNA_JOINER_LO T_IDNA_JOINER_HI)); [apply IH|].
    destruct rhead as [|p rh]; [apply R_exit_of_M; apply contextj_M|].
    destruct (is_virama A p); [apply IH|].
    destruct (c =? 8205); [apply R_exit_of_M; apply contextj_M|].
    destruct (cfg && negb (c =? 8204)); [site|].
    destruct (negb (has_appropriately_joining_char A false (p :: rh)) || negb (has_appropriately_joining_char A true tail));
      [apply R_exit_of_M; apply contextj_M | apply IH].
Qed.

(* ---- check_label ---- *)
Lemma check_label_M hy lab fcm ncj : M he2 (check_label A cfg false hy lab true fcm ncj).
Proof.
  unfold check_label.
  apply M_bind with (hx := he2).
  { destruct (negb (hy_is_allow hy)); [apply check_hyphens_M | reflexivity]. }
  he_intro. apply M_bind with (hx := he2).
  { destruct fcm; [|reflexivity]. destruct l as [|f r]; [reflexivity|]. destruct (is_mark A f); reflexivity. }
  he_intro. apply M_bind with (hx := he2).
  { destruct ncj; [apply contextj_M | reflexivity]. }
  he_intro.
  destruct (negb (is_ascii_l l1) && (PUNYCODE_ENCODE_MAX_INPUT_LENGTH <? len l1)); [|reflexivity].
  destruct (len l1 <=? PUNYCODE_ENCODE_MAX_INPUT_LENGTH); msite.
Qed.
Lemma check_label_R hy lab fcm ncj :
  R he2 (check_label A cfg true hy lab false fcm ncj) (check_label A cfg false hy lab false fcm ncj).
Proof.
  unfold check_label.
  apply R_bind with (hx := he2).
  { destruct (negb (hy_is_allow hy)); [apply check_hyphens_R | site]. }
  2:{ he_intro. exact (check_label_M HAllow l false false) || idtac.
      apply M_bind with (hx := he2).
      { destruct fcm; [|reflexivity]. destruct l as [|f r]; [reflexivity|]. destruct (is_mark A f); reflexivity. }
      he_intro. apply M_bind with (hx := he2).
      { destruct ncj; [apply contextj_M | reflexivity]. }
      he_intro.
      destruct (negb (is_ascii_l l1) && (PUNYCODE_ENCODE_MAX_INPUT_LENGTH <? len l1)); [|reflexivity].
      destruct (len l1 <=? PUNYCODE_ENCODE_MAX_INPUT_LENGTH); msite. }
  he_intro. apply R_bind with (hx := he2).
  { destruct fcm; [|site]. destruct l as [|f r]; [site|]. destruct (is_mark A f); site. }
  2:{ he_intro. apply M_bind with (hx := he2).
      { destruct ncj; [apply contextj_M | reflexivity]. }
      he_intro.
      destruct (negb (is_ascii_l l1) && (PUNYCODE_ENCODE_MAX_INPUT_LENGTH <? len l1)); [|reflexivity].
      destruct (len l1 <=? PUNYCODE_ENCODE_MAX_INPUT_LENGTH); msite. }
  he_intro. apply R_bind with (hx := he2).
  { destruct ncj; [apply contextj_R | site]. }
  2:{ he_intro.
      destruct (negb (is_ascii_l l1) && (PUNYCODE_ENCODE_MAX_INPUT_LENGTH <? len l1)); [|reflexivity].
      destruct (len l1 <=? PUNYCODE_ENCODE_MAX_INPUT_LENGTH); msite. }
  he_intro.
  destruct (negb (is_ascii_l l1) && (PUNYCODE_ENCODE_MAX_INPUT_LENGTH <? len l1)); [|site].
  destruct (len l1 <=? PUNYCODE_ENCODE_MAX_INPUT_LENGTH); site.
Qed.

(* ---- after_punycode_decode ---- *)
Lemma after_punycode_decode_M dd lb : M he2 (after_punycode_decode A false dd lb true).
Proof.
  unfold after_punycode_decode. apply M_bind with (hx := he2); [apply scan_mark_M|].
  he_intro. destruct (zip_mark l lb); reflexivity.
Qed.
Lemma after_punycode_decode_R dd lb :
  R he2 (after_punycode_decode A true dd lb false) (after_punycode_decode A false dd lb false).
Proof.
  unfold after_punycode_decode. apply R_bind with (hx := he2); [apply scan_mark_R| |].
  - he_intro. destruct (zip_mark l lb); site.
  - he_intro. destruct (zip_mark l lb); reflexivity.
Qed.

Ltac he3_intro := let l := fresh "l" in let h := fresh "h" in let q := fresh "q" in let E := fresh "E" in
  intros [[l h] q] E; cbn [he3 snd fst] in E; subst h.

(* ---- end_sublabel ---- *)
Lemma end_sublabel_M hy dd cur fcm ncj : M he2 (end_sublabel A cfg false hy dd cur true fcm ncj).
Proof.
  unfold end_sublabel. destruct (starts_with cur XN_PREFIX); [|apply check_label_M].
  apply M_bind with (hx := he2); [apply scan_mark_M|].
  he_intro. destruct (last_opt (firstn 4 cur ++ l)) as [lst|]; [|exact I].
  apply M_bind with (hx := @he3 (list N) bool).
  { destruct (lst =? HYPHEN); reflexivity. }
  he3_intro. apply M_bind with (hx := @he3 (list N) bool).
  { destruct (PUNYCODE_DECODE_MAX_INPUT_LENGTH <? len l0 - 4); reflexivity. }
  he3_intro. destruct (negb q0); [|apply check_label_M].
  destruct (decode_with cfg CharInternal (skipn 4 l1)) as [dec| |s]; [|apply check_label_M|exact I].
  apply M_bind with (hx := he2); [apply after_punycode_decode_M|].
  he_intro. apply check_label_M.
Qed.
Lemma end_sublabel_R hy dd cur fcm ncj :
  R he2 (end_sublabel A cfg true hy dd cur false fcm ncj) (end_sublabel A cfg false hy dd cur false fcm ncj).
Proof.
  unfold end_sublabel. destruct (starts_with cur XN_PREFIX); [|apply check_label_R].
  apply R_bind with (hx := he2); [apply scan_mark_R| |].
  2:{ he_intro. destruct (last_opt (firstn 4 cur ++ l)) as [lst|]; [|exact I].
      apply M_bind with (hx := @he3 (list N) bool).
      { destruct (lst =? HYPHEN); reflexivity. }
      he3_intro. apply M_bind with (hx := @he3 (list N) bool).
      { destruct (PUNYCODE_DECODE_MAX_INPUT_LENGTH <? len l0 - 4); reflexivity. }
      he3_intro. destruct (negb q0); [|apply check_label_M].
      destruct (decode_with cfg CharInternal (skipn 4 l1)) as [dec| |s]; [|apply check_label_M|exact I].
      apply M_bind with (hx := he2); [apply after_punycode_decode_M|].
      he_intro. apply check_label_M. }
  he_intro. destruct (last_opt (firstn 4 cur ++ l)) as [lst|]; [|site].
  apply R_bind with (hx := @he3 (list N) bool).
  { destruct (lst =? HYPHEN); site. }
  2:{ he3_intro. apply M_bind with (hx := @he3 (list N) bool).
      { destruct (PUNYCODE_DECODE_MAX_INPUT_LENGTH <? len l0 - 4); reflexivity. }
      he3_intro. destruct (negb q0); [|apply check_label_M].
      destruct (decode_with cfg CharInternal (skipn 4 l1)) as [dec| |s]; [|apply check_label_M|exact I].
      apply M_bind with (hx := he2); [apply after_punycode_decode_M|].
      he_intro. apply check_label_M. }
  he3_intro. apply R_bind with (hx := @he3 (list N) bool).
  { destruct (PUNYCODE_DECODE_MAX_INPUT_LENGTH <? len l0 - 4); site. }
  2:{ he3_intro. destruct (negb q0); [|apply check_label_M].
      destruct (decode_with cfg CharInternal (skipn 4 l1)) as [dec| |s]; [|apply check_label_M|exact I].
      apply M_bind with (hx := he2); [apply after_punycode_decode_M|].
      he_intro. apply check_label_M. }
  he3_intro. destruct (negb q0); [|apply check_label_R].
  destruct (decode_with cfg CharInternal (skipn 4 l1)) as [dec| |s].
  - apply R_bind with (hx := he2); [apply after_punycode_decode_R| |].
    + he_intro. apply check_label_R.
    + he_intro. apply check_label_M.
  - apply R_exit_of_M. apply check_label_M.
  - site.
Qed.

(* ---- sublabels ---- *)
Definition heT (x : list N * bool * list aal) : bool := snd (fst x).
Lemma sublabels_M hy dd rest : forall s db cur ap fcm ncj,
  M heT (sublabels A cfg false hy dd s rest db cur true ap fcm ncj).
Proof.
  induction rest as [|s2 rest IH]; intros s db cur ap fcm ncj; cbn [sublabels].
  - apply M_bind with (hx := he2); [apply scan_mark_M|]. he_intro.
    apply M_bind with (hx := he2); [apply end_sublabel_M|]. he_intro. reflexivity.
  - apply M_bind with (hx := he2); [apply scan_mark_M|]. he_intro.
    apply M_bind with (hx := he2); [apply end_sublabel_M|]. he_intro. apply IH.
Qed.
Lemma sublabels_R hy dd rest : forall s db cur ap fcm ncj,
  R heT (sublabels A cfg true hy dd s rest db cur false ap fcm ncj)
        (sublabels A cfg false hy dd s rest db cur false ap fcm ncj).
Proof.
  induction rest as [|s2 rest IH]; intros s db cur ap fcm ncj; cbn [sublabels].
  - apply R_bind with (hx := he2); [apply scan_mark_R| |].
    + he_intro. apply R_bind with (hx := he2); [apply end_sublabel_R| |]; he_intro; [site|reflexivity].
    + he_intro. apply M_bind with (hx := he2); [apply end_sublabel_M|]. he_intro. reflexivity.
  - apply R_bind with (hx := he2); [apply scan_mark_R| |].
    + he_intro. apply R_bind with (hx := he2); [apply end_sublabel_R| |]; he_intro; [apply IH|apply sublabels_M].
    + he_intro. apply M_bind with (hx := he2); [apply end_sublabel_M|]. he_intro. apply sublabels_M.
Qed.



Ltac heT_intro := let l := fresh "l" in let h := fresh "h" in let q := fresh "q" in let E := fresh "E" in
  intros [[l h] q] E; cbn [heT snd fst] in E; subst h.

(* ---- label_nonempty ---- *)
Definition complexF ff hy deny (db : list N) he ap (ascii non_ascii : list N) : step (list N * bool * list aal) :=
  sbind (scan_mark ff is_fffd (map (apply_upper deny) ascii) he)
    (fun x : list N * bool => let (cur, he) := x in
     let (s, rest) := split1 DOT (map (apply_lower deny) (map_normalize A (utf8_lossy non_ascii))) in
     sublabels A cfg ff hy (N.lor deny DOT_MASK) s rest db cur he (ap ++ [AalOther])
       match ascii with [] => true | _ :: _ => false end
       match non_ascii with [] => false | _ :: _ => true end).
Definition complexT ff hy deny label (db : list N) he (ap : list aal) (ascii : list N) : step (list N * bool * list aal) :=
  sbind (scan_mark ff is_fffd (map (apply_upper deny) ascii) he)
    (fun x : list N * bool => let (cur, he) := x in
     sbind (if negb (hy_is_allow hy) then check_hyphens ff (hy_is_cfl hy) cur he else SOk (cur, he))
       (fun x0 : list N * bool => let (cur0, he0) := x0 in
        SOk (db ++ cur0, he0, ap ++ [if he0 then AalOther else MixedCaseAscii label]))).

Lemma complexF_M hy deny db ap ascii non_ascii : M heT (complexF false hy deny db true ap ascii non_ascii).
Proof.
  unfold complexF. apply M_bind with (hx := he2); [apply scan_mark_M|]. he_intro.
  destruct (split1 DOT (map (apply_lower deny) (map_normalize A (utf8_lossy non_ascii)))) as [s rest].
  apply sublabels_M.
Qed.
Lemma complexF_R hy deny db ap ascii non_ascii :
  R heT (complexF true hy deny db false ap ascii non_ascii) (complexF false hy deny db false ap ascii non_ascii).
Proof.
  unfold complexF. apply R_bind with (hx := he2); [apply scan_mark_R| |]; he_intro;
  destruct (split1 DOT (map (apply_lower deny) (map_normalize A (utf8_lossy non_ascii)))) as [s rest];
  [apply sublabels_R | apply sublabels_M].
Qed.
Lemma complexT_M hy deny label db ap ascii : M heT (complexT false hy deny label db true ap ascii).
Proof.
  unfold complexT. apply M_bind with (hx := he2); [apply scan_mark_M|]. he_intro.
  apply M_bind with (hx := he2).
  { destruct (negb (hy_is_allow hy)); [apply check_hyphens_M|reflexivity]. }
  he_intro. reflexivity.
Qed.
Lemma complexT_R hy deny label db ap ascii :
  R heT (complexT true hy deny label db false ap ascii) (complexT false hy deny label db false ap ascii).
Proof.
  unfold complexT. apply R_bind with (hx := he2); [apply scan_mark_R| |]; he_intro.
  - apply R_bind with (hx := he2).
    { destruct (negb (hy_is_allow hy)); [apply check_hyphens_R|site]. }
    + he_intro. site.
    + he_intro. reflexivity.
  - apply M_bind with (hx := he2).
    { destruct (negb (hy_is_allow hy)); [apply check_hyphens_M|reflexivity]. }
    he_intro. reflexivity.
Qed.

Lemma label_nonempty_eq ff hy deny label db he ap :
  label_nonempty A cfg ff hy deny label db he ap =
  let (ascii, non_ascii) := split_ascii_fast_path_prefix label in
  match non_ascii with
  | [] =>
      if has_punycode_prefix ascii then
        if negb match last_opt ascii with Some l => l =? HYPHEN | None => false end
           && (len ascii - 4 <=? PUNYCODE_DECODE_MAX_INPUT_LENGTH) then
          match decode_with cfg U8Internal (skipn 4 ascii) with
          | Ok decoded =>
              sbind (after_punycode_decode A ff (N.lor deny DOT_MASK) decoded he) (fun x => let (cur, he) := x in
              sbind (check_label A cfg ff hy cur he true true) (fun x => let (cur, he) := x in
              SOk (db ++ cur, he, ap ++ [MixedCasePunycode label])))
          | Err => if ff then SExit
                   else SOk (db ++ FFFD :: map (apply_upper deny) (tl ascii), true, ap ++ [MixedCasePunycode label])
          | Panic s => SPanic s
          end
        else if ff then SExit else complexF ff hy deny db he ap ascii non_ascii
      else complexT ff hy deny label db he ap ascii
  | _ => complexF ff hy deny db he ap ascii non_ascii
  end.
Proof.
  unfold label_nonempty, complexF, complexT.
  destruct (split_ascii_fast_path_prefix label) as [ascii non_ascii]. reflexivity.
Qed.

Lemma label_nonempty_M hy deny label db ap : M heT (label_nonempty A cfg false hy deny label db true ap).
Proof.
  rewrite label_nonempty_eq. destruct (split_ascii_fast_path_prefix label) as [ascii non_ascii].
  destruct non_ascii as [|na nr]; [|apply complexF_M].
  destruct (has_punycode_prefix ascii); [|apply complexT_M].
  destruct (negb match last_opt ascii with Some l => l =? HYPHEN | None => false end
            && (len ascii - 4 <=? PUNYCODE_DECODE_MAX_INPUT_LENGTH)); [|apply complexF_M].
  destruct (decode_with cfg U8Internal (skipn 4 ascii)) as [dec| |s]; [|reflexivity|exact I].
  apply M_bind with (hx := he2); [apply after_punycode_decode_M|]. he_intro.
  apply M_bind with (hx := he2); [apply check_label_M|]. he_intro. reflexivity.
Qed.

(* the corner of lines 1187-1196: an all-ASCII xn-- label that ends in '-' or is longer than the
   decoder cap makes the fail-fast run return at once, the marking run "falls through to the complex
   path and rediscovers the error there".  Redisc states that it does. *)
Definition Redisc (deny : N) : Prop := forall hy db ap ascii,
  Forall (fun b => b < 128) ascii ->
  has_punycode_prefix ascii = true ->
  negb match last_opt ascii with Some l => l =? HYPHEN | None => false end
    && (len ascii - 4 <=? PUNYCODE_DECODE_MAX_INPUT_LENGTH) = false ->
  M heT (complexF false hy deny db false ap ascii []).

Lemma position_none f l : position f l = None -> Forall (fun b => f b = false) l.
Proof.
  induction l as [|x r IH]; intros H; [constructor|]. cbn [position] in H.
  destruct (f x) eqn:E; [discriminate|]. destruct (position f r); [discriminate|]. constructor; auto.
Qed.
Lemma position_lt f l i : position f l = Some i -> (i < List.length l)%nat.
Proof.
  revert i. induction l as [|x r IH]; intros i H; [discriminate|]. cbn [position] in H.
  destruct (f x); [inversion H; cbn [List.length]; lia|].
  destruct (position f r) as [j|]; [|discriminate]. inversion H. cbn [List.length]. specialize (IH j eq_refl). lia.
Qed.
Lemma split_ascii_all label ascii :
  split_ascii_fast_path_prefix label = (ascii, []) -> Forall (fun b => b < 128) ascii.
Proof.
  unfold split_ascii_fast_path_prefix. destruct (position (fun b => negb (is_ascii_cp b)) label) as [[|p]|] eqn:E.
  - intros H. inversion H. subst. discriminate E.
  - intros H. inversion H as [[H1 H2]]. apply position_lt in E.
    assert (Hl : List.length (skipn p label) = 0%nat) by (rewrite H2; reflexivity).
    rewrite skipn_length in Hl. lia.
  - intros H. inversion H. subst. apply position_none in E.
    eapply Forall_impl; [|exact E]. cbv beta. unfold is_ascii_cp. intros a Ha. lia.
Qed.

Lemma label_nonempty_R hy deny label db ap : Redisc deny ->
  R heT (label_nonempty A cfg true hy deny label db false ap) (label_nonempty A cfg false hy deny label db false ap).
Proof.
  intros HRd. rewrite !label_nonempty_eq. destruct (split_ascii_fast_path_prefix label) as [ascii non_ascii] eqn:Es.
  destruct non_ascii as [|na nr]; [|apply complexF_R].
  destruct (has_punycode_prefix ascii) eqn:Eh; [|apply complexT_R].
  destruct (negb match last_opt ascii with Some l => l =? HYPHEN | None => false end
            && (len ascii - 4 <=? PUNYCODE_DECODE_MAX_INPUT_LENGTH)) eqn:Ec.
  - destruct (decode_with cfg U8Internal (skipn 4 ascii)) as [dec| |s]; [|site|site].
    apply R_bind with (hx := he2); [apply after_punycode_decode_R| |].
    + he_intro. apply R_bind with (hx := he2); [apply check_label_R| |]; he_intro; [site|reflexivity].
    + he_intro. apply M_bind with (hx := he2); [apply check_label_M|]. he_intro. reflexivity.
  - apply R_exit_of_M. apply HRd; [exact (split_ascii_all label ascii Es)|assumption|assumption].
Qed.

(* ---- label_step / labels_loop ---- *)
Lemma label_step_M hy deny label s : i_he s = true -> M i_he (label_step A cfg false hy deny label s).
Proof.
  intros Hs. unfold label_step.
  destruct (i_inpre s && is_passthrough_ascii_label label); [exact Hs|].
  destruct label as [|b r]; [exact Hs|].
  rewrite Hs. apply M_bind with (hx := heT); [apply label_nonempty_M|]. heT_intro. reflexivity.
Qed.
Lemma label_step_R hy deny label s : Redisc deny -> i_he s = false ->
  R i_he (label_step A cfg true hy deny label s) (label_step A cfg false hy deny label s).
Proof.
  intros HRd Hs. unfold label_step.
  destruct (i_inpre s && is_passthrough_ascii_label label); [apply R_ok; exact Hs|].
  destruct label as [|b r]; [apply R_ok; exact Hs|].
  rewrite Hs. apply R_bind with (hx := heT); [apply label_nonempty_R; exact HRd| |]; heT_intro; [site|reflexivity].
Qed.
Lemma labels_loop_M hy deny labels : forall s, i_he s = true -> M i_he (labels_loop A cfg false hy deny labels s).
Proof.
  induction labels as [|l r IH]; intros s Hs; cbn [labels_loop]; [exact Hs|].
  apply M_bind with (hx := i_he); [apply label_step_M; exact Hs|]. intros x Hx. apply IH. exact Hx.
Qed.
Lemma labels_loop_R hy deny labels : Redisc deny -> forall s, i_he s = false ->
  R i_he (labels_loop A cfg true hy deny labels s) (labels_loop A cfg false hy deny labels s).
Proof.
  intros HRd. induction labels as [|l r IH]; intros s Hs; cbn [labels_loop]; [apply R_ok; exact Hs|].
  apply R_bind with (hx := i_he); [apply label_step_R; assumption| |].
  - intros x Hx. apply IH. exact Hx.
  - intros x Hx. apply labels_loop_M. exact Hx.
Qed.

(* ---- the bidi rule ---- *)
Definition heN (x : list N * bool * nstate) : bool := snd (fst x).
Lemma R_cons3 c rt rf : R heN rt rf -> R heN (cons3 c rt) (cons3 c rf).
Proof.
  destruct rf as [[[l h] n]| |s]; cbn [R cons3 heN snd fst]; intros H.
  - destruct h; subst rt; reflexivity.
  - exact H.
  - destruct H as [-> | ->]; [left|right]; reflexivity.
Qed.
Lemma M_cons3 c rf : M heN rf -> M heN (cons3 c rf).
Proof. destruct rf as [[[l h] n]| |s]; cbn [M cons3 heN snd fst]; auto. Qed.

Lemma rtl_middle_M prior : forall ns, M heN (rtl_middle A false prior ns true).
Proof.
  induction prior as [|c r IH]; intros ns; cbn [rtl_middle]; [reflexivity|].
  destruct (negb (bc_mid_rtl (bidi_class A c))); [apply M_cons3; apply IH|].
  destruct ns.
  - apply M_cons3; apply IH.
  - destruct (bc_an (bidi_class A c)); apply M_cons3; apply IH.
  - destruct (bc_en (bidi_class A c)); apply M_cons3; apply IH.
Qed.
Lemma rtl_middle_R prior : forall ns, R heN (rtl_middle A true prior ns false) (rtl_middle A false prior ns false).
Proof.
  induction prior as [|c r IH]; intros ns; cbn [rtl_middle]; [site|].
  destruct (negb (bc_mid_rtl (bidi_class A c))); [apply R_exit_of_M; apply M_cons3; apply rtl_middle_M|].
  destruct ns.
  - apply R_cons3; apply IH.
  - destruct (bc_an (bidi_class A c)); [apply R_exit_of_M; apply M_cons3; apply rtl_middle_M | apply R_cons3; apply IH].
  - destruct (bc_en (bidi_class A c)); [apply R_exit_of_M; apply M_cons3; apply rtl_middle_M | apply R_cons3; apply IH].
Qed.

Definition heC (x : N * bool) : bool := snd x.
Ltac heC_intro := let l := fresh "c" in let h := fresh "h" in let E := fresh "E" in
  intros [l h] E; cbn [heC snd] in E; subst h.
Ltac heN_intro := let l := fresh "l" in let h := fresh "h" in let q := fresh "q" in let E := fresh "E" in
  intros [[l h] q] E; cbn [heN snd fst] in E; subst h.

Lemma bidi_label_M label : M he2 (bidi_label A false label true).
Proof.
  unfold bidi_label. destruct label as [|first tail]; [reflexivity|].
  destruct (negb (bc_first (bidi_class A first))); [reflexivity|].
  destruct (trim_nsm A tail) as [[[prior last] nsms]|]; [|reflexivity].
  apply M_bind with (hx := heC).
  { destruct (negb (if bc_ltr (bidi_class A first) then bc_last_ltr (bidi_class A last) else bc_last_rtl (bidi_class A last))); reflexivity. }
  heC_intro. destruct (bc_ltr (bidi_class A first)).
  - apply M_bind with (hx := he2); [apply scan_mark_M|]. he_intro. reflexivity.
  - apply M_bind with (hx := heN); [apply rtl_middle_M|]. heN_intro.
    destruct (match q with European => bc_an (bidi_class A last) | Arabic => bc_en (bidi_class A last) | Undecided => false end); reflexivity.
Qed.
Lemma bidi_label_R label : R he2 (bidi_label A true label false) (bidi_label A false label false).
Proof.
  unfold bidi_label. destruct label as [|first tail]; [site|].
  destruct (negb (bc_first (bidi_class A first))); [site|].
  destruct (trim_nsm A tail) as [[[prior last] nsms]|]; [|site].
  apply R_bind with (hx := heC).
  { destruct (negb (if bc_ltr (bidi_class A first) then bc_last_ltr (bidi_class A last) else bc_last_rtl (bidi_class A last))); site. }
  - heC_intro. destruct (bc_ltr (bidi_class A first)).
    + apply R_bind with (hx := he2); [apply scan_mark_R| |]; he_intro; [site|reflexivity].
    + apply R_bind with (hx := heN); [apply rtl_middle_R| |]; heN_intro.
      * destruct (match q with European => bc_an (bidi_class A last) | Arabic => bc_en (bidi_class A last) | Undecided => false end); site.
      * destruct (match q with European => bc_an (bidi_class A last) | Arabic => bc_en (bidi_class A last) | Undecided => false end); reflexivity.
  - heC_intro. destruct (bc_ltr (bidi_class A first)).
    + apply M_bind with (hx := he2); [apply scan_mark_M|]. he_intro. reflexivity.
    + apply M_bind with (hx := heN); [apply rtl_middle_M|]. heN_intro.
      destruct (match q with European => bc_an (bidi_class A last) | Arabic => bc_en (bidi_class A last) | Undecided => false end); reflexivity.
Qed.

Definition heL (x : list (list N) * bool) : bool := snd x.
Ltac heL_intro := let l := fresh "ls" in let h := fresh "h" in let E := fresh "E" in
  intros [l h] E; cbn [heL snd] in E; subst h.
Lemma bidi_labels_M labels : M heL (bidi_labels A false labels true).
Proof.
  induction labels as [|l r IH]; cbn [bidi_labels]; [reflexivity|].
  apply M_bind with (hx := he2); [apply bidi_label_M|]. he_intro.
  apply M_bind with (hx := heL); [apply IH|]. heL_intro. reflexivity.
Qed.
Lemma bidi_labels_R labels : R heL (bidi_labels A true labels false) (bidi_labels A false labels false).
Proof.
  induction labels as [|l r IH]; cbn [bidi_labels]; [site|].
  apply R_bind with (hx := he2); [apply bidi_label_R| |]; he_intro.
  - apply R_bind with (hx := heL); [apply IH| |]; heL_intro; [site|reflexivity].
  - apply M_bind with (hx := heL); [apply bidi_labels_M|]. heL_intro. reflexivity.
Qed.

(* ---- process_innermost / process_inner ---- *)
Definition inner_sim (rt rf : inner_res) : Prop :=
  match rf with
  | IRes ptu b he db ap => if he then rt = I_EXIT else rt = IRes ptu b false db ap
  | IPanic s => rt = I_EXIT \/ rt = IPanic s
  end.

Lemma process_innermost_sim hy deny d tail : Redisc deny ->
  inner_sim (process_innermost A cfg true hy deny d tail) (process_innermost A cfg false hy deny d tail).
Proof.
  intros HRd. unfold process_innermost.
  set (s0 := {| i_ptu := len d - len tail; i_seen := false; i_inpre := true; i_db := []; i_he := false; i_ap := [] |}).
  pose proof (labels_loop_R hy deny (split_on DOT tail) HRd s0 eq_refl) as HR.
  destruct (labels_loop A cfg false hy deny (split_on DOT tail) s0) as [s| |p]; cbn [R] in HR.
  - destruct (i_he s) eqn:Eh.
    + rewrite HR.
      destruct (is_bidi A cfg (i_db s)) as [[|]| |p]; cbn [inner_sim]; try (left; reflexivity); try reflexivity.
      pose proof (bidi_labels_M (split_on DOT (i_db s))) as HM.
      destruct (bidi_labels A false (split_on DOT (i_db s)) true) as [[ls h]| |p]; cbn [M heL snd] in HM.
      * subst h. reflexivity.
      * contradiction.
      * left; reflexivity.
    + rewrite HR. rewrite Eh.
      destruct (is_bidi A cfg (i_db s)) as [[|]| |p]; cbn [inner_sim]; try (right; reflexivity); try reflexivity.
      pose proof (bidi_labels_R (split_on DOT (i_db s))) as HB.
      destruct (bidi_labels A false (split_on DOT (i_db s)) false) as [[ls h]| |p]; cbn [R heL snd] in HB.
      * destruct h; rewrite HB; reflexivity.
      * contradiction.
      * destruct HB as [-> | ->]; [left|right]; reflexivity.
  - contradiction.
  - destruct HR as [-> | ->]; cbn [inner_sim]; [left|right]; reflexivity.
Qed.

Theorem process_inner_sim hy deny d : Redisc deny ->
  inner_sim (process_inner A cfg true hy deny d) (process_inner A cfg false hy deny d).
Proof.
  intros HRd. unfold process_inner. destruct (fast_tier d d) as [tail|].
  - apply process_innermost_sim. exact HRd.
  - reflexivity.
Qed.
End WithAdapter.
