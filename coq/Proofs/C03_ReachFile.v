(* Proofs/C03_ReachFile.v - the file states of the parser (Parser::parse_file): every record they return
   satisfies wf_b and host_text_ok - "file://host/path", "file:/path", "file:path", with or without a file
   base, drive letters included (no exclusion: the drive-letter quirks change WHICH record is produced, not
   its layout).  Together with C03_Reach.v: every result of parse_url is well-formed. *)
From RU Require Import Base.Prelude Base.Utf8 Model.AsciiSet Gen.Tables Model.PercentEncoding
  Model.HostT Model.UrlRecord Model.Parser Model.Setters Model.WF
  Proofs.ListN Proofs.C06_List Proofs.C02_Parts Proofs.C02_Opaque Proofs.C03_WF Proofs.C06_WFI Proofs.C06_Tail
  Proofs.C06_Steps Proofs.C06_Suffix Proofs.C06_FragQuery Proofs.C06_PathParser
  Proofs.C04_Parse Proofs.C04_PathTotal Proofs.C04_ParseTotal Proofs.C04_PathFile Proofs.C04_ParseFile
  Proofs.C03_ReachParts Proofs.C03_Reach.

(* ---------- the path states for the file scheme ---------- *)
Lemma parse_path_shape_file dbg hh ps ser l s' hh' rem : ps <= nlen ser ->
  forallb no_qh (nskipn ps ser) = true ->
  parse_path dbg CUrlParser STFile hh ps ser l = POk (s', hh', rem) ->
  agree_pre ps ser s' /\ ps + 1 <= nlen s' /\ nnth s' ps = Some 47
  /\ forallb no_qh (nskipn ps s') = true /\ rem_ok rem.
Proof.
  intros Hl Hq H. unfold parse_path in H.
  assert (nlen (nfirstn ps ser) = ps) as Lp by (apply nlen_nfirstn; exact Hl).
  assert (PInv ps ps (nfirstn ps ser) ser) as I0 by (split; [reflexivity | exact Hq]).
  destruct (pinv_loop_url dbg STFile ps ps (nfirstn ps ser) (N.le_refl _) ltac:(lia) Lp (fun _ => eq_refl)
              l ser (nlen ser) [] hh s' hh' rem H I0 Hl) as (x & Ex & Ix & Hr).
  pose proof (pinv_len ps ps _ (N.le_refl _) ltac:(lia) Lp x Ix) as Lx.
  pose proof (pinv_file_path_fixup ps ps _ (N.le_refl _) ltac:(lia) Lp STFile x Ix (fun _ => eq_refl)) as If.
  rewrite <- Ex in If.
  pose proof (fixup_slash STFile ps x eq_refl Lx) as F. rewrite <- Ex in F.
  destruct If as [I1 I2]. pose proof (nnth_lt _ _ _ F).
  split; [exact I1|]. split; [lia|]. split; [exact F|]. split; [exact I2 | exact Hr].
Qed.

Lemma parse_path_start_shape_file dbg hh ser l s' hh' rem :
  parse_path_start dbg CUrlParser STFile hh ser l = POk (s', hh', rem) ->
  agree_pre (nlen ser) ser s' /\ nlen ser + 1 <= nlen s' /\ nnth s' (nlen ser) = Some 47
  /\ forallb no_qh (nskipn (nlen ser) s') = true /\ rem_ok rem.
Proof.
  unfold parse_path_start. intros H.
  assert (forall X, parse_path dbg CUrlParser STFile hh (nlen ser) (ser ++ [47]) X = POk (s', hh', rem) ->
            agree_pre (nlen ser) ser s' /\ nlen ser + 1 <= nlen s' /\ nnth s' (nlen ser) = Some 47
            /\ forallb no_qh (nskipn (nlen ser) s') = true /\ rem_ok rem) as Hpush.
  { intros X HX.
    destruct (parse_path_shape_file dbg hh (nlen ser) (ser ++ [47]) X s' hh' rem
                ltac:(rewrite nlen_app; lia) ltac:(rewrite nskipn_app_exact; reflexivity) HX) as (A & B & C & D & E).
    split; [|split; [exact B | split; [exact C | split; [exact D | exact E]]]].
    eapply agree_pre_trans; [apply agree_pre_app_r | exact A]. }
  assert (forall X, parse_path dbg CUrlParser STFile hh (nlen ser) ser X = POk (s', hh', rem) ->
            agree_pre (nlen ser) ser s' /\ nlen ser + 1 <= nlen s' /\ nnth s' (nlen ser) = Some 47
            /\ forallb no_qh (nskipn (nlen ser) s') = true /\ rem_ok rem) as Hsame.
  { intros X HX. apply (parse_path_shape_file dbg hh (nlen ser) ser X s' hh' rem (N.le_refl _)); [|exact HX].
    rewrite nskipn_all by lia. reflexivity. }
  destruct (inp_split_first l) as [mc remaining]. cbn [st_is_special] in H.
  destruct (negb (ends_with_byte 47 ser)); [|exact (Hsame _ H)].
  destruct mc as [c|]; [destruct (is_slash_or_bslash c)|]; exact (Hpush _ H).
Qed.

(* ---------- the record "file://" host path ---------- *)
Lemma file_pre_bytes s i : nfirstn 7 s = s_file_css -> i < 7 -> nnth s i = nnth s_file_css i.
Proof. intros H Hi. rewrite <- (nnth_nfirstn s 7 i) by lia. rewrite H. reflexivity. Qed.

Lemma file_front_wf s he hi :
  nfirstn 7 s = s_file_css -> 7 <= he -> nnth s he = Some 47 -> forallb no_qh (nskipn he s) = true ->
  (hi = HI_None -> he = 7) ->
  (hi <> HI_None -> 7 < he /\ byte_eqb s 7 58 = false /\ byte_eqb s 7 64 = false) ->
  wf_b (file_url s 7 he hi None None) = true /\ host_text_ok (file_url s 7 he hi None None).
Proof.
  intros H7 Hhe H47 Hq Hn Hh. pose proof (nnth_lt _ _ _ H47) as Hl. unfold file_url.
  assert (byte_eqb s 7 58 = false) as B58.
  { destruct hi; [rewrite (Hn eq_refl) in H47; apply byte_eqb_false_of; congruence | | |];
      apply Hh; discriminate. }
  split.
  - apply mid_wf; try reflexivity; urec.
    + unfold scheme_ok. urec. split; [lia|]. split; [|split].
      * exists 102. split; [rewrite (file_pre_bytes s 0 H7) by lia; reflexivity | reflexivity].
      * rewrite <- (nfirstn_nfirstn 4 7 s) by lia. rewrite H7. reflexivity.
      * apply byte_eqb_true_iff. rewrite (file_pre_bytes s 4 H7) by lia. reflexivity.
    + lia.
    + exact Hq.
    + assert (has_authority_b (mkUrl s 4 7 7 he hi None he None None) = true) as Ha.
      { unfold has_authority_b. urec. apply css_of_bytes; rewrite (file_pre_bytes s _ H7) by lia; reflexivity. }
      rewrite Ha. split; [|right; exact H47].
      unfold auth_ok, userinfo_ok, port_ok. urec. repeat split; try lia.
      left. repeat split. exact B58.
  - intros Hhas. unfold has_host in Hhas. urec. apply Hh. intros E. rewrite E in Hhas. discriminate.
Qed.

(* the query / fragment tail of a file record *)
Lemma file_tail_wf ovr st s he hi rem s4 qs fs :
  wf_b (file_url s 7 he hi None None) = true /\ host_text_ok (file_url s 7 he hi None None) ->
  parse_query_and_fragment ovr CUrlParser st 4 s rem = POk (s4, qs, fs) ->
  wf_b (file_url s4 7 he hi qs fs) = true /\ host_text_ok (file_url s4 7 he hi qs fs).
Proof.
  intros [W HT] Ep. split.
  - exact (pqf_wf ovr st 4 (file_url s 7 he hi None None) rem s4 qs fs W eq_refl eq_refl Ep).
  - exact (pqf_ht ovr st 4 (file_url s 7 he hi None None) rem s4 qs fs W HT Ep).
Qed.

Lemma file_css_pre t : nfirstn 7 (s_file_css ++ t) = s_file_css.
Proof. apply (nfirstn_app_exact s_file_css t). Qed.

(* a fresh "file:///path" *)
Lemma file_fresh_wf dbg ovr st hh l u :
  (' (s2, _, rem) <~ parse_path dbg CUrlParser STFile hh 7 (s_file_css ++ [47]) l ;;
   ' (s3, qs, fs) <~ parse_query_and_fragment ovr CUrlParser st 4 s2 rem ;;
   POk (file_url s3 7 7 HI_None qs fs)) = POk u ->
  wf_b u = true /\ host_text_ok u.
Proof.
  destruct (parse_path dbg CUrlParser STFile hh 7 (s_file_css ++ [47]) l) as [[[s2 h2] rem]| |] eqn:Ep; cbn [pbind]; try discriminate.
  destruct (parse_path_shape_file dbg hh 7 (s_file_css ++ [47]) l s2 h2 rem ltac:(vm_compute; discriminate) eq_refl Ep)
    as (A & B & C & D & E).
  destruct (parse_query_and_fragment ovr CUrlParser st 4 s2 rem) as [[[s3 qs] fs]| |] eqn:Eq; cbn [pbind]; try discriminate.
  intros H. inversion H; subst u. apply (file_tail_wf ovr st s2 7 HI_None rem); [|exact Eq].
  apply file_front_wf; try assumption; try lia; try (intros _; reflexivity); try (intros X; contradiction).
Qed.

Section File.
Variable dbg : bool.
Variable hp hpo : list N -> result host.
Variable hd : host -> list N.
Variable ovr : option (list N -> list N).
Hypothesis HW : HostWf hp hpo hd.

Lemma pfh_shape ser l ser1 flag hi rem :
  parse_file_host hp hd ser l = POk (ser1, flag, hi, rem) ->
  (ser1 = ser /\ hi = HI_None)
  \/ (exists h, h <> HDomain [] /\ host_text_wf (hd h) /\ ser1 = ser ++ hd h /\ hi = hi_of_host h /\ flag = true).
Proof using HW.
  destruct HW as (W1 & _ & W3). unfold parse_file_host. destruct (file_host l) as [t rm].
  destruct t as [|c t']; [intros H; inversion H; subst; left; split; reflexivity|].
  destruct (hp (c :: t')) as [h|e] eqn:Eh; cbn [of_result pbind]; [|discriminate].
  assert (POk (ser ++ hd h, true, hi_of_host h, rm) = POk (ser1, flag, hi, rem) ->
          (ser1 = ser /\ hi = HI_None)
          \/ (exists h0, h0 <> HDomain [] /\ host_text_wf (hd h0) /\ ser1 = ser ++ hd h0 /\ hi = hi_of_host h0 /\ flag = true)) as Hgen.
  { intros H. inversion H; subst. destruct (host_eq_dec_empty h) as [->|Hne].
    - left. rewrite W3, app_nil_r. split; reflexivity.
    - right. exists h. split; [exact Hne|]. split; [exact (W1 _ _ Eh Hne)|]. repeat split. }
  destruct h as [d|a|p]; [|exact Hgen|exact Hgen].
  destruct (list_eqb d s_localhost); [|exact Hgen].
  intros H. inversion H; subst. left. split; reflexivity.
Qed.

Lemma hi_of_nonempty h : h <> HDomain [] -> hi_of_host h <> HI_None.
Proof using. intros Hne E. apply Hne. apply hi_none_empty. exact E. Qed.

Theorem parse_file_wf st base_file l u :
  match base_file with Some b => wf_b b = true /\ host_text_ok b | None => True end ->
  parse_file dbg hp hd ovr CUrlParser st base_file l = POk u -> wf_b u = true /\ host_text_ok u.
Proof using HW.
  intros Hb. unfold parse_file. destruct (inp_split_first l) as [first_char after_first] eqn:Esf.
  destruct (match first_char with Some c => is_slash_or_bslash c | None => false end) eqn:Efs.
  - destruct (inp_split_first after_first) as [next_char after_next].
    destruct (match next_char with Some c => is_slash_or_bslash c | None => false end).
    + (* "//" : file host *)
      destruct (parse_file_host hp hd s_file_css after_next) as [[[[ser1 flag] hi] remaining]| |] eqn:Eh; cbn [pbind]; try discriminate.
      du32 (nlen ser1) he Ehe. apply to_u32_inv in Ehe. destruct Ehe as [-> _].
      set (P := if flag then parse_path_start dbg CUrlParser STFile (negb (hi_eqb hi HI_None)) ser1 remaining
                else parse_path dbg CUrlParser STFile (negb (hi_eqb hi HI_None)) (nlen ser1) (ser1 ++ [47]) remaining).
      destruct P as [[[ser2 hh] rem2]| |] eqn:Ep; cbn [pbind]; try discriminate.
      assert (agree_pre (nlen ser1) ser1 ser2 /\ nlen ser1 + 1 <= nlen ser2 /\ nnth ser2 (nlen ser1) = Some 47
              /\ forallb no_qh (nskipn (nlen ser1) ser2) = true) as (A & B & C & D).
      { subst P. destruct flag.
        - destruct (parse_path_start_shape_file _ _ _ _ _ _ _ Ep) as (A & B & C & D & _). repeat split; assumption.
        - destruct (parse_path_shape_file dbg _ (nlen ser1) (ser1 ++ [47]) remaining ser2 hh rem2
                      ltac:(rewrite nlen_app; lia) ltac:(rewrite nskipn_app_exact; reflexivity) Ep) as (A & B & C & D & _).
          split; [eapply agree_pre_trans; [apply agree_pre_app_r | exact A]|]. repeat split; assumption. }
      assert (wf_b (file_url ser2 7 (nlen ser1) hi None None) = true /\ host_text_ok (file_url ser2 7 (nlen ser1) hi None None)
              /\ nfirstn 7 ser2 = s_file_css /\ 7 <= nlen ser1) as (Wk & Tk & P7 & L7).
      { destruct (pfh_shape _ _ _ _ _ _ Eh) as [(-> & ->)|(h & Hne & (T1 & T2 & T3 & _) & -> & -> & _)].
        - assert (nfirstn 7 ser2 = s_file_css) as P7 by (unfold agree_pre in A; change (nlen s_file_css) with 7 in A; rewrite A; reflexivity).
          change (nlen s_file_css) with 7 in *.
          destruct (file_front_wf ser2 7 HI_None P7 (N.le_refl _) C D (fun _ => eq_refl) ltac:(intros X; contradiction)) as [W T].
          split; [exact W|]. split; [exact T|]. split; [exact P7 | lia].
        - assert (nlen (s_file_css ++ hd h) = 7 + nlen (hd h)) as L1 by (rewrite nlen_app; reflexivity).
          assert (nfirstn 7 ser2 = s_file_css) as P7.
          { rewrite (pre_firstn _ _ _ 7 A) by lia. apply file_css_pre. }
          destruct (hd h) as [|c t] eqn:Ehd; [contradiction|]. rewrite nlen_cons in L1.
          assert (nnth ser2 7 = Some c) as Ec.
          { rewrite (pre_nnth _ _ _ 7 A) by lia. rewrite nnth_app_ge by (change (nlen s_file_css) with 7; lia). reflexivity. }
          cbn in T2, T3.
          destruct (file_front_wf ser2 (nlen (s_file_css ++ c :: t)) (hi_of_host h) P7 ltac:(lia) C D) as [W T].
          + intros E. exfalso. exact (hi_of_nonempty h Hne E).
          + intros _. split; [lia|]. split; apply byte_eqb_false_of; congruence.
          + split; [exact W|]. split; [exact T|]. split; [exact P7 | lia]. }
      assert (wf_b (file_url (nfirstn 7 ser2 ++ nskipn (nlen ser1) ser2) 7 7 HI_None None None) = true
              /\ host_text_ok (file_url (nfirstn 7 ser2 ++ nskipn (nlen ser1) ser2) 7 7 HI_None None None)) as Wstrip.
      { rewrite P7. apply file_front_wf.
        - apply file_css_pre.
        - lia.
        - rewrite nnth_app_ge by (change (nlen s_file_css) with 7; lia). change (nlen s_file_css) with 7.
          rewrite N.sub_diag. rewrite nnth_nskipn, N.add_0_r. exact C.
        - replace 7 with (nlen s_file_css) at 1 by reflexivity. rewrite nskipn_app_exact. exact D.
        - intros _. reflexivity.
        - intros X. contradiction. }
      destruct (negb hh).
      * destruct (parse_query_and_fragment ovr CUrlParser st 4 (nfirstn 7 ser2 ++ nskipn (nlen ser1) ser2) rem2)
          as [[[s4 qs] fs]| |] eqn:Eq; cbn [pbind]; try discriminate.
        intros H. inversion H; subst u. exact (file_tail_wf ovr st _ 7 HI_None rem2 s4 qs fs Wstrip Eq).
      * destruct (parse_query_and_fragment ovr CUrlParser st 4 ser2 rem2) as [[[s4 qs] fs]| |] eqn:Eq; cbn [pbind]; try discriminate.
        intros H. inversion H; subst u. exact (file_tail_wf ovr st _ (nlen ser1) hi rem2 s4 qs fs (conj Wk Tk) Eq).
    + (* a single slash: the host (or drive letter) of the base, then the path *)
      set (T := if negb (starts_with_wdl_segment after_first)
                then match base_file with
                     | Some base =>
                         match base_first_segment base with
                         | Some seg =>
                             if is_normalized_wdl seg then (s_file_css ++ [47] ++ seg, 7, HI_None)
                             else match host_str base with
                                  | Some (Some hs) => (s_file_css ++ hs, nlen (s_file_css ++ hs), hosti base)
                                  | _ => (s_file_css, 7, HI_None)
                                  end
                         | None => (s_file_css, 7, HI_None)
                         end
                     | None => (s_file_css, 7, HI_None)
                     end
                else (s_file_css, 7, HI_None)).
      assert (let '(ser1, he, hi) := T in
              nfirstn 7 ser1 = s_file_css /\ 7 <= he /\ he <= nlen ser1 /\ forallb no_qh (nskipn he ser1) = true
              /\ (hi = HI_None -> he = 7)
              /\ (hi <> HI_None -> 7 < he /\ byte_eqb ser1 7 58 = false /\ byte_eqb ser1 7 64 = false)) as HT.
      { assert (nfirstn 7 s_file_css = s_file_css /\ 7 <= 7 /\ 7 <= nlen s_file_css
                /\ forallb no_qh (nskipn 7 s_file_css) = true /\ (HI_None = HI_None -> 7 = 7)
                /\ (HI_None <> HI_None -> 7 < 7 /\ byte_eqb s_file_css 7 58 = false /\ byte_eqb s_file_css 7 64 = false)) as Hplain.
        { repeat split; try reflexivity; try (vm_compute; discriminate); contradiction. }
        subst T. destruct (negb (starts_with_wdl_segment after_first)); [|exact Hplain].
        destruct base_file as [base|]; [|exact Hplain]. destruct Hb as [Wb Tb].
        destruct (base_first_segment base) as [seg|]; [|exact Hplain].
        destruct (is_normalized_wdl seg) eqn:Ew.
        - (* drive letter of the base: seg = [letter; ':'] *)
          assert (exists a, seg = [a; 58] /\ is_alpha a = true) as (a & -> & Ha).
          { unfold is_normalized_wdl, is_wdl, starts_with_wdl in Ew. destruct seg as [|a [|b [|c r]]]; try discriminate.
            apply andb_true_iff in Ew. destruct Ew as [Ew Eb]. apply N.eqb_eq in Eb. subst b.
            exists a. split; [reflexivity|]. cbn in Ew. rewrite andb_true_r in Ew. apply andb_true_iff in Ew. tauto. }
          split; [apply file_css_pre|]. split; [lia|]. split; [vm_compute; discriminate|].
          split; [|split; [reflexivity | intros X; contradiction]].
          replace 7 with (nlen s_file_css) by reflexivity. rewrite nskipn_app_exact.
          assert (no_qh a = true) as Hna by (unfold is_alpha, is_upper, is_lower, no_qh in *; lia).
          cbn [app forallb]. rewrite Hna. reflexivity.
        - rewrite (host_str_eval base Wb). destruct (has_host base) eqn:Hh; [|exact Hplain].
          cbn [pidx]. destruct (Tb Hh) as (T1 & T2 & T3).
          pose proof (wf_host_range base Wb T1) as R. pose proof (path_start_le_len base Wb) as PL.
          set (hs := piece base (host_start base) (host_end base)).
          assert (nlen hs = host_end base - host_start base) as Lh.
          { subst hs. unfold piece. apply nlen_nfirstn. rewrite nlen_nskipn. lia. }
          assert (nnth hs 0 = nnth (ser base) (host_start base)) as E0.
          { subst hs. unfold piece. rewrite nnth_nfirstn by lia. rewrite nnth_nskipn, N.add_0_r. reflexivity. }
          assert (forall c, byte_eqb (s_file_css ++ hs) 7 c = byte_eqb (ser base) (host_start base) c) as Eb.
          { intros c. unfold byte_eqb. rewrite nnth_app_ge by (change (nlen s_file_css) with 7; lia).
            change (nlen s_file_css) with 7. rewrite N.sub_diag, E0. reflexivity. }
          split; [apply file_css_pre|]. rewrite nlen_app. change (nlen s_file_css) with 7.
          split; [lia|]. split; [lia|]. split; [|split].
          + replace (7 + nlen hs) with (nlen (s_file_css ++ hs)) by (rewrite nlen_app; reflexivity).
            rewrite nskipn_all by lia. reflexivity.
          + intros E. unfold has_host in Hh. rewrite E in Hh. discriminate.
          + intros _. split; [lia|]. rewrite !Eb. split; assumption. }
      destruct T as [[ser1 he] hi]. destruct HT as (P7 & H7 & Hle & Hq & Hn & Hh).
      destruct (parse_path dbg CUrlParser STFile false he ser1 l) as [[[ser2 hh] remaining]| |] eqn:Ep; cbn [pbind]; try discriminate.
      destruct (parse_path_shape_file dbg false he ser1 l ser2 hh remaining Hle Hq Ep) as (A & B & C & D & _).
      destruct (parse_query_and_fragment ovr CUrlParser st 4 ser2 remaining) as [[[s3 qs] fs]| |] eqn:Eq; cbn [pbind]; try discriminate.
      intros H. inversion H; subst u. apply (file_tail_wf ovr st ser2 he hi remaining); [|exact Eq].
      apply file_front_wf; try assumption.
      * rewrite (pre_firstn _ _ _ 7 A) by lia. exact P7.
      * intros Hne. destruct (Hh Hne) as (X1 & X2 & X3). split; [exact X1|].
        rewrite !(pre_byte_eqb he _ _ _ _ A) by lia. split; assumption.
  - destruct base_file as [base|]; [|apply file_fresh_wf].
    destruct Hb as [Wb Tb].
    destruct first_char as [c|].
    2:{ intros H. inversion H; subst u. split; [apply base_cut_fragment_wf; exact Wb|].
        apply (base_ht base _ _ _ Wb Tb). exact (bf_pre base Wb). }
    destruct (c =? 63).
    { destruct (parse_query_and_fragment ovr CUrlParser st (scheme_end base) (b_before_query base) l) as [[[s qs] fs]| |] eqn:Ep;
        cbn [pbind]; try discriminate.
      intros H. inversion H; subst u. split.
      - exact (pqf_wf ovr st (scheme_end base) (url_with base (b_before_query base) None None) l s qs fs
                 (base_cut_query_wf base Wb) eq_refl eq_refl Ep).
      - exact (pqf_ht ovr st (scheme_end base) (url_with base (b_before_query base) None None) l s qs fs
                 (base_cut_query_wf base Wb) (base_ht base _ None None Wb Tb (bq_pre base Wb)) Ep). }
    destruct (c =? 35); [apply fragment_only_wf; assumption|].
    destruct (negb (starts_with_wdl_segment l)); [|apply file_fresh_wf].
    (* path-relative *)
    destruct (shorten_path STFile (path_start base) (b_before_query base)) as [s1| |] eqn:Es; cbn [pbind]; try discriminate.
    destruct (bq_shape base Wb) as (Ebq & P1 & P2). pose proof (path_start_le_len base Wb) as PL.
    pose proof (qf_facts_of base Wb) as (_ & _ & _ & Q4 & _).
    assert (nlen (nfirstn (path_start base) (ser base)) = path_start base) as Lp by (apply nlen_nfirstn; exact PL).
    assert (PInv (path_start base) (path_start base) (nfirstn (path_start base) (ser base)) (b_before_query base)) as I0.
    { rewrite Ebq. split; [apply nfirstn_nfirstn; exact P1|].
      replace (path_end base) with (path_start base + (path_end base - path_start base)) by lia.
      rewrite nskipn_nfirstn_comm. exact Q4. }
    pose proof (pinv_shorten_path (path_start base) (path_start base) (nfirstn (path_start base) (ser base))
                  (N.le_refl _) ltac:(lia) Lp STFile _ _ Es I0) as I1.
    pose proof (pinv_len _ _ _ (N.le_refl _) ltac:(lia) Lp s1 I1) as L1. destruct I1 as [J1 J2].
    destruct (parse_path dbg CUrlParser STFile true (path_start base) s1 l) as [[[s2 hh] rem]| |] eqn:Ep; cbn [pbind]; try discriminate.
    destruct (parse_path_shape_file dbg true (path_start base) s1 l s2 hh rem L1 J2 Ep) as (A & B & C & D & E).
    intros H. apply (wqf_wf ovr STFile (url_with base s2 None None) rem u); [|reflexivity|reflexivity|exact H].
    apply base_front_ok; try assumption.
    eapply agree_pre_trans; [exact J1 | exact A].
Qed.
End File.

(* ---------- every result of parse_url ---------- *)
Section All.
Variable dbg : bool.
Variable hp hpo : list N -> result host.
Variable hd : host -> list N.
Variable ovr : option (list N -> list N).
Hypothesis HW : HostWf hp hpo hd.

Theorem parse_url_wf_all base input u :
  match base with Some b => base_ok b = true /\ host_text_ok b | None => True end ->
  parse_url dbg hp hpo hd ovr base input = POk u -> wf_b u = true /\ host_text_ok u.
Proof using HW.
  intros Hb. destruct (file_involved base input) eqn:Hk; [|exact (parse_url_wf dbg hp hpo hd ovr HW base input u Hb Hk)].
  unfold file_involved in Hk. unfold parse_url.
  destruct (parse_scheme CUrlParser (input_new_trim_c0 input)) as [[sch rem]|] eqn:Es.
  - unfold parse_with_scheme. du32 (nlen sch) se E.
    destruct (scheme_type_of sch) eqn:Est; try discriminate Hk.
    apply (parse_file_wf dbg hp hpo hd ovr HW).
    destruct base as [b|]; [|exact I]. destruct (list_eqb (b_scheme b) s_file); [|exact I].
    destruct Hb as [Hb HT]. unfold base_ok in Hb. apply andb_true_iff in Hb. destruct Hb as [W _]. split; assumption.
  - destruct base as [b|]; [|discriminate]. destruct Hb as [Hb HT].
    unfold base_ok in Hb. apply andb_true_iff in Hb. destruct Hb as [W _].
    destruct (inp_starts_with_char 35 (input_new_trim_c0 input)); [apply fragment_only_wf; assumption|].
    rewrite (cannot_be_a_base_eval b W).
    destruct (byte_eqb (ser b) (scheme_end b + 1) 47) eqn:Eb; cbn [negb]; [|discriminate].
    apply list_eqb_spec in Hk. rewrite Hk. change (st_is_file (scheme_type_of s_file)) with true. cbv iota.
    apply (parse_file_wf dbg hp hpo hd ovr HW). split; assumption.
Qed.
End All.
