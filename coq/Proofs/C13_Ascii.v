(* Proofs/C13_Ascii.v - inversion lemmas for the result monad, table facts, encoder output is ASCII. *)
From RU Require Import Base.Prelude Base.Utf8 Base.U32_c13 Gen.Tables Model.Punycode.

Lemma rbind_ok {A B : Type} (r : res A) (f : A -> res B) b :
  rbind r f = Ok b -> exists a, r = Ok a /\ f a = Ok b.
Proof. destruct r as [a| |s]; cbn [rbind]; intros H; try discriminate. exists a. split; [reflexivity|exact H]. Qed.

Lemma rbind_Ok {A B : Type} (a : A) (f : A -> res B) : rbind (Ok a) f = f a.
Proof. reflexivity. Qed.

Ltac rbind_inv H x Hx :=
  apply rbind_ok in H; destruct H as [x [Hx H]].

(* ---- the regenerated constants are RFC 3492's (a changed constant breaks these) ---- *)
Lemma consts_are_rfc3492 :
  BASE = 36 /\ T_MIN = 1 /\ T_MAX = 26 /\ SKEW = 38 /\ DAMP = 700 /\ INITIAL_BIAS = 72 /\ INITIAL_N = 128.
Proof. repeat split; reflexivity. Qed.

(* ---- digit tables in closed form ---- *)
Definition value_to_digit_spec (v : N) : option N :=
  if v <? 26 then Some (v + 97) else if v <? 36 then Some (v - 26 + 48) else None.
Definition digit_u8_spec (b : N) : option N :=
  if (48 <=? b) && (b <=? 57) then Some (b - 48 + 26)
  else if (65 <=? b) && (b <=? 90) then Some (b - 65)
  else if (97 <=? b) && (b <=? 122) then Some (b - 97)
  else None.
Definition digit_char_spec (b : N) : option N :=
  if (48 <=? b) && (b <=? 57) then Some (b - 48 + 26)
  else if (97 <=? b) && (b <=? 122) then Some (b - 97)
  else None.

Lemma value_to_digit_table v : range_lookup T_PUNY_VALUE_TO_DIGIT v = value_to_digit_spec v.
Proof.
  unfold T_PUNY_VALUE_TO_DIGIT, value_to_digit_spec. cbn [range_lookup].
  destruct (v <? 26) eqn:E1.
  - replace ((0 <=? v) && (v <=? 25)) with true by lia. f_equal. lia.
  - replace ((0 <=? v) && (v <=? 25)) with false by lia.
    destruct (v <? 36) eqn:E2.
    + replace ((26 <=? v) && (v <=? 35)) with true by lia. reflexivity.
    + replace ((26 <=? v) && (v <=? 35)) with false by lia. reflexivity.
Qed.

Lemma digit_u8_table b : digit_u8 b = digit_u8_spec b.
Proof.
  unfold digit_u8, T_PUNY_DIGIT_U8, digit_u8_spec. cbn [range_lookup].
  destruct ((48 <=? b) && (b <=? 57)); [reflexivity|].
  destruct ((65 <=? b) && (b <=? 90)); [f_equal; lia|].
  destruct ((97 <=? b) && (b <=? 122)); [f_equal; lia|reflexivity].
Qed.

Lemma digit_char_table b : digit_char b = digit_char_spec b.
Proof.
  unfold digit_char, T_PUNY_DIGIT_CHAR, digit_char_spec. cbn [range_lookup].
  destruct ((48 <=? b) && (b <=? 57)); [reflexivity|].
  destruct ((97 <=? b) && (b <=? 122)); [f_equal; lia|reflexivity].
Qed.

Lemma value_to_digit_ok v c : value_to_digit v = Ok c -> v < 36 /\ c < 128 /\ value_to_digit_spec v = Some c.
Proof.
  unfold value_to_digit. rewrite value_to_digit_table. unfold value_to_digit_spec.
  destruct (v <? 26) eqn:E1.
  - intros H. inversion H. subst c. repeat split; lia.
  - destruct (v <? 36) eqn:E2.
    + intros H. inversion H. subst c. repeat split; lia.
    + discriminate.
Qed.

Lemma value_to_digit_total v : v < 36 -> exists c, value_to_digit v = Ok c.
Proof.
  intros H. unfold value_to_digit. rewrite value_to_digit_table. unfold value_to_digit_spec.
  destruct (v <? 26) eqn:E1; [eexists; reflexivity|].
  replace (v <? 36) with true by lia. eexists; reflexivity.
Qed.

(* digit and value_to_digit are inverse on 0..35 *)
Lemma digit_of_value v c : value_to_digit v = Ok c -> digit_u8 c = Some v /\ digit_char c = Some v.
Proof.
  intros H. apply value_to_digit_ok in H. destruct H as [Hv [_ H]].
  rewrite digit_u8_table, digit_char_table. unfold value_to_digit_spec in H.
  unfold digit_u8_spec, digit_char_spec.
  destruct (v <? 26) eqn:E1.
  - inversion H. subst c.
    replace ((48 <=? v + 97) && (v + 97 <=? 57)) with false by lia.
    replace ((65 <=? v + 97) && (v + 97 <=? 90)) with false by lia.
    replace ((97 <=? v + 97) && (v + 97 <=? 122)) with true by lia.
    split; f_equal; lia.
  - replace (v <? 36) with true in H by lia. inversion H. subst c.
    replace ((48 <=? v - 26 + 48) && (v - 26 + 48 <=? 57)) with true by lia.
    split; f_equal; lia.
Qed.

(* ---- ASCII-ness of everything the encoder writes ---- *)
Lemma enc_vli_ascii fuel : forall q k bias ds, enc_vli fuel q k bias = Ok ds -> ascii ds.
Proof.
  induction fuel as [|f IH]; intros q k bias ds H; cbn [enc_vli] in H; [discriminate|].
  destruct (q <? threshold k bias).
  - rbind_inv H d Hd. inversion H. subst ds. apply value_to_digit_ok in Hd.
    constructor; [unfold is_ascii; lia|constructor].
  - rbind_inv H d Hd. rbind_inv H r Hr. inversion H. subst ds.
    apply value_to_digit_ok in Hd. constructor; [unfold is_ascii; lia|]. exact (IH _ _ _ _ Hr).
Qed.

Lemma enc_inner_ascii cfg ext input : forall cp bl delta bias processed d b p o,
  enc_inner cfg ext input cp bl delta bias processed = Ok (d, b, p, o) -> ascii o.
Proof.
  induction input as [|c r IH]; intros cp bl delta bias processed d b p o H; cbn [enc_inner] in H.
  - inversion H. constructor.
  - rbind_inv H delta' Hdelta.
    destruct (c =? cp).
    + rbind_inv H digits Hdig. rbind_inv H bias' Hbias. rbind_inv H st Hst.
      destruct st as [[[d1 b1] p1] o1]. inversion H. subst.
      apply ascii_app. split; [exact (enc_vli_ascii _ _ _ _ _ Hdig)|exact (IH _ _ _ _ _ _ _ _ _ Hst)].
    + exact (IH _ _ _ _ _ _ _ _ _ H).
Qed.

Lemma enc_outer_ascii fuel cfg ext input il bl : forall cp delta bias processed o,
  enc_outer fuel cfg ext input il bl cp delta bias processed = Ok o -> ascii o.
Proof.
  induction fuel as [|f IH]; intros cp delta bias processed o H; cbn [enc_outer] in H.
  - destruct (processed <? il); [discriminate|]. inversion H. constructor.
  - destruct (processed <? il); [|inversion H; constructor].
    destruct (min_ge cp input) as [m|]; [|discriminate].
    rbind_inv H product Hp. rbind_inv H delta' Hd. rbind_inv H st Hst.
    destruct st as [[[d1 b1] p1] o1]. rbind_inv H delta'' Hd2. rbind_inv H o2 Ho2. inversion H. subst o.
    apply ascii_app. split; [exact (enc_inner_ascii _ _ _ _ _ _ _ _ _ _ _ _ Hst)|exact (IH _ _ _ _ _ Ho2)].
Qed.

Lemma enc_basic_ascii input : forall il bl a b o, enc_basic input il bl = Some (a, b, o) -> ascii o.
Proof.
  induction input as [|c r IH]; intros il bl a b o H; cbn [enc_basic] in H.
  - inversion H. constructor.
  - destruct (checked_add il 1) as [il'|]; [|discriminate].
    destruct (c <? 128) eqn:E.
    + destruct (enc_basic r il' (bl + 1)) as [[[a1 b1] o1]|] eqn:E2; [|discriminate].
      inversion H. subst. constructor; [unfold is_ascii; lia|exact (IH _ _ _ _ _ E2)].
    + exact (IH _ _ _ _ _ H).
Qed.

Lemma encode_into_ascii cfg ext s p : encode_into cfg ext s = Ok p -> ascii p.
Proof.
  unfold encode_into. intros H.
  destruct (enc_basic s 0 0) as [[[il bl] basic]|] eqn:E; [|discriminate].
  rbind_inv H u Hu. rbind_inv H o Ho. inversion H. subst p.
  apply ascii_app. split; [exact (enc_basic_ascii _ _ _ _ _ _ E)|].
  apply ascii_app. split; [|exact (enc_outer_ascii _ _ _ _ _ _ _ _ _ _ _ Ho)].
  destruct (0 <? bl); [constructor; [unfold is_ascii, DELIMITER; lia|constructor]|constructor].
Qed.

Lemma encode_ascii cfg s p : encode cfg s = Ok p -> ascii p.
Proof. unfold encode. destruct (U32_MAX <? _); [discriminate|]. apply encode_into_ascii. Qed.

Lemma encode_str_ascii cfg s p : encode_str cfg s = Ok p -> ascii p.
Proof. unfold encode_str. destruct (U32_MAX <? _); [discriminate|]. apply encode_into_ascii. Qed.
