(* Proofs/C01_EqFileBase.v - third file-BASE arm of the C01 equivalence (task c01file4): a scheme-less, path-relative
   reference (first character not '/', '\', '?', '#'; the text does not start with a Windows drive letter) against a
   FILE base.  The Standard: no scheme state -> file state, "otherwise" arm: host, path of the base, shorten the
   path, path state.  parser.rs parse_file: shorten_path on the serialization of the base in front of its query,
   parse_path (file, has_host = true, the flag it returns is dropped), with_query_and_fragment with the offsets of
   the base.  Class: the LAST segment of the base path is not a normalized drive letter (then both "shorten" are
   removelast; parser.rs tests the whole path text against "X:" - never true - and pop_path refuses to pop a
   normalized drive letter in ANY position, F-C01-5), the model's path loop stays inside fpath_ok with has_host = true,
   and the collapse of leading slashes (parser.rs:1377) leaves the resulting list alone. *)
From Coq Require Import ZifyBool ZifyN.
From RU Require Import Base.Prelude Base.Utf8 Base.Utf8Facts Model.AsciiSet Gen.Tables
  Model.PercentEncoding Model.HostT Model.UrlRecord Model.Parser Model.Setters Model.WF Model.Host Model.KnownC08 Model.KnownC01
  Spec.Whatwg Spec.WhatwgHost Spec.WhatwgHostParse
  Proofs.ListN Proofs.C14_Set Proofs.C14_Enc Proofs.C14_Views Proofs.C02_Enc Proofs.C02_Parts
  Proofs.C02_Opaque Proofs.C02_Path Proofs.C02_PathL1 Proofs.C03_WF Proofs.C01_Tables Proofs.C08_Input Proofs.C09_Host
  Proofs.C01_EqRun Proofs.C01_EqEnc Proofs.C01_EqApi Proofs.C01_EqOpaque Proofs.C01_EqDots Proofs.C01_EqPathSpec
  Proofs.C06_List Proofs.C06_WFI Proofs.C06_Tail Proofs.C06_Steps Proofs.C06_FragQuery Proofs.C06_PathParser Proofs.C06_Path
  Proofs.C08_Simple Proofs.C08_Contain Proofs.C08_NoAuth
  Proofs.C01_EqRef Proofs.C01_EqPath Proofs.C01_EqOverflow Proofs.C01_EqEmpty Proofs.C01_EqClasses
  Proofs.C01_EqAuthSpec Proofs.C01_EqAuthModel Proofs.C01_EqAuth Proofs.C01_EqClasses2 Proofs.C01_EqRel Proofs.C01_EqRelPath
  Proofs.C01_EqRelArms Proofs.C01_EqRelBase
  Proofs.C01_EqSpSpec Proofs.C01_EqSpPath Proofs.C01_EqSpRel Proofs.C01_EqSpModel Proofs.C01_EqSp Proofs.C01_EqAbs
  Proofs.C01_EqSpBase
  Proofs.C01_EqFileSpec Proofs.C01_EqFilePath Proofs.C01_EqFileRel Proofs.C01_EqFile Proofs.C01_EqFileHost
  Proofs.C01_EqFileAsm Proofs.C01_EqFileTwo Proofs.C01_EqFileRel2.

(* the last segment is not a normalized Windows drive letter *)
Definition last_not_nwdl (P : list (list N)) : bool :=
  match rev P with s :: _ => negb (is_normalized_windows_drive_letter s) | [] => true end.

Lemma shorten_f_last P : last_not_nwdl P = true -> shorten_f P = removelast P.
Proof.
  destruct P as [|p0 [|p1 P']]; [reflexivity | | reflexivity].
  unfold last_not_nwdl. cbn [rev app shorten_f]. intros H. apply negb_true_iff in H. rewrite H. reflexivity.
Qed.

(* ================= specification side ================= *)
(* the record the file state hands to the path state: scheme file, host of the base, the given segment list *)
Definition fkeep (sb : spec_url) (P : list (list N)) : spec_url :=
  mkSUrl str_file [] [] (su_host sb) None (SPList P) None None.

Lemma fkeep_rel_keep sb P : su_scheme sb = str_file -> spec_valid sb -> fkeep sb P = rel_keep sb P.
Proof.
  intros Hs [_ V]. destruct (V Hs) as (E1 & E2 & E3). unfold fkeep, rel_keep. rewrite Hs, E1, E2, E3. reflexivity.
Qed.

Section SpecFileRel.
Variable shp : bool -> list N -> option spec_host.
Variable inp : list N.                 (* the cleaned reference *)
Variable sb : spec_url.
Hypothesis Hop : has_opaque_path sb = false.
Hypothesis Hf : list_eqb (su_scheme sb) str_file = true.

Notation RunsB := (Runs shp inp (Some sb)).

Theorem runs_file_rel_path c t : inp = c :: t -> spec_scheme inp = None ->
  is_sl c = false -> (c =? 63) = false -> (c =? 35) = false ->
  starts_with_windows_drive_letter inp = false -> last_not_nwdl (path_segments sb) = true ->
  RunsB m0 (BDone (file_tail (fkeep sb (removelast (path_segments sb)))
                             (spath_f inp (removelast (path_segments sb)) []))).
Proof.
  intros Hin Hs Esl E63 E35 Hw Hl.
  assert (inp = [] ++ inp) as Hin0 by reflexivity.
  assert (inp <> []) as Hne by (rewrite Hin; discriminate).
  assert (su_path sb = SPList (path_segments sb)) as HP.
  { unfold path_segments. unfold has_opaque_path in Hop. destruct (su_path sb); [discriminate Hop | reflexivity]. }
  unfold is_sl in Esl. apply orb_false_iff in Esl. destruct Esl as [E47 E92].
  apply runs_no_scheme; [exact Hs|].
  eapply (runs_step_stay shp inp (Some sb) StNoScheme [] inp) with (st' := StFile) (buf' := []);
    [reflexivity | exact Hne | |].
  { rewrite (step_unfold shp inp (Some sb) _ [] inp) by reflexivity. cbn zeta.
    unfold st_no_scheme. rewrite Hop, Hf. cbn [andb negb]. reflexivity. }
  eapply (runs_step_stay shp inp (Some sb) StFile [] inp) with (st' := StPath) (buf' := [])
    (u' := fkeep sb (removelast (path_segments sb))); [reflexivity | exact Hne | |].
  - rewrite (step_unfold shp inp (Some sb) _ [] inp) by reflexivity. cbn zeta. rewrite Hin. cbn [hd_error tl].
    unfold st_file, base_is_file. rewrite Hf. cbn [cis]. rewrite E47, E92, E63, E35. cbn [orb].
    rewrite <- Hin, Hw. cbn [negb].
    unfold shorten_path.
    cbn [su_path su_scheme set_query set_path set_port set_host set_password set_username set_scheme empty_url m_url at_pos].
    rewrite HP.
    pose proof (shorten_f_last _ Hl) as Hsh. unfold shorten_f in Hsh.
    replace (list_eqb str_file str_file) with true by reflexivity. cbn [andb].
    destruct (path_segments sb) as [|p0 [|p1 P']] eqn:EP.
    + reflexivity.
    + unfold last_not_nwdl in Hl. cbn [rev app] in Hl. apply negb_true_iff in Hl. rewrite Hl. reflexivity.
    + reflexivity.
  - exact (runs_path_f shp inp (Some sb) inp [] [] false false false (fkeep sb (removelast (path_segments sb)))
             (removelast (path_segments sb)) Hin0 eq_refl eq_refl).
Qed.

End SpecFileRel.

(* ================= model side ================= *)
Lemma swdl_segment_spec l : starts_with_wdl_segment l = starts_with_windows_drive_letter (ntnl l).
Proof.
  unfold starts_with_wdl_segment.
  destruct (ntnl l) as [|a t1] eqn:E1.
  { rewrite (inp_next_none l E1). reflexivity. }
  destruct (inp_next_some l a t1 E1) as (r1 & En1 & Hr1 & _). rewrite En1.
  destruct t1 as [|b t2].
  { rewrite (inp_next_none r1 Hr1). reflexivity. }
  destruct (inp_next_some r1 b t2 Hr1) as (r2 & En2 & Hr2 & _). rewrite En2.
  cbn [starts_with_windows_drive_letter is_windows_drive_letter].
  destruct t2 as [|c t3].
  - rewrite (inp_next_none r2 Hr2). reflexivity.
  - destruct (inp_next_some r2 c t3 Hr2) as (r3 & En3 & _ & _). rewrite En3. unfold is_path_end.
    destruct (is_alpha a && ((b =? 58) || (b =? 124))); [|reflexivity]. cbn [andb]. lia.
Qed.

Lemma nwdl_no_lead x : is_normalized_wdl (47 :: x) = false.
Proof. apply nwdl_head_not_alpha. reflexivity. Qed.

(* shorten_path on "pre" + the serialized segment list P: the last segment goes, its '/' stays *)
Lemma shorten_path_segments_f pre P : forallb no_slash P = true -> P <> [] -> last_not_nwdl P = true ->
  Parser.shorten_path STFile (nlen pre) (pre ++ flat P) = POk (Bs pre (removelast P)).
Proof.
  intros Hns Hne Hl. unfold Parser.shorten_path, pop_path, flat.
  destruct (rev P) as [|x r] eqn:Er.
  { exfalso. apply Hne. rewrite <- (rev_involutive P), Er. reflexivity. }
  assert (P = rev r ++ [x]) as EP by (rewrite <- (rev_involutive P), Er; reflexivity).
  unfold last_not_nwdl in Hl. rewrite Er in Hl. apply negb_true_iff in Hl. rewrite <- is_nwdl_agree in Hl.
  set (P' := rev r) in *. rewrite EP in *. rewrite removelast_last.
  rewrite forallb_app in Hns. apply andb_true_iff in Hns. destruct Hns as [_ Hx].
  cbn [forallb] in Hx. rewrite andb_true_r in Hx.
  rewrite flat_map_snoc. set (X := flat_map (fun s => 47 :: s) P').
  replace (nlen (pre ++ X ++ 47 :: x) =? nlen pre) with false by (symmetry; apply N.eqb_neq; lenl).
  rewrite nskipn_app_len.
  assert (is_normalized_wdl (X ++ 47 :: x) = false) as ->.
  { destruct P' as [|q Q]; [apply nwdl_no_lead|]. unfold X. cbn [flat_map app]. apply nwdl_no_lead. }
  cbn [st_is_file andb].
  replace (nlen pre <? nlen (pre ++ X ++ 47 :: x)) with true by (symmetry; apply N.ltb_lt; lenl).
  rewrite (rfind_app_last 47 X x) by exact Hx.
  replace (pre ++ X ++ 47 :: x) with (((pre ++ X) ++ [47]) ++ x) by (rewrite <- !app_assoc; reflexivity).
  replace (nlen pre + nlen X + 1) with (nlen ((pre ++ X) ++ [47])) by lenl.
  rewrite nskipn_app_len, Hl. unfold truncate. rewrite nfirstn_app_len.
  f_equal. rewrite <- (app_nil_r (Bs pre P')). rewrite C01_EqFile.Bs_flat. unfold flat. rewrite flat_map_snoc.
  fold X. rewrite <- !app_assoc. reflexivity.
Qed.
