(* Proofs/C01_EqFileBase.v - third file-BASE arm of the C01 equivalence (task c01file4): a scheme-less, path-relative
   reference (first character not '/', '\', '?', '#'; the text does not start with a Windows drive letter) against a
   FILE base.  The Standard: no scheme state -> file state, "otherwise" arm: host, path of the base, shorten the
   path, path state.  parser.rs parse_file: shorten_path on the serialization of the base in front of its query,
   parse_path (file, has_host = true, the flag it returns is dropped), with_query_and_fragment with the offsets of
   the base.  Class: the LAST segment of the base path is not a normalized drive letter (then both "shorten" are
   removelast; parser.rs tests the whole path text against "X:" - never true - and pop_path refuses to pop a
   normalized drive letter in ANY position, F-C01-5), the model's path loop stays inside fpath_ok with has_host = true,
   and the collapse of leading slashes (parser.rs:1377) leaves the resulting list alone. *)
From Coq Require Import ZifyBool ZifyN.
From RU Require Import Base.Prelude Base.Utf8 Base.Utf8Facts Model.AsciiSet Gen.Tables
  Model.PercentEncoding Model.HostT Model.UrlRecord Model.Parser Model.Setters Model.WF Model.Host Model.KnownC08 Model.KnownC01
  Spec.Whatwg Spec.WhatwgHost Spec.WhatwgHostParse
  Proofs.ListN Proofs.C14_Set Proofs.C14_Enc Proofs.C14_Views Proofs.C02_Enc Proofs.C02_Parts
  Proofs.C02_Opaque Proofs.C02_Path Proofs.C02_PathL1 Proofs.C03_WF Proofs.C01_Tables Proofs.C08_Input Proofs.C09_Host
  Proofs.C01_EqRun Proofs.C01_EqEnc Proofs.C01_EqApi Proofs.C01_EqOpaque Proofs.C01_EqDots Proofs.C01_EqPathSpec
  Proofs.C06_List Proofs.C06_WFI Proofs.C06_Tail Proofs.C06_Steps Proofs.C06_FragQuery Proofs.C06_PathParser Proofs.C06_Path
  Proofs.C08_Simple Proofs.C08_Contain Proofs.C08_NoAuth
  Proofs.C01_EqRef Proofs.C01_EqPath Proofs.C01_EqOverflow Proofs.C01_EqEmpty Proofs.C01_EqClasses
  Proofs.C01_EqAuthSpec Proofs.C01_EqAuthModel Proofs.C01_EqAuth Proofs.C01_EqClasses2 Proofs.C01_EqRel Proofs.C01_EqRelPath
  Proofs.C01_EqRelArms Proofs.C01_EqRelBase
  Proofs.C01_EqSpSpec Proofs.C01_EqSpPath Proofs.C01_EqSpRel Proofs.C01_EqSpModel Proofs.C01_EqSp Proofs.C01_EqAbs
  Proofs.C01_EqSpBase Proofs.C01_EqAsm Proofs.C01_EqShape Proofs.C01_EqCover
  Proofs.C01_EqFileSpec Proofs.C01_EqFilePath Proofs.C01_EqFileRel Proofs.C01_EqFile Proofs.C01_EqFileHost
  Proofs.C01_EqFileAsm Proofs.C01_EqFileTwo Proofs.C01_EqFileRel2.

(* the last segment is not a normalized Windows drive letter *)
Definition last_not_nwdl (P : list (list N)) : bool :=
  match rev P with s :: _ => negb (is_normalized_windows_drive_letter s) | [] => true end.

Lemma shorten_f_last P : last_not_nwdl P = true -> shorten_f P = removelast P.
Proof.
  destruct P as [|p0 [|p1 P']]; [reflexivity | | reflexivity].
  unfold last_not_nwdl. cbn [rev app shorten_f]. intros H. apply negb_true_iff in H. rewrite H. reflexivity.
Qed.

(* ================= specification side ================= *)
(* the record the file state hands to the path state: scheme file, host of the base, the given segment list *)
Definition fkeep (sb : spec_url) (P : list (list N)) : spec_url :=
  mkSUrl str_file [] [] (su_host sb) None (SPList P) None None.

Lemma fkeep_rel_keep sb P : su_scheme sb = str_file -> spec_valid sb -> fkeep sb P = rel_keep sb P.
Proof.
  intros Hs [_ V]. destruct (V Hs) as (E1 & E2 & E3). unfold fkeep, rel_keep. rewrite Hs, E1, E2, E3. reflexivity.
Qed.

Section SpecFileRel.
Variable shp : bool -> list N -> option spec_host.
Variable inp : list N.                 (* the cleaned reference *)
Variable sb : spec_url.
Hypothesis Hop : has_opaque_path sb = false.
Hypothesis Hf : list_eqb (su_scheme sb) str_file = true.

Notation RunsB := (Runs shp inp (Some sb)).

Theorem runs_file_rel_path c t : inp = c :: t -> spec_scheme inp = None ->
  is_sl c = false -> (c =? 63) = false -> (c =? 35) = false ->
  starts_with_windows_drive_letter inp = false -> last_not_nwdl (path_segments sb) = true ->
  RunsB m0 (BDone (file_tail (fkeep sb (removelast (path_segments sb)))
                             (spath_f inp (removelast (path_segments sb)) []))).
Proof.
  intros Hin Hs Esl E63 E35 Hw Hl.
  assert (inp = [] ++ inp) as Hin0 by reflexivity.
  assert (inp <> []) as Hne by (rewrite Hin; discriminate).
  assert (su_path sb = SPList (path_segments sb)) as HP.
  { unfold path_segments. unfold has_opaque_path in Hop. destruct (su_path sb); [discriminate Hop | reflexivity]. }
  unfold is_sl in Esl. apply orb_false_iff in Esl. destruct Esl as [E47 E92].
  apply runs_no_scheme; [exact Hs|].
  eapply (runs_step_stay shp inp (Some sb) StNoScheme [] inp) with (st' := StFile) (buf' := []);
    [reflexivity | exact Hne | |].
  { rewrite (step_unfold shp inp (Some sb) _ [] inp) by reflexivity. cbn zeta.
    unfold st_no_scheme. rewrite Hop, Hf. cbn [andb negb]. reflexivity. }
  eapply (runs_step_stay shp inp (Some sb) StFile [] inp) with (st' := StPath) (buf' := [])
    (u' := fkeep sb (removelast (path_segments sb))); [reflexivity | exact Hne | |].
  - rewrite (step_unfold shp inp (Some sb) _ [] inp) by reflexivity. cbn zeta. rewrite Hin. cbn [hd_error tl].
    unfold st_file, base_is_file. rewrite Hf. cbn [cis]. rewrite E47, E92, E63, E35. cbn [orb].
    rewrite <- Hin, Hw. cbn [negb].
    unfold shorten_path.
    cbn [su_path su_scheme set_query set_path set_port set_host set_password set_username set_scheme empty_url m_url at_pos].
    rewrite HP.
    pose proof (shorten_f_last _ Hl) as Hsh. unfold shorten_f in Hsh.
    replace (list_eqb str_file str_file) with true by reflexivity. cbn [andb].
    destruct (path_segments sb) as [|p0 [|p1 P']] eqn:EP.
    + reflexivity.
    + unfold last_not_nwdl in Hl. cbn [rev app] in Hl. apply negb_true_iff in Hl. rewrite Hl. reflexivity.
    + reflexivity.
  - exact (runs_path_f shp inp (Some sb) inp [] [] false false false (fkeep sb (removelast (path_segments sb)))
             (removelast (path_segments sb)) Hin0 eq_refl eq_refl).
Qed.

End SpecFileRel.

(* ================= model side ================= *)
Lemma swdl_segment_spec l : starts_with_wdl_segment l = starts_with_windows_drive_letter (ntnl l).
Proof.
  unfold starts_with_wdl_segment.
  destruct (ntnl l) as [|a t1] eqn:E1.
  { rewrite (inp_next_none l E1). reflexivity. }
  destruct (inp_next_some l a t1 E1) as (r1 & En1 & Hr1 & _). rewrite En1.
  destruct t1 as [|b t2].
  { rewrite (inp_next_none r1 Hr1). reflexivity. }
  destruct (inp_next_some r1 b t2 Hr1) as (r2 & En2 & Hr2 & _). rewrite En2.
  cbn [starts_with_windows_drive_letter is_windows_drive_letter].
  destruct t2 as [|c t3].
  - rewrite (inp_next_none r2 Hr2). reflexivity.
  - destruct (inp_next_some r2 c t3 Hr2) as (r3 & En3 & _ & _). rewrite En3. unfold is_path_end.
    destruct (is_alpha a && ((b =? 58) || (b =? 124))); [|reflexivity]. cbn [andb]. lia.
Qed.

Lemma nwdl_no_lead x : is_normalized_wdl (47 :: x) = false.
Proof. apply nwdl_head_not_alpha. reflexivity. Qed.

(* shorten_path on "pre" + the serialized segment list P: the last segment goes, its '/' stays *)
Lemma shorten_path_segments_f pre P : forallb no_slash P = true -> P <> [] -> last_not_nwdl P = true ->
  Parser.shorten_path STFile (nlen pre) (pre ++ flat P) = POk (Bs pre (removelast P)).
Proof.
  intros Hns Hne Hl. unfold Parser.shorten_path, pop_path, flat.
  destruct (rev P) as [|x r] eqn:Er.
  { exfalso. apply Hne. rewrite <- (rev_involutive P), Er. reflexivity. }
  assert (P = rev r ++ [x]) as EP by (rewrite <- (rev_involutive P), Er; reflexivity).
  unfold last_not_nwdl in Hl. rewrite Er in Hl. apply negb_true_iff in Hl. rewrite <- is_nwdl_agree in Hl.
  set (P' := rev r) in *. rewrite EP in *. rewrite removelast_last.
  rewrite forallb_app in Hns. apply andb_true_iff in Hns. destruct Hns as [_ Hx].
  cbn [forallb] in Hx. rewrite andb_true_r in Hx.
  rewrite flat_map_snoc. set (X := flat_map (fun s => 47 :: s) P').
  replace (nlen (pre ++ X ++ 47 :: x) =? nlen pre) with false by (symmetry; apply N.eqb_neq; lenl).
  rewrite nskipn_app_len.
  assert (is_normalized_wdl (X ++ 47 :: x) = false) as ->.
  { destruct P' as [|q Q]; [apply nwdl_no_lead|]. unfold X. cbn [flat_map app]. apply nwdl_no_lead. }
  cbn [st_is_file andb].
  replace (nlen pre <? nlen (pre ++ X ++ 47 :: x)) with true by (symmetry; apply N.ltb_lt; lenl).
  rewrite (rfind_app_last 47 X x) by exact Hx.
  replace (pre ++ X ++ 47 :: x) with (((pre ++ X) ++ [47]) ++ x) by (rewrite <- !app_assoc; reflexivity).
  replace (nlen pre + nlen X + 1) with (nlen ((pre ++ X) ++ [47])) by lenl.
  rewrite nskipn_app_len, Hl. unfold truncate. rewrite nfirstn_app_len.
  f_equal. rewrite <- (app_nil_r (Bs pre P')). rewrite C01_EqFile.Bs_flat. unfold flat. rewrite flat_map_snoc.
  fold X. rewrite <- !app_assoc. reflexivity.
Qed.

(* the path loop of a file URL started behind "pre" + the segments P0 + '/' *)
Lemma loop_from_segments_f dbg pre r P0 : usv_list r -> forallb no_slash P0 = true ->
  fpath_ok true (ntnl r) P0 [] = true ->
  forallb C06_WFI.no_qh (flat P0) = true ->
  let P1 := fst (spath_f (ntnl r) P0 []) in
  strip_stable P1 = true ->
  parse_path dbg CUrlParser STFile true (nlen pre) (Bs pre P0) r = POk (pre ++ flat P1, true, cbb_rest r)
  /\ snd (spath_f (ntnl r) P0 []) = ntnl (cbb_rest r)
  /\ forallb C06_WFI.no_qh (flat P1) = true
  /\ forallb no_slash P1 = true /\ P1 <> [].
Proof.
  intros Hur Hns Hok Hqh P1 Hst.
  assert (pend_ok []) as Hp0 by (split; [constructor | reflexivity]).
  destruct (loop_exact_f pre dbg r P0 [] [] true Hur Hp0 Hns eq_refl Hok) as (segs & last & Hloop & Hfst & Hsnd).
  cbn [app rev utf8_encode flat_map encode] in Hfst, Hsnd.
  rewrite app_nil_r in Hloop.
  assert (forallb no_slash P1 = true) as Hns1 by (unfold P1; apply spath_f_no_slash; [exact Hns | reflexivity]).
  split; [|split; [exact Hsnd|split; [|split]]].
  - unfold parse_path. rewrite Hloop. rewrite C01_EqFile.Bs_flat, <- Hfst. fold P1.
    rewrite fixup_flat by exact Hns1. apply strip_f_stable in Hst. rewrite Hst. reflexivity.
  - apply flat_no_qh. unfold P1. apply spath_f_no_qh; [exact (segs_no_qh_of_flat P0 Hqh) | reflexivity].
  - exact Hns1.
  - unfold P1. rewrite Hfst. intros K. apply app_eq_nil in K. destruct K as [_ K]. discriminate K.
Qed.

Lemma wqf_plain_f se ue hs he hi po ps s rest : se + 3 <= ps ->
  UrlRecord.starts_with s_css (nskipn se s) = true ->
  with_query_and_fragment None CUrlParser STFile se ue hs he hi po ps s rest
  = (' (s2, qs, fs) <~ parse_query_and_fragment None CUrlParser STFile se s rest ;;
     POk (mkUrl s2 se ue hs he hi po ps qs fs)).
Proof.
  intros H Hc. unfold with_query_and_fragment.
  replace (ps =? se + 1) with false by lia.
  assert ((ps =? se + 3) && list_eqb (nfirstn (ps - se) (nskipn se s)) [58; 47; 46] = false) as ->.
  { destruct (ps =? se + 3) eqn:E; [|reflexivity]. cbn [andb]. apply N.eqb_eq in E. rewrite E.
    replace (se + 3 - se) with 3 by lia. apply starts_with_split in Hc. rewrite Hc. reflexivity. }
  cbn [pbind]. reflexivity.
Qed.

(* ================= the result record is related to the Standard's ================= *)
Section TransportF.
Variable dbg : bool.
Variable shs : spec_host -> list N.

(* related_auth_path_g (Proofs/C01_EqRelPath.v) without its hypothesis "the scheme is not file": the clause of
   spec_valid for file URLs (no credentials, no port) is inherited from the base *)
Theorem related_auth_path_any b sb h Pn q f :
  related dbg shs b sb -> su_host sb = Some h ->
  forallb C06_WFI.no_qh (flat_map (fun s => 47 :: s) Pn) = true -> Pn <> [] ->
  match q with Some Q => forallb no_h Q = true | None => True end ->
  related dbg shs (auth_path_url b (flat_map (fun s => 47 :: s) Pn) q f) (rel_url sb Pn q f).
Proof.
  intros R Eh HT HPn Hq'.
  pose proof (rel_wf _ _ _ _ R) as W.
  assert (has_authority_b b = true) as Ha by (rewrite (related_host_iff dbg shs b sb R), Eh; reflexivity).
  set (T := flat_map (fun s => 47 :: s) Pn) in *.
  assert (T = [] \/ exists r, T = 47 :: r) as HT2.
  { right. unfold T. destruct Pn as [|p0 Pr]; [contradiction|]. eexists. reflexivity. }
  destruct (auth_path_record dbg b T q f W Ha HT HT2 Hq') as (W' & SF & Pth & Qy & Fr).
  assert (ser (auth_path_url b T q f) = (nfirstn (path_start b) (ser b) ++ T) ++ qf_text q f) as EsU by reflexivity.
  assert (query_start (auth_path_url b T q f) = qf_qs (nlen (nfirstn (path_start b) (ser b) ++ T)) q) as EqU by reflexivity.
  assert (fragment_start (auth_path_url b T q f) = qf_fs (nlen (nfirstn (path_start b) (ser b) ++ T)) q f) as EfU by reflexivity.
  assert (scheme_end (auth_path_url b T q f) = scheme_end b) as EseU by reflexivity.
  set (U := auth_path_url b T q f) in *.
  destruct SF as (S1 & S2 & S3 & S4 & S5).
  destruct (accessors_reconcatenate dbg b W)
    as (sch & un & pw & hs & pth & qb & fb & Es1 & Eun & Epw & Ehs & Ept & Eq & Ef & _).
  pose proof (api_by_accessors dbg b W sch un pw hs pth qb fb Es1 Eun Epw Ehs Ept Eq Ef) as Ab.
  assert (api_of_model dbg U = Some (api_of_parts (ser U) sch un pw hs (port U) T q f)) as Ab'.
  { apply (api_by_accessors dbg _ W'); congruence. }
  rewrite (rel_api _ _ _ _ R) in Ab. unfold api_of_parts, spec_api_list in Ab.
  injection Ab as E1 E2 E3 E4 E5 E6 E7 E8 E9 E10.
  destruct (related_pre dbg shs b sb R) as [_ Epre].
  pose proof (path_start_le_len b W) as Lps.
  set (pre := nfirstn (path_start b) (ser b)) in *.
  assert (nlen pre = path_start b) as Lpre by (apply nlen_nfirstn; exact Lps).
  assert (forall q' f', spec_front shs (rel_url sb Pn q' f') = pre) as EF.
  { intros q' f'. rewrite Epre. unfold spec_front, includes_credentials, rel_url.
    cbn [su_scheme su_host su_username su_password su_port]. rewrite Eh. reflexivity. }
  pose proof (wf_auth_facts b W Ha) as F.
  pose proof (af_ue F) as B1. pose proof (af_hs F) as B2. pose proof (af_he F) as B3. pose proof (af_ps F) as B4.
  assert (agree_pre (path_start b) (ser b) (ser U)) as Pre.
  { rewrite EsU, <- app_assoc. apply agree_pre_nfirstn. exact Lps. }
  constructor.
  - exact W'.
  - rewrite Ab'. f_equal. unfold api_of_parts, spec_api_list. rewrite S5.
    apply list10_eq; [ | symmetry; exact E2 | symmetry; exact E3 | symmetry; exact E4 | symmetry; exact E5
                       | symmetry; exact E6 | symmetry; exact E7 | reflexivity | | ].
    + rewrite EsU. unfold get_href. rewrite serialize_url_front, EF.
      unfold rel_url, serialize_path. cbn [su_path su_query su_fragment]. fold T. unfold qf_text.
      rewrite <- !app_assoc. reflexivity.
    + destruct q as [[|a r]|]; reflexivity.
    + destruct f as [[|a r]|]; reflexivity.
  - (* before the fragment *)
    rewrite serialize_url_front, EF. unfold rel_url, serialize_path. cbn [su_path su_query su_fragment]. fold T.
    rewrite app_nil_r. unfold b_before_fragment. rewrite EfU, EsU. unfold qf_text.
    destruct f as [y|]; cbn [qf_fs qf_ftext].
    + rewrite <- nlen_app. rewrite app_assoc. rewrite nfirstn_app_exact. rewrite <- app_assoc. reflexivity.
    + rewrite app_nil_r, <- app_assoc. reflexivity.
  - (* before the query *)
    rewrite serialize_url_front.
    assert (set_query (rel_url sb Pn q f) None = rel_url sb Pn None f) as -> by reflexivity.
    rewrite EF. unfold rel_url, serialize_path. cbn [su_path su_query su_fragment qf_qtext app]. fold T.
    rewrite app_nil_r. unfold b_before_query. rewrite EqU, EfU, EsU. unfold qf_text.
    destruct q as [x|]; destruct f as [y|]; cbn [qf_qs qf_fs qf_qtext qf_ftext].
    + apply nfirstn_app_exact.
    + apply nfirstn_app_exact.
    + cbn [app]. rewrite nlen_nil, N.add_0_r. apply nfirstn_app_exact.
    + cbn [app]. apply app_nil_r.
  - (* cannot be a base *)
    rewrite (cannot_be_a_base_eval _ W'). cbn [has_opaque_path su_path rel_url]. f_equal.
    rewrite EseU. rewrite (pre_byte_eqb (path_start b) _ _ _ _ Pre) by lia.
    unfold has_authority_b in Ha. destruct (css_bytes _ _ Ha) as (_ & C2 & _).
    assert (byte_eqb (ser b) (scheme_end b + 1) 47 = true) as -> by (apply byte_eqb_true_iff; exact C2). reflexivity.
  - (* scheme *)
    transitivity (b_scheme b); [|exact (rel_sch _ _ _ _ R)]. unfold b_scheme. rewrite EseU.
    apply (pre_firstn _ _ _ _ Pre). lia.
  - destruct (rel_valid _ _ _ _ R) as [_ V]. split; [intros H; discriminate H|]. exact V.
Qed.

End TransportF.

(* ================= the arm: parse_path + with_query_and_fragment with the offsets of the base ================= *)
Section ArmsF.
Variable dbg : bool.
Variable shs : spec_host -> list N.

Definition arm_expr_f (b : url) (s0 r : list N) : pres url :=
  ' (s, _, rem) <~ parse_path dbg CUrlParser STFile true (path_start b) s0 r ;;
  with_query_and_fragment None CUrlParser STFile (scheme_end b) (username_end b) (host_start b) (host_end b)
                          (hosti b) (port b) (path_start b) s rem.

Lemma file_tail_rel_url sb P0 t l : su_scheme sb = str_file -> spec_valid sb ->
  snd (spath_f t P0 []) = ntnl l ->
  match l with [] => True | c :: _ => C02_Parts.is_qh c = true /\ is_tnl c = false end ->
  file_tail (fkeep sb P0) (spath_f t P0 []) = rel_url sb (fst (spath_f t P0 [])) (pqf_q STFile l) (pqf_f l).
Proof.
  intros Hs V Hsnd Hh. unfold file_tail. rewrite Hsnd, (fkeep_rel_keep sb P0 Hs V).
  set (P1 := fst (spath_f t P0 [])).
  assert (set_path (rel_keep sb P0) (SPList P1) = rel_keep sb P1) as -> by reflexivity.
  rewrite tail_url_f; [reflexivity | | reflexivity | reflexivity | exact Hh].
  unfold is_special, rel_keep. cbn [su_scheme]. rewrite Hs. reflexivity.
Qed.

Theorem path_arm_related_f b sb h P0 r :
  related dbg shs b sb -> has_opaque_path sb = false -> su_scheme sb = str_file -> su_host sb = Some h ->
  usv_list r -> forallb no_slash P0 = true -> forallb C06_WFI.no_qh (flat P0) = true ->
  fpath_ok true (ntnl r) P0 [] = true -> strip_stable (fst (spath_f (ntnl r) P0 [])) = true ->
  let su := file_tail (fkeep sb P0) (spath_f (ntnl r) P0 []) in
  exists u, oob (U32_MAX_P < nlen (ser u)) (arm_expr_f b (Bs (nfirstn (path_start b) (ser b)) P0) r) u
            /\ related dbg shs u su /\ spec_base_ok su = true.
Proof.
  intros R Hop Hs Eh Hur Hns0 Hqh0 Hok Hst su.
  pose proof (rel_wf _ _ _ _ R) as W. pose proof (path_start_le_len b W) as Lps.
  set (pre := nfirstn (path_start b) (ser b)).
  assert (nlen pre = path_start b) as Lpre by (apply nlen_nfirstn; exact Lps).
  destruct (loop_from_segments_f dbg pre r P0 Hur Hns0 Hok Hqh0 Hst) as (Hpp & Hsnd & Hqh1 & Hns1 & Hne1).
  rewrite Lpre in Hpp.
  set (P1 := fst (spath_f (ntnl r) P0 [])) in *.
  set (T := flat P1) in *.
  set (rest := cbb_rest r) in *.
  set (q := pqf_q STFile rest). set (f := pqf_f rest).
  assert (usv_list rest) as Hurest by (apply usv_cbb_rest; exact Hur).
  assert (su = rel_url sb P1 q f) as ES.
  { unfold su. rewrite (file_tail_rel_url sb P0 (ntnl r) rest Hs (rel_valid _ _ _ _ R) Hsnd (cbb_rest_head r)). reflexivity. }
  rewrite ES.
  assert (spec_base_ok (rel_url sb P1 q f) = true) as HBok.
  { unfold spec_base_ok, rel_url. cbn [su_scheme Whatwg.path_segments su_path]. rewrite Hs, Hns1. reflexivity. }
  assert (match ntnl rest with [] => True | c :: _ => is_qh c = true end) as Hhead.
  { pose proof (cbb_rest_head r) as Hh. fold rest in Hh. destruct rest as [|d dr]; [exact I|]. destruct Hh as [Hh1 Hh2].
    rewrite ntnl_cons by exact Hh2. exact Hh1. }
  assert (has_authority_b b = true) as Ha by (rewrite (related_host_iff dbg shs b sb R), Eh; reflexivity).
  pose proof (wf_auth_facts b W Ha) as F.
  pose proof (af_ue F) as B1. pose proof (af_hs F) as B2. pose proof (af_he F) as B3. pose proof (af_ps F) as B4.
  unfold arm_expr_f. fold pre. rewrite Hpp. cbn [pbind].
  exists (auth_path_url b T q f). split; [|split; [|exact HBok]].
  - rewrite wqf_plain_f; [|lia|].
    2:{ unfold has_authority_b in Ha. rewrite <- Ha.
        apply (pre_starts_with (path_start b)); [|change (nlen s_css) with 3; lia].
        apply agree_pre_nfirstn. exact Lps. }
    eapply oob_bind.
    { apply (pqf_oob None (U32_MAX_P < nlen (ser (auth_path_url b T q f)))); [exact Hurest | reflexivity | exact Hhead |].
      fold q f. intros Hlt. exact Hlt. }
    fold q f. right. reflexivity.
  - apply (related_auth_path_any dbg shs b sb h P1 q f R); [exact Eh | exact Hqh1 | exact Hne1 |].
    pose proof (pqf_q_clean_f rest Hurest) as Hq. fold q in Hq. destruct q as [Q|]; [|exact I].
    exact (clean_query_no_h STFile Q Hq).
Qed.

End ArmsF.

(* ================= the class ================= *)
(* recogniser on the Standard's side: the base is a file URL with a host (true of every parse result), its path is
   not empty and does not END in a normalized drive letter; the cleaned reference has no scheme, does not start with
   '/', '\', '?', '#' nor with a Windows drive letter; the path loop on it, started on the base path without its last
   segment, stays inside fpath_ok (has_host = true: no ".." on a drive-letter-shaped last segment, no drive letter
   becoming the first segment, no first segment going on after a drive-letter prefix) and the collapse of leading
   slashes leaves the resulting list alone *)
Definition file_base_ok (sb : spec_url) : bool :=
  negb (has_opaque_path sb) && list_eqb (su_scheme sb) str_file && opt_is_some (su_host sb)
  && negb (is_nil (Whatwg.path_segments sb)) && last_not_nwdl (Whatwg.path_segments sb).

Definition in_class_file_rel_path (sb : spec_url) (input : list N) : bool :=
  file_base_ok sb
  && match spec_scheme (spec_clean input) with None => true | Some _ => false end
  && match spec_clean input with
     | c :: t => negb (is_sl c) && negb (c =? 63) && negb (c =? 35)
                 && negb (starts_with_windows_drive_letter (c :: t))
                 && fpath_ok true (c :: t) (removelast (Whatwg.path_segments sb)) []
                 && strip_stable (fst (spath_f (c :: t) (removelast (Whatwg.path_segments sb)) []))
     | [] => false
     end.

Lemma file_base_ok_facts sb : file_base_ok sb = true ->
  has_opaque_path sb = false /\ su_scheme sb = str_file /\ (exists h, su_host sb = Some h)
  /\ Whatwg.path_segments sb <> [] /\ last_not_nwdl (Whatwg.path_segments sb) = true.
Proof.
  unfold file_base_ok. intros H. apply andb_true_iff in H. destruct H as [H H5]. apply andb_true_iff in H. destruct H as [H H4].
  apply andb_true_iff in H. destruct H as [H H3]. apply andb_true_iff in H. destruct H as [H1 H2].
  apply negb_true_iff in H1. apply list_eqb_spec in H2.
  repeat split; try assumption.
  - destruct (su_host sb) as [h|]; [exists h; reflexivity | discriminate H3].
  - intros E. rewrite E in H4. discriminate H4.
Qed.

Section RelClassF.
Variable dbg : bool.
Variable hp hpo : list N -> result host.
Variable hd : host -> list N.
Variable shp : bool -> list N -> option spec_host.
Variable shs : spec_host -> list N.

Theorem class_file_rel_path input b sb : usv_list input -> related dbg shs b sb ->
  spec_base_ok sb = true -> in_class_file_rel_path sb input = true ->
  exists su, spec_basic_url_parse shp input (Some sb) = BDone su /\ spec_base_ok su = true
    /\ agree_rel_strict dbg shs (parse_url dbg hp hpo hd None (Some b) input) (BDone su).
Proof.
  intros Hu R Hbok Hc. unfold in_class_file_rel_path in Hc.
  apply andb_true_iff in Hbok. destruct Hbok as [Hcan HnsP].
  apply andb_true_iff in Hc. destruct Hc as [Hc Hok]. apply andb_true_iff in Hc. destruct Hc as [Hb Hsch].
  destruct (file_base_ok_facts sb Hb) as (Hop & Hsf & (h & Eh) & HneP & Hlast).
  assert (list_eqb (su_scheme sb) str_file = true) as Hf by (apply list_eqb_spec; exact Hsf).
  assert (spec_scheme (spec_clean input) = None) as Hs by (destruct (spec_scheme (spec_clean input)); [discriminate | reflexivity]).
  destruct (spec_clean input) as [|c t] eqn:Ecl; [discriminate Hok|].
  apply andb_true_iff in Hok. destruct Hok as [Hok Hstab]. apply andb_true_iff in Hok. destruct Hok as [Hok Hfok].
  apply andb_true_iff in Hok. destruct Hok as [Hok Hw]. apply andb_true_iff in Hok. destruct Hok as [Hok E35].
  apply andb_true_iff in Hok. destruct Hok as [Esl E63]. apply negb_true_iff in Esl, E63, E35, Hw.
  set (P := Whatwg.path_segments sb) in *.
  set (su := file_tail (fkeep sb (removelast P)) (spath_f (c :: t) (removelast P) [])).
  exists su.
  assert (spec_basic_url_parse shp input (Some sb) = BDone su) as HS.
  { apply spec_parse_of_runs. rewrite Ecl.
    exact (runs_file_rel_path shp (c :: t) sb Hop Hf c t eq_refl Hs Esl E63 E35 Hw Hlast). }
  split; [exact HS|].
  (* the model *)
  pose proof (rel_wf _ _ _ _ R) as W. pose proof (path_start_le_len b W) as Lps.
  set (pre := nfirstn (path_start b) (ser b)).
  assert (nlen pre = path_start b) as Lpre by (apply nlen_nfirstn; exact Lps).
  destruct (related_pre dbg shs b sb R) as [Ebq _]. fold pre in Ebq.
  assert (serialize_path sb = flat P) as EPth.
  { unfold serialize_path, P, Whatwg.path_segments, flat. unfold has_opaque_path in Hop. destruct (su_path sb); [discriminate Hop | reflexivity]. }
  rewrite EPth in Ebq.
  assert (forallb C06_WFI.no_qh (flat P) = true) as HqhP.
  { pose proof (qf_facts_of b W) as (_ & _ & _ & Q4 & _).
    pose proof (before_query_path_end b W) as E. rewrite Ebq in E.
    destruct (wf_ps_le_path_end b W) as [L1 L2].
    assert (nfirstn (path_end b - path_start b) (nskipn (path_start b) (ser b)) = flat P) as EE.
    { rewrite <- (nfirstn_nskipn (path_start b) (nfirstn (path_end b) (ser b))) in E.
      rewrite nfirstn_nfirstn in E by lia. fold pre in E. apply app_inv_head in E. rewrite E.
      unfold nskipn, nfirstn. rewrite N2Nat.inj_sub. rewrite firstn_skipn_comm.
      replace (N.to_nat (path_start b) + (N.to_nat (path_end b) - N.to_nat (path_start b)))%nat with (N.to_nat (path_end b)) by lia.
      reflexivity. }
    rewrite EE in Q4. exact Q4. }
  rewrite spec_clean_is_ntnl_trim in Ecl. set (l0 := input_new_trim_c0 input) in *.
  assert (usv_list l0) as Hul0 by (apply usv_trim; exact Hu).
  destruct (inp_next_some l0 c t Ecl) as (r1 & En & Er1 & _).
  assert (scheme_type_of (b_scheme b) = STFile) as Hstb by (rewrite (rel_sch _ _ _ _ R), Hsf; reflexivity).
  assert (parse_url dbg hp hpo hd None (Some b) input = arm_expr_f dbg b (Bs pre (removelast P)) l0) as Epu.
  { rewrite (parse_url_file_rel dbg hp hpo hd b input c t (related_not_cbb dbg shs b sb R Hop) Hstb Ecl Hs E35).
    fold l0. unfold parse_file, inp_split_first. rewrite En. cbv iota beta.
    rewrite is_sl_model, Esl, E63, E35. rewrite swdl_segment_spec, Ecl, Hw. cbn [negb].
    rewrite Ebq, <- Lpre.
    rewrite (shorten_path_segments_f pre P HnsP HneP Hlast). cbn [pbind]. unfold arm_expr_f. rewrite <- Lpre. reflexivity. }
  rewrite <- Ecl in Hfok, Hstab.
  destruct (path_arm_related_f dbg shs b sb h (removelast P) l0 R Hop Hsf Eh Hul0
              (no_slash_removelast P HnsP) (removelast_prefix_no_qh_s P HqhP) Hfok Hstab) as (u & HO & Ru & Hbo).
  fold pre in HO. rewrite Ecl in Ru, Hbo. fold su in Ru, Hbo. split; [exact Hbo|]. rewrite Epu. exact (oob_agree dbg shs _ u _ HO Ru).
Qed.

End RelClassF.

(* ================= the class theorem in the shape of the assembly: agree_good, full_base result ================= *)
Lemma file_tail_shape_ok u r : su_scheme u = str_file -> base_shape_ok (file_tail u r) = true.
Proof.
  intros Hs. unfold file_tail. rewrite (shape_ok_of_shape _ _ (tail_url_shape _ _)). unfold base_shape_ok.
  cbn [su_scheme set_path]. rewrite Hs. reflexivity.
Qed.

Section RelClassFGood.
Variable dbg : bool.
Variable hp hpo : list N -> result host.
Variable hd : host -> list N.
Variable shp : bool -> list N -> option spec_host.
Variable shs : spec_host -> list N.

Theorem class_file_rel_path_good input b sb : usv_list input -> related dbg shs b sb ->
  spec_base_ok sb = true -> in_class_file_rel_path sb input = true ->
  agree_good dbg shs (parse_url dbg hp hpo hd None (Some b) input) (spec_basic_url_parse shp input (Some sb))
  /\ (forall su u, spec_basic_url_parse shp input (Some sb) = BDone su -> parse_url dbg hp hpo hd None (Some b) input = POk u ->
        full_base dbg shs u su).
Proof.
  intros Hu R Hbok Hc.
  destruct (class_file_rel_path dbg hp hpo hd shp shs input b sb Hu R Hbok Hc) as (su & HS & Hok & HA).
  assert (base_shape_ok su = true) as Hshape.
  { unfold in_class_file_rel_path in Hc. apply andb_true_iff in Hc. destruct Hc as [Hc Hok']. apply andb_true_iff in Hc. destruct Hc as [Hb Hsch].
    destruct (file_base_ok_facts sb Hb) as (Hop & Hsf & _ & _ & Hlast).
    assert (list_eqb (su_scheme sb) str_file = true) as Hf by (apply list_eqb_spec; exact Hsf).
    assert (spec_scheme (spec_clean input) = None) as Hs by (destruct (spec_scheme (spec_clean input)); [discriminate | reflexivity]).
    destruct (spec_clean input) as [|c t] eqn:Ecl; [discriminate Hok'|].
    apply andb_true_iff in Hok'. destruct Hok' as [Hok' _]. apply andb_true_iff in Hok'. destruct Hok' as [Hok' _].
    apply andb_true_iff in Hok'. destruct Hok' as [Hok' Hw]. apply andb_true_iff in Hok'. destruct Hok' as [Hok' E35].
    apply andb_true_iff in Hok'. destruct Hok' as [Esl E63]. apply negb_true_iff in Esl, E63, E35, Hw.
    assert (spec_basic_url_parse shp input (Some sb)
            = BDone (file_tail (fkeep sb (removelast (Whatwg.path_segments sb)))
                               (spath_f (c :: t) (removelast (Whatwg.path_segments sb)) []))) as HS2.
    { apply spec_parse_of_runs. rewrite Ecl.
      exact (runs_file_rel_path shp (c :: t) sb Hop Hf c t eq_refl Hs Esl E63 E35 Hw Hlast). }
    rewrite HS in HS2. inversion HS2. apply file_tail_shape_ok. reflexivity. }
  assert (agree_good dbg shs (parse_url dbg hp hpo hd None (Some b) input) (spec_basic_url_parse shp input (Some sb))) as G.
  { rewrite HS. apply agree_good_intro; [exact HA|]. intros su' E. inversion E; subst su'. exact Hok. }
  split; [exact G|]. intros su' u HS' HM. rewrite HS' in G. rewrite HS in HS'. inversion HS'; subst su'.
  split; [exact (agree_good_chain dbg shs _ su u G HM) | exact Hshape].
Qed.

End RelClassFGood.

(* the class theorem has no hypothesis on the host functions (no host is parsed: the host of the base is kept);
   instance for the parser model with the host model plugged in, bases in full_base *)
Theorem class_file_rel_path_model dbg idna : forall input b sb,
  usv_list input -> full_base dbg spec_host_serializer b sb -> in_class_file_rel_path sb input = true ->
  agree_good dbg spec_host_serializer
    (parse_url dbg (host_parse idna) host_parse_opaque host_display None (Some b) input)
    (spec_basic_url_parse (spec_host_parser idna) input (Some sb))
  /\ (forall su u, spec_basic_url_parse (spec_host_parser idna) input (Some sb) = BDone su ->
        parse_url dbg (host_parse idna) host_parse_opaque host_display None (Some b) input = POk u ->
        full_base dbg spec_host_serializer u su).
Proof.
  intros input b sb Hu [[R Hok] _] Hc. exact (class_file_rel_path_good dbg _ _ _ _ _ input b sb Hu R Hok Hc).
Qed.

(* non-vacuity: against the parse result of file://h/tmp/x the references  y ,  a/../b?q#f ,  ../../../up  are in the
   class (and in class 1 of Known_C01: not yet folded in); both sides give file://h/tmp/y, file://h/tmp/b?q#f,
   file://h/up with the same ten API strings *)
Example class_file_rel_path_nonvacuous :
  let idna := id_idna in
  let P base i := parse_url true (host_parse idna) host_parse_opaque host_display None base i in
  let S sbase i := spec_basic_url_parse (spec_host_parser idna) i sbase in
  let i1 := [121] in
  let i2 := [97;47;46;46;47;98;63;113;35;102] in
  let i3 := [46;46;47;46;46;47;46;46;47;117;112] in
  match P None file_base_text, S None file_base_text with
  | POk b, BDone sb =>
      let ok i h := in_class_file_rel_path sb i = true /\ known_c01 (Some b) i = 1
                    /\ match P (Some b) i, S (Some sb) i with
                       | POk u, BDone su => q_href u = h
                                            /\ api_of_model true u = Some (spec_api_list spec_host_serializer su)
                       | _, _ => False end in
      ok i1 [102;105;108;101;58;47;47;104;47;116;109;112;47;121]
      /\ ok i2 [102;105;108;101;58;47;47;104;47;116;109;112;47;98;63;113;35;102]
      /\ ok i3 [102;105;108;101;58;47;47;104;47;117;112]
  | _, _ => False
  end.
Proof. vm_compute. repeat split. Qed.

(* the exclusion "the base path does not end in a normalized drive letter" is necessary: against the parse result of
   file:///a/C: (the two sides agree on it) the reference  x  gives file:///a/x in the Standard (shorten: the path has
   two segments) but file:///a/C:x in parser.rs (pop_path refuses to pop "C:", and the path loop appends to the
   segment that was left without its '/') - the mechanism of F-C01-5 through shorten_path on the base *)
Example class_file_rel_path_exclusion_necessary :
  let idna := id_idna in
  let P base i := parse_url true (host_parse idna) host_parse_opaque host_display None base i in
  let S sbase i := spec_basic_url_parse (spec_host_parser idna) i sbase in
  let bt := [102;105;108;101;58;47;47;47;97;47;67;58] in
  match P None bt, S None bt with
  | POk b, BDone sb =>
      api_of_model true b = Some (spec_api_list spec_host_serializer sb)
      /\ file_base_ok sb = false /\ known_c01 (Some b) [120] = 1
      /\ match P (Some b) [120], S (Some sb) [120] with
         | POk u, BDone su => q_href u = [102;105;108;101;58;47;47;47;97;47;67;58;120]
                              /\ get_href spec_host_serializer su = [102;105;108;101;58;47;47;47;97;47;120]
         | _, _ => False end
  | _, _ => False
  end.
Proof. vm_compute. repeat split. Qed.
